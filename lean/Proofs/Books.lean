/-
  Proofs.Books — the event log accounts for the state along every history (C05, C19, C03).

  `vehBook` / `stnBook`: what is left of a vehicle's odometer, balance and energy gained, and of a
  station's balance and energy dispensed, once the events filed so far are deducted. One walk
  through all functions of the control model shows that nothing ever changes these books: every
  change of one of these quantities is filed, once, with exactly the amount of the change.
-/
import Proofs.EnterPost
import Proofs.Lift
import Proofs.WorldRun
import Mathlib.Tactic.Ring
import Mathlib.Tactic.Linarith
import Proofs.C04

namespace Hive
namespace Books

/-! ### sums over the event log -/

def moveKm (log : List Event) (v : VehicleId) : Rat :=
  (log.map fun | .move v' km _ => if v' = v then km else 0 | _ => 0).sum
def fares (log : List Event) (v : VehicleId) : Rat :=
  (log.map fun | .pickup v' _ fare _ => if v' = v then fare else 0 | _ => 0).sum
def paid (log : List Event) (v : VehicleId) : Rat :=
  (log.map fun | .charge v' _ _ _ cost => if v' = v then cost else 0 | _ => 0).sum
def charged (log : List Event) (v : VehicleId) : Rat :=
  (log.map fun | .charge v' _ _ amount _ => if v' = v then amount else 0 | _ => 0).sum
def received (log : List Event) (i : StationId) : Rat :=
  (log.map fun | .charge _ s _ _ cost => if s = i then cost else 0 | _ => 0).sum
def dispensed (log : List Event) (i : StationId) : Rat :=
  (log.map fun | .charge _ s _ amount _ => if s = i then amount else 0 | _ => 0).sum

section
variable (a : List Event) (e : Event) (v : VehicleId) (i : StationId)
@[simp] theorem moveKm_snoc : moveKm (a ++ [e]) v = moveKm a v + moveKm [e] v := by
  simp [moveKm, List.map_append, List.sum_append]
@[simp] theorem fares_snoc : fares (a ++ [e]) v = fares a v + fares [e] v := by
  simp [fares, List.map_append, List.sum_append]
@[simp] theorem paid_snoc : paid (a ++ [e]) v = paid a v + paid [e] v := by
  simp [paid, List.map_append, List.sum_append]
@[simp] theorem charged_snoc : charged (a ++ [e]) v = charged a v + charged [e] v := by
  simp [charged, List.map_append, List.sum_append]
@[simp] theorem received_snoc : received (a ++ [e]) i = received a i + received [e] i := by
  simp [received, List.map_append, List.sum_append]
@[simp] theorem dispensed_snoc : dispensed (a ++ [e]) i = dispensed a i + dispensed [e] i := by
  simp [dispensed, List.map_append, List.sum_append]
end

/-! ### the books -/

def vehMoney (veh : Vehicle) : Rat × Rat × Rat := (veh.odo, veh.balance, veh.en.gained)
def stnMoney (st : Station) : Rat × Rat := (st.balance, st.dispE + st.dispG)

def vehBook (w : World) (u : VehicleId) : Option (Rat × Rat × Rat) :=
  (w.sim.vehicle? u).map fun veh =>
    (veh.odo - moveKm w.log u, veh.balance - fares w.log u + paid w.log u, veh.en.gained - charged w.log u)

def stnBook (w : World) (i : StationId) : Option (Rat × Rat) :=
  (w.sim.station? i).map fun st => (st.balance - received w.log i, st.dispE + st.dispG - dispensed w.log i)

/-- nothing happened to the books between `w` and `w'` -/
def Same (w w' : World) : Prop := (∀ u, vehBook w' u = vehBook w u) ∧ (∀ i, stnBook w' i = stnBook w i)

theorem Same.refl (w : World) : Same w w := ⟨fun _ => rfl, fun _ => rfl⟩
theorem Same.trans {a b c : World} (h1 : Same a b) (h2 : Same b c) : Same a c :=
  ⟨fun u => (h2.1 u).trans (h1.1 u), fun i => (h2.2 i).trans (h1.2 i)⟩

/-- a change of the state that touches no account -/
structure Quiet (s s' : Sim) : Prop where
  veh : ∀ u, (s'.vehicle? u).map vehMoney = (s.vehicle? u).map vehMoney
  stn : ∀ i, (s'.station? i).map stnMoney = (s.station? i).map stnMoney

theorem Quiet.refl (s : Sim) : Quiet s s := ⟨fun _ => rfl, fun _ => rfl⟩
theorem Quiet.trans {a b c : Sim} (h1 : Quiet a b) (h2 : Quiet b c) : Quiet a c :=
  ⟨fun u => (h2.veh u).trans (h1.veh u), fun i => (h2.stn i).trans (h1.stn i)⟩

theorem Quiet.of_fields {s s' : Sim} (hv : s'.vehicles = s.vehicles) (hs : s'.stations = s.stations) : Quiet s s' :=
  ⟨fun u => by simp [Sim.vehicle?, hv], fun i => by simp [Sim.station?, hs]⟩

theorem Same.of_quiet {w w2 : World} (hq : Quiet w.sim w2.sim) (hl : w2.log = w.log) : Same w w2 := by
  refine ⟨fun u => ?_, fun i => ?_⟩
  · have := hq.veh u
    unfold vehBook
    rw [hl]
    cases h2 : w2.sim.vehicle? u <;> cases h1 : w.sim.vehicle? u <;> rw [h1, h2] at this <;>
      simp only [Option.map_some, Option.map_none, Option.some.injEq, vehMoney, Prod.mk.injEq, reduceCtorEq] at this ⊢
    obtain ⟨a, b, c⟩ := this
    rw [a, b, c]
    exact ⟨rfl, rfl, rfl⟩
  · have := hq.stn i
    unfold stnBook
    rw [hl]
    cases h2 : w2.sim.station? i <;> cases h1 : w.sim.station? i <;> rw [h1, h2] at this <;>
      simp only [Option.map_some, Option.map_none, Option.some.injEq, stnMoney, Prod.mk.injEq, reduceCtorEq] at this ⊢
    obtain ⟨a, b⟩ := this
    rw [a, b]
    exact ⟨rfl, rfl⟩

variable {env : Env}

/-! ### primitives -/

theorem modifyVehicle_quiet {s s' : Sim} {veh' old : Vehicle} (h : s.modifyVehicle env veh' = .ok s')
    (hold : s.vehicle? veh'.id = some old) (hm : vehMoney veh' = vehMoney old) : Quiet s s' := by
  obtain ⟨_, hv, hs, _⟩ := Sim.modifyVehicle_fields h
  refine ⟨fun u => ?_, fun i => by simp [Sim.station?, hs]⟩
  unfold Sim.vehicle?
  rw [hv]
  by_cases hu : u = veh'.id
  · subst hu
    rw [lookup_replaceById_self hold]
    have : lookup Vehicle.id s.vehicles veh'.id = some old := hold
    rw [this]
    simp [hm]
  · rw [lookup_replaceById_ne _ _ hu]

theorem applyAct_quiet {s s2 : Sim} {v : VehicleId} {a : Act} (h : applyAct env s v a = .ok s2) : Quiet s s2 := by
  unfold applyAct at h
  split at h
  · cases h
  · next veh hveh =>
    refine modifyVehicle_quiet h (old := veh) ?_ rfl
    simp only
    rw [(vehicle?_some hveh).2]; exact hveh

theorem modifyStation_quiet {s s' : Sim} {st' old : Station} (h : s.modifyStation env st' = .ok s')
    (hold : s.station? st'.id = some old) (hm : stnMoney st' = stnMoney old) : Quiet s s' := by
  obtain ⟨_, hs, _, hv, _⟩ := Sim.modifyStation_fields h
  refine ⟨fun u => by simp [Sim.vehicle?, hv], fun i => ?_⟩
  unfold Sim.station?
  rw [hs]
  by_cases hi : i = st'.id
  · subst hi
    rw [lookup_replaceById_self hold]
    have : lookup Station.id s.stations st'.id = some old := hold
    rw [this]
    simp [hm]
  · rw [lookup_replaceById_ne _ _ hi]

theorem modifyBase_quiet {s s' : Sim} {b : Base} (h : s.modifyBase env b = .ok s') : Quiet s s' := by
  obtain ⟨_, _, hs, hv, _⟩ := Sim.modifyBase_fields h
  exact Quiet.of_fields hv hs

theorem modifyRequest_quiet {s s' : Sim} {r : Request} (h : s.modifyRequest env r = .ok s') : Quiet s s' := by
  obtain ⟨_, _, hs, _, hv, _⟩ := Sim.modifyRequest_fields h
  exact Quiet.of_fields hv hs

theorem removeRequest_quiet {s s' : Sim} {i : RequestId} (h : s.removeRequest env i = .ok s') : Quiet s s' := by
  obtain ⟨_, _, hs, _, hv, _⟩ := Sim.removeRequest_fields h
  exact Quiet.of_fields hv hs

/-- a counter operation on one plug type of a station -/
theorem station_step_quiet {s s1 : Sim} {sid : StationId} {st st' : Station} {c : ChargerId}
    {op : ChargerState → Outcome ChargerState} (hst : s.station? sid = some st)
    (hup : st.updatePlug c op = .ok st') (hmod : s.modifyStation env st' = .ok s1) : Quiet s s1 := by
  have hshape : st'.id = st.id ∧ stnMoney st' = stnMoney st := by
    rcases Station.updatePlug_ok hup with ⟨_, rfl⟩ | ⟨cs, cs', _, _, rfl⟩
    · exact ⟨rfl, rfl⟩
    · exact ⟨rfl, rfl⟩
  refine modifyStation_quiet hmod (old := st) ?_ hshape.2
  rw [hshape.1]; exact station?_self hst

theorem exit_quiet {s s1 : Sim} {v : VehicleId} {a : Act} (h : exit env s v a = .ok s1) : Quiet s s1 := by
  cases a <;> simp only [exit] at h
  case idle | repositioning | outOfService | dispatchStation | dispatchBase => cases h; exact Quiet.refl _
  case reserveBase b =>
    split at h
    · cases h
    · simp only [Outcome.bind_eq, Outcome.bind_eq_ok] at h
      obtain ⟨base', _, h2⟩ := h
      exact modifyBase_quiet h2
  case chargingStation sid cid =>
    split at h
    · cases h
    · cases h
    · next _ st _ hst =>
      simp only [Outcome.bind_eq, Outcome.bind_eq_ok] at h
      obtain ⟨st', h1, h2⟩ := h
      exact station_step_quiet hst h1 h2
  case chargingBase b cid =>
    split at h
    · cases h
    · next base hbase =>
      split at h
      · cases h
      · split at h
        · cases h
        · next st hstb =>
          simp only [Outcome.bind_eq, Outcome.bind_eq_ok] at h
          obtain ⟨base', h1, s2, h2, st', h3, h4⟩ := h
          obtain ⟨_, _, hs2, _⟩ := Sim.modifyBase_fields h2
          obtain ⟨sid, hsid, hst⟩ : ∃ sid, base.station = some sid ∧ s.station? sid = some st := by
            cases hbs : base.station with
            | none => rw [hbs] at hstb; cases hstb
            | some sid => rw [hbs] at hstb; exact ⟨sid, rfl, hstb⟩
          have hst2 : s2.station? sid = some st := by
            unfold Sim.station? at *; rw [hs2]; exact hst
          exact (modifyBase_quiet h2).trans (station_step_quiet hst2 h3 h4)
  case chargeQueueing sid cid t =>
    split at h
    · cases h
    · next st hst =>
      simp only [Outcome.bind_eq, Outcome.bind_eq_ok] at h
      obtain ⟨st', h1, h2⟩ := h
      exact station_step_quiet hst h1 h2
  case dispatchTrip rid r =>
    split at h
    · cases h; exact Quiet.refl _
    · exact modifyRequest_quiet h
  case servicingTrip req dep r =>
    split at h
    · cases h; exact Quiet.refl _
    · cases h
  case servicingPooling | dispatchPooling => cases h

/-! ### the operations that file events -/

theorem modifyVehicle_lookup {s s' : Sim} {veh' : Vehicle} (h : s.modifyVehicle env veh' = .ok s') (u : VehicleId) :
    s'.vehicle? u = if u = veh'.id then some veh' else s.vehicle? u := by
  obtain ⟨⟨old, hold⟩, hv, _⟩ := Sim.modifyVehicle_fields h
  unfold Sim.vehicle?
  rw [hv]
  split
  · next hu => subst hu; exact lookup_replaceById_self hold
  · next hu => exact lookup_replaceById_ne _ _ hu

theorem modifyStation_lookup {s s' : Sim} {st' : Station} (h : s.modifyStation env st' = .ok s') (i : StationId) :
    s'.station? i = if i = st'.id then some st' else s.station? i := by
  obtain ⟨⟨old, hold, _⟩, hs, _⟩ := Sim.modifyStation_fields h
  unfold Sim.station?
  rw [hs]
  split
  · next hi => subst hi; exact lookup_replaceById_self hold
  · next hi => exact lookup_replaceById_ne _ _ hi

/-- the general shape: the events `evs` were filed, and every account moved by exactly what they say -/
theorem same_of {w w2 : World} {evs : List Event} (hl : w2.log = w.log ++ evs)
    (hv : ∀ u, (w2.sim.vehicle? u).map vehMoney =
      (w.sim.vehicle? u).map fun a => (a.odo + moveKm evs u, a.balance + fares evs u - paid evs u, a.en.gained + charged evs u))
    (hs : ∀ i, (w2.sim.station? i).map stnMoney =
      (w.sim.station? i).map fun a => (a.balance + received evs i, a.dispE + a.dispG + dispensed evs i)) : Same w w2 := by
  have app : ∀ (f : Event → Rat) (a b : List Event), ((a ++ b).map f).sum = (a.map f).sum + (b.map f).sum := by
    intro f a b; rw [List.map_append, List.sum_append]
  refine ⟨fun u => ?_, fun i => ?_⟩
  · have := hv u
    unfold vehBook
    rw [hl]
    cases h2 : w2.sim.vehicle? u <;> cases h1 : w.sim.vehicle? u <;> rw [h1, h2] at this <;>
      simp only [Option.map_some, Option.map_none, Option.some.injEq, vehMoney, Prod.mk.injEq, reduceCtorEq] at this ⊢
    obtain ⟨a, b, c⟩ := this
    rw [a, b, c]
    unfold moveKm fares paid charged
    rw [app, app, app, app]
    refine ⟨by ring, by ring, by ring⟩
  · have := hs i
    unfold stnBook
    rw [hl]
    cases h2 : w2.sim.station? i <;> cases h1 : w.sim.station? i <;> rw [h1, h2] at this <;>
      simp only [Option.map_some, Option.map_none, Option.some.injEq, stnMoney, Prod.mk.injEq, reduceCtorEq] at this ⊢
    obtain ⟨a, b⟩ := this
    rw [a, b]
    unfold received dispensed
    rw [app, app]
    refine ⟨by ring, by ring⟩

theorem pickUpTrip_same {w w1 : World} {v : VehicleId} {rid : RequestId}
    (h : pickUpTrip env w v rid = .ok w1) : Same w w1 := by
  unfold pickUpTrip at h
  split at h
  · cases h
  · cases h
  · next veh req hveh hreq =>
    simp only [Outcome.bind_eq, Outcome.bind_eq_ok, Outcome.pure_eq] at h
    obtain ⟨s1, h1, s2, h2, h3⟩ := h
    cases h3
    have hid : veh.id = v := (vehicle?_some hveh).2
    obtain ⟨_, _, hs2, _, hv2, _⟩ := Sim.removeRequest_fields h2
    obtain ⟨_, _, hs1, _⟩ := Sim.modifyVehicle_fields h1
    refine same_of (evs := [Event.pickup v rid req.value ((s1.time - req.departure) % 86400)]) rfl ?_ ?_
    · intro u
      simp only
      rw [vehicle?_congr hv2, modifyVehicle_lookup h1]
      simp only [hid]
      split
      · next hu =>
        subst hu
        rw [hveh]
        simp [vehMoney, moveKm, fares, paid, charged]
      · next hu =>
        cases w.sim.vehicle? u with
        | none => rfl
        | some a =>
          have : ¬ v = u := fun e => hu e.symm
          simp [vehMoney, moveKm, fares, paid, charged, this]
    · intro i
      have : s2.station? i = w.sim.station? i := by simp [Sim.station?, hs2, hs1]
      simp only
      rw [this]
      cases w.sim.station? i with
      | none => rfl
      | some a => simp [stnMoney, received, dispensed]

theorem dropOffTrip_same {w w2 : World} {v : VehicleId} {req : Request}
    (h : dropOffTrip w v req = .ok w2) : Same w w2 := by
  unfold dropOffTrip at h
  split at h
  · cases h
  · split at h
    · cases h
    · cases h
      refine same_of (evs := [Event.dropoff v req.id]) rfl ?_ ?_
      · intro u
        cases w.sim.vehicle? u with
        | none => rfl
        | some a => simp [vehMoney, moveKm, fares, paid, charged]
      · intro i
        cases w.sim.station? i with
        | none => rfl
        | some a => simp [stnMoney, received, dispensed]

/-! ### `enter`, `transition` -/

theorem enter_same {w w2 : World} {v : VehicleId} {next : Act}
    (h : enter env w v next = .ok w2) : Same w w2 := by
  have q : ∀ {s2 : Sim}, Quiet w.sim s2 → Same w { w with sim := s2 } := fun hq => Same.of_quiet hq rfl
  cases next <;> simp only [enter] at h
  case idle d =>
    simp only [Outcome.bind_eq, Outcome.bind_eq_ok, Outcome.pure_eq] at h
    obtain ⟨s2, h1, h2⟩ := h
    cases h2; exact q (applyAct_quiet h1)
  case outOfService =>
    simp only [Outcome.bind_eq, Outcome.bind_eq_ok, Outcome.pure_eq] at h
    obtain ⟨s2, h1, h2⟩ := h
    cases h2; exact q (applyAct_quiet h1)
  case repositioning route =>
    split at h
    · cases h
    · split at h
      · cases h
      · simp only [Outcome.bind_eq, Outcome.bind_eq_ok, Outcome.pure_eq] at h
        obtain ⟨s2, h1, h2⟩ := h
        cases h2; exact q (applyAct_quiet h1)
  case dispatchBase b route =>
    split at h
    · cases h
    · cases h
    · split at h
      · cases h
      · split at h
        · cases h
        · simp only [Outcome.bind_eq, Outcome.bind_eq_ok, Outcome.pure_eq] at h
          obtain ⟨s2, h1, h2⟩ := h
          cases h2; exact q (applyAct_quiet h1)
  case dispatchTrip rid route =>
    split at h
    · cases h
    · split at h
      · cases h
      · next req hreq =>
        split at h
        · cases h
        · split at h
          · cases h
          · simp only [Outcome.bind_eq, Outcome.bind_eq_ok, Outcome.pure_eq] at h
            obtain ⟨s1, h0, s2, h1, h2⟩ := h
            cases h2
            exact q ((modifyRequest_quiet h0).trans (applyAct_quiet h1))
  case servicingPooling => cases h
  case dispatchPooling => cases h
  case servicingTrip sreq dep route =>
    split at h
    · cases h
    · split at h
      · cases h
      · split at h
        · cases h
        · split at h
          · cases h
          · split at h
            · cases h
            · split at h
              · cases h
              · simp only [Outcome.bind_eq, Outcome.bind_eq_ok, Outcome.pure_eq] at h
                obtain ⟨w1, h0, s2, h1, h2⟩ := h
                cases h2
                exact (pickUpTrip_same h0).trans (Same.of_quiet (w := w1) (w2 := { w1 with sim := s2 }) (applyAct_quiet h1) rfl)
  case reserveBase b =>
    split at h
    · cases h
    · cases h
    · next veh base hveh hbase =>
      split at h
      · cases h
      · split at h
        · cases h
        · split at h
          · cases h
          · next base' hco =>
            simp only [Outcome.bind_eq, Outcome.bind_eq_ok, Outcome.pure_eq] at h
            obtain ⟨s1, h0, s2, h1, h2⟩ := h
            cases h2
            unfold Base.checkout at hco
            split at hco
            · cases hco
            · cases hco
              exact q ((modifyBase_quiet h0).trans (applyAct_quiet h1))
  case chargingStation sid cid =>
    split at h
    · cases h
    · cases h
    · next veh st hveh hst =>
      split at h
      · cases h
      · split at h
        · cases h
        · split at h
          · cases h
          · split at h
            · cases h
            · split at h
              · cases h
              · simp only [Outcome.bind_eq, Outcome.bind_eq_ok, Outcome.pure_eq] at h
                obtain ⟨st', hco, s1, h0, s2, h1, h2⟩ := h
                cases h2
                exact q ((station_step_quiet hst hco h0).trans (applyAct_quiet h1))
  case dispatchStation sid cid route =>
    split at h
    · cases h
    · cases h
    · next veh st hveh hst =>
      split at h
      · split at h
        · cases h
        · split at h
          · cases h
          · split at h
            · cases h
            · split at h
              · cases h
              · simp only [Outcome.bind_eq, Outcome.bind_eq_ok, Outcome.pure_eq] at h
                obtain ⟨st', hco, s1, h0, s2, h1, h2⟩ := h
                cases h2
                exact q ((station_step_quiet hst hco h0).trans (applyAct_quiet h1))
      · split at h
        · cases h
        · split at h
          · cases h
          · simp only [Outcome.bind_eq, Outcome.bind_eq_ok, Outcome.pure_eq] at h
            obtain ⟨s2, h1, h2⟩ := h
            cases h2; exact q (applyAct_quiet h1)
  case chargeQueueing sid cid t =>
    split at h
    · cases h
    · cases h
    · next veh st hveh hst =>
      split at h
      · cases h
      · split at h
        · cases h
        · split at h
          · cases h
          · split at h
            · cases h
            · simp only [Outcome.bind_eq, Outcome.bind_eq_ok, Outcome.pure_eq] at h
              obtain ⟨st', henq, s1, h0, s2, h1, h2⟩ := h
              cases h2
              exact q ((station_step_quiet hst henq h0).trans (applyAct_quiet h1))
  case chargingBase b cid =>
    split at h
    · cases h
    · cases h
    · next veh base hveh hbase =>
      split at h
      · cases h
      · next sid hsid =>
        split at h
        · cases h
        · next st hst =>
          split at h
          · cases h
          · split at h
            · cases h
            · split at h
              · cases h
              · split at h
                · cases h
                · split at h
                  · cases h
                  · next base' hcob =>
                    split at h
                    · cases h
                    · split at h
                      · cases h
                      · simp only [Outcome.bind_eq, Outcome.bind_eq_ok, Outcome.pure_eq] at h
                        obtain ⟨st', hco, s1, h0, s2, h1, s3, h2, h3⟩ := h
                        cases h3
                        unfold Base.checkout at hcob
                        split at hcob
                        · cases hcob
                        · cases hcob
                          obtain ⟨_, _, hs1, _⟩ := Sim.modifyBase_fields h0
                          have hst1 : s1.station? sid = some st := by
                            unfold Sim.station? at *; rw [hs1]; exact hst
                          exact q (((modifyBase_quiet h0).trans (station_step_quiet hst1 hco h1)).trans (applyAct_quiet h2))


theorem transition_same {w w2 : World} {v : VehicleId} {prev next : Act}
    (h : transition env w v prev next = .ok w2) : Same w w2 := by
  unfold transition at h
  simp only [Outcome.bind_eq, Outcome.bind_eq_ok] at h
  obtain ⟨s1, h1, h2⟩ := h
  exact (Same.of_quiet (w := w) (w2 := { w with sim := s1 }) (exit_quiet h1) rfl).trans (enter_same h2)

/-! ### `_perform_update`, `default_update` -/

/-- what the books need from the physics: only charging books a gain, and it books exactly what it
    adds to the level (the model's `add_energy`, `idle` and `consume_energy` do: `concrete_gainEnv`) -/
structure GainEnv (env : Env) : Prop where
  idle : ∀ veh dt, (env.idle veh dt).gained = veh.en.gained
  consume : ∀ veh route, (env.consume veh route).gained = veh.en.gained
  add : ∀ veh cs dt, (env.addEnergy veh cs dt).gained - veh.en.gained = (env.addEnergy veh cs dt).level - veh.en.level

theorem modifyVehicle_same {w : World} {s : Sim} {veh' old : Vehicle} (h : w.sim.modifyVehicle env veh' = .ok s)
    (hold : w.sim.vehicle? veh'.id = some old) (hm : vehMoney veh' = vehMoney old) : Same w { w with sim := s } :=
  Same.of_quiet (modifyVehicle_quiet h hold hm) rfl

theorem move_same (hg : GainEnv env) {w w2 : World} {v : VehicleId} (h : move env w v = .ok w2) : Same w w2 := by
  unfold move at h
  split at h
  · cases h
  · next veh hveh =>
    have hid : veh.id = v := (vehicle?_some hveh).2
    split at h
    · cases h
    · split at h
      · cases h
      · next route _ =>
        simp only [Outcome.bind_eq, Outcome.bind_eq_ok, Outcome.pure_eq] at h
        obtain ⟨tr, htr, h⟩ := h
        split at h
        · simp only [Outcome.bind_eq, Outcome.bind_eq_ok, Outcome.pure_eq] at h
          obtain ⟨s2, h1, h2⟩ := h
          cases h2
          exact modifyVehicle_same h1 (old := veh) (by simp only; rw [hid]; exact hveh) rfl
        · split at h
          · simp only [Outcome.bind_eq, Outcome.bind_eq_ok, Outcome.pure_eq] at h
            obtain ⟨s2, h1, h2⟩ := h
            cases h2
            refine Same.of_quiet ?_ rfl
            split at h1
            · next s' hexit => exact (exit_quiet hexit).trans (applyAct_quiet h1)
            · exact applyAct_quiet h1
          · split at h
            · cases h
            · next last _ =>
              simp only [Outcome.bind_eq, Outcome.bind_eq_ok, Outcome.pure_eq] at h
              obtain ⟨s2, h1, h2⟩ := h
              cases h2
              obtain ⟨_, _, hs1, _⟩ := Sim.modifyVehicle_fields h1
              refine same_of (evs := [Event.move v tr.km ((env.consume veh tr.experienced).level - veh.en.level)]) rfl ?_ ?_
              · intro u
                simp only
                rw [modifyVehicle_lookup h1]
                simp only [hid]
                split
                · next hu =>
                  subst hu
                  rw [hveh]
                  simp [vehMoney, moveKm, fares, paid, charged, hg.consume]
                · next hu =>
                  cases w.sim.vehicle? u with
                  | none => rfl
                  | some a =>
                    have : ¬ v = u := fun e => hu e.symm
                    simp [vehMoney, moveKm, fares, paid, charged, this]
              · intro i
                have : s2.station? i = w.sim.station? i := by simp [Sim.station?, hs1]
                simp only
                rw [this]
                cases w.sim.station? i with
                | none => rfl
                | some a => simp [stnMoney, received, dispensed]

theorem charge_same (hg : GainEnv env) {w w2 : World} {v : VehicleId} {sid : StationId} {cid : ChargerId}
    (h : charge env w v sid cid = .ok w2) : Same w w2 := by
  unfold charge at h
  split at h
  · cases h
  · next st hst =>
    split at h
    · cases h
    · next veh hveh =>
      have hid : veh.id = v := (vehicle?_some hveh).2
      have hsid : st.id = sid := (station?_some hst).2
      split at h
      · cases h
      · split at h
        · cases h
        · next cs hcs =>
          split at h
          · cases h
          · simp only [Outcome.bind_eq, Outcome.bind_eq_ok, Outcome.pure_eq] at h
            obtain ⟨s1, h1, s2, h2, h3⟩ := h
            cases h3
            obtain ⟨_, _, hs1, _⟩ := Sim.modifyVehicle_fields h1
            obtain ⟨_, _, _, hv2, _⟩ := Sim.modifyStation_fields h2
            refine same_of (evs := [Event.charge v sid cid ((env.addEnergy veh cs w.sim.dt).level - veh.en.level)
              (((env.addEnergy veh cs w.sim.dt).level - veh.en.level) * cs.price)]) rfl ?_ ?_
            · intro u
              simp only
              rw [vehicle?_congr hv2, modifyVehicle_lookup h1]
              simp only [hid]
              split
              · next hu =>
                subst hu
                rw [hveh]
                have := hg.add veh cs w.sim.dt
                simp only [Option.map_some, vehMoney, moveKm, fares, paid, charged, List.map_cons, List.map_nil,
                  List.sum_cons, List.sum_nil, if_true, Option.some.injEq, Prod.mk.injEq]
                refine ⟨by ring, by ring, by linarith⟩
              · next hu =>
                cases w.sim.vehicle? u with
                | none => rfl
                | some a =>
                  have : ¬ v = u := fun e => hu e.symm
                  simp [vehMoney, moveKm, fares, paid, charged, this]
            · intro i
              simp only
              rw [modifyStation_lookup h2]
              simp only [hsid]
              have hst1 : s1.station? i = w.sim.station? i := by simp [Sim.station?, hs1]
              split
              · next hi =>
                subst hi
                rw [hst]
                simp only [Option.map_some, stnMoney, received, dispensed, List.map_cons, List.map_nil,
                  List.sum_cons, List.sum_nil, if_true, Option.some.injEq, Prod.mk.injEq]
                refine ⟨by ring, ?_⟩
                cases cs.electric <;> simp <;> ring
              · next hi =>
                rw [hst1]
                cases w.sim.station? i with
                | none => rfl
                | some a =>
                  have : ¬ sid = i := fun e => hi e.symm
                  simp [stnMoney, received, dispensed, this]

theorem performUpdate_same (hg : GainEnv env) {w w2 : World} {v : VehicleId} {a : Act}
    (h : performUpdate env w v a = .ok w2) : Same w w2 := by
  cases a <;> simp only [performUpdate] at h
  case idle d =>
    split at h
    · cases h
    · next veh hveh =>
      split at h
      · cases h
      · simp only [Outcome.bind_eq, Outcome.bind_eq_ok, Outcome.pure_eq] at h
        obtain ⟨s2, h1, h2⟩ := h
        cases h2
        refine modifyVehicle_same h1 (old := veh) (by simp only; rw [(vehicle?_some hveh).2]; exact hveh) ?_
        simp [vehMoney, hg.idle]
  case outOfService | reserveBase => cases h; exact Same.refl _
  case repositioning | dispatchTrip | dispatchStation | dispatchBase => exact move_same hg h
  case servicingTrip req dep r =>
    simp only [Outcome.bind_eq, Outcome.bind_eq_ok, Outcome.pure_eq] at h
    obtain ⟨w1, h1, h2⟩ := h
    have s1 := move_same hg h1
    split at h2
    · cases h2
    · split at h2
      · cases h2; exact s1
      · split at h2
        · exact s1.trans (dropOffTrip_same h2)
        · cases h2; exact s1
      · cases h2; exact s1
  case chargingStation sid cid => exact charge_same hg h
  case chargingBase b cid =>
    split at h
    · cases h
    · exact charge_same hg h
  case chargeQueueing sid cid t =>
    split at h
    · cases h
    · next veh hveh =>
      split at h
      · cases h
      · simp only [Outcome.bind_eq, Outcome.bind_eq_ok, Outcome.pure_eq] at h
        obtain ⟨s2, h1, h2⟩ := h
        cases h2
        refine modifyVehicle_same h1 (old := veh) (by simp only; rw [(vehicle?_some hveh).2]; exact hveh) ?_
        simp [vehMoney, hg.idle]
  case servicingPooling | dispatchPooling => cases h

theorem defaultUpdate_same (hg : GainEnv env) {w w2 : World} {v : VehicleId} {a : Act}
    (h : defaultUpdate env w v a = .ok w2) : Same w w2 := by
  unfold defaultUpdate at h
  split at h
  · simp only [Outcome.bind_eq, Outcome.bind_eq_ok] at h
    obtain ⟨next, _, w1, htr, h3⟩ := h
    split at h3
    · cases h3
    · exact (transition_same htr).trans (performUpdate_same hg h3)
  · exact performUpdate_same hg h

/-! ### phases and runs -/

theorem applyPlans_same : ∀ (ps : List (Instr × VehicleId × Act × Act)) (w : World), Same w (applyPlans env w ps)
  | [], w => Same.refl w
  | (i, v, prev, next) :: ps, w => by
    simp only [applyPlans]
    split
    · next w' htr =>
      refine ((transition_same htr).trans ?_).trans (applyPlans_same ps _)
      exact Same.of_quiet (Quiet.of_fields rfl rfl) rfl
    · exact applyPlans_same ps w

/-- **`apply_instructions` leaves the books alone** - any instruction list -/
theorem applyInstructions_same (w : World) (is : List Instr) : Same w (applyInstructions env w is) :=
  applyPlans_same _ w

theorem stepVehicle_same (hg : GainEnv env) (w : World) (v : VehicleId) (a : Act) : Same w (stepVehicle env w v a) := by
  unfold stepVehicle
  split
  · next w' h => exact defaultUpdate_same hg h
  · exact Same.refl w

theorem fold_same (hg : GainEnv env) : ∀ (order : List Vehicle) (w : World),
    Same w (order.foldl (fun acc v => stepVehicle env acc v.id v.act) w)
  | [], w => Same.refl w
  | x :: xs, w => by
    rw [List.foldl_cons]
    exact (stepVehicle_same hg w x.id x.act).trans (fold_same hg xs _)

/-- **`perform_vehicle_state_updates` leaves the books alone** -/
theorem vehicleUpdates_same (hg : GainEnv env) (w : World) : Same w (vehicleUpdates env w) :=
  fold_same hg _ w

theorem silent_same {w : World} {s' : Sim} {e : Event} (hq : Quiet w.sim s')
    (hm : ∀ u, moveKm [e] u = 0 ∧ fares [e] u = 0 ∧ paid [e] u = 0 ∧ charged [e] u = 0)
    (hr : ∀ i, received [e] i = 0 ∧ dispensed [e] i = 0) :
    Same w { sim := s', log := w.log ++ [e] } := by
  refine same_of (evs := [e]) rfl ?_ ?_
  · intro u
    simp only
    rw [hq.veh u]
    obtain ⟨a, b, c, d⟩ := hm u
    cases w.sim.vehicle? u with
    | none => rfl
    | some x => simp [vehMoney, a, b, c, d]
  · intro i
    simp only
    rw [hq.stn i]
    obtain ⟨a, b⟩ := hr i
    cases w.sim.station? i with
    | none => rfl
    | some x => simp [stnMoney, a, b]

theorem addRequest_quiet {s s' : Sim} {r : Request} (h : s.addRequest env r = .ok s') : Quiet s s' := by
  unfold Sim.addRequest at h
  split at h
  · cases h
  · split at h
    · cases h; exact Quiet.of_fields rfl rfl
    · simp only [Outcome.bind_eq, Outcome.bind_eq_ok, Outcome.pure_eq] at h
      obtain ⟨s1, h1, h2⟩ := h
      cases h2
      exact (removeRequest_quiet h1).trans (Quiet.of_fields rfl rfl)

theorem shifts_zero : ∀ (evs : List Event), (∀ e ∈ evs, ∃ v b, e = Event.shift v b) → ∀ u,
    moveKm evs u = 0 ∧ fares evs u = 0 ∧ paid evs u = 0 ∧ charged evs u = 0 ∧ received evs u = 0 ∧ dispensed evs u = 0
  | [], _, _ => by simp [moveKm, fares, paid, charged, received, dispensed]
  | e :: es, h, u => by
    obtain ⟨v, b, rfl⟩ := h e List.mem_cons_self
    have := shifts_zero es (fun x hx => h x (List.mem_cons_of_mem _ hx)) u
    simpa [moveKm, fares, paid, charged, received, dispensed] using this

theorem prices_quiet (names : Nat → List StationId) (rd : Timed.Reader Timed.PriceRow) (s : Sim) :
    Quiet s (Timed.priceUpdate env names rd s).1 := by
  obtain ⟨hv, _, _, hs⟩ := priceUpdate_only (env := env) names rd s
  refine ⟨fun u => by simp [Sim.vehicle?, hv], fun i => ?_⟩
  have := congrArg (Option.map fun (p : Rat × Rat × Rat) => (p.1, p.2.1 + p.2.2)) (hs i)
  simp only [Option.map_map, Function.comp_def] at this
  exact this

theorem drivers_same (tbl : List Shift.Entry) (w : World) : Same w (Shift.driverUpdates env tbl w) := by
  have hd := driverUpdates_only (env := env) tbl w
  obtain ⟨evs, hl, hall⟩ := hd.log
  refine same_of (evs := evs) hl ?_ ?_
  · intro u
    obtain ⟨a, b, c, d, _, _⟩ := shifts_zero evs hall u
    have := congrArg (Option.map fun (p : VehicleId × Pos × Membership × MechId × Energy × Act × Rat × Rat) =>
      (p.2.2.2.2.2.2.2, p.2.2.2.2.2.2.1, p.2.2.2.2.1.gained)) (hd.veh u)
    simp only [Option.map_map, Function.comp_def, vehRest] at this
    rw [a, b, c, d]
    simp only [add_zero, sub_zero]
    exact this
  · intro i
    obtain ⟨_, _, _, _, e, f⟩ := shifts_zero evs hall i
    rw [e, f]
    simp only [add_zero]
    have : (Shift.driverUpdates env tbl w).sim.station? i = w.sim.station? i := by simp [Sim.station?, hd.stations]
    rw [this]
    rfl

theorem phase_same (hg : GainEnv env) {w w' : World} (h : WPhase env w w') : Same w w' := by
  cases h with
  | instructions is => exact applyInstructions_same w is
  | updates => exact vehicleUpdates_same hg w
  | tick => exact Same.of_quiet (Quiet.of_fields rfl rfl) rfl
  | arrival _ _ _ h => exact silent_same (addRequest_quiet h) (fun _ => by simp [moveKm, fares, paid, charged]) (fun _ => by simp [received, dispensed])
  | cancel h => exact silent_same (removeRequest_quiet h) (fun _ => by simp [moveKm, fares, paid, charged]) (fun _ => by simp [received, dispensed])
  | prices names rd => exact Same.of_quiet (prices_quiet names rd w.sim) rfl
  | drivers tbl => exact drivers_same tbl w

/-- **the books never change**: along every history of phases, whatever the instructions -/
theorem reachable_same (hg : GainEnv env) {w0 w : World} (h : WReachable env w0 w) : Same w0 w := by
  induction h with
  | init => exact Same.refl _
  | step _ hp ih => exact ih.trans (phase_same hg hp)

/-! ### what the books say about a run -/

/-- the driver's environment (physics of `Hive.Energy`) books gains exactly as the statement needs -/
theorem concrete_gainEnv (o : Oracle) (mechs : List Mech) : GainEnv (o.env mechs) where
  idle := by
    intro veh dt
    show (match mechOf mechs veh.mech with | some m => m.idle veh.en dt | none => veh.en).gained = veh.en.gained
    cases mechOf mechs veh.mech <;> rfl
  consume := by
    intro veh route
    show (match mechOf mechs veh.mech with | some m => m.consume veh.en route | none => veh.en).gained = veh.en.gained
    cases mechOf mechs veh.mech <;> rfl
  add := by
    intro veh cs dt
    show (match mechOf mechs veh.mech with | some m => m.addEnergy veh.en cs.electric cs.rate dt | none => veh.en).gained - veh.en.gained
      = (match mechOf mechs veh.mech with | some m => m.addEnergy veh.en cs.electric cs.rate dt | none => veh.en).level - veh.en.level
    cases mechOf mechs veh.mech with
    | none => simp
    | some m => simp only; rw [Mech.addEnergy_gained]; ring

section Run
variable (hg : GainEnv env) {w0 w : World} (h : WReachable env w0 w) (h0 : w0.log = [])
include hg h h0

omit h0 in
/-- vehicles and stations neither appear nor disappear -/
theorem run_entities (v : VehicleId) (i : StationId) :
    ((w.sim.vehicle? v).isSome = (w0.sim.vehicle? v).isSome) ∧ ((w.sim.station? i).isSome = (w0.sim.station? i).isSome) := by
  obtain ⟨hv, hs⟩ := reachable_same hg h
  have a := congrArg Option.isSome (hv v)
  have b := congrArg Option.isSome (hs i)
  simp only [vehBook, stnBook, Option.isSome_map] at a b
  exact ⟨a, b⟩

/-- **per vehicle, the log explains odometer, balance and energy gained exactly** -/
theorem run_vehicle {v : VehicleId} {veh0 veh : Vehicle} (hv0 : w0.sim.vehicle? v = some veh0)
    (hv : w.sim.vehicle? v = some veh) :
    veh.odo = veh0.odo + moveKm w.log v ∧
    veh.balance = veh0.balance + fares w.log v - paid w.log v ∧
    veh.en.gained = veh0.en.gained + charged w.log v := by
  have := (reachable_same hg h).1 v
  unfold vehBook at this
  rw [hv, hv0, h0] at this
  simp only [Option.map_some, Option.some.injEq, Prod.mk.injEq, moveKm, fares, paid, charged, List.map_nil,
    List.sum_nil, sub_zero, add_zero] at this
  obtain ⟨a, b, c⟩ := this
  unfold moveKm fares paid charged
  refine ⟨by linarith, by linarith, by linarith⟩

/-- **per station, the log explains balance and energy dispensed exactly** -/
theorem run_station {i : StationId} {st0 st : Station} (hs0 : w0.sim.station? i = some st0)
    (hs : w.sim.station? i = some st) :
    st.balance = st0.balance + received w.log i ∧
    st.dispE + st.dispG = st0.dispE + st0.dispG + dispensed w.log i := by
  have := (reachable_same hg h).2 i
  unfold stnBook at this
  rw [hs, hs0, h0] at this
  simp only [Option.map_some, Option.some.injEq, Prod.mk.injEq, received, dispensed, List.map_nil,
    List.sum_nil, sub_zero] at this
  obtain ⟨a, b⟩ := this
  unfold received dispensed
  refine ⟨by linarith, by linarith⟩

end Run

/-- every charge event counts the same energy and the same payment on the vehicle's and on the
    station's side: summed over any set of vehicles that covers the log and any set of stations
    that covers it, the totals agree -/
def chargeTotals (log : List Event) : Rat × Rat :=
  ((log.map fun | .charge _ _ _ a _ => a | _ => 0).sum, (log.map fun | .charge _ _ _ _ c => c | _ => 0).sum)

theorem sum_indicator (ids : List Nat) (hnd : ids.Nodup) (x : Nat) (hx : x ∈ ids) (a : Rat) :
    (ids.map fun u => if x = u then a else 0).sum = a := by
  induction ids with
  | nil => cases hx
  | cons y ys ih =>
    rw [List.nodup_cons] at hnd
    simp only [List.map_cons, List.sum_cons]
    rcases List.mem_cons.mp hx with rfl | hm
    · have : (ys.map fun u => if x = u then a else 0).sum = 0 := by
        apply List.sum_eq_zero
        intro z hz
        obtain ⟨u, hu, rfl⟩ := List.mem_map.mp hz
        have : x ≠ u := fun e => hnd.1 (e ▸ hu)
        simp [this]
      simp [this]
    · have : x ≠ y := fun e => hnd.1 (e ▸ hm)
      simp [this, ih hnd.2 hm]

theorem sums_cons_charge (v s c : Nat) (a cost : Rat) (es : List Event) (u : Nat) :
    charged (.charge v s c a cost :: es) u = (if v = u then a else 0) + charged es u ∧
    paid (.charge v s c a cost :: es) u = (if v = u then cost else 0) + paid es u ∧
    dispensed (.charge v s c a cost :: es) u = (if s = u then a else 0) + dispensed es u ∧
    received (.charge v s c a cost :: es) u = (if s = u then cost else 0) + received es u := by
  simp [charged, paid, dispensed, received]

theorem sums_cons_other (e : Event) (he : ∀ v s c a cost, e ≠ .charge v s c a cost) (es : List Event) (u : Nat) :
    charged (e :: es) u = charged es u ∧ paid (e :: es) u = paid es u ∧
    dispensed (e :: es) u = dispensed es u ∧ received (e :: es) u = received es u := by
  cases e <;> first | (exact absurd rfl (he _ _ _ _ _)) | simp [charged, paid, dispensed, received]

theorem map_add_sum (g k : Nat → Rat) (ids : List Nat) :
    (ids.map fun u => g u + k u).sum = (ids.map g).sum + (ids.map k).sum := by
  induction ids with
  | nil => simp
  | cons y ys ih => simp only [List.map_cons, List.sum_cons, ih]; ring

theorem fleet_totals (log : List Event) (vids sids : List Nat) (hv : vids.Nodup) (hs : sids.Nodup)
    (hcov : ∀ e ∈ log, match e with | .charge v s _ _ _ => v ∈ vids ∧ s ∈ sids | _ => True) :
    (vids.map (charged log)).sum = (chargeTotals log).1 ∧ (sids.map (dispensed log)).sum = (chargeTotals log).1 ∧
    (vids.map (paid log)).sum = (chargeTotals log).2 ∧ (sids.map (received log)).sum = (chargeTotals log).2 := by
  induction log with
  | nil =>
    have z : ∀ ids : List Nat, (ids.map fun _ => (0 : Rat)).sum = 0 := by
      intro ids; induction ids with
      | nil => rfl
      | cons y ys ih => simp [ih]
    refine ⟨z vids, z sids, z vids, z sids⟩
  | cons e es ih =>
    obtain ⟨r1, r2, r3, r4⟩ := ih (fun x hx => hcov x (List.mem_cons_of_mem _ hx))
    have he := hcov e List.mem_cons_self
    by_cases hc : ∃ v s c a cost, e = .charge v s c a cost
    · obtain ⟨v, s, c, a, cost, rfl⟩ := hc
      obtain ⟨hvm, hsm⟩ := he
      have e1 : charged (.charge v s c a cost :: es) = fun u => (if v = u then a else 0) + charged es u :=
        funext fun u => (sums_cons_charge v s c a cost es u).1
      have e2 : paid (.charge v s c a cost :: es) = fun u => (if v = u then cost else 0) + paid es u :=
        funext fun u => (sums_cons_charge v s c a cost es u).2.1
      have e3 : dispensed (.charge v s c a cost :: es) = fun u => (if s = u then a else 0) + dispensed es u :=
        funext fun u => (sums_cons_charge v s c a cost es u).2.2.1
      have e4 : received (.charge v s c a cost :: es) = fun u => (if s = u then cost else 0) + received es u :=
        funext fun u => (sums_cons_charge v s c a cost es u).2.2.2
      rw [e1, e2, e3, e4, map_add_sum, map_add_sum, map_add_sum, map_add_sum,
        sum_indicator vids hv v hvm, sum_indicator vids hv v hvm, sum_indicator sids hs s hsm, sum_indicator sids hs s hsm,
        r1, r2, r3, r4]
      simp [chargeTotals]
    · have hne : ∀ v s c a cost, e ≠ .charge v s c a cost := fun v s c a cost h => hc ⟨v, s, c, a, cost, h⟩
      have e1 : charged (e :: es) = charged es := funext fun u => (sums_cons_other e hne es u).1
      have e2 : paid (e :: es) = paid es := funext fun u => (sums_cons_other e hne es u).2.1
      have e3 : dispensed (e :: es) = dispensed es := funext fun u => (sums_cons_other e hne es u).2.2.1
      have e4 : received (e :: es) = received es := funext fun u => (sums_cons_other e hne es u).2.2.2
      rw [e1, e2, e3, e4, r1, r2, r3, r4]
      cases e <;> first | (exact absurd rfl (hne _ _ _ _ _)) | simp [chargeTotals]

end Books
end Hive
