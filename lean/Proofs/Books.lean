/-
  Proofs.Books — the event log accounts for the state along every history (C05, C19, C03).

  `vehBook` / `stnBook`: what is left of a vehicle's odometer, balance and energy gained, and of a
  station's balance and energy dispensed, once the events filed so far are deducted. One walk
  through all functions of the control model shows that nothing ever changes these books: every
  change of one of these quantities is filed, once, with exactly the amount of the change.

  Per energy type (`SameT`, `KT`, `KV`): with `elec` the energy type of every installed plug and
  `kindOf` the powertrain of every vehicle - both read off the initial state, both proved never to
  change - the electricity and the fuel a station reports as dispensed are each explained by the
  charge events at its plugs of that type, and no charge event books energy on a vehicle at a
  plug of the other type (`Clean`), so that the per-type sums over the fleet agree
  (`fleet_totals_typed`).
-/
import Proofs.EnterPost
import Proofs.Lift
import Proofs.WorldRun
import Mathlib.Tactic.Ring
import Mathlib.Tactic.Linarith
import Proofs.C04
import Proofs.Frame
import Proofs.VStep
import Proofs.Cosmetic
import Proofs.Run

namespace Hive
namespace Books

/-! ### sums over the event log -/

def moveKm (log : List Event) (v : VehicleId) : Rat :=
  (log.map fun | .move v' km _ => if v' = v then km else 0 | _ => 0).sum
def fares (log : List Event) (v : VehicleId) : Rat :=
  (log.map fun | .pickup v' _ fare _ => if v' = v then fare else 0 | _ => 0).sum
def paid (log : List Event) (v : VehicleId) : Rat :=
  (log.map fun | .charge v' _ _ _ cost => if v' = v then cost else 0 | _ => 0).sum
def charged (log : List Event) (v : VehicleId) : Rat :=
  (log.map fun | .charge v' _ _ amount _ => if v' = v then amount else 0 | _ => 0).sum
def received (log : List Event) (i : StationId) : Rat :=
  (log.map fun | .charge _ s _ _ cost => if s = i then cost else 0 | _ => 0).sum
def dispensed (log : List Event) (i : StationId) : Rat :=
  (log.map fun | .charge _ s _ amount _ => if s = i then amount else 0 | _ => 0).sum

section
variable (a : List Event) (e : Event) (v : VehicleId) (i : StationId)
@[simp] theorem moveKm_snoc : moveKm (a ++ [e]) v = moveKm a v + moveKm [e] v := by
  simp [moveKm, List.map_append, List.sum_append]
@[simp] theorem fares_snoc : fares (a ++ [e]) v = fares a v + fares [e] v := by
  simp [fares, List.map_append, List.sum_append]
@[simp] theorem paid_snoc : paid (a ++ [e]) v = paid a v + paid [e] v := by
  simp [paid, List.map_append, List.sum_append]
@[simp] theorem charged_snoc : charged (a ++ [e]) v = charged a v + charged [e] v := by
  simp [charged, List.map_append, List.sum_append]
@[simp] theorem received_snoc : received (a ++ [e]) i = received a i + received [e] i := by
  simp [received, List.map_append, List.sum_append]
@[simp] theorem dispensed_snoc : dispensed (a ++ [e]) i = dispensed a i + dispensed [e] i := by
  simp [dispensed, List.map_append, List.sum_append]
end

/-! ### the books -/

def vehMoney (veh : Vehicle) : Rat × Rat × Rat := (veh.odo, veh.balance, veh.en.gained)
def stnMoney (st : Station) : Rat × Rat × Rat := (st.balance, st.dispE, st.dispG)
def stnPair (st : Station) : Rat × Rat := (st.balance, st.dispE + st.dispG)

def vehBook (w : World) (u : VehicleId) : Option (Rat × Rat × Rat) :=
  (w.sim.vehicle? u).map fun veh =>
    (veh.odo - moveKm w.log u, veh.balance - fares w.log u + paid w.log u, veh.en.gained - charged w.log u)

def stnBook (w : World) (i : StationId) : Option (Rat × Rat) :=
  (w.sim.station? i).map fun st => (st.balance - received w.log i, st.dispE + st.dispG - dispensed w.log i)

/-- nothing happened to the books between `w` and `w'` -/
def Same (w w' : World) : Prop := (∀ u, vehBook w' u = vehBook w u) ∧ (∀ i, stnBook w' i = stnBook w i)

theorem Same.refl (w : World) : Same w w := ⟨fun _ => rfl, fun _ => rfl⟩
theorem Same.trans {a b c : World} (h1 : Same a b) (h2 : Same b c) : Same a c :=
  ⟨fun u => (h2.1 u).trans (h1.1 u), fun i => (h2.2 i).trans (h1.2 i)⟩

/-- a change of the state that touches no account -/
structure Quiet (s s' : Sim) : Prop where
  veh : ∀ u, (s'.vehicle? u).map vehMoney = (s.vehicle? u).map vehMoney
  stn : ∀ i, (s'.station? i).map stnMoney = (s.station? i).map stnMoney

theorem Quiet.refl (s : Sim) : Quiet s s := ⟨fun _ => rfl, fun _ => rfl⟩
theorem Quiet.trans {a b c : Sim} (h1 : Quiet a b) (h2 : Quiet b c) : Quiet a c :=
  ⟨fun u => (h2.veh u).trans (h1.veh u), fun i => (h2.stn i).trans (h1.stn i)⟩

theorem Quiet.of_fields {s s' : Sim} (hv : s'.vehicles = s.vehicles) (hs : s'.stations = s.stations) : Quiet s s' :=
  ⟨fun u => by simp [Sim.vehicle?, hv], fun i => by simp [Sim.station?, hs]⟩

theorem Quiet.pair {s s' : Sim} (h : Quiet s s') (i : StationId) :
    (s'.station? i).map stnPair = (s.station? i).map stnPair := by
  have := congrArg (Option.map fun (p : Rat × Rat × Rat) => (p.1, p.2.1 + p.2.2)) (h.stn i)
  simp only [Option.map_map, Function.comp_def, stnMoney] at this
  exact this

theorem Same.of_quiet {w w2 : World} (hq : Quiet w.sim w2.sim) (hl : w2.log = w.log) : Same w w2 := by
  refine ⟨fun u => ?_, fun i => ?_⟩
  · have := hq.veh u
    unfold vehBook
    rw [hl]
    cases h2 : w2.sim.vehicle? u <;> cases h1 : w.sim.vehicle? u <;> rw [h1, h2] at this <;>
      simp only [Option.map_some, Option.map_none, Option.some.injEq, vehMoney, Prod.mk.injEq, reduceCtorEq] at this ⊢
    obtain ⟨a, b, c⟩ := this
    rw [a, b, c]
    exact ⟨rfl, rfl, rfl⟩
  · have := hq.stn i
    unfold stnBook
    rw [hl]
    cases h2 : w2.sim.station? i <;> cases h1 : w.sim.station? i <;> rw [h1, h2] at this <;>
      simp only [Option.map_some, Option.map_none, Option.some.injEq, stnMoney, Prod.mk.injEq, reduceCtorEq] at this ⊢
    obtain ⟨a, b, c⟩ := this
    rw [a, b, c]
    exact ⟨rfl, rfl⟩

variable {env : Env}

/-! ### primitives -/

theorem modifyVehicle_quiet {s s' : Sim} {veh' old : Vehicle} (h : s.modifyVehicle env veh' = .ok s')
    (hold : s.vehicle? veh'.id = some old) (hm : vehMoney veh' = vehMoney old) : Quiet s s' := by
  obtain ⟨_, hv, hs, _⟩ := Sim.modifyVehicle_fields h
  refine ⟨fun u => ?_, fun i => by simp [Sim.station?, hs]⟩
  unfold Sim.vehicle?
  rw [hv]
  by_cases hu : u = veh'.id
  · subst hu
    rw [lookup_replaceById_self hold]
    have : lookup Vehicle.id s.vehicles veh'.id = some old := hold
    rw [this]
    simp [hm]
  · rw [lookup_replaceById_ne _ _ hu]

theorem applyAct_quiet {s s2 : Sim} {v : VehicleId} {a : Act} (h : applyAct env s v a = .ok s2) : Quiet s s2 := by
  unfold applyAct at h
  split at h
  · cases h
  · next veh hveh =>
    refine modifyVehicle_quiet h (old := veh) ?_ rfl
    simp only
    rw [(vehicle?_some hveh).2]; exact hveh

theorem modifyStation_quiet {s s' : Sim} {st' old : Station} (h : s.modifyStation env st' = .ok s')
    (hold : s.station? st'.id = some old) (hm : stnMoney st' = stnMoney old) : Quiet s s' := by
  obtain ⟨_, hs, _, hv, _⟩ := Sim.modifyStation_fields h
  refine ⟨fun u => by simp [Sim.vehicle?, hv], fun i => ?_⟩
  unfold Sim.station?
  rw [hs]
  by_cases hi : i = st'.id
  · subst hi
    rw [lookup_replaceById_self hold]
    have : lookup Station.id s.stations st'.id = some old := hold
    rw [this]
    simp [hm]
  · rw [lookup_replaceById_ne _ _ hi]

theorem modifyBase_quiet {s s' : Sim} {b : Base} (h : s.modifyBase env b = .ok s') : Quiet s s' := by
  obtain ⟨_, _, hs, hv, _⟩ := Sim.modifyBase_fields h
  exact Quiet.of_fields hv hs

theorem modifyRequest_quiet {s s' : Sim} {r : Request} (h : s.modifyRequest env r = .ok s') : Quiet s s' := by
  obtain ⟨_, _, hs, _, hv, _⟩ := Sim.modifyRequest_fields h
  exact Quiet.of_fields hv hs

theorem removeRequest_quiet {s s' : Sim} {i : RequestId} (h : s.removeRequest env i = .ok s') : Quiet s s' := by
  obtain ⟨_, _, hs, _, hv, _⟩ := Sim.removeRequest_fields h
  exact Quiet.of_fields hv hs

/-- a counter operation on one plug type of a station -/
theorem station_step_quiet {s s1 : Sim} {sid : StationId} {st st' : Station} {c : ChargerId}
    {op : ChargerState → Outcome ChargerState} (hst : s.station? sid = some st)
    (hup : st.updatePlug c op = .ok st') (hmod : s.modifyStation env st' = .ok s1) : Quiet s s1 := by
  have hshape : st'.id = st.id ∧ stnMoney st' = stnMoney st := by
    rcases Station.updatePlug_ok hup with ⟨_, rfl⟩ | ⟨cs, cs', _, _, rfl⟩
    · exact ⟨rfl, rfl⟩
    · exact ⟨rfl, rfl⟩
  refine modifyStation_quiet hmod (old := st) ?_ hshape.2
  rw [hshape.1]; exact station?_self hst

theorem exit_quiet {s s1 : Sim} {v : VehicleId} {a : Act} (h : exit env s v a = .ok s1) : Quiet s s1 := by
  cases a <;> simp only [exit] at h
  case idle | repositioning | outOfService | dispatchStation | dispatchBase => cases h; exact Quiet.refl _
  case reserveBase b =>
    split at h
    · cases h
    · simp only [Outcome.bind_eq, Outcome.bind_eq_ok] at h
      obtain ⟨base', _, h2⟩ := h
      exact modifyBase_quiet h2
  case chargingStation sid cid =>
    split at h
    · cases h
    · cases h
    · next _ st _ hst =>
      simp only [Outcome.bind_eq, Outcome.bind_eq_ok] at h
      obtain ⟨st', h1, h2⟩ := h
      exact station_step_quiet hst h1 h2
  case chargingBase b cid =>
    split at h
    · cases h
    · next base hbase =>
      split at h
      · cases h
      · split at h
        · cases h
        · next st hstb =>
          simp only [Outcome.bind_eq, Outcome.bind_eq_ok] at h
          obtain ⟨base', h1, s2, h2, st', h3, h4⟩ := h
          obtain ⟨_, _, hs2, _⟩ := Sim.modifyBase_fields h2
          obtain ⟨sid, hsid, hst⟩ : ∃ sid, base.station = some sid ∧ s.station? sid = some st := by
            cases hbs : base.station with
            | none => rw [hbs] at hstb; cases hstb
            | some sid => rw [hbs] at hstb; exact ⟨sid, rfl, hstb⟩
          have hst2 : s2.station? sid = some st := by
            unfold Sim.station? at *; rw [hs2]; exact hst
          exact (modifyBase_quiet h2).trans (station_step_quiet hst2 h3 h4)
  case chargeQueueing sid cid t =>
    split at h
    · cases h
    · next st hst =>
      simp only [Outcome.bind_eq, Outcome.bind_eq_ok] at h
      obtain ⟨st', h1, h2⟩ := h
      exact station_step_quiet hst h1 h2
  case dispatchTrip rid r =>
    split at h
    · cases h; exact Quiet.refl _
    · exact modifyRequest_quiet h
  case servicingTrip req dep r =>
    split at h
    · cases h; exact Quiet.refl _
    · cases h
  case servicingPooling | dispatchPooling => cases h

/-! ### the operations that file events -/

theorem modifyVehicle_lookup {s s' : Sim} {veh' : Vehicle} (h : s.modifyVehicle env veh' = .ok s') (u : VehicleId) :
    s'.vehicle? u = if u = veh'.id then some veh' else s.vehicle? u := by
  obtain ⟨⟨old, hold⟩, hv, _⟩ := Sim.modifyVehicle_fields h
  unfold Sim.vehicle?
  rw [hv]
  split
  · next hu => subst hu; exact lookup_replaceById_self hold
  · next hu => exact lookup_replaceById_ne _ _ hu

theorem modifyStation_lookup {s s' : Sim} {st' : Station} (h : s.modifyStation env st' = .ok s') (i : StationId) :
    s'.station? i = if i = st'.id then some st' else s.station? i := by
  obtain ⟨⟨old, hold, _⟩, hs, _⟩ := Sim.modifyStation_fields h
  unfold Sim.station?
  rw [hs]
  split
  · next hi => subst hi; exact lookup_replaceById_self hold
  · next hi => exact lookup_replaceById_ne _ _ hi

/-- the general shape: the events `evs` were filed, and every account moved by exactly what they say -/
theorem same_of {w w2 : World} {evs : List Event} (hl : w2.log = w.log ++ evs)
    (hv : ∀ u, (w2.sim.vehicle? u).map vehMoney =
      (w.sim.vehicle? u).map fun a => (a.odo + moveKm evs u, a.balance + fares evs u - paid evs u, a.en.gained + charged evs u))
    (hs : ∀ i, (w2.sim.station? i).map stnPair =
      (w.sim.station? i).map fun a => (a.balance + received evs i, a.dispE + a.dispG + dispensed evs i)) : Same w w2 := by
  have app : ∀ (f : Event → Rat) (a b : List Event), ((a ++ b).map f).sum = (a.map f).sum + (b.map f).sum := by
    intro f a b; rw [List.map_append, List.sum_append]
  refine ⟨fun u => ?_, fun i => ?_⟩
  · have := hv u
    unfold vehBook
    rw [hl]
    cases h2 : w2.sim.vehicle? u <;> cases h1 : w.sim.vehicle? u <;> rw [h1, h2] at this <;>
      simp only [Option.map_some, Option.map_none, Option.some.injEq, vehMoney, Prod.mk.injEq, reduceCtorEq] at this ⊢
    obtain ⟨a, b, c⟩ := this
    rw [a, b, c]
    unfold moveKm fares paid charged
    rw [app, app, app, app]
    refine ⟨by ring, by ring, by ring⟩
  · have := hs i
    unfold stnBook
    rw [hl]
    cases h2 : w2.sim.station? i <;> cases h1 : w.sim.station? i <;> rw [h1, h2] at this <;>
      simp only [Option.map_some, Option.map_none, Option.some.injEq, stnPair, Prod.mk.injEq, reduceCtorEq] at this ⊢
    obtain ⟨a, b⟩ := this
    rw [a, b]
    unfold received dispensed
    rw [app, app]
    refine ⟨by ring, by ring⟩

theorem pickUpTrip_same {w w1 : World} {v : VehicleId} {rid : RequestId}
    (h : pickUpTrip env w v rid = .ok w1) : Same w w1 := by
  unfold pickUpTrip at h
  split at h
  · cases h
  · cases h
  · next veh req hveh hreq =>
    simp only [Outcome.bind_eq, Outcome.bind_eq_ok, Outcome.pure_eq] at h
    obtain ⟨s1, h1, s2, h2, h3⟩ := h
    cases h3
    have hid : veh.id = v := (vehicle?_some hveh).2
    obtain ⟨_, _, hs2, _, hv2, _⟩ := Sim.removeRequest_fields h2
    obtain ⟨_, _, hs1, _⟩ := Sim.modifyVehicle_fields h1
    refine same_of (evs := [Event.pickup v rid req.value ((s1.time - req.departure) % 86400)]) rfl ?_ ?_
    · intro u
      simp only
      rw [vehicle?_congr hv2, modifyVehicle_lookup h1]
      simp only [hid]
      split
      · next hu =>
        subst hu
        rw [hveh]
        simp [vehMoney, moveKm, fares, paid, charged]
      · next hu =>
        cases w.sim.vehicle? u with
        | none => rfl
        | some a =>
          have : ¬ v = u := fun e => hu e.symm
          simp [vehMoney, moveKm, fares, paid, charged, this]
    · intro i
      have : s2.station? i = w.sim.station? i := by simp [Sim.station?, hs2, hs1]
      simp only
      rw [this]
      cases w.sim.station? i with
      | none => rfl
      | some a => simp [stnPair, received, dispensed]

theorem dropOffTrip_same {w w2 : World} {v : VehicleId} {req : Request}
    (h : dropOffTrip w v req = .ok w2) : Same w w2 := by
  unfold dropOffTrip at h
  split at h
  · cases h
  · split at h
    · cases h
    · cases h
      refine same_of (evs := [Event.dropoff v req.id]) rfl ?_ ?_
      · intro u
        cases w.sim.vehicle? u with
        | none => rfl
        | some a => simp [vehMoney, moveKm, fares, paid, charged]
      · intro i
        cases w.sim.station? i with
        | none => rfl
        | some a => simp [stnPair, received, dispensed]

/-! ### `enter`, `transition` -/

theorem enter_same {w w2 : World} {v : VehicleId} {next : Act}
    (h : enter env w v next = .ok w2) : Same w w2 := by
  have q : ∀ {s2 : Sim}, Quiet w.sim s2 → Same w { w with sim := s2 } := fun hq => Same.of_quiet hq rfl
  cases next <;> simp only [enter] at h
  case idle d =>
    simp only [Outcome.bind_eq, Outcome.bind_eq_ok, Outcome.pure_eq] at h
    obtain ⟨s2, h1, h2⟩ := h
    cases h2; exact q (applyAct_quiet h1)
  case outOfService =>
    simp only [Outcome.bind_eq, Outcome.bind_eq_ok, Outcome.pure_eq] at h
    obtain ⟨s2, h1, h2⟩ := h
    cases h2; exact q (applyAct_quiet h1)
  case repositioning route =>
    split at h
    · cases h
    · split at h
      · cases h
      · simp only [Outcome.bind_eq, Outcome.bind_eq_ok, Outcome.pure_eq] at h
        obtain ⟨s2, h1, h2⟩ := h
        cases h2; exact q (applyAct_quiet h1)
  case dispatchBase b route =>
    split at h
    · cases h
    · cases h
    · split at h
      · cases h
      · split at h
        · cases h
        · simp only [Outcome.bind_eq, Outcome.bind_eq_ok, Outcome.pure_eq] at h
          obtain ⟨s2, h1, h2⟩ := h
          cases h2; exact q (applyAct_quiet h1)
  case dispatchTrip rid route =>
    split at h
    · cases h
    · split at h
      · cases h
      · next req hreq =>
        split at h
        · cases h
        · split at h
          · cases h
          · simp only [Outcome.bind_eq, Outcome.bind_eq_ok, Outcome.pure_eq] at h
            obtain ⟨s1, h0, s2, h1, h2⟩ := h
            cases h2
            exact q ((modifyRequest_quiet h0).trans (applyAct_quiet h1))
  case servicingPooling => cases h
  case dispatchPooling => cases h
  case servicingTrip sreq dep route =>
    split at h
    · cases h
    · split at h
      · cases h
      · split at h
        · cases h
        · split at h
          · cases h
          · split at h
            · cases h
            · split at h
              · cases h
              · simp only [Outcome.bind_eq, Outcome.bind_eq_ok, Outcome.pure_eq] at h
                obtain ⟨w1, h0, s2, h1, h2⟩ := h
                cases h2
                exact (pickUpTrip_same h0).trans (Same.of_quiet (w := w1) (w2 := { w1 with sim := s2 }) (applyAct_quiet h1) rfl)
  case reserveBase b =>
    split at h
    · cases h
    · cases h
    · next veh base hveh hbase =>
      split at h
      · cases h
      · split at h
        · cases h
        · split at h
          · cases h
          · next base' hco =>
            simp only [Outcome.bind_eq, Outcome.bind_eq_ok, Outcome.pure_eq] at h
            obtain ⟨s1, h0, s2, h1, h2⟩ := h
            cases h2
            unfold Base.checkout at hco
            split at hco
            · cases hco
            · cases hco
              exact q ((modifyBase_quiet h0).trans (applyAct_quiet h1))
  case chargingStation sid cid =>
    split at h
    · cases h
    · cases h
    · next veh st hveh hst =>
      split at h
      · cases h
      · split at h
        · cases h
        · split at h
          · cases h
          · split at h
            · cases h
            · split at h
              · cases h
              · simp only [Outcome.bind_eq, Outcome.bind_eq_ok, Outcome.pure_eq] at h
                obtain ⟨st', hco, s1, h0, s2, h1, h2⟩ := h
                cases h2
                exact q ((station_step_quiet hst hco h0).trans (applyAct_quiet h1))
  case dispatchStation sid cid route =>
    split at h
    · cases h
    · cases h
    · next veh st hveh hst =>
      split at h
      · split at h
        · cases h
        · split at h
          · cases h
          · split at h
            · cases h
            · split at h
              · cases h
              · simp only [Outcome.bind_eq, Outcome.bind_eq_ok, Outcome.pure_eq] at h
                obtain ⟨st', hco, s1, h0, s2, h1, h2⟩ := h
                cases h2
                exact q ((station_step_quiet hst hco h0).trans (applyAct_quiet h1))
      · split at h
        · cases h
        · split at h
          · cases h
          · simp only [Outcome.bind_eq, Outcome.bind_eq_ok, Outcome.pure_eq] at h
            obtain ⟨s2, h1, h2⟩ := h
            cases h2; exact q (applyAct_quiet h1)
  case chargeQueueing sid cid t =>
    split at h
    · cases h
    · cases h
    · next veh st hveh hst =>
      split at h
      · cases h
      · split at h
        · cases h
        · split at h
          · cases h
          · split at h
            · cases h
            · simp only [Outcome.bind_eq, Outcome.bind_eq_ok, Outcome.pure_eq] at h
              obtain ⟨st', henq, s1, h0, s2, h1, h2⟩ := h
              cases h2
              exact q ((station_step_quiet hst henq h0).trans (applyAct_quiet h1))
  case chargingBase b cid =>
    split at h
    · cases h
    · cases h
    · next veh base hveh hbase =>
      split at h
      · cases h
      · next sid hsid =>
        split at h
        · cases h
        · next st hst =>
          split at h
          · cases h
          · split at h
            · cases h
            · split at h
              · cases h
              · split at h
                · cases h
                · split at h
                  · cases h
                  · next base' hcob =>
                    split at h
                    · cases h
                    · split at h
                      · cases h
                      · simp only [Outcome.bind_eq, Outcome.bind_eq_ok, Outcome.pure_eq] at h
                        obtain ⟨st', hco, s1, h0, s2, h1, s3, h2, h3⟩ := h
                        cases h3
                        unfold Base.checkout at hcob
                        split at hcob
                        · cases hcob
                        · cases hcob
                          obtain ⟨_, _, hs1, _⟩ := Sim.modifyBase_fields h0
                          have hst1 : s1.station? sid = some st := by
                            unfold Sim.station? at *; rw [hs1]; exact hst
                          exact q (((modifyBase_quiet h0).trans (station_step_quiet hst1 hco h1)).trans (applyAct_quiet h2))


theorem transition_same {w w2 : World} {v : VehicleId} {prev next : Act}
    (h : transition env w v prev next = .ok w2) : Same w w2 := by
  unfold transition at h
  simp only [Outcome.bind_eq, Outcome.bind_eq_ok] at h
  obtain ⟨s1, h1, h2⟩ := h
  exact (Same.of_quiet (w := w) (w2 := { w with sim := s1 }) (exit_quiet h1) rfl).trans (enter_same h2)

/-! ### `_perform_update`, `default_update` -/

/-- what the books need from the physics: only charging books a gain, and it books exactly what it
    adds to the level (the model's `add_energy`, `idle` and `consume_energy` do: `concrete_gainEnv`) -/
structure GainEnv (env : Env) : Prop where
  idle : ∀ veh dt, (env.idle veh dt).gained = veh.en.gained
  consume : ∀ veh route, (env.consume veh route).gained = veh.en.gained
  add : ∀ veh cs dt, (env.addEnergy veh cs dt).gained - veh.en.gained = (env.addEnergy veh cs dt).level - veh.en.level

theorem modifyVehicle_same {w : World} {s : Sim} {veh' old : Vehicle} (h : w.sim.modifyVehicle env veh' = .ok s)
    (hold : w.sim.vehicle? veh'.id = some old) (hm : vehMoney veh' = vehMoney old) : Same w { w with sim := s } :=
  Same.of_quiet (modifyVehicle_quiet h hold hm) rfl

theorem move_same (hg : GainEnv env) {w w2 : World} {v : VehicleId} (h : move env w v = .ok w2) : Same w w2 := by
  unfold move at h
  split at h
  · cases h
  · next veh hveh =>
    have hid : veh.id = v := (vehicle?_some hveh).2
    split at h
    · cases h
    · split at h
      · cases h
      · next route _ =>
        simp only [Outcome.bind_eq, Outcome.bind_eq_ok, Outcome.pure_eq] at h
        obtain ⟨tr, htr, h⟩ := h
        split at h
        · simp only [Outcome.bind_eq, Outcome.bind_eq_ok, Outcome.pure_eq] at h
          obtain ⟨s2, h1, h2⟩ := h
          cases h2
          exact modifyVehicle_same h1 (old := veh) (by simp only; rw [hid]; exact hveh) rfl
        · split at h
          · simp only [Outcome.bind_eq, Outcome.bind_eq_ok, Outcome.pure_eq] at h
            obtain ⟨s2, h1, h2⟩ := h
            cases h2
            refine Same.of_quiet ?_ rfl
            split at h1
            · next s' hexit => exact (exit_quiet hexit).trans (applyAct_quiet h1)
            · exact applyAct_quiet h1
          · split at h
            · cases h
            · next last _ =>
              simp only [Outcome.bind_eq, Outcome.bind_eq_ok, Outcome.pure_eq] at h
              obtain ⟨s2, h1, h2⟩ := h
              cases h2
              obtain ⟨_, _, hs1, _⟩ := Sim.modifyVehicle_fields h1
              refine same_of (evs := [Event.move v tr.km ((env.consume veh tr.experienced).level - veh.en.level)]) rfl ?_ ?_
              · intro u
                simp only
                rw [modifyVehicle_lookup h1]
                simp only [hid]
                split
                · next hu =>
                  subst hu
                  rw [hveh]
                  simp [vehMoney, moveKm, fares, paid, charged, hg.consume]
                · next hu =>
                  cases w.sim.vehicle? u with
                  | none => rfl
                  | some a =>
                    have : ¬ v = u := fun e => hu e.symm
                    simp [vehMoney, moveKm, fares, paid, charged, this]
              · intro i
                have : s2.station? i = w.sim.station? i := by simp [Sim.station?, hs1]
                simp only
                rw [this]
                cases w.sim.station? i with
                | none => rfl
                | some a => simp [stnPair, received, dispensed]

theorem charge_same (hg : GainEnv env) {w w2 : World} {v : VehicleId} {sid : StationId} {cid : ChargerId}
    (h : charge env w v sid cid = .ok w2) : Same w w2 := by
  unfold charge at h
  split at h
  · cases h
  · next st hst =>
    split at h
    · cases h
    · next veh hveh =>
      have hid : veh.id = v := (vehicle?_some hveh).2
      have hsid : st.id = sid := (station?_some hst).2
      split at h
      · cases h
      · split at h
        · cases h
        · next cs hcs =>
          split at h
          · cases h
          · simp only [Outcome.bind_eq, Outcome.bind_eq_ok, Outcome.pure_eq] at h
            obtain ⟨s1, h1, s2, h2, h3⟩ := h
            cases h3
            obtain ⟨_, _, hs1, _⟩ := Sim.modifyVehicle_fields h1
            obtain ⟨_, _, _, hv2, _⟩ := Sim.modifyStation_fields h2
            refine same_of (evs := [Event.charge v sid cid ((env.addEnergy veh cs w.sim.dt).level - veh.en.level)
              (((env.addEnergy veh cs w.sim.dt).level - veh.en.level) * cs.price)]) rfl ?_ ?_
            · intro u
              simp only
              rw [vehicle?_congr hv2, modifyVehicle_lookup h1]
              simp only [hid]
              split
              · next hu =>
                subst hu
                rw [hveh]
                have := hg.add veh cs w.sim.dt
                simp only [Option.map_some, vehMoney, moveKm, fares, paid, charged, List.map_cons, List.map_nil,
                  List.sum_cons, List.sum_nil, if_true, Option.some.injEq, Prod.mk.injEq]
                refine ⟨by ring, by ring, by linarith⟩
              · next hu =>
                cases w.sim.vehicle? u with
                | none => rfl
                | some a =>
                  have : ¬ v = u := fun e => hu e.symm
                  simp [vehMoney, moveKm, fares, paid, charged, this]
            · intro i
              simp only
              rw [modifyStation_lookup h2]
              simp only [hsid]
              have hst1 : s1.station? i = w.sim.station? i := by simp [Sim.station?, hs1]
              split
              · next hi =>
                subst hi
                rw [hst]
                simp only [Option.map_some, stnPair, received, dispensed, List.map_cons, List.map_nil,
                  List.sum_cons, List.sum_nil, if_true, Option.some.injEq, Prod.mk.injEq]
                refine ⟨by ring, ?_⟩
                cases cs.electric <;> simp <;> ring
              · next hi =>
                rw [hst1]
                cases w.sim.station? i with
                | none => rfl
                | some a =>
                  have : ¬ sid = i := fun e => hi e.symm
                  simp [stnPair, received, dispensed, this]

theorem performUpdate_same (hg : GainEnv env) {w w2 : World} {v : VehicleId} {a : Act}
    (h : performUpdate env w v a = .ok w2) : Same w w2 := by
  cases a <;> simp only [performUpdate] at h
  case idle d =>
    split at h
    · cases h
    · next veh hveh =>
      split at h
      · cases h
      · simp only [Outcome.bind_eq, Outcome.bind_eq_ok, Outcome.pure_eq] at h
        obtain ⟨s2, h1, h2⟩ := h
        cases h2
        refine modifyVehicle_same h1 (old := veh) (by simp only; rw [(vehicle?_some hveh).2]; exact hveh) ?_
        simp [vehMoney, hg.idle]
  case outOfService | reserveBase => cases h; exact Same.refl _
  case repositioning | dispatchTrip | dispatchStation | dispatchBase => exact move_same hg h
  case servicingTrip req dep r =>
    simp only [Outcome.bind_eq, Outcome.bind_eq_ok, Outcome.pure_eq] at h
    obtain ⟨w1, h1, h2⟩ := h
    have s1 := move_same hg h1
    split at h2
    · cases h2
    · split at h2
      · cases h2; exact s1
      · split at h2
        · exact s1.trans (dropOffTrip_same h2)
        · cases h2; exact s1
      · cases h2; exact s1
  case chargingStation sid cid => exact charge_same hg h
  case chargingBase b cid =>
    split at h
    · cases h
    · exact charge_same hg h
  case chargeQueueing sid cid t =>
    split at h
    · cases h
    · next veh hveh =>
      split at h
      · cases h
      · simp only [Outcome.bind_eq, Outcome.bind_eq_ok, Outcome.pure_eq] at h
        obtain ⟨s2, h1, h2⟩ := h
        cases h2
        refine modifyVehicle_same h1 (old := veh) (by simp only; rw [(vehicle?_some hveh).2]; exact hveh) ?_
        simp [vehMoney, hg.idle]
  case servicingPooling | dispatchPooling => cases h

theorem defaultUpdate_same (hg : GainEnv env) {w w2 : World} {v : VehicleId} {a : Act}
    (h : defaultUpdate env w v a = .ok w2) : Same w w2 := by
  unfold defaultUpdate at h
  split at h
  · simp only [Outcome.bind_eq, Outcome.bind_eq_ok] at h
    obtain ⟨next, _, w1, htr, h3⟩ := h
    split at h3
    · cases h3
    · exact (transition_same htr).trans (performUpdate_same hg h3)
  · exact performUpdate_same hg h

/-! ### phases and runs -/

theorem applyPlans_same : ∀ (ps : List (Instr × VehicleId × Act × Act)) (w : World), Same w (applyPlans env w ps)
  | [], w => Same.refl w
  | (i, v, prev, next) :: ps, w => by
    simp only [applyPlans]
    split
    · next w' htr =>
      refine ((transition_same htr).trans ?_).trans (applyPlans_same ps _)
      exact Same.of_quiet (Quiet.of_fields rfl rfl) rfl
    · exact applyPlans_same ps w

/-- **`apply_instructions` leaves the books alone** - any instruction list -/
theorem applyInstructions_same (w : World) (is : List Instr) : Same w (applyInstructions env w is) :=
  applyPlans_same _ w

theorem stepVehicle_same (hg : GainEnv env) (w : World) (v : VehicleId) (a : Act) : Same w (stepVehicle env w v a) := by
  unfold stepVehicle
  split
  · next w' h => exact defaultUpdate_same hg h
  · exact Same.refl w

theorem fold_same (hg : GainEnv env) : ∀ (order : List Vehicle) (w : World),
    Same w (order.foldl (fun acc v => stepVehicle env acc v.id v.act) w)
  | [], w => Same.refl w
  | x :: xs, w => by
    rw [List.foldl_cons]
    exact (stepVehicle_same hg w x.id x.act).trans (fold_same hg xs _)

/-- **`perform_vehicle_state_updates` leaves the books alone** -/
theorem vehicleUpdates_same (hg : GainEnv env) (w : World) : Same w (vehicleUpdates env w) :=
  fold_same hg _ w

theorem silent_same {w : World} {s' : Sim} {e : Event} (hq : Quiet w.sim s')
    (hm : ∀ u, moveKm [e] u = 0 ∧ fares [e] u = 0 ∧ paid [e] u = 0 ∧ charged [e] u = 0)
    (hr : ∀ i, received [e] i = 0 ∧ dispensed [e] i = 0) :
    Same w { sim := s', log := w.log ++ [e] } := by
  refine same_of (evs := [e]) rfl ?_ ?_
  · intro u
    simp only
    rw [hq.veh u]
    obtain ⟨a, b, c, d⟩ := hm u
    cases w.sim.vehicle? u with
    | none => rfl
    | some x => simp [vehMoney, a, b, c, d]
  · intro i
    simp only
    rw [hq.pair i]
    obtain ⟨a, b⟩ := hr i
    cases w.sim.station? i with
    | none => rfl
    | some x => simp [stnPair, a, b]

theorem addRequest_quiet {s s' : Sim} {r : Request} (h : s.addRequest env r = .ok s') : Quiet s s' := by
  unfold Sim.addRequest at h
  split at h
  · cases h
  · split at h
    · cases h; exact Quiet.of_fields rfl rfl
    · simp only [Outcome.bind_eq, Outcome.bind_eq_ok, Outcome.pure_eq] at h
      obtain ⟨s1, h1, h2⟩ := h
      cases h2
      exact (removeRequest_quiet h1).trans (Quiet.of_fields rfl rfl)

theorem shifts_zero : ∀ (evs : List Event), (∀ e ∈ evs, ∃ v b, e = Event.shift v b) → ∀ u,
    moveKm evs u = 0 ∧ fares evs u = 0 ∧ paid evs u = 0 ∧ charged evs u = 0 ∧ received evs u = 0 ∧ dispensed evs u = 0
  | [], _, _ => by simp [moveKm, fares, paid, charged, received, dispensed]
  | e :: es, h, u => by
    obtain ⟨v, b, rfl⟩ := h e List.mem_cons_self
    have := shifts_zero es (fun x hx => h x (List.mem_cons_of_mem _ hx)) u
    simpa [moveKm, fares, paid, charged, received, dispensed] using this

theorem prices_quiet (names : Nat → List StationId) (rd : Timed.Reader Timed.PriceRow) (s : Sim) :
    Quiet s (Timed.priceUpdate env names rd s).1 := by
  obtain ⟨hv, _, _, hs⟩ := priceUpdate_only (env := env) names rd s
  refine ⟨fun u => by simp [Sim.vehicle?, hv], fun i => ?_⟩
  exact hs i

theorem drivers_same (tbl : List Shift.Entry) (w : World) : Same w (Shift.driverUpdates env tbl w) := by
  have hd := driverUpdates_only (env := env) tbl w
  obtain ⟨evs, hl, hall⟩ := hd.log
  refine same_of (evs := evs) hl ?_ ?_
  · intro u
    obtain ⟨a, b, c, d, _, _⟩ := shifts_zero evs hall u
    have := congrArg (Option.map fun (p : VehicleId × Pos × Membership × MechId × Energy × Act × Rat × Rat) =>
      (p.2.2.2.2.2.2.2, p.2.2.2.2.2.2.1, p.2.2.2.2.1.gained)) (hd.veh u)
    simp only [Option.map_map, Function.comp_def, vehRest] at this
    rw [a, b, c, d]
    simp only [add_zero, sub_zero]
    exact this
  · intro i
    obtain ⟨_, _, _, _, e, f⟩ := shifts_zero evs hall i
    rw [e, f]
    simp only [add_zero]
    have : (Shift.driverUpdates env tbl w).sim.station? i = w.sim.station? i := by simp [Sim.station?, hd.stations]
    rw [this]
    rfl

theorem phase_same (hg : GainEnv env) {w w' : World} (h : WPhase env w w') : Same w w' := by
  cases h with
  | instructions is => exact applyInstructions_same w is
  | updates => exact vehicleUpdates_same hg w
  | tick => exact Same.of_quiet (Quiet.of_fields rfl rfl) rfl
  | arrival _ _ _ h => exact silent_same (addRequest_quiet h) (fun _ => by simp [moveKm, fares, paid, charged]) (fun _ => by simp [received, dispensed])
  | cancel h => exact silent_same (removeRequest_quiet h) (fun _ => by simp [moveKm, fares, paid, charged]) (fun _ => by simp [received, dispensed])
  | prices names rd => exact Same.of_quiet (prices_quiet names rd w.sim) rfl
  | drivers tbl => exact drivers_same tbl w

/-- **the books never change**: along every history of phases, whatever the instructions -/
theorem reachable_same (hg : GainEnv env) {w0 w : World} (h : WReachable env w0 w) : Same w0 w := by
  induction h with
  | init => exact Same.refl _
  | step _ hp ih => exact ih.trans (phase_same hg hp)

/-! ### what the books say about a run -/

/-- the driver's environment (physics of `Hive.Energy`) books gains exactly as the statement needs -/
theorem concrete_gainEnv (o : Oracle) (mechs : List Mech) : GainEnv (o.env mechs) where
  idle := by
    intro veh dt
    show (match mechOf mechs veh.mech with | some m => m.idle veh.en dt | none => veh.en).gained = veh.en.gained
    cases mechOf mechs veh.mech <;> rfl
  consume := by
    intro veh route
    show (match mechOf mechs veh.mech with | some m => m.consume veh.en route | none => veh.en).gained = veh.en.gained
    cases mechOf mechs veh.mech <;> rfl
  add := by
    intro veh cs dt
    show (match mechOf mechs veh.mech with | some m => m.addEnergy veh.en cs.electric cs.rate dt | none => veh.en).gained - veh.en.gained
      = (match mechOf mechs veh.mech with | some m => m.addEnergy veh.en cs.electric cs.rate dt | none => veh.en).level - veh.en.level
    cases mechOf mechs veh.mech with
    | none => simp
    | some m => simp only; rw [Mech.addEnergy_gained]; ring

section Run
variable (hg : GainEnv env) {w0 w : World} (h : WReachable env w0 w) (h0 : w0.log = [])
include hg h h0

omit h0 in
/-- vehicles and stations neither appear nor disappear -/
theorem run_entities (v : VehicleId) (i : StationId) :
    ((w.sim.vehicle? v).isSome = (w0.sim.vehicle? v).isSome) ∧ ((w.sim.station? i).isSome = (w0.sim.station? i).isSome) := by
  obtain ⟨hv, hs⟩ := reachable_same hg h
  have a := congrArg Option.isSome (hv v)
  have b := congrArg Option.isSome (hs i)
  simp only [vehBook, stnBook, Option.isSome_map] at a b
  exact ⟨a, b⟩

/-- **per vehicle, the log explains odometer, balance and energy gained exactly** -/
theorem run_vehicle {v : VehicleId} {veh0 veh : Vehicle} (hv0 : w0.sim.vehicle? v = some veh0)
    (hv : w.sim.vehicle? v = some veh) :
    veh.odo = veh0.odo + moveKm w.log v ∧
    veh.balance = veh0.balance + fares w.log v - paid w.log v ∧
    veh.en.gained = veh0.en.gained + charged w.log v := by
  have := (reachable_same hg h).1 v
  unfold vehBook at this
  rw [hv, hv0, h0] at this
  simp only [Option.map_some, Option.some.injEq, Prod.mk.injEq, moveKm, fares, paid, charged, List.map_nil,
    List.sum_nil, sub_zero, add_zero] at this
  obtain ⟨a, b, c⟩ := this
  unfold moveKm fares paid charged
  refine ⟨by linarith, by linarith, by linarith⟩

/-- **per station, the log explains balance and energy dispensed exactly** -/
theorem run_station {i : StationId} {st0 st : Station} (hs0 : w0.sim.station? i = some st0)
    (hs : w.sim.station? i = some st) :
    st.balance = st0.balance + received w.log i ∧
    st.dispE + st.dispG = st0.dispE + st0.dispG + dispensed w.log i := by
  have := (reachable_same hg h).2 i
  unfold stnBook at this
  rw [hs, hs0, h0] at this
  simp only [Option.map_some, Option.some.injEq, Prod.mk.injEq, received, dispensed, List.map_nil,
    List.sum_nil, sub_zero] at this
  obtain ⟨a, b⟩ := this
  unfold received dispensed
  refine ⟨by linarith, by linarith⟩

end Run

/-- every charge event counts the same energy and the same payment on the vehicle's and on the
    station's side: summed over any set of vehicles that covers the log and any set of stations
    that covers it, the totals agree -/
def chargeTotals (log : List Event) : Rat × Rat :=
  ((log.map fun | .charge _ _ _ a _ => a | _ => 0).sum, (log.map fun | .charge _ _ _ _ c => c | _ => 0).sum)

theorem sum_indicator (ids : List Nat) (hnd : ids.Nodup) (x : Nat) (hx : x ∈ ids) (a : Rat) :
    (ids.map fun u => if x = u then a else 0).sum = a := by
  induction ids with
  | nil => cases hx
  | cons y ys ih =>
    rw [List.nodup_cons] at hnd
    simp only [List.map_cons, List.sum_cons]
    rcases List.mem_cons.mp hx with rfl | hm
    · have : (ys.map fun u => if x = u then a else 0).sum = 0 := by
        apply List.sum_eq_zero
        intro z hz
        obtain ⟨u, hu, rfl⟩ := List.mem_map.mp hz
        have : x ≠ u := fun e => hnd.1 (e ▸ hu)
        simp [this]
      simp [this]
    · have : x ≠ y := fun e => hnd.1 (e ▸ hm)
      simp [this, ih hnd.2 hm]

theorem sums_cons_charge (v s c : Nat) (a cost : Rat) (es : List Event) (u : Nat) :
    charged (.charge v s c a cost :: es) u = (if v = u then a else 0) + charged es u ∧
    paid (.charge v s c a cost :: es) u = (if v = u then cost else 0) + paid es u ∧
    dispensed (.charge v s c a cost :: es) u = (if s = u then a else 0) + dispensed es u ∧
    received (.charge v s c a cost :: es) u = (if s = u then cost else 0) + received es u := by
  simp [charged, paid, dispensed, received]

theorem sums_cons_other (e : Event) (he : ∀ v s c a cost, e ≠ .charge v s c a cost) (es : List Event) (u : Nat) :
    charged (e :: es) u = charged es u ∧ paid (e :: es) u = paid es u ∧
    dispensed (e :: es) u = dispensed es u ∧ received (e :: es) u = received es u := by
  cases e <;> first | (exact absurd rfl (he _ _ _ _ _)) | simp [charged, paid, dispensed, received]

theorem map_add_sum (g k : Nat → Rat) (ids : List Nat) :
    (ids.map fun u => g u + k u).sum = (ids.map g).sum + (ids.map k).sum := by
  induction ids with
  | nil => simp
  | cons y ys ih => simp only [List.map_cons, List.sum_cons, ih]; ring

theorem fleet_totals (log : List Event) (vids sids : List Nat) (hv : vids.Nodup) (hs : sids.Nodup)
    (hcov : ∀ e ∈ log, match e with | .charge v s _ _ _ => v ∈ vids ∧ s ∈ sids | _ => True) :
    (vids.map (charged log)).sum = (chargeTotals log).1 ∧ (sids.map (dispensed log)).sum = (chargeTotals log).1 ∧
    (vids.map (paid log)).sum = (chargeTotals log).2 ∧ (sids.map (received log)).sum = (chargeTotals log).2 := by
  induction log with
  | nil =>
    have z : ∀ ids : List Nat, (ids.map fun _ => (0 : Rat)).sum = 0 := by
      intro ids; induction ids with
      | nil => rfl
      | cons y ys ih => simp [ih]
    refine ⟨z vids, z sids, z vids, z sids⟩
  | cons e es ih =>
    obtain ⟨r1, r2, r3, r4⟩ := ih (fun x hx => hcov x (List.mem_cons_of_mem _ hx))
    have he := hcov e List.mem_cons_self
    by_cases hc : ∃ v s c a cost, e = .charge v s c a cost
    · obtain ⟨v, s, c, a, cost, rfl⟩ := hc
      obtain ⟨hvm, hsm⟩ := he
      have e1 : charged (.charge v s c a cost :: es) = fun u => (if v = u then a else 0) + charged es u :=
        funext fun u => (sums_cons_charge v s c a cost es u).1
      have e2 : paid (.charge v s c a cost :: es) = fun u => (if v = u then cost else 0) + paid es u :=
        funext fun u => (sums_cons_charge v s c a cost es u).2.1
      have e3 : dispensed (.charge v s c a cost :: es) = fun u => (if s = u then a else 0) + dispensed es u :=
        funext fun u => (sums_cons_charge v s c a cost es u).2.2.1
      have e4 : received (.charge v s c a cost :: es) = fun u => (if s = u then cost else 0) + received es u :=
        funext fun u => (sums_cons_charge v s c a cost es u).2.2.2
      rw [e1, e2, e3, e4, map_add_sum, map_add_sum, map_add_sum, map_add_sum,
        sum_indicator vids hv v hvm, sum_indicator vids hv v hvm, sum_indicator sids hs s hsm, sum_indicator sids hs s hsm,
        r1, r2, r3, r4]
      simp [chargeTotals]
    · have hne : ∀ v s c a cost, e ≠ .charge v s c a cost := fun v s c a cost h => hc ⟨v, s, c, a, cost, h⟩
      have e1 : charged (e :: es) = charged es := funext fun u => (sums_cons_other e hne es u).1
      have e2 : paid (e :: es) = paid es := funext fun u => (sums_cons_other e hne es u).2.1
      have e3 : dispensed (e :: es) = dispensed es := funext fun u => (sums_cons_other e hne es u).2.2.1
      have e4 : received (e :: es) = received es := funext fun u => (sums_cons_other e hne es u).2.2.2
      rw [e1, e2, e3, e4, r1, r2, r3, r4]
      cases e <;> first | (exact absurd rfl (hne _ _ _ _ _)) | simp [chargeTotals]

/-! ### per energy type -/

section Typed
variable (elec : StationId → ChargerId → Bool)

def dispensedE (log : List Event) (i : StationId) : Rat :=
  (log.map fun | .charge _ s c amount _ => if s = i ∧ elec s c = true then amount else 0 | _ => 0).sum
def dispensedG (log : List Event) (i : StationId) : Rat :=
  (log.map fun | .charge _ s c amount _ => if s = i ∧ elec s c = false then amount else 0 | _ => 0).sum

/-- every installed plug has the energy type `elec` says -/
def Typed (s : Sim) : Prop := ∀ i st, s.station? i = some st → ∀ cs ∈ st.plugs, cs.electric = elec i cs.id

def stnBookT (w : World) (i : StationId) : Option (Rat × Rat) :=
  (w.sim.station? i).map fun st => (st.dispE - dispensedE elec w.log i, st.dispG - dispensedG elec w.log i)

/-- nothing happened to the per-type books of the stations -/
def SameT (w w' : World) : Prop := ∀ i, stnBookT elec w' i = stnBookT elec w i

theorem SameT.refl (w : World) : SameT elec w w := fun _ => rfl
theorem SameT.trans {elec : StationId → ChargerId → Bool} {a b c : World} (h1 : SameT elec a b) (h2 : SameT elec b c) : SameT elec a c :=
  fun i => (h2 i).trans (h1 i)

/-- the general shape -/
theorem sameT_of {w w2 : World} {evs : List Event} (hl : w2.log = w.log ++ evs)
    (hs : ∀ i, (w2.sim.station? i).map (fun a => (a.dispE, a.dispG)) =
      (w.sim.station? i).map fun a => (a.dispE + dispensedE elec evs i, a.dispG + dispensedG elec evs i)) : SameT elec w w2 := by
  have app : ∀ (f : Event → Rat) (a b : List Event), ((a ++ b).map f).sum = (a.map f).sum + (b.map f).sum := by
    intro f a b; rw [List.map_append, List.sum_append]
  intro i
  have := hs i
  unfold stnBookT
  rw [hl]
  cases h2 : w2.sim.station? i <;> cases h1 : w.sim.station? i <;> rw [h1, h2] at this <;>
    simp only [Option.map_some, Option.map_none, Option.some.injEq, Prod.mk.injEq, reduceCtorEq] at this ⊢
  obtain ⟨a, b⟩ := this
  rw [a, b]
  unfold dispensedE dispensedG
  rw [app, app]
  refine ⟨by ring, by ring⟩

/-- events other than charge events, stations' dispensed amounts untouched -/
theorem sameT_plain {w w2 : World} {evs : List Event} (hl : w2.log = w.log ++ evs)
    (hnc : ∀ e ∈ evs, ∀ v s c a p, e ≠ .charge v s c a p)
    (hs : ∀ i, (w2.sim.station? i).map stnMoney = (w.sim.station? i).map stnMoney) : SameT elec w w2 := by
  have zero : ∀ i, dispensedE elec evs i = 0 ∧ dispensedG elec evs i = 0 := by
    intro i
    unfold dispensedE dispensedG
    constructor <;>
    · apply List.sum_eq_zero
      intro x hx
      obtain ⟨e, he, rfl⟩ := List.mem_map.mp hx
      cases e <;> first | rfl | exact absurd rfl (hnc _ he _ _ _ _ _)
  refine sameT_of elec hl ?_
  intro i
  obtain ⟨z1, z2⟩ := zero i
  rw [z1, z2]
  have := congrArg (Option.map fun (p : Rat × Rat × Rat) => (p.2.1, p.2.2)) (hs i)
  simp only [Option.map_map, Function.comp_def, stnMoney] at this
  simpa using this

theorem SameT.of_quiet {w w2 : World} (hq : Quiet w.sim w2.sim) (hl : w2.log = w.log) : SameT elec w w2 :=
  sameT_plain elec (evs := []) (by rw [hl]; simp) (fun e he => by cases he) hq.stn

end Typed

/-! ### the per-type walk -/

section TypedWalk
variable {elec : StationId → ChargerId → Bool}

theorem typed_of_types {s s' : Sim} (h : ∀ i, (s'.station? i).map (fun st => st.plugs.map fun c => (c.id, c.electric)) = (s.station? i).map fun st => st.plugs.map fun c => (c.id, c.electric))
    (ht : Typed elec s) : Typed elec s' := by
  intro i st' hst' cs' hcs'
  have := h i
  rw [hst'] at this
  cases hst : s.station? i with
  | none => rw [hst] at this; cases this
  | some st =>
    rw [hst] at this
    simp only [Option.map_some, Option.some.injEq] at this
    have hm : (cs'.id, cs'.electric) ∈ st.plugs.map fun c => (c.id, c.electric) := by
      rw [← this]; exact List.mem_map_of_mem (f := fun c : ChargerState => (c.id, c.electric)) hcs'
    obtain ⟨cs, hcs, he⟩ := List.mem_map.mp hm
    simp only [Prod.mk.injEq] at he
    rw [← he.1, ← he.2]
    exact ht i st hst cs hcs

theorem typed_frame {v : VehicleId} {s s' : Sim} (h : Frame v s s') (ht : Typed elec s) : Typed elec s' := by
  refine typed_of_types (fun i => ?_) ht
  have := congrArg (Option.map fun (p : Pos × Membership × List (ChargerId × Bool × Nat × Rat × Rat)) => p.2.2.map fun q => (q.1, q.2.1)) (h.stn i)
  simpa [Option.map_map, Function.comp_def, stnStatic, plugStatic] using this

theorem typed_cosmetic {s s' : Sim} (h : Cosmetic s s') (ht : Typed elec s) : Typed elec s' := by
  refine typed_of_types (fun i => ?_) ht
  have := congrArg (Option.map fun (p : StationId × Pos × Membership × List (ChargerId × Bool × Rat × Nat × Nat × Nat) × List ChargerId × Rat × Rat × Rat) => p.2.2.2.1.map fun q => (q.1, q.2.1)) (h.station? i)
  simpa [Option.map_map, Function.comp_def, stnCore, plugCore] using this

theorem typed_stations {s s' : Sim} (h : s'.stations = s.stations) (ht : Typed elec s) : Typed elec s' :=
  typed_of_types (fun i => by simp [Sim.station?, h]) ht

/-- a vehicle-only change is quiet for the stations (whatever it does to the vehicle) -/
theorem vehicleOnly_stations {s s' : Sim} {veh' : Vehicle} (h : s.modifyVehicle env veh' = .ok s') (i : StationId) :
    s'.station? i = s.station? i := by
  obtain ⟨_, _, hs, _⟩ := Sim.modifyVehicle_fields h
  simp [Sim.station?, hs]

theorem vehicleOnly_sameT {w : World} {s : Sim} {veh' : Vehicle} (h : w.sim.modifyVehicle env veh' = .ok s) :
    SameT elec w { w with sim := s } :=
  sameT_plain elec (evs := []) (by simp) (fun e he => by cases he) (fun i => by rw [vehicleOnly_stations h i])

theorem pickUpTrip_sameT {w w1 : World} {v : VehicleId} {rid : RequestId}
    (h : pickUpTrip env w v rid = .ok w1) : SameT elec w w1 := by
  unfold pickUpTrip at h
  split at h
  · cases h
  · cases h
  · next veh req hveh hreq =>
    simp only [Outcome.bind_eq, Outcome.bind_eq_ok, Outcome.pure_eq] at h
    obtain ⟨s1, h1, s2, h2, h3⟩ := h
    cases h3
    obtain ⟨_, _, hs2, _, hv2, _⟩ := Sim.removeRequest_fields h2
    obtain ⟨_, _, hs1, _⟩ := Sim.modifyVehicle_fields h1
    refine sameT_plain elec (evs := [Event.pickup v rid req.value ((s1.time - req.departure) % 86400)]) rfl ?_ ?_
    · intro e he; simp only [List.mem_singleton] at he; subst he; intro _ _ _ _ _ hh; cases hh
    · intro i
      have : s2.station? i = w.sim.station? i := by simp [Sim.station?, hs2, hs1]
      simp only
      rw [this]

theorem dropOffTrip_sameT {w w2 : World} {v : VehicleId} {req : Request}
    (h : dropOffTrip w v req = .ok w2) : SameT elec w w2 := by
  unfold dropOffTrip at h
  split at h
  · cases h
  · split at h
    · cases h
    · cases h
      refine sameT_plain elec (evs := [Event.dropoff v req.id]) rfl ?_ (fun _ => rfl)
      intro e he; simp only [List.mem_singleton] at he; subst he; intro _ _ _ _ _ hh; cases hh

theorem enter_sameT {w w2 : World} {v : VehicleId} {next : Act}
    (h : enter env w v next = .ok w2) : SameT elec w w2 := by
  have q : ∀ {s2 : Sim}, Quiet w.sim s2 → SameT elec w { w with sim := s2 } := fun hq => SameT.of_quiet elec hq rfl
  cases next <;> simp only [enter] at h
  case idle d =>
    simp only [Outcome.bind_eq, Outcome.bind_eq_ok, Outcome.pure_eq] at h
    obtain ⟨s2, h1, h2⟩ := h
    cases h2; exact q (applyAct_quiet h1)
  case outOfService =>
    simp only [Outcome.bind_eq, Outcome.bind_eq_ok, Outcome.pure_eq] at h
    obtain ⟨s2, h1, h2⟩ := h
    cases h2; exact q (applyAct_quiet h1)
  case repositioning route =>
    split at h
    · cases h
    · split at h
      · cases h
      · simp only [Outcome.bind_eq, Outcome.bind_eq_ok, Outcome.pure_eq] at h
        obtain ⟨s2, h1, h2⟩ := h
        cases h2; exact q (applyAct_quiet h1)
  case dispatchBase b route =>
    split at h
    · cases h
    · cases h
    · split at h
      · cases h
      · split at h
        · cases h
        · simp only [Outcome.bind_eq, Outcome.bind_eq_ok, Outcome.pure_eq] at h
          obtain ⟨s2, h1, h2⟩ := h
          cases h2; exact q (applyAct_quiet h1)
  case dispatchTrip rid route =>
    split at h
    · cases h
    · split at h
      · cases h
      · next req hreq =>
        split at h
        · cases h
        · split at h
          · cases h
          · simp only [Outcome.bind_eq, Outcome.bind_eq_ok, Outcome.pure_eq] at h
            obtain ⟨s1, h0, s2, h1, h2⟩ := h
            cases h2
            exact q ((modifyRequest_quiet h0).trans (applyAct_quiet h1))
  case servicingPooling => cases h
  case dispatchPooling => cases h
  case servicingTrip sreq dep route =>
    split at h
    · cases h
    · split at h
      · cases h
      · split at h
        · cases h
        · split at h
          · cases h
          · split at h
            · cases h
            · split at h
              · cases h
              · simp only [Outcome.bind_eq, Outcome.bind_eq_ok, Outcome.pure_eq] at h
                obtain ⟨w1, h0, s2, h1, h2⟩ := h
                cases h2
                exact (pickUpTrip_sameT h0).trans (SameT.of_quiet elec (w := w1) (w2 := { w1 with sim := s2 }) (applyAct_quiet h1) rfl)
  case reserveBase b =>
    split at h
    · cases h
    · cases h
    · next veh base hveh hbase =>
      split at h
      · cases h
      · split at h
        · cases h
        · split at h
          · cases h
          · next base' hco =>
            simp only [Outcome.bind_eq, Outcome.bind_eq_ok, Outcome.pure_eq] at h
            obtain ⟨s1, h0, s2, h1, h2⟩ := h
            cases h2
            unfold Base.checkout at hco
            split at hco
            · cases hco
            · cases hco
              exact q ((modifyBase_quiet h0).trans (applyAct_quiet h1))
  case chargingStation sid cid =>
    split at h
    · cases h
    · cases h
    · next veh st hveh hst =>
      split at h
      · cases h
      · split at h
        · cases h
        · split at h
          · cases h
          · split at h
            · cases h
            · split at h
              · cases h
              · simp only [Outcome.bind_eq, Outcome.bind_eq_ok, Outcome.pure_eq] at h
                obtain ⟨st', hco, s1, h0, s2, h1, h2⟩ := h
                cases h2
                exact q ((station_step_quiet hst hco h0).trans (applyAct_quiet h1))
  case dispatchStation sid cid route =>
    split at h
    · cases h
    · cases h
    · next veh st hveh hst =>
      split at h
      · split at h
        · cases h
        · split at h
          · cases h
          · split at h
            · cases h
            · split at h
              · cases h
              · simp only [Outcome.bind_eq, Outcome.bind_eq_ok, Outcome.pure_eq] at h
                obtain ⟨st', hco, s1, h0, s2, h1, h2⟩ := h
                cases h2
                exact q ((station_step_quiet hst hco h0).trans (applyAct_quiet h1))
      · split at h
        · cases h
        · split at h
          · cases h
          · simp only [Outcome.bind_eq, Outcome.bind_eq_ok, Outcome.pure_eq] at h
            obtain ⟨s2, h1, h2⟩ := h
            cases h2; exact q (applyAct_quiet h1)
  case chargeQueueing sid cid t =>
    split at h
    · cases h
    · cases h
    · next veh st hveh hst =>
      split at h
      · cases h
      · split at h
        · cases h
        · split at h
          · cases h
          · split at h
            · cases h
            · simp only [Outcome.bind_eq, Outcome.bind_eq_ok, Outcome.pure_eq] at h
              obtain ⟨st', henq, s1, h0, s2, h1, h2⟩ := h
              cases h2
              exact q ((station_step_quiet hst henq h0).trans (applyAct_quiet h1))
  case chargingBase b cid =>
    split at h
    · cases h
    · cases h
    · next veh base hveh hbase =>
      split at h
      · cases h
      · next sid hsid =>
        split at h
        · cases h
        · next st hst =>
          split at h
          · cases h
          · split at h
            · cases h
            · split at h
              · cases h
              · split at h
                · cases h
                · split at h
                  · cases h
                  · next base' hcob =>
                    split at h
                    · cases h
                    · split at h
                      · cases h
                      · simp only [Outcome.bind_eq, Outcome.bind_eq_ok, Outcome.pure_eq] at h
                        obtain ⟨st', hco, s1, h0, s2, h1, s3, h2, h3⟩ := h
                        cases h3
                        unfold Base.checkout at hcob
                        split at hcob
                        · cases hcob
                        · cases hcob
                          obtain ⟨_, _, hs1, _⟩ := Sim.modifyBase_fields h0
                          have hst1 : s1.station? sid = some st := by
                            unfold Sim.station? at *; rw [hs1]; exact hst
                          exact q (((modifyBase_quiet h0).trans (station_step_quiet hst1 hco h1)).trans (applyAct_quiet h2))



theorem transition_sameT {w w2 : World} {v : VehicleId} {prev next : Act}
    (h : transition env w v prev next = .ok w2) : SameT elec w w2 := by
  unfold transition at h
  simp only [Outcome.bind_eq, Outcome.bind_eq_ok] at h
  obtain ⟨s1, h1, h2⟩ := h
  exact (SameT.of_quiet elec (w := w) (w2 := { w with sim := s1 }) (exit_quiet h1) rfl).trans (enter_sameT h2)


theorem modifyVehicle_sameT {w : World} {s : Sim} {veh' old : Vehicle} (h : w.sim.modifyVehicle env veh' = .ok s)
    (hold : w.sim.vehicle? veh'.id = some old) (hm : vehMoney veh' = vehMoney old) : SameT elec w { w with sim := s } :=
  SameT.of_quiet elec (modifyVehicle_quiet h hold hm) rfl

theorem move_sameT {w w2 : World} {v : VehicleId} (h : move env w v = .ok w2) : SameT elec w w2 := by
  unfold move at h
  split at h
  · cases h
  · next veh hveh =>
    have hid : veh.id = v := (vehicle?_some hveh).2
    split at h
    · cases h
    · split at h
      · cases h
      · next route _ =>
        simp only [Outcome.bind_eq, Outcome.bind_eq_ok, Outcome.pure_eq] at h
        obtain ⟨tr, htr, h⟩ := h
        split at h
        · simp only [Outcome.bind_eq, Outcome.bind_eq_ok, Outcome.pure_eq] at h
          obtain ⟨s2, h1, h2⟩ := h
          cases h2
          exact modifyVehicle_sameT h1 (old := veh) (by simp only; rw [hid]; exact hveh) rfl
        · split at h
          · simp only [Outcome.bind_eq, Outcome.bind_eq_ok, Outcome.pure_eq] at h
            obtain ⟨s2, h1, h2⟩ := h
            cases h2
            refine SameT.of_quiet elec ?_ rfl
            split at h1
            · next s' hexit => exact (exit_quiet hexit).trans (applyAct_quiet h1)
            · exact applyAct_quiet h1
          · split at h
            · cases h
            · next last _ =>
              simp only [Outcome.bind_eq, Outcome.bind_eq_ok, Outcome.pure_eq] at h
              obtain ⟨s2, h1, h2⟩ := h
              cases h2
              obtain ⟨_, _, hs1, _⟩ := Sim.modifyVehicle_fields h1
              refine sameT_plain elec (evs := [Event.move v tr.km ((env.consume veh tr.experienced).level - veh.en.level)]) rfl ?_ ?_
              · intro e he; simp only [List.mem_singleton] at he; subst he; intro _ _ _ _ _ hh; cases hh
              · intro i
                have : s2.station? i = w.sim.station? i := by simp [Sim.station?, hs1]
                simp only
                rw [this]

theorem charge_sameT {w w2 : World} (htyped : Typed elec w.sim) {v : VehicleId} {sid : StationId} {cid : ChargerId}
    (h : charge env w v sid cid = .ok w2) : SameT elec w w2 := by
  unfold charge at h
  split at h
  · cases h
  · next st hst =>
    split at h
    · cases h
    · next veh hveh =>
      have hsid : st.id = sid := (station?_some hst).2
      split at h
      · cases h
      · split at h
        · cases h
        · next cs hcs =>
          split at h
          · cases h
          · simp only [Outcome.bind_eq, Outcome.bind_eq_ok, Outcome.pure_eq] at h
            obtain ⟨s1, h1, s2, h2, h3⟩ := h
            cases h3
            obtain ⟨_, _, hs1, _⟩ := Sim.modifyVehicle_fields h1
            obtain ⟨hmem, hcid⟩ := plug?_some hcs
            have hel := htyped sid st hst cs hmem
            rw [hcid] at hel
            refine sameT_of elec (evs := [Event.charge v sid cid ((env.addEnergy veh cs w.sim.dt).level - veh.en.level)
              (((env.addEnergy veh cs w.sim.dt).level - veh.en.level) * cs.price)]) rfl ?_
            intro i
            simp only
            rw [modifyStation_lookup h2]
            simp only [hsid]
            have hst1 : s1.station? i = w.sim.station? i := by simp [Sim.station?, hs1]
            split
            · next hi =>
              subst hi
              rw [hst]
              simp only [Option.map_some, dispensedE, dispensedG, List.map_cons, List.map_nil,
                List.sum_cons, List.sum_nil, true_and, Option.some.injEq, Prod.mk.injEq, ← hel]
              cases cs.electric <;> simp
            · next hi =>
              rw [hst1]
              cases w.sim.station? i with
              | none => rfl
              | some a =>
                have : ¬ sid = i := fun e => hi e.symm
                simp [dispensedE, dispensedG, this]

theorem performUpdate_sameT {w w2 : World} (htyped : Typed elec w.sim) {v : VehicleId} {a : Act}
    (h : performUpdate env w v a = .ok w2) : SameT elec w w2 := by
  cases a <;> simp only [performUpdate] at h
  case idle d =>
    split at h
    · cases h
    · next veh hveh =>
      split at h
      · cases h
      · simp only [Outcome.bind_eq, Outcome.bind_eq_ok, Outcome.pure_eq] at h
        obtain ⟨s2, h1, h2⟩ := h
        cases h2
        exact vehicleOnly_sameT h1
  case outOfService | reserveBase => cases h; exact SameT.refl elec _
  case repositioning | dispatchTrip | dispatchStation | dispatchBase => exact move_sameT h
  case servicingTrip req dep r =>
    simp only [Outcome.bind_eq, Outcome.bind_eq_ok, Outcome.pure_eq] at h
    obtain ⟨w1, h1, h2⟩ := h
    have s1 : SameT elec w w1 := move_sameT h1
    split at h2
    · cases h2
    · split at h2
      · cases h2; exact s1
      · split at h2
        · exact s1.trans (dropOffTrip_sameT h2)
        · cases h2; exact s1
      · cases h2; exact s1
  case chargingStation sid cid => exact charge_sameT htyped h
  case chargingBase b cid =>
    split at h
    · cases h
    · exact charge_sameT htyped h
  case chargeQueueing sid cid t =>
    split at h
    · cases h
    · next veh hveh =>
      split at h
      · cases h
      · simp only [Outcome.bind_eq, Outcome.bind_eq_ok, Outcome.pure_eq] at h
        obtain ⟨s2, h1, h2⟩ := h
        cases h2
        exact vehicleOnly_sameT h1
  case servicingPooling | dispatchPooling => cases h


theorem defaultUpdate_sameT {w w2 : World} (hwf : w.sim.WF) (htyped : Typed elec w.sim) {v : VehicleId} {a : Act}
    (h : defaultUpdate env w v a = .ok w2) : SameT elec w w2 := by
  unfold defaultUpdate at h
  split at h
  · simp only [Outcome.bind_eq, Outcome.bind_eq_ok] at h
    obtain ⟨next, _, w1, htr, h3⟩ := h
    split at h3
    · cases h3
    · exact (transition_sameT htr).trans (performUpdate_sameT (typed_frame (transition_frame hwf htr) htyped) h3)
  · exact performUpdate_sameT htyped h

end TypedWalk

/-! ### the per-type books over whole runs -/

section TypedRun
variable {elec : StationId → ChargerId → Bool}

/-- what a run keeps: well-formed, every plug of the type `elec` says, per-type books untouched -/
structure KT (elec : StationId → ChargerId → Bool) (w0 w : World) : Prop where
  wf : w.sim.WF
  typed : Typed elec w.sim
  same : SameT elec w0 w

theorem kt_update {w0 w w2 : World} {v : VehicleId} {a : Act} (hk : KT elec w0 w)
    (h : defaultUpdate env w v a = .ok w2) : KT elec w0 w2 := by
  obtain ⟨hfr, hid⟩ := defaultUpdate_frame hk.wf h
  exact ⟨hid.wf hk.wf, typed_frame hfr hk.typed, hk.same.trans (defaultUpdate_sameT hk.wf hk.typed h)⟩

theorem kt_transition {w0 w w2 : World} {v : VehicleId} {prev next : Act} (hk : KT elec w0 w)
    (h : transition env w v prev next = .ok w2) : KT elec w0 w2 :=
  ⟨(transition_sameIds hk.wf h).wf hk.wf, typed_frame (transition_frame hk.wf h) hk.typed, hk.same.trans (transition_sameT h)⟩

theorem kt_applied {w0 w : World} (a : List (VehicleId × Instr)) (hk : KT elec w0 w) :
    KT elec w0 { w with sim := { w.sim with applied := a } } :=
  ⟨wf_applied a hk.wf, typed_stations rfl hk.typed, hk.same.trans (SameT.of_quiet elec (Quiet.of_fields rfl rfl) rfl)⟩

theorem applyPlans_kt {w0 : World} : ∀ (ps : List (Instr × VehicleId × Act × Act)) {w : World}, KT elec w0 w →
    KT elec w0 (applyPlans env w ps)
  | [], _, hk => hk
  | (i, v, prev, next) :: ps, w, hk => by
    simp only [applyPlans]
    split
    · next w' htr => exact applyPlans_kt ps (kt_applied _ (kt_transition hk htr))
    · exact applyPlans_kt ps hk

theorem fold_kt {w0 : World} : ∀ (order : List Vehicle) {w : World}, KT elec w0 w →
    KT elec w0 (order.foldl (fun acc v => stepVehicle env acc v.id v.act) w)
  | [], _, hk => hk
  | x :: xs, w, hk => by
    rw [List.foldl_cons]
    refine fold_kt xs ?_
    unfold stepVehicle
    split
    · next w' h => exact kt_update hk h
    · exact hk

theorem kt_phase (hf : ∀ c, env.inFence c = true) {w0 w w' : World} (hk : KT elec w0 w) (h : WPhase env w w') :
    KT elec w0 w' := by
  cases h with
  | instructions is => exact applyPlans_kt _ hk
  | updates => exact fold_kt _ hk
  | tick =>
    exact ⟨⟨hk.wf.veh, hk.wf.stn, hk.wf.base, hk.wf.req, hk.wf.plugs⟩, typed_stations rfl hk.typed,
      hk.same.trans (SameT.of_quiet elec (Quiet.of_fields rfl rfl) rfl)⟩
  | @arrival s' r hfresh _ _ hadd =>
    have hfr : w.sim.request? r.id = none := by
      cases hq : w.sim.request? r.id with
      | none => rfl
      | some x =>
        exfalso; apply hfresh
        obtain ⟨hm, hid⟩ := request?_some hq
        unfold Reqs.ids; rw [← hid]; exact List.mem_map_of_mem hm
    obtain ⟨_, hs, _⟩ := addRequest_fields hfr hadd
    refine ⟨addRequest_wf hk.wf hfr hadd, typed_stations hs hk.typed, hk.same.trans ?_⟩
    refine sameT_plain elec (evs := [Event.addRequest r.id]) rfl ?_ (fun i => by simp [Sim.station?, hs])
    intro e he; simp only [List.mem_singleton] at he; subst he; intro _ _ _ _ _ hh; cases hh
  | @cancel s' i hrem =>
    obtain ⟨_, _, hs, _⟩ := Sim.removeRequest_fields hrem
    refine ⟨(Sim.removeRequest_sameIds hrem).wf hk.wf, typed_stations hs hk.typed, hk.same.trans ?_⟩
    refine sameT_plain elec (evs := [Event.cancelRequest i]) rfl ?_ (fun j => by simp [Sim.station?, hs])
    intro e he; simp only [List.mem_singleton] at he; subst he; intro _ _ _ _ _ hh; cases hh
  | prices names rd =>
    have hc := priceUpdate_cosmetic (env := env) names rd w.sim hf hk.wf
    exact ⟨wf_cosmetic hc hk.wf, typed_cosmetic hc hk.typed, hk.same.trans (SameT.of_quiet elec (prices_quiet names rd w.sim) rfl)⟩
  | drivers tbl =>
    have hc := driverUpdates_cosmetic (env := env) tbl w hf hk.wf
    have hd := driverUpdates_only (env := env) tbl w
    obtain ⟨evs, hl, hall⟩ := hd.log
    refine ⟨wf_cosmetic hc hk.wf, typed_cosmetic hc hk.typed, hk.same.trans ?_⟩
    refine sameT_plain elec hl ?_ (fun i => by simp [Sim.station?, hd.stations])
    intro e he
    obtain ⟨v, b, rfl⟩ := hall e he
    intro _ _ _ _ _ hh; cases hh

/-- **the per-type books never change**: from a well-formed state whose plugs have the types
    `elec` says, along every history of phases, whatever the instructions -/
theorem reachable_typed (hf : ∀ c, env.inFence c = true) {w0 w : World} (hwf : w0.sim.WF) (ht : Typed elec w0.sim)
    (h : WReachable env w0 w) : KT elec w0 w := by
  induction h with
  | init => exact ⟨hwf, ht, SameT.refl elec _⟩
  | step _ hp ih => exact kt_phase hf ih hp

/-- **C05, per energy type, per station**: after any history from an empty log, what a station
    reports as dispensed electricity is what it had reported at the start plus the amounts of the
    charge events at its electric plugs, and likewise for fuel - and no plug has changed its type -/
theorem run_station_typed (hf : ∀ c, env.inFence c = true) {w0 w : World} (hwf : w0.sim.WF) (ht : Typed elec w0.sim)
    (h0 : w0.log = []) (h : WReachable env w0 w) {i : StationId} {st : Station} (hst : w.sim.station? i = some st) :
    ∃ st0, w0.sim.station? i = some st0 ∧ st.dispE = st0.dispE + dispensedE elec w.log i ∧
      st.dispG = st0.dispG + dispensedG elec w.log i ∧ ∀ cs ∈ st.plugs, cs.electric = elec i cs.id := by
  have hk := reachable_typed hf hwf ht h
  have := hk.same i
  unfold stnBookT at this
  rw [hst, h0] at this
  cases h1 : w0.sim.station? i with
  | none => rw [h1] at this; cases this
  | some st0 =>
    rw [h1] at this
    simp only [Option.map_some, Option.some.injEq, Prod.mk.injEq, dispensedE, dispensedG, List.map_nil, List.sum_nil, sub_zero] at this
    refine ⟨st0, rfl, ?_, ?_, hk.typed i st hst⟩
    · unfold dispensedE; linarith [this.1]
    · unfold dispensedG; linarith [this.2]

end TypedRun

/-! ### the vehicle side, per energy type -/

section VehicleTypes
variable {elec : StationId → ChargerId → Bool} {isE : MechId → Bool} {kindOf : VehicleId → MechId}

/-- every vehicle has the powertrain `kindOf` says -/
def Meched (kindOf : VehicleId → MechId) (s : Sim) : Prop := ∀ veh ∈ s.vehicles, veh.mech = kindOf veh.id

/-- what the per-type books need from the physics: a plug of the other energy type adds nothing
    (the model's `add_energy` does: `concrete_typeEnv`) -/
def TypeEnv (env : Env) (isE : MechId → Bool) : Prop :=
  ∀ veh cs dt, cs.electric ≠ isE veh.mech → (env.addEnergy veh cs dt).level = veh.en.level

/-- a charge event that books energy of the wrong type for the vehicle -/
def bad (elec : StationId → ChargerId → Bool) (isE : MechId → Bool) (kindOf : VehicleId → MechId) : Event → Prop
  | .charge v s c a _ => a ≠ 0 ∧ elec s c ≠ isE (kindOf v)
  | _ => False

/-- the events filed between `w` and `w'` book no energy of the wrong type -/
def Right (elec : StationId → ChargerId → Bool) (isE : MechId → Bool) (kindOf : VehicleId → MechId) (w w' : World) : Prop :=
  ∃ evs, w'.log = w.log ++ evs ∧ ∀ e ∈ evs, ¬ bad elec isE kindOf e

variable (elec isE kindOf) in
theorem Right.refl (w : World) : Right elec isE kindOf w w := ⟨[], by simp, fun e he => by cases he⟩

theorem Right.trans {a b c : World} (h1 : Right elec isE kindOf a b) (h2 : Right elec isE kindOf b c) : Right elec isE kindOf a c := by
  obtain ⟨e1, l1, b1⟩ := h1
  obtain ⟨e2, l2, b2⟩ := h2
  refine ⟨e1 ++ e2, by rw [l2, l1, List.append_assoc], ?_⟩
  intro e he
  rcases List.mem_append.mp he with h | h
  · exact b1 e h
  · exact b2 e h

variable (elec isE kindOf) in
theorem Right.of_quiet {w w2 : World} (_hq : Quiet w.sim w2.sim) (hl : w2.log = w.log) : Right elec isE kindOf w w2 :=
  ⟨[], by rw [hl]; simp, fun e he => by cases he⟩

variable (elec isE kindOf) in
theorem right_plain {w w2 : World} {evs : List Event} (hl : w2.log = w.log ++ evs)
    (hnc : ∀ e ∈ evs, ∀ v s c a p, e ≠ .charge v s c a p)
    (_hs : ∀ i, (w2.sim.station? i).map stnMoney = (w.sim.station? i).map stnMoney) : Right elec isE kindOf w w2 := by
  refine ⟨evs, hl, ?_⟩
  intro e he hb
  cases e <;> first | exact hb | exact hnc _ he _ _ _ _ _ rfl

theorem vehicleOnly_right {w : World} {s : Sim} {veh' : Vehicle} (h : w.sim.modifyVehicle env veh' = .ok s) :
    Right elec isE kindOf w { w with sim := s } :=
  right_plain elec isE kindOf (evs := []) (by simp) (fun e he => by cases he) (fun i => by rw [vehicleOnly_stations h i])


theorem pickUpTrip_right {w w1 : World} {v : VehicleId} {rid : RequestId}
    (h : pickUpTrip env w v rid = .ok w1) : Right elec isE kindOf w w1 := by
  unfold pickUpTrip at h
  split at h
  · cases h
  · cases h
  · next veh req hveh hreq =>
    simp only [Outcome.bind_eq, Outcome.bind_eq_ok, Outcome.pure_eq] at h
    obtain ⟨s1, h1, s2, h2, h3⟩ := h
    cases h3
    obtain ⟨_, _, hs2, _, hv2, _⟩ := Sim.removeRequest_fields h2
    obtain ⟨_, _, hs1, _⟩ := Sim.modifyVehicle_fields h1
    refine right_plain elec isE kindOf (evs := [Event.pickup v rid req.value ((s1.time - req.departure) % 86400)]) rfl ?_ ?_
    · intro e he; simp only [List.mem_singleton] at he; subst he; intro _ _ _ _ _ hh; cases hh
    · intro i
      have : s2.station? i = w.sim.station? i := by simp [Sim.station?, hs2, hs1]
      simp only
      rw [this]


theorem dropOffTrip_right {w w2 : World} {v : VehicleId} {req : Request}
    (h : dropOffTrip w v req = .ok w2) : Right elec isE kindOf w w2 := by
  unfold dropOffTrip at h
  split at h
  · cases h
  · split at h
    · cases h
    · cases h
      refine right_plain elec isE kindOf (evs := [Event.dropoff v req.id]) rfl ?_ (fun _ => rfl)
      intro e he; simp only [List.mem_singleton] at he; subst he; intro _ _ _ _ _ hh; cases hh


theorem enter_right {w w2 : World} {v : VehicleId} {next : Act}
    (h : enter env w v next = .ok w2) : Right elec isE kindOf w w2 := by
  have q : ∀ {s2 : Sim}, Quiet w.sim s2 → Right elec isE kindOf w { w with sim := s2 } := fun hq => Right.of_quiet elec isE kindOf hq rfl
  cases next <;> simp only [enter] at h
  case idle d =>
    simp only [Outcome.bind_eq, Outcome.bind_eq_ok, Outcome.pure_eq] at h
    obtain ⟨s2, h1, h2⟩ := h
    cases h2; exact q (applyAct_quiet h1)
  case outOfService =>
    simp only [Outcome.bind_eq, Outcome.bind_eq_ok, Outcome.pure_eq] at h
    obtain ⟨s2, h1, h2⟩ := h
    cases h2; exact q (applyAct_quiet h1)
  case repositioning route =>
    split at h
    · cases h
    · split at h
      · cases h
      · simp only [Outcome.bind_eq, Outcome.bind_eq_ok, Outcome.pure_eq] at h
        obtain ⟨s2, h1, h2⟩ := h
        cases h2; exact q (applyAct_quiet h1)
  case dispatchBase b route =>
    split at h
    · cases h
    · cases h
    · split at h
      · cases h
      · split at h
        · cases h
        · simp only [Outcome.bind_eq, Outcome.bind_eq_ok, Outcome.pure_eq] at h
          obtain ⟨s2, h1, h2⟩ := h
          cases h2; exact q (applyAct_quiet h1)
  case dispatchTrip rid route =>
    split at h
    · cases h
    · split at h
      · cases h
      · next req hreq =>
        split at h
        · cases h
        · split at h
          · cases h
          · simp only [Outcome.bind_eq, Outcome.bind_eq_ok, Outcome.pure_eq] at h
            obtain ⟨s1, h0, s2, h1, h2⟩ := h
            cases h2
            exact q ((modifyRequest_quiet h0).trans (applyAct_quiet h1))
  case servicingPooling => cases h
  case dispatchPooling => cases h
  case servicingTrip sreq dep route =>
    split at h
    · cases h
    · split at h
      · cases h
      · split at h
        · cases h
        · split at h
          · cases h
          · split at h
            · cases h
            · split at h
              · cases h
              · simp only [Outcome.bind_eq, Outcome.bind_eq_ok, Outcome.pure_eq] at h
                obtain ⟨w1, h0, s2, h1, h2⟩ := h
                cases h2
                exact (pickUpTrip_right h0).trans (Right.of_quiet elec isE kindOf (w := w1) (w2 := { w1 with sim := s2 }) (applyAct_quiet h1) rfl)
  case reserveBase b =>
    split at h
    · cases h
    · cases h
    · next veh base hveh hbase =>
      split at h
      · cases h
      · split at h
        · cases h
        · split at h
          · cases h
          · next base' hco =>
            simp only [Outcome.bind_eq, Outcome.bind_eq_ok, Outcome.pure_eq] at h
            obtain ⟨s1, h0, s2, h1, h2⟩ := h
            cases h2
            unfold Base.checkout at hco
            split at hco
            · cases hco
            · cases hco
              exact q ((modifyBase_quiet h0).trans (applyAct_quiet h1))
  case chargingStation sid cid =>
    split at h
    · cases h
    · cases h
    · next veh st hveh hst =>
      split at h
      · cases h
      · split at h
        · cases h
        · split at h
          · cases h
          · split at h
            · cases h
            · split at h
              · cases h
              · simp only [Outcome.bind_eq, Outcome.bind_eq_ok, Outcome.pure_eq] at h
                obtain ⟨st', hco, s1, h0, s2, h1, h2⟩ := h
                cases h2
                exact q ((station_step_quiet hst hco h0).trans (applyAct_quiet h1))
  case dispatchStation sid cid route =>
    split at h
    · cases h
    · cases h
    · next veh st hveh hst =>
      split at h
      · split at h
        · cases h
        · split at h
          · cases h
          · split at h
            · cases h
            · split at h
              · cases h
              · simp only [Outcome.bind_eq, Outcome.bind_eq_ok, Outcome.pure_eq] at h
                obtain ⟨st', hco, s1, h0, s2, h1, h2⟩ := h
                cases h2
                exact q ((station_step_quiet hst hco h0).trans (applyAct_quiet h1))
      · split at h
        · cases h
        · split at h
          · cases h
          · simp only [Outcome.bind_eq, Outcome.bind_eq_ok, Outcome.pure_eq] at h
            obtain ⟨s2, h1, h2⟩ := h
            cases h2; exact q (applyAct_quiet h1)
  case chargeQueueing sid cid t =>
    split at h
    · cases h
    · cases h
    · next veh st hveh hst =>
      split at h
      · cases h
      · split at h
        · cases h
        · split at h
          · cases h
          · split at h
            · cases h
            · simp only [Outcome.bind_eq, Outcome.bind_eq_ok, Outcome.pure_eq] at h
              obtain ⟨st', henq, s1, h0, s2, h1, h2⟩ := h
              cases h2
              exact q ((station_step_quiet hst henq h0).trans (applyAct_quiet h1))
  case chargingBase b cid =>
    split at h
    · cases h
    · cases h
    · next veh base hveh hbase =>
      split at h
      · cases h
      · next sid hsid =>
        split at h
        · cases h
        · next st hst =>
          split at h
          · cases h
          · split at h
            · cases h
            · split at h
              · cases h
              · split at h
                · cases h
                · split at h
                  · cases h
                  · next base' hcob =>
                    split at h
                    · cases h
                    · split at h
                      · cases h
                      · simp only [Outcome.bind_eq, Outcome.bind_eq_ok, Outcome.pure_eq] at h
                        obtain ⟨st', hco, s1, h0, s2, h1, s3, h2, h3⟩ := h
                        cases h3
                        unfold Base.checkout at hcob
                        split at hcob
                        · cases hcob
                        · cases hcob
                          obtain ⟨_, _, hs1, _⟩ := Sim.modifyBase_fields h0
                          have hst1 : s1.station? sid = some st := by
                            unfold Sim.station? at *; rw [hs1]; exact hst
                          exact q (((modifyBase_quiet h0).trans (station_step_quiet hst1 hco h1)).trans (applyAct_quiet h2))




theorem transition_right {w w2 : World} {v : VehicleId} {prev next : Act}
    (h : transition env w v prev next = .ok w2) : Right elec isE kindOf w w2 := by
  unfold transition at h
  simp only [Outcome.bind_eq, Outcome.bind_eq_ok] at h
  obtain ⟨s1, h1, h2⟩ := h
  exact (Right.of_quiet elec isE kindOf (w := w) (w2 := { w with sim := s1 }) (exit_quiet h1) rfl).trans (enter_right h2)



theorem modifyVehicle_right {w : World} {s : Sim} {veh' old : Vehicle} (h : w.sim.modifyVehicle env veh' = .ok s)
    (hold : w.sim.vehicle? veh'.id = some old) (hm : vehMoney veh' = vehMoney old) : Right elec isE kindOf w { w with sim := s } :=
  Right.of_quiet elec isE kindOf (modifyVehicle_quiet h hold hm) rfl


theorem move_right {w w2 : World} {v : VehicleId} (h : move env w v = .ok w2) : Right elec isE kindOf w w2 := by
  unfold move at h
  split at h
  · cases h
  · next veh hveh =>
    have hid : veh.id = v := (vehicle?_some hveh).2
    split at h
    · cases h
    · split at h
      · cases h
      · next route _ =>
        simp only [Outcome.bind_eq, Outcome.bind_eq_ok, Outcome.pure_eq] at h
        obtain ⟨tr, htr, h⟩ := h
        split at h
        · simp only [Outcome.bind_eq, Outcome.bind_eq_ok, Outcome.pure_eq] at h
          obtain ⟨s2, h1, h2⟩ := h
          cases h2
          exact modifyVehicle_right h1 (old := veh) (by simp only; rw [hid]; exact hveh) rfl
        · split at h
          · simp only [Outcome.bind_eq, Outcome.bind_eq_ok, Outcome.pure_eq] at h
            obtain ⟨s2, h1, h2⟩ := h
            cases h2
            refine Right.of_quiet elec isE kindOf ?_ rfl
            split at h1
            · next s' hexit => exact (exit_quiet hexit).trans (applyAct_quiet h1)
            · exact applyAct_quiet h1
          · split at h
            · cases h
            · next last _ =>
              simp only [Outcome.bind_eq, Outcome.bind_eq_ok, Outcome.pure_eq] at h
              obtain ⟨s2, h1, h2⟩ := h
              cases h2
              obtain ⟨_, _, hs1, _⟩ := Sim.modifyVehicle_fields h1
              refine right_plain elec isE kindOf (evs := [Event.move v tr.km ((env.consume veh tr.experienced).level - veh.en.level)]) rfl ?_ ?_
              · intro e he; simp only [List.mem_singleton] at he; subst he; intro _ _ _ _ _ hh; cases hh
              · intro i
                have : s2.station? i = w.sim.station? i := by simp [Sim.station?, hs1]
                simp only
                rw [this]


theorem charge_right {w w2 : World} (hte : TypeEnv env isE) (htyped : Typed elec w.sim) (hm : Meched kindOf w.sim)
    {v : VehicleId} {sid : StationId} {cid : ChargerId}
    (h : charge env w v sid cid = .ok w2) : Right elec isE kindOf w w2 := by
  unfold charge at h
  split at h
  · cases h
  · next st hst =>
    split at h
    · cases h
    · next veh hveh =>
      split at h
      · cases h
      · split at h
        · cases h
        · next cs hcs =>
          split at h
          · cases h
          · simp only [Outcome.bind_eq, Outcome.bind_eq_ok, Outcome.pure_eq] at h
            obtain ⟨s1, h1, s2, h2, h3⟩ := h
            cases h3
            obtain ⟨hmem, hcid⟩ := plug?_some hcs
            have hel := htyped sid st hst cs hmem
            rw [hcid] at hel
            obtain ⟨hvm, hvid⟩ := vehicle?_some hveh
            have hmech := hm veh hvm
            rw [hvid] at hmech
            refine ⟨[_], rfl, ?_⟩
            intro e he
            simp only [List.mem_singleton] at he
            subst he
            intro hb
            obtain ⟨hne, hty⟩ := hb
            apply hne
            have := hte veh cs w.sim.dt (by rw [hel, hmech]; exact hty)
            rw [this]; ring

theorem performUpdate_right {w w2 : World} (hte : TypeEnv env isE) (htyped : Typed elec w.sim) (hm : Meched kindOf w.sim) {v : VehicleId} {a : Act}
    (h : performUpdate env w v a = .ok w2) : Right elec isE kindOf w w2 := by
  cases a <;> simp only [performUpdate] at h
  case idle d =>
    split at h
    · cases h
    · next veh hveh =>
      split at h
      · cases h
      · simp only [Outcome.bind_eq, Outcome.bind_eq_ok, Outcome.pure_eq] at h
        obtain ⟨s2, h1, h2⟩ := h
        cases h2
        exact vehicleOnly_right h1
  case outOfService | reserveBase => cases h; exact Right.refl elec isE kindOf _
  case repositioning | dispatchTrip | dispatchStation | dispatchBase => exact move_right h
  case servicingTrip req dep r =>
    simp only [Outcome.bind_eq, Outcome.bind_eq_ok, Outcome.pure_eq] at h
    obtain ⟨w1, h1, h2⟩ := h
    have s1 : Right elec isE kindOf w w1 := move_right h1
    split at h2
    · cases h2
    · split at h2
      · cases h2; exact s1
      · split at h2
        · exact s1.trans (dropOffTrip_right h2)
        · cases h2; exact s1
      · cases h2; exact s1
  case chargingStation sid cid => exact charge_right hte htyped hm h
  case chargingBase b cid =>
    split at h
    · cases h
    · exact charge_right hte htyped hm h
  case chargeQueueing sid cid t =>
    split at h
    · cases h
    · next veh hveh =>
      split at h
      · cases h
      · simp only [Outcome.bind_eq, Outcome.bind_eq_ok, Outcome.pure_eq] at h
        obtain ⟨s2, h1, h2⟩ := h
        cases h2
        exact vehicleOnly_right h1
  case servicingPooling | dispatchPooling => cases h



theorem defaultUpdate_right {w w2 : World} (hte : TypeEnv env isE) (hwf : w.sim.WF) (htyped : Typed elec w.sim)
    (hm : Meched kindOf w.sim) {v : VehicleId} {a : Act}
    (hm1 : ∀ {w1 : World} {next : Act}, transition env w v a next = .ok w1 → Meched kindOf w1.sim)
    (h : defaultUpdate env w v a = .ok w2) : Right elec isE kindOf w w2 := by
  unfold defaultUpdate at h
  split at h
  · simp only [Outcome.bind_eq, Outcome.bind_eq_ok] at h
    obtain ⟨next, _, w1, htr, h3⟩ := h
    split at h3
    · cases h3
    · exact (transition_right htr).trans (performUpdate_right hte (typed_frame (transition_frame hwf htr) htyped) (hm1 htr) h3)
  · exact performUpdate_right hte htyped hm h

end VehicleTypes

/-! ### the vehicle side over whole runs -/

section VehicleRun
variable {elec : StationId → ChargerId → Bool} {isE : MechId → Bool} {kindOf : VehicleId → MechId}

theorem meched_vstep {dt : Nat} {a b : Vehicle} (h : VStep env (fun _ => True) dt a b) (ha : a.mech = kindOf a.id) :
    b.mech = kindOf b.id := by
  cases h <;> exact ha

theorem transition_exists {w w2 : World} {v : VehicleId} {prev next : Act} (h : transition env w v prev next = .ok w2) :
    ∃ old, w.sim.vehicle? v = some old := by
  unfold transition at h
  simp only [Outcome.bind_eq, Outcome.bind_eq_ok] at h
  obtain ⟨s1, h1, h2⟩ := h
  obtain ⟨old, _, ho, _⟩ := enter_post h2
  rw [vehicle?_congr (exit_frame h1).1] at ho
  exact ⟨old, ho⟩

theorem transition_meched {w w2 : World} {v : VehicleId} {prev next : Act} (hwf : w.sim.WF) (hm : Meched kindOf w.sim)
    (h : transition env w v prev next = .ok w2) : Meched kindOf w2.sim := by
  obtain ⟨old, hveh⟩ := transition_exists h
  exact all_of_vsteps (allowed := fun _ => True) (P := fun veh => veh.mech = kindOf veh.id) (dt := w.sim.dt)
    (fun a b hs ha => meched_vstep hs ha) hwf ((transition_sameIds hwf h).wf hwf) (transition_frame hwf h) hveh
    (vs_transition hveh h) hm

theorem defaultUpdate_meched {w w2 : World} {v : VehicleId} {old : Vehicle} (hwf : w.sim.WF) (hm : Meched kindOf w.sim)
    (hveh : w.sim.vehicle? v = some old) (h : defaultUpdate env w v old.act = .ok w2) : Meched kindOf w2.sim := by
  obtain ⟨hfr, hid⟩ := defaultUpdate_frame hwf h
  exact all_of_vsteps (allowed := fun _ => True) (P := fun veh => veh.mech = kindOf veh.id) (dt := w.sim.dt)
    (fun a b hs ha => meched_vstep hs ha) hwf (hid.wf hwf) hfr hveh
    (vs_defaultUpdate hwf (fun _ _ _ _ => trivial) (fun _ _ _ _ _ => trivial) hveh h) hm

/-- what a run keeps on the vehicle side -/
structure KV (elec : StationId → ChargerId → Bool) (isE : MechId → Bool) (kindOf : VehicleId → MechId) (w0 w : World) : Prop where
  kt : KT elec w0 w
  meched : Meched kindOf w.sim
  right : Right elec isE kindOf w0 w

theorem kv_update (hte : TypeEnv env isE) {w0 w w2 : World} {v : VehicleId} {veh : Vehicle} (hk : KV elec isE kindOf w0 w)
    (hveh : w.sim.vehicle? v = some veh) (h : defaultUpdate env w v veh.act = .ok w2) : KV elec isE kindOf w0 w2 :=
  ⟨kt_update hk.kt h, defaultUpdate_meched hk.kt.wf hk.meched hveh h,
    hk.right.trans (defaultUpdate_right hte hk.kt.wf hk.kt.typed hk.meched (fun htr => transition_meched hk.kt.wf hk.meched htr) h)⟩

theorem kv_transition {w0 w w2 : World} {v : VehicleId} {prev next : Act} (hk : KV elec isE kindOf w0 w)
    (h : transition env w v prev next = .ok w2) : KV elec isE kindOf w0 w2 :=
  ⟨kt_transition hk.kt h, transition_meched hk.kt.wf hk.meched h, hk.right.trans (transition_right h)⟩

theorem kv_applied {w0 w : World} (a : List (VehicleId × Instr)) (hk : KV elec isE kindOf w0 w) :
    KV elec isE kindOf w0 { w with sim := { w.sim with applied := a } } :=
  ⟨kt_applied a hk.kt, hk.meched, hk.right.trans (Right.of_quiet elec isE kindOf (Quiet.of_fields rfl rfl) rfl)⟩

theorem applyPlans_kv {w0 : World} : ∀ (ps : List (Instr × VehicleId × Act × Act)) {w : World}, KV elec isE kindOf w0 w →
    KV elec isE kindOf w0 (applyPlans env w ps)
  | [], _, hk => hk
  | (i, v, prev, next) :: ps, w, hk => by
    simp only [applyPlans]
    split
    · next w' htr => exact applyPlans_kv ps (kv_applied _ (kv_transition hk htr))
    · exact applyPlans_kv ps hk

theorem fold_kv (hte : TypeEnv env isE) {w0 : World} {order : List Vehicle} :
    ∀ {w : World}, KV elec isE kindOf w0 w → (order.map Vehicle.id).Nodup →
      (∀ x ∈ order, ∃ veh, w.sim.vehicle? x.id = some veh ∧ veh.act = x.act) →
      KV elec isE kindOf w0 (order.foldl (fun acc v => stepVehicle env acc v.id v.act) w) := by
  induction order with
  | nil => intro w hk _ _; exact hk
  | cons x xs ih =>
    intro w hk hnd hall
    simp only [List.foldl_cons]
    simp only [List.map_cons, List.nodup_cons] at hnd
    have hrest : ∀ y ∈ xs, ∃ veh, w.sim.vehicle? y.id = some veh ∧ veh.act = y.act :=
      fun y hy => hall y (List.mem_cons_of_mem _ hy)
    rcases stepVehicle_cases (env := env) w x.id x.act with heq | hok
    · rw [heq]; exact ih hk hnd.2 hrest
    · obtain ⟨veh, hveh, hact⟩ := hall x List.mem_cons_self
      rw [← hact] at hok
      have hk' := kv_update hte hk hveh hok
      obtain ⟨hfr, _⟩ := defaultUpdate_frame hk.kt.wf hok
      rw [hact] at hk' hfr
      refine ih hk' hnd.2 ?_
      intro y hy
      obtain ⟨vy, h1, h2⟩ := hrest y hy
      have hne : y.id ≠ x.id := by
        intro heq
        apply hnd.1
        rw [← heq]
        exact List.mem_map_of_mem hy
      exact ⟨vy, by rw [hfr.others y.id hne]; exact h1, h2⟩

theorem vehicleUpdates_kv (hte : TypeEnv env isE) {w0 w : World} (hk : KV elec isE kindOf w0 w) :
    KV elec isE kindOf w0 (vehicleUpdates env w) := by
  unfold vehicleUpdates
  have hp := updateOrder_perm w.sim.vehicles
  refine fold_kv hte hk ?_ ?_
  · exact (List.Perm.nodup_iff (hp.map Vehicle.id)).mpr hk.kt.wf.veh
  · intro x hx
    have hx' : x ∈ w.sim.vehicles := hp.mem_iff.mp hx
    exact ⟨x, lookup_of_mem hk.kt.wf.veh hx', rfl⟩

theorem meched_cosmetic {s s' : Sim} (h : Cosmetic s s') (hwf' : s'.WF) (hm : Meched kindOf s) : Meched kindOf s' := by
  intro veh' hmem
  have hl : s'.vehicle? veh'.id = some veh' := lookup_of_mem hwf'.veh hmem
  have := h.vehicle? veh'.id
  rw [hl] at this
  cases ho : s.vehicle? veh'.id with
  | none => rw [ho] at this; cases this
  | some old =>
    rw [ho] at this
    simp only [Option.map_some, Option.some.injEq] at this
    obtain ⟨hid, _, _, hmech, _⟩ := vehCore_fields this
    rw [hmech, hid]
    exact hm old (vehicle?_some ho).1

theorem kv_phase (hte : TypeEnv env isE) (hf : ∀ c, env.inFence c = true) {w0 w w' : World} (hk : KV elec isE kindOf w0 w)
    (h : WPhase env w w') : KV elec isE kindOf w0 w' := by
  have hkt := kt_phase hf hk.kt h
  cases h with
  | instructions is => exact applyPlans_kv _ hk
  | updates => exact vehicleUpdates_kv hte hk
  | tick => exact ⟨hkt, hk.meched, hk.right.trans (Right.of_quiet elec isE kindOf (Quiet.of_fields rfl rfl) rfl)⟩
  | @arrival s' r hfresh _ _ hadd =>
    have hfr : w.sim.request? r.id = none := by
      cases hq : w.sim.request? r.id with
      | none => rfl
      | some x =>
        exfalso; apply hfresh
        obtain ⟨hm, hid⟩ := request?_some hq
        unfold Reqs.ids; rw [← hid]; exact List.mem_map_of_mem hm
    obtain ⟨hv, _⟩ := addRequest_fields hfr hadd
    refine ⟨hkt, by intro veh hm; rw [hv] at hm; exact hk.meched veh hm, hk.right.trans ⟨[Event.addRequest r.id], rfl, ?_⟩⟩
    intro e he; simp only [List.mem_singleton] at he; subst he; exact id
  | @cancel s' i hrem =>
    obtain ⟨_, _, _, _, hv, _⟩ := Sim.removeRequest_fields hrem
    refine ⟨hkt, by intro veh hm; rw [hv] at hm; exact hk.meched veh hm, hk.right.trans ⟨[Event.cancelRequest i], rfl, ?_⟩⟩
    intro e he; simp only [List.mem_singleton] at he; subst he; exact id
  | prices names rd =>
    have hc := priceUpdate_cosmetic (env := env) names rd w.sim hf hk.kt.wf
    exact ⟨hkt, meched_cosmetic hc hkt.wf hk.meched, hk.right.trans (Right.of_quiet elec isE kindOf (prices_quiet names rd w.sim) rfl)⟩
  | drivers tbl =>
    have hc := driverUpdates_cosmetic (env := env) tbl w hf hk.kt.wf
    have hd := driverUpdates_only (env := env) tbl w
    obtain ⟨evs, hl, hall⟩ := hd.log
    refine ⟨hkt, meched_cosmetic hc hkt.wf hk.meched, hk.right.trans ⟨evs, hl, ?_⟩⟩
    intro e he
    obtain ⟨v, b, rfl⟩ := hall e he
    exact id

/-- **no run books energy of the wrong type on a vehicle**: from a well-formed state whose plugs
    and vehicles have the types `elec`, `kindOf` say, along every history of phases -/
theorem reachable_kv (hte : TypeEnv env isE) (hf : ∀ c, env.inFence c = true) {w0 w : World} (hwf : w0.sim.WF)
    (ht : Typed elec w0.sim) (hm : Meched kindOf w0.sim) (h : WReachable env w0 w) : KV elec isE kindOf w0 w := by
  induction h with
  | init => exact ⟨⟨hwf, ht, SameT.refl elec _⟩, hm, Right.refl elec isE kindOf _⟩
  | step _ hp ih => exact kv_phase hte hf ih hp

end VehicleRun

/-! ### per-type totals -/

section TypedTotals
variable {elec : StationId → ChargerId → Bool} {isE : MechId → Bool} {kindOf : VehicleId → MechId}

/-- the charge events at plugs of energy type `b` (`true`: electricity) -/
def ofType (elec : StationId → ChargerId → Bool) (b : Bool) (log : List Event) : List Event :=
  log.filter fun | .charge _ s c _ _ => elec s c == b | _ => false

theorem dispensedE_ofType (log : List Event) (i : StationId) :
    dispensedE elec log i = dispensed (ofType elec true log) i ∧ dispensedG elec log i = dispensed (ofType elec false log) i := by
  induction log with
  | nil => exact ⟨rfl, rfl⟩
  | cons e es ih =>
    obtain ⟨i1, i2⟩ := ih
    unfold dispensedE dispensedG dispensed ofType at *
    cases e <;> simp only [List.map_cons, List.sum_cons, List.filter_cons] <;> try (simp only [Bool.false_eq_true, if_false, zero_add]; exact ⟨i1, i2⟩)
    next v s c a p =>
      by_cases hs : s = i
      · subst hs
        by_cases hel : elec s c = true <;> simp [hel, i1, i2]
      · by_cases hel : elec s c = true <;> simp [hel, hs, i1, i2]

/-- clean log: no event books energy of the wrong type on a vehicle -/
def Clean (elec : StationId → ChargerId → Bool) (isE : MechId → Bool) (kindOf : VehicleId → MechId) (log : List Event) : Prop :=
  ∀ e ∈ log, ¬ bad elec isE kindOf e

/-- on a clean log a vehicle's charged energy is what it charged at plugs of its own type,
    and it charged nothing at plugs of the other type -/
theorem charged_ofType : ∀ (log : List Event), Clean elec isE kindOf log → ∀ (u : VehicleId),
    charged log u = charged (ofType elec (isE (kindOf u)) log) u ∧ charged (ofType elec (!isE (kindOf u)) log) u = 0
  | [], _, _ => ⟨rfl, rfl⟩
  | e :: es, hc, u => by
    obtain ⟨i1, i2⟩ := charged_ofType es (fun x hx => hc x (List.mem_cons_of_mem _ hx)) u
    have hb := hc e List.mem_cons_self
    unfold charged ofType at *
    cases e <;> simp only [List.map_cons, List.sum_cons, List.filter_cons] <;> try (simp only [Bool.false_eq_true, if_false, zero_add]; exact ⟨i1, i2⟩)
    next v s c a p =>
      by_cases hv : v = u
      · subst hv
        by_cases hty : elec s c = isE (kindOf v)
        · simp [hty, i1, i2]
        · have ha : a = 0 := by
            by_contra hne
            exact hb ⟨hne, hty⟩
          have hty' : elec s c = !isE (kindOf v) := by
            cases h1 : elec s c <;> cases h2 : isE (kindOf v) <;> simp_all
          simp [hty, hty', ha, i1, i2]
      · by_cases h1 : elec s c = isE (kindOf u) <;> by_cases h2 : elec s c = !isE (kindOf u) <;> simp [hv, h1, h2, i1, i2]

theorem sum_filter_split (f : Nat → Rat) (p : Nat → Bool) : ∀ (ids : List Nat),
    (ids.map f).sum = ((ids.filter p).map f).sum + ((ids.filter fun u => !p u).map f).sum
  | [] => by simp
  | y :: ys => by
    have := sum_filter_split f p ys
    cases hp : p y <;> simp [List.filter_cons, hp, this] <;> ring

theorem ofType_covered {log : List Event} {vids sids : List Nat}
    (hcov : ∀ e ∈ log, match e with | .charge v s _ _ _ => v ∈ vids ∧ s ∈ sids | _ => True) (b : Bool) :
    ∀ e ∈ ofType elec b log, match e with | .charge v s _ _ _ => v ∈ vids ∧ s ∈ sids | _ => True := by
  intro e he
  exact hcov e (List.mem_filter.mp he).1

/-- **C05, summed over the fleet and per energy type**: on a clean log, the energy the vehicles of
    one energy type gained from charging is the energy the stations dispensed at plugs of that type -/
theorem fleet_totals_typed (log : List Event) (hc : Clean elec isE kindOf log) (vids sids : List Nat)
    (hv : vids.Nodup) (hs : sids.Nodup)
    (hcov : ∀ e ∈ log, match e with | .charge v s _ _ _ => v ∈ vids ∧ s ∈ sids | _ => True) :
    ((vids.filter fun u => isE (kindOf u)).map (charged log)).sum = (sids.map (dispensedE elec log)).sum ∧
    ((vids.filter fun u => !isE (kindOf u)).map (charged log)).sum = (sids.map (dispensedG elec log)).sum := by
  have key : ∀ b : Bool, ((vids.filter fun u => isE (kindOf u) == b).map (charged log)).sum =
      (sids.map (dispensed (ofType elec b log))).sum := by
    intro b
    obtain ⟨t1, t2, _, _⟩ := fleet_totals (ofType elec b log) vids sids hv hs (ofType_covered hcov b)
    rw [t2, ← t1, sum_filter_split (charged (ofType elec b log)) (fun u => isE (kindOf u) == b) vids]
    have z : ((vids.filter fun u => !(isE (kindOf u) == b)).map (charged (ofType elec b log))).sum = 0 := by
      apply List.sum_eq_zero
      intro x hx
      obtain ⟨u, hu, rfl⟩ := List.mem_map.mp hx
      have hne := (List.mem_filter.mp hu).2
      have hb : b = !isE (kindOf u) := by cases b <;> cases h2 : isE (kindOf u) <;> simp_all
      rw [hb]
      exact (charged_ofType log hc u).2
    rw [z, add_zero]
    congr 1
    apply List.map_congr_left
    intro u hu
    have hb : isE (kindOf u) = b := by simpa using (List.mem_filter.mp hu).2
    rw [← hb]
    exact (charged_ofType log hc u).1
  have e1 : (sids.map (dispensedE elec log)) = sids.map (dispensed (ofType elec true log)) :=
    List.map_congr_left fun i _ => (dispensedE_ofType log i).1
  have e2 : (sids.map (dispensedG elec log)) = sids.map (dispensed (ofType elec false log)) :=
    List.map_congr_left fun i _ => (dispensedE_ofType log i).2
  have f1 : (vids.filter fun u => isE (kindOf u)) = vids.filter fun u => isE (kindOf u) == true :=
    List.filter_congr (fun u _ => by simp)
  have f2 : (vids.filter fun u => !isE (kindOf u)) = vids.filter fun u => isE (kindOf u) == false :=
    List.filter_congr (fun u _ => by cases isE (kindOf u) <;> rfl)
  rw [e1, e2, ← key true, ← key false, f1, f2]
  exact ⟨rfl, rfl⟩

/-- the log of a run from an empty log is clean -/
theorem run_clean (hte : TypeEnv env isE) (hf : ∀ c, env.inFence c = true) {w0 w : World} (hwf : w0.sim.WF)
    (ht : Typed elec w0.sim) (hm : Meched kindOf w0.sim) (h0 : w0.log = []) (h : WReachable env w0 w) :
    Clean elec isE kindOf w.log := by
  obtain ⟨evs, hl, hb⟩ := (reachable_kv hte hf hwf ht hm h).right
  rw [h0, List.nil_append] at hl
  rw [hl]
  exact hb

end TypedTotals

/-- the driver's environment: a plug of the other energy type adds nothing -/
theorem concrete_typeEnv (o : Oracle) (mechs : List Mech) :
    TypeEnv (o.env mechs) (fun id => match mechOf mechs id with | some m => decide (m.kind = .bev) | none => true) := by
  intro veh cs dt hne
  show (match mechOf mechs veh.mech with | some m => m.addEnergy veh.en cs.electric cs.rate dt | none => veh.en).level = veh.en.level
  cases hm : mechOf mechs veh.mech with
  | none => rfl
  | some m =>
    simp only [hm] at hne
    simp only [Mech.addEnergy]
    have : m.validCharger cs.electric = false := by
      unfold Mech.validCharger
      cases hk : m.kind <;> cases he : cs.electric <;> simp_all
    simp [this]

/-! ### reading the types off the initial state -/

/-- the energy type of plug `c` at station `i` in `s` (`true` where there is no such plug) -/
def elecOf (s : Sim) (i : StationId) (c : ChargerId) : Bool :=
  match s.station? i with
  | none => true
  | some st => match st.plug? c with
    | none => true
    | some cs => cs.electric

/-- the powertrain of vehicle `v` in `s` -/
def kindIn (s : Sim) (v : VehicleId) : MechId :=
  match s.vehicle? v with
  | none => 0
  | some veh => veh.mech

theorem typed_init {s : Sim} (hwf : s.WF) : Typed (elecOf s) s := by
  intro i st hst cs hcs
  have : st.plug? cs.id = some cs := lookup_of_mem (hwf.plugs st (station?_some hst).1) hcs
  simp [elecOf, hst, this]

theorem meched_init {s : Sim} (hwf : s.WF) : Meched (kindIn s) s := by
  intro veh hm
  have : s.vehicle? veh.id = some veh := lookup_of_mem hwf.veh hm
  simp [kindIn, this]

/-- **C05, per vehicle and per energy type**: after any history from an empty log a vehicle's
    energy gained is what it had plus the amounts of its charge events at plugs of its own energy
    type; its charge events at plugs of the other type carry no energy; its powertrain is the one
    it started with -/
theorem run_vehicle_typed {elec : StationId → ChargerId → Bool} {isE : MechId → Bool} {kindOf : VehicleId → MechId}
    (hg : GainEnv env) (hte : TypeEnv env isE) (hf : ∀ c, env.inFence c = true) {w0 w : World} (hwf : w0.sim.WF)
    (ht : Typed elec w0.sim) (hm : Meched kindOf w0.sim) (h0 : w0.log = []) (h : WReachable env w0 w)
    {v : VehicleId} {veh0 veh : Vehicle} (hv0 : w0.sim.vehicle? v = some veh0) (hv : w.sim.vehicle? v = some veh) :
    veh.mech = veh0.mech ∧
    veh.en.gained = veh0.en.gained + charged (ofType elec (isE veh.mech) w.log) v ∧
    charged (ofType elec (!isE veh.mech) w.log) v = 0 := by
  have hk := reachable_kv hte hf hwf ht hm h
  have hc := run_clean hte hf hwf ht hm h0 h
  have m1 : veh.mech = kindOf v := by
    have := hk.meched veh (vehicle?_some hv).1
    rw [(vehicle?_some hv).2] at this; exact this
  have m0 : veh0.mech = kindOf v := by
    have := hm veh0 (vehicle?_some hv0).1
    rw [(vehicle?_some hv0).2] at this; exact this
  obtain ⟨c1, c2⟩ := charged_ofType w.log hc v
  obtain ⟨_, _, g⟩ := run_vehicle hg h h0 hv0 hv
  rw [m1]
  exact ⟨m0.symm, by rw [g, c1], c2⟩

end Books
end Hive
