/-
  Proofs.Run — the histories the control properties quantify over: any interleaving of
  instruction phases (any instructions, one per vehicle), vehicle-update phases, clock ticks,
  request arrivals (fresh ids) and request removals (cancellation), from any initial state.
-/
import Proofs.Lift

namespace Hive

/-- one phase of the simulation, for arbitrary inputs -/
inductive Phase (env : Env) : Sim → Sim → Prop where
  | instructions {s : Sim} {log : List Event} {is : List Instr} :
      (is.map Instr.vehicle).Nodup → Phase env s (applyInstructions env ⟨s, log⟩ is).sim
  | updates {s : Sim} {log : List Event} : Phase env s (vehicleUpdates env ⟨s, log⟩).sim
  | tick {s : Sim} : Phase env s s.tick
  | arrival {s s' : Sim} {r : Request} :
      s.request? r.id = none → (∀ veh ∈ s.vehicles, ∀ route, veh.act ≠ .dispatchTrip r.id route) →
      r.dispVeh = none → s.addRequest env r = .ok s' → Phase env s s'
  | cancel {s s' : Sim} {i : RequestId} : s.removeRequest env i = .ok s' → Phase env s s'

/-- reachability by any finite sequence of phases -/
inductive Reachable (env : Env) (s0 : Sim) : Sim → Prop where
  | init : Reachable env s0 s0
  | step {s s' : Sim} : Reachable env s0 s → Phase env s s' → Reachable env s0 s'

/-- an invariant of whole runs -/
structure RunInv (env : Env) (I : Sim → Prop) : Prop extends StepInv env I where
  tick : ∀ s : Sim, I s → I s.tick
  arrival : ∀ {s s' : Sim} {r : Request}, s.WF → I s → s.request? r.id = none →
    (∀ veh ∈ s.vehicles, ∀ route, veh.act ≠ .dispatchTrip r.id route) → r.dispVeh = none →
    s.addRequest env r = .ok s' → I s'
  cancel : ∀ {s s' : Sim} {i : RequestId}, s.WF → I s → s.removeRequest env i = .ok s' → I s'

theorem upsert_fresh {α : Type} {key : α → Nat} {xs : List α} {x : α} (h : lookup key xs (key x) = none) :
    upsert key xs x = xs ++ [x] := by
  unfold upsert
  have : xs.any (fun y => key y == key x) = false := by
    rw [List.any_eq_false]
    intro y hy
    have := lookup_none h y hy
    simpa using this
  simp [this]

theorem addRequest_fresh {env : Env} {s s' : Sim} {r : Request} (hfresh : s.request? r.id = none)
    (h : s.addRequest env r = .ok s') :
    s' = { s with requests := s.requests ++ [r], rIdx := Index.add env.parent s.rIdx r.pos.cell r.id } := by
  unfold Sim.addRequest at h
  split at h
  · cases h
  · rw [hfresh] at h
    simp only at h
    cases h
    rw [upsert_fresh hfresh]

theorem addRequest_fields {env : Env} {s s' : Sim} {r : Request} (hfresh : s.request? r.id = none)
    (h : s.addRequest env r = .ok s') :
    s'.vehicles = s.vehicles ∧ s'.stations = s.stations ∧ s'.bases = s.bases ∧ s'.time = s.time ∧ s'.dt = s.dt ∧
    s'.requests = s.requests ++ [r] ∧ (∀ i, i ≠ r.id → s'.request? i = s.request? i) ∧ s'.request? r.id = some r := by
  have := addRequest_fresh hfresh h
  subst this
  refine ⟨rfl, rfl, rfl, rfl, rfl, rfl, ?_, ?_⟩
  · intro i hi
    unfold Sim.request?
    simp only
    unfold lookup
    rw [List.find?_append]
    cases hfind : List.find? (fun x => x.id == i) s.requests with
    | some x => simp
    | none =>
      have : (r.id == i) = false := by simpa using (Ne.symm hi)
      simp [this]
  · unfold Sim.request?
    simp only
    unfold lookup
    rw [List.find?_append]
    have : List.find? (fun x => x.id == r.id) s.requests = none := hfresh
    simp [this]

theorem addRequest_wf {env : Env} {s s' : Sim} {r : Request} (hwf : s.WF) (hfresh : s.request? r.id = none)
    (h : s.addRequest env r = .ok s') : s'.WF := by
  have := addRequest_fresh hfresh h
  subst this
  refine ⟨hwf.veh, hwf.stn, hwf.base, ?_, hwf.plugs⟩
  simp only
  rw [List.map_append, List.map_cons, List.map_nil]
  have hnot : r.id ∉ s.requests.map Request.id := by
    intro hmem
    obtain ⟨y, hy, hyid⟩ := List.mem_map.mp hmem
    exact lookup_none hfresh y hy hyid
  rw [List.nodup_append]
  refine ⟨hwf.req, by simp, ?_⟩
  intro a ha b hb
  simp only [List.mem_cons, List.not_mem_nil, or_false] at hb
  subst hb
  intro heq
  subst heq
  exact hnot ha

theorem phase_wf {env : Env} {s s' : Sim} (hwf : s.WF) (h : Phase env s s') : s'.WF := by
  have hTrue : StepInv env (fun _ => True) := ⟨fun _ _ _ => trivial, fun _ _ _ _ _ => trivial, fun _ _ _ _ => trivial⟩
  cases h with
  | instructions hn => exact (applyInstructions_inv hTrue (w := ⟨s, _⟩) hn hwf trivial).2
  | updates => exact (vehicleUpdates_inv hTrue (w := ⟨s, _⟩) hwf trivial).2
  | tick => exact ⟨hwf.veh, hwf.stn, hwf.base, hwf.req, hwf.plugs⟩
  | arrival hf _ _ h => exact addRequest_wf hwf hf h
  | cancel h => exact (Sim.removeRequest_sameIds h).wf hwf

theorem reachable_wf {env : Env} {s0 s : Sim} (hwf : s0.WF) (h : Reachable env s0 s) : s.WF := by
  induction h with
  | init => exact hwf
  | step _ hp ih => exact phase_wf ih hp

/-- **an invariant of runs holds in every reachable state** -/
theorem reachable_inv {env : Env} {I : Sim → Prop} (hI : RunInv env I) {s0 s : Sim}
    (hwf : s0.WF) (h0 : I s0) (h : Reachable env s0 s) : I s := by
  induction h with
  | init => exact h0
  | step hr hp ih =>
    have hwf' := reachable_wf hwf hr
    cases hp with
    | instructions hn => exact (applyInstructions_inv hI.toStepInv (w := ⟨_, _⟩) hn hwf' ih).1
    | updates => exact (vehicleUpdates_inv hI.toStepInv (w := ⟨_, _⟩) hwf' ih).1
    | tick => exact hI.tick _ ih
    | arrival hf hu hd h => exact hI.arrival hwf' ih hf hu hd h
    | cancel h => exact hI.cancel hwf' ih h

end Hive
