/-
  Proofs.C17 — a request's recorded dispatched vehicle is really on its way to it.
-/
import Hive.Inv
import Proofs.PerVehicle

namespace Hive
variable {env : Env}

/-- what `exit` does to the request collection -/
theorem exit_requests {s s1 : Sim} {v : VehicleId} {a : Act} (h : exit env s v a = .ok s1) :
    (s1.requests = s.requests ∧ ∀ rid route, a = .dispatchTrip rid route → s.request? rid = none) ∨
    ∃ rid route req, a = .dispatchTrip rid route ∧ s.request? rid = some req ∧
      s1.requests = replaceById Request.id s.requests { req with dispVeh := none, dispTime := none } := by
  cases a <;> simp only [exit] at h
  case idle | repositioning | outOfService | dispatchStation | dispatchBase =>
    cases h; exact Or.inl ⟨rfl, by intro _ _ h; cases h⟩
  case reserveBase b =>
    split at h
    · cases h
    · simp only [Outcome.bind_eq, Outcome.bind_eq_ok] at h
      obtain ⟨base', _, h2⟩ := h
      obtain ⟨_, _, _, _, hr, _⟩ := Sim.modifyBase_fields h2
      exact Or.inl ⟨hr, by intro _ _ h; cases h⟩
  case chargingStation sid cid =>
    split at h
    · cases h
    · cases h
    · simp only [Outcome.bind_eq, Outcome.bind_eq_ok] at h
      obtain ⟨st', _, h2⟩ := h
      obtain ⟨_, _, _, _, hr, _⟩ := Sim.modifyStation_fields h2
      exact Or.inl ⟨hr, by intro _ _ h; cases h⟩
  case chargingBase b cid =>
    split at h
    · cases h
    · split at h
      · cases h
      · split at h
        · cases h
        · simp only [Outcome.bind_eq, Outcome.bind_eq_ok] at h
          obtain ⟨base', _, s2, h2, st', _, h4⟩ := h
          obtain ⟨_, _, _, _, hr2, _⟩ := Sim.modifyBase_fields h2
          obtain ⟨_, _, _, _, hr4, _⟩ := Sim.modifyStation_fields h4
          exact Or.inl ⟨hr4.trans hr2, by intro _ _ h; cases h⟩
  case chargeQueueing sid cid t =>
    split at h
    · cases h
    · simp only [Outcome.bind_eq, Outcome.bind_eq_ok] at h
      obtain ⟨st', _, h2⟩ := h
      obtain ⟨_, _, _, _, hr, _⟩ := Sim.modifyStation_fields h2
      exact Or.inl ⟨hr, by intro _ _ h; cases h⟩
  case dispatchTrip rid r =>
    split at h
    · next hnone =>
      cases h
      refine Or.inl ⟨rfl, ?_⟩
      intro rid' route' heq
      cases heq
      exact hnone
    · next req hreq =>
      obtain ⟨_, hr, _⟩ := Sim.modifyRequest_fields h
      exact Or.inr ⟨rid, r, req, rfl, hreq, hr⟩
  case servicingTrip req dep r =>
    split at h
    · cases h; exact Or.inl ⟨rfl, by intro _ _ h; cases h⟩
    · cases h
  case servicingPooling | dispatchPooling => cases h

/-- what `enter` does to the request collection -/
theorem enter_requests {w w2 : World} {v : VehicleId} {next : Act} (h : enter env w v next = .ok w2) :
    (next.notServicing = true ∧ (∀ rid route, next ≠ .dispatchTrip rid route) ∧ w2.sim.requests = w.sim.requests) ∨
    (∃ rid route req, next = .dispatchTrip rid route ∧ w.sim.request? rid = some req ∧
      env.inFence req.pos.cell = true ∧ env.inFence req.dest.cell = true ∧
      w2.sim.requests = replaceById Request.id w.sim.requests
        { req with dispVeh := some v, dispTime := some w.sim.time }) ∨
    (∃ sreq dep route, next = .servicingTrip sreq dep route ∧
      w2.sim.requests = removeById Request.id w.sim.requests sreq.id) := by
  have fin : ∀ {s1 s2 : Sim} {a : Act}, applyAct env s1 v a = .ok s2 → s2.requests = s1.requests := by
    intro s1 s2 a h
    obtain ⟨_, _, _, _, _, hr, _⟩ := applyAct_fields h
    exact hr
  cases next <;> simp only [enter] at h
  case idle d =>
    simp only [Outcome.bind_eq, Outcome.bind_eq_ok, Outcome.pure_eq] at h
    obtain ⟨s2, h1, h2⟩ := h
    cases h2; exact Or.inl ⟨rfl, (by intro _ _ h; cases h), fin h1⟩
  case outOfService =>
    simp only [Outcome.bind_eq, Outcome.bind_eq_ok, Outcome.pure_eq] at h
    obtain ⟨s2, h1, h2⟩ := h
    cases h2; exact Or.inl ⟨rfl, (by intro _ _ h; cases h), fin h1⟩
  case repositioning route =>
    split at h
    · cases h
    · split at h
      · cases h
      · simp only [Outcome.bind_eq, Outcome.bind_eq_ok, Outcome.pure_eq] at h
        obtain ⟨s2, h1, h2⟩ := h
        cases h2; exact Or.inl ⟨rfl, (by intro _ _ h; cases h), fin h1⟩
  case dispatchBase b route =>
    split at h
    · cases h
    · cases h
    · split at h
      · cases h
      · split at h
        · cases h
        · simp only [Outcome.bind_eq, Outcome.bind_eq_ok, Outcome.pure_eq] at h
          obtain ⟨s2, h1, h2⟩ := h
          cases h2; exact Or.inl ⟨rfl, (by intro _ _ h; cases h), fin h1⟩
  case dispatchTrip rid route =>
    split at h
    · cases h
    · split at h
      · cases h
      · next req hreq =>
        split at h
        · cases h
        · split at h
          · cases h
          · simp only [Outcome.bind_eq, Outcome.bind_eq_ok, Outcome.pure_eq] at h
            obtain ⟨s1, h0, s2, h1, h2⟩ := h
            cases h2
            obtain ⟨_, hr, _⟩ := Sim.modifyRequest_fields h0
            have hfence : env.inFence req.pos.cell = true ∧ env.inFence req.dest.cell = true := by
              unfold Sim.modifyRequest at h0
              split at h0
              · cases h0
              · split at h0
                · cases h0
                · next hf1 =>
                  split at h0
                  · cases h0
                  · next hf2 => exact ⟨by simpa using hf1, by simpa using hf2⟩
            exact Or.inr (Or.inl ⟨rid, route, req, rfl, hreq, hfence.1, hfence.2, (fin h1).trans hr⟩)
  case servicingPooling => cases h
  case dispatchPooling => cases h
  case servicingTrip sreq dep route =>
    split at h
    · cases h
    · split at h
      · cases h
      · split at h
        · cases h
        · split at h
          · cases h
          · split at h
            · cases h
            · split at h
              · cases h
              · simp only [Outcome.bind_eq, Outcome.bind_eq_ok, Outcome.pure_eq] at h
                obtain ⟨w1, h0, s2, h1, h2⟩ := h
                cases h2
                obtain ⟨_, _, _, _, _, hr, _⟩ := pickUpTrip_fields h0
                exact Or.inr (Or.inr ⟨sreq, dep, route, rfl, (fin h1).trans hr⟩)
  case reserveBase b =>
    split at h
    · cases h
    · cases h
    · split at h
      · cases h
      · split at h
        · cases h
        · split at h
          · cases h
          · simp only [Outcome.bind_eq, Outcome.bind_eq_ok, Outcome.pure_eq] at h
            obtain ⟨s1, h0, s2, h1, h2⟩ := h
            cases h2
            obtain ⟨_, _, _, _, hr, _⟩ := Sim.modifyBase_fields h0
            exact Or.inl ⟨rfl, (by intro _ _ h; cases h), (fin h1).trans hr⟩
  case chargingStation sid cid =>
    split at h
    · cases h
    · cases h
    · split at h
      · cases h
      · split at h
        · cases h
        · split at h
          · cases h
          · split at h
            · cases h
            · split at h
              · cases h
              · simp only [Outcome.bind_eq, Outcome.bind_eq_ok, Outcome.pure_eq] at h
                obtain ⟨st', hco, s1, h0, s2, h1, h2⟩ := h
                cases h2
                obtain ⟨_, _, _, _, hr, _⟩ := Sim.modifyStation_fields h0
                exact Or.inl ⟨rfl, (by intro _ _ h; cases h), (fin h1).trans hr⟩
  case dispatchStation sid cid route =>
    split at h
    · cases h
    · cases h
    · split at h
      · split at h
        · cases h
        · split at h
          · cases h
          · split at h
            · cases h
            · split at h
              · cases h
              · simp only [Outcome.bind_eq, Outcome.bind_eq_ok, Outcome.pure_eq] at h
                obtain ⟨st', hco, s1, h0, s2, h1, h2⟩ := h
                cases h2
                obtain ⟨_, _, _, _, hr, _⟩ := Sim.modifyStation_fields h0
                exact Or.inl ⟨rfl, (by intro _ _ h; cases h), (fin h1).trans hr⟩
      · split at h
        · cases h
        · split at h
          · cases h
          · simp only [Outcome.bind_eq, Outcome.bind_eq_ok, Outcome.pure_eq] at h
            obtain ⟨s2, h1, h2⟩ := h
            cases h2; exact Or.inl ⟨rfl, (by intro _ _ h; cases h), fin h1⟩
  case chargeQueueing sid cid t =>
    split at h
    · cases h
    · cases h
    · split at h
      · cases h
      · split at h
        · cases h
        · split at h
          · cases h
          · split at h
            · cases h
            · simp only [Outcome.bind_eq, Outcome.bind_eq_ok, Outcome.pure_eq] at h
              obtain ⟨st', henq, s1, h0, s2, h1, h2⟩ := h
              cases h2
              obtain ⟨_, _, _, _, hr, _⟩ := Sim.modifyStation_fields h0
              exact Or.inl ⟨rfl, (by intro _ _ h; cases h), (fin h1).trans hr⟩
  case chargingBase b cid =>
    split at h
    · cases h
    · cases h
    · split at h
      · cases h
      · split at h
        · cases h
        · split at h
          · cases h
          · split at h
            · cases h
            · split at h
              · cases h
              · split at h
                · cases h
                · split at h
                  · cases h
                  · split at h
                    · cases h
                    · split at h
                      · cases h
                      · simp only [Outcome.bind_eq, Outcome.bind_eq_ok, Outcome.pure_eq] at h
                        obtain ⟨st', hco, s1, h0, s2, h1, s3, h2, h3⟩ := h
                        cases h3
                        obtain ⟨_, _, _, _, hr0, _⟩ := Sim.modifyBase_fields h0
                        obtain ⟨_, _, _, _, hr1, _⟩ := Sim.modifyStation_fields h1
                        exact Or.inl ⟨rfl, (by intro _ _ h; cases h), ((fin h2).trans hr1).trans hr0⟩

end Hive

namespace Hive
variable {env : Env}

/-- the inductive form of C17: the recorded vehicle is heading to the request, and a recorded
    request lies inside the geofence (it was modified once, which checks both ends) -/
def Inv17 (env : Env) (s : Sim) : Prop :=
  ∀ r ∈ s.requests, ∀ v, r.dispVeh = some v →
    (∃ veh route, s.vehicle? v = some veh ∧ veh.act = .dispatchTrip r.id route) ∧
    env.inFence r.pos.cell = true ∧ env.inFence r.dest.cell = true

theorem inv17_of_Inv17 {s : Sim} (h : Inv17 env s) : inv17 s = true := by
  unfold inv17
  rw [List.all_eq_true]
  intro r hr
  unfold dispatchOk
  cases hd : r.dispVeh with
  | none => rfl
  | some v =>
    obtain ⟨⟨veh, route, hv, ha⟩, _⟩ := h r hr v hd
    simp [hv, ha]

/-- after `exit`: nobody records the exiting vehicle; everything recorded is still justified by
    the (unchanged) vehicles -/
theorem exit_inv17 {s s1 : Sim} {v : VehicleId} {veh : Vehicle} (hwf : s.WF) (hinv : Inv17 env s)
    (hveh : s.vehicle? v = some veh) (h : exit env s v veh.act = .ok s1) :
    ∀ r ∈ s1.requests, ∀ u, r.dispVeh = some u → u ≠ v ∧
      (∃ vu route, s.vehicle? u = some vu ∧ vu.act = .dispatchTrip r.id route) ∧
      env.inFence r.pos.cell = true ∧ env.inFence r.dest.cell = true := by
  intro r hr u hu
  rcases exit_requests h with ⟨hsame, hnone⟩ | ⟨rid, route, req, hact, hreq, hrep⟩
  · rw [hsame] at hr
    obtain ⟨⟨vu, ru, hvu, hau⟩, hf⟩ := hinv r hr u hu
    refine ⟨?_, ⟨vu, ru, hvu, hau⟩, hf⟩
    intro heq
    subst heq
    rw [hveh] at hvu
    cases hvu
    have := hnone r.id ru hau
    have hl : s.request? r.id = some r := lookup_of_mem hwf.req hr
    rw [hl] at this
    cases this
  · rw [hrep] at hr
    rcases mem_replaceById hr with rfl | ⟨hmem, hne⟩
    · simp at hu
    · obtain ⟨⟨vu, ru, hvu, hau⟩, hf⟩ := hinv r hmem u hu
      refine ⟨?_, ⟨vu, ru, hvu, hau⟩, hf⟩
      intro heq
      subst heq
      rw [hveh] at hvu
      cases hvu
      rw [hact] at hau
      cases hau
      apply hne
      simp only
      exact ((request?_some hreq).2).symm

theorem transition_inv17 {w w2 : World} {v : VehicleId} {veh : Vehicle} {next : Act}
    (hwf : w.sim.WF) (hinv : Inv17 env w.sim) (hveh : w.sim.vehicle? v = some veh)
    (h : transition env w v veh.act next = .ok w2) : Inv17 env w2.sim := by
  unfold transition at h
  simp only [Outcome.bind_eq, Outcome.bind_eq_ok] at h
  obtain ⟨s1, h1, h2⟩ := h
  have hA := exit_inv17 hwf hinv hveh h1
  have hwf1 := (exit_sameIds hwf h1).wf hwf
  have hv1 := (exit_frame h1).1
  have f2 := enter_frame (w := { w with sim := s1 }) hwf1 h2
  obtain ⟨old, veh', ho, hn, hsb, _, hpost⟩ := enter_post h2
  -- vehicles other than `v` look the same in `w` and in `w2`
  have hother : ∀ u, u ≠ v → w2.sim.vehicle? u = w.sim.vehicle? u := by
    intro u hu
    rw [f2.others u hu]
    exact vehicle?_congr hv1 u
  have carry : ∀ r ∈ s1.requests, ∀ u, r.dispVeh = some u →
      (∃ vu route, w2.sim.vehicle? u = some vu ∧ vu.act = .dispatchTrip r.id route) ∧
      env.inFence r.pos.cell = true ∧ env.inFence r.dest.cell = true := by
    intro r hr u hu
    obtain ⟨hne, ⟨vu, ru, hvu, hau⟩, hf⟩ := hA r hr u hu
    exact ⟨⟨vu, ru, by rw [hother u hne]; exact hvu, hau⟩, hf⟩
  intro r hr u hu
  rcases enter_requests h2 with ⟨_, _, hsame⟩ | ⟨rid, route, req, hnext, hreq, hf1, hf2, hrep⟩ | ⟨sreq, dep, route, _, hrem⟩
  · simp only at hsame
    rw [hsame] at hr
    exact carry r hr u hu
  · simp only at hrep hreq
    rw [hrep] at hr
    rcases mem_replaceById hr with rfl | ⟨hmem, _⟩
    · simp only at hu
      cases hu
      refine ⟨⟨veh', route, hn, ?_⟩, hf1, hf2⟩
      subst hnext
      simp only [EnterPost] at hpost
      rw [hpost.1, (request?_some hreq).2]
    · exact carry r hmem u hu
  · simp only at hrem
    rw [hrem] at hr
    exact carry r (mem_removeById hr).1 u hu

end Hive

namespace Hive
variable {env : Env}

theorem Inv17_congr {s s' : Sim} (hr : s'.requests = s.requests) (hv : ∀ u, s'.vehicle? u = s.vehicle? u)
    (h : Inv17 env s) : Inv17 env s' := by
  intro r hmem u hu
  rw [hr] at hmem
  obtain ⟨⟨vu, ru, hvu, hau⟩, hf⟩ := h r hmem u hu
  exact ⟨⟨vu, ru, by rw [hv u]; exact hvu, hau⟩, hf⟩

/-- replacing the vehicle by one that is still heading to the same request (if it was) -/
theorem Inv17_modifyVehicle {s s' : Sim} {old veh' : Vehicle} (hold : s.vehicle? veh'.id = some old)
    (hact : ∀ rid route, old.act = .dispatchTrip rid route → ∃ route', veh'.act = .dispatchTrip rid route')
    (hinv : Inv17 env s) (h : s.modifyVehicle env veh' = .ok s') : Inv17 env s' := by
  obtain ⟨_, hv, _, _, hr, _, _⟩ := Sim.modifyVehicle_fields h
  have hself := modifyVehicle_self h
  have hfr := Sim.modifyVehicle_frame h
  intro r hmem u hu
  rw [hr] at hmem
  obtain ⟨⟨vu, ru, hvu, hau⟩, hf⟩ := hinv r hmem u hu
  refine ⟨?_, hf⟩
  by_cases huv : u = veh'.id
  · subst huv
    rw [hold] at hvu
    cases hvu
    obtain ⟨route', hr'⟩ := hact r.id ru hau
    exact ⟨veh', route', hself, hr'⟩
  · exact ⟨vu, ru, by rw [hfr.others u huv]; exact hvu, hau⟩

/-- a vehicle nobody records may take any activity -/
theorem Inv17_modifyVehicle_free {s s' : Sim} {veh' : Vehicle}
    (hfree : ∀ r ∈ s.requests, r.dispVeh ≠ some veh'.id)
    (hinv : Inv17 env s) (h : s.modifyVehicle env veh' = .ok s') : Inv17 env s' := by
  obtain ⟨_, hv, _, _, hr, _, _⟩ := Sim.modifyVehicle_fields h
  have hfr := Sim.modifyVehicle_frame h
  intro r hmem u hu
  rw [hr] at hmem
  obtain ⟨⟨vu, ru, hvu, hau⟩, hf⟩ := hinv r hmem u hu
  have huv : u ≠ veh'.id := by
    intro heq; subst heq; exact hfree r hmem hu
  exact ⟨⟨vu, ru, by rw [hfr.others u huv]; exact hvu, hau⟩, hf⟩

theorem modifyRequest_succeeds {s : Sim} {req req' : Request} (hreq : s.request? req.id = some req)
    (hid : req'.id = req.id) (hpos : req'.pos = req.pos) (hdest : req'.dest = req.dest)
    (hf1 : env.inFence req.pos.cell = true) (hf2 : env.inFence req.dest.cell = true) :
    ∃ s', s.modifyRequest env req' = .ok s' := by
  unfold Sim.modifyRequest
  rw [hid, hreq]
  simp only [hpos, hdest, hf1, hf2, Bool.not_true, Bool.false_eq_true, if_false]
  unfold Index.move
  simp

theorem setRoute_dispatch {a : Act} {rid : RequestId} {route r' : Route} (h : a = .dispatchTrip rid route) :
    a.setRoute r' = .dispatchTrip rid r' := by subst h; rfl

theorem move_inv17 {w w2 : World} {v : VehicleId} (hwf : w.sim.WF) (hinv : Inv17 env w.sim)
    (h : move env w v = .ok w2) : Inv17 env w2.sim := by
  unfold move at h
  split at h
  · cases h
  · next veh hveh =>
    have hself := vehicle?_self hveh
    have hid := (vehicle?_some hveh).2
    split at h
    · cases h
    · split at h
      · cases h
      · next route hroute =>
        simp only [Outcome.bind_eq, Outcome.bind_eq_ok, Outcome.pure_eq] at h
        obtain ⟨tr, _, h⟩ := h
        split at h
        · simp only [Outcome.bind_eq, Outcome.bind_eq_ok, Outcome.pure_eq] at h
          obtain ⟨s2, h1, h2⟩ := h
          cases h2
          refine Inv17_modifyVehicle (old := veh) ?_ ?_ hinv h1
          · exact hself
          · intro rid rt ha
            exact ⟨[], setRoute_dispatch ha⟩
        · split at h
          · simp only [Outcome.bind_eq, Outcome.bind_eq_ok, Outcome.pure_eq] at h
            obtain ⟨s2, h1, h2⟩ := h
            cases h2
            split at h1
            · next s' hexit =>
              have htr : transition env w v veh.act .outOfService = .ok { w with sim := s2 } := by
                unfold transition
                simp only [Outcome.bind_eq, Outcome.bind_eq_ok]
                refine ⟨s', hexit, ?_⟩
                simp only [enter, Outcome.bind_eq, Outcome.bind_eq_ok, Outcome.pure_eq]
                exact ⟨s2, h1, rfl⟩
              exact transition_inv17 hwf hinv hveh htr
            · next hfail =>
              -- exit refused or failed: then no request records this vehicle
              have hfree : ∀ r ∈ w.sim.requests, r.dispVeh ≠ some v := by
                intro r hr hrec
                obtain ⟨⟨vu, ru, hvu, hau⟩, hf1, hf2⟩ := hinv r hr v hrec
                rw [hveh] at hvu
                cases hvu
                have hl : w.sim.request? r.id = some r := lookup_of_mem hwf.req hr
                obtain ⟨s', hs'⟩ := modifyRequest_succeeds (env := env) (req' := { r with dispVeh := none, dispTime := none })
                  hl rfl rfl rfl hf1 hf2
                apply hfail s'
                rw [hau]
                simp only [exit, hl]
                exact hs'
              unfold applyAct at h1
              rw [hveh] at h1
              simp only at h1
              refine Inv17_modifyVehicle_free ?_ hinv h1
              intro r hr
              simp only
              rw [hid]
              exact hfree r hr
          · split at h
            · cases h
            · simp only [Outcome.bind_eq, Outcome.bind_eq_ok, Outcome.pure_eq] at h
              obtain ⟨s2, h1, h2⟩ := h
              cases h2
              refine Inv17_modifyVehicle (old := veh) ?_ ?_ hinv h1
              · exact hself
              · intro rid rt ha
                exact ⟨tr.remaining, setRoute_dispatch ha⟩

end Hive

namespace Hive
variable {env : Env}

theorem charge_inv17 {w w2 : World} {v : VehicleId} {sid : StationId} {cid : ChargerId}
    (hinv : Inv17 env w.sim) (h : charge env w v sid cid = .ok w2) : Inv17 env w2.sim := by
  unfold charge at h
  split at h
  · cases h
  · split at h
    · cases h
    · next veh hveh =>
      split at h
      · cases h
      · split at h
        · cases h
        · split at h
          · cases h
          · simp only [Outcome.bind_eq, Outcome.bind_eq_ok, Outcome.pure_eq] at h
            obtain ⟨s1, h1, s2, h2, h3⟩ := h
            cases h3
            have i1 : Inv17 env s1 := by
              refine Inv17_modifyVehicle (old := veh) ?_ ?_ hinv h1
              · exact vehicle?_self hveh
              · intro rid rt ha; exact ⟨rt, ha⟩
            obtain ⟨_, _, _, hv2, hr2, _, _⟩ := Sim.modifyStation_fields h2
            exact Inv17_congr hr2 (vehicle?_congr hv2) i1

theorem performUpdate_inv17 {w w2 : World} {v : VehicleId} {veh : Vehicle} (hwf : w.sim.WF)
    (hinv : Inv17 env w.sim) (hveh : w.sim.vehicle? v = some veh)
    (h : performUpdate env w v veh.act = .ok w2) : Inv17 env w2.sim := by
  have hself := vehicle?_self hveh
  cases hact : veh.act <;> rw [hact] at h <;> simp only [performUpdate] at h
  case idle d =>
    rw [hveh] at h
    simp only at h
    split at h
    · cases h
    · simp only [Outcome.bind_eq, Outcome.bind_eq_ok, Outcome.pure_eq] at h
      obtain ⟨s2, h1, h2⟩ := h
      cases h2
      refine Inv17_modifyVehicle (old := veh) ?_ ?_ hinv h1
      · exact hself
      · intro rid rt ha; rw [hact] at ha; cases ha
  case outOfService | reserveBase => cases h; exact hinv
  case repositioning | dispatchTrip | dispatchStation | dispatchBase => exact move_inv17 hwf hinv h
  case servicingTrip req dep r =>
    simp only [Outcome.bind_eq, Outcome.bind_eq_ok, Outcome.pure_eq] at h
    obtain ⟨w1, h1, h2⟩ := h
    have hm := move_inv17 hwf hinv h1
    split at h2
    · cases h2
    · split at h2
      · cases h2; exact hm
      · split at h2
        · rw [dropOffTrip_sim' h2]; exact hm
        · cases h2; exact hm
      · cases h2; exact hm
  case chargingStation sid cid => exact charge_inv17 hinv h
  case chargingBase b cid =>
    split at h
    · cases h
    · exact charge_inv17 hinv h
  case chargeQueueing sid cid t =>
    rw [hveh] at h
    simp only at h
    split at h
    · cases h
    · simp only [Outcome.bind_eq, Outcome.bind_eq_ok, Outcome.pure_eq] at h
      obtain ⟨s2, h1, h2⟩ := h
      cases h2
      refine Inv17_modifyVehicle (old := veh) ?_ ?_ hinv h1
      · exact hself
      · intro rid rt ha; rw [hact] at ha; cases ha
  case servicingPooling | dispatchPooling => cases h

theorem inv17_runInv (env : Env) : RunInv env (Inv17 env) where
  applied s a h := Inv17_congr rfl (fun _ => rfl) h
  transition hwf hi hveh _ h := transition_inv17 hwf hi hveh h
  update := by
    intro w w2 v veh hwf hi hveh h
    unfold defaultUpdate at h
    split at h
    · simp only [Outcome.bind_eq, Outcome.bind_eq_ok] at h
      obtain ⟨next, _, w1, htr, h3⟩ := h
      have i1 := transition_inv17 hwf hi hveh htr
      have id1 := transition_sameIds hwf htr
      split at h3
      · cases h3
      · next veh1 hveh1 => exact performUpdate_inv17 (id1.wf hwf) i1 hveh1 h3
    · exact performUpdate_inv17 hwf hi hveh h
  tick s h := Inv17_congr rfl (fun _ => rfl) h
  arrival := by
    intro s s' r _ hi hf _ hd h
    obtain ⟨hv, _, _, _, _, hreqs, _, _⟩ := addRequest_fields hf h
    intro r' hr' u hu
    rw [hreqs] at hr'
    rcases List.mem_append.mp hr' with hm | hm
    · obtain ⟨⟨vu, ru, hvu, hau⟩, hfe⟩ := hi r' hm u hu
      exact ⟨⟨vu, ru, by rw [vehicle?_congr hv]; exact hvu, hau⟩, hfe⟩
    · simp only [List.mem_cons, List.not_mem_nil, or_false] at hm
      subst hm
      rw [hd] at hu
      cases hu
  cancel := by
    intro s s' i _ hi h
    obtain ⟨_, hr, _, _, hv, _, _⟩ := Sim.removeRequest_fields h
    intro r' hr' u hu
    rw [hr] at hr'
    obtain ⟨⟨vu, ru, hvu, hau⟩, hfe⟩ := hi r' (mem_removeById hr').1 u hu
    exact ⟨⟨vu, ru, by rw [vehicle?_congr hv]; exact hvu, hau⟩, hfe⟩

end Hive
