/-
  Proofs.C17u — under controllers that dispatch like the built-in dispatcher (trip dispatches only
  to requests without a vehicle, no two to the same request; every other instruction arbitrary)
  at most one vehicle is travelling to any waiting request, in every reachable state.

  `Conv` is the converse of `Inv17`: whoever is travelling to a waiting request is the vehicle that
  request records. It is not an invariant of arbitrary control (a second dispatch to the same
  request overwrites the record), which is why the instruction phase carries the two hypotheses.
-/
import Proofs.C17
import Proofs.C07

namespace Hive
variable {env : Env}

/-- the converse of `Inv17`: whoever is travelling to a waiting request is the vehicle that request records -/
def Conv (s : Sim) : Prop :=
  ∀ u veh rid route, s.vehicle? u = some veh → veh.act = .dispatchTrip rid route →
    ∀ r, s.request? rid = some r → r.dispVeh = some u

/-- under `Conv` at most one vehicle is travelling to any waiting request -/
theorem conv_unique {s : Sim} (hc : Conv s) {u u' : VehicleId} {veh veh' : Vehicle} {rid : RequestId} {ro ro' : Route}
    {r : Request} (h1 : s.vehicle? u = some veh) (a1 : veh.act = .dispatchTrip rid ro)
    (h2 : s.vehicle? u' = some veh') (a2 : veh'.act = .dispatchTrip rid ro') (hr : s.request? rid = some r) : u = u' := by
  have e1 := hc u veh rid ro h1 a1 r hr
  have e2 := hc u' veh' rid ro' h2 a2 r hr
  rw [e1] at e2
  exact Option.some.inj e2

theorem enterPost_dispatch {s : Sim} {old : Vehicle} {next : Act} {rid : RequestId} {route : Route}
    (h : EnterPost s old next (.dispatchTrip rid route)) : next = .dispatchTrip rid route := by
  cases next <;> simp only [EnterPost] at h
  case dispatchTrip rid' r' => obtain ⟨h1, _⟩ := h; cases h1; rfl
  case dispatchStation sid cid r =>
    obtain ⟨st, _, _, h3⟩ := h
    rcases h3 with ⟨h4, _⟩ | ⟨h4, _⟩ <;> cases h4
  all_goals first
    | (obtain ⟨h1, _⟩ := h; cases h1)
    | cases h

theorem transition_conv {w w2 : World} {v : VehicleId} {veh : Vehicle} {next : Act} (hwf : w.sim.WF)
    (hc : Conv w.sim) (hveh : w.sim.vehicle? v = some veh)
    (hguard : ∀ rid route, next = .dispatchTrip rid route → ∀ r, w.sim.request? rid = some r →
      r.dispVeh = none ∨ r.dispVeh = some v)
    (h : transition env w v veh.act next = .ok w2) : Conv w2.sim := by
  have hfr := transition_frame hwf h
  unfold transition at h
  simp only [Outcome.bind_eq, Outcome.bind_eq_ok] at h
  obtain ⟨s1, h1, h2⟩ := h
  have hex := exit_requests h1
  have hen := enter_requests h2
  obtain ⟨old, vnew, hold, hvnew, _, _, hpost⟩ := enter_post h2
  intro u veh' rid' route' hu hact r2 hr2
  by_cases huv : u = v
  · -- the transitioning vehicle itself: it can only be travelling because it was just dispatched
    subst huv
    rw [hvnew] at hu
    cases hu
    rw [hact] at hpost
    have hnext := enterPost_dispatch hpost
    rcases hen with ⟨_, hno, _⟩ | ⟨rid, route, req, hn, hreq, _, _, hreqs⟩ | ⟨sreq, dep, route, hn, _⟩
    · exact absurd hnext (hno rid' route')
    · rw [hn] at hnext
      cases hnext
      simp only at hreq hreqs
      unfold Sim.request? at hr2 hreq
      rw [hreqs] at hr2
      have hid : req.id = rid' := (lookup_some hreq).2
      have hl : lookup Request.id s1.requests
          ({ req with dispVeh := some u, dispTime := some s1.time } : Request).id = some req := by
        simp only; rw [hid]; exact hreq
      have := lookup_replaceById_self hl
      simp only at this
      rw [← hid] at hr2
      rw [this] at hr2
      cases hr2
      rfl
    · rw [hn] at hnext; cases hnext
  · -- another vehicle: its record is untouched, and so is the request it is travelling to
    have hu0 : w.sim.vehicle? u = some veh' := by rw [← hfr.others u huv]; exact hu
    obtain ⟨r, hr, _⟩ := hfr.req rid' r2 hr2
    have hru : r.dispVeh = some u := hc u veh' rid' route' hu0 hact r hr
    -- through `exit`
    have hs1 : s1.request? rid' = some r := by
      rcases hex with ⟨hsame, _⟩ | ⟨rid0, ro0, req0, ha0, hreq0, hreqs⟩
      · unfold Sim.request?; rw [hsame]; exact hr
      · by_cases he : rid' = rid0
        · subst he
          rw [hr] at hreq0
          cases hreq0
          have := hc v veh rid' ro0 hveh ha0 r hr
          rw [hru] at this
          exact absurd (Option.some.inj this) huv
        · unfold Sim.request? at hr ⊢
          rw [hreqs]
          have hid : ({ req0 with dispVeh := none, dispTime := none } : Request).id = rid0 := (lookup_some hreq0).2
          rw [lookup_replaceById_ne _ _ (by rw [hid]; exact he)]
          exact hr
    -- through `enter`
    rcases hen with ⟨_, _, hsame⟩ | ⟨rid, route, req, hn, hreq, _, _, hreqs⟩ | ⟨sreq, dep, route, hn, hreqs⟩
    · simp only at hsame
      unfold Sim.request? at hr2 hs1
      rw [hsame, hs1] at hr2
      cases hr2
      exact hru
    · simp only at hreq hreqs
      by_cases he : rid' = rid
      · subst he
        -- the request was waiting without a vehicle (or with this very vehicle): nobody else was travelling to it
        rcases hguard rid' route hn r hr with hg | hg
        · rw [hru] at hg; cases hg
        · rw [hru] at hg; exact absurd (Option.some.inj hg) huv
      · unfold Sim.request? at hr2 hs1 hreq
        rw [hreqs] at hr2
        have hid : ({ req with dispVeh := some v, dispTime := some s1.time } : Request).id = rid := (lookup_some hreq).2
        rw [lookup_replaceById_ne _ _ (by rw [hid]; exact he), hs1] at hr2
        cases hr2
        exact hru
    · simp only at hreqs
      by_cases he : rid' = sreq.id
      · unfold Sim.request? at hr2
        rw [hreqs, he, lookup_removeById_self] at hr2
        cases hr2
      · unfold Sim.request? at hr2 hs1
        rw [hreqs, lookup_removeById_ne _ he, hs1] at hr2
        cases hr2
        exact hru

/-- what `move` does to the request collection: nothing, or - when the vehicle runs out of energy
    on its way to a request - that request's record is cleared and the vehicle is out of service -/
theorem move_requests {w w2 : World} {v : VehicleId} {veh : Vehicle} (hveh : w.sim.vehicle? v = some veh)
    (h : move env w v = .ok w2) :
    w2.sim.requests = w.sim.requests ∨
    ∃ rid route req vnew, veh.act = .dispatchTrip rid route ∧ w.sim.request? rid = some req ∧
      w2.sim.requests = replaceById Request.id w.sim.requests { req with dispVeh := none, dispTime := none } ∧
      w2.sim.vehicle? v = some vnew ∧ vnew.act = .outOfService := by
  unfold move at h
  rw [hveh] at h
  simp only at h
  split at h
  · cases h
  · split at h
    · cases h
    · next route hroute =>
      simp only [Outcome.bind_eq, Outcome.bind_eq_ok, Outcome.pure_eq] at h
      obtain ⟨tr, htr, h⟩ := h
      split at h
      · simp only [Outcome.bind_eq, Outcome.bind_eq_ok, Outcome.pure_eq] at h
        obtain ⟨s2, h1, h2⟩ := h
        cases h2
        exact Or.inl (Sim.modifyVehicle_fields h1).2.2.2.2.1
      · split at h
        · simp only [Outcome.bind_eq, Outcome.bind_eq_ok, Outcome.pure_eq] at h
          obtain ⟨s2, h1, h2⟩ := h
          cases h2
          obtain ⟨veh1, hv1, hv2, _, _, hr, _, _⟩ := applyAct_fields h1
          obtain ⟨veh1', hv1', hv2'⟩ := applyAct_self h1
          split at hr
          · next s' hexit =>
            rcases exit_requests hexit with ⟨hsame, _⟩ | ⟨rid, ro, req, ha, hreq, hrep⟩
            · left; simp only; rw [hr, hsame]
            · right
              exact ⟨rid, ro, req, _, ha, hreq, by simp only; rw [hr, hrep], hv2', rfl⟩
          · left; simp only; exact hr
        · split at h
          · cases h
          · simp only [Outcome.bind_eq, Outcome.bind_eq_ok, Outcome.pure_eq] at h
            obtain ⟨s2, h1, h2⟩ := h
            cases h2
            exact Or.inl (Sim.modifyVehicle_fields h1).2.2.2.2.1

theorem charge_requests {w w2 : World} {v : VehicleId} {sid : StationId} {cid : ChargerId}
    (h : charge env w v sid cid = .ok w2) : w2.sim.requests = w.sim.requests := by
  unfold charge at h
  split at h
  · cases h
  · split at h
    · cases h
    · split at h
      · cases h
      · split at h
        · cases h
        · split at h
          · cases h
          · simp only [Outcome.bind_eq, Outcome.bind_eq_ok, Outcome.pure_eq] at h
            obtain ⟨s1, h1, s2, h2, h3⟩ := h
            cases h3
            simp only
            rw [(Sim.modifyStation_fields h2).2.2.2.2.1, (Sim.modifyVehicle_fields h1).2.2.2.2.1]

theorem setRoute_dispatch_inv {a : Act} {r : Route} {rid : RequestId} {route : Route}
    (h : a.setRoute r = .dispatchTrip rid route) : ∃ r0, a = .dispatchTrip rid r0 := by
  cases a with
  | dispatchTrip rid' r' => simp only [Act.setRoute] at h; cases h; exact ⟨r', rfl⟩
  | _ => simp only [Act.setRoute] at h <;> cases h

/-- what `_perform_update` does to the request collection -/
theorem performUpdate_requests {w w2 : World} {v : VehicleId} {veh : Vehicle} (hveh : w.sim.vehicle? v = some veh)
    (h : performUpdate env w v veh.act = .ok w2) :
    w2.sim.requests = w.sim.requests ∨
    ∃ rid route req vnew, veh.act = .dispatchTrip rid route ∧ w.sim.request? rid = some req ∧
      w2.sim.requests = replaceById Request.id w.sim.requests { req with dispVeh := none, dispTime := none } ∧
      w2.sim.vehicle? v = some vnew ∧ vnew.act = .outOfService := by
  cases hact : veh.act <;> rw [hact] at h <;> simp only [performUpdate] at h
  case idle d =>
    rw [hveh] at h
    simp only at h
    split at h
    · cases h
    · simp only [Outcome.bind_eq, Outcome.bind_eq_ok, Outcome.pure_eq] at h
      obtain ⟨s2, h1, h2⟩ := h
      cases h2
      exact Or.inl (Sim.modifyVehicle_fields h1).2.2.2.2.1
  case outOfService | reserveBase => cases h; exact Or.inl rfl
  case repositioning | dispatchStation | dispatchBase =>
    rcases move_requests hveh h with h' | ⟨rid, ro, _, _, ha, _⟩
    · exact Or.inl h'
    · rw [hact] at ha; cases ha
  case dispatchTrip rid0 r0 =>
    rcases move_requests hveh h with h' | ⟨rid, ro, req, vnew, ha, h2, h3, h4, h5⟩
    · exact Or.inl h'
    · rw [hact] at ha
      exact Or.inr ⟨rid, ro, req, vnew, ha, h2, h3, h4, h5⟩
  case servicingTrip req dep r =>
    simp only [Outcome.bind_eq, Outcome.bind_eq_ok] at h
    obtain ⟨w1, h1, h2⟩ := h
    have hm : w1.sim.requests = w.sim.requests := by
      rcases move_requests hveh h1 with h' | ⟨rid, ro, _, _, ha, _⟩
      · exact h'
      · rw [hact] at ha; cases ha
    left
    split at h2
    · cases h2
    · split at h2
      · cases h2; exact hm
      · split at h2
        · rw [dropOffTrip_sim' h2]; exact hm
        · cases h2; exact hm
      · cases h2; exact hm
  case chargingStation sid cid => exact Or.inl (charge_requests h)
  case chargingBase b cid =>
    split at h
    · cases h
    · exact Or.inl (charge_requests h)
  case chargeQueueing sid cid t =>
    rw [hveh] at h
    simp only at h
    split at h
    · cases h
    · simp only [Outcome.bind_eq, Outcome.bind_eq_ok, Outcome.pure_eq] at h
      obtain ⟨s2, h1, h2⟩ := h
      cases h2
      exact Or.inl (Sim.modifyVehicle_fields h1).2.2.2.2.1
  case servicingPooling | dispatchPooling => cases h

/-- `_perform_update` keeps `Conv` -/
theorem performUpdate_conv {w w2 : World} {v : VehicleId} {veh : Vehicle} (hwf : w.sim.WF) (hc : Conv w.sim)
    (hveh : w.sim.vehicle? v = some veh) (h : performUpdate env w v veh.act = .ok w2) : Conv w2.sim := by
  have hfr := performUpdate_frame hwf h
  obtain ⟨vnew, hvnew, _, hupd⟩ := performUpdate_post hveh h
  have hreqs := performUpdate_requests hveh h
  intro u veh' rid' route' hu hact r2 hr2
  by_cases huv : u = v
  · subst huv
    rw [hvnew] at hu
    cases hu
    -- still travelling: it was travelling to the same request before
    have hold : ∃ r0, veh.act = .dispatchTrip rid' r0 := by
      rcases hupd with ⟨_, h1 | h1 | ⟨d, d', _, h1⟩ | ⟨ro, tr, _, _, _, h1⟩⟩ | ⟨ro, tr, last, _, _, _, _, h1⟩
      · rw [hact] at h1; exact ⟨route', h1.symm⟩
      · rw [hact] at h1; cases h1
      · rw [hact] at h1; cases h1
      · rw [hact] at h1; exact setRoute_dispatch_inv h1.symm
      · rw [hact] at h1; exact setRoute_dispatch_inv h1.symm
    obtain ⟨r0, hr0⟩ := hold
    rcases hreqs with hsame | ⟨rid, ro, req, vn, _, _, _, hvn, han⟩
    · unfold Sim.request? at hr2
      rw [hsame] at hr2
      exact hc u veh rid' r0 hveh hr0 r2 hr2
    · rw [hvnew] at hvn
      cases hvn
      rw [hact] at han
      cases han
  · have hu0 : w.sim.vehicle? u = some veh' := by rw [← hfr.others u huv]; exact hu
    obtain ⟨r, hr, _⟩ := hfr.req rid' r2 hr2
    have hru : r.dispVeh = some u := hc u veh' rid' route' hu0 hact r hr
    rcases hreqs with hsame | ⟨rid0, ro0, req0, vn, ha0, hreq0, hrep, _, _⟩
    · unfold Sim.request? at hr2 hr
      rw [hsame, hr] at hr2
      cases hr2
      exact hru
    · by_cases he : rid' = rid0
      · subst he
        rw [hr] at hreq0
        cases hreq0
        have := hc v veh rid' ro0 hveh ha0 r hr
        rw [hru] at this
        exact absurd (Option.some.inj this) huv
      · unfold Sim.request? at hr2 hr
        rw [hrep] at hr2
        have hid : ({ req0 with dispVeh := none, dispTime := none } : Request).id = rid0 := (lookup_some hreq0).2
        rw [lookup_replaceById_ne _ _ (by rw [hid]; exact he), hr] at hr2
        cases hr2
        exact hru

theorem defaultNext_not_dispatch {s : Sim} {v : VehicleId} {a next : Act} (h : defaultNext env s v a = .ok next) :
    ∀ rid route, next ≠ .dispatchTrip rid route := by
  intro rid route hn
  rcases defaultNext_spec h with h1 | ⟨_, _, _, _, _, _, _, _, h1⟩
  · rw [hn] at h1; simp [Act.route?] at h1
  · rw [hn] at h1; cases h1

/-- a vehicle's whole update (default transition, then `_perform_update`) keeps `Conv` -/
theorem defaultUpdate_conv {w w2 : World} {v : VehicleId} {veh : Vehicle} (hwf : w.sim.WF) (hc : Conv w.sim)
    (hveh : w.sim.vehicle? v = some veh) (h : defaultUpdate env w v veh.act = .ok w2) : Conv w2.sim := by
  unfold defaultUpdate at h
  split at h
  · simp only [Outcome.bind_eq, Outcome.bind_eq_ok] at h
    obtain ⟨next, hnext, w1, htr, h3⟩ := h
    have hc1 : Conv w1.sim := transition_conv hwf hc hveh
      (fun rid route hn => absurd hn (defaultNext_not_dispatch hnext rid route)) htr
    have hwf1 := (transition_sameIds hwf htr).wf hwf
    split at h3
    · cases h3
    · next veh1 hveh1 => exact performUpdate_conv hwf1 hc1 hveh1 h3
  · exact performUpdate_conv hwf hc hveh h

/-- the request a trip dispatch names -/
def Instr.trip? : Instr → Option RequestId
  | .dispatchTrip _ r => some r
  | _ => none

def planTrip? (p : Instr × VehicleId × Act × Act) : Option RequestId :=
  match p.2.2.2 with
  | .dispatchTrip rid _ => some rid
  | _ => none

/-- a plan enters `DispatchTrip` for request `rid` exactly when its instruction is a trip dispatch to `rid` -/
theorem planInstr_trip {s : Sim} {i : Instr} {v : VehicleId} {prev next : Act}
    (h : planInstr env s i = .ok (v, prev, next)) : planTrip? (i, v, prev, next) = i.trip? := by
  cases i <;> simp only [planInstr] at h
  all_goals (repeat' split at h)
  all_goals (cases h <;> first | rfl | simp [planTrip?, Instr.trip?])

theorem planAll_trips {s : Sim} {is : List Instr} :
    ((planAll env s is).filterMap planTrip?).Sublist (is.filterMap Instr.trip?) := by
  induction is with
  | nil => exact List.Sublist.refl _
  | cons i is ih =>
    simp only [planAll]
    split
    · next p hp =>
      obtain ⟨v, prev, next⟩ := p
      have ht := planInstr_trip hp
      simp only [List.filterMap_cons, ht]
      cases i.trip? with
      | none => exact ih
      | some r => exact List.Sublist.cons_cons _ ih
    · simp only [List.filterMap_cons]
      cases i.trip? with
      | none => exact ih
      | some r => exact List.Sublist.cons _ ih

/-- a transition that does not dispatch to `rid'` leaves a vehicle-less record of `rid'` vehicle-less -/
theorem transition_keeps_none {w w2 : World} {v : VehicleId} {prev next : Act} {rid' : RequestId}
    (hnone : ∀ req, w.sim.request? rid' = some req → req.dispVeh = none)
    (hnot : ∀ route, next ≠ .dispatchTrip rid' route)
    (h : transition env w v prev next = .ok w2) :
    ∀ req, w2.sim.request? rid' = some req → req.dispVeh = none := by
  unfold transition at h
  simp only [Outcome.bind_eq, Outcome.bind_eq_ok] at h
  obtain ⟨s1, h1, h2⟩ := h
  have hs1 : ∀ req, s1.request? rid' = some req → req.dispVeh = none := by
    intro req hreq
    rcases exit_requests h1 with ⟨hsame, _⟩ | ⟨rid0, ro0, req0, _, hreq0, hrep⟩
    · unfold Sim.request? at hreq; rw [hsame] at hreq; exact hnone req hreq
    · unfold Sim.request? at hreq
      rw [hrep] at hreq
      have hid : ({ req0 with dispVeh := none, dispTime := none } : Request).id = rid0 := (lookup_some hreq0).2
      by_cases he : rid' = rid0
      · have hl : lookup Request.id w.sim.requests
            ({ req0 with dispVeh := none, dispTime := none } : Request).id = some req0 := by
          rw [hid]; exact hreq0
        have := lookup_replaceById_self hl
        simp only at this
        have hid0 : req0.id = rid' := by rw [he]; exact (lookup_some hreq0).2
        rw [← hid0] at hreq
        rw [this] at hreq
        cases hreq
        rfl
      · rw [lookup_replaceById_ne _ _ (by rw [hid]; exact he)] at hreq
        exact hnone req hreq
  intro req hreq
  rcases enter_requests h2 with ⟨_, _, hsame⟩ | ⟨rid, route, req1, hn, hreq1, _, _, hreqs⟩ | ⟨sreq, dep, route, hn, hreqs⟩
  · simp only at hsame
    unfold Sim.request? at hreq; rw [hsame] at hreq; exact hs1 req hreq
  · simp only at hreq1 hreqs
    have hne : rid' ≠ rid := fun he => hnot route (by rw [hn, he])
    unfold Sim.request? at hreq
    rw [hreqs] at hreq
    have hid : ({ req1 with dispVeh := some v, dispTime := some s1.time } : Request).id = rid := (lookup_some hreq1).2
    rw [lookup_replaceById_ne _ _ (by rw [hid]; exact hne)] at hreq
    exact hs1 req hreq
  · simp only at hreqs
    unfold Sim.request? at hreq
    rw [hreqs] at hreq
    by_cases he : rid' = sreq.id
    · rw [he, lookup_removeById_self] at hreq; cases hreq
    · rw [lookup_removeById_ne _ he] at hreq
      exact hs1 req hreq

theorem conv_applied {s : Sim} (a : List (VehicleId × Instr)) (h : Conv s) : Conv ({ s with applied := a } : Sim) := h

/-- pass 2 of `apply_instructions` keeps `Conv` when every planned trip dispatch names a request
    without a vehicle and no two name the same request -/
theorem applyPlans_conv {ps : List (Instr × VehicleId × Act × Act)} :
    ∀ {w : World}, w.sim.WF → Conv w.sim → Honest env w.sim ps →
      (∀ rid ∈ ps.filterMap planTrip?, ∀ req, w.sim.request? rid = some req → req.dispVeh = none) →
      (ps.filterMap planTrip?).Nodup →
      Conv (applyPlans env w ps).sim := by
  induction ps with
  | nil => intro w _ hc _ _ _; exact hc
  | cons p ps ih =>
    intro w hwf hc hh hg hnd2
    obtain ⟨i, v, prev, next⟩ := p
    simp only [applyPlans]
    obtain ⟨hnd, hall⟩ := hh
    simp only [List.map_cons, List.nodup_cons] at hnd
    have hrest : ∀ q ∈ ps, (∃ veh, w.sim.vehicle? q.2.1 = some veh ∧ veh.act = q.2.2.1) ∧
        (q.2.2.2.notServicing = true ∧ q.2.2.2.wellRouted env) :=
      fun q hq => hall q (List.mem_cons_of_mem _ hq)
    have hsubl : (ps.filterMap planTrip?).Sublist ((i, v, prev, next) :: ps |>.filterMap planTrip?) := by
      simp only [List.filterMap_cons]
      cases planTrip? (i, v, prev, next) with
      | none => exact List.Sublist.refl _
      | some r => exact List.Sublist.cons _ (List.Sublist.refl _)
    have hnd2' : (ps.filterMap planTrip?).Nodup := List.Nodup.sublist hsubl hnd2
    split
    · next w' htr =>
      obtain ⟨⟨veh, hveh, hact⟩, hns⟩ := hall (i, v, prev, next) (List.mem_cons_self)
      simp only at hveh hact hns
      subst hact
      -- this plan's own guard
      have hguard : ∀ rid route, next = .dispatchTrip rid route → ∀ r, w.sim.request? rid = some r →
          r.dispVeh = none ∨ r.dispVeh = some v := by
        intro rid route hn r hr
        left
        apply hg rid _ r hr
        simp only [List.filterMap_cons]
        have : planTrip? (i, v, veh.act, next) = some rid := by simp [planTrip?, hn]
        rw [this]
        exact List.mem_cons_self
      have hc' := transition_conv hwf hc hveh hguard htr
      have hid := transition_sameIds hwf htr
      have hfr := transition_frame hwf htr
      refine ih (w := { w' with sim := { w'.sim with applied := _ } }) (wf_applied _ (hid.wf hwf))
        (conv_applied _ hc') ⟨hnd.2, ?_⟩ ?_ hnd2'
      · intro q hq
        obtain ⟨⟨vq, h1, h2⟩, h3⟩ := hrest q hq
        have hne : q.2.1 ≠ v := by
          intro heq
          apply hnd.1
          rw [← heq]
          exact List.mem_map_of_mem (f := fun x : Instr × VehicleId × Act × Act => x.2.1) hq
        refine ⟨⟨vq, ?_, h2⟩, h3⟩
        have : w'.sim.vehicle? q.2.1 = some vq := by rw [hfr.others q.2.1 hne]; exact h1
        simpa [Sim.vehicle?] using this
      · -- the remaining trip targets are still without a vehicle
        intro rid hrid req hreq
        have hin : rid ∈ ((i, v, veh.act, next) :: ps).filterMap planTrip? := hsubl.subset hrid
        have hnone : ∀ req, w.sim.request? rid = some req → req.dispVeh = none := fun r hr => hg rid hin r hr
        have hnot : ∀ route, next ≠ .dispatchTrip rid route := by
          intro route hn
          have : planTrip? (i, v, veh.act, next) = some rid := by simp [planTrip?, hn]
          simp only [List.filterMap_cons, this, List.nodup_cons] at hnd2
          exact hnd2.1 hrid
        have hreq' : w'.sim.request? rid = some req := by simpa [Sim.request?] using hreq
        exact transition_keeps_none hnone hnot htr req hreq'
    · exact ih hwf hc ⟨hnd.2, hrest⟩ (fun rid hrid => hg rid (hsubl.subset hrid)) hnd2'

/-- **`apply_instructions` keeps `Conv` for dispatcher-like instruction lists**: one instruction
    per vehicle, every trip dispatch names a request that has no vehicle yet, no two the same one -/
theorem applyInstructions_conv {w : World} {is : List Instr} (hn : (is.map Instr.vehicle).Nodup) (hwf : w.sim.WF)
    (hc : Conv w.sim)
    (hfree : ∀ rid ∈ is.filterMap Instr.trip?, ∀ req, w.sim.request? rid = some req → req.dispVeh = none)
    (hdist : (is.filterMap Instr.trip?).Nodup) :
    Conv (applyInstructions env w is).sim := by
  unfold applyInstructions
  obtain ⟨hsub, hhon⟩ := planAll_spec (env := env) (s := w.sim) (is := is)
  have htr := planAll_trips (env := env) (s := w.sim) (is := is)
  exact applyPlans_conv hwf hc
    ⟨List.Nodup.sublist hsub hn, fun p hp => ⟨(hhon p hp).2.2.1, (hhon p hp).2.2.2⟩⟩
    (fun rid hrid => hfree rid (htr.subset hrid)) (List.Nodup.sublist htr hdist)

theorem updates_fold_conv {order : List Vehicle} :
    ∀ {w : World}, w.sim.WF → Conv w.sim → (order.map Vehicle.id).Nodup →
      (∀ x ∈ order, ∃ veh, w.sim.vehicle? x.id = some veh ∧ veh.act = x.act) →
      Conv (order.foldl (fun acc v => stepVehicle env acc v.id v.act) w).sim ∧
      (order.foldl (fun acc v => stepVehicle env acc v.id v.act) w).sim.WF := by
  induction order with
  | nil => intro w hwf hi _ _; exact ⟨hi, hwf⟩
  | cons x xs ih =>
    intro w hwf hi hnd hall
    simp only [List.foldl_cons]
    simp only [List.map_cons, List.nodup_cons] at hnd
    have hrest : ∀ y ∈ xs, ∃ veh, w.sim.vehicle? y.id = some veh ∧ veh.act = y.act :=
      fun y hy => hall y (List.mem_cons_of_mem _ hy)
    rcases stepVehicle_cases (env := env) w x.id x.act with heq | hok
    · rw [heq]; exact ih hwf hi hnd.2 hrest
    · obtain ⟨veh, hveh, hact⟩ := hall x List.mem_cons_self
      rw [← hact] at hok
      have hi' := defaultUpdate_conv hwf hi hveh hok
      obtain ⟨hfr, hid⟩ := defaultUpdate_frame hwf hok
      rw [hact] at hi' hfr hid
      refine ih (hid.wf hwf) hi' hnd.2 ?_
      intro y hy
      obtain ⟨vy, h1, h2⟩ := hrest y hy
      have hne : y.id ≠ x.id := by
        intro heq
        apply hnd.1
        rw [← heq]
        exact List.mem_map_of_mem hy
      exact ⟨vy, by rw [hfr.others y.id hne]; exact h1, h2⟩

/-- **`perform_vehicle_state_updates` keeps `Conv`** -/
theorem vehicleUpdates_conv {w : World} (hwf : w.sim.WF) (hc : Conv w.sim) :
    Conv (vehicleUpdates env w).sim ∧ (vehicleUpdates env w).sim.WF := by
  unfold vehicleUpdates
  have hp := updateOrder_perm w.sim.vehicles
  refine updates_fold_conv hwf hc ?_ ?_
  · exact (List.Perm.nodup_iff (hp.map Vehicle.id)).mpr hwf.veh
  · intro x hx
    have hx' : x ∈ w.sim.vehicles := hp.mem_iff.mp hx
    exact ⟨x, lookup_of_mem hwf.veh hx', rfl⟩

/-- one phase of a run under controllers that dispatch like the built-in dispatcher: trip
    dispatches only to requests without a vehicle, no two to the same request (all other
    instructions are arbitrary) -/
inductive PhaseD (env : Env) : Sim → Sim → Prop where
  | instructions {s : Sim} {log : List Event} {is : List Instr} :
      (is.map Instr.vehicle).Nodup →
      (∀ rid ∈ is.filterMap Instr.trip?, ∀ req, s.request? rid = some req → req.dispVeh = none) →
      (is.filterMap Instr.trip?).Nodup →
      PhaseD env s (applyInstructions env ⟨s, log⟩ is).sim
  | updates {s : Sim} {log : List Event} : PhaseD env s (vehicleUpdates env ⟨s, log⟩).sim
  | tick {s : Sim} : PhaseD env s s.tick
  | arrival {s s' : Sim} {r : Request} :
      s.request? r.id = none → (∀ veh ∈ s.vehicles, ∀ route, veh.act ≠ .dispatchTrip r.id route) →
      r.dispVeh = none → s.addRequest env r = .ok s' → PhaseD env s s'
  | cancel {s s' : Sim} {i : RequestId} : s.removeRequest env i = .ok s' → PhaseD env s s'

inductive ReachableD (env : Env) (s0 : Sim) : Sim → Prop where
  | init : ReachableD env s0 s0
  | step {s s' : Sim} : ReachableD env s0 s → PhaseD env s s' → ReachableD env s0 s'

theorem phaseD_conv {s s' : Sim} (hwf : s.WF) (hc : Conv s) (h : PhaseD env s s') : Conv s' ∧ s'.WF := by
  cases h with
  | instructions hn hfree hdist =>
    refine ⟨applyInstructions_conv hn hwf hc hfree hdist, ?_⟩
    exact (applyInstructions_inv (I := fun _ => True) ⟨fun _ _ _ => trivial, fun _ _ _ _ _ => trivial, fun _ _ _ _ => trivial⟩ hn hwf trivial).2
  | updates => exact vehicleUpdates_conv hwf hc
  | tick => exact ⟨hc, ⟨hwf.veh, hwf.stn, hwf.base, hwf.req, hwf.plugs⟩⟩
  | @arrival _ r hfresh hnobody hdv hadd =>
    refine ⟨?_, addRequest_wf hwf hfresh hadd⟩
    obtain ⟨hv, _, _, _, _, _, hne, hself⟩ := addRequest_fields hfresh hadd
    intro u veh rid route hu hact r2 hr2
    have hu0 : s.vehicle? u = some veh := by unfold Sim.vehicle? at hu ⊢; rw [← hv]; exact hu
    by_cases he : rid = r.id
    · subst he
      exact absurd hact (hnobody veh (vehicle?_some hu0).1 route)
    · rw [hne rid he] at hr2
      exact hc u veh rid route hu0 hact r2 hr2
  | @cancel _ i hrem =>
    refine ⟨?_, (Sim.removeRequest_sameIds hrem).wf hwf⟩
    obtain ⟨_, hr, _, _, hv, _, _⟩ := Sim.removeRequest_fields hrem
    intro u veh rid route hu hact r2 hr2
    have hu0 : s.vehicle? u = some veh := by unfold Sim.vehicle? at hu ⊢; rw [← hv]; exact hu
    unfold Sim.request? at hr2
    rw [hr] at hr2
    by_cases he : rid = i
    · rw [he, lookup_removeById_self] at hr2; cases hr2
    · rw [lookup_removeById_ne _ he] at hr2
      exact hc u veh rid route hu0 hact r2 hr2

/-- **under dispatcher-like control at most one vehicle is travelling to any waiting request, in
    every reachable state** -/
theorem reachableD_conv {s0 s : Sim} (hwf : s0.WF) (hc : Conv s0) (h : ReachableD env s0 s) : Conv s ∧ s.WF := by
  induction h with
  | init => exact ⟨hc, hwf⟩
  | step _ hp ih => exact phaseD_conv ih.2 ih.1 hp

end Hive
