/-
  Proofs.Traverse — structural facts about `traverse` (C06) for every geometry oracle:
  the vehicle ends at the junction between the driven part and the remaining part, the remaining
  part is connected and ends where the route ended, the odometer increment is the sum of the
  driven links, nothing is driven only when the route is empty or closed (for a positive step).
-/
import Hive.Traverse
import Hive.Inv
import Proofs.Lists

namespace Hive

/-- consecutive links join, starting from cell `c` -/
def chain (c : Cell) : Route → Bool
  | [] => true
  | l :: ls => l.start == c && chain l.stop ls

/-- end of the last link (or `c` for the empty route) -/
def lastStop (c : Cell) : Route → Cell
  | [] => c
  | l :: ls => lastStop l.stop ls

theorem connected_iff_chain : ∀ (r : Route), connected r = true ↔ (match r with
    | [] => True
    | l :: ls => chain l.stop ls = true)
  | [] => by simp [connected]
  | [l] => by simp [connected, chain]
  | a :: b :: rest => by
    have ih := connected_iff_chain (b :: rest)
    simp only [connected, chain, Bool.and_eq_true, beq_iff_eq] at ih ⊢
    rw [ih]
    constructor
    · rintro ⟨h1, h2⟩; exact ⟨h1.symm, h2⟩
    · rintro ⟨h1, h2⟩; exact ⟨h1.symm, h2⟩

theorem chain_append {c : Cell} {r : Route} {l : Link} (h : chain c r = true) (hl : l.start = lastStop c r) :
    chain c (r ++ [l]) = true := by
  induction r generalizing c with
  | nil => simp [chain, lastStop] at hl ⊢; exact hl
  | cons x xs ih =>
    simp only [chain, Bool.and_eq_true, List.cons_append] at h ⊢
    exact ⟨h.1, ih h.2 hl⟩

theorem lastStop_append (c : Cell) (r : Route) (l : Link) : lastStop c (r ++ [l]) = l.stop := by
  induction r generalizing c with
  | nil => rfl
  | cons x xs ih => simp only [List.cons_append, lastStop]; exact ih _

theorem lastStop_append_route (c : Cell) (r r' : Route) : lastStop c (r ++ r') = lastStop (lastStop c r) r' := by
  induction r generalizing c with
  | nil => rfl
  | cons x xs ih => simp only [List.cons_append, lastStop]; exact ih _

theorem getLast?_stop (c : Cell) : ∀ (r : Route), r ≠ [] → r.getLast?.map (·.stop) = some (lastStop c r)
  | [], h => absurd rfl h
  | [l], _ => rfl
  | a :: b :: rest, _ => by
    have := getLast?_stop a.stop (b :: rest) (by simp)
    simp only [List.getLast?_cons_cons, lastStop] at this ⊢
    exact this

/-- the accumulator invariant of the `reduce` in `traverse`; `c0` is where the route starts,
    `done` the links consumed so far -/
structure TravInv (dt : Nat) (c0 : Cell) (done : Route) (acc : TravAcc) : Prop where
  noRem : acc.remaining = [] → lastStop c0 acc.experienced = lastStop c0 done
  rem : acc.remaining ≠ [] → acc.timeLeft = 0 ∧
    chain (lastStop c0 acc.experienced) acc.remaining = true ∧
    lastStop c0 acc.remaining = lastStop c0 done
  fresh : acc.experienced = [] → acc.timeLeft = dt
  km : acc.km = acc.experienced.foldl (fun a l => a + l.dist) 0

theorem foldl_dist_append (xs : Route) (l : Link) (z : Rat) :
    (xs ++ [l]).foldl (fun a l => a + l.dist) z = xs.foldl (fun a l => a + l.dist) z + l.dist := by
  simp [List.foldl_append]

theorem lastStop_ne_nil (c c' : Cell) : ∀ (r : Route), r ≠ [] → lastStop c r = lastStop c' r
  | [], h => absurd rfl h
  | _ :: _, _ => rfl

theorem traverseStep_inv {g : Geo} {dt : Nat} {c0 : Cell} {done : Route} {acc acc' : TravAcc} {l : Link}
    (hinv : TravInv dt c0 done acc) (hl : l.start = lastStop c0 done)
    (h : traverseStep g acc l = some acc') : TravInv dt c0 (done ++ [l]) acc' := by
  unfold traverseStep at h
  split at h
  · -- no time left: the link is kept untouched
    next ht =>
    cases h
    have ht' : acc.timeLeft = 0 := by simpa using ht
    refine ⟨?_, ?_, hinv.fresh, hinv.km⟩
    · intro hr; simp at hr
    · intro _
      refine ⟨ht', ?_, ?_⟩
      · by_cases hrem : acc.remaining = []
        · rw [hrem]
          simp only [List.nil_append, chain, Bool.and_eq_true, beq_iff_eq, and_true]
          rw [hl, hinv.noRem hrem]
        · obtain ⟨_, hc, hls⟩ := hinv.rem hrem
          apply chain_append hc
          rw [hl, ← hls]
          exact (lastStop_ne_nil _ _ _ hrem)
      · simp only
        rw [lastStop_append, lastStop_append]
  · next ht =>
    have hrem : acc.remaining = [] := by
      by_cases hr : acc.remaining = []
      · exact hr
      · exact absurd (hinv.rem hr).1 (by simpa using ht)
    split at h
    · cases h
    · next sp _ =>
      cases h
      unfold traverseUpTo
      simp only
      split
      · -- degenerate link: skipped
        next hdeg =>
        have hdeg' : l.start = l.stop := by simpa using hdeg
        simp only
        refine ⟨?_, ?_, hinv.fresh, hinv.km⟩
        · intro _
          rw [lastStop_append, ← hdeg', hl]
          exact hinv.noRem hrem
        · intro hr; exact absurd hrem hr
      · split
        · -- the whole link fits
          simp only
          refine ⟨?_, ?_, ?_, ?_⟩
          · intro _; rw [lastStop_append, lastStop_append]
          · intro hr; exact absurd hrem hr
          · intro he; simp at he
          · rw [foldl_dist_append, hinv.km]
        · -- the link is split
          simp only
          refine ⟨?_, ?_, ?_, ?_⟩
          · intro hr; rw [hrem] at hr; simp at hr
          · intro _
            rw [hrem]
            refine ⟨rfl, ?_, ?_⟩
            · simp [chain, lastStop_append]
            · simp [lastStop, lastStop_append]
          · intro he; simp at he
          · rw [foldl_dist_append, hinv.km]

theorem traverseFold_inv {g : Geo} {dt : Nat} {c0 : Cell} :
    ∀ {todo done : Route} {acc acc' : TravAcc}, TravInv dt c0 done acc →
      chain (lastStop c0 done) todo = true → traverseFold g acc todo = some acc' →
      TravInv dt c0 (done ++ todo) acc'
  | [], done, acc, acc', hinv, _, h => by
    simp only [traverseFold] at h; cases h; simpa using hinv
  | l :: ls, done, acc, acc', hinv, hch, h => by
    simp only [traverseFold] at h
    split at h
    · cases h
    · next acc1 hstep =>
      simp only [chain, Bool.and_eq_true, beq_iff_eq] at hch
      have i1 := traverseStep_inv hinv hch.1 hstep
      have := traverseFold_inv (todo := ls) (done := done ++ [l]) i1
        (by rw [lastStop_append]; exact hch.2) h
      simpa using this

end Hive

namespace Hive

/-- what the control properties need from a traversal function -/
structure TraverseSpec (trav : Route → Nat → Outcome Traversal) (dt : Nat) : Prop where
  /-- nothing is driven only when the route is empty or closed -/
  empty : ∀ route tr, connected route = true → trav route dt = .ok tr → tr.experienced = [] →
    route = [] ∨ ∃ first, route.head? = some first ∧ route.getLast?.map (·.stop) = some first.start
  /-- after driving, the vehicle (placed at the end of the last driven link) is at the junction
      with the remaining route, which is connected and ends where the route ended -/
  junction : ∀ route tr last, connected route = true → trav route dt = .ok tr →
    tr.experienced.getLast? = some last →
    connected tr.remaining = true ∧
    (tr.remaining = [] → route.getLast?.map (·.stop) = some last.stop) ∧
    (∀ f rest, tr.remaining = f :: rest → f.start = last.stop ∧
        tr.remaining.getLast?.map (·.stop) = route.getLast?.map (·.stop))

theorem travInv_init (dt : Nat) (c0 : Cell) : TravInv dt c0 [] { timeLeft := dt } :=
  ⟨fun _ => rfl, fun h => absurd rfl h, fun _ => rfl, rfl⟩

theorem lastStop_getLast {c : Cell} {r : Route} {last : Link} (h : r.getLast? = some last) :
    lastStop c r = last.stop := by
  have hne : r ≠ [] := by intro hn; rw [hn] at h; cases h
  have := getLast?_stop c r hne
  rw [h] at this
  simpa using this.symm

theorem connected_of_chain {c : Cell} : ∀ {r : Route}, chain c r = true → connected r = true
  | [], _ => rfl
  | l :: ls, h => by
    rw [connected_iff_chain]
    simp only [chain, Bool.and_eq_true] at h
    exact h.2

/-- what `traverse` returns when it folds (the route is neither empty nor closed) -/
theorem traverse_fold_result {g : Geo} {route : Route} {dt : Nat} {tr : Traversal} {first : Link} {rest : Route}
    (hr : route = first :: rest) (hcon : connected route = true) (h : traverse g route dt = .ok tr) :
    (tr = ⟨[], [], 0⟩ ∧ some first.start = route.getLast?.map (·.stop)) ∨
    ∃ acc, TravInv dt first.start route acc ∧ tr = ⟨acc.experienced, acc.remaining, acc.km⟩ := by
  subst hr
  simp only [traverse] at h
  split at h
  · next hclosed => cases h; exact Or.inl ⟨rfl, by simpa using hclosed⟩
  · split at h
    · cases h
    · next acc hfold =>
      cases h
      right
      refine ⟨acc, ?_, rfl⟩
      have hch : chain (lastStop first.start []) (first :: rest) = true := by
        rw [connected_iff_chain] at hcon
        simp only [chain, lastStop, beq_self_eq_true, Bool.true_and]
        exact hcon
      have := traverseFold_inv (travInv_init dt first.start) hch hfold
      simpa using this

theorem traverse_spec (g : Geo) {dt : Nat} (hdt : 0 < dt) : TraverseSpec (traverse g) dt where
  empty := by
    intro route tr hcon h hemp
    cases route with
    | nil => exact Or.inl rfl
    | cons first rest =>
      right
      refine ⟨first, rfl, ?_⟩
      rcases traverse_fold_result rfl hcon h with ⟨_, hclosed⟩ | ⟨acc, hinv, rfl⟩
      · exact hclosed.symm
      · simp only at hemp
        -- nothing driven and a positive step: time is untouched, so nothing is left over either,
        -- and the (unmoved) position is the end of the route
        have ht : acc.timeLeft = dt := hinv.fresh hemp
        have hrem : acc.remaining = [] := by
          by_cases hr : acc.remaining = []
          · exact hr
          · have := (hinv.rem hr).1
            rw [ht] at this
            omega
        have := hinv.noRem hrem
        rw [hemp] at this
        simp only [lastStop] at this
        have h2 := getLast?_stop first.start (first :: rest) (by simp)
        rw [h2]
        simp only [lastStop] at this ⊢
        rw [← this]
  junction := by
    intro route tr last hcon h hlast
    cases route with
    | nil =>
      simp only [traverse] at h
      cases h
      simp at hlast
    | cons first rest =>
      rcases traverse_fold_result rfl hcon h with ⟨rfl, _⟩ | ⟨acc, hinv, rfl⟩
      · simp at hlast
      · simp only at hlast ⊢
        have hls : lastStop first.start acc.experienced = last.stop := lastStop_getLast hlast
        have hroute := getLast?_stop first.start (first :: rest) (by simp)
        by_cases hrem : acc.remaining = []
        · refine ⟨by rw [hrem]; rfl, ?_, ?_⟩
          · intro _
            rw [hroute, ← hls, hinv.noRem hrem]
          · intro f rs hf; rw [hrem] at hf; cases hf
        · obtain ⟨_, hch, hlr⟩ := hinv.rem hrem
          refine ⟨connected_of_chain hch, fun h0 => absurd h0 hrem, ?_⟩
          intro f rs hf
          rw [hf] at hch hlr
          simp only [chain, Bool.and_eq_true, beq_iff_eq] at hch
          refine ⟨by rw [hch.1, hls], ?_⟩
          rw [hf, hroute, getLast?_stop first.start (f :: rs) (by simp), hlr]

end Hive
