/-
  Proofs.Traverse — structural facts about `traverse` (C06) for every geometry oracle:
  the vehicle ends at the junction between the driven part and the remaining part, the remaining
  part is connected and ends where the route ended, the odometer increment is the sum of the
  driven links, nothing is driven only when the route is empty or closed (for a positive step).
-/
import Hive.Traverse
import Hive.Inv
import Proofs.Lists

namespace Hive

/-- consecutive links join, starting from cell `c` -/
def chain (c : Cell) : Route → Bool
  | [] => true
  | l :: ls => l.start == c && chain l.stop ls

/-- end of the last link (or `c` for the empty route) -/
def lastStop (c : Cell) : Route → Cell
  | [] => c
  | l :: ls => lastStop l.stop ls

theorem connected_iff_chain : ∀ (r : Route), connected r = true ↔ (match r with
    | [] => True
    | l :: ls => chain l.stop ls = true)
  | [] => by simp [connected]
  | [l] => by simp [connected, chain]
  | a :: b :: rest => by
    have ih := connected_iff_chain (b :: rest)
    simp only [connected, chain, Bool.and_eq_true, beq_iff_eq] at ih ⊢
    rw [ih]
    constructor
    · rintro ⟨h1, h2⟩; exact ⟨h1.symm, h2⟩
    · rintro ⟨h1, h2⟩; exact ⟨h1.symm, h2⟩

theorem chain_append {c : Cell} {r : Route} {l : Link} (h : chain c r = true) (hl : l.start = lastStop c r) :
    chain c (r ++ [l]) = true := by
  induction r generalizing c with
  | nil => simp [chain, lastStop] at hl ⊢; exact hl
  | cons x xs ih =>
    simp only [chain, Bool.and_eq_true, List.cons_append] at h ⊢
    exact ⟨h.1, ih h.2 hl⟩

theorem lastStop_append (c : Cell) (r : Route) (l : Link) : lastStop c (r ++ [l]) = l.stop := by
  induction r generalizing c with
  | nil => rfl
  | cons x xs ih => simp only [List.cons_append, lastStop]; exact ih _

theorem lastStop_append_route (c : Cell) (r r' : Route) : lastStop c (r ++ r') = lastStop (lastStop c r) r' := by
  induction r generalizing c with
  | nil => rfl
  | cons x xs ih => simp only [List.cons_append, lastStop]; exact ih _

theorem getLast?_stop (c : Cell) : ∀ (r : Route), r ≠ [] → r.getLast?.map (·.stop) = some (lastStop c r)
  | [], h => absurd rfl h
  | [l], _ => rfl
  | a :: b :: rest, _ => by
    have := getLast?_stop a.stop (b :: rest) (by simp)
    simp only [List.getLast?_cons_cons, lastStop] at this ⊢
    exact this

/-- the accumulator invariant of the `reduce` in `traverse`; `c0` is where the route starts,
    `done` the links consumed so far -/
structure TravInv (dt : Nat) (c0 : Cell) (done : Route) (acc : TravAcc) : Prop where
  noRem : acc.remaining = [] → lastStop c0 acc.experienced = lastStop c0 done
  rem : acc.remaining ≠ [] → acc.timeLeft = 0 ∧
    chain (lastStop c0 acc.experienced) acc.remaining = true ∧
    lastStop c0 acc.remaining = lastStop c0 done
  fresh : acc.experienced = [] → acc.timeLeft = dt
  km : acc.km = acc.experienced.foldl (fun a l => a + l.dist) 0

theorem foldl_dist_append (xs : Route) (l : Link) (z : Rat) :
    (xs ++ [l]).foldl (fun a l => a + l.dist) z = xs.foldl (fun a l => a + l.dist) z + l.dist := by
  simp [List.foldl_append]

theorem lastStop_ne_nil (c c' : Cell) : ∀ (r : Route), r ≠ [] → lastStop c r = lastStop c' r
  | [], h => absurd rfl h
  | _ :: _, _ => rfl

theorem traverseStep_inv {g : Geo} {dt : Nat} {c0 : Cell} {done : Route} {acc acc' : TravAcc} {l : Link}
    (hinv : TravInv dt c0 done acc) (hl : l.start = lastStop c0 done)
    (h : traverseStep g acc l = some acc') : TravInv dt c0 (done ++ [l]) acc' := by
  unfold traverseStep at h
  split at h
  · -- no time left: the link is kept untouched
    next ht =>
    cases h
    have ht' : acc.timeLeft = 0 := by simpa using ht
    refine ⟨?_, ?_, hinv.fresh, hinv.km⟩
    · intro hr; simp at hr
    · intro _
      refine ⟨ht', ?_, ?_⟩
      · by_cases hrem : acc.remaining = []
        · rw [hrem]
          simp only [List.nil_append, chain, Bool.and_eq_true, beq_iff_eq, and_true]
          rw [hl, hinv.noRem hrem]
        · obtain ⟨_, hc, hls⟩ := hinv.rem hrem
          apply chain_append hc
          rw [hl, ← hls]
          exact (lastStop_ne_nil _ _ _ hrem)
      · simp only
        rw [lastStop_append, lastStop_append]
  · next ht =>
    have hrem : acc.remaining = [] := by
      by_cases hr : acc.remaining = []
      · exact hr
      · exact absurd (hinv.rem hr).1 (by simpa using ht)
    split at h
    · cases h
    · next sp _ =>
      cases h
      unfold traverseUpTo
      simp only
      split
      · -- degenerate link: skipped
        next hdeg =>
        have hdeg' : l.start = l.stop := by simpa using hdeg
        simp only
        refine ⟨?_, ?_, hinv.fresh, hinv.km⟩
        · intro _
          rw [lastStop_append, ← hdeg', hl]
          exact hinv.noRem hrem
        · intro hr; exact absurd hrem hr
      · split
        · -- the whole link fits
          simp only
          refine ⟨?_, ?_, ?_, ?_⟩
          · intro _; rw [lastStop_append, lastStop_append]
          · intro hr; exact absurd hrem hr
          · intro he; simp at he
          · rw [foldl_dist_append, hinv.km]
        · -- the link is split
          simp only
          refine ⟨?_, ?_, ?_, ?_⟩
          · intro hr; rw [hrem] at hr; simp at hr
          · intro _
            rw [hrem]
            refine ⟨rfl, ?_, ?_⟩
            · simp [chain, lastStop_append]
            · simp [lastStop, lastStop_append]
          · intro he; simp at he
          · rw [foldl_dist_append, hinv.km]

theorem traverseFold_inv {g : Geo} {dt : Nat} {c0 : Cell} :
    ∀ {todo done : Route} {acc acc' : TravAcc}, TravInv dt c0 done acc →
      chain (lastStop c0 done) todo = true → traverseFold g acc todo = some acc' →
      TravInv dt c0 (done ++ todo) acc'
  | [], done, acc, acc', hinv, _, h => by
    simp only [traverseFold] at h; cases h; simpa using hinv
  | l :: ls, done, acc, acc', hinv, hch, h => by
    simp only [traverseFold] at h
    split at h
    · cases h
    · next acc1 hstep =>
      simp only [chain, Bool.and_eq_true, beq_iff_eq] at hch
      have i1 := traverseStep_inv hinv hch.1 hstep
      have := traverseFold_inv (todo := ls) (done := done ++ [l]) i1
        (by rw [lastStop_append]; exact hch.2) h
      simpa using this

end Hive

namespace Hive

/-- what the control properties need from a traversal function -/
structure TraverseSpec (trav : Route → Nat → Outcome Traversal) (dt : Nat) : Prop where
  /-- nothing is driven only when the route is empty or closed -/
  empty : ∀ route tr, connected route = true → trav route dt = .ok tr → tr.experienced = [] →
    route = [] ∨ ∃ first, route.head? = some first ∧ route.getLast?.map (·.stop) = some first.start
  /-- after driving, the vehicle (placed at the end of the last driven link) is at the junction
      with the remaining route, which is connected and ends where the route ended -/
  junction : ∀ route tr last, connected route = true → trav route dt = .ok tr →
    tr.experienced.getLast? = some last →
    connected tr.remaining = true ∧
    (tr.remaining = [] → route.getLast?.map (·.stop) = some last.stop) ∧
    (∀ f rest, tr.remaining = f :: rest → f.start = last.stop ∧
        tr.remaining.getLast?.map (·.stop) = route.getLast?.map (·.stop))

theorem travInv_init (dt : Nat) (c0 : Cell) : TravInv dt c0 [] { timeLeft := dt } :=
  ⟨fun _ => rfl, fun h => absurd rfl h, fun _ => rfl, rfl⟩

theorem lastStop_getLast {c : Cell} {r : Route} {last : Link} (h : r.getLast? = some last) :
    lastStop c r = last.stop := by
  have hne : r ≠ [] := by intro hn; rw [hn] at h; cases h
  have := getLast?_stop c r hne
  rw [h] at this
  simpa using this.symm

theorem connected_of_chain {c : Cell} : ∀ {r : Route}, chain c r = true → connected r = true
  | [], _ => rfl
  | l :: ls, h => by
    rw [connected_iff_chain]
    simp only [chain, Bool.and_eq_true] at h
    exact h.2

/-- what `traverse` returns when it folds (the route is neither empty nor closed) -/
theorem traverse_fold_result {g : Geo} {route : Route} {dt : Nat} {tr : Traversal} {first : Link} {rest : Route}
    (hr : route = first :: rest) (hcon : connected route = true) (h : traverse g route dt = .ok tr) :
    (tr = ⟨[], [], 0⟩ ∧ some first.start = route.getLast?.map (·.stop)) ∨
    ∃ acc, TravInv dt first.start route acc ∧ tr = ⟨acc.experienced, acc.remaining, acc.km⟩ := by
  subst hr
  simp only [traverse] at h
  split at h
  · next hclosed => cases h; exact Or.inl ⟨rfl, by simpa using hclosed⟩
  · split at h
    · cases h
    · next acc hfold =>
      cases h
      right
      refine ⟨acc, ?_, rfl⟩
      have hch : chain (lastStop first.start []) (first :: rest) = true := by
        rw [connected_iff_chain] at hcon
        simp only [chain, lastStop, beq_self_eq_true, Bool.true_and]
        exact hcon
      have := traverseFold_inv (travInv_init dt first.start) hch hfold
      simpa using this

theorem traverse_spec (g : Geo) {dt : Nat} (hdt : 0 < dt) : TraverseSpec (traverse g) dt where
  empty := by
    intro route tr hcon h hemp
    cases route with
    | nil => exact Or.inl rfl
    | cons first rest =>
      right
      refine ⟨first, rfl, ?_⟩
      rcases traverse_fold_result rfl hcon h with ⟨_, hclosed⟩ | ⟨acc, hinv, rfl⟩
      · exact hclosed.symm
      · simp only at hemp
        -- nothing driven and a positive step: time is untouched, so nothing is left over either,
        -- and the (unmoved) position is the end of the route
        have ht : acc.timeLeft = dt := hinv.fresh hemp
        have hrem : acc.remaining = [] := by
          by_cases hr : acc.remaining = []
          · exact hr
          · have := (hinv.rem hr).1
            rw [ht] at this
            omega
        have := hinv.noRem hrem
        rw [hemp] at this
        simp only [lastStop] at this
        have h2 := getLast?_stop first.start (first :: rest) (by simp)
        rw [h2]
        simp only [lastStop] at this ⊢
        rw [← this]
  junction := by
    intro route tr last hcon h hlast
    cases route with
    | nil =>
      simp only [traverse] at h
      cases h
      simp at hlast
    | cons first rest =>
      rcases traverse_fold_result rfl hcon h with ⟨rfl, _⟩ | ⟨acc, hinv, rfl⟩
      · simp at hlast
      · simp only at hlast ⊢
        have hls : lastStop first.start acc.experienced = last.stop := lastStop_getLast hlast
        have hroute := getLast?_stop first.start (first :: rest) (by simp)
        by_cases hrem : acc.remaining = []
        · refine ⟨by rw [hrem]; rfl, ?_, ?_⟩
          · intro _
            rw [hroute, ← hls, hinv.noRem hrem]
          · intro f rs hf; rw [hrem] at hf; cases hf
        · obtain ⟨_, hch, hlr⟩ := hinv.rem hrem
          refine ⟨connected_of_chain hch, fun h0 => absurd h0 hrem, ?_⟩
          intro f rs hf
          rw [hf] at hch hlr
          simp only [chain, Bool.and_eq_true, beq_iff_eq] at hch
          refine ⟨by rw [hch.1, hls], ?_⟩
          rw [hf, hroute, getLast?_stop first.start (f :: rs) (by simp), hlr]

end Hive

namespace Hive

/-! ### the driven part followed by the remaining part is the original route -/

/-- identity and end points of a link (distance and speed are re-derived on a split) -/
def Link.geom (l : Link) : LinkId × Cell × Cell := (l.id, l.start, l.stop)

def Link.nd (l : Link) : Bool := l.start != l.stop

/-- `done = pre ++ post`: the links of `pre` were driven (degenerate ones dropped), those of `post`
    are kept untouched; at most the last link of `pre` is split at a cell `mid` -/
def TravShape (done : Route) (acc : TravAcc) : Prop :=
  ∃ pre post, done = pre ++ post ∧
    ((acc.remaining = post ∧ acc.experienced.map Link.geom = (pre.filter Link.nd).map Link.geom ∧
        (post ≠ [] → acc.timeLeft = 0)) ∨
     (∃ pre' l mid, pre = pre' ++ [l] ∧ l.nd = true ∧
        acc.experienced.map Link.geom = (pre'.filter Link.nd).map Link.geom ++ [(l.id, l.start, mid)] ∧
        acc.remaining.map Link.geom = (l.id, mid, l.stop) :: post.map Link.geom ∧ acc.timeLeft = 0))

theorem traverseStep_shape {g : Geo} {done : Route} {acc acc' : TravAcc} {l : Link}
    (hs : TravShape done acc) (h : traverseStep g acc l = some acc') : TravShape (done ++ [l]) acc' := by
  obtain ⟨pre, post, hd, hcase⟩ := hs
  unfold traverseStep at h
  split at h
  · next ht =>
    cases h
    have ht' : acc.timeLeft = 0 := by simpa using ht
    refine ⟨pre, post ++ [l], by rw [hd, List.append_assoc], ?_⟩
    rcases hcase with ⟨h1, h2, _⟩ | ⟨pre', l0, mid, h1, h2, h3, h4, h5⟩
    · exact Or.inl ⟨by simp [h1], h2, fun _ => ht'⟩
    · exact Or.inr ⟨pre', l0, mid, h1, h2, h3, by simp [h4], h5⟩
  · next ht =>
    have ht' : acc.timeLeft ≠ 0 := by simpa using ht
    -- still driving: nothing is pending
    obtain ⟨hrem, hexp, hpost⟩ : acc.remaining = [] ∧
        acc.experienced.map Link.geom = (pre.filter Link.nd).map Link.geom ∧ post = [] := by
      rcases hcase with ⟨h1, h2, h3⟩ | ⟨_, _, _, _, _, _, _, h5⟩
      · have : post = [] := by
          by_cases hp : post = []
          · exact hp
          · exact absurd (h3 hp) ht'
        exact ⟨by rw [h1, this], h2, this⟩
      · exact absurd h5 ht'
    subst hpost
    simp only [List.append_nil] at hd
    subst hd
    split at h
    · cases h
    · next sp _ =>
      cases h
      unfold traverseUpTo
      simp only
      split
      · next hdeg =>
        refine ⟨done ++ [l], [], by simp, Or.inl ⟨hrem, ?_, fun h => absurd rfl h⟩⟩
        have : l.nd = false := by simpa [Link.nd] using hdeg
        simp [List.filter_append, this, hexp]
      · next hnd =>
        have hnd' : l.nd = true := by simpa [Link.nd] using hnd
        split
        · refine ⟨done ++ [l], [], by simp, Or.inl ⟨hrem, ?_, fun h => absurd rfl h⟩⟩
          simp [List.filter_append, hnd', hexp, Link.geom]
        · refine ⟨done ++ [l], [], by simp, Or.inr ⟨done, l, g.pointAlong { l with speed := sp } acc.timeLeft.toNat,
            rfl, hnd', ?_, ?_, rfl⟩⟩
          · simp [hexp, Link.geom]
          · simp [hrem, Link.geom]

theorem traverseFold_shape {g : Geo} :
    ∀ {todo done : Route} {acc acc' : TravAcc}, TravShape done acc →
      traverseFold g acc todo = some acc' → TravShape (done ++ todo) acc'
  | [], done, acc, acc', hs, h => by simp only [traverseFold] at h; cases h; simpa using hs
  | l :: ls, done, acc, acc', hs, h => by
    simp only [traverseFold] at h
    split at h
    · cases h
    · next acc1 hstep =>
      have := traverseFold_shape (todo := ls) (traverseStep_shape hs hstep) h
      simpa using this

/-- **route preservation** for the concrete `traverse`: when something is driven, the route is
    `pre ++ post` with `post` kept untouched, the non-degenerate links of `pre` driven in order,
    and at most the last of them split in two parts with the same id that meet at one cell -/
theorem traverse_shape {g : Geo} {route : Route} {dt : Nat} {tr : Traversal}
    (h : traverse g route dt = .ok tr) (hne : tr.experienced ≠ []) :
    ∃ acc, TravShape route acc ∧ tr.experienced = acc.experienced ∧ tr.remaining = acc.remaining := by
  cases route with
  | nil => simp only [traverse] at h; cases h; exact absurd rfl hne
  | cons first rest =>
    simp only [traverse] at h
    split at h
    · cases h; exact absurd rfl hne
    · split at h
      · cases h
      · next acc hfold =>
        cases h
        have h0 : TravShape [] { timeLeft := dt } :=
          ⟨[], [], rfl, Or.inl ⟨rfl, rfl, fun h => absurd rfl h⟩⟩
        have := traverseFold_shape h0 hfold
        exact ⟨acc, by simpa using this, rfl, rfl⟩

/-- the odometer increment booked by `move` is the sum of the driven links' lengths -/
theorem traverse_km {g : Geo} {route : Route} {dt : Nat} {tr : Traversal}
    (h : traverse g route dt = .ok tr) : tr.km = tr.experienced.foldl (fun a l => a + l.dist) 0 := by
  cases route with
  | nil => simp only [traverse] at h; cases h; rfl
  | cons first rest =>
    simp only [traverse] at h
    split at h
    · cases h; rfl
    · split at h
      · cases h
      · next acc hfold =>
        cases h
        -- reuse the accumulator invariant without the connectivity part: `km` only
        have : ∀ {todo : Route} {a a' : TravAcc}, a.km = a.experienced.foldl (fun x l => x + l.dist) 0 →
            traverseFold g a todo = some a' → a'.km = a'.experienced.foldl (fun x l => x + l.dist) 0 := by
          intro todo
          induction todo with
          | nil => intro a a' hk hf; simp only [traverseFold] at hf; cases hf; exact hk
          | cons l ls ih =>
            intro a a' hk hf
            simp only [traverseFold] at hf
            split at hf
            · cases hf
            · next a1 hstep =>
              refine ih ?_ hf
              unfold traverseStep at hstep
              split at hstep
              · cases hstep; exact hk
              · split at hstep
                · cases hstep
                · next sp _ =>
                  cases hstep
                  by_cases hdeg : (l.start == l.stop) = true
                  · simp only [traverseUpTo, hdeg, if_true]; exact hk
                  · by_cases hfit : ({ l with speed := sp } : Link).travelTime ≤ a.timeLeft
                    · simp only [traverseUpTo, hdeg, hfit, if_true, if_false, Bool.false_eq_true]
                      rw [foldl_dist_append, hk]
                    · simp only [traverseUpTo, hdeg, hfit, if_false, Bool.false_eq_true]
                      rw [foldl_dist_append, hk]
        exact this rfl hfold

end Hive

namespace Hive

/-! ### time budget and progress -/

def sumTT (r : Route) : Int := r.foldl (fun a l => a + l.travelTime) 0

theorem sumTT_append (r : Route) (l : Link) : sumTT (r ++ [l]) = sumTT r + l.travelTime := by
  simp [sumTT, List.foldl_append]

/-- the fully driven links consumed their (whole-second) travel times out of the step's budget;
    at most one further link was driven partially, and only after which nothing else is driven -/
def TravTime (dt : Nat) (acc : TravAcc) : Prop :=
  ∃ fulls : Route, ∃ part : Option Link, acc.experienced = fulls ++ part.toList ∧
    sumTT fulls + acc.timeLeft ≤ dt ∧ (part.isSome → acc.timeLeft = 0) ∧ 0 ≤ acc.timeLeft

theorem traverseStep_time {g : Geo} {dt : Nat} {acc acc' : TravAcc} {l : Link}
    (hs : TravTime dt acc) (h : traverseStep g acc l = some acc') : TravTime dt acc' := by
  obtain ⟨fulls, part, he, hsum, hpart, hnn⟩ := hs
  unfold traverseStep at h
  split at h
  · cases h; exact ⟨fulls, part, he, hsum, hpart, hnn⟩
  · next ht =>
    have ht' : acc.timeLeft ≠ 0 := by simpa using ht
    have hp : part = none := by
      cases part with
      | none => rfl
      | some p => exact absurd (hpart rfl) ht'
    subst hp
    simp only [Option.toList_none, List.append_nil] at he
    split at h
    · cases h
    · next sp _ =>
      cases h
      by_cases hdeg : (l.start == l.stop) = true
      · simp only [traverseUpTo, hdeg, if_true]
        exact ⟨fulls, none, by simpa using he, hsum, (fun h => by cases h), hnn⟩
      · by_cases hfit : ({ l with speed := sp } : Link).travelTime ≤ acc.timeLeft
        · simp only [traverseUpTo, hdeg, hfit, if_true, if_false, Bool.false_eq_true]
          refine ⟨fulls ++ [{ l with speed := sp }], none, by simp [he], ?_, (fun h => by cases h), ?_⟩
          · rw [sumTT_append]
            simp only
            omega
          · simp only
            omega
        · simp only [traverseUpTo, hdeg, hfit, if_false, Bool.false_eq_true]
          refine ⟨fulls, some _, by rw [he]; rfl, ?_, (fun _ => rfl), ?_⟩
          · simp only
            omega
          · simp only
            omega

theorem traverseFold_time {g : Geo} {dt : Nat} :
    ∀ {todo : Route} {acc acc' : TravAcc}, TravTime dt acc → traverseFold g acc todo = some acc' → TravTime dt acc'
  | [], acc, acc', hs, h => by simp only [traverseFold] at h; cases h; exact hs
  | l :: ls, acc, acc', hs, h => by
    simp only [traverseFold] at h
    split at h
    · cases h
    · next acc1 hstep => exact traverseFold_time (traverseStep_time hs hstep) h

/-- **time budget**: the fully driven links' travel times sum to at most the step length -/
theorem traverse_time_budget {g : Geo} {route : Route} {dt : Nat} {tr : Traversal}
    (h : traverse g route dt = .ok tr) :
    ∃ fulls : Route, ∃ part : Option Link, tr.experienced = fulls ++ part.toList ∧ sumTT fulls ≤ dt := by
  cases route with
  | nil => simp only [traverse] at h; cases h; exact ⟨[], none, rfl, by simp [sumTT]⟩
  | cons first rest =>
    simp only [traverse] at h
    split at h
    · cases h; exact ⟨[], none, rfl, by simp [sumTT]⟩
    · split at h
      · cases h
      · next acc hfold =>
        cases h
        have h0 : TravTime dt { timeLeft := dt } :=
          ⟨[], none, rfl, by simp [sumTT], (fun h => by cases h), by simp⟩
        obtain ⟨fulls, part, he, hsum, _, hnn⟩ := traverseFold_time h0 hfold
        exact ⟨fulls, part, he, by omega⟩

theorem traverseStep_exp_mono {g : Geo} {acc acc' : TravAcc} {l : Link}
    (hne : acc.experienced ≠ []) (h : traverseStep g acc l = some acc') : acc'.experienced ≠ [] := by
  unfold traverseStep at h
  split at h
  · cases h; exact hne
  · split at h
    · cases h
    · cases h
      simp only
      split
      · simp
      · exact hne

theorem traverseFold_exp_mono {g : Geo} :
    ∀ {todo : Route} {acc acc' : TravAcc}, acc.experienced ≠ [] → traverseFold g acc todo = some acc' →
      acc'.experienced ≠ []
  | [], acc, acc', hne, h => by simp only [traverseFold] at h; cases h; exact hne
  | l :: ls, acc, acc', hne, h => by
    simp only [traverseFold] at h
    split at h
    · cases h
    · next acc1 hstep => exact traverseFold_exp_mono (traverseStep_exp_mono hne hstep) h

/-- **progress**: an open route whose first link is not degenerate is driven (at least partly)
    in every step of positive length -/
theorem traverse_progress {g : Geo} {first : Link} {rest : Route} {dt : Nat} {tr : Traversal}
    (hdt : 0 < dt) (hnd : first.nd = true)
    (hopen : some first.start ≠ (first :: rest).getLast?.map (·.stop))
    (h : traverse g (first :: rest) dt = .ok tr) : tr.experienced ≠ [] := by
  simp only [traverse] at h
  split at h
  · next hc => exact absurd (by simpa using hc) hopen
  · split at h
    · cases h
    · next acc hfold =>
      cases h
      simp only [traverseFold] at hfold
      split at hfold
      · cases hfold
      · next acc1 hstep =>
        refine traverseFold_exp_mono ?_ hfold
        have hz : ((dt : Int) == 0) = false := by simp; omega
        simp only [traverseStep, hz, Bool.false_eq_true, if_false] at hstep
        split at hstep
        · cases hstep
        · next sp _ =>
          cases hstep
          have hdeg : (first.start == first.stop) = false := by simpa [Link.nd] using hnd
          by_cases hfit : ({ first with speed := sp } : Link).travelTime ≤ (dt : Int)
          · simp [traverseUpTo, hdeg, hfit]
          · simp [traverseUpTo, hdeg, hfit]

end Hive
