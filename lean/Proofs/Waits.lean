/-
  Proofs.Waits — every pickup of a step reports a waiting time strictly between zero and the
  cancellation timeout (C19, last clause), per step of the cycle.

  `FreshL T s`: every waiting request has departed and is before its deadline - what the pre-step
  phase (price update, admission, cancellation; `preStep_fresh`) establishes and every operation
  of the control model keeps while the clock stands (`Frame` keeps a request's departure time).
  `Waits T`: the events filed report no pickup with a waiting time outside `(0, T)` - a fourth
  walk through the control model, generated from the `Right` walk of `Proofs.Books`; only
  `pick_up_trip` files a pickup, with `(now − departure) mod 86400`.
-/
import Proofs.Books
import Properties.C11
import Proofs.Cosmetic
import Mathlib.Data.List.TakeWhile

namespace Hive
namespace Waits
open Books
variable {env : Env} {T : Int}

/-- every waiting request has departed, and its cancellation deadline has not passed -/
def FreshL (T : Int) (s : Sim) : Prop :=
  ∀ i r, s.request? i = some r → r.departure < s.time ∧ s.time < r.departure + T

/-- a pickup event with a waiting time outside `(0, T)` -/
def bad (T : Int) : Event → Prop
  | .pickup _ _ _ wait => ¬ (0 < wait ∧ wait < T)
  | _ => False

/-- the events filed between `w` and `w'` report no pickup with a waiting time outside `(0, T)` -/
def Waits (T : Int) (w w' : World) : Prop :=
  ∃ evs, w'.log = w.log ++ evs ∧ ∀ e ∈ evs, ¬ bad T e

variable (T) in
theorem Waits.refl (w : World) : Waits T w w := ⟨[], by simp, fun e he => by cases he⟩

theorem Waits.trans {a b c : World} (h1 : Waits T a b) (h2 : Waits T b c) : Waits T a c := by
  obtain ⟨e1, l1, b1⟩ := h1
  obtain ⟨e2, l2, b2⟩ := h2
  refine ⟨e1 ++ e2, by rw [l2, l1, List.append_assoc], ?_⟩
  intro e he
  rcases List.mem_append.mp he with h | h
  · exact b1 e h
  · exact b2 e h

variable (T) in
theorem Waits.of_quiet {w w2 : World} (_hq : Quiet w.sim w2.sim) (hl : w2.log = w.log) : Waits T w w2 :=
  ⟨[], by rw [hl]; simp, fun e he => by cases he⟩

variable (T) in
theorem waits_plain {w w2 : World} {evs : List Event} (hl : w2.log = w.log ++ evs)
    (hnc : ∀ e ∈ evs, ∀ v r f wt, e ≠ .pickup v r f wt)
    (_hs : ∀ i, (w2.sim.station? i).map stnMoney = (w.sim.station? i).map stnMoney) : Waits T w w2 := by
  refine ⟨evs, hl, ?_⟩
  intro e he hb
  cases e <;> first | exact hb | exact hnc _ he _ _ _ _ rfl

theorem freshL_frame {v : VehicleId} {s s' : Sim} (hf : Frame v s s') (h : FreshL T s) : FreshL T s' := by
  intro i r' hr'
  obtain ⟨r, hr, he⟩ := hf.req i r' hr'
  have hd : r'.departure = r.departure := by
    have := congrArg (fun (p : Pos × Pos × Time × Nat × Membership × Bool × Rat) => p.2.2.1) he
    simpa [reqStatic] using this
  rw [hd, hf.time]
  exact h i r hr

theorem pickUpTrip_waits {w w1 : World} {v : VehicleId} {rid : RequestId} (hT : T ≤ 86400) (hfr : FreshL T w.sim)
    (h : pickUpTrip env w v rid = .ok w1) : Waits T w w1 := by
  unfold pickUpTrip at h
  split at h
  · cases h
  · cases h
  · next veh req hveh hreq =>
    simp only [Outcome.bind_eq, Outcome.bind_eq_ok, Outcome.pure_eq] at h
    obtain ⟨s1, h1, s2, h2, h3⟩ := h
    cases h3
    obtain ⟨_, _, _, _, _, ht1, _⟩ := Sim.modifyVehicle_fields h1
    obtain ⟨hd, hdl⟩ := hfr rid req hreq
    refine ⟨[_], rfl, ?_⟩
    intro e he
    simp only [List.mem_singleton] at he
    subst he
    intro hb
    apply hb
    rw [ht1]
    have h0 : (0 : Int) ≤ w.sim.time - req.departure := by linarith
    have hlt : (w.sim.time : Int) - req.departure < 86400 := by linarith
    rw [Int.emod_eq_of_lt h0 hlt]
    exact ⟨by linarith, by linarith⟩

theorem vehicleOnly_waits {w : World} {s : Sim} {veh' : Vehicle} (h : w.sim.modifyVehicle env veh' = .ok s) :
    Waits T w { w with sim := s } :=
  waits_plain T (evs := []) (by simp) (fun e he => by cases he) (fun i => by rw [vehicleOnly_stations h i])



theorem dropOffTrip_waits {w w2 : World} {v : VehicleId} {req : Request}
    (h : dropOffTrip w v req = .ok w2) : Waits T w w2 := by
  unfold dropOffTrip at h
  split at h
  · cases h
  · split at h
    · cases h
    · cases h
      refine waits_plain T (evs := [Event.dropoff v req.id]) rfl ?_ (fun _ => rfl)
      intro e he; simp only [List.mem_singleton] at he; subst he; intro _ _ _ _ hh; cases hh



theorem enter_waits {w w2 : World} {v : VehicleId} {next : Act} (hT : T ≤ 86400) (hfr : FreshL T w.sim)
    (h : enter env w v next = .ok w2) : Waits T w w2 := by
  have q : ∀ {s2 : Sim}, Quiet w.sim s2 → Waits T w { w with sim := s2 } := fun hq => Waits.of_quiet T hq rfl
  cases next <;> simp only [enter] at h
  case idle d =>
    simp only [Outcome.bind_eq, Outcome.bind_eq_ok, Outcome.pure_eq] at h
    obtain ⟨s2, h1, h2⟩ := h
    cases h2; exact q (applyAct_quiet h1)
  case outOfService =>
    simp only [Outcome.bind_eq, Outcome.bind_eq_ok, Outcome.pure_eq] at h
    obtain ⟨s2, h1, h2⟩ := h
    cases h2; exact q (applyAct_quiet h1)
  case repositioning route =>
    split at h
    · cases h
    · split at h
      · cases h
      · simp only [Outcome.bind_eq, Outcome.bind_eq_ok, Outcome.pure_eq] at h
        obtain ⟨s2, h1, h2⟩ := h
        cases h2; exact q (applyAct_quiet h1)
  case dispatchBase b route =>
    split at h
    · cases h
    · cases h
    · split at h
      · cases h
      · split at h
        · cases h
        · simp only [Outcome.bind_eq, Outcome.bind_eq_ok, Outcome.pure_eq] at h
          obtain ⟨s2, h1, h2⟩ := h
          cases h2; exact q (applyAct_quiet h1)
  case dispatchTrip rid route =>
    split at h
    · cases h
    · split at h
      · cases h
      · next req hreq =>
        split at h
        · cases h
        · split at h
          · cases h
          · simp only [Outcome.bind_eq, Outcome.bind_eq_ok, Outcome.pure_eq] at h
            obtain ⟨s1, h0, s2, h1, h2⟩ := h
            cases h2
            exact q ((modifyRequest_quiet h0).trans (applyAct_quiet h1))
  case servicingPooling => cases h
  case dispatchPooling => cases h
  case servicingTrip sreq dep route =>
    split at h
    · cases h
    · split at h
      · cases h
      · split at h
        · cases h
        · split at h
          · cases h
          · split at h
            · cases h
            · split at h
              · cases h
              · simp only [Outcome.bind_eq, Outcome.bind_eq_ok, Outcome.pure_eq] at h
                obtain ⟨w1, h0, s2, h1, h2⟩ := h
                cases h2
                exact (pickUpTrip_waits hT hfr h0).trans (Waits.of_quiet T (w := w1) (w2 := { w1 with sim := s2 }) (applyAct_quiet h1) rfl)
  case reserveBase b =>
    split at h
    · cases h
    · cases h
    · next veh base hveh hbase =>
      split at h
      · cases h
      · split at h
        · cases h
        · split at h
          · cases h
          · next base' hco =>
            simp only [Outcome.bind_eq, Outcome.bind_eq_ok, Outcome.pure_eq] at h
            obtain ⟨s1, h0, s2, h1, h2⟩ := h
            cases h2
            unfold Base.checkout at hco
            split at hco
            · cases hco
            · cases hco
              exact q ((modifyBase_quiet h0).trans (applyAct_quiet h1))
  case chargingStation sid cid =>
    split at h
    · cases h
    · cases h
    · next veh st hveh hst =>
      split at h
      · cases h
      · split at h
        · cases h
        · split at h
          · cases h
          · split at h
            · cases h
            · split at h
              · cases h
              · simp only [Outcome.bind_eq, Outcome.bind_eq_ok, Outcome.pure_eq] at h
                obtain ⟨st', hco, s1, h0, s2, h1, h2⟩ := h
                cases h2
                exact q ((station_step_quiet hst hco h0).trans (applyAct_quiet h1))
  case dispatchStation sid cid route =>
    split at h
    · cases h
    · cases h
    · next veh st hveh hst =>
      split at h
      · split at h
        · cases h
        · split at h
          · cases h
          · split at h
            · cases h
            · split at h
              · cases h
              · simp only [Outcome.bind_eq, Outcome.bind_eq_ok, Outcome.pure_eq] at h
                obtain ⟨st', hco, s1, h0, s2, h1, h2⟩ := h
                cases h2
                exact q ((station_step_quiet hst hco h0).trans (applyAct_quiet h1))
      · split at h
        · cases h
        · split at h
          · cases h
          · simp only [Outcome.bind_eq, Outcome.bind_eq_ok, Outcome.pure_eq] at h
            obtain ⟨s2, h1, h2⟩ := h
            cases h2; exact q (applyAct_quiet h1)
  case chargeQueueing sid cid t =>
    split at h
    · cases h
    · cases h
    · next veh st hveh hst =>
      split at h
      · cases h
      · split at h
        · cases h
        · split at h
          · cases h
          · split at h
            · cases h
            · simp only [Outcome.bind_eq, Outcome.bind_eq_ok, Outcome.pure_eq] at h
              obtain ⟨st', henq, s1, h0, s2, h1, h2⟩ := h
              cases h2
              exact q ((station_step_quiet hst henq h0).trans (applyAct_quiet h1))
  case chargingBase b cid =>
    split at h
    · cases h
    · cases h
    · next veh base hveh hbase =>
      split at h
      · cases h
      · next sid hsid =>
        split at h
        · cases h
        · next st hst =>
          split at h
          · cases h
          · split at h
            · cases h
            · split at h
              · cases h
              · split at h
                · cases h
                · split at h
                  · cases h
                  · next base' hcob =>
                    split at h
                    · cases h
                    · split at h
                      · cases h
                      · simp only [Outcome.bind_eq, Outcome.bind_eq_ok, Outcome.pure_eq] at h
                        obtain ⟨st', hco, s1, h0, s2, h1, s3, h2, h3⟩ := h
                        cases h3
                        unfold Base.checkout at hcob
                        split at hcob
                        · cases hcob
                        · cases hcob
                          obtain ⟨_, _, hs1, _⟩ := Sim.modifyBase_fields h0
                          have hst1 : s1.station? sid = some st := by
                            unfold Sim.station? at *; rw [hs1]; exact hst
                          exact q (((modifyBase_quiet h0).trans (station_step_quiet hst1 hco h1)).trans (applyAct_quiet h2))





theorem transition_waits {w w2 : World} {v : VehicleId} {prev next : Act} (hT : T ≤ 86400) (hwf : w.sim.WF)
    (hfr : FreshL T w.sim) (h : transition env w v prev next = .ok w2) : Waits T w w2 := by
  unfold transition at h
  simp only [Outcome.bind_eq, Outcome.bind_eq_ok] at h
  obtain ⟨s1, h1, h2⟩ := h
  exact (Waits.of_quiet T (w := w) (w2 := { w with sim := s1 }) (exit_quiet h1) rfl).trans
    (enter_waits hT (freshL_frame (exit_frame' hwf h1) hfr) h2)

theorem modifyVehicle_waits {w : World} {s : Sim} {veh' old : Vehicle} (h : w.sim.modifyVehicle env veh' = .ok s)
    (hold : w.sim.vehicle? veh'.id = some old) (hm : vehMoney veh' = vehMoney old) : Waits T w { w with sim := s } :=
  Waits.of_quiet T (modifyVehicle_quiet h hold hm) rfl



theorem move_waits {w w2 : World} {v : VehicleId} (h : move env w v = .ok w2) : Waits T w w2 := by
  unfold move at h
  split at h
  · cases h
  · next veh hveh =>
    have hid : veh.id = v := (vehicle?_some hveh).2
    split at h
    · cases h
    · split at h
      · cases h
      · next route _ =>
        simp only [Outcome.bind_eq, Outcome.bind_eq_ok, Outcome.pure_eq] at h
        obtain ⟨tr, htr, h⟩ := h
        split at h
        · simp only [Outcome.bind_eq, Outcome.bind_eq_ok, Outcome.pure_eq] at h
          obtain ⟨s2, h1, h2⟩ := h
          cases h2
          exact modifyVehicle_waits h1 (old := veh) (by simp only; rw [hid]; exact hveh) rfl
        · split at h
          · simp only [Outcome.bind_eq, Outcome.bind_eq_ok, Outcome.pure_eq] at h
            obtain ⟨s2, h1, h2⟩ := h
            cases h2
            refine Waits.of_quiet T ?_ rfl
            split at h1
            · next s' hexit => exact (exit_quiet hexit).trans (applyAct_quiet h1)
            · exact applyAct_quiet h1
          · split at h
            · cases h
            · next last _ =>
              simp only [Outcome.bind_eq, Outcome.bind_eq_ok, Outcome.pure_eq] at h
              obtain ⟨s2, h1, h2⟩ := h
              cases h2
              obtain ⟨_, _, hs1, _⟩ := Sim.modifyVehicle_fields h1
              refine waits_plain T (evs := [Event.move v tr.km ((env.consume veh tr.experienced).level - veh.en.level)]) rfl ?_ ?_
              · intro e he; simp only [List.mem_singleton] at he; subst he; intro _ _ _ _ hh; cases hh
              · intro i
                have : s2.station? i = w.sim.station? i := by simp [Sim.station?, hs1]
                simp only
                rw [this]



theorem charge_waits {w w2 : World} {v : VehicleId} {sid : StationId} {cid : ChargerId}
    (h : charge env w v sid cid = .ok w2) : Waits T w w2 := by
  unfold charge at h
  split at h
  · cases h
  · split at h
    · cases h
    · split at h
      · cases h
      · split at h
        · cases h
        · split at h
          · cases h
          · simp only [Outcome.bind_eq, Outcome.bind_eq_ok, Outcome.pure_eq] at h
            obtain ⟨s1, h1, s2, h2, h3⟩ := h
            cases h3
            refine ⟨[_], rfl, ?_⟩
            intro e he
            simp only [List.mem_singleton] at he
            subst he
            exact id

theorem performUpdate_waits {w w2 : World}  {v : VehicleId} {a : Act}
    (h : performUpdate env w v a = .ok w2) : Waits T w w2 := by
  cases a <;> simp only [performUpdate] at h
  case idle d =>
    split at h
    · cases h
    · next veh hveh =>
      split at h
      · cases h
      · simp only [Outcome.bind_eq, Outcome.bind_eq_ok, Outcome.pure_eq] at h
        obtain ⟨s2, h1, h2⟩ := h
        cases h2
        exact vehicleOnly_waits h1
  case outOfService | reserveBase => cases h; exact Waits.refl T _
  case repositioning | dispatchTrip | dispatchStation | dispatchBase => exact move_waits h
  case servicingTrip req dep r =>
    simp only [Outcome.bind_eq, Outcome.bind_eq_ok, Outcome.pure_eq] at h
    obtain ⟨w1, h1, h2⟩ := h
    have s1 : Waits T w w1 := move_waits h1
    split at h2
    · cases h2
    · split at h2
      · cases h2; exact s1
      · split at h2
        · exact s1.trans (dropOffTrip_waits h2)
        · cases h2; exact s1
      · cases h2; exact s1
  case chargingStation sid cid => exact charge_waits h
  case chargingBase b cid =>
    split at h
    · cases h
    · exact charge_waits h
  case chargeQueueing sid cid t =>
    split at h
    · cases h
    · next veh hveh =>
      split at h
      · cases h
      · simp only [Outcome.bind_eq, Outcome.bind_eq_ok, Outcome.pure_eq] at h
        obtain ⟨s2, h1, h2⟩ := h
        cases h2
        exact vehicleOnly_waits h1
  case servicingPooling | dispatchPooling => cases h




theorem defaultUpdate_waits {w w2 : World} (hT : T ≤ 86400) (hwf : w.sim.WF) (hfr : FreshL T w.sim)
    {v : VehicleId} {a : Act} (h : defaultUpdate env w v a = .ok w2) : Waits T w w2 := by
  unfold defaultUpdate at h
  split at h
  · simp only [Outcome.bind_eq, Outcome.bind_eq_ok] at h
    obtain ⟨next, _, w1, htr, h3⟩ := h
    split at h3
    · cases h3
    · exact (transition_waits hT hwf hfr htr).trans (performUpdate_waits h3)
  · exact performUpdate_waits h

/-! ### the phases between the pre-step phase and the tick -/

/-- what happens in a step after the pre-step phase and before the clock advances: instruction
    lists (any), vehicle updates, driver phases, and - more than the cycle does - further price
    updates and removals -/
inductive MidPhase (env : Env) : World → World → Prop where
  | instructions (w : World) (is : List Instr) : MidPhase env w (applyInstructions env w is)
  | updates (w : World) : MidPhase env w (vehicleUpdates env w)
  | cancel {w : World} {s' : Sim} {i : RequestId} : w.sim.removeRequest env i = .ok s' →
      MidPhase env w { sim := s', log := w.log ++ [Event.cancelRequest i] }
  | prices (w : World) (names : Nat → List StationId) (rd : Timed.Reader Timed.PriceRow) :
      MidPhase env w { w with sim := (Timed.priceUpdate env names rd w.sim).1 }
  | drivers (w : World) (tbl : List Shift.Entry) : MidPhase env w (Shift.driverUpdates env tbl w)

inductive MidReach (env : Env) (w0 : World) : World → Prop where
  | init : MidReach env w0 w0
  | step {w w' : World} : MidReach env w0 w → MidPhase env w w' → MidReach env w0 w'

structure KW (T : Int) (w0 w : World) : Prop where
  wf : w.sim.WF
  fresh : FreshL T w.sim
  waits : Waits T w0 w

theorem kw_update (hT : T ≤ 86400) {w0 w w2 : World} {v : VehicleId} {a : Act} (hk : KW T w0 w)
    (h : defaultUpdate env w v a = .ok w2) : KW T w0 w2 := by
  obtain ⟨hfr, hid⟩ := defaultUpdate_frame hk.wf h
  exact ⟨hid.wf hk.wf, freshL_frame hfr hk.fresh, hk.waits.trans (defaultUpdate_waits hT hk.wf hk.fresh h)⟩

theorem kw_transition (hT : T ≤ 86400) {w0 w w2 : World} {v : VehicleId} {prev next : Act} (hk : KW T w0 w)
    (h : transition env w v prev next = .ok w2) : KW T w0 w2 :=
  ⟨(transition_sameIds hk.wf h).wf hk.wf, freshL_frame (transition_frame hk.wf h) hk.fresh,
    hk.waits.trans (transition_waits hT hk.wf hk.fresh h)⟩

theorem freshL_requests {s s' : Sim} (hr : s'.requests = s.requests) (ht : s'.time = s.time) (h : FreshL T s) : FreshL T s' := by
  intro i r hr'
  rw [ht]
  exact h i r (by simpa [Sim.request?, hr] using hr')

theorem kw_applied {w0 w : World} (a : List (VehicleId × Instr)) (hk : KW T w0 w) :
    KW T w0 { w with sim := { w.sim with applied := a } } :=
  ⟨wf_applied a hk.wf, freshL_requests rfl rfl hk.fresh, hk.waits.trans (Waits.of_quiet T (Quiet.of_fields rfl rfl) rfl)⟩

theorem applyPlans_kw (hT : T ≤ 86400) {w0 : World} : ∀ (ps : List (Instr × VehicleId × Act × Act)) {w : World}, KW T w0 w →
    KW T w0 (applyPlans env w ps)
  | [], _, hk => hk
  | (i, v, prev, next) :: ps, w, hk => by
    simp only [applyPlans]
    split
    · next w' htr => exact applyPlans_kw hT ps (kw_applied _ (kw_transition hT hk htr))
    · exact applyPlans_kw hT ps hk

theorem fold_kw (hT : T ≤ 86400) {w0 : World} : ∀ (order : List Vehicle) {w : World}, KW T w0 w →
    KW T w0 (order.foldl (fun acc v => stepVehicle env acc v.id v.act) w)
  | [], _, hk => hk
  | x :: xs, w, hk => by
    rw [List.foldl_cons]
    refine fold_kw hT xs ?_
    unfold stepVehicle
    split
    · next w' h => exact kw_update hT hk h
    · exact hk

theorem freshL_cosmetic {s s' : Sim} (h : Cosmetic s s') (hf : FreshL T s) : FreshL T s' :=
  freshL_requests h.requests h.time hf

theorem kw_phase (hT : T ≤ 86400) (hf : ∀ c, env.inFence c = true) {w0 w w' : World} (hk : KW T w0 w)
    (h : MidPhase env w w') : KW T w0 w' := by
  cases h with
  | instructions is => exact applyPlans_kw hT _ hk
  | updates => exact fold_kw hT _ hk
  | @cancel s' i hrem =>
    refine ⟨(Sim.removeRequest_sameIds hrem).wf hk.wf, freshL_frame (v := 0) (Sim.removeRequest_frame hrem) hk.fresh, hk.waits.trans ⟨[_], rfl, ?_⟩⟩
    intro e he; simp only [List.mem_singleton] at he; subst he; exact id
  | prices names rd =>
    have hc := priceUpdate_cosmetic (env := env) names rd w.sim hf hk.wf
    exact ⟨wf_cosmetic hc hk.wf, freshL_cosmetic hc hk.fresh, hk.waits.trans (Waits.of_quiet T (prices_quiet names rd w.sim) rfl)⟩
  | drivers tbl =>
    have hc := driverUpdates_cosmetic (env := env) tbl w hf hk.wf
    have hd := driverUpdates_only (env := env) tbl w
    obtain ⟨evs, hl, hall⟩ := hd.log
    refine ⟨wf_cosmetic hc hk.wf, freshL_cosmetic hc hk.fresh, hk.waits.trans ⟨evs, hl, ?_⟩⟩
    intro e he
    obtain ⟨v, b, rfl⟩ := hall e he
    exact id

theorem mid_kw (hT : T ≤ 86400) (hf : ∀ c, env.inFence c = true) {w0 w : World} (hwf : w0.sim.WF)
    (hfr : FreshL T w0.sim) (h : MidReach env w0 w) : KW T w0 w := by
  induction h with
  | init => exact ⟨hwf, hfr, Waits.refl T _⟩
  | step _ hp ih => exact kw_phase hT hf ih hp

/-! ### the pre-step phase establishes `FreshL` -/

open Timed C11

theorem addRequest_bases {s s' : Sim} {r : Request} (h : s.addRequest env r = .ok s') : s'.bases = s.bases := by
  unfold Sim.addRequest at h
  split at h
  · cases h
  · split at h
    · cases h; rfl
    · simp only [Outcome.bind_eq, Outcome.bind_eq_ok, Outcome.pure_eq] at h
      obtain ⟨s1, h1, h2⟩ := h
      cases h2
      obtain ⟨_, _, _, hb, _⟩ := Sim.removeRequest_fields h1
      exact hb

theorem admitRows_bases (cfg : Cfg) : ∀ (rows : List ReqRow) (w : World),
    (rows.foldl (admitRow env cfg) w).sim.bases = w.sim.bases
  | [], _ => rfl
  | row :: rows, w => by
    rw [List.foldl_cons, admitRows_bases cfg rows]
    unfold admitRow
    split
    · split
      · next s' h => exact addRequest_bases h
      · rfl
    · rfl

theorem cancelFold_bases (cfg : Cfg) : ∀ (ids : List RequestId) (w : World),
    (ids.foldl (cancelOne env cfg) w).sim.bases = w.sim.bases
  | [], _ => rfl
  | i :: ids, w => by
    rw [List.foldl_cons, cancelFold_bases cfg ids]
    unfold cancelOne
    split
    · rfl
    · split
      · rfl
      · split
        · next s' h =>
          obtain ⟨_, _, _, hb, _⟩ := Sim.removeRequest_fields h
          exact hb
        · rfl

/-- after the pre-step phase: the state is well-formed, the clock has not moved, every waiting
    request has departed and is before its deadline, and only add and cancel events were filed -/
theorem preStep_fresh (cfg : Cfg) (names : Nat → List StationId) (hf : ∀ c, env.inFence c = true)
    (inp : Inputs) (s : Sim) (hI : RInv env s) (hwf : s.WF)
    (hnd : ((inp.requests.read (fun r => r.req.departure) s.time).1.map (·.req.id)).Nodup)
    (hfresh : ∀ row ∈ (inp.requests.read (fun r => r.req.departure) s.time).1, row.req.id ∉ s.requests.map (·.id))
    (hwin : ∀ r ∈ s.requests, r.departure < s.time) :
    (preStep env cfg names inp ⟨s, []⟩).1.sim.WF ∧ FreshL cfg.timeout (preStep env cfg names inp ⟨s, []⟩).1.sim ∧
    (preStep env cfg names inp ⟨s, []⟩).1.sim.time = s.time ∧ (preStep env cfg names inp ⟨s, []⟩).1.sim.dt = s.dt ∧
    ∀ e ∈ (preStep env cfg names inp ⟨s, []⟩).1.log, ∀ v r f wt, e ≠ .pickup v r f wt := by
  obtain ⟨q1, q2, q3, q4, q5, _, _, _⟩ := preStep_spec (env := env) cfg names hf inp s hI hwf.stn hnd hfresh
  have hcos := priceUpdate_cosmetic (env := env) names inp.prices s hf hwf
  have hwfP := wf_cosmetic hcos hwf
  obtain ⟨p1, p2, p3, p4, p5, p6, p7⟩ := price_update_frame (env := env) names inp.prices s hf hwf.stn
  have hI1 : RInv env (priceUpdate env names inp.prices s).1 := by
    refine ⟨by rw [p1]; exact hI.nodup, ?_⟩
    have : cellOfReq (priceUpdate env names inp.prices s).1 = cellOfReq s := by
      unfold cellOfReq Sim.request?; rw [p1]
    rw [this, p6]; exact hI.idx
  obtain ⟨a1, a2, a3, a4, a5, a6, a7⟩ := admitRows_spec (env := env) cfg hf
    (inp.requests.read (fun r => r.req.departure) s.time).1
    { sim := (priceUpdate env names inp.prices s).1, log := [] } hI1 hnd (by simpa only [p1] using hfresh)
  simp only at a1 a2 a3 a4 a5 a6 a7
  obtain ⟨c1, c2, c3, c4, c5, c6, c7⟩ := cancelRequests_spec (env := env) cfg _ a1
  have hb : (preStep env cfg names inp ⟨s, []⟩).1.sim.bases = (priceUpdate env names inp.prices s).1.bases := by
    unfold preStep admitRequests cancelRequests
    simp only
    rw [cancelFold_bases, admitRows_bases]
  have hst : (preStep env cfg names inp ⟨s, []⟩).1.sim.stations = (priceUpdate env names inp.prices s).1.stations := by
    unfold preStep admitRequests
    simp only [p4]
    rw [c5, a5]
  have hv : (preStep env cfg names inp ⟨s, []⟩).1.sim.vehicles = (priceUpdate env names inp.prices s).1.vehicles := by
    rw [q4, p2]
  refine ⟨⟨by rw [hv]; exact hwfP.veh, by rw [hst]; exact hwfP.stn, by rw [hb]; exact hwfP.base, q1.nodup,
    by rw [hst]; exact hwfP.plugs⟩, ?_, q2, q3, ?_⟩
  · intro i r hr
    have hm : r ∈ (preStep env cfg names inp ⟨s, []⟩).1.sim.requests := (request?_some hr).1
    rw [q5] at hm
    obtain ⟨hm1, hdl⟩ := List.mem_filter.mp hm
    rw [q2]
    refine ⟨?_, by simpa using hdl⟩
    rcases List.mem_append.mp hm1 with h | h
    · exact hwin r h
    · obtain ⟨row, hrow, rfl⟩ := List.mem_map.mp h
      have hrd := (List.mem_filter.mp hrow).1
      rw [read_fst] at hrd
      have := List.mem_takeWhile_imp hrd
      simpa using this
  · have hlog : ∀ e ∈ (preStep env cfg names inp ⟨s, []⟩).1.log, (∃ r, e = Event.addRequest r) ∨ ∃ r, e = Event.cancelRequest r := by
      unfold preStep admitRequests
      simp only [p4]
      rw [c4, a4]
      intro e he
      simp only [List.nil_append, List.mem_append, List.mem_map] at he
      rcases he with ⟨x, _, h⟩ | ⟨x, _, h⟩
      · exact Or.inl ⟨_, h.symm⟩
      · exact Or.inr ⟨_, h.symm⟩
    intro e he v r f wt heq
    subst heq
    rcases hlog _ he with ⟨_, h⟩ | ⟨_, h⟩ <;> cases h

/-- **C19, waiting times, per step of the cycle**: from a well-formed state in which every waiting
    request has departed (`departure < clock`), after the pre-step phase (price update, admission of
    the window's rows, cancellation of the expired requests) and any instructions, vehicle updates
    and driver phases of the step: every pickup event of the step reports a waiting time strictly
    between zero and the cancellation timeout; and after the tick every waiting request has still
    departed - so the same holds for the next step -/
theorem step_pickup_waits (cfg : Cfg) (names : Nat → List StationId) (hf : ∀ c, env.inFence c = true)
    (inp : Inputs) (s : Sim) (hI : RInv env s) (hwf : s.WF) (hT : cfg.timeout ≤ 86400)
    (hnd : ((inp.requests.read (fun r => r.req.departure) s.time).1.map (·.req.id)).Nodup)
    (hfresh : ∀ row ∈ (inp.requests.read (fun r => r.req.departure) s.time).1, row.req.id ∉ s.requests.map (·.id))
    (hwin : ∀ r ∈ s.requests, r.departure < s.time)
    {w2 : World} (h : MidReach env (preStep env cfg names inp ⟨s, []⟩).1 w2) :
    (∀ v r f wt, Event.pickup v r f wt ∈ w2.log → 0 < wt ∧ wt < cfg.timeout) ∧
    w2.sim.WF ∧ (∀ r ∈ w2.sim.tick.requests, r.departure < w2.sim.tick.time) := by
  obtain ⟨f1, f2, f3, f4, f5⟩ := preStep_fresh (env := env) cfg names hf inp s hI hwf hnd hfresh hwin
  have hk := mid_kw hT hf f1 f2 h
  obtain ⟨evs, hl, hb⟩ := hk.waits
  refine ⟨?_, hk.wf, ?_⟩
  · intro v r f wt hm
    rw [hl] at hm
    rcases List.mem_append.mp hm with h1 | h1
    · exact absurd rfl (f5 _ h1 v r f wt)
    · have := hb _ h1
      simp only [bad, not_not] at this
      exact this
  · intro r hm
    have hl' : w2.sim.request? r.id = some r := lookup_of_mem hk.wf.req hm
    have := (hk.fresh r.id r hl').1
    show r.departure < w2.sim.time + w2.sim.dt
    have hdt : (0 : Int) ≤ (w2.sim.dt : Int) := Int.natCast_nonneg _
    linarith

end Waits
end Hive
