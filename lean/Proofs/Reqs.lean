/-
  Proofs.Reqs — every request is resolved at most once, and none vanishes (C03, run level).

  `resolved log`: the requests with a pickup or a cancel event; `admitted log`: those with an add
  event. One walk through the control model shows that a control step (`Ctl`) files a resolution
  event for a request exactly when it takes that request out of the waiting set - nothing else
  ever adds to or removes from the waiting set.
-/
import Proofs.EnterPost
import Proofs.Lift
import Proofs.Run
import Proofs.WorldRun
import Mathlib.Tactic.Tauto

namespace Hive
namespace Reqs

theorem resolved_append (a b : List Event) : resolved (a ++ b) = resolved a ++ resolved b := by
  simp [resolved, List.filterMap_append]
theorem admitted_append (a b : List Event) : admitted (a ++ b) = admitted a ++ admitted b := by
  simp [admitted, List.filterMap_append]

/-- a control step: the events `evs` were filed; they admit nobody; the requests they resolve were
    waiting, are resolved once, and are exactly the ones that left the waiting set -/
def Ctl (w w' : World) : Prop :=
  ∃ evs, w'.log = w.log ++ evs ∧ admitted evs = [] ∧ (resolved evs).Nodup ∧
    (∀ r, r ∈ ids w'.sim ↔ r ∈ ids w.sim ∧ r ∉ resolved evs) ∧ (∀ r ∈ resolved evs, r ∈ ids w.sim)

theorem Ctl.refl (w : World) : Ctl w w :=
  ⟨[], by simp, rfl, List.nodup_nil, fun r => by simp [resolved], fun r hr => by simp [resolved] at hr⟩

theorem Ctl.trans {a b c : World} (h1 : Ctl a b) (h2 : Ctl b c) : Ctl a c := by
  obtain ⟨e1, l1, a1, n1, m1, s1⟩ := h1
  obtain ⟨e2, l2, a2, n2, m2, s2⟩ := h2
  refine ⟨e1 ++ e2, by rw [l2, l1, List.append_assoc], by rw [admitted_append, a1, a2]; rfl, ?_, ?_, ?_⟩
  · rw [resolved_append, List.nodup_append]
    refine ⟨n1, n2, ?_⟩
    intro x hx1 y hy2 hxy
    subst hxy
    exact ((m1 x).mp (s2 x hy2)).2 hx1
  · intro r
    rw [m2 r, m1 r, resolved_append, List.mem_append]
    tauto
  · intro r hr
    rw [resolved_append, List.mem_append] at hr
    rcases hr with h | h
    · exact s1 r h
    · exact ((m1 r).mp (s2 r h)).1

/-- the waiting set is untouched -/
def QuietR (s s' : Sim) : Prop := ids s' = ids s

theorem QuietR.refl (s : Sim) : QuietR s s := rfl
theorem QuietR.trans {a b c : Sim} (h1 : QuietR a b) (h2 : QuietR b c) : QuietR a c := Eq.trans h2 h1
theorem QuietR.of_fields {s s' : Sim} (h : s'.requests = s.requests) : QuietR s s' := by unfold QuietR ids; rw [h]

/-- events that neither admit nor resolve, on an untouched waiting set -/
theorem Ctl.of_quiet {w w2 : World} (evs : List Event) (hq : QuietR w.sim w2.sim) (hl : w2.log = w.log ++ evs)
    (ha : admitted evs = []) (hr : resolved evs = []) : Ctl w w2 :=
  ⟨evs, hl, ha, by rw [hr]; exact List.nodup_nil, fun r => by rw [hq, hr]; simp, fun r h => by rw [hr] at h; cases h⟩

variable {env : Env}

theorem modifyVehicle_quiet {s s' : Sim} {veh' : Vehicle} (h : s.modifyVehicle env veh' = .ok s') : QuietR s s' := by
  obtain ⟨_, _, _, _, hr, _⟩ := Sim.modifyVehicle_fields h
  exact QuietR.of_fields hr

theorem applyAct_quiet {s s2 : Sim} {v : VehicleId} {a : Act} (h : applyAct env s v a = .ok s2) : QuietR s s2 := by
  obtain ⟨_, _, _, _, _, hr, _⟩ := applyAct_fields h
  exact QuietR.of_fields hr

theorem modifyStation_quiet {s s' : Sim} {st' : Station} (h : s.modifyStation env st' = .ok s') : QuietR s s' := by
  obtain ⟨_, _, _, _, hr, _⟩ := Sim.modifyStation_fields h
  exact QuietR.of_fields hr

theorem modifyBase_quiet {s s' : Sim} {b : Base} (h : s.modifyBase env b = .ok s') : QuietR s s' := by
  obtain ⟨_, _, _, _, hr, _⟩ := Sim.modifyBase_fields h
  exact QuietR.of_fields hr

theorem modifyRequest_quiet {s s' : Sim} {r : Request} (h : s.modifyRequest env r = .ok s') : QuietR s s' := by
  obtain ⟨_, hr, _⟩ := Sim.modifyRequest_fields h
  unfold QuietR ids
  rw [hr, map_key_replaceById]

theorem station_step_quiet {s s1 : Sim} {sid : StationId} {st st' : Station} {c : ChargerId}
    {op : ChargerState → Outcome ChargerState} (_hst : s.station? sid = some st)
    (_hup : st.updatePlug c op = .ok st') (hmod : s.modifyStation env st' = .ok s1) : QuietR s s1 :=
  modifyStation_quiet hmod

theorem exit_quiet {s s1 : Sim} {v : VehicleId} {a : Act} (h : exit env s v a = .ok s1) : QuietR s s1 := by
  cases a <;> simp only [exit] at h
  case idle | repositioning | outOfService | dispatchStation | dispatchBase => cases h; exact QuietR.refl _
  case reserveBase b =>
    split at h
    · cases h
    · simp only [Outcome.bind_eq, Outcome.bind_eq_ok] at h
      obtain ⟨base', _, h2⟩ := h
      exact modifyBase_quiet h2
  case chargingStation sid cid =>
    split at h
    · cases h
    · cases h
    · simp only [Outcome.bind_eq, Outcome.bind_eq_ok] at h
      obtain ⟨st', h1, h2⟩ := h
      exact modifyStation_quiet h2
  case chargingBase b cid =>
    split at h
    · cases h
    · split at h
      · cases h
      · split at h
        · cases h
        · simp only [Outcome.bind_eq, Outcome.bind_eq_ok] at h
          obtain ⟨base', h1, s2, h2, st', h3, h4⟩ := h
          exact (modifyBase_quiet h2).trans (modifyStation_quiet h4)
  case chargeQueueing sid cid t =>
    split at h
    · cases h
    · simp only [Outcome.bind_eq, Outcome.bind_eq_ok] at h
      obtain ⟨st', h1, h2⟩ := h
      exact modifyStation_quiet h2
  case dispatchTrip rid r =>
    split at h
    · cases h; exact QuietR.refl _
    · exact modifyRequest_quiet h
  case servicingTrip req dep r =>
    split at h
    · cases h; exact QuietR.refl _
    · cases h
  case servicingPooling | dispatchPooling => cases h

theorem mem_ids_remove (s : Sim) (i r : RequestId) :
    r ∈ (removeById Request.id s.requests i).map Request.id ↔ r ∈ ids s ∧ r ≠ i := by
  unfold removeById ids
  simp only [List.mem_map, List.mem_filter, bne_iff_ne, ne_eq]
  constructor
  · rintro ⟨x, ⟨hx, hne⟩, rfl⟩; exact ⟨⟨x, hx, rfl⟩, hne⟩
  · rintro ⟨⟨x, hx, rfl⟩, hne⟩; exact ⟨x, ⟨hx, hne⟩, rfl⟩

/-- **a pickup**: the request was waiting, one pickup event is filed for it, and it - and only it -
    leaves the waiting set -/
theorem pickUpTrip_ctl {w w1 : World} {v : VehicleId} {rid : RequestId}
    (h : pickUpTrip env w v rid = .ok w1) : Ctl w w1 := by
  unfold pickUpTrip at h
  split at h
  · cases h
  · cases h
  · next veh req hveh hreq =>
    simp only [Outcome.bind_eq, Outcome.bind_eq_ok, Outcome.pure_eq] at h
    obtain ⟨s1, h1, s2, h2, h3⟩ := h
    cases h3
    obtain ⟨_, hr2, _⟩ := Sim.removeRequest_fields h2
    obtain ⟨_, _, _, _, hr1, _⟩ := Sim.modifyVehicle_fields h1
    have hrid : rid ∈ ids w.sim := by
      obtain ⟨hm, hid⟩ := request?_some hreq
      unfold ids; rw [← hid]; exact List.mem_map_of_mem hm
    refine ⟨[Event.pickup v rid req.value ((s1.time - req.departure) % 86400)], rfl, rfl, by simp [resolved], ?_, ?_⟩
    · intro r
      show r ∈ s2.requests.map Request.id ↔ _
      rw [hr2]
      have : s1.requests = w.sim.requests := hr1
      have e := mem_ids_remove s1 rid r
      unfold ids at e
      rw [this] at e
      rw [this, e]
      simp [resolved, ids]
    · intro r hr
      simp only [resolved, List.filterMap_cons, List.filterMap_nil, List.mem_singleton] at hr
      rw [hr]; exact hrid

theorem dropOffTrip_ctl {w w2 : World} {v : VehicleId} {req : Request}
    (h : dropOffTrip w v req = .ok w2) : Ctl w w2 := by
  unfold dropOffTrip at h
  split at h
  · cases h
  · split at h
    · cases h
    · cases h
      exact Ctl.of_quiet [Event.dropoff v req.id] (QuietR.refl _) rfl rfl rfl

/-! ### `enter`, `transition` -/

theorem enter_ctl {w w2 : World} {v : VehicleId} {next : Act}
    (h : enter env w v next = .ok w2) : Ctl w w2 := by
  have q : ∀ {s2 : Sim}, QuietR w.sim s2 → Ctl w { w with sim := s2 } := fun hq => Ctl.of_quiet [] hq (by simp) rfl rfl
  cases next <;> simp only [enter] at h
  case idle d =>
    simp only [Outcome.bind_eq, Outcome.bind_eq_ok, Outcome.pure_eq] at h
    obtain ⟨s2, h1, h2⟩ := h
    cases h2; exact q (applyAct_quiet h1)
  case outOfService =>
    simp only [Outcome.bind_eq, Outcome.bind_eq_ok, Outcome.pure_eq] at h
    obtain ⟨s2, h1, h2⟩ := h
    cases h2; exact q (applyAct_quiet h1)
  case repositioning route =>
    split at h
    · cases h
    · split at h
      · cases h
      · simp only [Outcome.bind_eq, Outcome.bind_eq_ok, Outcome.pure_eq] at h
        obtain ⟨s2, h1, h2⟩ := h
        cases h2; exact q (applyAct_quiet h1)
  case dispatchBase b route =>
    split at h
    · cases h
    · cases h
    · split at h
      · cases h
      · split at h
        · cases h
        · simp only [Outcome.bind_eq, Outcome.bind_eq_ok, Outcome.pure_eq] at h
          obtain ⟨s2, h1, h2⟩ := h
          cases h2; exact q (applyAct_quiet h1)
  case dispatchTrip rid route =>
    split at h
    · cases h
    · split at h
      · cases h
      · next req hreq =>
        split at h
        · cases h
        · split at h
          · cases h
          · simp only [Outcome.bind_eq, Outcome.bind_eq_ok, Outcome.pure_eq] at h
            obtain ⟨s1, h0, s2, h1, h2⟩ := h
            cases h2
            exact q ((modifyRequest_quiet h0).trans (applyAct_quiet h1))
  case servicingPooling => cases h
  case dispatchPooling => cases h
  case servicingTrip sreq dep route =>
    split at h
    · cases h
    · split at h
      · cases h
      · split at h
        · cases h
        · split at h
          · cases h
          · split at h
            · cases h
            · split at h
              · cases h
              · simp only [Outcome.bind_eq, Outcome.bind_eq_ok, Outcome.pure_eq] at h
                obtain ⟨w1, h0, s2, h1, h2⟩ := h
                cases h2
                exact (pickUpTrip_ctl h0).trans (Ctl.of_quiet (w := w1) (w2 := { w1 with sim := s2 }) [] (applyAct_quiet h1) (by simp) rfl rfl)
  case reserveBase b =>
    split at h
    · cases h
    · cases h
    · next veh base hveh hbase =>
      split at h
      · cases h
      · split at h
        · cases h
        · split at h
          · cases h
          · next base' hco =>
            simp only [Outcome.bind_eq, Outcome.bind_eq_ok, Outcome.pure_eq] at h
            obtain ⟨s1, h0, s2, h1, h2⟩ := h
            cases h2
            unfold Base.checkout at hco
            split at hco
            · cases hco
            · cases hco
              exact q ((modifyBase_quiet h0).trans (applyAct_quiet h1))
  case chargingStation sid cid =>
    split at h
    · cases h
    · cases h
    · next veh st hveh hst =>
      split at h
      · cases h
      · split at h
        · cases h
        · split at h
          · cases h
          · split at h
            · cases h
            · split at h
              · cases h
              · simp only [Outcome.bind_eq, Outcome.bind_eq_ok, Outcome.pure_eq] at h
                obtain ⟨st', hco, s1, h0, s2, h1, h2⟩ := h
                cases h2
                exact q ((station_step_quiet hst hco h0).trans (applyAct_quiet h1))
  case dispatchStation sid cid route =>
    split at h
    · cases h
    · cases h
    · next veh st hveh hst =>
      split at h
      · split at h
        · cases h
        · split at h
          · cases h
          · split at h
            · cases h
            · split at h
              · cases h
              · simp only [Outcome.bind_eq, Outcome.bind_eq_ok, Outcome.pure_eq] at h
                obtain ⟨st', hco, s1, h0, s2, h1, h2⟩ := h
                cases h2
                exact q ((station_step_quiet hst hco h0).trans (applyAct_quiet h1))
      · split at h
        · cases h
        · split at h
          · cases h
          · simp only [Outcome.bind_eq, Outcome.bind_eq_ok, Outcome.pure_eq] at h
            obtain ⟨s2, h1, h2⟩ := h
            cases h2; exact q (applyAct_quiet h1)
  case chargeQueueing sid cid t =>
    split at h
    · cases h
    · cases h
    · next veh st hveh hst =>
      split at h
      · cases h
      · split at h
        · cases h
        · split at h
          · cases h
          · split at h
            · cases h
            · simp only [Outcome.bind_eq, Outcome.bind_eq_ok, Outcome.pure_eq] at h
              obtain ⟨st', henq, s1, h0, s2, h1, h2⟩ := h
              cases h2
              exact q ((station_step_quiet hst henq h0).trans (applyAct_quiet h1))
  case chargingBase b cid =>
    split at h
    · cases h
    · cases h
    · next veh base hveh hbase =>
      split at h
      · cases h
      · next sid hsid =>
        split at h
        · cases h
        · next st hst =>
          split at h
          · cases h
          · split at h
            · cases h
            · split at h
              · cases h
              · split at h
                · cases h
                · split at h
                  · cases h
                  · next base' hcob =>
                    split at h
                    · cases h
                    · split at h
                      · cases h
                      · simp only [Outcome.bind_eq, Outcome.bind_eq_ok, Outcome.pure_eq] at h
                        obtain ⟨st', hco, s1, h0, s2, h1, s3, h2, h3⟩ := h
                        cases h3
                        unfold Base.checkout at hcob
                        split at hcob
                        · cases hcob
                        · cases hcob
                          obtain ⟨_, _, hs1, _⟩ := Sim.modifyBase_fields h0
                          have hst1 : s1.station? sid = some st := by
                            unfold Sim.station? at *; rw [hs1]; exact hst
                          exact q (((modifyBase_quiet h0).trans (station_step_quiet hst1 hco h1)).trans (applyAct_quiet h2))


theorem transition_ctl {w w2 : World} {v : VehicleId} {prev next : Act}
    (h : transition env w v prev next = .ok w2) : Ctl w w2 := by
  unfold transition at h
  simp only [Outcome.bind_eq, Outcome.bind_eq_ok] at h
  obtain ⟨s1, h1, h2⟩ := h
  exact (Ctl.of_quiet (w := w) (w2 := { w with sim := s1 }) [] (exit_quiet h1) (by simp) rfl rfl).trans (enter_ctl h2)


/-! ### `_perform_update`, `default_update` -/

theorem move_ctl {w w2 : World} {v : VehicleId} (h : move env w v = .ok w2) : Ctl w w2 := by
  unfold move at h
  split at h
  · cases h
  · next veh hveh =>
    split at h
    · cases h
    · split at h
      · cases h
      · next route _ =>
        simp only [Outcome.bind_eq, Outcome.bind_eq_ok, Outcome.pure_eq] at h
        obtain ⟨tr, htr, h⟩ := h
        split at h
        · simp only [Outcome.bind_eq, Outcome.bind_eq_ok, Outcome.pure_eq] at h
          obtain ⟨s2, h1, h2⟩ := h
          cases h2
          exact Ctl.of_quiet [] (modifyVehicle_quiet h1) (by simp) rfl rfl
        · split at h
          · simp only [Outcome.bind_eq, Outcome.bind_eq_ok, Outcome.pure_eq] at h
            obtain ⟨s2, h1, h2⟩ := h
            cases h2
            refine Ctl.of_quiet [] ?_ (by simp) rfl rfl
            split at h1
            · next s' hexit => exact (exit_quiet hexit).trans (applyAct_quiet h1)
            · exact applyAct_quiet h1
          · split at h
            · cases h
            · next last _ =>
              simp only [Outcome.bind_eq, Outcome.bind_eq_ok, Outcome.pure_eq] at h
              obtain ⟨s2, h1, h2⟩ := h
              cases h2
              exact Ctl.of_quiet [_] (modifyVehicle_quiet h1) rfl rfl rfl

theorem charge_ctl {w w2 : World} {v : VehicleId} {sid : StationId} {cid : ChargerId}
    (h : charge env w v sid cid = .ok w2) : Ctl w w2 := by
  unfold charge at h
  split at h
  · cases h
  · split at h
    · cases h
    · split at h
      · cases h
      · split at h
        · cases h
        · split at h
          · cases h
          · simp only [Outcome.bind_eq, Outcome.bind_eq_ok, Outcome.pure_eq] at h
            obtain ⟨s1, h1, s2, h2, h3⟩ := h
            cases h3
            exact Ctl.of_quiet [_] ((modifyVehicle_quiet h1).trans (modifyStation_quiet h2)) rfl rfl rfl

theorem performUpdate_ctl {w w2 : World} {v : VehicleId} {a : Act}
    (h : performUpdate env w v a = .ok w2) : Ctl w w2 := by
  cases a <;> simp only [performUpdate] at h
  case idle d =>
    split at h
    · cases h
    · split at h
      · cases h
      · simp only [Outcome.bind_eq, Outcome.bind_eq_ok, Outcome.pure_eq] at h
        obtain ⟨s2, h1, h2⟩ := h
        cases h2
        exact Ctl.of_quiet [] (modifyVehicle_quiet h1) (by simp) rfl rfl
  case outOfService | reserveBase => cases h; exact Ctl.refl _
  case repositioning | dispatchTrip | dispatchStation | dispatchBase => exact move_ctl h
  case servicingTrip req dep r =>
    simp only [Outcome.bind_eq, Outcome.bind_eq_ok, Outcome.pure_eq] at h
    obtain ⟨w1, h1, h2⟩ := h
    have s1 := move_ctl h1
    split at h2
    · cases h2
    · split at h2
      · cases h2; exact s1
      · split at h2
        · exact s1.trans (dropOffTrip_ctl h2)
        · cases h2; exact s1
      · cases h2; exact s1
  case chargingStation sid cid => exact charge_ctl h
  case chargingBase b cid =>
    split at h
    · cases h
    · exact charge_ctl h
  case chargeQueueing sid cid t =>
    split at h
    · cases h
    · split at h
      · cases h
      · simp only [Outcome.bind_eq, Outcome.bind_eq_ok, Outcome.pure_eq] at h
        obtain ⟨s2, h1, h2⟩ := h
        cases h2
        exact Ctl.of_quiet [] (modifyVehicle_quiet h1) (by simp) rfl rfl
  case servicingPooling | dispatchPooling => cases h

theorem defaultUpdate_ctl {w w2 : World} {v : VehicleId} {a : Act}
    (h : defaultUpdate env w v a = .ok w2) : Ctl w w2 := by
  unfold defaultUpdate at h
  split at h
  · simp only [Outcome.bind_eq, Outcome.bind_eq_ok] at h
    obtain ⟨next, _, w1, htr, h3⟩ := h
    split at h3
    · cases h3
    · exact (transition_ctl htr).trans (performUpdate_ctl h3)
  · exact performUpdate_ctl h

/-! ### phases and runs -/

theorem applyPlans_ctl : ∀ (ps : List (Instr × VehicleId × Act × Act)) (w : World), Ctl w (applyPlans env w ps)
  | [], w => Ctl.refl w
  | (i, v, prev, next) :: ps, w => by
    simp only [applyPlans]
    split
    · next w' htr =>
      refine ((transition_ctl htr).trans ?_).trans (applyPlans_ctl ps _)
      exact Ctl.of_quiet [] (QuietR.of_fields rfl) (by simp) rfl rfl
    · exact applyPlans_ctl ps w

theorem applyInstructions_ctl (w : World) (is : List Instr) : Ctl w (applyInstructions env w is) :=
  applyPlans_ctl _ w

theorem stepVehicle_ctl (w : World) (v : VehicleId) (a : Act) : Ctl w (stepVehicle env w v a) := by
  unfold stepVehicle
  split
  · next w' h => exact defaultUpdate_ctl h
  · exact Ctl.refl w

theorem fold_ctl : ∀ (order : List Vehicle) (w : World),
    Ctl w (order.foldl (fun acc v => stepVehicle env acc v.id v.act) w)
  | [], w => Ctl.refl w
  | x :: xs, w => by
    rw [List.foldl_cons]
    exact (stepVehicle_ctl w x.id x.act).trans (fold_ctl xs _)

theorem vehicleUpdates_ctl (w : World) : Ctl w (vehicleUpdates env w) := fold_ctl _ w

/-- the request ledger, relative to the requests `ids0` waiting at the start -/
structure Ledger (ids0 : List RequestId) (w : World) : Prop where
  once : (resolved w.log).Nodup
  waiting : ∀ r ∈ ids w.sim, r ∉ resolved w.log
  kept : ∀ r, (r ∈ ids0 ∨ r ∈ admitted w.log) ↔ (r ∈ ids w.sim ∨ r ∈ resolved w.log)

theorem ledger_ctl {ids0 : List RequestId} {w w' : World} (hI : Ledger ids0 w) (h : Ctl w w') : Ledger ids0 w' := by
  obtain ⟨evs, hl, ha, hn, hm, hs⟩ := h
  refine ⟨?_, ?_, ?_⟩
  · rw [hl, resolved_append, List.nodup_append]
    refine ⟨hI.once, hn, ?_⟩
    intro x hx y hy hxy
    subst hxy
    exact hI.waiting x (hs x hy) hx
  · intro r hr
    rw [hl, resolved_append, List.mem_append]
    obtain ⟨h1, h2⟩ := (hm r).mp hr
    intro hc
    rcases hc with hc | hc
    · exact hI.waiting r h1 hc
    · exact h2 hc
  · intro r
    rw [hl, resolved_append, admitted_append, ha, List.append_nil, List.mem_append, hI.kept r, hm r]
    constructor
    · rintro (h1 | h1)
      · by_cases hc : r ∈ resolved evs
        · exact Or.inr (Or.inr hc)
        · exact Or.inl ⟨h1, hc⟩
      · exact Or.inr (Or.inl h1)
    · rintro (⟨h1, _⟩ | h1 | h1)
      · exact Or.inl h1
      · exact Or.inr h1
      · exact Or.inl (hs r h1)

theorem shifts_silent : ∀ (evs : List Event), (∀ e ∈ evs, ∃ v b, e = Event.shift v b) → admitted evs = [] ∧ resolved evs = []
  | [], _ => ⟨rfl, rfl⟩
  | e :: es, h => by
    obtain ⟨v, b, rfl⟩ := h e List.mem_cons_self
    obtain ⟨a1, a2⟩ := shifts_silent es (fun x hx => h x (List.mem_cons_of_mem _ hx))
    exact ⟨by simpa [admitted] using a1, by simpa [resolved] using a2⟩

theorem ledger_phase {ids0 : List RequestId} {w w' : World} (hI : Ledger ids0 w) (h : WPhase env w w') : Ledger ids0 w' := by
  cases h with
  | instructions is => exact ledger_ctl hI (applyInstructions_ctl w is)
  | updates => exact ledger_ctl hI (vehicleUpdates_ctl w)
  | tick => exact ledger_ctl hI (Ctl.of_quiet [] (QuietR.of_fields rfl) (by simp) rfl rfl)
  | @arrival s' r hfresh hadm hres hadd =>
    have hf : w.sim.request? r.id = none := by
      cases hq : w.sim.request? r.id with
      | none => rfl
      | some x =>
        exfalso
        apply hfresh
        obtain ⟨hm, hid⟩ := request?_some hq
        unfold ids; rw [← hid]; exact List.mem_map_of_mem hm
    obtain ⟨_, _, _, _, _, hreq, _⟩ := addRequest_fields hf hadd
    have hids : ids s' = ids w.sim ++ [r.id] := by unfold ids; rw [hreq]; simp
    refine ⟨?_, ?_, ?_⟩
    · show (resolved (w.log ++ [Event.addRequest r.id])).Nodup
      rw [resolved_append]; simpa [resolved] using hI.once
    · intro x hx
      show x ∉ resolved (w.log ++ [Event.addRequest r.id])
      rw [resolved_append]
      simp only [resolved, List.filterMap_cons, List.filterMap_nil, List.append_nil]
      have hx' : x ∈ ids w.sim ++ [r.id] := hids ▸ hx
      rcases List.mem_append.mp hx' with h1 | h1
      · exact hI.waiting x h1
      · rw [List.mem_singleton] at h1; rw [h1]; exact hres
    · intro x
      show (x ∈ ids0 ∨ x ∈ admitted (w.log ++ [Event.addRequest r.id])) ↔ (x ∈ ids s' ∨ x ∈ resolved (w.log ++ [Event.addRequest r.id]))
      rw [admitted_append, resolved_append, hids]
      simp only [admitted, resolved, List.filterMap_cons, List.filterMap_nil, List.append_nil, List.mem_append, List.mem_singleton]
      have := hI.kept x
      simp only [admitted, resolved] at this
      tauto
  | prices names rd =>
    obtain ⟨_, hr, _⟩ := priceUpdate_only (env := env) names rd w.sim
    exact ledger_ctl hI (Ctl.of_quiet [] (QuietR.of_fields hr) (by simp) rfl rfl)
  | drivers tbl =>
    have hd := driverUpdates_only (env := env) tbl w
    obtain ⟨evs, hl, hall⟩ := hd.log
    obtain ⟨a1, a2⟩ := shifts_silent evs hall
    exact ledger_ctl hI (Ctl.of_quiet evs (QuietR.of_fields hd.requests) hl a1 a2)
  | @cancel s' i hrem =>
    obtain ⟨⟨old, hold⟩, hreq, _⟩ := Sim.removeRequest_fields hrem
    have hi : i ∈ ids w.sim := by
      obtain ⟨hm, hid⟩ := request?_some hold
      unfold ids; rw [← hid]; exact List.mem_map_of_mem hm
    have hmem : ∀ x, x ∈ ids s' ↔ x ∈ ids w.sim ∧ x ≠ i := by
      intro x
      have := mem_ids_remove w.sim i x
      unfold ids at this ⊢
      rw [hreq]; exact this
    refine ⟨?_, ?_, ?_⟩
    · show (resolved (w.log ++ [Event.cancelRequest i])).Nodup
      rw [resolved_append, List.nodup_append]
      refine ⟨hI.once, by simp [resolved], ?_⟩
      intro x hx y hy hxy
      simp only [resolved, List.filterMap_cons, List.filterMap_nil, List.mem_singleton] at hy
      subst hxy; subst hy
      exact hI.waiting _ hi hx
    · intro x hx
      show x ∉ resolved (w.log ++ [Event.cancelRequest i])
      rw [resolved_append, List.mem_append]
      obtain ⟨h1, h2⟩ := (hmem x).mp hx
      simp only [resolved, List.filterMap_cons, List.filterMap_nil, List.mem_singleton]
      rintro (hc | hc)
      · exact hI.waiting x h1 hc
      · exact h2 hc
    · intro x
      show (x ∈ ids0 ∨ x ∈ admitted (w.log ++ [Event.cancelRequest i])) ↔ (x ∈ ids s' ∨ x ∈ resolved (w.log ++ [Event.cancelRequest i]))
      rw [admitted_append, resolved_append, hmem x]
      simp only [admitted, resolved, List.filterMap_cons, List.filterMap_nil, List.append_nil, List.mem_append, List.mem_singleton]
      have := hI.kept x
      simp only [admitted, resolved] at this
      by_cases hxi : x = i
      · subst hxi; tauto
      · tauto

/-- **C03 over whole runs**: from a state whose log is empty, after any history - any instruction
    lists, updates, arrivals under fresh ids, cancellations - every request is resolved at most once
    (one pickup or one cancellation, never both, never twice), a waiting request has not been
    resolved, and a request that was waiting at the start or has been admitted is still waiting or
    has been resolved: none vanishes, none appears from nowhere -/
theorem run_ledger {w0 w : World} (h0 : w0.log = []) (h : WReachable env w0 w) : Ledger (ids w0.sim) w := by
  induction h with
  | init =>
    refine ⟨by rw [h0]; exact List.nodup_nil, fun r _ => by rw [h0]; simp [resolved], fun r => ?_⟩
    rw [h0]; simp [admitted, resolved]
  | step _ hp ih => exact ledger_phase ih hp

end Reqs
end Hive
