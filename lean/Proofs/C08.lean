/-
  Proofs.C08 — the eight index maps agree with the four entity maps in every reachable state.
-/
import Hive.Inv
import Proofs.Index
import Proofs.Prim
import Proofs.Run

namespace Hive
variable {env : Env}

def cellOfVeh (s : Sim) : Nat → Option Cell := fun i => (s.vehicle? i).map (·.pos.cell)
def cellOfReq (s : Sim) : Nat → Option Cell := fun i => (s.request? i).map (·.pos.cell)
def cellOfStn (s : Sim) : Nat → Option Cell := fun i => (s.station? i).map (·.pos.cell)
def cellOfBase (s : Sim) : Nat → Option Cell := fun i => (s.base? i).map (·.pos.cell)

/-- the inductive form of C08 -/
structure Inv08 (env : Env) (s : Sim) : Prop where
  veh : IdxInv env.parent s.vIdx (cellOfVeh s)
  req : IdxInv env.parent s.rIdx (cellOfReq s)
  stn : IdxInv env.parent s.sIdx (cellOfStn s)
  base : IdxInv env.parent s.bIdx (cellOfBase s)

theorem lookup_replace_upd {α : Type} {key : α → Nat} {xs : List α} {x old : α} (cell : α → Cell)
    (h : lookup key xs (key x) = some old) :
    (fun i => (lookup key (replaceById key xs x) i).map cell)
      = updCell (fun i => (lookup key xs i).map cell) (key x) (some (cell x)) := by
  funext i
  unfold updCell
  by_cases hi : i = key x
  · subst hi; rw [lookup_replaceById_self h]; simp
  · rw [lookup_replaceById_ne _ _ hi]; simp [hi]

theorem lookup_remove_upd {α : Type} {key : α → Nat} {xs : List α} (cell : α → Cell) (i0 : Nat) :
    (fun i => (lookup key (removeById key xs i0) i).map cell)
      = updCell (fun i => (lookup key xs i).map cell) i0 none := by
  funext i
  unfold updCell
  by_cases hi : i = i0
  · subst hi; rw [lookup_removeById_self]; simp
  · rw [lookup_removeById_ne _ hi]; simp [hi]

theorem modifyVehicle_idx {s s' : Sim} {v : Vehicle} (h : s.modifyVehicle env v = .ok s') :
    ∃ old, s.vehicle? v.id = some old ∧
      Index.move env.parent s.vIdx old.pos.cell v.pos.cell v.id = some s'.vIdx ∧
      s'.vehicles = replaceById Vehicle.id s.vehicles v ∧ s'.requests = s.requests ∧
      s'.stations = s.stations ∧ s'.bases = s.bases ∧ s'.rIdx = s.rIdx ∧ s'.sIdx = s.sIdx ∧ s'.bIdx = s.bIdx := by
  unfold Sim.modifyVehicle at h
  split at h
  · cases h
  · next old hold =>
    split at h
    · cases h
    · split at h
      · cases h
      · next ix hix => cases h; exact ⟨old, hold, hix, rfl, rfl, rfl, rfl, rfl, rfl, rfl⟩

theorem modifyRequest_idx {s s' : Sim} {r : Request} (h : s.modifyRequest env r = .ok s') :
    ∃ old, s.request? r.id = some old ∧
      Index.move env.parent s.rIdx old.pos.cell r.pos.cell r.id = some s'.rIdx ∧
      s'.requests = replaceById Request.id s.requests r ∧ s'.vehicles = s.vehicles ∧
      s'.stations = s.stations ∧ s'.bases = s.bases ∧ s'.vIdx = s.vIdx ∧ s'.sIdx = s.sIdx ∧ s'.bIdx = s.bIdx := by
  unfold Sim.modifyRequest at h
  split at h
  · cases h
  · next old hold =>
    split at h
    · cases h
    · split at h
      · cases h
      · split at h
        · cases h
        · next ix hix => cases h; exact ⟨old, hold, hix, rfl, rfl, rfl, rfl, rfl, rfl, rfl⟩

theorem removeRequest_idx {s s' : Sim} {i : RequestId} (h : s.removeRequest env i = .ok s') :
    ∃ old, s.request? i = some old ∧
      Index.remove env.parent s.rIdx old.pos.cell i = some s'.rIdx ∧
      s'.requests = removeById Request.id s.requests i ∧ s'.vehicles = s.vehicles ∧
      s'.stations = s.stations ∧ s'.bases = s.bases ∧ s'.vIdx = s.vIdx ∧ s'.sIdx = s.sIdx ∧ s'.bIdx = s.bIdx := by
  unfold Sim.removeRequest at h
  split at h
  · cases h
  · next old hold =>
    split at h
    · cases h
    · next ix hix => cases h; exact ⟨old, hold, hix, rfl, rfl, rfl, rfl, rfl, rfl, rfl⟩

theorem inv08_prim (env : Env) : PrimInv env (Inv08 env) where
  veh := by
    intro s s' v hi h
    obtain ⟨old, hold, hmove, hv, hr, hs, hb, e1, e2, e3⟩ := modifyVehicle_idx h
    obtain ⟨ix', hm', hinv'⟩ := idx_move hi.veh (i := v.id) (old := old.pos.cell) (new := v.pos.cell)
      (by simp [cellOfVeh, hold])
    rw [hmove] at hm'
    cases hm'
    refine ⟨?_, ?_, ?_, ?_⟩
    · have : cellOfVeh s' = updCell (cellOfVeh s) v.id (some v.pos.cell) := by
        unfold cellOfVeh Sim.vehicle?
        rw [hv]
        exact lookup_replace_upd (fun x : Vehicle => x.pos.cell) hold
      rw [this]; exact hinv'
    · have : cellOfReq s' = cellOfReq s := by unfold cellOfReq Sim.request?; rw [hr]
      rw [this, e1]; exact hi.req
    · have : cellOfStn s' = cellOfStn s := by unfold cellOfStn Sim.station?; rw [hs]
      rw [this, e2]; exact hi.stn
    · have : cellOfBase s' = cellOfBase s := by unfold cellOfBase Sim.base?; rw [hb]
      rw [this, e3]; exact hi.base
  req := by
    intro s s' r hi h
    obtain ⟨old, hold, hmove, hr, hv, hs, hb, e1, e2, e3⟩ := modifyRequest_idx h
    obtain ⟨ix', hm', hinv'⟩ := idx_move hi.req (i := r.id) (old := old.pos.cell) (new := r.pos.cell)
      (by simp [cellOfReq, hold])
    rw [hmove] at hm'
    cases hm'
    refine ⟨?_, ?_, ?_, ?_⟩
    · have : cellOfVeh s' = cellOfVeh s := by unfold cellOfVeh Sim.vehicle?; rw [hv]
      rw [this, e1]; exact hi.veh
    · have : cellOfReq s' = updCell (cellOfReq s) r.id (some r.pos.cell) := by
        unfold cellOfReq Sim.request?
        rw [hr]
        exact lookup_replace_upd (fun x : Request => x.pos.cell) hold
      rw [this]; exact hinv'
    · have : cellOfStn s' = cellOfStn s := by unfold cellOfStn Sim.station?; rw [hs]
      rw [this, e2]; exact hi.stn
    · have : cellOfBase s' = cellOfBase s := by unfold cellOfBase Sim.base?; rw [hb]
      rw [this, e3]; exact hi.base
  rem := by
    intro s s' i hi h
    obtain ⟨old, hold, hrem, hr, hv, hs, hb, e1, e2, e3⟩ := removeRequest_idx h
    obtain ⟨ix', hm', hinv'⟩ := idx_remove hi.req (i := i) (c := old.pos.cell) (by simp [cellOfReq, hold])
    rw [hrem] at hm'
    cases hm'
    refine ⟨?_, ?_, ?_, ?_⟩
    · have : cellOfVeh s' = cellOfVeh s := by unfold cellOfVeh Sim.vehicle?; rw [hv]
      rw [this, e1]; exact hi.veh
    · have : cellOfReq s' = updCell (cellOfReq s) i none := by
        unfold cellOfReq Sim.request?
        rw [hr]
        exact lookup_remove_upd (fun x : Request => x.pos.cell) i
      rw [this]; exact hinv'
    · have : cellOfStn s' = cellOfStn s := by unfold cellOfStn Sim.station?; rw [hs]
      rw [this, e2]; exact hi.stn
    · have : cellOfBase s' = cellOfBase s := by unfold cellOfBase Sim.base?; rw [hb]
      rw [this, e3]; exact hi.base
  stn := by
    intro s s' st hi h
    obtain ⟨old, hold, hcell, rfl⟩ := Sim.modifyStation_ok h
    refine ⟨hi.veh, hi.req, ?_, hi.base⟩
    have : cellOfStn { s with stations := replaceById Station.id s.stations st } = cellOfStn s := by
      unfold cellOfStn Sim.station?
      rw [lookup_replace_upd (fun x : Station => x.pos.cell) hold]
      apply updCell_self
      have : lookup Station.id s.stations st.id = some old := hold
      rw [this, Option.map_some, hcell]
    rw [this]; exact hi.stn
  base := by
    intro s s' b hi h
    obtain ⟨old, hold, hcell, rfl⟩ := Sim.modifyBase_ok h
    refine ⟨hi.veh, hi.req, hi.stn, ?_⟩
    have : cellOfBase { s with bases := replaceById Base.id s.bases b } = cellOfBase s := by
      unfold cellOfBase Sim.base?
      rw [lookup_replace_upd (fun x : Base => x.pos.cell) hold]
      apply updCell_self
      have : lookup Base.id s.bases b.id = some old := hold
      rw [this, Option.map_some, hcell]
    rw [this]; exact hi.base

end Hive

namespace Hive
variable {env : Env}

theorem inv08_runInv (env : Env) : RunInv env (Inv08 env) where
  toStepInv := prim_stepInv (inv08_prim env) (fun _ _ h => ⟨h.veh, h.req, h.stn, h.base⟩)
  tick _ h := ⟨h.veh, h.req, h.stn, h.base⟩
  arrival := by
    intro s s' r _ hi hf _ _ h
    obtain ⟨hv, hs, hb, _, _, _, hne, hself⟩ := addRequest_fields hf h
    have hidx : s'.rIdx = Index.add env.parent s.rIdx r.pos.cell r.id ∧ s'.vIdx = s.vIdx ∧
        s'.sIdx = s.sIdx ∧ s'.bIdx = s.bIdx := by
      rw [addRequest_fresh hf h]; exact ⟨rfl, rfl, rfl, rfl⟩
    have hfresh : cellOfReq s r.id = none := by simp [cellOfReq, hf]
    have hc : cellOfReq s' = updCell (cellOfReq s) r.id (some r.pos.cell) := by
      funext i
      unfold cellOfReq updCell
      by_cases hi' : i = r.id
      · subst hi'; simp [hself]
      · simp [hi', hne i hi']
    refine ⟨?_, ?_, ?_, ?_⟩
    · have : cellOfVeh s' = cellOfVeh s := by unfold cellOfVeh Sim.vehicle?; rw [hv]
      rw [this, hidx.2.1]; exact hi.veh
    · rw [hc, hidx.1]; exact idx_add hi.req hfresh r.pos.cell
    · have : cellOfStn s' = cellOfStn s := by unfold cellOfStn Sim.station?; rw [hs]
      rw [this, hidx.2.2.1]; exact hi.stn
    · have : cellOfBase s' = cellOfBase s := by unfold cellOfBase Sim.base?; rw [hb]
      rw [this, hidx.2.2.2]; exact hi.base
  cancel _ hi h := (inv08_prim env).rem hi h

/-! ### from the inductive form to the executable monitor -/

theorem dictInv_wf {xs : CollDict} {R : Nat → Cell → Prop} (h : DictInv xs R) : xs.wf = true := by
  unfold CollDict.wf
  simp only [Bool.and_eq_true, decide_eq_true_eq, List.all_eq_true, Bool.not_eq_true', List.isEmpty_eq_false_iff]
  exact ⟨h.cells, fun p hp => ⟨(h.lists p hp).1, (h.lists p hp).2⟩⟩

theorem dictInv_agrees {α : Type} {key : α → Nat} {cell : α → Cell} {xs : CollDict} {ents : List α}
    {f : Cell → Cell} (hn : (ents.map key).Nodup)
    (h : DictInv xs (fun i c => ∃ c0, (lookup key ents i).map cell = some c0 ∧ f c0 = c)) :
    xs.agrees (ents.map fun e => (key e, cell e)) f = true := by
  unfold CollDict.agrees
  simp only [Bool.and_eq_true, List.all_eq_true, List.any_eq_true, beq_iff_eq, List.mem_map]
  refine ⟨?_, ?_⟩
  · rintro _ ⟨e, he, rfl⟩
    simp only [List.contains_iff_mem]
    rw [h.mem]
    exact ⟨cell e, by rw [lookup_of_mem hn he]; rfl, rfl⟩
  · intro p hp i hi
    have : i ∈ xs.get p.1 := by rw [CollDict.mem_get h.cells hp]; exact hi
    obtain ⟨c0, hl, hf⟩ := (h.mem p.1 i).mp this
    cases hlk : lookup key ents i with
    | none => rw [hlk] at hl; cases hl
    | some e =>
      rw [hlk] at hl
      simp only [Option.map_some, Option.some.injEq] at hl
      obtain ⟨hm, hk⟩ := lookup_some hlk
      exact ⟨(key e, cell e), ⟨e, hm, rfl⟩, hk, by rw [hl]; exact hf⟩

theorem idxInv_ok {α : Type} {key : α → Nat} {cell : α → Cell} {parent : Cell → Cell} {ix : Index}
    {ents : List α} (hn : (ents.map key).Nodup)
    (h : IdxInv parent ix (fun i => (lookup key ents i).map cell)) :
    ix.ok parent (ents.map fun e => (key e, cell e)) = true := by
  unfold Index.ok
  simp only [Bool.and_eq_true, decide_eq_true_eq]
  refine ⟨⟨⟨⟨dictInv_wf h.loc, dictInv_wf h.search⟩, ?_⟩, ?_⟩, ?_⟩
  · apply dictInv_agrees hn
    refine h.loc.congr ?_
    intro i c
    simp only [id]
    constructor
    · intro hx; exact ⟨c, hx, rfl⟩
    · rintro ⟨c0, hx, rfl⟩; exact hx
  · exact dictInv_agrees hn h.search
  · simpa [List.map_map, Function.comp_def] using hn

theorem inv08_of_Inv08 {s : Sim} (hwf : s.WF) (h : Inv08 env s) : inv08 env.parent s = true := by
  unfold inv08
  simp only [Bool.and_eq_true]
  exact ⟨⟨⟨idxInv_ok hwf.veh h.veh, idxInv_ok hwf.req h.req⟩, idxInv_ok hwf.stn h.stn⟩, idxInv_ok hwf.base h.base⟩

end Hive
