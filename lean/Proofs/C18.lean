/-
  Proofs.C18 — charging queues are first-come first-served.
  During the queueing part of `perform_vehicle_state_updates` free-plug counts never increase;
  a queued vehicle starts charging only if a plug was free at its turn; queued vehicles are
  processed in (enqueue time, id) order.
-/
import Mathlib.Tactic.Set
import Mathlib.Tactic.Tauto
import Hive.Inv
import Proofs.EnterPost
import Proofs.Lift

namespace Hive
variable {env : Env}

/-- free plugs of type `cid` at station `sid` (0 when unknown) -/
def availOf (s : Sim) (sid : StationId) (cid : ChargerId) : Nat :=
  match s.station? sid with
  | some st => st.availableChargers cid
  | none => 0

theorem availOf_congr {s s' : Sim} (h : s'.stations = s.stations) : availOf s' = availOf s := by
  funext sid cid; simp [availOf, Sim.station?, h]

theorem availOf_modifyStation {s s' : Sim} {st' : Station} (h : s.modifyStation env st' = .ok s')
    (sid : StationId) (cid : ChargerId) :
    availOf s' sid cid = if sid = st'.id then st'.availableChargers cid else availOf s sid cid := by
  obtain ⟨old, hold, _, rfl⟩ := Sim.modifyStation_ok h
  unfold availOf Sim.station?
  simp only
  by_cases hs : sid = st'.id
  · subst hs
    rw [lookup_replaceById_self hold]
    simp
  · rw [lookup_replaceById_ne _ _ hs]
    simp [hs]

theorem availableChargers_setPlug (st : Station) (cs' : ChargerState) (hn : (st.plugs.map ChargerState.id).Nodup)
    {cs : ChargerState} (hcs : st.plug? cs'.id = some cs) (cid : ChargerId) :
    (st.setPlug cs').availableChargers cid = if cid = cs'.id then cs'.avail else st.availableChargers cid := by
  unfold Station.availableChargers Station.plug? Station.setPlug
  simp only
  by_cases hc : cid = cs'.id
  · subst hc
    rw [lookup_replaceById_self hcs]
    simp
  · rw [lookup_replaceById_ne _ _ hc]
    simp [hc]

/-- an `updatePlug` that does not raise the free count of the plug it touches -/
theorem availableChargers_updatePlug {st st' : Station} {c : ChargerId} {op : ChargerState → Outcome ChargerState}
    (hn : (st.plugs.map ChargerState.id).Nodup)
    (hop : ∀ cs cs', op cs = .ok cs' → cs'.id = cs.id ∧ cs'.avail ≤ cs.avail)
    (h : st.updatePlug c op = .ok st') (cid : ChargerId) :
    st'.availableChargers cid ≤ st.availableChargers cid := by
  rcases Station.updatePlug_ok h with ⟨_, rfl⟩ | ⟨cs, cs', hcs, hcs', rfl⟩
  · exact Nat.le_refl _
  · obtain ⟨hid, hle⟩ := hop cs cs' hcs'
    have hcs0 : st.plug? cs'.id = some cs := by rw [hid, (lookup_some hcs).2]; exact hcs
    rw [availableChargers_setPlug st cs' hn hcs0]
    split
    · next hc =>
      subst hc
      have : st.availableChargers cs'.id = cs.avail := by
        unfold Station.availableChargers; rw [hcs0]
      rw [this]; exact hle
    · exact Nat.le_refl _

theorem hasAvailable_iff {st : Station} {cid : ChargerId} : st.hasAvailable cid = true ↔ 0 < st.availableChargers cid := by
  unfold Station.hasAvailable Station.availableChargers
  cases st.plug? cid with
  | none => simp
  | some cs => simp [ChargerState.hasAvailable]

/-- exit of `ChargeQueueing`: no plug is freed -/
theorem exit_queue_avail {s s1 : Sim} {v : VehicleId} {sid : StationId} {cid : ChargerId} {t : Time}
    (hwf : s.WF) (h : exit env s v (.chargeQueueing sid cid t) = .ok s1) :
    ∀ a c, availOf s1 a c ≤ availOf s a c := by
  simp only [exit] at h
  split at h
  · cases h
  · next st hst =>
    simp only [Outcome.bind_eq, Outcome.bind_eq_ok] at h
    obtain ⟨st', h1, h2⟩ := h
    intro a c
    rw [availOf_modifyStation h2]
    have hid : st'.id = st.id := (Station.updatePlug_shape h1).1
    split
    · next ha =>
      have : availOf s a c = st.availableChargers c := by
        unfold availOf; rw [ha, hid, station?_self hst]
      rw [this]
      refine availableChargers_updatePlug (hwf.plugs st (station?_some hst).1) ?_ h1 c
      intro cs cs' hop
      obtain ⟨_, rfl⟩ := (by
        unfold ChargerState.decEnq at hop
        split at hop
        · cases hop
        · cases hop; exact ⟨trivial, rfl⟩ : True ∧ cs' = { cs with enq := cs.enq - 1 })
      exact ⟨rfl, Nat.le_refl _⟩
    · exact Nat.le_refl _

/-- enter of `ChargingStation`: one plug is taken, none is freed -/
theorem enter_charging_avail {w w2 : World} {v : VehicleId} {sid : StationId} {cid : ChargerId}
    (hwf : w.sim.WF) (h : enter env w v (.chargingStation sid cid) = .ok w2) :
    ∀ a c, availOf w2.sim a c ≤ availOf w.sim a c := by
  simp only [enter] at h
  split at h
  · cases h
  · cases h
  · next veh st hveh hst =>
    split at h
    · cases h
    · split at h
      · cases h
      · split at h
        · cases h
        · split at h
          · cases h
          · split at h
            · cases h
            · simp only [Outcome.bind_eq, Outcome.bind_eq_ok, Outcome.pure_eq] at h
              obtain ⟨st', hco, s1, h0, s2, h1, h2⟩ := h
              cases h2
              intro a c
              obtain ⟨_, _, _, hs2, _⟩ := applyAct_fields h1
              simp only
              rw [availOf_congr hs2, availOf_modifyStation h0]
              have hid : st'.id = st.id := (Station.updatePlug_shape hco).1
              split
              · next ha =>
                have : availOf w.sim a c = st.availableChargers c := by
                  unfold availOf; rw [ha, hid, station?_self hst]
                rw [this]
                refine availableChargers_updatePlug (hwf.plugs st (station?_some hst).1) ?_ hco c
                intro cs cs' hop
                split at hop
                · cases hop
                · unfold ChargerState.decAvail at hop
                  split at hop
                  · cases hop
                  · cases hop; exact ⟨rfl, Nat.sub_le _ _⟩
              · exact Nat.le_refl _

theorem availOf_modifyStation_samePlugs {s s' : Sim} {st st' : Station} (hst : s.station? st.id = some st)
    (hid : st'.id = st.id) (hpl : st'.plugs = st.plugs) (h : s.modifyStation env st' = .ok s') :
    availOf s' = availOf s := by
  funext a c
  rw [availOf_modifyStation h]
  split
  · next ha =>
    unfold availOf
    rw [ha, hid, hst]
    simp only [Station.availableChargers, Station.plug?, hpl]
  · rfl

/-- `charge` does not touch plug counters and keeps the vehicle's activity -/
theorem charge_avail {w w2 : World} {v : VehicleId} {sid : StationId} {cid : ChargerId} {veh : Vehicle}
    (hveh : w.sim.vehicle? v = some veh) (h : charge env w v sid cid = .ok w2) :
    availOf w2.sim = availOf w.sim ∧ ∃ veh', w2.sim.vehicle? v = some veh' ∧ veh'.act = veh.act := by
  unfold charge at h
  split at h
  · cases h
  · next st hst =>
    rw [hveh] at h
    simp only at h
    split at h
    · cases h
    · split at h
      · cases h
      · split at h
        · cases h
        · simp only [Outcome.bind_eq, Outcome.bind_eq_ok, Outcome.pure_eq] at h
          obtain ⟨s1, h1, s2, h2, h3⟩ := h
          cases h3
          obtain ⟨_, _, hs1, _⟩ := Sim.modifyVehicle_fields h1
          have hst1 : s1.station? st.id = some st := by
            have := station?_self hst
            unfold Sim.station? at *; rw [hs1]; exact this
          refine ⟨?_, ?_⟩
          · simp only
            rw [availOf_modifyStation_samePlugs hst1 (by rfl) (by rfl) h2]
            exact availOf_congr hs1
          · have hself := modifyVehicle_self h1
            obtain ⟨_, _, _, hv2, _⟩ := Sim.modifyStation_fields h2
            simp only at hself
            rw [(vehicle?_some hveh).2] at hself
            exact ⟨_, (vehicle?_congr hv2 v).trans hself, rfl⟩

/-- the vehicle is no longer waiting in queue `(sid, cid)`: it charges there or - being full - has
    gone idle -/
def leftQueue (a : Act) (sid : StationId) (cid : ChargerId) : Prop :=
  a = .chargingStation sid cid ∨ ∃ d, a = .idle d

theorem enter_idle_stations {w w2 : World} {v : VehicleId} {d : Nat} (h : enter env w v (.idle d) = .ok w2) :
    w2.sim.stations = w.sim.stations ∧ ∃ veh, w.sim.vehicle? v = some veh ∧ w2.sim.vehicle? v = some { veh with act := .idle d } := by
  simp only [enter, Outcome.bind_eq, Outcome.bind_eq_ok, Outcome.pure_eq] at h
  obtain ⟨s2, h1, h2⟩ := h
  cases h2
  obtain ⟨veh, hv, hn⟩ := applyAct_self h1
  obtain ⟨_, _, _, hs, _⟩ := applyAct_fields h1
  exact ⟨hs, veh, hv, hn⟩

/-- the whole `default_update` of a queueing vehicle never frees a plug; the vehicle starts
    charging only when a plug of its type was free when its turn came, and when one was free (and
    the update went through) it has left the queue -/
theorem queue_update_spec {w w2 : World} {v : VehicleId} {sid : StationId} {cid : ChargerId} {t : Time}
    {veh : Vehicle} (hwf : w.sim.WF) (hveh : w.sim.vehicle? v = some veh)
    (hact : veh.act = .chargeQueueing sid cid t)
    (h : defaultUpdate env w v (.chargeQueueing sid cid t) = .ok w2) :
    (∀ s c, availOf w2.sim s c ≤ availOf w.sim s c) ∧
    (∀ veh', w2.sim.vehicle? v = some veh' →
      (veh'.act = .chargingStation sid cid → 0 < availOf w.sim sid cid) ∧
      (0 < availOf w.sim sid cid → leftQueue veh'.act sid cid)) := by
  unfold defaultUpdate at h
  split at h
  · next hterm =>
    simp only [Outcome.bind_eq, Outcome.bind_eq_ok] at h
    obtain ⟨next, hnext, w1, htr, h3⟩ := h
    -- the default next state: the station exists and has a free plug
    have hn : (next = .chargingStation sid cid ∨ next = .idle 0) ∧ 0 < availOf w.sim sid cid := by
      simp only [defaultNext] at hnext
      split at hnext
      · cases hnext
      · cases hnext
      · next veh0 st hveh0 hst =>
        split at hnext
        · cases hnext
        · next hav =>
          have hp : 0 < availOf w.sim sid cid := by
            unfold availOf; rw [hst]
            exact hasAvailable_iff.mp (by simpa using hav)
          split at hnext
          · cases hnext; exact ⟨Or.inr rfl, hp⟩
          · cases hnext; exact ⟨Or.inl rfl, hp⟩
    obtain ⟨hnx, hpos⟩ := hn
    unfold transition at htr
    simp only [Outcome.bind_eq, Outcome.bind_eq_ok] at htr
    obtain ⟨s1, hex, hen⟩ := htr
    have a1 := exit_queue_avail hwf hex
    have hwf1 := (exit_sameIds hwf hex).wf hwf
    rcases hnx with rfl | rfl
    · have a2 := enter_charging_avail (w := { w with sim := s1 }) hwf1 hen
      obtain ⟨_, veh1, _, hv1, _, _, hpost⟩ := enter_post hen
      simp only [EnterPost] at hpost
      rw [hv1] at h3
      simp only at h3
      rw [hpost.1] at h3
      simp only [performUpdate] at h3
      obtain ⟨a3, veh2, hv2, hact2⟩ := charge_avail hv1 h3
      refine ⟨fun a c => by rw [a3]; exact Nat.le_trans (a2 a c) (a1 a c), ?_⟩
      intro veh' hv'
      rw [hv2] at hv'
      cases hv'
      exact ⟨fun _ => hpos, fun _ => Or.inl (by rw [hact2, hpost.1])⟩
    · -- the full vehicle leaves the queue for Idle: no plug is touched
      obtain ⟨hst1, veh1, hv0, hv1⟩ := enter_idle_stations hen
      rw [hv1] at h3
      simp only [performUpdate] at h3
      rw [hv1] at h3
      simp only at h3
      split at h3
      · cases h3
      · simp only [Outcome.bind_eq, Outcome.bind_eq_ok, Outcome.pure_eq] at h3
        obtain ⟨s2, h1, h2⟩ := h3
        cases h2
        obtain ⟨_, _, hs2, _⟩ := Sim.modifyVehicle_fields h1
        refine ⟨fun a c => by
          simp only
          rw [availOf_congr hs2, availOf_congr hst1]
          exact a1 a c, ?_⟩
        intro veh' hv'
        have hself := modifyVehicle_self h1
        simp only at hself hv'
        have hid1 : veh1.id = v := (vehicle?_some hv0).2
        rw [hid1] at hself
        rw [hself] at hv'
        cases hv'
        exact ⟨fun ha => (by cases ha), fun _ => Or.inr ⟨_, rfl⟩⟩
  · next hterm =>
    -- not terminal: no plug is free; the vehicle idles in the queue
    simp only [performUpdate] at h
    rw [hveh] at h
    simp only at h
    split at h
    · cases h
    · simp only [Outcome.bind_eq, Outcome.bind_eq_ok, Outcome.pure_eq] at h
      obtain ⟨s2, h1, h2⟩ := h
      cases h2
      obtain ⟨_, _, hs2, _⟩ := Sim.modifyVehicle_fields h1
      refine ⟨fun a c => by simp only; rw [availOf_congr hs2]; exact Nat.le_refl _, ?_⟩
      intro veh' hv'
      have hself := modifyVehicle_self h1
      simp only at hself hv'
      rw [(vehicle?_some hveh).2] at hself
      rw [hself] at hv'
      cases hv'
      simp only
      have hzero : availOf w.sim sid cid = 0 := by
        simp only [terminal] at hterm
        unfold availOf
        cases hst : w.sim.station? sid with
        | none => rfl
        | some st =>
          rw [hst] at hterm
          simp only at hterm ⊢
          have : ¬ 0 < st.availableChargers cid := fun hp => hterm (hasAvailable_iff.mpr hp)
          omega
      rw [hzero, hact]
      exact ⟨fun ha => (by cases ha), fun hp => (by omega)⟩

end Hive

namespace Hive
variable {env : Env}

/-- a queueing vehicle of the snapshot -/
def isQueued (x : Vehicle) : Prop := ∃ s c t, x.act = .chargeQueueing s c t

/-- the queue part of the update fold -/
def qfold (env : Env) (L : List Vehicle) (w : World) : World :=
  L.foldl (fun acc x => stepVehicle env acc x.id x.act) w

theorem qfold_cons (x : Vehicle) (L : List Vehicle) (w : World) :
    qfold env (x :: L) w = qfold env L (stepVehicle env w x.id x.act) := rfl

theorem qfold_append (L1 L2 : List Vehicle) (w : World) :
    qfold env (L1 ++ L2) w = qfold env L2 (qfold env L1 w) := by
  simp [qfold, List.foldl_append]

/-- one step of a queueing vehicle whose snapshot is honest -/
theorem qstep {w : World} {x veh : Vehicle} (hwf : w.sim.WF) (hq : isQueued x)
    (hveh : w.sim.vehicle? x.id = some veh) (hact : veh.act = x.act) :
    (stepVehicle env w x.id x.act).sim.WF ∧
    (∀ a c, availOf (stepVehicle env w x.id x.act).sim a c ≤ availOf w.sim a c) ∧
    (∀ u, u ≠ x.id → (stepVehicle env w x.id x.act).sim.vehicle? u = w.sim.vehicle? u) := by
  rcases stepVehicle_cases (env := env) w x.id x.act with heq | hok
  · rw [heq]; exact ⟨hwf, fun _ _ => Nat.le_refl _, fun _ _ => rfl⟩
  · obtain ⟨s, c, t, hx⟩ := hq
    obtain ⟨hfr, hid⟩ := defaultUpdate_frame hwf hok
    rw [hx] at hok
    have := (queue_update_spec hwf hveh (by rw [hact, hx]) hok).1
    rw [← hx] at this
    exact ⟨hid.wf hwf, this, hfr.others⟩

theorem qfold_spec : ∀ (L : List Vehicle) {w : World}, w.sim.WF → (L.map Vehicle.id).Nodup →
    (∀ x ∈ L, isQueued x ∧ ∃ veh, w.sim.vehicle? x.id = some veh ∧ veh.act = x.act) →
    (qfold env L w).sim.WF ∧
    (∀ a c, availOf (qfold env L w).sim a c ≤ availOf w.sim a c) ∧
    (∀ u, u ∉ L.map Vehicle.id → (qfold env L w).sim.vehicle? u = w.sim.vehicle? u)
  | [], w, hwf, _, _ => ⟨hwf, fun _ _ => Nat.le_refl _, fun _ _ => rfl⟩
  | x :: L, w, hwf, hnd, hall => by
    simp only [List.map_cons, List.nodup_cons] at hnd
    obtain ⟨hq, veh, hveh, hact⟩ := hall x List.mem_cons_self
    obtain ⟨hwf1, ha1, ho1⟩ := qstep (env := env) hwf hq hveh hact
    have hall' : ∀ y ∈ L, isQueued y ∧ ∃ veh, (stepVehicle env w x.id x.act).sim.vehicle? y.id = some veh ∧ veh.act = y.act := by
      intro y hy
      obtain ⟨hqy, vy, hvy, hay⟩ := hall y (List.mem_cons_of_mem _ hy)
      have hne : y.id ≠ x.id := by
        intro heq; apply hnd.1; rw [← heq]; exact List.mem_map_of_mem hy
      exact ⟨hqy, vy, by rw [ho1 y.id hne]; exact hvy, hay⟩
    obtain ⟨hwf2, ha2, ho2⟩ := qfold_spec L hwf1 hnd.2 hall'
    rw [qfold_cons]
    refine ⟨hwf2, fun a c => Nat.le_trans (ha2 a c) (ha1 a c), ?_⟩
    intro u hu
    simp only [List.map_cons, List.mem_cons, not_or] at hu
    rw [ho2 u hu.2, ho1 u hu.1]

/-- **first-come first-served along the processing order**: if `q` (processed after `q'`, same
    station and plug type) ends the phase charging there, then a plug of that type was free when
    `q'`'s turn came, and `q'` — unless its own update failed — has left the queue too (it is
    charging there, or being full it has gone idle) -/
theorem fifo_fold {pre mid post : List Vehicle} {q' q : Vehicle} {w0 : World} {sid : StationId} {cid : ChargerId}
    {t' t : Time}
    (hwf : w0.sim.WF) (hnd : ((pre ++ q' :: mid ++ q :: post).map Vehicle.id).Nodup)
    (hall : ∀ x ∈ pre ++ q' :: mid ++ q :: post, isQueued x ∧ ∃ veh, w0.sim.vehicle? x.id = some veh ∧ veh.act = x.act)
    (hq' : q'.act = .chargeQueueing sid cid t') (hq : q.act = .chargeQueueing sid cid t)
    (hcharging : ∃ veh, (qfold env (pre ++ q' :: mid ++ q :: post) w0).sim.vehicle? q.id = some veh ∧
      veh.act = .chargingStation sid cid) :
    0 < availOf (qfold env pre w0).sim sid cid ∧
    ((∃ w2, defaultUpdate env (qfold env pre w0) q'.id q'.act = .ok w2) →
      ∃ veh, (qfold env (pre ++ q' :: mid ++ q :: post) w0).sim.vehicle? q'.id = some veh ∧
        leftQueue veh.act sid cid) := by
  -- split the fold
  have hsplit : qfold env (pre ++ q' :: mid ++ q :: post) w0
      = qfold env post (stepVehicle env (qfold env mid (stepVehicle env (qfold env pre w0) q'.id q'.act)) q.id q.act) := by
    rw [show pre ++ q' :: mid ++ q :: post = pre ++ (q' :: (mid ++ q :: post)) by simp]
    rw [qfold_append, qfold_cons, qfold_append, qfold_cons]
  -- nodup facts
  have hids : ((pre ++ q' :: (mid ++ q :: post)).map Vehicle.id).Nodup := by simpa using hnd
  rw [List.map_append, List.nodup_append] at hids
  obtain ⟨hnpre, hnrest, hdisj⟩ := hids
  simp only [List.map_cons, List.nodup_cons] at hnrest
  obtain ⟨hq'notin, hnrest2⟩ := hnrest
  rw [List.map_append, List.nodup_append] at hnrest2
  obtain ⟨hnmid, hnqpost, hdisj2⟩ := hnrest2
  simp only [List.map_cons, List.nodup_cons] at hnqpost
  obtain ⟨hqnotpost, hnpost⟩ := hnqpost
  have hmem : ∀ x, x ∈ pre ∨ x = q' ∨ x ∈ mid ∨ x = q ∨ x ∈ post → x ∈ pre ++ q' :: mid ++ q :: post := by
    intro x hx; simp only [List.append_assoc, List.cons_append, List.mem_append, List.mem_cons]; tauto
  -- stage 1: pre
  set w1 := qfold env pre w0 with hw1
  obtain ⟨hwf1, _, ho1⟩ := qfold_spec (env := env) pre hwf hnpre (fun x hx => hall x (hmem x (Or.inl hx)))
  have honest1 : ∀ x, x = q' ∨ x ∈ mid ∨ x = q ∨ x ∈ post →
      isQueued x ∧ ∃ veh, w1.sim.vehicle? x.id = some veh ∧ veh.act = x.act := by
    intro x hx
    obtain ⟨hqx, vx, hvx, hax⟩ := hall x (hmem x (Or.inr hx))
    refine ⟨hqx, vx, ?_, hax⟩
    rw [ho1 x.id]
    · exact hvx
    · intro hin
      have : x.id ∈ (q' :: (mid ++ q :: post)).map Vehicle.id := by
        apply List.mem_map_of_mem
        simp only [List.mem_cons, List.mem_append]; tauto
      exact hdisj _ hin _ this rfl
  -- stage 2: q'
  obtain ⟨hq'Q, vq', hvq', haq'⟩ := honest1 q' (Or.inl rfl)
  set w2 := stepVehicle env w1 q'.id q'.act with hw2
  obtain ⟨hwf2, ha2, ho2⟩ := qstep (env := env) hwf1 hq'Q hvq' haq'
  have honest2 : ∀ x, x ∈ mid ∨ x = q ∨ x ∈ post →
      isQueued x ∧ ∃ veh, w2.sim.vehicle? x.id = some veh ∧ veh.act = x.act := by
    intro x hx
    obtain ⟨hqx, vx, hvx, hax⟩ := honest1 x (Or.inr hx)
    refine ⟨hqx, vx, ?_, hax⟩
    rw [ho2 x.id]
    · exact hvx
    · intro heq
      apply hq'notin
      rw [← heq]
      apply List.mem_map_of_mem
      simp only [List.mem_append, List.mem_cons]; tauto
  -- stage 3: mid
  set w3 := qfold env mid w2 with hw3
  obtain ⟨hwf3, ha3, ho3⟩ := qfold_spec (env := env) mid hwf2 hnmid (fun x hx => honest2 x (Or.inl hx))
  have hqnotmid : q.id ∉ mid.map Vehicle.id := by
    intro hin
    exact hdisj2 _ hin _ (List.mem_map_of_mem (List.mem_cons_self)) rfl
  obtain ⟨hqQ, vq, hvq2, haq⟩ := honest2 q (Or.inr (Or.inl rfl))
  have hvq3 : w3.sim.vehicle? q.id = some vq := by rw [ho3 q.id hqnotmid]; exact hvq2
  -- stage 4: q
  set w4 := stepVehicle env w3 q.id q.act with hw4
  -- stage 5: post does not touch q nor q'
  obtain ⟨vend, hvend, hactend⟩ := hcharging
  rw [hsplit] at hvend
  obtain ⟨hwf4, _, ho4⟩ := qstep (env := env) hwf3 hqQ hvq3 haq
  have honest4 : ∀ x ∈ post, isQueued x ∧ ∃ veh, w4.sim.vehicle? x.id = some veh ∧ veh.act = x.act := by
    intro x hx
    obtain ⟨hqx, vx, hvx, hax⟩ := honest2 x (Or.inr (Or.inr hx))
    refine ⟨hqx, vx, ?_, hax⟩
    have hxmid : x.id ∉ mid.map Vehicle.id := by
      intro hin
      exact hdisj2 _ hin _ (List.mem_map_of_mem (List.mem_cons_of_mem _ hx)) rfl
    have hxq : x.id ≠ q.id := by
      intro heq; apply hqnotpost; rw [← heq]; exact List.mem_map_of_mem hx
    rw [ho4 x.id hxq, ho3 x.id hxmid]; exact hvx
  obtain ⟨_, _, ho5⟩ := qfold_spec (env := env) post hwf4 hnpost honest4
  rw [ho5 q.id hqnotpost] at hvend
  change w4.sim.vehicle? q.id = some vend at hvend
  -- q is charging right after its own step: its update went through and a plug was free
  have hpos3 : 0 < availOf w3.sim sid cid := by
    rcases stepVehicle_cases (env := env) w3 q.id q.act with heq | hok
    · rw [hw4, heq, hvq3] at hvend
      cases hvend
      rw [haq, hq] at hactend
      cases hactend
    · rw [hq] at hok
      have := (queue_update_spec hwf3 hvq3 (by rw [haq, hq]) hok).2 vend (by rw [← hq]; exact hvend)
      exact this.1 hactend
  have hpos1 : 0 < availOf w1.sim sid cid :=
    Nat.lt_of_lt_of_le hpos3 (Nat.le_trans (ha3 sid cid) (ha2 sid cid))
  refine ⟨hpos1, ?_⟩
  rintro ⟨w2', hok'⟩
  -- q' 's update went through with a free plug: it is charging, and nobody touches it afterwards
  have hstep : w2 = w2' := by
    rw [hw2]; unfold stepVehicle; rw [hok']
  rw [hq'] at hok'
  obtain ⟨vq2, hvq2'⟩ : ∃ vq2, w2'.sim.vehicle? q'.id = some vq2 := by
    obtain ⟨hfr, _⟩ := defaultUpdate_frame hwf1 hok'
    -- the vehicle still exists: same ids
    have hid := (defaultUpdate_frame hwf1 hok').2
    have hmemv : q'.id ∈ w1.sim.vehicles.map Vehicle.id := by
      have := (vehicle?_some hvq').1
      have h2 := (vehicle?_some hvq').2
      rw [← h2]; exact List.mem_map_of_mem this
    rw [← hid.veh] at hmemv
    obtain ⟨y, hy, hyid⟩ := List.mem_map.mp hmemv
    exact ⟨y, by rw [← hyid]; exact lookup_of_mem (hid.wf hwf1).veh hy⟩
  have hch := ((queue_update_spec hwf1 hvq' (by rw [haq', hq']) hok').2 vq2 hvq2').2 hpos1
  refine ⟨vq2, ?_, hch⟩
  rw [hsplit]
  have hq'notmid : q'.id ∉ mid.map Vehicle.id := by
    intro hin; apply hq'notin
    rw [List.map_append]; exact List.mem_append_left _ hin
  have hq'neq : q'.id ≠ q.id := by
    intro heq; apply hq'notin
    rw [heq, List.map_append]
    exact List.mem_append_right _ (List.mem_map_of_mem List.mem_cons_self)
  have hq'notpost : q'.id ∉ post.map Vehicle.id := by
    intro hin; apply hq'notin
    rw [List.map_append, List.map_cons]
    exact List.mem_append_right _ (List.mem_cons_of_mem _ hin)
  rw [ho5 q'.id hq'notpost, ho4 q'.id hq'neq, ho3 q'.id hq'notmid]
  change w2.sim.vehicle? q'.id = some vq2
  rw [hstep]
  exact hvq2'

end Hive

namespace Hive
variable {env : Env}

section Sorted
variable {α : Type} {le : α → α → Bool}

theorem mem_insertBy {x y : α} {l : List α} : y ∈ insertBy le x l ↔ y = x ∨ y ∈ l := by
  induction l with
  | nil => simp [insertBy]
  | cons z zs ih =>
    simp only [insertBy]
    split
    · simp
    · simp only [List.mem_cons, ih]
      constructor
      · rintro (h | h | h) <;> tauto
      · rintro (h | h | h) <;> tauto

theorem insertBy_pairwise (htot : ∀ a b, le a b = true ∨ le b a = true)
    (htr : ∀ a b c, le a b = true → le b c = true → le a c = true) (x : α) {l : List α}
    (h : l.Pairwise (fun a b => le a b = true)) : (insertBy le x l).Pairwise (fun a b => le a b = true) := by
  induction l with
  | nil => simp [insertBy]
  | cons z zs ih =>
    rw [List.pairwise_cons] at h
    simp only [insertBy]
    split
    · next hxz =>
      rw [List.pairwise_cons]
      refine ⟨?_, List.pairwise_cons.mpr h⟩
      intro y hy
      rcases List.mem_cons.mp hy with rfl | hy'
      · exact hxz
      · exact htr _ _ _ hxz (h.1 y hy')
    · next hxz =>
      rw [List.pairwise_cons]
      refine ⟨?_, ih h.2⟩
      intro y hy
      rcases mem_insertBy.mp hy with rfl | hy'
      · rcases htot z y with h1 | h1
        · exact h1
        · exact absurd h1 hxz
      · exact h.1 y hy'

theorem sortBy_pairwise (htot : ∀ a b, le a b = true ∨ le b a = true)
    (htr : ∀ a b c, le a b = true → le b c = true → le a c = true) (l : List α) :
    (sortBy le l).Pairwise (fun a b => le a b = true) := by
  induction l with
  | nil => simp [sortBy]
  | cons x xs ih => simp only [sortBy]; exact insertBy_pairwise htot htr x ih

/-- in a sorted list an element with a strictly smaller key stands before one with a larger key -/
theorem sorted_before (hrefl : ∀ a, le a a = true) {l : List α} (hs : l.Pairwise (fun a b => le a b = true))
    {a b : α} (ha : a ∈ l) (hb : b ∈ l) (hlt : le b a = false) :
    ∃ pre mid post, l = pre ++ a :: mid ++ b :: post := by
  induction l with
  | nil => cases ha
  | cons x xs ih =>
    rw [List.pairwise_cons] at hs
    rcases List.mem_cons.mp ha with rfl | ha'
    · rcases List.mem_cons.mp hb with rfl | hb'
      · rw [hrefl] at hlt; cases hlt
      · obtain ⟨mid, post, hsplit⟩ := List.append_of_mem hb'
        exact ⟨[], mid, post, by simp [hsplit]⟩
    · rcases List.mem_cons.mp hb with rfl | hb'
      · have := hs.1 a ha'
        rw [this] at hlt; cases hlt
      · obtain ⟨pre, mid, post, hsplit⟩ := ih hs.2 ha' hb'
        exact ⟨x :: pre, mid, post, by simp [hsplit]⟩

end Sorted

theorem lexLe_total (a b : Int × Nat) : lexLe a b = true ∨ lexLe b a = true := by
  unfold lexLe
  simp only [Bool.or_eq_true, decide_eq_true_eq, Bool.and_eq_true, beq_iff_eq]
  omega

theorem lexLe_trans (a b c : Int × Nat) (h1 : lexLe a b = true) (h2 : lexLe b c = true) : lexLe a c = true := by
  unfold lexLe at *
  simp only [Bool.or_eq_true, decide_eq_true_eq, Bool.and_eq_true, beq_iff_eq] at *
  omega

theorem lexLe_refl (a : Int × Nat) : lexLe a a = true := by
  unfold lexLe; simp

/-- the key `perform_vehicle_state_updates` sorts the queueing vehicles by -/
def qkey (v : Vehicle) : Int × Nat := match v.act with
  | .chargeQueueing _ _ t => (t, v.id)
  | _ => (0, v.id)

/-- the queueing vehicles of a snapshot in processing order -/
def queueOrder (vs : List Vehicle) : List Vehicle :=
  sortBy (fun a b => lexLe (qkey a) (qkey b))
    (vs.filter fun v => match v.act with | .chargeQueueing _ _ _ => true | _ => false)

theorem updateOrder_eq (vs : List Vehicle) :
    updateOrder vs = sortBy (fun a b => decide (a.id ≤ b.id))
      (vs.filter fun v => !(match v.act with | .chargeQueueing _ _ _ => true | _ => false)) ++ queueOrder vs := by
  unfold updateOrder queueOrder qkey
  rfl

/-- **queued vehicles are processed in order of arrival (ties by id)** -/
theorem queue_processing_order {vs : List Vehicle} {q' q : Vehicle} (hq' : q' ∈ vs) (hq : q ∈ vs)
    {s' c' s c : Nat} {t' t : Time} (ha' : q'.act = .chargeQueueing s' c' t') (ha : q.act = .chargeQueueing s c t)
    (hlt : t' < t ∨ (t' = t ∧ q'.id < q.id)) :
    ∃ pre mid post, queueOrder vs = pre ++ q' :: mid ++ q :: post := by
  have hsorted := sortBy_pairwise (le := fun a b : Vehicle => lexLe (qkey a) (qkey b))
    (fun a b => lexLe_total _ _) (fun a b c => lexLe_trans _ _ _)
    (vs.filter fun v => match v.act with | .chargeQueueing _ _ _ => true | _ => false)
  have hmem : ∀ x : Vehicle, x ∈ vs → (∃ s c t, x.act = .chargeQueueing s c t) → x ∈ queueOrder vs := by
    intro x hx ⟨s, c, t, hxa⟩
    unfold queueOrder
    rw [(sortBy_perm _ _).mem_iff, List.mem_filter]
    exact ⟨hx, by rw [hxa]⟩
  refine sorted_before (le := fun a b : Vehicle => lexLe (qkey a) (qkey b)) (fun a => lexLe_refl _) hsorted
    (hmem q' hq' ⟨_, _, _, ha'⟩) (hmem q hq ⟨_, _, _, ha⟩) ?_
  show lexLe (qkey q) (qkey q') = false
  unfold lexLe qkey
  rw [ha, ha']
  simp only [Bool.or_eq_false_iff, decide_eq_false_iff_not, Bool.and_eq_false_imp, beq_iff_eq]
  rcases hlt with h | ⟨h1, h2⟩
  · refine ⟨Int.lt_asymm h, ?_⟩
    intro heq
    rw [heq] at h
    exact absurd h (Int.lt_irrefl _)
  · subst h1
    exact ⟨Int.lt_irrefl _, fun _ => Nat.not_le.mpr h2⟩

end Hive

namespace Hive
variable {env : Env}

/-- updates of the vehicles in `L` (any activities) leave every other vehicle untouched -/
theorem fold_frame : ∀ (L : List Vehicle) {w : World}, w.sim.WF → (L.map Vehicle.id).Nodup →
    (qfold env L w).sim.WF ∧ (∀ u, u ∉ L.map Vehicle.id → (qfold env L w).sim.vehicle? u = w.sim.vehicle? u)
  | [], w, hwf, _ => ⟨hwf, fun _ _ => rfl⟩
  | x :: L, w, hwf, hnd => by
    simp only [List.map_cons, List.nodup_cons] at hnd
    rw [qfold_cons]
    have h1 : (stepVehicle env w x.id x.act).sim.WF ∧
        ∀ u, u ≠ x.id → (stepVehicle env w x.id x.act).sim.vehicle? u = w.sim.vehicle? u := by
      rcases stepVehicle_cases (env := env) w x.id x.act with heq | hok
      · rw [heq]; exact ⟨hwf, fun _ _ => rfl⟩
      · obtain ⟨hfr, hid⟩ := defaultUpdate_frame hwf hok
        exact ⟨hid.wf hwf, hfr.others⟩
    obtain ⟨hwf2, ho2⟩ := fold_frame L h1.1 hnd.2
    refine ⟨hwf2, ?_⟩
    intro u hu
    simp only [List.map_cons, List.mem_cons, not_or] at hu
    rw [ho2 u hu.2, h1.2 u hu.1]

end Hive
