/-
  Proofs.Timed — lemmas for C11: the windowed reader, admission, cancellation, price windows.
-/
import Hive.MonitorTimed
import Proofs.C08

namespace Hive
namespace Timed

/-! ### the reader -/

section Reader
variable {α : Type} (key : α → Time)

theorem readRest_fst (now : Time) (l : List α) :
    (readRest key now l).1 = l.takeWhile (fun x => decide (key x < now)) := by
  induction l with
  | nil => rfl
  | cons x xs ih =>
    unfold readRest
    by_cases h : key x < now
    · simp [h, ih]
    · simp [h]

theorem readRest_pending (now : Time) (l : List α) :
    (readRest key now l).2.pending = l.dropWhile (fun x => decide (key x < now)) := by
  induction l with
  | nil => rfl
  | cons x xs ih =>
    unfold readRest
    by_cases h : key x < now
    · simp [h, ih]
    · simp [h, Reader.pending]

/-- a read hands out the longest prefix of the pending rows that lies inside the window … -/
theorem read_fst (now : Time) (r : Reader α) :
    (r.read key now).1 = r.pending.takeWhile (fun x => decide (key x < now)) := by
  unfold Reader.read Reader.pending
  cases hh : r.history with
  | none => simp [readRest_fst]
  | some h =>
    by_cases hk : key h < now
    · simp [hk, readRest_fst]
    · simp [hk]

/-- … and keeps the rest, in order, for later (the look-ahead row included) -/
theorem read_pending (now : Time) (r : Reader α) :
    (r.read key now).2.pending = r.pending.dropWhile (fun x => decide (key x < now)) := by
  have hr := readRest_pending key now r.rest
  unfold Reader.read
  cases hh : r.history with
  | none => simp only [hr]; simp [Reader.pending, hh]
  | some h =>
    by_cases hk : key h < now
    · simp only [hk, if_true, hr]; simp [Reader.pending, hh, hk]
    · simp [hk, Reader.pending, hh]

/-- the file is sorted by the step column -/
def Sorted (l : List α) : Prop := l.Pairwise (fun a b => key a ≤ key b)

theorem takeWhile_sorted {l : List α} (h : Sorted key l) (now : Time) :
    l.takeWhile (fun x => decide (key x < now)) = l.filter (fun x => decide (key x < now)) := by
  induction l with
  | nil => rfl
  | cons x xs ih =>
    have hs := List.pairwise_cons.mp h
    by_cases hk : key x < now
    · simp [hk, ih hs.2]
    · have : xs.filter (fun y => decide (key y < now)) = [] := by
        rw [List.filter_eq_nil_iff]
        intro y hy
        have := hs.1 y hy
        simp only [decide_eq_true_eq]
        intro hlt
        exact hk (Int.lt_of_le_of_lt this hlt)
      simp [hk, this]

theorem dropWhile_sorted {l : List α} (h : Sorted key l) (now : Time) :
    l.dropWhile (fun x => decide (key x < now)) = l.filter (fun x => !decide (key x < now)) := by
  induction l with
  | nil => rfl
  | cons x xs ih =>
    have hs := List.pairwise_cons.mp h
    by_cases hk : key x < now
    · simp [hk, ih hs.2]
    · have : xs.filter (fun y => !decide (key y < now)) = xs := by
        rw [List.filter_eq_self]
        intro y hy
        have := hs.1 y hy
        simp only [Bool.not_eq_true', decide_eq_false_iff_not]
        intro hlt
        exact hk (Int.lt_of_le_of_lt this hlt)
      simp [hk, this]

theorem Sorted.filter {l : List α} (h : Sorted key l) (p : α → Bool) : Sorted key (l.filter p) :=
  List.Pairwise.sublist List.filter_sublist h

/-- successive reads at the given times -/
def readAll : List Time → Reader α → List (List α)
  | [], _ => []
  | t :: ts, r => (r.read key t).1 :: readAll ts (r.read key t).2

/-- what is still unread after the reads -/
def readLeft : List Time → Reader α → Reader α
  | [], r => r
  | t :: ts, r => readLeft ts (r.read key t).2

/-- **every row is handed out at most once, in file order, and none is lost**: the windows read
    so far followed by what is still pending are the file (sorted or not) -/
theorem readAll_partition (ts : List Time) (r : Reader α) :
    (readAll key ts r).flatten ++ (readLeft key ts r).pending = r.pending := by
  induction ts generalizing r with
  | nil => simp [readAll, readLeft]
  | cons t ts ih =>
    simp only [readAll, readLeft, List.flatten_cons, List.append_assoc]
    rw [ih, read_fst, read_pending, List.takeWhile_append_dropWhile]

/-- the windows of a sorted file, without the reader -/
def windows : List Time → List α → List (List α)
  | [], _ => []
  | t :: ts, l => l.filter (fun x => decide (key x < t)) :: windows ts (l.filter (fun x => !decide (key x < t)))

theorem readAll_eq_windows (ts : List Time) (r : Reader α) (h : Sorted key r.pending) :
    readAll key ts r = windows key ts r.pending := by
  induction ts generalizing r with
  | nil => rfl
  | cons t ts ih =>
    simp only [readAll, windows]
    rw [read_fst, takeWhile_sorted key h]
    congr 1
    have hp : (r.read key t).2.pending = r.pending.filter (fun x => !decide (key x < t)) := by
      rw [read_pending, dropWhile_sorted key h]
    rw [ih _ (by rw [hp]; exact h.filter key _), hp]

/-- **the row comes out in the first window whose time lies after its key** -/
theorem mem_windows (ts : List Time) (l : List α) (k : Nat) (w : List α) (hw : (windows key ts l)[k]? = some w)
    (x : α) :
    x ∈ w ↔ x ∈ l ∧ (∃ t, ts[k]? = some t ∧ key x < t) ∧ ∀ j, j < k → ∀ t, ts[j]? = some t → t ≤ key x := by
  induction ts generalizing l k with
  | nil => simp [windows] at hw
  | cons t ts ih =>
    cases k with
    | zero =>
      simp only [windows, List.getElem?_cons_zero, Option.some.injEq] at hw
      subst hw
      simp
    | succ k =>
      simp only [windows, List.getElem?_cons_succ] at hw
      rw [ih _ k hw]
      simp only [List.mem_filter, Bool.not_eq_true', decide_eq_false_iff_not, Int.not_lt,
        List.getElem?_cons_succ]
      constructor
      · rintro ⟨⟨hx, ht⟩, he, hall⟩
        refine ⟨hx, he, ?_⟩
        intro j hj t' ht'
        cases j with
        | zero => simp at ht'; subst ht'; exact ht
        | succ j => exact hall j (by omega) t' (by simpa using ht')
      · rintro ⟨hx, he, hall⟩
        refine ⟨⟨hx, hall 0 (by omega) t (by simp)⟩, he, ?_⟩
        intro j hj t' ht'
        exact hall (j + 1) (by omega) t' (by simpa using ht')

/-- window sizes never exceed the file: each window is a sub-list of the rows -/
theorem windows_sublist (ts : List Time) (l : List α) : ∀ w ∈ windows key ts l, w.Sublist l := by
  induction ts generalizing l with
  | nil => simp [windows]
  | cons t ts ih =>
    intro w hw
    simp only [windows, List.mem_cons] at hw
    rcases hw with rfl | hw
    · exact List.filter_sublist
    · exact (ih _ w hw).trans List.filter_sublist

end Reader


/-! ### requests -/

variable {env : Env}

/-- what admission and cancellation need of a state: distinct request ids and a consistent
    request index (both hold in every reachable state: `Sim.WF`, C08) -/
structure RInv (env : Env) (s : Sim) : Prop where
  nodup : (s.requests.map (·.id)).Nodup
  idx : IdxInv env.parent s.rIdx (cellOfReq s)

theorem rinv_of (hwf : s.WF) (h : Inv08 env s) : RInv env s := ⟨hwf.req, h.req⟩

theorem request?_none_iff {s : Sim} {i : RequestId} : s.request? i = none ↔ i ∉ s.requests.map (·.id) := by
  constructor
  · intro h hm
    obtain ⟨r, hr, rfl⟩ := List.mem_map.mp hm
    exact lookup_none h r hr rfl
  · intro h
    unfold Sim.request? lookup
    rw [List.find?_eq_none]
    intro r hr
    simp only [beq_iff_eq]
    intro he
    exact h (List.mem_map.mpr ⟨r, hr, he⟩)

theorem addRequest_fresh_ok {s : Sim} {r : Request} (hf : env.inFence r.pos.cell = true)
    (hfresh : s.request? r.id = none) :
    s.addRequest env r = .ok { s with requests := s.requests ++ [r],
                                       rIdx := Index.add env.parent s.rIdx r.pos.cell r.id } := by
  unfold Sim.addRequest
  simp only [hf, Bool.not_true, Bool.false_eq_true, if_false, hfresh]
  rw [upsert_fresh hfresh]

theorem rinv_add {s s' : Sim} {r : Request} (hI : RInv env s) (hfresh : s.request? r.id = none)
    (h : s.addRequest env r = .ok s') : RInv env s' := by
  obtain ⟨_, _, _, _, _, hreq, hne, hself⟩ := addRequest_fields hfresh h
  have hidx : s'.rIdx = Index.add env.parent s.rIdx r.pos.cell r.id := by rw [addRequest_fresh hfresh h]
  refine ⟨?_, ?_⟩
  · rw [hreq, List.map_append, List.nodup_append]
    refine ⟨hI.nodup, by simp, ?_⟩
    intro a ha b hb
    simp only [List.map_cons, List.map_nil, List.mem_singleton] at hb
    subst hb
    intro he
    subst he
    exact request?_none_iff.mp hfresh ha
  · have hfr : cellOfReq s r.id = none := by simp [cellOfReq, hfresh]
    have hc : cellOfReq s' = updCell (cellOfReq s) r.id (some r.pos.cell) := by
      funext i
      unfold cellOfReq updCell
      by_cases hi' : i = r.id
      · subst hi'; simp [hself]
      · simp [hi', hne i hi']
    rw [hc, hidx]; exact idx_add hI.idx hfr r.pos.cell

theorem rinv_remove {s s' : Sim} {i : RequestId} (hI : RInv env s) (h : s.removeRequest env i = .ok s') :
    RInv env s' := by
  obtain ⟨old, hold, hrem, hr, _⟩ := removeRequest_idx h
  refine ⟨?_, ?_⟩
  · rw [hr]
    exact List.Nodup.sublist (List.Sublist.map _ List.filter_sublist) hI.nodup
  · obtain ⟨ix', hix, hinv⟩ := idx_remove hI.idx (i := i) (c := old.pos.cell) (by simp [cellOfReq, hold])
    rw [hrem] at hix
    cases hix
    have hc : cellOfReq s' = updCell (cellOfReq s) i none := by
      unfold cellOfReq Sim.request?
      rw [hr]
      exact lookup_remove_upd (fun r : Request => r.pos.cell) i
    rw [hc]; exact hinv

/-- under `RInv` a present request can always be removed -/
theorem removeRequest_succeeds {s : Sim} {i : RequestId} {r : Request} (hI : RInv env s)
    (hr : s.request? i = some r) :
    ∃ s', s.removeRequest env i = .ok s' ∧ s'.requests = s.requests.filter (fun y => y.id != i) ∧
      s'.time = s.time ∧ s'.stations = s.stations ∧ s'.vehicles = s.vehicles ∧ s'.dt = s.dt := by
  obtain ⟨ix', hix, _⟩ := idx_remove hI.idx (i := i) (c := r.pos.cell) (by simp [cellOfReq, hr])
  refine ⟨{ s with requests := removeById Request.id s.requests i, rIdx := ix' }, ?_, rfl, rfl, rfl, rfl, rfl⟩
  unfold Sim.removeRequest
  simp [hr, hix]

/-- one row of the window -/
theorem admitRow_spec (cfg : Cfg) {w : World} {row : ReqRow} (hf : ∀ c, env.inFence c = true)
    (hI : RInv env w.sim) (hfresh : w.sim.request? row.req.id = none) :
    RInv env (admitRow env cfg w row).sim ∧ (admitRow env cfg w row).sim.time = w.sim.time ∧
    (admitRow env cfg w row).sim.requests =
      w.sim.requests ++ (if admissible cfg w.sim.time row then [row.req] else []) ∧
    (admitRow env cfg w row).log =
      w.log ++ (if admissible cfg w.sim.time row then [Event.addRequest row.req.id] else []) ∧
    (admitRow env cfg w row).sim.stations = w.sim.stations ∧
    (admitRow env cfg w row).sim.vehicles = w.sim.vehicles ∧ (admitRow env cfg w row).sim.dt = w.sim.dt := by
  by_cases ha : admissible cfg w.sim.time row = true
  · have hok := addRequest_fresh_ok (env := env) (hf row.req.pos.cell) hfresh
    have hw : admitRow env cfg w row =
        { sim := { w.sim with requests := w.sim.requests ++ [row.req],
                              rIdx := Index.add env.parent w.sim.rIdx row.req.pos.cell row.req.id },
          log := w.log ++ [Event.addRequest row.req.id] } := by
      unfold admitRow; simp only [ha, if_true, hok]
    rw [hw]
    simp only [ha, if_true]
    exact ⟨rinv_add hI hfresh hok, trivial, trivial, trivial, trivial, trivial, trivial⟩
  · have hw : admitRow env cfg w row = w := by
      unfold admitRow; simp only [ha, Bool.false_eq_true, if_false]
    rw [hw]
    simp only [ha, Bool.false_eq_true, if_false, List.append_nil]
    exact ⟨hI, trivial, trivial, trivial, trivial, trivial, trivial⟩

/-- **a window of rows with fresh, distinct ids: exactly the admissible ones are added, once each,
    in file order, and an add event is filed for each** -/
theorem admitRows_spec (cfg : Cfg) (hf : ∀ c, env.inFence c = true) (rows : List ReqRow) (w : World)
    (hI : RInv env w.sim) (hnd : (rows.map (·.req.id)).Nodup)
    (hfresh : ∀ row ∈ rows, row.req.id ∉ w.sim.requests.map (·.id)) :
    RInv env (rows.foldl (admitRow env cfg) w).sim ∧ (rows.foldl (admitRow env cfg) w).sim.time = w.sim.time ∧
    (rows.foldl (admitRow env cfg) w).sim.requests =
      w.sim.requests ++ (rows.filter (admissible cfg w.sim.time)).map (·.req) ∧
    (rows.foldl (admitRow env cfg) w).log =
      w.log ++ (rows.filter (admissible cfg w.sim.time)).map (fun r => Event.addRequest r.req.id) ∧
    (rows.foldl (admitRow env cfg) w).sim.stations = w.sim.stations ∧
    (rows.foldl (admitRow env cfg) w).sim.vehicles = w.sim.vehicles ∧
    (rows.foldl (admitRow env cfg) w).sim.dt = w.sim.dt := by
  induction rows generalizing w with
  | nil => simp [hI]
  | cons row rows ih =>
    simp only [List.foldl_cons]
    have hnd' : row.req.id ∉ rows.map (·.req.id) ∧ (rows.map (·.req.id)).Nodup := by
      simpa using hnd
    obtain ⟨i1, t1, r1, l1, s1, v1, d1⟩ := admitRow_spec cfg hf hI
      (request?_none_iff.mpr (hfresh row List.mem_cons_self))
    have hfresh' : ∀ row' ∈ rows, row'.req.id ∉ (admitRow env cfg w row).sim.requests.map (·.id) := by
      intro row' hm
      rw [r1, List.map_append, List.mem_append]
      rintro (h | h)
      · exact hfresh row' (List.mem_cons_of_mem _ hm) h
      · split at h
        · simp only [List.map_cons, List.map_nil, List.mem_singleton] at h
          exact hnd'.1 (by rw [← h]; exact List.mem_map.mpr ⟨row', hm, rfl⟩)
        · cases h
    obtain ⟨i2, t2, r2, l2, s2, v2, d2⟩ := ih (admitRow env cfg w row) i1 hnd'.2 hfresh'
    refine ⟨i2, t2.trans t1, ?_, ?_, s2.trans s1, v2.trans v1, d2.trans d1⟩
    · rw [r2, r1, t1, List.filter_cons]
      split <;> simp
    · rw [l2, l1, t1, List.filter_cons]
      split <;> simp

/-- a request's cancellation deadline has passed -/
def expired (cfg : Cfg) (now : Time) (r : Request) : Bool := !decide (now < r.departure + cfg.timeout)

def expiredId (cfg : Cfg) (s : Sim) (i : RequestId) : Bool :=
  match s.request? i with
  | some r => expired cfg s.time r
  | none => false

theorem cancelFold_spec (cfg : Cfg) (ids : List RequestId) (w : World) (hnd : ids.Nodup) (hI : RInv env w.sim) :
    RInv env (ids.foldl (cancelOne env cfg) w).sim ∧ (ids.foldl (cancelOne env cfg) w).sim.time = w.sim.time ∧
    (ids.foldl (cancelOne env cfg) w).sim.requests =
      w.sim.requests.filter (fun r => !(ids.contains r.id && expired cfg w.sim.time r)) ∧
    (ids.foldl (cancelOne env cfg) w).log =
      w.log ++ (ids.filter (expiredId cfg w.sim)).map Event.cancelRequest ∧
    (ids.foldl (cancelOne env cfg) w).sim.stations = w.sim.stations ∧
    (ids.foldl (cancelOne env cfg) w).sim.vehicles = w.sim.vehicles ∧
    (ids.foldl (cancelOne env cfg) w).sim.dt = w.sim.dt := by
  induction ids generalizing w with
  | nil =>
    refine ⟨hI, rfl, ?_, by simp, rfl, rfl, rfl⟩
    simp only [List.foldl_nil, List.contains_nil, Bool.false_and, Bool.not_false]
    exact (List.filter_eq_self.mpr (fun _ _ => rfl)).symm
  | cons i ids ih =>
    simp only [List.foldl_cons]
    have hnd' := List.nodup_cons.mp hnd
    cases hr : w.sim.request? i with
    | none =>
      have h1 : cancelOne env cfg w i = w := by unfold cancelOne; simp [hr]
      rw [h1]
      obtain ⟨i2, t2, r2, l2, s2, v2, d2⟩ := ih w hnd'.2 hI
      refine ⟨i2, t2, ?_, ?_, s2, v2, d2⟩
      · rw [r2]
        apply List.filter_congr
        intro r hm
        have : r.id ≠ i := lookup_none hr r hm
        simp [List.contains_cons, this]
      · rw [l2, List.filter_cons]
        simp [expiredId, hr]
    | some r =>
      by_cases hexp : expired cfg w.sim.time r = true
      · obtain ⟨s', hok, hreq, htime, hst, hv, hdt⟩ := removeRequest_succeeds hI hr
        have hlt : ¬ w.sim.time < r.departure + cfg.timeout := by
          simpa [expired] using hexp
        have h1 : cancelOne env cfg w i = { sim := s', log := w.log ++ [Event.cancelRequest i] } := by
          unfold cancelOne; simp [hr, hlt, hok]
        rw [h1]
        obtain ⟨i2, t2, r2, l2, s2, v2, d2⟩ := ih { sim := s', log := w.log ++ [Event.cancelRequest i] } hnd'.2
          (rinv_remove hI hok)
        simp only at i2 t2 r2 l2 s2 v2 d2
        refine ⟨i2, t2.trans htime, ?_, ?_, s2.trans hst, v2.trans hv, d2.trans hdt⟩
        · rw [r2, hreq, htime, List.filter_filter]
          apply List.filter_congr
          intro r' hm
          by_cases he : r'.id = i
          · have : r' = r := by
              have := lookup_of_mem (key := Request.id) hI.nodup hm
              rw [he] at this
              unfold Sim.request? at hr
              rw [hr] at this
              exact (Option.some.inj this).symm
            subst this
            simp [he, hexp]
          · simp [List.contains_cons, he, Ne.symm he]
        · rw [l2, List.filter_cons]
          have hself : expiredId cfg w.sim i = true := by simp [expiredId, hr, hexp]
          have hcongr : ids.filter (expiredId cfg s') = ids.filter (expiredId cfg w.sim) := by
            apply List.filter_congr
            intro j hj
            have hji : j ≠ i := fun h => hnd'.1 (h ▸ hj)
            unfold expiredId Sim.request?
            rw [hreq, htime]
            have := lookup_removeById_ne (key := Request.id) w.sim.requests hji
            unfold removeById at this
            rw [this]
          simp [hself, hcongr]
      · have hlt : w.sim.time < r.departure + cfg.timeout := by
          simpa [expired] using hexp
        have h1 : cancelOne env cfg w i = w := by unfold cancelOne; simp [hr, hlt]
        rw [h1]
        obtain ⟨i2, t2, r2, l2, s2, v2, d2⟩ := ih w hnd'.2 hI
        refine ⟨i2, t2, ?_, ?_, s2, v2, d2⟩
        · rw [r2]
          apply List.filter_congr
          intro r' hm
          by_cases he : r'.id = i
          · have : r' = r := by
              have := lookup_of_mem (key := Request.id) hI.nodup hm
              rw [he] at this
              unfold Sim.request? at hr
              rw [hr] at this
              exact (Option.some.inj this).symm
            subst this
            have : expired cfg w.sim.time r' = false := by simpa using hexp
            simp [this]
          · simp [List.contains_cons, he]
        · rw [l2, List.filter_cons]
          have : expiredId cfg w.sim i = false := by
            simp only [expiredId, hr]; simpa using hexp
          simp [this]

/-- **cancellation removes exactly the requests whose deadline has passed and files one event for each** -/
theorem cancelRequests_spec (cfg : Cfg) (w : World) (hI : RInv env w.sim) :
    RInv env (cancelRequests env cfg w).sim ∧ (cancelRequests env cfg w).sim.time = w.sim.time ∧
    (cancelRequests env cfg w).sim.requests = w.sim.requests.filter (fun r => !expired cfg w.sim.time r) ∧
    (cancelRequests env cfg w).log =
      w.log ++ ((sortBy (fun a b => decide (a ≤ b)) (w.sim.requests.map (·.id))).filter
        (expiredId cfg w.sim)).map Event.cancelRequest ∧
    (cancelRequests env cfg w).sim.stations = w.sim.stations ∧
    (cancelRequests env cfg w).sim.vehicles = w.sim.vehicles ∧ (cancelRequests env cfg w).sim.dt = w.sim.dt := by
  unfold cancelRequests
  have hperm := sortBy_perm (fun (a b : Nat) => decide (a ≤ b)) (w.sim.requests.map (·.id))
  obtain ⟨i2, t2, r2, l2, s2, v2, d2⟩ := cancelFold_spec (env := env) cfg _ w (hperm.nodup_iff.mpr hI.nodup) hI
  refine ⟨i2, t2, ?_, l2, s2, v2, d2⟩
  rw [r2]
  apply List.filter_congr
  intro r hm
  have : (sortBy (fun a b => decide (a ≤ b)) (w.sim.requests.map (·.id))).contains r.id = true := by
    rw [List.contains_iff_mem]
    exact hperm.mem_iff.mpr (List.mem_map.mpr ⟨r, hm, rfl⟩)
  rw [this]
  simp


/-! ### prices -/

theorem repriced_id (names : Nat → List StationId) (rows : List PriceRow) (st : Station) :
    (repriced names rows st).id = st.id := rfl

/-- the update of one station changes nothing but that station's plug prices -/
theorem repriceStation_spec (names : Nat → List StationId) (rows : List PriceRow) (s : Sim) (sid : StationId)
    (hf : ∀ c, env.inFence c = true) (hnd : (s.stations.map Station.id).Nodup) :
    (repriceStation env names rows s sid).stations =
      s.stations.map (fun st => if st.id == sid && touched names rows sid then repriced names rows st else st) ∧
    (repriceStation env names rows s sid).requests = s.requests ∧
    (repriceStation env names rows s sid).rIdx = s.rIdx ∧
    (repriceStation env names rows s sid).vehicles = s.vehicles ∧
    (repriceStation env names rows s sid).bases = s.bases ∧
    (repriceStation env names rows s sid).time = s.time ∧
    (repriceStation env names rows s sid).dt = s.dt := by
  cases hst : s.station? sid with
  | none =>
    have hval : repriceStation env names rows s sid = s := by unfold repriceStation; simp [hst]
    rw [hval]
    refine ⟨?_, rfl, rfl, rfl, rfl, rfl, rfl⟩
    symm
    have : ∀ st ∈ s.stations, (if st.id == sid && touched names rows sid then repriced names rows st else st) = st := by
      intro st hm
      have : st.id ≠ sid := lookup_none hst st hm
      simp [this]
    rw [List.map_congr_left this]
    simp
  | some st =>
    by_cases ht : touched names rows sid = true
    · have hid : st.id = sid := (lookup_some hst).2
      have hok : s.modifyStation env (repriced names rows st) =
          .ok { s with stations := replaceById Station.id s.stations (repriced names rows st) } := by
        unfold Sim.modifyStation
        rw [repriced_id, hid, hst]
        simp [repriced, hf]
      have hval : repriceStation env names rows s sid =
          { s with stations := replaceById Station.id s.stations (repriced names rows st) } := by
        unfold repriceStation; simp only [hst, ht, if_true, hok]
      rw [hval]
      refine ⟨?_, rfl, rfl, rfl, rfl, rfl, rfl⟩
      simp only
      unfold replaceById
      apply List.map_congr_left
      intro y hy
      rw [repriced_id, hid]
      by_cases he : y.id = sid
      · have : y = st := by
          have := lookup_of_mem (key := Station.id) hnd hy
          rw [he] at this
          unfold Sim.station? at hst
          rw [hst] at this
          exact (Option.some.inj this).symm
        simp [he, this, ht]
      · simp [he]
    · have hval : repriceStation env names rows s sid = s := by
        unfold repriceStation; simp [hst, ht]
      rw [hval]
      refine ⟨?_, rfl, rfl, rfl, rfl, rfl, rfl⟩
      have ht' : touched names rows sid = false := by simpa using ht
      simp [ht']

theorem repriceFold_spec (names : Nat → List StationId) (rows : List PriceRow) (ids : List StationId) (s : Sim)
    (hf : ∀ c, env.inFence c = true) (hnd : (s.stations.map Station.id).Nodup) (hids : ids.Nodup) :
    (ids.foldl (repriceStation env names rows) s).stations =
      s.stations.map (fun st => if ids.contains st.id && touched names rows st.id then repriced names rows st else st) ∧
    (ids.foldl (repriceStation env names rows) s).requests = s.requests ∧
    (ids.foldl (repriceStation env names rows) s).rIdx = s.rIdx ∧
    (ids.foldl (repriceStation env names rows) s).vehicles = s.vehicles ∧
    (ids.foldl (repriceStation env names rows) s).bases = s.bases ∧
    (ids.foldl (repriceStation env names rows) s).time = s.time ∧
    (ids.foldl (repriceStation env names rows) s).dt = s.dt := by
  induction ids generalizing s with
  | nil => simp
  | cons i ids ih =>
    simp only [List.foldl_cons]
    obtain ⟨h1, h2, h3, h4, h5, h6, h7⟩ := repriceStation_spec (env := env) names rows s i hf hnd
    have hids' := List.nodup_cons.mp hids
    have hnd' : ((repriceStation env names rows s i).stations.map Station.id).Nodup := by
      rw [h1, List.map_map]
      have : (Station.id ∘ fun st => if st.id == i && touched names rows i then repriced names rows st else st) = Station.id := by
        funext st
        simp only [Function.comp]
        split <;> rfl
      rw [this]; exact hnd
    obtain ⟨g1, g2, g3, g4, g5, g6, g7⟩ := ih (repriceStation env names rows s i) hnd' hids'.2
    refine ⟨?_, g2.trans h2, g3.trans h3, g4.trans h4, g5.trans h5, g6.trans h6, g7.trans h7⟩
    rw [g1, h1, List.map_map]
    apply List.map_congr_left
    intro st _
    simp only [Function.comp]
    by_cases he : st.id = i
    · have hni : ids.contains st.id = false := by
        rw [he]
        cases hc : ids.contains i
        · rfl
        · exact absurd (List.contains_iff_mem.mp hc) hids'.1
      by_cases ht : touched names rows i = true
      · simp [he, ht, List.contains_cons, repriced_id, hni] at *
        simp [hni]
      · simp [he, ht, List.contains_cons, hni] at *
    · have : (st.id == i) = false := by simpa using he
      simp [this, List.contains_cons, Ne.symm he, he]

/-- the row that decides is one of the rows that hit -/
theorem winner_some {names : Nat → List StationId} {rows : List PriceRow} {sid : StationId} {p : ChargerId}
    {r : PriceRow} (h : winner names rows sid p = some r) : r ∈ rows ∧ r.hits names sid p = true := by
  unfold winner at h
  simp only at h
  split at h
  · cases h
  · have := List.mem_of_getLast? h
    have h2 := (List.mem_filter.mp this).1
    exact List.mem_filter.mp h2

@[simp] theorem maxKey_none (r : PriceRow) : maxKey none r = some r.key := rfl
@[simp] theorem maxKey_some (k : Nat) (r : PriceRow) : maxKey (some k) r = some (max k r.key) := rfl

theorem foldMax_none {l : List PriceRow} :
    l.foldl maxKey none = none → l = [] := by
  cases l with
  | nil => intro _; rfl
  | cons x xs =>
    intro h
    simp only [List.foldl_cons, maxKey_none] at h
    have : ∀ (ys : List PriceRow) (k : Nat), ∃ k', ys.foldl maxKey (some k) = some k' := by
      intro ys
      induction ys with
      | nil => intro k; exact ⟨k, rfl⟩
      | cons y ys ih => intro k; simp only [List.foldl_cons, maxKey_some]; exact ih _
    obtain ⟨k', hk'⟩ := this xs x.key
    rw [hk'] at h
    cases h

/-- **no row of the window names the station and plug: the price is left alone** -/
theorem winner_none_iff {names : Nat → List StationId} {rows : List PriceRow} {sid : StationId} {p : ChargerId} :
    winner names rows sid p = none ↔ ∀ r ∈ rows, r.hits names sid p = false := by
  constructor
  · intro h
    unfold winner at h
    simp only at h
    split at h
    · next hm =>
      have := foldMax_none hm
      intro r hr
      cases hh : r.hits names sid p
      · rfl
      · have : r ∈ rows.filter (PriceRow.hits names sid p) := List.mem_filter.mpr ⟨hr, hh⟩
        rw [‹rows.filter (PriceRow.hits names sid p) = []›] at this
        cases this
    · next k hm =>
      -- the greatest key is the key of some candidate, so the last-row lookup cannot fail
      exfalso
      have hkey : ∀ (l : List PriceRow) (m0 : Option Nat) (k : Nat),
          l.foldl maxKey m0 = some k → (m0 = some k ∨ ∃ r ∈ l, r.key = k) := by
        intro l
        induction l with
        | nil => intro m0 k h; exact Or.inl h
        | cons x xs ih =>
          intro m0 k h
          simp only [List.foldl_cons] at h
          rcases ih _ k h with h1 | ⟨r, hr, hk⟩
          · cases m0 with
            | none => simp only [maxKey_none, Option.some.injEq] at h1; exact Or.inr ⟨x, List.mem_cons_self, h1⟩
            | some k0 =>
              simp only [maxKey_some, Option.some.injEq] at h1
              by_cases hle : k0 ≤ x.key
              · exact Or.inr ⟨x, List.mem_cons_self, by omega⟩
              · exact Or.inl (by congr 1; omega)
          · exact Or.inr ⟨r, List.mem_cons_of_mem _ hr, hk⟩
      rcases hkey _ none k hm with h0 | ⟨r, hr, hk⟩
      · cases h0
      · have : r ∈ (rows.filter (PriceRow.hits names sid p)).filter (fun r => r.key == k) :=
          List.mem_filter.mpr ⟨hr, by simp [hk]⟩
        rw [List.getLast?_eq_none_iff] at h
        rw [h] at this
        cases this
  · intro h
    unfold winner
    have : rows.filter (PriceRow.hits names sid p) = [] := by
      rw [List.filter_eq_nil_iff]
      intro r hr
      simp [h r hr]
    simp [this]

/-- **when all rows of the window that name the station and plug do so through one key, the
    latest of them decides** -/
theorem winner_unambiguous {names : Nat → List StationId} {rows : List PriceRow} {sid : StationId} {p : ChargerId}
    (h : unambiguous names rows sid p = true) :
    winner names rows sid p = (rows.filter (PriceRow.hits names sid p)).getLast? := by
  unfold winner unambiguous at *
  simp only at *
  cases hc : rows.filter (PriceRow.hits names sid p) with
  | nil => simp
  | cons r more =>
    rw [hc] at h
    simp only at h
    have hall : ∀ x ∈ more, x.key = r.key := by
      intro x hx
      have := List.all_eq_true.mp h x hx
      simpa using this
    have hfold : ∀ (l : List PriceRow), (∀ x ∈ l, x.key = r.key) →
        l.foldl maxKey (some r.key) = some r.key := by
      intro l
      induction l with
      | nil => intro _; rfl
      | cons y ys ih =>
        intro hy
        simp only [List.foldl_cons, maxKey_some]
        rw [hy y List.mem_cons_self, Nat.max_self]
        exact ih (fun x hx => hy x (List.mem_cons_of_mem _ hx))
    simp only [List.foldl_cons, maxKey_none]
    rw [hfold more hall]
    simp only
    have : (r :: more).filter (fun x => x.key == r.key) = r :: more := by
      rw [List.filter_eq_self]
      intro x hx
      rcases List.mem_cons.mp hx with rfl | hx
      · simp
      · simp [hall x hx]
    rw [this]

end Timed
end Hive
