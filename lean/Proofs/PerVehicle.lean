/-
  Proofs.PerVehicle — invariants of the form "every vehicle satisfies `P s v`" where `P` looks
  at the sim only through static data: preserved for all other vehicles by `Frame`, established
  for the acting vehicle by the post-conditions of `enter` / `_perform_update`.
-/
import Proofs.EnterPost
import Proofs.Run

namespace Hive
variable {env : Env}

def AllVeh (P : Sim → Vehicle → Bool) (s : Sim) : Prop := ∀ veh ∈ s.vehicles, P s veh = true

theorem allVeh_iff (P : Sim → Vehicle → Bool) (s : Sim) : s.vehicles.all (P s) = true ↔ AllVeh P s := by
  simp [AllVeh, List.all_eq_true]

/-- the acting vehicle `v` is re-established, everybody else is carried over by monotonicity -/
theorem allVeh_step {P : Sim → Vehicle → Bool} {v : VehicleId} {s s' : Sim}
    (hwf : s.WF) (hwf' : s'.WF) (hfr : Frame v s s')
    (hmono : ∀ veh, veh ∈ s.vehicles → P s veh = true → P s' veh = true)
    (hself : ∀ veh', s'.vehicle? v = some veh' → P s' veh' = true)
    (hall : AllVeh P s) : AllVeh P s' := by
  intro veh' hmem
  have hl : s'.vehicle? veh'.id = some veh' := lookup_of_mem hwf'.veh hmem
  by_cases hv : veh'.id = v
  · exact hself veh' (by rw [← hv]; exact hl)
  · rw [hfr.others veh'.id hv] at hl
    have hm := (vehicle?_some hl).1
    exact hmono veh' hm (hall veh' hm)

end Hive

namespace Hive
variable {env : Env}

/-- what a per-vehicle predicate must satisfy to be an invariant of runs -/
structure VehPred (env : Env) (P : Sim → Vehicle → Bool) : Prop where
  mono : ∀ {v : VehicleId} {s s' : Sim}, Frame v s s' → ∀ veh, P s veh = true → P s' veh = true
  enter : ∀ {v : VehicleId} {s s1 s2 : Sim} {old veh' : Vehicle} {next : Act},
    s.WF → Frame v s s1 → Frame v s1 s2 → s.vehicle? v = some old → P s old = true →
    Plannable env s v old.act next → SameBut old veh' → veh'.pos = old.pos →
    EnterPost s1 old next veh'.act → P s2 veh' = true
  upd : ∀ {v : VehicleId} {s s2 : Sim} {old new : Vehicle},
    s.WF → Frame v s s2 → s.vehicle? v = some old → SameBut old new → UpdPost env s.dt old new →
    P s old = true → P s2 new = true
  applied : ∀ (s : Sim) (a : List (VehicleId × Instr)) (veh : Vehicle), P { s with applied := a } veh = P s veh
  tick : ∀ (s : Sim) (veh : Vehicle), P s.tick veh = P s veh
  arrival : ∀ {s s' : Sim} {r : Request}, s.request? r.id = none →
    (∀ veh ∈ s.vehicles, ∀ route, veh.act ≠ .dispatchTrip r.id route) →
    s.addRequest env r = .ok s' → ∀ veh ∈ s.vehicles, P s veh = true → P s' veh = true

theorem vehPred_transition {P : Sim → Vehicle → Bool} (hP : VehPred env P)
    {w w2 : World} {v : VehicleId} {veh : Vehicle} {next : Act}
    (hwf : w.sim.WF) (hall : AllVeh P w.sim) (hveh : w.sim.vehicle? v = some veh)
    (hpl : Plannable env w.sim v veh.act next)
    (h : transition env w v veh.act next = .ok w2) : AllVeh P w2.sim := by
  have hid := transition_sameIds hwf h
  have hfr := transition_frame hwf h
  unfold transition at h
  simp only [Outcome.bind_eq, Outcome.bind_eq_ok] at h
  obtain ⟨s1, h1, h2⟩ := h
  have hwf1 := (exit_sameIds hwf h1).wf hwf
  have f1 := exit_frame' hwf h1
  have f2 := enter_frame (w := { w with sim := s1 }) hwf1 h2
  obtain ⟨old, veh', ho, hn, hsb, hpos, hpost⟩ := enter_post h2
  simp only at ho hpost
  rw [vehicle?_congr (exit_frame h1).1, hveh] at ho
  cases ho
  refine allVeh_step hwf (hid.wf hwf) hfr (fun veh0 _ h0 => hP.mono hfr veh0 h0) ?_ hall
  intro veh'' hv''
  rw [hn] at hv''
  cases hv''
  exact hP.enter hwf f1 f2 hveh (hall veh (vehicle?_some hveh).1) hpl hsb hpos hpost

theorem vehPred_performUpdate {P : Sim → Vehicle → Bool} (hP : VehPred env P)
    {w w2 : World} {v : VehicleId} {veh : Vehicle}
    (hwf : w.sim.WF) (hall : AllVeh P w.sim) (hveh : w.sim.vehicle? v = some veh)
    (h : performUpdate env w v veh.act = .ok w2) : AllVeh P w2.sim := by
  have hfr := performUpdate_frame hwf h
  have hid := performUpdate_sameIds hwf h
  obtain ⟨veh', hn, hsb, hpost⟩ := performUpdate_post hveh h
  refine allVeh_step hwf (hid.wf hwf) hfr (fun veh0 _ h0 => hP.mono hfr veh0 h0) ?_ hall
  intro veh'' hv''
  rw [hn] at hv''
  cases hv''
  exact hP.upd hwf hfr hveh hsb hpost (hall veh (vehicle?_some hveh).1)

theorem vehPred_runInv {P : Sim → Vehicle → Bool} (hP : VehPred env P) :
    RunInv env (fun s => s.vehicles.all (P s) = true) where
  applied s a h := by
    rw [allVeh_iff] at h ⊢
    intro veh hm
    rw [hP.applied]; exact h veh hm
  transition hwf hi hveh hpl h := by
    rw [allVeh_iff] at hi ⊢
    exact vehPred_transition hP hwf hi hveh hpl h
  update := by
    intro w w2 v veh hwf hi hveh h
    rw [allVeh_iff] at hi ⊢
    unfold defaultUpdate at h
    split at h
    · simp only [Outcome.bind_eq, Outcome.bind_eq_ok] at h
      obtain ⟨next, hnext, w1, htr, h3⟩ := h
      have i1 := vehPred_transition hP hwf hi hveh (Or.inr hnext) htr
      have id1 := transition_sameIds hwf htr
      split at h3
      · cases h3
      · next veh1 hveh1 => exact vehPred_performUpdate hP (id1.wf hwf) i1 hveh1 h3
    · exact vehPred_performUpdate hP hwf hi hveh h
  tick s h := by
    rw [allVeh_iff] at h ⊢
    intro veh hm
    rw [hP.tick]; exact h veh hm
  arrival := by
    intro s s' r _ hi hf hu _ h
    rw [allVeh_iff] at hi ⊢
    have hv : s'.vehicles = s.vehicles := (addRequest_fields hf h).1
    intro veh hm
    rw [hv] at hm
    exact hP.arrival hf hu h veh hm (hi veh hm)
  cancel := by
    intro s s' i _ hi h
    rw [allVeh_iff] at hi ⊢
    have hfr : Frame 0 s s' := Sim.removeRequest_frame h
    obtain ⟨_, _, _, _, hv, _, _⟩ := Sim.removeRequest_fields h
    intro veh hm
    rw [hv] at hm
    exact hP.mono hfr veh (hi veh hm)

end Hive
