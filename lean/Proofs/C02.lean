/-
  Proofs.C02 — the counting invariant is preserved by `exit`, `enter`, `transition`, the
  per-activity updates, `apply_instructions` and `perform_vehicle_state_updates`.
-/
import Hive.Inv
import Proofs.SimOps
import Proofs.WF

namespace Hive

/-- the counters of `s` match the vehicles listed in `L` (`L = s.vehicles` is `inv02 s`) -/
def Inv02On (s : Sim) (L : List Vehicle) : Prop :=
  (∀ st ∈ s.stations, ∀ cs ∈ st.plugs,
      cs.avail + L.countP (holdsPlug s st.id cs.id) = cs.total ∧
      cs.enq = L.countP (queuesFor st.id cs.id)) ∧
  (∀ b ∈ s.bases, b.avail + L.countP (holdsStall b.id) = b.total)

theorem inv02_iff (s : Sim) : inv02 s = true ↔ Inv02On s s.vehicles := by
  simp only [inv02, stationOk, plugOk, baseOk, Inv02On, Bool.and_eq_true, List.all_eq_true,
    beq_iff_eq]

/-- `holdsPlug` sees the sim only through the base → station map -/
theorem holdsPlug_congr {s s' : Sim} (h : baseStation s' = baseStation s) :
    holdsPlug s' = holdsPlug s := by
  funext sid cid v
  unfold holdsPlug
  rw [h]

theorem Inv02On_congr {s s' : Sim} {L : List Vehicle}
    (hs : s'.stations = s.stations) (hb : s'.bases = s.bases) (h : Inv02On s L) : Inv02On s' L := by
  have hbs : baseStation s' = baseStation s := by
    funext b; simp [baseStation, Sim.base?, hb]
  unfold Inv02On at *
  rw [hs, hb, holdsPlug_congr hbs]
  exact h

end Hive

namespace Hive

/-- the invariant with the three families of counts abstracted -/
def Inv02W (s : Sim) (P Q : StationId → ChargerId → Nat) (B : BaseId → Nat) : Prop :=
  (∀ st ∈ s.stations, ∀ cs ∈ st.plugs,
      cs.avail + P st.id cs.id = cs.total ∧ cs.enq = Q st.id cs.id) ∧
  (∀ b ∈ s.bases, b.avail + B b.id = b.total)

def cntP (s : Sim) (L : List Vehicle) : StationId → ChargerId → Nat :=
  fun sid cid => L.countP (holdsPlug s sid cid)
def cntQ (L : List Vehicle) : StationId → ChargerId → Nat :=
  fun sid cid => L.countP (queuesFor sid cid)
def cntB (L : List Vehicle) : BaseId → Nat := fun b => L.countP (holdsStall b)

theorem Inv02On_iff_W (s : Sim) (L : List Vehicle) :
    Inv02On s L ↔ Inv02W s (cntP s L) (cntQ L) (cntB L) := Iff.rfl

/-- one plug counter of one station is replaced; the counts change accordingly at that point only -/
theorem Inv02W_setPlug {s s1 : Sim} {st : Station} {cs cs' : ChargerState}
    {P P' Q Q' : StationId → ChargerId → Nat} {B : BaseId → Nat}
    (hst : st ∈ s.stations) (hcs : cs ∈ st.plugs) (hid : cs'.id = cs.id)
    (hs1 : s1.stations = replaceById Station.id s.stations (st.setPlug cs'))
    (hb1 : s1.bases = s.bases)
    (hP : ∀ sid cid, ¬(sid = st.id ∧ cid = cs.id) → P' sid cid = P sid cid ∧ Q' sid cid = Q sid cid)
    (hnew : cs'.avail + P' st.id cs.id = cs'.total ∧ cs'.enq = Q' st.id cs.id)
    (hinv : Inv02W s P Q B) : Inv02W s1 P' Q' B := by
  refine ⟨?_, ?_⟩
  · intro st2 hst2 cs2 hcs2
    rw [hs1] at hst2
    rcases mem_replaceById hst2 with rfl | ⟨hmem, hne⟩
    · -- the updated station
      have hid2 : (st.setPlug cs').id = st.id := rfl
      simp only [Station.setPlug] at hcs2
      rcases mem_replaceById hcs2 with rfl | ⟨hmem2, hne2⟩
      · rw [hid2, hid]; exact hnew
      · rw [hid2]
        have := hP st.id cs2.id (by intro h; exact hne2 (by rw [hid]; exact h.2))
        rw [this.1, this.2]
        exact hinv.1 st hst cs2 hmem2
    · have hne' : st2.id ≠ st.id := hne
      have := hP st2.id cs2.id (by intro h; exact hne' h.1)
      rw [this.1, this.2]
      exact hinv.1 st2 hmem cs2 hcs2
  · intro b hb
    rw [hb1] at hb
    exact hinv.2 b hb

/-- a station is replaced by one with the same plug list (payments, dispensed energy) -/
theorem Inv02W_samePlugs {s s1 : Sim} {st st' : Station}
    {P Q : StationId → ChargerId → Nat} {B : BaseId → Nat}
    (hst : st ∈ s.stations) (hid : st'.id = st.id) (hpl : st'.plugs = st.plugs)
    (hs1 : s1.stations = replaceById Station.id s.stations st') (hb1 : s1.bases = s.bases)
    (hinv : Inv02W s P Q B) : Inv02W s1 P Q B := by
  refine ⟨?_, ?_⟩
  · intro st2 hst2 cs2 hcs2
    rw [hs1] at hst2
    rcases mem_replaceById hst2 with rfl | ⟨hmem, _⟩
    · rw [hid]; rw [hpl] at hcs2; exact hinv.1 st hst cs2 hcs2
    · exact hinv.1 st2 hmem cs2 hcs2
  · intro b hb
    rw [hb1] at hb
    exact hinv.2 b hb

/-- one base's stall counter is replaced -/
theorem Inv02W_setBase {s s1 : Sim} {base base' : Base}
    {P Q : StationId → ChargerId → Nat} {B B' : BaseId → Nat}
    (hbase : base ∈ s.bases) (hid : base'.id = base.id)
    (hs1 : s1.stations = s.stations)
    (hb1 : s1.bases = replaceById Base.id s.bases base')
    (hB : ∀ b, b ≠ base.id → B' b = B b)
    (hnew : base'.avail + B' base.id = base'.total)
    (hinv : Inv02W s P Q B) : Inv02W s1 P Q B' := by
  refine ⟨?_, ?_⟩
  · intro st hst cs hcs
    rw [hs1] at hst
    exact hinv.1 st hst cs hcs
  · intro b hb
    rw [hb1] at hb
    rcases mem_replaceById hb with rfl | ⟨hmem, hne⟩
    · rw [hid]; exact hnew
    · have hne' : b.id ≠ base.id := by rw [← hid]; exact hne
      rw [hB b.id hne']
      exact hinv.2 b hmem

end Hive

namespace Hive


/-- replacing a base by one with the same id and station keeps the base → station map -/
theorem baseStation_replace {s s1 : Sim} {base base' : Base}
    (hb : s.base? base.id = some base) (hid : base'.id = base.id) (hst : base'.station = base.station)
    (hb1 : s1.bases = replaceById Base.id s.bases base') : baseStation s1 = baseStation s := by
  funext b
  unfold baseStation Sim.base?
  rw [hb1]
  by_cases hbb : b = base'.id
  · subst hbb
    have hb' : lookup Base.id s.bases base'.id = some base := by rw [hid]; exact hb
    rw [lookup_replaceById_self hb', hb']
    simp [hst]
  · rw [lookup_replaceById_ne _ _ hbb]

theorem baseStation_same {s s1 : Sim} (hb1 : s1.bases = s.bases) : baseStation s1 = baseStation s := by
  funext b; simp [baseStation, Sim.base?, hb1]

/-- a vehicle that holds nothing can be dropped from (or added to) the counted list -/
theorem Inv02On_cons_free {s : Sim} {veh : Vehicle} {L : List Vehicle}
    (h1 : ∀ sid cid, holdsPlug s sid cid veh = false) (h2 : ∀ sid cid, queuesFor sid cid veh = false)
    (h3 : ∀ b, holdsStall b veh = false) : Inv02On s (veh :: L) ↔ Inv02On s L := by
  unfold Inv02On
  simp only [List.countP_cons, h1, h2, h3, Bool.false_eq_true, if_false, Nat.add_zero]

end Hive

namespace Hive

variable {env : Env}

end Hive

namespace Hive

variable {env : Env}

/-- the counts only matter at installed plugs and existing bases -/
theorem Inv02W_congrOn {s : Sim} {P P' Q Q' : StationId → ChargerId → Nat} {B B' : BaseId → Nat}
    (hPQ : ∀ st ∈ s.stations, ∀ cs ∈ st.plugs, P' st.id cs.id = P st.id cs.id ∧ Q' st.id cs.id = Q st.id cs.id)
    (hB : ∀ b ∈ s.bases, B' b.id = B b.id)
    (hinv : Inv02W s P Q B) : Inv02W s P' Q' B' := by
  refine ⟨?_, ?_⟩
  · intro st hst cs hcs
    rw [(hPQ st hst cs hcs).1, (hPQ st hst cs hcs).2]
    exact hinv.1 st hst cs hcs
  · intro b hb
    rw [hB b hb]
    exact hinv.2 b hb

/-- in a well-formed sim, membership plus id determines the station -/
theorem station_unique {s : Sim} (hwf : s.WF) {sid : StationId} {st st2 : Station}
    (h : s.station? sid = some st) (h2 : st2 ∈ s.stations) (hid : st2.id = sid) : st2 = st := by
  have := lookup_of_mem hwf.stn h2
  rw [hid] at this
  unfold Sim.station? at h
  rw [this] at h
  exact Option.some.inj h

theorem base_unique {s : Sim} (hwf : s.WF) {b : BaseId} {base base2 : Base}
    (h : s.base? b = some base) (h2 : base2 ∈ s.bases) (hid : base2.id = b) : base2 = base := by
  have := lookup_of_mem hwf.base h2
  rw [hid] at this
  unfold Sim.base? at h
  rw [this] at h
  exact Option.some.inj h

theorem giveBack_ok {b b' : Base} (h : b.giveBack = .ok b') :
    b.avail + 1 ≤ b.total ∧ b' = { b with avail := b.avail + 1 } := by
  unfold Base.giveBack at h
  split at h
  · cases h
  · next hc => cases h; exact ⟨by omega, rfl⟩

theorem incAvail_ok {c c' : ChargerState} (h : c.incAvail = .ok c') :
    c.avail < c.total ∧ c' = { c with avail := c.avail + 1 } := by
  unfold ChargerState.incAvail at h
  split at h
  · cases h
  · next hc => cases h; exact ⟨by omega, rfl⟩

theorem decEnq_ok {c c' : ChargerState} (h : c.decEnq = .ok c') :
    0 < c.enq ∧ c' = { c with enq := c.enq - 1 } := by
  unfold ChargerState.decEnq at h
  split at h
  · cases h
  · next hc => cases h; exact ⟨by omega, rfl⟩

/-- `exit` of the activity `veh` is in returns exactly what `veh` holds: afterwards the counters
    match the remaining vehicles -/
theorem exit_inv02 {s s1 : Sim} {v : VehicleId} {veh : Vehicle} {L : List Vehicle} (hwf : s.WF)
    (hinv : Inv02On s (veh :: L)) (h : exit env s v veh.act = .ok s1) :
    Inv02On s1 L ∧ baseStation s1 = baseStation s := by
  cases hact : veh.act <;> rw [hact] at h <;> simp only [exit] at h
  case idle | repositioning | outOfService | dispatchStation | dispatchBase =>
    cases h
    exact ⟨(Inv02On_cons_free (by simp [holdsPlug, hact]) (by simp [queuesFor, hact])
      (by simp [holdsStall, hact])).mp hinv, rfl⟩
  case dispatchTrip rid r =>
    have hfree := (Inv02On_cons_free (s := s) (veh := veh) (L := L) (by simp [holdsPlug, hact])
      (by simp [queuesFor, hact]) (by simp [holdsStall, hact])).mp hinv
    split at h
    · cases h; exact ⟨hfree, rfl⟩
    · obtain ⟨_, _, _, rfl⟩ := Sim.modifyRequest_ok h
      exact ⟨Inv02On_congr rfl rfl hfree, baseStation_same rfl⟩
  case servicingTrip req dep r =>
    split at h
    · cases h
      exact ⟨(Inv02On_cons_free (by simp [holdsPlug, hact]) (by simp [queuesFor, hact])
        (by simp [holdsStall, hact])).mp hinv, rfl⟩
    · cases h
  case servicingPooling | dispatchPooling => cases h
  case reserveBase b =>
    split at h
    · cases h
    · next base hbase =>
      simp only [Outcome.bind_eq, Outcome.bind_eq_ok] at h
      obtain ⟨base', h1, h2⟩ := h
      obtain ⟨hle, rfl⟩ := giveBack_ok h1
      obtain ⟨_, _, _, rfl⟩ := Sim.modifyBase_ok h2
      obtain ⟨hmem, hid⟩ := base?_some hbase
      have hbs : baseStation { s with bases := replaceById Base.id s.bases { base with avail := base.avail + 1 } }
          = baseStation s :=
        baseStation_replace (base := base) (base' := { base with avail := base.avail + 1 })
          (by rw [hid]; exact hbase) rfl rfl rfl
      refine ⟨?_, hbs⟩
      rw [Inv02On_iff_W] at hinv ⊢
      have hP : cntP { s with bases := replaceById Base.id s.bases { base with avail := base.avail + 1 } } L
          = cntP s (veh :: L) := by
        funext sid cid
        simp [cntP, holdsPlug_congr hbs, List.countP_cons, holdsPlug, hact]
      have hQ : cntQ L = cntQ (veh :: L) := by
        funext sid cid; simp [cntQ, List.countP_cons, queuesFor, hact]
      rw [hP, hQ]
      refine Inv02W_setBase (base := base) (base' := { base with avail := base.avail + 1 }) hmem rfl rfl rfl ?_ ?_ hinv
      · intro b' hb'
        simp only [cntB, List.countP_cons, holdsStall, hact]
        have : (b == b') = false := by rw [← hid] at *; simpa using (Ne.symm hb')
        simp [this]
      · have := hinv.2 base hmem
        simp only [cntB, List.countP_cons, holdsStall, hact, hid, beq_self_eq_true, if_true] at this ⊢
        omega
  case chargingStation sid cid =>
    split at h
    · cases h
    · cases h
    · next _ st _ hst =>
      simp only [Outcome.bind_eq, Outcome.bind_eq_ok] at h
      obtain ⟨st', h1, h2⟩ := h
      obtain ⟨_, _, _, rfl⟩ := Sim.modifyStation_ok h2
      obtain ⟨hmem, hid⟩ := station?_some hst
      refine ⟨?_, baseStation_same rfl⟩
      rw [Inv02On_iff_W] at hinv ⊢
      have hPs : ∀ L', cntP { s with stations := replaceById Station.id s.stations st' } L' = cntP s L' := by
        intro L'; funext a b; simp [cntP, holdsPlug_congr (baseStation_same (s := s) (s1 := { s with stations := replaceById Station.id s.stations st' }) rfl)]
      rw [hPs]
      have hQ : cntQ L = cntQ (veh :: L) := by
        funext a b; simp [cntQ, queuesFor, hact]
      have hB : cntB L = cntB (veh :: L) := by
        funext a; simp [cntB, holdsStall, hact]
      rw [hQ, hB]
      rcases Station.updatePlug_ok h1 with ⟨hnone, rfl⟩ | ⟨cs, cs', hcs, hop, rfl⟩
      · -- the plug type is not installed: nothing to return, the vehicle is not counted anywhere
        have hinv' : Inv02W s (cntP s L) (cntQ (veh :: L)) (cntB (veh :: L)) := by
          refine Inv02W_congrOn ?_ (fun _ _ => rfl) hinv
          intro st2 hst2 cs2 hcs2
          refine ⟨?_, rfl⟩
          simp only [cntP, List.countP_cons, holdsPlug, hact]
          have : (sid == st2.id && cid == cs2.id) = false := by
            by_cases hs : st2.id = sid
            · have := station_unique hwf hst hst2 hs
              subst this
              have hne := lookup_none hnone cs2 hcs2
              have : (cid == cs2.id) = false := by simpa using (Ne.symm hne)
              simp [this]
            · have : (sid == st2.id) = false := by simpa using (Ne.symm hs)
              simp [this]
          simp [this]
        exact Inv02W_samePlugs hmem rfl rfl rfl rfl hinv'
      · obtain ⟨hlt, rfl⟩ := incAvail_ok hop
        obtain ⟨hcmem, hcid⟩ := plug?_some hcs
        refine Inv02W_setPlug (cs := cs) (cs' := { cs with avail := cs.avail + 1 }) hmem hcmem rfl rfl rfl ?_ ?_ hinv
        · intro a b hab
          refine ⟨?_, rfl⟩
          simp only [cntP, List.countP_cons, holdsPlug, hact]
          have : (sid == a && cid == b) = false := by
            rw [hid, hcid] at hab
            by_cases h1 : sid = a
            · by_cases h2 : cid = b
              · exact absurd ⟨h1.symm, h2.symm⟩ hab
              · simp [h2]
            · simp [h1]
          simp [this]
        · have := hinv.1 st hmem cs hcmem
          simp only [cntP, List.countP_cons, holdsPlug, hact, hid, hcid, beq_self_eq_true,
            Bool.and_self, if_true] at this ⊢
          constructor
          · omega
          · exact this.2
  case chargeQueueing sid cid t =>
    split at h
    · cases h
    · next st hst =>
      simp only [Outcome.bind_eq, Outcome.bind_eq_ok] at h
      obtain ⟨st', h1, h2⟩ := h
      obtain ⟨_, _, _, rfl⟩ := Sim.modifyStation_ok h2
      obtain ⟨hmem, hid⟩ := station?_some hst
      refine ⟨?_, baseStation_same rfl⟩
      rw [Inv02On_iff_W] at hinv ⊢
      have hPs : cntP { s with stations := replaceById Station.id s.stations st' } L = cntP s (veh :: L) := by
        funext a b; simp [cntP, holdsPlug, hact, holdsPlug_congr (baseStation_same (s := s) (s1 := { s with stations := replaceById Station.id s.stations st' }) rfl)]
      have hB : cntB L = cntB (veh :: L) := by
        funext a; simp [cntB, holdsStall, hact]
      rw [hPs, hB]
      rcases Station.updatePlug_ok h1 with ⟨hnone, rfl⟩ | ⟨cs, cs', hcs, hop, rfl⟩
      · have hinv' : Inv02W s (cntP s (veh :: L)) (cntQ L) (cntB (veh :: L)) := by
          refine Inv02W_congrOn ?_ (fun _ _ => rfl) hinv
          intro st2 hst2 cs2 hcs2
          refine ⟨rfl, ?_⟩
          simp only [cntQ, List.countP_cons, queuesFor, hact]
          have : (sid == st2.id && cid == cs2.id) = false := by
            by_cases hs : st2.id = sid
            · have := station_unique hwf hst hst2 hs
              subst this
              have hne := lookup_none hnone cs2 hcs2
              have : (cid == cs2.id) = false := by simpa using (Ne.symm hne)
              simp [this]
            · have : (sid == st2.id) = false := by simpa using (Ne.symm hs)
              simp [this]
          simp [this]
        exact Inv02W_samePlugs hmem rfl rfl rfl rfl hinv'
      · obtain ⟨hlt, rfl⟩ := decEnq_ok hop
        obtain ⟨hcmem, hcid⟩ := plug?_some hcs
        refine Inv02W_setPlug (cs := cs) (cs' := { cs with enq := cs.enq - 1 }) hmem hcmem rfl rfl rfl ?_ ?_ hinv
        · intro a b hab
          refine ⟨rfl, ?_⟩
          simp only [cntQ, List.countP_cons, queuesFor, hact]
          have : (sid == a && cid == b) = false := by
            rw [hid, hcid] at hab
            by_cases h1 : sid = a
            · by_cases h2 : cid = b
              · exact absurd ⟨h1.symm, h2.symm⟩ hab
              · simp [h2]
            · simp [h1]
          simp [this]
        · have := hinv.1 st hmem cs hcmem
          simp only [cntQ, List.countP_cons, queuesFor, hact, hid, hcid, beq_self_eq_true,
            Bool.and_self, if_true] at this ⊢
          constructor
          · exact this.1
          · omega
  case chargingBase b cid =>
    split at h
    · cases h
    · next base hbase =>
      split at h
      · cases h
      · split at h
        · cases h
        · next st hstb =>
          simp only [Outcome.bind_eq, Outcome.bind_eq_ok] at h
          obtain ⟨base', h1, s2, h2, st', h3, h4⟩ := h
          obtain ⟨hle, rfl⟩ := giveBack_ok h1
          obtain ⟨_, hb2, hs2, _, _, _, _⟩ := Sim.modifyBase_fields h2
          obtain ⟨_, hs1, hb1, _, _, _, _⟩ := Sim.modifyStation_fields h4
          obtain ⟨hbmem, hbid⟩ := base?_some hbase
          -- the station the base is attached to
          obtain ⟨sid, hsid, hst⟩ : ∃ sid, base.station = some sid ∧ s.station? sid = some st := by
            cases hbs : base.station with
            | none => rw [hbs] at hstb; cases hstb
            | some sid => rw [hbs] at hstb; exact ⟨sid, rfl, hstb⟩
          obtain ⟨hmem, hid⟩ := station?_some hst
          have hbsEq2 : baseStation s2 = baseStation s :=
            baseStation_replace (base := base) (base' := { base with avail := base.avail + 1 })
              (by rw [hbid]; exact hbase) rfl rfl hb2
          have hbsEq1 : baseStation s1 = baseStation s := by
            rw [← hbsEq2]; exact baseStation_same hb1
          have hbs1 : baseStation s b = some sid := by
            simp [baseStation, hbase, hsid]
          refine ⟨?_, hbsEq1⟩
          rw [Inv02On_iff_W] at hinv ⊢
          have hQ : cntQ L = cntQ (veh :: L) := by
            funext a c; simp [cntQ, queuesFor, hact]
          rw [hQ]
          -- step 1: the stall
          have step1 : Inv02W s2 (cntP s (veh :: L)) (cntQ (veh :: L)) (cntB L) := by
            refine Inv02W_setBase (base := base) (base' := { base with avail := base.avail + 1 }) hbmem rfl hs2 hb2 ?_ ?_ hinv
            · intro b' hb'
              simp only [cntB, List.countP_cons, holdsStall, hact]
              have : (b == b') = false := by rw [← hbid] at *; simpa using (Ne.symm hb')
              simp [this]
            · have := hinv.2 base hbmem
              simp only [cntB, List.countP_cons, holdsStall, hact, hbid, beq_self_eq_true, if_true] at this ⊢
              omega
          -- step 2: the plug
          have hPs : cntP s1 L = cntP s L := by
            funext a c; simp [cntP, holdsPlug_congr hbsEq1]
          rw [hPs]
          have hmem2 : st ∈ s2.stations := by rw [hs2]; exact hmem
          rcases Station.updatePlug_ok h3 with ⟨hnone, rfl⟩ | ⟨cs, cs', hcs, hop, rfl⟩
          · have hinv' : Inv02W s2 (cntP s L) (cntQ (veh :: L)) (cntB L) := by
              refine Inv02W_congrOn ?_ (fun _ _ => rfl) step1
              intro st2 hst2 cs2 hcs2
              rw [hs2] at hst2
              refine ⟨?_, rfl⟩
              simp only [cntP, List.countP_cons, holdsPlug, hact, hbs1]
              have : (cid == cs2.id && some sid == some st2.id) = false := by
                by_cases hs : st2.id = sid
                · have := station_unique hwf hst hst2 hs
                  subst this
                  have hne := lookup_none hnone cs2 hcs2
                  have : (cid == cs2.id) = false := by simpa using (Ne.symm hne)
                  simp [this]
                · have : (some sid == some st2.id) = false := by simpa using (Ne.symm hs)
                  simp [this]
              simpa using this
            exact Inv02W_samePlugs hmem2 rfl rfl hs1 hb1 hinv'
          · obtain ⟨hlt, rfl⟩ := incAvail_ok hop
            obtain ⟨hcmem, hcid⟩ := plug?_some hcs
            refine Inv02W_setPlug (cs := cs) (cs' := { cs with avail := cs.avail + 1 }) hmem2 hcmem rfl hs1 hb1 ?_ ?_ step1
            · intro a c hab
              refine ⟨?_, rfl⟩
              simp only [cntP, List.countP_cons, holdsPlug, hact, hbs1]
              have : (cid == c && some sid == some a) = false := by
                rw [hid, hcid] at hab
                by_cases h1 : sid = a
                · by_cases h2 : cid = c
                  · exact absurd ⟨h1.symm, h2.symm⟩ hab
                  · simp [h2]
                · simp [h1]
              simpa using this
            · have := hinv.1 st hmem cs hcmem
              simp only [cntP, List.countP_cons, holdsPlug, hact, hbs1, hid, hcid, beq_self_eq_true,
                Bool.and_self, if_true] at this ⊢
              constructor
              · omega
              · exact this.2

end Hive

namespace Hive

variable {env : Env}

theorem checkoutBase_ok {b b' : Base} (h : b.checkout = some b') :
    1 ≤ b.avail ∧ b' = { b with avail := b.avail - 1 } := by
  unfold Base.checkout at h
  split at h
  · cases h
  · next hc => cases h; exact ⟨by omega, rfl⟩

theorem checkoutPlug_ok {st st' : Station} {c : ChargerId} {cs : ChargerState}
    (hcs : st.plug? c = some cs) (h : st.checkout c = .ok st') :
    0 < cs.avail ∧ st' = st.setPlug { cs with avail := cs.avail - 1 } := by
  unfold Station.checkout at h
  rcases Station.updatePlug_ok h with ⟨hnone, _⟩ | ⟨cs2, cs', hcs2, hop, rfl⟩
  · rw [hnone] at hcs; cases hcs
  · rw [hcs] at hcs2; cases hcs2
    split at hop
    · cases hop
    · next hav =>
      unfold ChargerState.decAvail at hop
      split at hop
      · cases hop
      · next hz =>
        cases hop
        exact ⟨by omega, rfl⟩

/-- resource part of a successful `ChargingStation` entry (shared by the DispatchStation redirect) -/
theorem takePlug_inv02 {s s1 : Sim} {st st' : Station} {sid : StationId} {cid : ChargerId}
    {cs : ChargerState} {veh' : Vehicle} {L : List Vehicle}
    (hst : s.station? sid = some st) (hcs : st.plug? cid = some cs)
    (hco : st.checkout cid = .ok st')
    (hs1 : s1.stations = replaceById Station.id s.stations st') (hb1 : s1.bases = s.bases)
    (hact : veh'.act = .chargingStation sid cid)
    (hinv : Inv02On s L) : Inv02On s1 (veh' :: L) := by
  obtain ⟨hpos, rfl⟩ := checkoutPlug_ok hcs hco
  obtain ⟨hmem, hid⟩ := station?_some hst
  obtain ⟨hcmem, hcid⟩ := plug?_some hcs
  rw [Inv02On_iff_W] at hinv ⊢
  have hPs : cntP s1 (veh' :: L) = cntP s (veh' :: L) := by
    funext a b; simp [cntP, holdsPlug_congr (baseStation_same hb1)]
  have hQ : cntQ (veh' :: L) = cntQ L := by funext a b; simp [cntQ, queuesFor, hact]
  have hB : cntB (veh' :: L) = cntB L := by funext a; simp [cntB, holdsStall, hact]
  rw [hPs, hQ, hB]
  refine Inv02W_setPlug (cs := cs) (cs' := { cs with avail := cs.avail - 1 }) hmem hcmem rfl hs1 hb1 ?_ ?_ hinv
  · intro a b hab
    refine ⟨?_, rfl⟩
    simp only [cntP, List.countP_cons, holdsPlug, hact]
    have : (sid == a && cid == b) = false := by
      rw [hid, hcid] at hab
      by_cases h1 : sid = a
      · by_cases h2 : cid = b
        · exact absurd ⟨h1.symm, h2.symm⟩ hab
        · simp [h2]
      · simp [h1]
    simp [this]
  · have := hinv.1 st hmem cs hcmem
    simp only [cntP, List.countP_cons, holdsPlug, hact, hid, hcid, beq_self_eq_true,
      Bool.and_self, if_true] at this ⊢
    constructor
    · omega
    · exact this.2

end Hive

namespace Hive

variable {env : Env}

/-- the common ending of every `enter`: the activity is stored on the vehicle -/
theorem finish_enter {s s1 s2 : Sim} {v : VehicleId} {a : Act} {L : List Vehicle}
    (hv : s1.vehicles = s.vehicles)
    (hres : ∀ veh' : Vehicle, veh'.act = a → Inv02On s1 (veh' :: L))
    (hbs : baseStation s1 = baseStation s)
    (h : applyAct env s1 v a = .ok s2) :
    ∃ old veh', s.vehicle? v = some old ∧ veh'.id = v ∧
      s2.vehicles = replaceById Vehicle.id s.vehicles veh' ∧
      Inv02On s2 (veh' :: L) ∧ baseStation s2 = baseStation s := by
  obtain ⟨veh, hveh, h1, h2, h3, _, _, _⟩ := applyAct_fields h
  have hveh' : s.vehicle? v = some veh := by
    unfold Sim.vehicle? at *; rw [← hv]; exact hveh
  refine ⟨veh, { veh with act := a }, hveh', (vehicle?_some hveh').2, ?_, ?_, ?_⟩
  · rw [h1, hv]
  · exact Inv02On_congr h2 h3 (hres _ rfl)
  · rw [← hbs]; exact baseStation_same h3

/-- an activity that holds no plug, no queue slot and no stall -/
def Act.free : Act → Bool
  | .chargingStation _ _ | .chargingBase _ _ | .chargeQueueing _ _ _ | .reserveBase _ => false
  | _ => true

theorem Inv02On_cons_of_free {s : Sim} {veh : Vehicle} {L : List Vehicle} (hf : veh.act.free = true) :
    Inv02On s (veh :: L) ↔ Inv02On s L := by
  apply Inv02On_cons_free
  · intro a b; cases h : veh.act <;> simp_all [holdsPlug, Act.free]
  · intro a b; cases h : veh.act <;> simp_all [queuesFor, Act.free]
  · intro a; cases h : veh.act <;> simp_all [holdsStall, Act.free]

end Hive

namespace Hive

variable {env : Env}

/-- ending of `ServicingTrip.enter`: the vehicle was already replaced once (fare credited) -/
theorem finish_enter' {s s1 s2 : Sim} {v : VehicleId} {a : Act} {L : List Vehicle} {old veh1 : Vehicle}
    (hold : s.vehicle? v = some old) (hid1 : veh1.id = v)
    (hv : s1.vehicles = replaceById Vehicle.id s.vehicles veh1)
    (hres : ∀ veh' : Vehicle, veh'.act = a → Inv02On s1 (veh' :: L))
    (hbs : baseStation s1 = baseStation s)
    (h : applyAct env s1 v a = .ok s2) :
    ∃ old veh', s.vehicle? v = some old ∧ veh'.id = v ∧
      s2.vehicles = replaceById Vehicle.id s.vehicles veh' ∧
      Inv02On s2 (veh' :: L) ∧ baseStation s2 = baseStation s := by
  obtain ⟨veh, hveh, h1, h2, h3, _, _, _⟩ := applyAct_fields h
  have hveh1 : s1.vehicle? v = some veh1 := by
    unfold Sim.vehicle? at *
    rw [hv, ← hid1]
    exact lookup_replaceById_self (old := old) (by rw [hid1]; exact hold)
  rw [hveh1] at hveh
  cases hveh
  refine ⟨old, { veh1 with act := a }, hold, hid1, ?_, ?_, ?_⟩
  · rw [h1, hv]
    exact replaceById_replaceById _ rfl
  · exact Inv02On_congr h2 h3 (hres _ rfl)
  · rw [← hbs]; exact baseStation_same h3

/-- `enter` takes exactly what the entered activity holds -/
theorem enter_inv02 {w w2 : World} {v : VehicleId} {next : Act} {L : List Vehicle} (hwf : w.sim.WF)
    (hinv : Inv02On w.sim L) (h : enter env w v next = .ok w2) :
    ∃ old veh', w.sim.vehicle? v = some old ∧ veh'.id = v ∧
      w2.sim.vehicles = replaceById Vehicle.id w.sim.vehicles veh' ∧
      Inv02On w2.sim (veh' :: L) ∧ baseStation w2.sim = baseStation w.sim := by
  have hfree : ∀ a : Act, a.free = true → ∀ veh' : Vehicle, veh'.act = a → Inv02On w.sim (veh' :: L) :=
    fun a ha veh' hv => (Inv02On_cons_of_free (by rw [hv]; exact ha)).mpr hinv
  cases next <;> simp only [enter] at h
  case idle d =>
    simp only [Outcome.bind_eq, Outcome.bind_eq_ok, Outcome.pure_eq] at h
    obtain ⟨s2, h1, h2⟩ := h
    cases h2
    exact finish_enter rfl (hfree _ rfl) rfl h1
  case outOfService =>
    simp only [Outcome.bind_eq, Outcome.bind_eq_ok, Outcome.pure_eq] at h
    obtain ⟨s2, h1, h2⟩ := h
    cases h2
    exact finish_enter rfl (hfree _ rfl) rfl h1
  case repositioning route =>
    split at h
    · cases h
    · split at h
      · cases h
      · simp only [Outcome.bind_eq, Outcome.bind_eq_ok, Outcome.pure_eq] at h
        obtain ⟨s2, h1, h2⟩ := h
        cases h2
        exact finish_enter rfl (hfree _ rfl) rfl h1
  case dispatchBase b route =>
    split at h
    · cases h
    · cases h
    · split at h
      · cases h
      · split at h
        · cases h
        · simp only [Outcome.bind_eq, Outcome.bind_eq_ok, Outcome.pure_eq] at h
          obtain ⟨s2, h1, h2⟩ := h
          cases h2
          exact finish_enter rfl (hfree _ rfl) rfl h1
  case dispatchTrip rid route =>
    split at h
    · cases h
    · split at h
      · cases h
      · split at h
        · cases h
        · split at h
          · cases h
          · simp only [Outcome.bind_eq, Outcome.bind_eq_ok, Outcome.pure_eq] at h
            obtain ⟨s1, h0, s2, h1, h2⟩ := h
            cases h2
            obtain ⟨_, _, a2, a3, a4, _, _⟩ := Sim.modifyRequest_fields h0
            exact finish_enter a4 (fun veh' hv => Inv02On_congr a2 a3 (hfree _ rfl veh' hv))
              (baseStation_same a3) h1
  case servicingPooling => cases h
  case dispatchPooling => cases h
  case servicingTrip sreq dep route =>
    split at h
    · cases h
    · split at h
      · cases h
      · split at h
        · cases h
        · split at h
          · cases h
          · split at h
            · cases h
            · split at h
              · cases h
              · simp only [Outcome.bind_eq, Outcome.bind_eq_ok, Outcome.pure_eq] at h
                obtain ⟨w1, h0, s2, h1, h2⟩ := h
                cases h2
                obtain ⟨veh, req, hveh, _, a1, _, a3, a4, _, _⟩ := pickUpTrip_fields h0
                exact finish_enter' (veh1 := { veh with balance := veh.balance + req.value }) hveh
                  (vehicle?_some hveh).2 a1
                  (fun veh' hv => Inv02On_congr a3 a4 (hfree _ rfl veh' hv)) (baseStation_same a4) h1
  case reserveBase b =>
    split at h
    · cases h
    · cases h
    · next veh base hveh hbase =>
      split at h
      · cases h
      · split at h
        · cases h
        · split at h
          · cases h
          · next base' hco =>
            simp only [Outcome.bind_eq, Outcome.bind_eq_ok, Outcome.pure_eq] at h
            obtain ⟨s1, h0, s2, h1, h2⟩ := h
            cases h2
            obtain ⟨hge, rfl⟩ := checkoutBase_ok hco
            obtain ⟨_, hb1, hs1, hv1, _, _, _⟩ := Sim.modifyBase_fields h0
            obtain ⟨hbmem, hbid⟩ := base?_some hbase
            have hbs : baseStation s1 = baseStation w.sim :=
              baseStation_replace (base := base) (base' := { base with avail := base.avail - 1 })
                (by rw [hbid]; exact hbase) rfl rfl hb1
            refine finish_enter hv1 ?_ hbs h1
            intro veh' hact
            rw [Inv02On_iff_W] at hinv ⊢
            have hP : cntP s1 (veh' :: L) = cntP w.sim L := by
              funext a c; simp [cntP, holdsPlug_congr hbs, holdsPlug, hact]
            have hQ : cntQ (veh' :: L) = cntQ L := by funext a c; simp [cntQ, queuesFor, hact]
            rw [hP, hQ]
            refine Inv02W_setBase (base := base) (base' := { base with avail := base.avail - 1 }) hbmem rfl hs1 hb1 ?_ ?_ hinv
            · intro b' hb'
              simp only [cntB, List.countP_cons, holdsStall, hact]
              have : (b == b') = false := by rw [← hbid] at *; simpa using (Ne.symm hb')
              simp [this]
            · have := hinv.2 base hbmem
              simp only [cntB, List.countP_cons, holdsStall, hact, hbid, beq_self_eq_true, if_true] at this ⊢
              omega
  case chargingStation sid cid =>
    split at h
    · cases h
    · cases h
    · next veh st hveh hst =>
      split at h
      · cases h
      · split at h
        · cases h
        · split at h
          · cases h
          · split at h
            · cases h
            · next cs hcs =>
              split at h
              · cases h
              · simp only [Outcome.bind_eq, Outcome.bind_eq_ok, Outcome.pure_eq] at h
                obtain ⟨st', hco, s1, h0, s2, h1, h2⟩ := h
                cases h2
                obtain ⟨_, hs1, hb1, hv1, _, _, _⟩ := Sim.modifyStation_fields h0
                exact finish_enter hv1
                  (fun veh' hact => takePlug_inv02 hst hcs hco hs1 hb1 hact hinv)
                  (baseStation_same hb1) h1
  case dispatchStation sid cid route =>
    split at h
    · cases h
    · cases h
    · next veh st hveh hst =>
      split at h
      · -- already at the station: ChargingStation.enter
        split at h
        · cases h
        · split at h
          · cases h
          · split at h
            · cases h
            · next cs hcs =>
              split at h
              · cases h
              · simp only [Outcome.bind_eq, Outcome.bind_eq_ok, Outcome.pure_eq] at h
                obtain ⟨st', hco, s1, h0, s2, h1, h2⟩ := h
                cases h2
                obtain ⟨_, hs1, hb1, hv1, _, _, _⟩ := Sim.modifyStation_fields h0
                exact finish_enter hv1
                  (fun veh' hact => takePlug_inv02 hst hcs hco hs1 hb1 hact hinv)
                  (baseStation_same hb1) h1
      · split at h
        · cases h
        · split at h
          · cases h
          · simp only [Outcome.bind_eq, Outcome.bind_eq_ok, Outcome.pure_eq] at h
            obtain ⟨s2, h1, h2⟩ := h
            cases h2
            exact finish_enter rfl (hfree _ rfl) rfl h1
  case chargeQueueing sid cid t =>
    split at h
    · cases h
    · cases h
    · next veh st hveh hst =>
      split at h
      · cases h
      · split at h
        · cases h
        · split at h
          · cases h
          · split at h
            · cases h
            · simp only [Outcome.bind_eq, Outcome.bind_eq_ok, Outcome.pure_eq] at h
              obtain ⟨st', henq, s1, h0, s2, h1, h2⟩ := h
              cases h2
              obtain ⟨_, hs1, hb1, hv1, _, _, _⟩ := Sim.modifyStation_fields h0
              obtain ⟨hmem, hid⟩ := station?_some hst
              refine finish_enter hv1 ?_ (baseStation_same hb1) h1
              intro veh' hact
              rw [Inv02On_iff_W] at hinv ⊢
              have hP : cntP s1 (veh' :: L) = cntP w.sim L := by
                funext a c; simp [cntP, holdsPlug_congr (baseStation_same hb1), holdsPlug, hact]
              have hB : cntB (veh' :: L) = cntB L := by funext a; simp [cntB, holdsStall, hact]
              rw [hP, hB]
              unfold Station.enqueue at henq
              rcases Station.updatePlug_ok henq with ⟨hnone, rfl⟩ | ⟨cs, cs', hcs, hop, rfl⟩
              · have hinv' : Inv02W w.sim (cntP w.sim L) (cntQ (veh' :: L)) (cntB L) := by
                  refine Inv02W_congrOn ?_ (fun _ _ => rfl) hinv
                  intro st2 hst2 cs2 hcs2
                  refine ⟨rfl, ?_⟩
                  simp only [cntQ, List.countP_cons, queuesFor, hact]
                  have : (sid == st2.id && cid == cs2.id) = false := by
                    by_cases hs : st2.id = sid
                    · have := station_unique hwf hst hst2 hs
                      subst this
                      have hne := lookup_none hnone cs2 hcs2
                      have : (cid == cs2.id) = false := by simpa using (Ne.symm hne)
                      simp [this]
                    · have : (sid == st2.id) = false := by simpa using (Ne.symm hs)
                      simp [this]
                  simp [this]
                exact Inv02W_samePlugs hmem rfl rfl hs1 hb1 hinv'
              · cases hop
                obtain ⟨hcmem, hcid⟩ := plug?_some hcs
                refine Inv02W_setPlug (cs := cs) (cs' := cs.incEnq) hmem hcmem rfl hs1 hb1 ?_ ?_ hinv
                · intro a c hab
                  refine ⟨rfl, ?_⟩
                  simp only [cntQ, List.countP_cons, queuesFor, hact]
                  have : (sid == a && cid == c) = false := by
                    rw [hid, hcid] at hab
                    by_cases h1 : sid = a
                    · by_cases h2 : cid = c
                      · exact absurd ⟨h1.symm, h2.symm⟩ hab
                      · simp [h2]
                    · simp [h1]
                  simp [this]
                · have := hinv.1 st hmem cs hcmem
                  simp only [cntQ, List.countP_cons, queuesFor, hact, hid, hcid, beq_self_eq_true,
                    Bool.and_self, if_true, ChargerState.incEnq] at this ⊢
                  constructor
                  · exact this.1
                  · omega
  case chargingBase b cid =>
    split at h
    · cases h
    · cases h
    · next veh base hveh hbase =>
      split at h
      · cases h
      · next sid hsid =>
        split at h
        · cases h
        · next st hst =>
          split at h
          · cases h
          · split at h
            · cases h
            · split at h
              · cases h
              · split at h
                · cases h
                · split at h
                  · cases h
                  · next base' hcob =>
                    split at h
                    · cases h
                    · next cs hcs =>
                      split at h
                      · cases h
                      · simp only [Outcome.bind_eq, Outcome.bind_eq_ok, Outcome.pure_eq] at h
                        obtain ⟨st', hco, s1, h0, s2, h1, s3, h2, h3⟩ := h
                        cases h3
                        obtain ⟨hge, rfl⟩ := checkoutBase_ok hcob
                        obtain ⟨hpos, rfl⟩ := checkoutPlug_ok hcs hco
                        obtain ⟨_, hb1, hs1, hv1, _, _, _⟩ := Sim.modifyBase_fields h0
                        obtain ⟨_, hs2, hb2, hv2, _, _, _⟩ := Sim.modifyStation_fields h1
                        obtain ⟨hbmem, hbid⟩ := base?_some hbase
                        obtain ⟨hmem, hid⟩ := station?_some hst
                        obtain ⟨hcmem, hcid⟩ := plug?_some hcs
                        have hbsEq1 : baseStation s1 = baseStation w.sim :=
                          baseStation_replace (base := base) (base' := { base with avail := base.avail - 1 })
                            (by rw [hbid]; exact hbase) rfl rfl hb1
                        have hbsEq2 : baseStation s2 = baseStation w.sim := by
                          rw [← hbsEq1]; exact baseStation_same hb2
                        have hbs1 : baseStation w.sim b = some sid := by
                          simp [baseStation, hbase, hsid]
                        refine finish_enter (hv2.trans hv1) ?_ hbsEq2 h2
                        intro veh' hact
                        rw [Inv02On_iff_W] at hinv ⊢
                        have hQ : cntQ (veh' :: L) = cntQ L := by funext a c; simp [cntQ, queuesFor, hact]
                        have hP2 : cntP s2 (veh' :: L) = cntP w.sim (veh' :: L) := by
                          funext a c; simp [cntP, holdsPlug_congr hbsEq2]
                        rw [hQ, hP2]
                        have step1 : Inv02W s1 (cntP w.sim L) (cntQ L) (cntB (veh' :: L)) := by
                          refine Inv02W_setBase (base := base) (base' := { base with avail := base.avail - 1 }) hbmem rfl hs1 hb1 ?_ ?_ hinv
                          · intro b' hb'
                            simp only [cntB, List.countP_cons, holdsStall, hact]
                            have : (b == b') = false := by rw [← hbid] at *; simpa using (Ne.symm hb')
                            simp [this]
                          · have := hinv.2 base hbmem
                            simp only [cntB, List.countP_cons, holdsStall, hact, hbid, beq_self_eq_true, if_true] at this ⊢
                            omega
                        have hmem1 : st ∈ s1.stations := by rw [hs1]; exact hmem
                        refine Inv02W_setPlug (cs := cs) (cs' := { cs with avail := cs.avail - 1 }) hmem1 hcmem rfl hs2 hb2 ?_ ?_ step1
                        · intro a c hab
                          refine ⟨?_, rfl⟩
                          simp only [cntP, List.countP_cons, holdsPlug, hact, hbs1]
                          have : (cid == c && some sid == some a) = false := by
                            rw [hid, hcid] at hab
                            by_cases h1 : sid = a
                            · by_cases h2 : cid = c
                              · exact absurd ⟨h1.symm, h2.symm⟩ hab
                              · simp [h2]
                            · simp [h1]
                          simpa using this
                        · have := hinv.1 st hmem cs hcmem
                          simp only [cntP, List.countP_cons, holdsPlug, hact, hbs1, hid, hcid, beq_self_eq_true,
                            Bool.and_self, if_true] at this ⊢
                          constructor
                          · omega
                          · exact this.2

end Hive

namespace Hive

variable {env : Env}

theorem Inv02On_countP_congr {s : Sim} {L L' : List Vehicle}
    (h : ∀ p : Vehicle → Bool, L'.countP p = L.countP p) : Inv02On s L → Inv02On s L' := by
  unfold Inv02On
  intro hinv
  simp only [h]
  exact hinv

/-- **one transition keeps the counting invariant** — provided the `prev` activity handed to
    `exit` is the activity the vehicle really is in -/
theorem transition_inv02 {w w2 : World} {v : VehicleId} {veh : Vehicle} {next : Act}
    (hwf : w.sim.WF) (hinv : Inv02On w.sim w.sim.vehicles)
    (hveh : w.sim.vehicle? v = some veh)
    (h : transition env w v veh.act next = .ok w2) :
    Inv02On w2.sim w2.sim.vehicles := by
  unfold transition at h
  simp only [Outcome.bind_eq, Outcome.bind_eq_ok] at h
  obtain ⟨s1, h1, h2⟩ := h
  let others := w.sim.vehicles.filter (fun y => y.id != v)
  have hsplit : Inv02On w.sim (veh :: others) := by
    refine Inv02On_countP_congr (L := w.sim.vehicles) ?_ hinv
    intro p
    rw [List.countP_cons]
    exact (countP_split p hwf.veh hveh).symm
  obtain ⟨hx1, hbs1⟩ := exit_inv02 hwf hsplit h1
  have hv1 := (exit_frame h1).1
  have hwf1 : s1.WF := (exit_sameIds hwf h1).wf hwf
  obtain ⟨old, veh', hold, hid', hv2, hinv2, _⟩ :=
    enter_inv02 (w := { w with sim := s1 }) (L := others) hwf1 hx1 h2
  refine Inv02On_countP_congr (L := veh' :: others) ?_ hinv2
  intro p
  rw [hv2, List.countP_cons]
  simp only at hold
  have hold' : lookup Vehicle.id s1.vehicles veh'.id = some old := by rw [hid']; exact hold
  have hn1 : (s1.vehicles.map Vehicle.id).Nodup := hwf1.veh
  have := countP_replace_split p hn1 hold'
  rw [this, hid']
  simp only [hv1, others]

end Hive

namespace Hive

variable {env : Env}

/-- same holdings: the two vehicles are counted the same way everywhere -/
def SameHold (s : Sim) (a b : Vehicle) : Prop :=
  (∀ sid cid, holdsPlug s sid cid a = holdsPlug s sid cid b) ∧
  (∀ sid cid, queuesFor sid cid a = queuesFor sid cid b) ∧
  (∀ bid, holdsStall bid a = holdsStall bid b)

theorem sameHold_of_act {s : Sim} {a b : Vehicle} (h : a.act = b.act) : SameHold s a b := by
  refine ⟨?_, ?_, ?_⟩ <;> intros <;> simp [holdsPlug, queuesFor, holdsStall, h]

theorem sameHold_setRoute {s : Sim} {a b : Vehicle} (r : Route) (h : a.act = b.act.setRoute r) :
    SameHold s a b := by
  refine ⟨?_, ?_, ?_⟩ <;> intros <;> cases hb : b.act <;>
    simp [holdsPlug, queuesFor, holdsStall, h, hb, Act.setRoute]

theorem sameHold_free {s : Sim} {a b : Vehicle} (ha : a.act.free = true) (hb : b.act.free = true) :
    SameHold s a b := by
  refine ⟨?_, ?_, ?_⟩ <;> intros <;> cases h1 : a.act <;> cases h2 : b.act <;>
    simp_all [holdsPlug, queuesFor, holdsStall, Act.free]

/-- replacing a vehicle by one with the same holdings keeps the invariant -/
theorem Inv02On_replace {s : Sim} {old veh' : Vehicle} (hwf : s.WF)
    (hold : s.vehicle? veh'.id = some old) (hsame : SameHold s veh' old)
    (hinv : Inv02On s s.vehicles) : Inv02On s (replaceById Vehicle.id s.vehicles veh') := by
  unfold Inv02On at *
  have hc : ∀ p : Vehicle → Bool, p veh' = p old →
      (replaceById Vehicle.id s.vehicles veh').countP p = s.vehicles.countP p := by
    intro p hp
    have := countP_replaceById p hwf.veh hold
    rw [hp] at this
    omega
  refine ⟨?_, ?_⟩
  · intro st hst cs hcs
    rw [hc _ (hsame.1 st.id cs.id), hc _ (hsame.2.1 st.id cs.id)]
    exact hinv.1 st hst cs hcs
  · intro b hb
    rw [hc _ (hsame.2.2 b.id)]
    exact hinv.2 b hb

theorem modifyVehicle_inv02 {s s' : Sim} {veh' old : Vehicle} (hwf : s.WF)
    (hold : s.vehicle? veh'.id = some old) (hsame : SameHold s veh' old)
    (hinv : Inv02On s s.vehicles) (h : s.modifyVehicle env veh' = .ok s') :
    Inv02On s' s'.vehicles := by
  obtain ⟨_, hv, hs, hb, _, _, _⟩ := Sim.modifyVehicle_fields h
  rw [hv]
  exact Inv02On_congr hs hb (Inv02On_replace hwf hold hsame hinv)

theorem route?_free {a : Act} {r : Route} (h : a.route? = some r) : a.free = true := by
  cases a <;> simp_all [Act.route?, Act.free]

theorem setRoute_free {a : Act} (r : Route) (h : a.free = true) : (a.setRoute r).free = true := by
  cases a <;> simp_all [Act.setRoute, Act.free]

end Hive

namespace Hive

variable {env : Env}

theorem move_inv02 {w w2 : World} {v : VehicleId} (hwf : w.sim.WF)
    (hinv : Inv02On w.sim w.sim.vehicles) (h : move env w v = .ok w2) :
    Inv02On w2.sim w2.sim.vehicles ∧ SameIds w.sim w2.sim := by
  unfold move at h
  split at h
  · cases h
  · next veh hveh =>
    have hself := vehicle?_self hveh
    split at h
    · cases h
    · split at h
      · cases h
      · next route hroute =>
        have hfree := route?_free hroute
        simp only [Outcome.bind_eq, Outcome.bind_eq_ok, Outcome.pure_eq] at h
        obtain ⟨tr, _, h⟩ := h
        split at h
        · -- nothing traversed: the route is emptied
          simp only [Outcome.bind_eq, Outcome.bind_eq_ok, Outcome.pure_eq] at h
          obtain ⟨s2, h1, h2⟩ := h
          cases h2
          exact ⟨modifyVehicle_inv02 (veh' := { veh with act := veh.act.setRoute [] }) hwf hself
            (sameHold_setRoute [] rfl) hinv h1, Sim.modifyVehicle_sameIds h1⟩
        · split at h
          · -- out of energy: exit (refusal ignored), then OutOfService
            simp only [Outcome.bind_eq, Outcome.bind_eq_ok, Outcome.pure_eq] at h
            obtain ⟨s2, h1, h2⟩ := h
            cases h2
            split at h1
            · next s' hexit =>
              -- exit succeeded: this is a regular transition into OutOfService
              have htr : transition env w v veh.act .outOfService = .ok { w with sim := s2 } := by
                unfold transition
                simp only [Outcome.bind_eq, Outcome.bind_eq_ok]
                refine ⟨s', hexit, ?_⟩
                simp only [enter, Outcome.bind_eq, Outcome.bind_eq_ok, Outcome.pure_eq]
                exact ⟨s2, h1, rfl⟩
              exact ⟨transition_inv02 hwf hinv hveh htr, transition_sameIds hwf htr⟩
            · -- exit refused or failed: only activities that hold nothing can be moving
              obtain ⟨veh0, hveh0, hv, hs, hb, _, _, _⟩ := applyAct_fields h1
              rw [hveh] at hveh0
              cases hveh0
              refine ⟨?_, applyAct_sameIds h1⟩
              rw [hv]
              exact Inv02On_congr hs hb
                (Inv02On_replace (veh' := { veh with act := Act.outOfService }) hwf hself
                  (sameHold_free rfl hfree) hinv)
          · split at h
            · cases h
            · simp only [Outcome.bind_eq, Outcome.bind_eq_ok, Outcome.pure_eq] at h
              obtain ⟨s2, h1, h2⟩ := h
              cases h2
              refine ⟨modifyVehicle_inv02 (old := veh) hwf ?_ ?_ hinv h1, Sim.modifyVehicle_sameIds h1⟩
              · exact hself
              · exact sameHold_setRoute tr.remaining rfl

end Hive

namespace Hive

variable {env : Env}

theorem charge_inv02 {w w2 : World} {v : VehicleId} {sid : StationId} {cid : ChargerId} (hwf : w.sim.WF)
    (hinv : Inv02On w.sim w.sim.vehicles) (h : charge env w v sid cid = .ok w2) :
    Inv02On w2.sim w2.sim.vehicles ∧ SameIds w.sim w2.sim := by
  unfold charge at h
  split at h
  · cases h
  · next st hst =>
    split at h
    · cases h
    · next veh hveh =>
      split at h
      · cases h
      · split at h
        · cases h
        · next cs hcs =>
          split at h
          · cases h
          · simp only [Outcome.bind_eq, Outcome.bind_eq_ok, Outcome.pure_eq] at h
            obtain ⟨s1, h1, s2, h2, h3⟩ := h
            cases h3
            have hself := vehicle?_self hveh
            have i1 : Inv02On s1 s1.vehicles := by
              refine modifyVehicle_inv02 (old := veh) hwf ?_ ?_ hinv h1
              · exact hself
              · exact sameHold_of_act rfl
            have id1 := Sim.modifyVehicle_sameIds h1
            obtain ⟨_, hv1, hs1, hb1, _, _, _⟩ := Sim.modifyVehicle_fields h1
            obtain ⟨_, hs2, hb2, hv2, _, _, _⟩ := Sim.modifyStation_fields h2
            have hst1 : s1.station? sid = some st := by
              unfold Sim.station? at *; rw [hs1]; exact hst
            have hmem1 : st ∈ s1.stations := (station?_some hst1).1
            refine ⟨?_, id1.trans (Sim.modifyStation_sameIds (id1.wf hwf) h2 ?_)⟩
            · rw [hv2]
              have hbs : baseStation s2 = baseStation s1 := baseStation_same hb2
              have : Inv02On s2 s1.vehicles := by
                rw [Inv02On_iff_W] at i1 ⊢
                have hP : cntP s2 s1.vehicles = cntP s1 s1.vehicles := by
                  funext a b; simp [cntP, holdsPlug_congr hbs]
                rw [hP]
                exact Inv02W_samePlugs (st := st) hmem1 (by rfl) (by rfl) hs2 hb2 i1
              exact this
            · intro old hold
              have : s1.station? st.id = some st := station?_self hst1
              simp only at hold
              rw [this] at hold
              cases hold
              rfl

theorem dropOffTrip_sim {w w2 : World} {v : VehicleId} {req : Request}
    (h : dropOffTrip w v req = .ok w2) : w2.sim = w.sim := by
  unfold dropOffTrip at h
  split at h
  · cases h
  · split at h
    · cases h
    · cases h; rfl

theorem performUpdate_inv02 {w w2 : World} {v : VehicleId} {veh : Vehicle} (hwf : w.sim.WF)
    (hinv : Inv02On w.sim w.sim.vehicles) (hveh : w.sim.vehicle? v = some veh)
    (h : performUpdate env w v veh.act = .ok w2) :
    Inv02On w2.sim w2.sim.vehicles ∧ SameIds w.sim w2.sim := by
  have hself := vehicle?_self hveh
  cases hact : veh.act <;> rw [hact] at h <;> simp only [performUpdate] at h
  case idle d =>
    rw [hveh] at h
    simp only at h
    split at h
    · cases h
    · simp only [Outcome.bind_eq, Outcome.bind_eq_ok, Outcome.pure_eq] at h
      obtain ⟨s2, h1, h2⟩ := h
      cases h2
      refine ⟨modifyVehicle_inv02 (old := veh) hwf ?_ ?_ hinv h1, Sim.modifyVehicle_sameIds h1⟩
      · exact hself
      · exact sameHold_free rfl (by rw [hact]; rfl)
  case outOfService | reserveBase => cases h; exact ⟨hinv, SameIds.refl _⟩
  case repositioning | dispatchTrip | dispatchStation | dispatchBase => exact move_inv02 hwf hinv h
  case servicingTrip req dep r =>
    simp only [Outcome.bind_eq, Outcome.bind_eq_ok, Outcome.pure_eq] at h
    obtain ⟨w1, h1, h2⟩ := h
    have hm := move_inv02 hwf hinv h1
    split at h2
    · cases h2
    · split at h2
      · cases h2; exact hm
      · split at h2
        · rw [dropOffTrip_sim h2]; exact hm
        · cases h2; exact hm
      · cases h2; exact hm
  case chargingStation sid cid => exact charge_inv02 hwf hinv h
  case chargingBase b cid =>
    split at h
    · cases h
    · exact charge_inv02 hwf hinv h
  case chargeQueueing sid cid t =>
    rw [hveh] at h
    simp only at h
    split at h
    · cases h
    · simp only [Outcome.bind_eq, Outcome.bind_eq_ok, Outcome.pure_eq] at h
      obtain ⟨s2, h1, h2⟩ := h
      cases h2
      refine ⟨modifyVehicle_inv02 (old := veh) hwf ?_ ?_ hinv h1, Sim.modifyVehicle_sameIds h1⟩
      · exact hself
      · exact sameHold_of_act rfl
  case servicingPooling | dispatchPooling => cases h

/-- `default_update` of a vehicle whose snapshot activity is its real activity -/
theorem defaultUpdate_inv02 {w w2 : World} {v : VehicleId} {veh : Vehicle} (hwf : w.sim.WF)
    (hinv : Inv02On w.sim w.sim.vehicles) (hveh : w.sim.vehicle? v = some veh)
    (h : defaultUpdate env w v veh.act = .ok w2) :
    Inv02On w2.sim w2.sim.vehicles ∧ SameIds w.sim w2.sim := by
  unfold defaultUpdate at h
  split at h
  · simp only [Outcome.bind_eq, Outcome.bind_eq_ok] at h
    obtain ⟨next, _, w1, htr, h3⟩ := h
    have i1 := transition_inv02 hwf hinv hveh htr
    have id1 := transition_sameIds hwf htr
    split at h3
    · cases h3
    · next veh1 hveh1 =>
      have := performUpdate_inv02 (id1.wf hwf) i1 hveh1 h3
      exact ⟨this.1, id1.trans this.2⟩
  · exact performUpdate_inv02 hwf hinv hveh h

end Hive
