/-
  Proofs.Index — `add_to_collection_dict`, `remove_from_collection_dict`,
  `update_entity_dictionaries` keep the index equal to the "entity i lies in cell c" relation,
  without stale, duplicated or empty entries.
-/
import Hive.Index
import Proofs.Lists

namespace Hive
namespace CollDict

theorem get_nil (c : Cell) : get [] c = [] := rfl

theorem get_cons (d : Cell) (l : List Nat) (xs : CollDict) (c : Cell) :
    get ((d, l) :: xs) c = if d == c then l else get xs c := by
  unfold get
  simp only [List.find?_cons]
  cases h : (d == c) <;> simp

theorem has_cons (d : Cell) (l : List Nat) (xs : CollDict) (c : Cell) :
    has ((d, l) :: xs) c = (d == c || has xs c) := by
  simp [has]

theorem get_of_not_has {xs : CollDict} {c : Cell} (h : has xs c = false) : get xs c = [] := by
  induction xs with
  | nil => rfl
  | cons p ps ih =>
    obtain ⟨d, l⟩ := p
    rw [has_cons] at h
    simp only [Bool.or_eq_false_iff] at h
    rw [get_cons, h.1]
    exact ih h.2

theorem has_iff_mem_cells {xs : CollDict} {c : Cell} : has xs c = true ↔ c ∈ xs.map (·.1) := by
  simp [has, List.any_eq_true]

/-- the entry found for an existing cell -/
theorem mem_get {xs : CollDict} (hn : (xs.map (·.1)).Nodup) {p : Cell × List Nat} (hp : p ∈ xs) :
    get xs p.1 = p.2 := by
  induction xs with
  | nil => cases hp
  | cons q qs ih =>
    obtain ⟨d, l⟩ := q
    simp only [List.map_cons, List.nodup_cons] at hn
    rw [get_cons]
    rcases List.mem_cons.mp hp with rfl | hp'
    · simp
    · have : d ≠ p.1 := by
        intro heq
        apply hn.1
        rw [heq]
        exact List.mem_map_of_mem hp'
      have : (d == p.1) = false := by simpa using this
      rw [this]
      exact ih hn.2 hp'

theorem get_mem_of_has {xs : CollDict} {c : Cell} (h : has xs c = true) : (c, get xs c) ∈ xs := by
  induction xs with
  | nil => simp [has] at h
  | cons p ps ih =>
    obtain ⟨d, l⟩ := p
    rw [has_cons] at h
    rw [get_cons]
    by_cases hd : d = c
    · subst hd; simp
    · have hdc : (d == c) = false := by simpa using hd
      rw [hdc] at h ⊢
      simp only [Bool.false_or] at h
      exact List.mem_cons_of_mem _ (ih h)

/-! `set` -/

theorem set_of_has {xs : CollDict} {c : Cell} (ids : List Nat) (h : has xs c = true) :
    set xs c ids = xs.map (fun p => if p.1 == c then (c, ids) else p) := by simp [set, h]

theorem set_of_not_has {xs : CollDict} {c : Cell} (ids : List Nat) (h : has xs c = false) :
    set xs c ids = xs ++ [(c, ids)] := by simp [set, h]

theorem cells_set (xs : CollDict) (c : Cell) (ids : List Nat) :
    (set xs c ids).map (·.1) = if has xs c then xs.map (·.1) else xs.map (·.1) ++ [c] := by
  cases h : has xs c
  · rw [set_of_not_has ids h]; simp
  · rw [set_of_has ids h]
    simp only [if_true, List.map_map]
    apply List.map_congr_left
    intro p _
    simp only [Function.comp]
    split
    · next hk => simpa using (beq_iff_eq.mp hk).symm
    · rfl

theorem nodup_set {xs : CollDict} (hn : (xs.map (·.1)).Nodup) (c : Cell) (ids : List Nat) :
    ((set xs c ids).map (·.1)).Nodup := by
  rw [cells_set]
  cases h : has xs c
  · simp only [Bool.false_eq_true, if_false]
    rw [List.nodup_append]
    refine ⟨hn, by simp, ?_⟩
    intro a ha b hb
    simp only [List.mem_cons, List.not_mem_nil, or_false] at hb
    subst hb
    intro heq
    subst heq
    have := has_iff_mem_cells.mpr ha
    rw [h] at this
    cases this
  · simpa using hn

theorem get_set_self (xs : CollDict) (c : Cell) (ids : List Nat) : get (set xs c ids) c = ids := by
  cases h : has xs c
  · rw [set_of_not_has ids h]
    induction xs with
    | nil => simp [get_cons]
    | cons p ps ih =>
      obtain ⟨d, l⟩ := p
      rw [has_cons] at h
      simp only [Bool.or_eq_false_iff] at h
      simp only [List.cons_append, get_cons, h.1]
      exact ih h.2
  · rw [set_of_has ids h]
    induction xs with
    | nil => simp [has] at h
    | cons p ps ih =>
      obtain ⟨d, l⟩ := p
      simp only [List.map_cons]
      by_cases hd : d = c
      · subst hd; simp [get_cons]
      · have hdc : (d == c) = false := by simpa using hd
        rw [has_cons, hdc] at h
        simp only [hdc, Bool.false_eq_true, if_false, get_cons]
        exact ih (by simpa using h)

theorem get_set_ne (xs : CollDict) {c c' : Cell} (ids : List Nat) (hne : c' ≠ c) :
    get (set xs c ids) c' = get xs c' := by
  have hcc : (c == c') = false := by simpa using (Ne.symm hne)
  cases h : has xs c
  · rw [set_of_not_has ids h]
    induction xs with
    | nil => simp [get_cons, hcc, get_nil]
    | cons p ps ih =>
      obtain ⟨d, l⟩ := p
      rw [has_cons] at h
      simp only [Bool.or_eq_false_iff] at h
      simp only [List.cons_append, get_cons]
      rw [ih h.2]
  · rw [set_of_has ids h]
    clear h
    induction xs with
    | nil => rfl
    | cons p ps ih =>
      obtain ⟨d, l⟩ := p
      simp only [List.map_cons]
      by_cases hd : d = c
      · subst hd
        simp only [beq_self_eq_true, if_true, get_cons, hcc]
        exact ih
      · have hdc : (d == c) = false := by simpa using hd
        simp only [hdc, Bool.false_eq_true, if_false, get_cons]
        rw [ih]

theorem mem_set {xs : CollDict} {c : Cell} {ids : List Nat} {p : Cell × List Nat} (h : p ∈ set xs c ids) :
    p = (c, ids) ∨ (p ∈ xs ∧ p.1 ≠ c) := by
  cases hh : has xs c
  · rw [set_of_not_has ids hh] at h
    rcases List.mem_append.mp h with hm | hm
    · right
      refine ⟨hm, ?_⟩
      intro heq
      have : has xs c = true := has_iff_mem_cells.mpr (by rw [← heq]; exact List.mem_map_of_mem hm)
      rw [hh] at this; cases this
    · left; simpa using hm
  · rw [set_of_has ids hh] at h
    obtain ⟨q, hq, rfl⟩ := List.mem_map.mp h
    split
    · left; rfl
    · next hk => right; exact ⟨hq, by simpa using hk⟩

/-! `delete` -/

theorem delete_some {xs xs' : CollDict} {c : Cell} (h : delete xs c = some xs') :
    has xs c = true ∧ xs' = xs.filter (fun p => p.1 != c) := by
  unfold delete at h
  split at h
  · next hh => exact ⟨hh, (Option.some.inj h).symm⟩
  · cases h

theorem get_filter_ne (xs : CollDict) {c c' : Cell} (hne : c' ≠ c) :
    get (xs.filter (fun p => p.1 != c)) c' = get xs c' := by
  induction xs with
  | nil => rfl
  | cons p ps ih =>
    obtain ⟨d, l⟩ := p
    simp only [List.filter_cons]
    by_cases hd : d = c
    · subst hd
      have : (d == c') = false := by simpa using (Ne.symm hne)
      simp [get_cons, this, ih]
    · have : (d != c) = true := by simpa using hd
      simp only [this, if_true, get_cons]
      rw [ih]

theorem get_filter_self (xs : CollDict) (c : Cell) : get (xs.filter (fun p => p.1 != c)) c = [] := by
  apply get_of_not_has
  rw [Bool.eq_false_iff]
  intro h
  obtain ⟨b, hm⟩ := List.mem_map.mp (has_iff_mem_cells.mp h)
  have := (List.mem_filter.mp hm.1).2
  simp [hm.2] at this

end CollDict

/-- the index dict `xs` represents exactly the relation `R i c` ("id i is listed under cell c") -/
structure DictInv (xs : CollDict) (R : Nat → Cell → Prop) : Prop where
  cells : (xs.map (·.1)).Nodup
  lists : ∀ p ∈ xs, p.2 ≠ [] ∧ p.2.Nodup
  mem : ∀ c i, i ∈ xs.get c ↔ R i c

namespace CollDict

/-- `add_to_collection_dict` -/
theorem add_inv {xs : CollDict} {R : Nat → Cell → Prop} (h : DictInv xs R) (c : Cell) (i : Nat) :
    DictInv (add xs c i) (fun j d => R j d ∨ (j = i ∧ d = c)) := by
  unfold add
  simp only
  have hnd : (get xs c).Nodup := by
    cases hh : has xs c
    · rw [get_of_not_has hh]; exact List.nodup_nil
    · exact (h.lists _ (get_mem_of_has hh)).2
  refine ⟨nodup_set h.cells _ _, ?_, ?_⟩
  · intro p hp
    rcases mem_set hp with rfl | ⟨hm, _⟩
    · simp only
      split
      · next hc =>
        refine ⟨?_, hnd⟩
        intro he
        rw [he] at hc
        simp at hc
      · next hc =>
        refine ⟨by simp, ?_⟩
        rw [List.nodup_append]
        refine ⟨hnd, by simp, ?_⟩
        intro a ha b hb
        simp only [List.mem_cons, List.not_mem_nil, or_false] at hb
        subst hb
        intro heq
        subst heq
        exact hc (by simpa using ha)
    · exact h.lists p hm
  · intro d j
    by_cases hd : d = c
    · subst hd
      rw [get_set_self]
      split
      · next hc =>
        have hi : i ∈ get xs d := by simpa using hc
        rw [h.mem]
        constructor
        · intro hr; exact Or.inl hr
        · rintro (hr | ⟨rfl, _⟩)
          · exact hr
          · exact (h.mem d j).mp hi
      · simp only [List.mem_append, List.mem_cons, List.not_mem_nil, or_false]
        rw [h.mem]
        constructor
        · rintro (hr | rfl)
          · exact Or.inl hr
          · exact Or.inr ⟨rfl, trivial⟩
        · rintro (hr | ⟨rfl, _⟩)
          · exact Or.inl hr
          · exact Or.inr rfl
    · rw [get_set_ne _ _ hd, h.mem]
      constructor
      · intro hr; exact Or.inl hr
      · rintro (hr | ⟨_, rfl⟩)
        · exact hr
        · exact absurd rfl hd

/-- `remove_from_collection_dict` succeeds when the id is listed there, and removes exactly it -/
theorem remove_inv {xs : CollDict} {R : Nat → Cell → Prop} (h : DictInv xs R) {c : Cell} {i : Nat}
    (hi : R i c) : ∃ xs', remove xs c i = some xs' ∧ DictInv xs' (fun j d => R j d ∧ ¬(j = i ∧ d = c)) := by
  have hmem : i ∈ get xs c := (h.mem c i).mpr hi
  have hhas : has xs c = true := by
    cases hh : has xs c
    · rw [get_of_not_has hh] at hmem; cases hmem
    · rfl
  have hnd : (get xs c).Nodup := (h.lists _ (get_mem_of_has hhas)).2
  unfold remove
  simp only
  split
  · -- the cell becomes empty: it is deleted
    next hemp =>
    have hemp' : (get xs c).filter (fun x => x != i) = [] := by simpa using hemp
    refine ⟨xs.filter (fun p => p.1 != c), by simp [delete, hhas], ?_, ?_, ?_⟩
    · exact List.Nodup.sublist (List.Sublist.map _ List.filter_sublist) h.cells
    · intro p hp; exact h.lists p (List.mem_filter.mp hp).1
    · intro d j
      by_cases hd : d = c
      · subst hd
        rw [get_filter_self]
        constructor
        · intro hx; cases hx
        · rintro ⟨hr, hc⟩
          exfalso
          have hj : j ∈ get xs d := (h.mem d j).mpr hr
          by_cases hji : j = i
          · exact hc ⟨hji, rfl⟩
          · have : j ∈ (get xs d).filter (fun x => x != i) := List.mem_filter.mpr ⟨hj, by simpa using hji⟩
            rw [hemp'] at this; cases this
      · rw [get_filter_ne _ hd, h.mem]
        constructor
        · intro hr; exact ⟨hr, fun hc => hd hc.2⟩
        · intro hr; exact hr.1
  · next hne =>
    refine ⟨_, rfl, nodup_set h.cells _ _, ?_, ?_⟩
    · intro p hp
      rcases mem_set hp with rfl | ⟨hm, _⟩
      · simp only
        exact ⟨by intro he; rw [he] at hne; simp at hne, List.Nodup.sublist List.filter_sublist hnd⟩
      · exact h.lists p hm
    · intro d j
      by_cases hd : d = c
      · subst hd
        rw [get_set_self]
        rw [List.mem_filter, h.mem]
        constructor
        · rintro ⟨hr, hji⟩; exact ⟨hr, fun hc => by simp [hc.1] at hji⟩
        · rintro ⟨hr, hc⟩; exact ⟨hr, by simpa using fun hji => hc ⟨hji, rfl⟩⟩
      · rw [get_set_ne _ _ hd, h.mem]
        constructor
        · intro hr; exact ⟨hr, fun hc => hd hc.2⟩
        · intro hr; exact hr.1

end CollDict
end Hive

namespace Hive

theorem DictInv.congr {xs : CollDict} {R R' : Nat → Cell → Prop} (h : DictInv xs R)
    (hr : ∀ i c, R i c ↔ R' i c) : DictInv xs R' :=
  ⟨h.cells, h.lists, fun c i => (h.mem c i).trans (hr i c)⟩

/-- both index maps represent the partial function `cellOf : id → cell` -/
structure IdxInv (parent : Cell → Cell) (ix : Index) (cellOf : Nat → Option Cell) : Prop where
  loc : DictInv ix.loc (fun i c => cellOf i = some c)
  search : DictInv ix.search (fun i c => ∃ c0, cellOf i = some c0 ∧ parent c0 = c)

def updCell (cellOf : Nat → Option Cell) (i : Nat) (v : Option Cell) : Nat → Option Cell :=
  fun j => if j = i then v else cellOf j

theorem idx_add {parent : Cell → Cell} {ix : Index} {cellOf : Nat → Option Cell} (h : IdxInv parent ix cellOf)
    {i : Nat} (hfresh : cellOf i = none) (c : Cell) :
    IdxInv parent (Index.add parent ix c i) (updCell cellOf i (some c)) := by
  refine ⟨(CollDict.add_inv h.loc c i).congr ?_, (CollDict.add_inv h.search (parent c) i).congr ?_⟩
  · intro j d
    unfold updCell
    by_cases hj : j = i
    · subst hj; simp [hfresh]; exact eq_comm
    · simp [hj]
  · intro j d
    unfold updCell
    by_cases hj : j = i
    · subst hj
      simp only [hfresh, if_true, Option.some.injEq, true_and]
      constructor
      · rintro (⟨c0, h0, _⟩ | hd)
        · cases h0
        · exact ⟨c, rfl, hd.symm⟩
      · rintro ⟨c0, rfl, hd⟩; exact Or.inr hd.symm
    · simp [hj]

theorem idx_remove {parent : Cell → Cell} {ix : Index} {cellOf : Nat → Option Cell} (h : IdxInv parent ix cellOf)
    {i : Nat} {c : Cell} (hi : cellOf i = some c) :
    ∃ ix', Index.remove parent ix c i = some ix' ∧ IdxInv parent ix' (updCell cellOf i none) := by
  obtain ⟨l, hl, hlinv⟩ := CollDict.remove_inv h.loc (c := c) (i := i) hi
  obtain ⟨s, hs, hsinv⟩ := CollDict.remove_inv h.search (c := parent c) (i := i) ⟨c, hi, rfl⟩
  refine ⟨⟨l, s⟩, by simp [Index.remove, hl, hs], hlinv.congr ?_, hsinv.congr ?_⟩
  · intro j d
    unfold updCell
    grind
  · intro j d
    unfold updCell
    grind

theorem updCell_updCell (cellOf : Nat → Option Cell) (i : Nat) (a b : Option Cell) :
    updCell (updCell cellOf i a) i b = updCell cellOf i b := by
  funext j; unfold updCell; by_cases hj : j = i <;> simp [hj]

theorem updCell_self {cellOf : Nat → Option Cell} {i : Nat} {v : Option Cell} (h : cellOf i = v) :
    updCell cellOf i v = cellOf := by
  funext j; unfold updCell; by_cases hj : j = i
  · subst hj; simp [h]
  · simp [hj]

/-- `update_entity_dictionaries`: the entity moves from `old` to `new` -/
theorem idx_move {parent : Cell → Cell} {ix : Index} {cellOf : Nat → Option Cell} (h : IdxInv parent ix cellOf)
    {i : Nat} {old new : Cell} (hi : cellOf i = some old) :
    ∃ ix', Index.move parent ix old new i = some ix' ∧ IdxInv parent ix' (updCell cellOf i (some new)) := by
  unfold Index.move
  by_cases hon : old = new
  · subst hon
    simp only [beq_self_eq_true, if_true]
    exact ⟨ix, rfl, by rw [updCell_self hi]; exact h⟩
  · have hb : (old == new) = false := by simpa using hon
    simp only [hb, Bool.false_eq_true, if_false]
    obtain ⟨l, hl, hlinv⟩ := CollDict.remove_inv h.loc (c := old) (i := i) hi
    have hl2 := CollDict.add_inv hlinv new i
    -- the location map after remove + add
    have hloc : DictInv (CollDict.add l new i) (fun j c => updCell cellOf i (some new) j = some c) := by
      refine hl2.congr ?_
      intro j d
      unfold updCell
      grind
    simp only [hl, Option.bind_eq_bind, Option.bind_some]
    by_cases hp : parent old = parent new
    · have hpb : (parent old == parent new) = true := by simpa using hp
      simp only [hpb, if_true]
      refine ⟨_, rfl, hloc, h.search.congr ?_⟩
      intro j d
      unfold updCell
      grind
    · have hpb : (parent old == parent new) = false := by simpa using hp
      simp only [hpb, Bool.false_eq_true, if_false]
      obtain ⟨s, hs, hsinv⟩ := CollDict.remove_inv h.search (c := parent old) (i := i) ⟨old, hi, rfl⟩
      simp only [hs, Option.bind_some]
      refine ⟨_, rfl, hloc, (CollDict.add_inv hsinv (parent new) i).congr ?_⟩
      intro j d
      unfold updCell
      grind

end Hive
