/-
  Proofs.Stack — the popped instruction list has one instruction per vehicle: the one pushed last.
-/
import Hive.Stack
import Proofs.Lift

namespace Hive
namespace IStack

/-- the stack of vehicle `v` -/
def get (st : IStack) (v : VehicleId) : List Instr :=
  match st.find? (fun p => p.1 == v) with
  | some p => p.2
  | none => []

/-- keys unique, every stack non-empty and made of that vehicle's instructions -/
structure Wf (st : IStack) : Prop where
  keys : (st.map (·.1)).Nodup
  own : ∀ p ∈ st, p.2 ≠ [] ∧ ∀ i ∈ p.2, i.vehicle = p.1

theorem get_cons (q : VehicleId × List Instr) (st : IStack) (v : VehicleId) :
    get (q :: st) v = if q.1 == v then q.2 else get st v := by
  unfold get
  simp only [List.find?_cons]
  cases h : (q.1 == v) <;> simp

theorem any_iff {st : IStack} {v : VehicleId} : st.any (fun p => p.1 == v) = true ↔ v ∈ st.map (·.1) := by
  simp [List.any_eq_true]

theorem get_of_not_mem {st : IStack} {v : VehicleId} (h : v ∉ st.map (·.1)) : get st v = [] := by
  induction st with
  | nil => rfl
  | cons q qs ih =>
    simp only [List.map_cons, List.mem_cons, not_or] at h
    rw [get_cons]
    have : (q.1 == v) = false := by simpa using (Ne.symm h.1)
    rw [this]
    exact ih h.2

theorem get_map_ne (st : IStack) (k v : VehicleId) (g : List Instr → List Instr) (hv : v ≠ k) :
    get (st.map (fun p => if p.1 == k then (p.1, g p.2) else p)) v = get st v := by
  induction st with
  | nil => rfl
  | cons q qs ih =>
    simp only [List.map_cons, get_cons]
    by_cases hq : q.1 = k
    · have h1 : (q.1 == k) = true := by simpa using hq
      have h2 : (q.1 == v) = false := by rw [hq]; simpa using (Ne.symm hv)
      simp only [h1, if_true, h2, Bool.false_eq_true, if_false]
      exact ih
    · have h1 : (q.1 == k) = false := by simpa using hq
      simp only [h1, Bool.false_eq_true, if_false]
      rw [ih]

theorem get_map_self (st : IStack) (k : VehicleId) (g : List Instr → List Instr)
    (hk : st.any (fun p => p.1 == k) = true) :
    get (st.map (fun p => if p.1 == k then (p.1, g p.2) else p)) k = g (get st k) := by
  induction st with
  | nil => simp at hk
  | cons q qs ih =>
    simp only [List.map_cons, get_cons]
    by_cases hq : q.1 = k
    · have h1 : (q.1 == k) = true := by simpa using hq
      simp [h1]
    · have h1 : (q.1 == k) = false := by simpa using hq
      simp only [h1, Bool.false_eq_true, if_false]
      exact ih (by simpa [List.any_cons, h1] using hk)

/-- `push` adds on top of the instruction's own vehicle stack and touches nothing else -/
theorem get_push (st : IStack) (i : Instr) (v : VehicleId) :
    get (push st i) v = if v = i.vehicle then i :: get st v else get st v := by
  unfold push
  split
  · next hany =>
    by_cases hv : v = i.vehicle
    · subst hv
      simp only [if_true]
      exact get_map_self st i.vehicle (fun l => i :: l) hany
    · simp only [hv, if_false]
      exact get_map_ne st i.vehicle v (fun l => i :: l) hv
  · next hany =>
    have hnot : i.vehicle ∉ st.map (·.1) := by
      intro hm; exact hany (any_iff.mpr hm)
    induction st with
    | nil =>
      simp only [List.nil_append, get_cons]
      by_cases hv : v = i.vehicle
      · subst hv; simp [get]
      · have : (i.vehicle == v) = false := by simpa using (Ne.symm hv)
        simp [this, hv, get]
    | cons q qs ih =>
      simp only [List.map_cons, List.mem_cons, not_or] at hnot
      simp only [List.cons_append, get_cons]
      have hany' : ¬ qs.any (fun p => p.1 == i.vehicle) = true := by
        intro h; exact hnot.2 (any_iff.mp h)
      rw [ih hany' hnot.2]
      by_cases hv : v = i.vehicle
      · subst hv
        have : (q.1 == i.vehicle) = false := by simpa using (Ne.symm hnot.1)
        simp [this]
      · simp [hv]

theorem wf_push {st : IStack} (h : Wf st) (i : Instr) : Wf (push st i) := by
  unfold push
  split
  · refine ⟨?_, ?_⟩
    · have : (st.map (fun p => if p.1 == i.vehicle then (p.1, i :: p.2) else p)).map (·.1) = st.map (·.1) := by
        rw [List.map_map]
        apply List.map_congr_left
        intro p _
        simp only [Function.comp]
        split <;> rfl
      rw [this]; exact h.keys
    · intro p hp
      obtain ⟨q, hq, rfl⟩ := List.mem_map.mp hp
      split
      · next hk =>
        refine ⟨by simp, ?_⟩
        intro j hj
        rcases List.mem_cons.mp hj with rfl | hj'
        · exact (beq_iff_eq.mp hk).symm
        · exact (h.own q hq).2 j hj'
      · exact h.own q hq
  · next hany =>
    refine ⟨?_, ?_⟩
    · rw [List.map_append, List.map_cons, List.map_nil, List.nodup_append]
      refine ⟨h.keys, by simp, ?_⟩
      intro a ha b hb
      simp only [List.mem_cons, List.not_mem_nil, or_false] at hb
      subst hb
      intro heq
      subst heq
      exact hany (any_iff.mpr ha)
    · intro p hp
      rcases List.mem_append.mp hp with hm | hm
      · exact h.own p hm
      · simp only [List.mem_cons, List.not_mem_nil, or_false] at hm
        subst hm
        refine ⟨by simp, ?_⟩
        intro j hj
        simp only [List.mem_cons, List.not_mem_nil, or_false] at hj
        rw [hj]

theorem wf_nil : Wf [] := ⟨List.nodup_nil, by intro p hp; cases hp⟩

theorem wf_pushAll {st : IStack} (h : Wf st) (is : List Instr) : Wf (pushAll st is) := by
  unfold pushAll
  induction is generalizing st with
  | nil => exact h
  | cons i is ih => exact ih (wf_push h i)

/-- after pushing `is`, vehicle `v`'s stack is its instructions of `is` in reverse, on top of the old one -/
theorem get_pushAll (st : IStack) (is : List Instr) (v : VehicleId) :
    get (pushAll st is) v = (is.filter (fun i => i.vehicle == v)).reverse ++ get st v := by
  unfold pushAll
  induction is generalizing st with
  | nil => simp
  | cons i is ih =>
    simp only [List.foldl_cons]
    rw [ih, get_push]
    by_cases hv : v = i.vehicle
    · subst hv; simp
    · have : (i.vehicle == v) = false := by simpa using (Ne.symm hv)
      simp [hv, this]

theorem wf_generate (gens : List (List Instr)) (drivers : List Instr) : Wf (generate gens drivers) := by
  unfold generate
  apply wf_pushAll
  have : ∀ (gs : List (List Instr)) (st : IStack), Wf st → Wf (gs.foldl pushAll st) := by
    intro gs
    induction gs with
    | nil => intro st h; exact h
    | cons g gs ih => intro st h; exact ih _ (wf_pushAll h g)
  exact this gens [] wf_nil

theorem get_generate (gens : List (List Instr)) (drivers : List Instr) (v : VehicleId) :
    get (generate gens drivers) v = ((gens.flatten ++ drivers).filter (fun i => i.vehicle == v)).reverse := by
  unfold generate
  rw [get_pushAll]
  have : ∀ (gs : List (List Instr)) (st : IStack),
      get (gs.foldl pushAll st) v = (gs.flatten.filter (fun i => i.vehicle == v)).reverse ++ get st v := by
    intro gs
    induction gs with
    | nil => intro st; simp
    | cons g gs ih =>
      intro st
      simp only [List.foldl_cons, List.flatten_cons, List.filter_append, List.reverse_append]
      rw [ih, get_pushAll, List.append_assoc]
  rw [this]
  simp [get, List.filter_append]

end IStack

/-- the popped list contains, for every vehicle that received an instruction, exactly the top of
    its stack, and nothing else -/
theorem mem_pop {st : IStack} (h : IStack.Wf st) (i : Instr) :
    i ∈ st.pop ↔ ∃ p ∈ st, p.2.head? = some i := by
  unfold IStack.pop
  rw [List.mem_reverse, List.mem_filterMap]
  constructor
  · rintro ⟨p, hp, hh⟩
    exact ⟨p, (sortBy_perm _ st).mem_iff.mp hp, hh⟩
  · rintro ⟨p, hp, hh⟩
    exact ⟨p, (sortBy_perm _ st).mem_iff.mpr hp, hh⟩

theorem pop_vehicles_nodup {st : IStack} (h : IStack.Wf st) : (st.pop.map Instr.vehicle).Nodup := by
  unfold IStack.pop
  rw [List.map_reverse]
  refine (List.Perm.nodup_iff (List.reverse_perm _)).mpr ?_
  have hperm := sortBy_perm (fun a b : VehicleId × List Instr => a.1 ≤ b.1) st
  have hkeys : ((sortBy (fun a b => a.1 ≤ b.1) st).map (·.1)).Nodup :=
    (List.Perm.nodup_iff (hperm.map _)).mpr h.keys
  have hown : ∀ p ∈ sortBy (fun a b => a.1 ≤ b.1) st, ∀ i, p.2.head? = some i → i.vehicle = p.1 := by
    intro p hp i hi
    have := (h.own p (hperm.mem_iff.mp hp)).2 i (List.mem_of_mem_head? hi)
    exact this
  generalize sortBy (fun a b => a.1 ≤ b.1) st = l at hkeys hown
  induction l with
  | nil => exact List.nodup_nil
  | cons q qs ih =>
    simp only [List.map_cons, List.nodup_cons] at hkeys
    simp only [List.filterMap_cons]
    have ih' := ih hkeys.2 (fun p hp => hown p (List.mem_cons_of_mem _ hp))
    cases hq : q.2.head? with
    | none => simpa using ih'
    | some i =>
      simp only [List.map_cons, List.nodup_cons]
      refine ⟨?_, ih'⟩
      intro hm
      obtain ⟨j, hj, hjv⟩ := List.mem_map.mp hm
      obtain ⟨p, hp, hpj⟩ := List.mem_filterMap.mp hj
      have h1 : i.vehicle = q.1 := hown q List.mem_cons_self i hq
      have h2 : j.vehicle = p.1 := hown p (List.mem_cons_of_mem _ hp) j hpj
      apply hkeys.1
      rw [← h1, ← hjv, h2]
      exact List.mem_map_of_mem hp

end Hive

namespace Hive

theorem IStack.mem_get {st : IStack} (h : IStack.Wf st) {p : VehicleId × List Instr} (hp : p ∈ st) :
    IStack.get st p.1 = p.2 := by
  have hk := h.keys
  clear h
  induction st with
  | nil => cases hp
  | cons q qs ih =>
    simp only [List.map_cons, List.nodup_cons] at hk
    rw [IStack.get_cons]
    rcases List.mem_cons.mp hp with rfl | hp'
    · simp
    · have : q.1 ≠ p.1 := by
        intro heq
        apply hk.1
        rw [heq]
        exact List.mem_map_of_mem hp'
      have : (q.1 == p.1) = false := by simpa using this
      rw [this]
      exact ih hp' hk.2

theorem IStack.get_mem {st : IStack} {v : VehicleId} (hne : IStack.get st v ≠ []) : (v, IStack.get st v) ∈ st := by
  induction st with
  | nil => exact absurd rfl hne
  | cons q qs ih =>
    rw [IStack.get_cons] at hne ⊢
    by_cases hq : q.1 = v
    · have : (q.1 == v) = true := by simpa using hq
      simp only [this, if_true]
      rw [← hq]
      exact List.mem_cons_self
    · have : (q.1 == v) = false := by simpa using hq
      simp only [this, Bool.false_eq_true, if_false] at hne ⊢
      exact List.mem_cons_of_mem _ (ih hne)

/-- **the instruction that takes effect for a vehicle is the one generated last** -/
theorem mem_finalInstructions (gens : List (List Instr)) (drivers : List Instr) (i : Instr) :
    i ∈ finalInstructions gens drivers ↔
      ((gens.flatten ++ drivers).filter (fun j => j.vehicle == i.vehicle)).getLast? = some i := by
  unfold finalInstructions
  have hwf := IStack.wf_generate gens drivers
  rw [mem_pop hwf]
  constructor
  · rintro ⟨p, hp, hh⟩
    have hown := (hwf.own p hp).2 i (List.mem_of_mem_head? hh)
    have hg := IStack.mem_get hwf hp
    rw [IStack.get_generate] at hg
    rw [hown]
    rw [← List.head?_reverse, hg]
    exact hh
  · intro hl
    have hg := IStack.get_generate gens drivers i.vehicle
    have hne : IStack.get (IStack.generate gens drivers) i.vehicle ≠ [] := by
      rw [hg]
      intro he
      rw [List.reverse_eq_nil_iff] at he
      rw [he] at hl
      cases hl
    refine ⟨_, IStack.get_mem hne, ?_⟩
    simp only
    rw [hg, List.head?_reverse]
    exact hl

theorem finalInstructions_nodup (gens : List (List Instr)) (drivers : List Instr) :
    ((finalInstructions gens drivers).map Instr.vehicle).Nodup :=
  pop_vehicles_nodup (IStack.wf_generate gens drivers)

end Hive
