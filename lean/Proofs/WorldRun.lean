/-
  Proofs.WorldRun — runs of the complete step cycle on the state TOGETHER WITH the event log
  (`World`): instruction phases (any instruction list), vehicle updates, ticks, request arrivals
  under fresh ids, cancellations, charging price updates, driver phases. The ledger theorems of
  C03, C05 and C19 (`Proofs.Reqs`, `Proofs.Books`) are inductions over `WReachable`.
-/
import Hive.Shift
import Hive.Timed
import Hive.Step
import Proofs.SimOps
import Proofs.Lists

namespace Hive

def vehRest (v : Vehicle) : VehicleId × Pos × Membership × MechId × Energy × Act × Rat × Rat :=
  (v.id, v.pos, v.members, v.mech, v.en, v.act, v.balance, v.odo)

/-- the driver phase touches driver states only and files shift events only -/
structure DriverOnly (s0 : Sim) (log0 : List Event) (w : World) : Prop where
  veh : ∀ u, (w.sim.vehicle? u).map vehRest = (s0.vehicle? u).map vehRest
  stations : w.sim.stations = s0.stations
  requests : w.sim.requests = s0.requests
  bases : w.sim.bases = s0.bases
  log : ∃ evs, w.log = log0 ++ evs ∧ ∀ e ∈ evs, ∃ v b, e = Event.shift v b

variable {env : Env}

theorem driverUpdate_only (tbl : List Shift.Entry) {s0 : Sim} {log0 : List Event} {w : World} (veh : Vehicle)
    (h0 : DriverOnly s0 log0 ⟨s0, log0⟩) (h : DriverOnly s0 log0 w) : DriverOnly s0 log0 (Shift.driverUpdate env tbl s0 w veh) := by
  unfold Shift.driverUpdate
  split
  · exact h
  · next avail sched home pooling _ =>
    split
    · exact h
    · obtain ⟨evs, hl, hall⟩ := h.log
      have hlog : ∃ evs', w.log ++ [Event.shift veh.id (Shift.want tbl w.sim.time avail sched)] = log0 ++ evs' ∧
          ∀ e ∈ evs', ∃ v b, e = Event.shift v b := by
        refine ⟨evs ++ [Event.shift veh.id (Shift.want tbl w.sim.time avail sched)], by rw [hl, List.append_assoc], ?_⟩
        intro e he
        rcases List.mem_append.mp he with h1 | h1
        · exact hall e h1
        · rw [List.mem_singleton] at h1; exact ⟨_, _, h1⟩
      split
      · exact ⟨h0.veh, rfl, rfl, rfl, h.log⟩
      · next cur hcur =>
        split
        · next s' hmod =>
          obtain ⟨_, hv, hs, hb, hr, _⟩ := Sim.modifyVehicle_fields hmod
          refine ⟨?_, hs.trans h.stations, hr.trans h.requests, hb.trans h.bases, hlog⟩
          intro u
          rw [← h.veh u]
          show (lookup Vehicle.id s'.vehicles u).map vehRest = (lookup Vehicle.id w.sim.vehicles u).map vehRest
          rw [hv]
          have hid : cur.id = veh.id := (vehicle?_some hcur).2
          by_cases hu : u = cur.id
          · subst hu
            have hold : lookup Vehicle.id w.sim.vehicles
                ({ cur with driver := Driver.human (Shift.want tbl w.sim.time avail sched) sched home pooling } : Vehicle).id = some cur := by
              show lookup Vehicle.id w.sim.vehicles cur.id = some cur
              rw [hid]; exact hcur
            rw [lookup_replaceById_self hold]
            have hc : lookup Vehicle.id w.sim.vehicles cur.id = some cur := by rw [hid]; exact hcur
            rw [hc]
            rfl
          · rw [lookup_replaceById_ne _ _ (by exact hu)]
        · exact ⟨h0.veh, rfl, rfl, rfl, hlog⟩

theorem driverUpdates_only (tbl : List Shift.Entry) (w : World) :
    DriverOnly w.sim w.log (Shift.driverUpdates env tbl w) := by
  have h0 : DriverOnly w.sim w.log ⟨w.sim, w.log⟩ :=
    ⟨fun _ => rfl, rfl, rfl, rfl, ⟨[], by simp, fun e he => by cases he⟩⟩
  unfold Shift.driverUpdates
  have : ∀ (vs : List Vehicle) (acc : World), DriverOnly w.sim w.log acc →
      DriverOnly w.sim w.log (vs.foldl (Shift.driverUpdate env tbl w.sim) acc) := by
    intro vs
    induction vs with
    | nil => intro acc h; exact h
    | cons x xs ih => intro acc h; exact ih _ (driverUpdate_only tbl x h0 h)
  exact this _ w h0

/-- the price update touches plug prices only -/
theorem priceUpdate_only (names : Nat → List StationId) (rd : Timed.Reader Timed.PriceRow) (s : Sim) :
    let s' := (Timed.priceUpdate env names rd s).1
    s'.vehicles = s.vehicles ∧ s'.requests = s.requests ∧ s'.bases = s.bases ∧
    ∀ i, (s'.station? i).map (fun st => (st.balance, st.dispE, st.dispG)) = (s.station? i).map (fun st => (st.balance, st.dispE, st.dispG)) := by
  have step : ∀ (rows : List Timed.PriceRow) (s1 : Sim) (sid : StationId),
      let s2 := Timed.repriceStation env names rows s1 sid
      s2.vehicles = s1.vehicles ∧ s2.requests = s1.requests ∧ s2.bases = s1.bases ∧
      ∀ i, (s2.station? i).map (fun st => (st.balance, st.dispE, st.dispG)) = (s1.station? i).map (fun st => (st.balance, st.dispE, st.dispG)) := by
    intro rows s1 sid
    simp only [Timed.repriceStation]
    split
    · exact ⟨rfl, rfl, rfl, fun _ => rfl⟩
    · next st hst =>
      split
      · split
        · next s' hmod =>
          obtain ⟨⟨old, hold, _⟩, hs, hb, hv, hr, _⟩ := Sim.modifyStation_fields hmod
          refine ⟨hv, hr, hb, ?_⟩
          intro i
          unfold Sim.station?
          rw [hs]
          have hid : (Timed.repriced names rows st).id = st.id := rfl
          by_cases hi : i = st.id
          · subst hi
            have hold' : lookup Station.id s1.stations (Timed.repriced names rows st).id = some old := hold
            have := lookup_replaceById_self hold'
            rw [hid] at this
            rw [this]
            have hst' : lookup Station.id s1.stations st.id = some st := station?_self hst
            rw [hst']
            rfl
          · rw [lookup_replaceById_ne _ _ (by rw [hid]; exact hi)]
        · exact ⟨rfl, rfl, rfl, fun _ => rfl⟩
      · exact ⟨rfl, rfl, rfl, fun _ => rfl⟩
  simp only [Timed.priceUpdate]
  generalize (rd.read (·.time) s.time).1 = rows
  generalize s.stations.map (·.id) = idsl
  induction idsl generalizing s with
  | nil => exact ⟨rfl, rfl, rfl, fun _ => rfl⟩
  | cons x xs ih =>
    rw [List.foldl_cons]
    obtain ⟨a1, a2, a3, a4⟩ := step rows s x
    obtain ⟨b1, b2, b3, b4⟩ := ih (Timed.repriceStation env names rows s x)
    exact ⟨b1.trans a1, b2.trans a2, b3.trans a3, fun i => (b4 i).trans (a4 i)⟩

/-! ### the log, by request -/

namespace Reqs
/-- the requests with a pickup or a cancel event -/
def resolved (evs : List Event) : List RequestId :=
  evs.filterMap fun | .pickup _ r _ _ => some r | .cancelRequest r => some r | _ => none
/-- the requests with an add event -/
def admitted (evs : List Event) : List RequestId :=
  evs.filterMap fun | .addRequest r => some r | _ => none
/-- the waiting set -/
def ids (s : Sim) : List RequestId := s.requests.map Request.id
end Reqs

/-- the phases of a run, on the state together with the event log; a request arrives under an id
    that is not waiting and has never been admitted or resolved -/
inductive WPhase (env : Env) : World → World → Prop where
  | instructions (w : World) (is : List Instr) : WPhase env w (applyInstructions env w is)
  | updates (w : World) : WPhase env w (vehicleUpdates env w)
  | tick (w : World) : WPhase env w { w with sim := w.sim.tick }
  | arrival {w : World} {s' : Sim} {r : Request} : r.id ∉ Reqs.ids w.sim → r.id ∉ Reqs.admitted w.log → r.id ∉ Reqs.resolved w.log →
      w.sim.addRequest env r = .ok s' → WPhase env w { sim := s', log := w.log ++ [Event.addRequest r.id] }
  | cancel {w : World} {s' : Sim} {i : RequestId} : w.sim.removeRequest env i = .ok s' →
      WPhase env w { sim := s', log := w.log ++ [Event.cancelRequest i] }
  | prices (w : World) (names : Nat → List StationId) (rd : Timed.Reader Timed.PriceRow) :
      WPhase env w { w with sim := (Timed.priceUpdate env names rd w.sim).1 }
  | drivers (w : World) (tbl : List Shift.Entry) : WPhase env w (Shift.driverUpdates env tbl w)

inductive WReachable (env : Env) (w0 : World) : World → Prop where
  | init : WReachable env w0 w0
  | step {w w' : World} : WReachable env w0 w → WPhase env w w' → WReachable env w0 w'

end Hive
