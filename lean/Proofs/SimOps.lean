/-
  Proofs.SimOps — what a successful `modify* / remove* / add*` did to the `Sim`, well-formedness
  (unique ids) and its preservation.
-/
import Hive.Step
import Proofs.Lists

namespace Hive

/-- unique ids in every collection -/
structure Sim.WF (s : Sim) : Prop where
  veh : (s.vehicles.map Vehicle.id).Nodup
  stn : (s.stations.map Station.id).Nodup
  base : (s.bases.map Base.id).Nodup
  req : (s.requests.map Request.id).Nodup
  plugs : ∀ st ∈ s.stations, (st.plugs.map ChargerState.id).Nodup

theorem station?_some {s : Sim} {sid : StationId} {st : Station} (h : s.station? sid = some st) :
    st ∈ s.stations ∧ st.id = sid := lookup_some h
theorem base?_some {s : Sim} {b : BaseId} {base : Base} (h : s.base? b = some base) :
    base ∈ s.bases ∧ base.id = b := lookup_some h
theorem plug?_some {st : Station} {c : ChargerId} {cs : ChargerState} (h : st.plug? c = some cs) :
    cs ∈ st.plugs ∧ cs.id = c := lookup_some h
theorem vehicle?_some {s : Sim} {v : VehicleId} {veh : Vehicle} (h : s.vehicle? v = some veh) :
    veh ∈ s.vehicles ∧ veh.id = v := lookup_some h
theorem request?_some {s : Sim} {r : RequestId} {req : Request} (h : s.request? r = some req) :
    req ∈ s.requests ∧ req.id = r := lookup_some h
theorem station?_self {s : Sim} {sid : StationId} {st : Station} (h : s.station? sid = some st) :
    s.station? st.id = some st := by rw [(station?_some h).2]; exact h
theorem base?_self {s : Sim} {b : BaseId} {base : Base} (h : s.base? b = some base) :
    s.base? base.id = some base := by rw [(base?_some h).2]; exact h
theorem vehicle?_self {s : Sim} {v : VehicleId} {veh : Vehicle} (h : s.vehicle? v = some veh) :
    s.vehicle? veh.id = some veh := by rw [(vehicle?_some h).2]; exact h

namespace Sim
variable {env : Env} {s s' : Sim}

theorem modifyVehicle_ok {v : Vehicle} (h : s.modifyVehicle env v = .ok s') :
    ∃ old ix, s.vehicle? v.id = some old ∧
      s' = { s with vehicles := replaceById Vehicle.id s.vehicles v, vIdx := ix } := by
  unfold modifyVehicle at h
  split at h
  · cases h
  · next old hold =>
    split at h
    · cases h
    · split at h
      · cases h
      · next ix _ => exact ⟨old, ix, hold, by cases h; rfl⟩

theorem modifyRequest_ok {r : Request} (h : s.modifyRequest env r = .ok s') :
    ∃ old ix, s.request? r.id = some old ∧
      s' = { s with requests := replaceById Request.id s.requests r, rIdx := ix } := by
  unfold modifyRequest at h
  split at h
  · cases h
  · next old hold =>
    split at h
    · cases h
    · split at h
      · cases h
      · split at h
        · cases h
        · next ix _ => exact ⟨old, ix, hold, by cases h; rfl⟩

theorem removeRequest_ok {i : RequestId} (h : s.removeRequest env i = .ok s') :
    ∃ old ix, s.request? i = some old ∧
      s' = { s with requests := removeById Request.id s.requests i, rIdx := ix } := by
  unfold removeRequest at h
  split at h
  · cases h
  · next old hold =>
    split at h
    · cases h
    · next ix _ => exact ⟨old, ix, hold, by cases h; rfl⟩

theorem modifyStation_ok {st : Station} (h : s.modifyStation env st = .ok s') :
    ∃ old, s.station? st.id = some old ∧ old.pos.cell = st.pos.cell ∧
      s' = { s with stations := replaceById Station.id s.stations st } := by
  unfold modifyStation at h
  split at h
  · cases h
  · next old hold =>
    split at h
    · cases h
    · next hc =>
      split at h
      · cases h
      · exact ⟨old, hold, by simpa using hc, by cases h; rfl⟩

theorem modifyBase_ok {b : Base} (h : s.modifyBase env b = .ok s') :
    ∃ old, s.base? b.id = some old ∧ old.pos.cell = b.pos.cell ∧
      s' = { s with bases := replaceById Base.id s.bases b } := by
  unfold modifyBase at h
  split at h
  · cases h
  · next old hold =>
    split at h
    · cases h
    · next hc =>
      split at h
      · cases h
      · exact ⟨old, hold, by simpa using hc, by cases h; rfl⟩

/-- field-wise form of the specs (avoids nested record-update terms in proofs) -/
theorem modifyBase_fields {b : Base} (h : s.modifyBase env b = .ok s') :
    (∃ old, s.base? b.id = some old ∧ old.pos.cell = b.pos.cell) ∧
    s'.bases = replaceById Base.id s.bases b ∧ s'.stations = s.stations ∧ s'.vehicles = s.vehicles ∧
    s'.requests = s.requests ∧ s'.time = s.time ∧ s'.dt = s.dt := by
  obtain ⟨old, h1, h2, rfl⟩ := modifyBase_ok h
  exact ⟨⟨old, h1, h2⟩, rfl, rfl, rfl, rfl, rfl, rfl⟩

theorem modifyStation_fields {st : Station} (h : s.modifyStation env st = .ok s') :
    (∃ old, s.station? st.id = some old ∧ old.pos.cell = st.pos.cell) ∧
    s'.stations = replaceById Station.id s.stations st ∧ s'.bases = s.bases ∧ s'.vehicles = s.vehicles ∧
    s'.requests = s.requests ∧ s'.time = s.time ∧ s'.dt = s.dt := by
  obtain ⟨old, h1, h2, rfl⟩ := modifyStation_ok h
  exact ⟨⟨old, h1, h2⟩, rfl, rfl, rfl, rfl, rfl, rfl⟩

theorem modifyVehicle_fields {v : Vehicle} (h : s.modifyVehicle env v = .ok s') :
    (∃ old, s.vehicle? v.id = some old) ∧
    s'.vehicles = replaceById Vehicle.id s.vehicles v ∧ s'.stations = s.stations ∧ s'.bases = s.bases ∧
    s'.requests = s.requests ∧ s'.time = s.time ∧ s'.dt = s.dt := by
  obtain ⟨old, ix, h1, rfl⟩ := modifyVehicle_ok h
  exact ⟨⟨old, h1⟩, rfl, rfl, rfl, rfl, rfl, rfl⟩

theorem modifyRequest_fields {r : Request} (h : s.modifyRequest env r = .ok s') :
    (∃ old, s.request? r.id = some old) ∧
    s'.requests = replaceById Request.id s.requests r ∧ s'.stations = s.stations ∧ s'.bases = s.bases ∧
    s'.vehicles = s.vehicles ∧ s'.time = s.time ∧ s'.dt = s.dt := by
  obtain ⟨old, ix, h1, rfl⟩ := modifyRequest_ok h
  exact ⟨⟨old, h1⟩, rfl, rfl, rfl, rfl, rfl, rfl⟩

theorem removeRequest_fields {i : RequestId} (h : s.removeRequest env i = .ok s') :
    (∃ old, s.request? i = some old) ∧
    s'.requests = removeById Request.id s.requests i ∧ s'.stations = s.stations ∧ s'.bases = s.bases ∧
    s'.vehicles = s.vehicles ∧ s'.time = s.time ∧ s'.dt = s.dt := by
  obtain ⟨old, ix, h1, rfl⟩ := removeRequest_ok h
  exact ⟨⟨old, h1⟩, rfl, rfl, rfl, rfl, rfl, rfl⟩

end Sim

section
variable {env : Env}

theorem applyAct_fields {s s2 : Sim} {v : VehicleId} {a : Act} (h : applyAct env s v a = .ok s2) :
    ∃ veh, s.vehicle? v = some veh ∧
      s2.vehicles = replaceById Vehicle.id s.vehicles { veh with act := a } ∧
      s2.stations = s.stations ∧ s2.bases = s.bases ∧ s2.requests = s.requests ∧
      s2.time = s.time ∧ s2.dt = s.dt := by
  unfold applyAct at h
  split at h
  · cases h
  · next veh hveh =>
    obtain ⟨_, h1, h2, h3, h4, h5, h6⟩ := Sim.modifyVehicle_fields h
    exact ⟨veh, hveh, h1, h2, h3, h4, h5, h6⟩

theorem pickUpTrip_fields {w w1 : World} {v : VehicleId} {rid : RequestId}
    (h : pickUpTrip env w v rid = .ok w1) :
    ∃ veh req, w.sim.vehicle? v = some veh ∧ w.sim.request? rid = some req ∧
      w1.sim.vehicles = replaceById Vehicle.id w.sim.vehicles { veh with balance := veh.balance + req.value } ∧
      w1.sim.requests = removeById Request.id w.sim.requests rid ∧
      w1.sim.stations = w.sim.stations ∧ w1.sim.bases = w.sim.bases ∧
      w1.sim.time = w.sim.time ∧ w1.sim.dt = w.sim.dt := by
  unfold pickUpTrip at h
  split at h
  · cases h
  · cases h
  · next veh req hveh hreq =>
    simp only [Outcome.bind_eq, Outcome.bind_eq_ok, Outcome.pure_eq] at h
    obtain ⟨s1, h1, s2, h2, h3⟩ := h
    obtain ⟨_, a1, a2, a3, a4, a5, a6⟩ := Sim.modifyVehicle_fields h1
    obtain ⟨_, b1, b2, b3, b4, b5, b6⟩ := Sim.removeRequest_fields h2
    cases h3
    refine ⟨veh, req, hveh, hreq, ?_, ?_, ?_, ?_, ?_, ?_⟩
    · simp only; rw [b4, a1]
    · simp only; rw [b1, a4]
    · simp only; rw [b2, a2]
    · simp only; rw [b3, a3]
    · simp only; rw [b5, a5]
    · simp only; rw [b6, a6]

/-- what a successful `exit` leaves untouched -/
theorem exit_frame {s s1 : Sim} {v : VehicleId} {a : Act} (h : exit env s v a = .ok s1) :
    s1.vehicles = s.vehicles ∧ s1.time = s.time ∧ s1.dt = s.dt := by
  cases a <;> simp only [exit] at h
  case idle | repositioning | outOfService | dispatchStation | dispatchBase => cases h; simp
  case reserveBase b =>
    split at h
    · cases h
    · simp only [Outcome.bind_eq, Outcome.bind_eq_ok] at h
      obtain ⟨base', _, h2⟩ := h
      obtain ⟨_, _, _, rfl⟩ := Sim.modifyBase_ok h2
      simp
  case chargingStation sid cid =>
    split at h
    · cases h
    · cases h
    · simp only [Outcome.bind_eq, Outcome.bind_eq_ok] at h
      obtain ⟨st', _, h2⟩ := h
      obtain ⟨_, _, _, rfl⟩ := Sim.modifyStation_ok h2
      simp
  case chargingBase b cid =>
    split at h
    · cases h
    · split at h
      · cases h
      · split at h
        · cases h
        · simp only [Outcome.bind_eq, Outcome.bind_eq_ok] at h
          obtain ⟨base', _, s2, h2, st', _, h4⟩ := h
          obtain ⟨_, _, _, rfl⟩ := Sim.modifyBase_ok h2
          obtain ⟨_, _, _, rfl⟩ := Sim.modifyStation_ok h4
          simp
  case chargeQueueing sid cid t =>
    split at h
    · cases h
    · simp only [Outcome.bind_eq, Outcome.bind_eq_ok] at h
      obtain ⟨st', _, h2⟩ := h
      obtain ⟨_, _, _, rfl⟩ := Sim.modifyStation_ok h2
      simp
  case dispatchTrip rid r =>
    split at h
    · cases h; simp
    · obtain ⟨_, _, _, rfl⟩ := Sim.modifyRequest_ok h
      simp
  case servicingTrip req dep r =>
    split at h
    · cases h; simp
    · cases h
  case servicingPooling | dispatchPooling => cases h

end

/-! ### station / base counter operations -/

namespace Station
variable {st st' : Station} {c : ChargerId}

theorem updatePlug_ok {op : ChargerState → Outcome ChargerState} (h : st.updatePlug c op = .ok st') :
    (st.plug? c = none ∧ st' = st) ∨
    (∃ cs cs', st.plug? c = some cs ∧ op cs = .ok cs' ∧ st' = st.setPlug cs') := by
  unfold updatePlug at h
  split at h
  · next hn => left; exact ⟨hn, by cases h; rfl⟩
  · next cs hcs =>
    right
    simp only [Outcome.bind_eq, Outcome.bind_eq_ok, Outcome.pure_eq] at h
    obtain ⟨cs', h1, h2⟩ := h
    exact ⟨cs, cs', hcs, h1, by cases h2; rfl⟩

end Station

end Hive
