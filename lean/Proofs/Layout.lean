/-
  Proofs.Layout — the loaded initial layout has every plug and stall free (C02 at time zero).
-/
import Hive.Layout
import Proofs.Lists

namespace Hive
namespace Layout

/-- every plug free, nobody waiting -/
def Full (st : Station) : Prop := ∀ cs ∈ st.plugs, cs.avail = cs.total ∧ cs.enq = 0

theorem buildPlug_full (c : ChargerId) (spec : Bool × Rat) (n : Nat) :
    (buildPlug c spec n).avail = (buildPlug c spec n).total ∧ (buildPlug c spec n).enq = 0 := ⟨rfl, rfl⟩

theorem appendChargers_full {cat : Catalogue} {st st' : Station} {c : ChargerId} {n : Nat}
    (hf : Full st) (h : appendChargers cat st c n = some st') : Full st' := by
  unfold appendChargers at h
  split at h
  · next cs hcs =>
    cases h
    intro p hp
    simp only [Station.setPlug] at hp
    rcases mem_replaceById hp with rfl | ⟨hold, _⟩
    · have := hf cs (lookup_some hcs).1
      simp only [addChargers]
      exact ⟨by rw [this.1], this.2⟩
    · exact hf p hold
  · split at h
    · cases h
    · next spec _ =>
      cases h
      intro p hp
      simp only [List.mem_append, List.mem_singleton] at hp
      rcases hp with hold | rfl
      · exact hf p hold
      · exact buildPlug_full _ _ _

theorem addRow_full {cat : Catalogue} {b b' : List Station} {r : StationRow}
    (hf : ∀ st ∈ b, Full st) (h : addRow cat b r = some b') : ∀ st ∈ b', Full st := by
  unfold addRow at h
  split at h
  · split at h
    · cases h
    · cases h
      intro st hst
      simp only [List.mem_append, List.mem_singleton] at hst
      rcases hst with hold | rfl
      · exact hf st hold
      · intro p hp
        simp only [List.mem_singleton] at hp
        subst hp
        exact buildPlug_full _ _ _
  · next st hst =>
    split at h
    · cases h
    · next st' happ =>
      cases h
      intro x hx
      rcases mem_replaceById hx with rfl | ⟨hold, _⟩
      · exact appendChargers_full (hf st (lookup_some hst).1) happ
      · exact hf x hold

/-- **the loaded stations have every plug free and nobody waiting**, whatever the rows: repeated
    stations, repeated plug types, zero counts -/
theorem loadStations_full {cat : Catalogue} (rows : List StationRow) {b b' : List Station}
    (hf : ∀ st ∈ b, Full st) (h : loadStations cat rows b = some b') : ∀ st ∈ b', Full st := by
  induction rows generalizing b with
  | nil => cases h; exact hf
  | cons r rs ih =>
    unfold loadStations at h
    split at h
    · cases h
    · next b1 h1 => exact ih (addRow_full hf h1) h

/-- installed plugs of type `c` at station `sid` in a builder -/
def plugTotal (b : List Station) (sid : StationId) (c : ChargerId) : Nat :=
  match lookup Station.id b sid with
  | some st => (match st.plug? c with | some cs => cs.total | none => 0)
  | none => 0

theorem lookup_append_fresh {α : Type} {key : α → Nat} {xs : List α} {x : α} (h : lookup key xs (key x) = none) (i : Nat) :
    lookup key (xs ++ [x]) i = if i = key x then some x else lookup key xs i := by
  unfold lookup at *
  rw [List.find?_append]
  by_cases hi : i = key x
  · subst hi
    rw [h]
    simp
  · simp only [hi, if_false]
    cases hf : xs.find? (fun y => key y == i) with
    | some y => simp
    | none =>
      have : (key x == i) = false := by simpa using fun e => hi e.symm
      simp [this]

theorem plugTotal_addRow {cat : Catalogue} {b b' : List Station} {r : StationRow} (h : addRow cat b r = some b')
    (sid : StationId) (c : ChargerId) :
    plugTotal b' sid c = plugTotal b sid c + (if r.sid = sid ∧ r.chg = c then r.count else 0) := by
  unfold addRow at h
  split at h
  · next hnone =>
    split at h
    · cases h
    · next spec _ =>
      cases h
      unfold plugTotal
      have hk : lookup Station.id b (Station.id
          { id := r.sid, pos := r.pos, members := [], plugs := [buildPlug r.chg spec r.count],
            onShift := if r.onShift then [r.chg] else [], balance := 0, dispE := 0, dispG := 0 }) = none := hnone
      rw [lookup_append_fresh hk sid]
      by_cases hs : sid = r.sid
      · subst hs
        simp only [if_true, hnone]
        unfold Station.plug?
        by_cases hc : r.chg = c
        · subst hc
          simp [lookup, buildPlug]
        · have : (r.chg == c) = false := by simpa using hc
          simp [lookup, buildPlug, this, hc]
      · have hs' : ¬ r.sid = sid := fun e => hs e.symm
        simp [hs, hs']
  · next st hst =>
    split at h
    · cases h
    · next st' happ =>
      cases h
      have hsid : st.id = r.sid := (lookup_some hst).2
      -- the appended station
      have hst'id : st'.id = st.id := by
        unfold appendChargers at happ
        split at happ
        · cases happ; rfl
        · split at happ
          · cases happ
          · cases happ; rfl
      unfold plugTotal
      by_cases hs : sid = r.sid
      · subst hs
        have hself : lookup Station.id b (Station.id st') = some st := by rw [hst'id, hsid]; exact hst
        have := lookup_replaceById_self hself
        rw [hst'id, hsid] at this
        rw [this, hst]
        simp only [true_and]
        -- plugs of st' versus st
        unfold appendChargers at happ
        split at happ
        · next cs hcs =>
          cases happ
          unfold Station.plug? Station.setPlug at *
          simp only
          have hcid : cs.id = r.chg := (lookup_some hcs).2
          by_cases hc : r.chg = c
          · subst hc
            have hl : lookup ChargerState.id st.plugs (addChargers cs r.count).id = some cs := by
              show lookup ChargerState.id st.plugs cs.id = some cs
              rw [hcid]; exact hcs
            have := lookup_replaceById_self hl
            have e : (addChargers cs r.count).id = r.chg := hcid
            rw [e] at this
            rw [this, hcs]
            simp [addChargers]
          · have hne : c ≠ (addChargers cs r.count).id := by
              show c ≠ cs.id
              rw [hcid]; exact fun e => hc e.symm
            rw [lookup_replaceById_ne _ _ hne]
            simp [hc]
        · next hnone =>
          split at happ
          · cases happ
          · next spec _ =>
            cases happ
            unfold Station.plug? at *
            simp only
            have hk : lookup ChargerState.id st.plugs (buildPlug r.chg spec r.count).id = none := hnone
            rw [lookup_append_fresh hk c]
            by_cases hc : c = r.chg
            · have hn : lookup ChargerState.id st.plugs c = none := by rw [hc]; exact hnone
              have hc2 : r.chg = c := hc.symm
              have hid : c = (buildPlug r.chg spec r.count).id := hc
              rw [if_pos hid, hn]
              simp [buildPlug, hc2]
            · have hc' : ¬ r.chg = c := fun e => hc e.symm
              have : ¬ c = (buildPlug r.chg spec r.count).id := hc
              simp [this, hc']
      · have hne : sid ≠ Station.id st' := by rw [hst'id, hsid]; exact hs
        rw [lookup_replaceById_ne _ _ hne]
        have hs' : ¬ r.sid = sid := fun e => hs e.symm
        simp [hs']

/-- **what is installed is what the file lists**: after loading, the number of plugs of each type
    at each station is the sum of the counts of the rows naming that station and type -/
theorem loadStations_installed {cat : Catalogue} (rows : List StationRow) {b b' : List Station}
    (h : loadStations cat rows b = some b') (sid : StationId) (c : ChargerId) :
    plugTotal b' sid c = plugTotal b sid c + installed rows sid c := by
  induction rows generalizing b with
  | nil => cases h; simp [installed]
  | cons r rs ih =>
    unfold loadStations at h
    split at h
    · cases h
    · next b1 h1 =>
      rw [ih h, plugTotal_addRow h1 sid c]
      unfold installed
      simp only [List.filter_cons]
      by_cases hm : r.sid = sid ∧ r.chg = c
      · have : (r.sid == sid && r.chg == c) = true := by simp [hm.1, hm.2]
        simp [this, hm, Nat.add_assoc]
      · have : (r.sid == sid && r.chg == c) = false := by
          simp only [Bool.and_eq_false_iff, beq_eq_false_iff_ne, ne_eq]
          by_cases h1 : r.sid = sid
          · right; exact fun h2 => hm ⟨h1, h2⟩
          · left; exact h1
        simp [this, hm]

end Layout
end Hive
