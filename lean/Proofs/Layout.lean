/-
  Proofs.Layout — the loaded initial layout has every plug and stall free (C02 at time zero).
-/
import Hive.Layout
import Proofs.Lists

namespace Hive
namespace Layout

/-- every plug free, nobody waiting -/
def Full (st : Station) : Prop := ∀ cs ∈ st.plugs, cs.avail = cs.total ∧ cs.enq = 0

theorem buildPlug_full (c : ChargerId) (spec : Bool × Rat) (n : Nat) :
    (buildPlug c spec n).avail = (buildPlug c spec n).total ∧ (buildPlug c spec n).enq = 0 := ⟨rfl, rfl⟩

theorem appendChargers_full {cat : Catalogue} {st st' : Station} {c : ChargerId} {n : Nat}
    (hf : Full st) (h : appendChargers cat st c n = some st') : Full st' := by
  unfold appendChargers at h
  split at h
  · next cs hcs =>
    cases h
    intro p hp
    simp only [Station.setPlug] at hp
    rcases mem_replaceById hp with rfl | ⟨hold, _⟩
    · have := hf cs (lookup_some hcs).1
      simp only [addChargers]
      exact ⟨by rw [this.1], this.2⟩
    · exact hf p hold
  · split at h
    · cases h
    · next spec _ =>
      cases h
      intro p hp
      simp only [List.mem_append, List.mem_singleton] at hp
      rcases hp with hold | rfl
      · exact hf p hold
      · exact buildPlug_full _ _ _

theorem addRow_full {cat : Catalogue} {b b' : List Station} {r : StationRow}
    (hf : ∀ st ∈ b, Full st) (h : addRow cat b r = some b') : ∀ st ∈ b', Full st := by
  unfold addRow at h
  split at h
  · split at h
    · cases h
    · cases h
      intro st hst
      simp only [List.mem_append, List.mem_singleton] at hst
      rcases hst with hold | rfl
      · exact hf st hold
      · intro p hp
        simp only [List.mem_singleton] at hp
        subst hp
        exact buildPlug_full _ _ _
  · next st hst =>
    split at h
    · cases h
    · next st' happ =>
      cases h
      intro x hx
      rcases mem_replaceById hx with rfl | ⟨hold, _⟩
      · exact appendChargers_full (hf st (lookup_some hst).1) happ
      · exact hf x hold

/-- **the loaded stations have every plug free and nobody waiting**, whatever the rows: repeated
    stations, repeated plug types, zero counts -/
theorem loadStations_full {cat : Catalogue} (rows : List StationRow) {b b' : List Station}
    (hf : ∀ st ∈ b, Full st) (h : loadStations cat rows b = some b') : ∀ st ∈ b', Full st := by
  induction rows generalizing b with
  | nil => cases h; exact hf
  | cons r rs ih =>
    unfold loadStations at h
    split at h
    · cases h
    · next b1 h1 => exact ih (addRow_full hf h1) h

end Layout
end Hive
