/-
  Proofs.Cosmetic — the two phases of the step cycle that the control model does not contain, the
  charging price update (`Timed.priceUpdate`) and the driver phase (`Shift.driverUpdates`), change
  only plug prices and driver states (`Cosmetic`). No state invariant of C02, C07, C08, C10, C17
  reads either: an invariant of control runs (`RunInv`) that is insensitive to `Cosmetic` changes
  holds in every state reachable by the complete cycle (`ReachableX`, `reachableX_inv`).
-/
import Hive.Inv
import Hive.Timed
import Hive.Shift
import Proofs.Run
import Proofs.C08
import Proofs.C17
import Properties.C11
import Properties.C20
import Properties.C15
import Properties.C02
import Properties.C07
import Properties.C08
import Properties.C10
import Properties.C17

namespace Hive

/-- everything about a vehicle except the driver state -/
def vehCore (v : Vehicle) : VehicleId × Pos × Membership × MechId × Energy × Act × Rat × Rat :=
  (v.id, v.pos, v.members, v.mech, v.en, v.act, v.balance, v.odo)

/-- everything about a plug except its price -/
def plugCore (c : ChargerState) : ChargerId × Bool × Rat × Nat × Nat × Nat := (c.id, c.electric, c.rate, c.total, c.avail, c.enq)

/-- everything about a station except its prices -/
def stnCore (st : Station) : StationId × Pos × Membership × List (ChargerId × Bool × Rat × Nat × Nat × Nat) × List ChargerId × Rat × Rat × Rat :=
  (st.id, st.pos, st.members, st.plugs.map plugCore, st.onShift, st.balance, st.dispE, st.dispG)

/-- `s'` is `s` up to plug prices and driver states: what the price update and the driver phase change -/
structure Cosmetic (s s' : Sim) : Prop where
  veh : s'.vehicles.map vehCore = s.vehicles.map vehCore
  stn : s'.stations.map stnCore = s.stations.map stnCore
  bases : s'.bases = s.bases
  requests : s'.requests = s.requests
  time : s'.time = s.time
  dt : s'.dt = s.dt
  vIdx : s'.vIdx = s.vIdx
  rIdx : s'.rIdx = s.rIdx
  sIdx : s'.sIdx = s.sIdx
  bIdx : s'.bIdx = s.bIdx

section Lists
variable {α β : Type}

theorem map_eq_cons {f : α → β} : ∀ {xs ys : List α}, xs.map f = ys.map f → xs.length = ys.length := by
  intro xs ys h
  have := congrArg List.length h
  simpa using this

/-- lookups by a key that is a function of the core agree up to the core -/
theorem lookup_core {f : α → β} {key : α → Nat} (k : β → Nat) (hk : ∀ x, key x = k (f x)) :
    ∀ {xs ys : List α}, xs.map f = ys.map f → ∀ i, (lookup key xs i).map f = (lookup key ys i).map f := by
  intro xs
  induction xs with
  | nil => intro ys h i; cases ys with
    | nil => rfl
    | cons y ys => simp at h
  | cons x xs ih =>
    intro ys h i
    cases ys with
    | nil => simp at h
    | cons y ys =>
      simp only [List.map_cons, List.cons.injEq] at h
      unfold lookup
      simp only [List.find?_cons]
      have hxy : key x = key y := by rw [hk x, hk y, h.1]
      rw [hxy]
      by_cases hy : key y = i
      · simp [hy, h.1]
      · have : (key y == i) = false := by simpa using hy
        simp only [this]
        exact ih h.2 i

theorem all_core {f : α → β} {P Q : α → Bool} (hPQ : ∀ x y, f x = f y → P x = Q y) :
    ∀ {xs ys : List α}, xs.map f = ys.map f → xs.all P = ys.all Q := by
  intro xs
  induction xs with
  | nil => intro ys h; cases ys with
    | nil => rfl
    | cons y ys => simp at h
  | cons x xs ih =>
    intro ys h
    cases ys with
    | nil => simp at h
    | cons y ys =>
      simp only [List.map_cons, List.cons.injEq] at h
      simp only [List.all_cons, hPQ x y h.1, ih h.2]

theorem countP_core {f : α → β} {P Q : α → Bool} (hPQ : ∀ x y, f x = f y → P x = Q y) :
    ∀ {xs ys : List α}, xs.map f = ys.map f → xs.countP P = ys.countP Q := by
  intro xs
  induction xs with
  | nil => intro ys h; cases ys with
    | nil => rfl
    | cons y ys => simp at h
  | cons x xs ih =>
    intro ys h
    cases ys with
    | nil => simp at h
    | cons y ys =>
      simp only [List.map_cons, List.cons.injEq] at h
      simp only [List.countP_cons, hPQ x y h.1, ih h.2]

end Lists

namespace Cosmetic
variable {s s' : Sim}

theorem symm (h : Cosmetic s s') : Cosmetic s' s :=
  ⟨h.veh.symm, h.stn.symm, h.bases.symm, h.requests.symm, h.time.symm, h.dt.symm, h.vIdx.symm, h.rIdx.symm, h.sIdx.symm, h.bIdx.symm⟩

theorem vehicle? (h : Cosmetic s s') (i : VehicleId) : (s'.vehicle? i).map vehCore = (s.vehicle? i).map vehCore :=
  lookup_core (f := vehCore) (key := Vehicle.id) (fun c => c.1) (fun _ => rfl) h.veh i

theorem station? (h : Cosmetic s s') (i : StationId) : (s'.station? i).map stnCore = (s.station? i).map stnCore :=
  lookup_core (f := stnCore) (key := Station.id) (fun c => c.1) (fun _ => rfl) h.stn i

theorem base? (h : Cosmetic s s') (i : BaseId) : s'.base? i = s.base? i := by unfold Sim.base?; rw [h.bases]
theorem request? (h : Cosmetic s s') (i : RequestId) : s'.request? i = s.request? i := by unfold Sim.request?; rw [h.requests]

end Cosmetic

end Hive

namespace Hive
variable {s s' : Sim}

theorem vehCore_fields {x y : Vehicle} (h : vehCore x = vehCore y) :
    x.id = y.id ∧ x.pos = y.pos ∧ x.members = y.members ∧ x.mech = y.mech ∧ x.en = y.en ∧ x.act = y.act := by
  simp only [vehCore, Prod.mk.injEq] at h
  exact ⟨h.1, h.2.1, h.2.2.1, h.2.2.2.1, h.2.2.2.2.1, h.2.2.2.2.2.1⟩

theorem stnCore_fields {x y : Station} (h : stnCore x = stnCore y) :
    x.id = y.id ∧ x.pos = y.pos ∧ x.members = y.members ∧ x.plugs.map plugCore = y.plugs.map plugCore := by
  simp only [stnCore, Prod.mk.injEq] at h
  exact ⟨h.1, h.2.1, h.2.2.1, h.2.2.2.1⟩

theorem plugCore_fields {x y : ChargerState} (h : plugCore x = plugCore y) :
    x.id = y.id ∧ x.total = y.total ∧ x.avail = y.avail ∧ x.enq = y.enq := by
  simp only [plugCore, Prod.mk.injEq] at h
  exact ⟨h.1, h.2.2.2.1, h.2.2.2.2.1, h.2.2.2.2.2⟩

theorem baseStation_cosmetic (h : Cosmetic s s') (b : BaseId) : baseStation s' b = baseStation s b := by
  unfold baseStation; rw [h.base?]

/-- C02's counting invariant does not look at prices or driver states -/
theorem inv02_cosmetic (h : Cosmetic s s') : inv02 s' = inv02 s := by
  unfold inv02
  congr 1
  · apply all_core (f := stnCore) _ h.stn
    intro st' st hst
    obtain ⟨hid, _, _, hpl⟩ := stnCore_fields hst
    unfold stationOk
    apply all_core (f := plugCore) _ hpl
    intro c' c hc
    obtain ⟨hcid, htot, hav, henq⟩ := plugCore_fields hc
    unfold plugOk
    rw [hcid, htot, hav, henq, hid]
    have h1 : s'.vehicles.countP (holdsPlug s' st.id c.id) = s.vehicles.countP (holdsPlug s st.id c.id) := by
      apply countP_core (f := vehCore) _ h.veh
      intro x y hxy
      unfold holdsPlug
      rw [(vehCore_fields hxy).2.2.2.2.2]
      cases y.act <;> simp [baseStation_cosmetic h]
    have h2 : s'.vehicles.countP (queuesFor st.id c.id) = s.vehicles.countP (queuesFor st.id c.id) := by
      apply countP_core (f := vehCore) _ h.veh
      intro x y hxy
      unfold queuesFor
      rw [(vehCore_fields hxy).2.2.2.2.2]
    rw [h1, h2]
  · rw [h.bases]
    have : baseOk s' = baseOk s := by
      funext b
      unfold baseOk
      have : s'.vehicles.countP (holdsStall b.id) = s.vehicles.countP (holdsStall b.id) := by
        apply countP_core (f := vehCore) _ h.veh
        intro x y hxy
        unfold holdsStall
        rw [(vehCore_fields hxy).2.2.2.2.2]
      rw [this]
    rw [this]

/-- a per-vehicle Bool predicate that reads only cores is insensitive -/
theorem allVeh_cosmetic {P : Sim → Vehicle → Bool} (h : Cosmetic s s')
    (hP : ∀ x y, vehCore x = vehCore y → P s' x = P s y) : s'.vehicles.all (P s') = s.vehicles.all (P s) :=
  all_core (f := vehCore) hP h.veh

theorem station?_pos (h : Cosmetic s s') (i : StationId) :
    (s'.station? i).map (·.pos.cell) = (s.station? i).map (·.pos.cell) := by
  have := h.station? i
  cases h1 : s'.station? i <;> cases h2 : s.station? i <;> simp [h1, h2] at this ⊢
  exact congrArg (·.cell) (stnCore_fields this).2.1

theorem station?_members (h : Cosmetic s s') (i : StationId) :
    (s'.station? i).map (·.members) = (s.station? i).map (·.members) := by
  have := h.station? i
  cases h1 : s'.station? i <;> cases h2 : s.station? i <;> simp [h1, h2] at this ⊢
  exact (stnCore_fields this).2.2.1

end Hive

namespace Hive
variable {s s' : Sim}

/-- C07's location predicate -/
theorem locOk_cosmetic (h : Cosmetic s s') {x y : Vehicle} (hxy : vehCore x = vehCore y) : locOk s' x = locOk s y := by
  obtain ⟨_, hpos, _, _, _, hact⟩ := vehCore_fields hxy
  unfold locOk
  rw [hact]
  have rt : ∀ r t, routeToward x r t = routeToward y r t := fun r t => by unfold routeToward; rw [hpos]
  cases y.act <;> simp only [hpos, rt, h.base?, h.request?]
  case chargingStation sid _ =>
    have := station?_pos h sid
    cases h1 : s'.station? sid <;> cases h2 : s.station? sid <;> simp [h1, h2] at this ⊢
    rw [this]
  case chargeQueueing sid _ _ =>
    have := station?_pos h sid
    cases h1 : s'.station? sid <;> cases h2 : s.station? sid <;> simp [h1, h2] at this ⊢
    rw [this]
  case dispatchStation sid _ r => rw [station?_pos h sid]

theorem inv07_cosmetic (h : Cosmetic s s') : inv07 s' = inv07 s := by
  unfold inv07
  exact allVeh_cosmetic (P := locOk) h (fun x y hxy => locOk_cosmetic h hxy)

/-- C10's access predicate -/
theorem accessOk_cosmetic (h : Cosmetic s s') {x y : Vehicle} (hxy : vehCore x = vehCore y) :
    accessOk s' x = accessOk s y := by
  obtain ⟨_, _, hmem, _, _, hact⟩ := vehCore_fields hxy
  have hm : ∀ sid, (match s'.station? sid with | some st => st.members.grants y.members | none => true) =
      (match s.station? sid with | some st => st.members.grants y.members | none => true) := by
    intro sid
    have := station?_members h sid
    cases h1 : s'.station? sid <;> cases h2 : s.station? sid <;> simp [h1, h2] at this ⊢
    rw [this]
  unfold accessOk
  rw [hact]
  cases y.act <;> simp only [hmem, h.base?, h.request?]
  case chargingStation sid _ => exact hm sid
  case chargeQueueing sid _ _ => exact hm sid
  case dispatchStation sid _ _ => exact hm sid
  case chargingBase b _ =>
    cases s.base? b with
    | none => rfl
    | some base =>
      simp only
      congr 1
      cases base.station with
      | none => rfl
      | some sid => simp only [Option.bind]; exact hm sid

theorem inv10_cosmetic (h : Cosmetic s s') : inv10 s' = inv10 s := by
  unfold inv10
  exact allVeh_cosmetic (P := accessOk) h (fun x y hxy => accessOk_cosmetic h hxy)

/-- C17's record predicate -/
theorem inv17_cosmetic (h : Cosmetic s s') : inv17 s' = inv17 s := by
  unfold inv17
  rw [h.requests]
  have : dispatchOk s' = dispatchOk s := by
    funext r
    unfold dispatchOk
    cases r.dispVeh with
    | none => rfl
    | some v =>
      simp only
      have := h.vehicle? v
      cases h1 : s'.vehicle? v <;> cases h2 : s.vehicle? v <;> simp [h1, h2] at this ⊢
      rw [(vehCore_fields this).2.2.2.2.2]
  rw [this]

theorem Inv17_cosmetic {env : Env} (h : Cosmetic s s') (hi : Inv17 env s) : Inv17 env s' := by
  intro r hr v hv
  rw [h.requests] at hr
  obtain ⟨⟨veh, route, hveh, hact⟩, hf⟩ := hi r hr v hv
  refine ⟨?_, hf⟩
  have := h.vehicle? v
  rw [hveh] at this
  cases h1 : s'.vehicle? v with
  | none => simp [h1] at this
  | some veh' =>
    simp [h1] at this
    exact ⟨veh', route, rfl, by rw [(vehCore_fields this).2.2.2.2.2]; exact hact⟩

/-- C08's index invariant -/
theorem Inv08_cosmetic {env : Env} (h : Cosmetic s s') (hi : Inv08 env s) : Inv08 env s' := by
  have hv : cellOfVeh s' = cellOfVeh s := by
    funext i
    unfold cellOfVeh
    have := h.vehicle? i
    cases h1 : s'.vehicle? i <;> cases h2 : s.vehicle? i <;> simp [h1, h2] at this ⊢
    exact congrArg (·.cell) (vehCore_fields this).2.1
  have hs : cellOfStn s' = cellOfStn s := by
    funext i
    unfold cellOfStn
    exact station?_pos h i
  have hr : cellOfReq s' = cellOfReq s := by unfold cellOfReq Sim.request?; rw [h.requests]
  have hb : cellOfBase s' = cellOfBase s := by unfold cellOfBase Sim.base?; rw [h.bases]
  exact ⟨by rw [hv, h.vIdx]; exact hi.veh, by rw [hr, h.rIdx]; exact hi.req, by rw [hs, h.sIdx]; exact hi.stn,
    by rw [hb, h.bIdx]; exact hi.base⟩

theorem wf_cosmetic (h : Cosmetic s s') (hwf : s.WF) : s'.WF := by
  have hvid : s'.vehicles.map Vehicle.id = s.vehicles.map Vehicle.id := by
    have := congrArg (List.map (·.1)) h.veh
    simpa [List.map_map, Function.comp_def, vehCore] using this
  have hsid : s'.stations.map Station.id = s.stations.map Station.id := by
    have := congrArg (List.map (·.1)) h.stn
    simpa [List.map_map, Function.comp_def, stnCore] using this
  refine ⟨by rw [hvid]; exact hwf.veh, by rw [hsid]; exact hwf.stn, by rw [h.bases]; exact hwf.base,
    by rw [h.requests]; exact hwf.req, ?_⟩
  intro st' hst'
  -- the station with the same core in `s`
  have hm : stnCore st' ∈ s'.stations.map stnCore := List.mem_map_of_mem hst'
  rw [h.stn] at hm
  obtain ⟨st, hst, heq⟩ := List.mem_map.mp hm
  have hp := (stnCore_fields heq).2.2.2
  have : st'.plugs.map ChargerState.id = st.plugs.map ChargerState.id := by
    have := congrArg (List.map (·.1)) hp
    simpa [List.map_map, Function.comp_def, plugCore] using this.symm
  rw [this]
  exact hwf.plugs st hst

end Hive

namespace Hive
variable {env : Env}

/-! ### the price update and the driver phase are cosmetic -/

theorem repriceStation_idx (names : Nat → List StationId) (rows : List Timed.PriceRow) (s : Sim) (sid : StationId) :
    (Timed.repriceStation env names rows s sid).vIdx = s.vIdx ∧ (Timed.repriceStation env names rows s sid).sIdx = s.sIdx ∧
    (Timed.repriceStation env names rows s sid).bIdx = s.bIdx := by
  unfold Timed.repriceStation
  split
  · exact ⟨rfl, rfl, rfl⟩
  · split
    · split
      · next s' hs' =>
        obtain ⟨_, _, _, rfl⟩ := Sim.modifyStation_ok hs'
        exact ⟨rfl, rfl, rfl⟩
      · exact ⟨rfl, rfl, rfl⟩
    · exact ⟨rfl, rfl, rfl⟩

theorem repriceFold_idx (names : Nat → List StationId) (rows : List Timed.PriceRow) (ids : List StationId) :
    ∀ s : Sim, (ids.foldl (Timed.repriceStation env names rows) s).vIdx = s.vIdx ∧
      (ids.foldl (Timed.repriceStation env names rows) s).sIdx = s.sIdx ∧
      (ids.foldl (Timed.repriceStation env names rows) s).bIdx = s.bIdx := by
  induction ids with
  | nil => intro s; exact ⟨rfl, rfl, rfl⟩
  | cons i ids ih =>
    intro s
    simp only [List.foldl_cons]
    obtain ⟨a1, a2, a3⟩ := repriceStation_idx (env := env) names rows s i
    obtain ⟨b1, b2, b3⟩ := ih (Timed.repriceStation env names rows s i)
    exact ⟨b1.trans a1, b2.trans a2, b3.trans a3⟩

theorem repriced_core (names : Nat → List StationId) (rows : List Timed.PriceRow) (st : Station) :
    stnCore (Timed.repriced names rows st) = stnCore st := by
  unfold stnCore Timed.repriced
  simp only [List.map_map, Prod.mk.injEq, true_and, and_true]
  apply List.map_congr_left
  intro c _
  simp only [Function.comp]
  cases Timed.winner names rows st.id c.id <;> rfl

end Hive

namespace Hive
variable {env : Env}

/-- **the price update is cosmetic** -/
theorem priceUpdate_cosmetic (names : Nat → List StationId) (rd : Timed.Reader Timed.PriceRow) (s : Sim)
    (hf : ∀ c, env.inFence c = true) (hwf : s.WF) : Cosmetic s (Timed.priceUpdate env names rd s).1 := by
  obtain ⟨p1, p2, p3, p4, p5, p6, p7⟩ := C11.price_update_frame (env := env) names rd s hf hwf.stn
  obtain ⟨i1, i2, i3⟩ := repriceFold_idx (env := env) names (rd.read (·.time) s.time).1 (s.stations.map (·.id)) s
  refine ⟨by rw [p2], ?_, p3, p1, p4, p5, i1, p6, i2, i3⟩
  rw [p7, List.map_map]
  apply List.map_congr_left
  intro st _
  simp only [Function.comp]
  split
  · exact repriced_core names _ st
  · rfl

theorem driverUpdate_idx (tbl : List Shift.Entry) (s0 : Sim) (w : World) (veh : Vehicle)
    (h : w.sim.rIdx = s0.rIdx ∧ w.sim.sIdx = s0.sIdx ∧ w.sim.bIdx = s0.bIdx) :
    (Shift.driverUpdate env tbl s0 w veh).sim.rIdx = s0.rIdx ∧ (Shift.driverUpdate env tbl s0 w veh).sim.sIdx = s0.sIdx ∧
    (Shift.driverUpdate env tbl s0 w veh).sim.bIdx = s0.bIdx := by
  unfold Shift.driverUpdate
  split
  · exact h
  · split
    · exact h
    · split
      · exact ⟨rfl, rfl, rfl⟩
      · split
        · next s' hs' =>
          obtain ⟨_, _, _, rfl⟩ := Sim.modifyVehicle_ok hs'
          exact h
        · exact ⟨rfl, rfl, rfl⟩

theorem driverFold_idx (tbl : List Shift.Entry) (s0 : Sim) (vs : List Vehicle) :
    ∀ w : World, (w.sim.rIdx = s0.rIdx ∧ w.sim.sIdx = s0.sIdx ∧ w.sim.bIdx = s0.bIdx) →
      (vs.foldl (Shift.driverUpdate env tbl s0) w).sim.rIdx = s0.rIdx ∧
      (vs.foldl (Shift.driverUpdate env tbl s0) w).sim.sIdx = s0.sIdx ∧
      (vs.foldl (Shift.driverUpdate env tbl s0) w).sim.bIdx = s0.bIdx := by
  induction vs with
  | nil => intro w h; exact h
  | cons v vs ih => intro w h; simp only [List.foldl_cons]; exact ih _ (driverUpdate_idx tbl s0 w v h)

theorem upd_core (tbl : List Shift.Entry) (t : Time) (v : Vehicle) : vehCore (C20.upd tbl t v) = vehCore v := rfl

/-- **the driver phase is cosmetic** -/
theorem driverUpdates_cosmetic (tbl : List Shift.Entry) (w : World) (hf : ∀ c, env.inFence c = true) (hwf : w.sim.WF) :
    Cosmetic w.sim (Shift.driverUpdates env tbl w).sim := by
  obtain ⟨d1, _, d3, d4, d5, d6, d7⟩ := C20.driver_phase (env := env) tbl w hf hwf
  have hdt := (C15.driverUpdates_clock (env := env) tbl w).2
  obtain ⟨i1, i2, i3⟩ : (Shift.driverUpdates env tbl w).sim.rIdx = w.sim.rIdx ∧
      (Shift.driverUpdates env tbl w).sim.sIdx = w.sim.sIdx ∧ (Shift.driverUpdates env tbl w).sim.bIdx = w.sim.bIdx := by
    unfold Shift.driverUpdates
    exact driverFold_idx tbl w.sim _ w ⟨rfl, rfl, rfl⟩
  refine ⟨?_, by rw [d5], d6, d4, d3, hdt, d7, i1, i2, i3⟩
  rw [d1, List.map_map]
  apply List.map_congr_left
  intro v _
  exact upd_core tbl w.sim.time v

end Hive

namespace Hive
variable {env : Env}

/-- one phase of the complete step cycle: the control phases (`Phase`: instructions, vehicle
    updates, tick, request arrival, cancellation) plus the two phases that change only prices and
    driver states -/
inductive PhaseX (env : Env) : Sim → Sim → Prop where
  | control {s s' : Sim} : Phase env s s' → PhaseX env s s'
  | prices {s : Sim} (names : Nat → List StationId) (rd : Timed.Reader Timed.PriceRow) :
      PhaseX env s (Timed.priceUpdate env names rd s).1
  | drivers {s : Sim} (tbl : List Shift.Entry) (log : List Event) :
      PhaseX env s (Shift.driverUpdates env tbl ⟨s, log⟩).sim

/-- reachability by any finite sequence of phases of the complete cycle -/
inductive ReachableX (env : Env) (s0 : Sim) : Sim → Prop where
  | init : ReachableX env s0 s0
  | step {s s' : Sim} : ReachableX env s0 s → PhaseX env s s' → ReachableX env s0 s'

theorem phase_inv {I : Sim → Prop} (hI : RunInv env I) {s s' : Sim} (hwf : s.WF) (hi : I s) (hp : Phase env s s') : I s' := by
  cases hp with
  | instructions hn => exact (applyInstructions_inv hI.toStepInv (w := ⟨_, _⟩) hn hwf hi).1
  | updates => exact (vehicleUpdates_inv hI.toStepInv (w := ⟨_, _⟩) hwf hi).1
  | tick => exact hI.tick _ hi
  | arrival hf hu hd h => exact hI.arrival hwf hi hf hu hd h
  | cancel h => exact hI.cancel hwf hi h

/-- **an invariant of control runs that does not look at prices or driver states holds in every
    state reachable by the complete cycle** -/
theorem reachableX_inv {I : Sim → Prop} (hI : RunInv env I) (hcos : ∀ s s', Cosmetic s s' → I s → I s')
    (hf : ∀ c, env.inFence c = true) {s0 s : Sim} (hwf : s0.WF) (h0 : I s0) (h : ReachableX env s0 s) : I s ∧ s.WF := by
  induction h with
  | init => exact ⟨h0, hwf⟩
  | step _ hp ih =>
    obtain ⟨hi, hw⟩ := ih
    cases hp with
    | control hc => exact ⟨phase_inv hI hw hi hc, phase_wf hw hc⟩
    | prices names rd =>
      have hc := priceUpdate_cosmetic (env := env) names rd _ hf hw
      exact ⟨hcos _ _ hc hi, wf_cosmetic hc hw⟩
    | drivers tbl log =>
      have hc := driverUpdates_cosmetic (env := env) tbl ⟨_, log⟩ hf hw
      exact ⟨hcos _ _ hc hi, wf_cosmetic hc hw⟩

end Hive
