/-
  Proofs.Lift — from "one honest transition / one default update keeps `I`" to
  `apply_instructions` (instructions for pairwise distinct vehicles) and
  `perform_vehicle_state_updates`, for any state predicate `I` that ignores `applied`.
-/
import Proofs.Frame

namespace Hive
variable {env : Env}

/-- no instruction can ask for a `ServicingTrip`: it is only built by the default transition of
    `DispatchTrip` (from the request found in the sim) -/
def Act.notServicing : Act → Bool
  | .servicingTrip _ _ _ => false
  | _ => true

/-- the route of a planned activity is an answer of the router -/
def Act.wellRouted (env : Env) (a : Act) : Prop := ∀ r, a.route? = some r → ∃ p q, r = env.route p q

/-- the activities a transition can be asked to enter: anything an instruction can name, or the
    default terminal state of the current activity -/
def Plannable (env : Env) (s : Sim) (v : VehicleId) (prev next : Act) : Prop :=
  (next.notServicing = true ∧ next.wellRouted env) ∨ defaultNext env s v prev = .ok next

/-- a state predicate preserved by honest transitions and by default updates -/
structure StepInv (env : Env) (I : Sim → Prop) : Prop where
  applied : ∀ (s : Sim) (a : List (VehicleId × Instr)), I s → I { s with applied := a }
  transition : ∀ {w w2 : World} {v : VehicleId} {veh : Vehicle} {next : Act},
    w.sim.WF → I w.sim → w.sim.vehicle? v = some veh → Plannable env w.sim v veh.act next →
    transition env w v veh.act next = .ok w2 → I w2.sim
  update : ∀ {w w2 : World} {v : VehicleId} {veh : Vehicle},
    w.sim.WF → I w.sim → w.sim.vehicle? v = some veh →
    defaultUpdate env w v veh.act = .ok w2 → I w2.sim

/-- the plans are for pairwise distinct vehicles and `prev` is each vehicle's real activity -/
def Honest (env : Env) (s : Sim) (ps : List (Instr × VehicleId × Act × Act)) : Prop :=
  (ps.map (·.2.1)).Nodup ∧ ∀ p ∈ ps, (∃ veh, s.vehicle? p.2.1 = some veh ∧ veh.act = p.2.2.1) ∧
    (p.2.2.2.notServicing = true ∧ p.2.2.2.wellRouted env)

theorem wf_applied {s : Sim} (a : List (VehicleId × Instr)) (h : s.WF) : ({ s with applied := a } : Sim).WF :=
  ⟨h.veh, h.stn, h.base, h.req, h.plugs⟩

theorem planInstr_spec {s : Sim} {i : Instr} {v : VehicleId} {prev next : Act}
    (h : planInstr env s i = .ok (v, prev, next)) :
    v = i.vehicle ∧ (∃ veh, s.vehicle? v = some veh ∧ veh.act = prev) ∧
      (next.notServicing = true ∧ next.wellRouted env) := by
  have wr0 : ∀ a : Act, a.route? = none → a.wellRouted env := by
    intro a ha r hr; rw [ha] at hr; cases hr
  have wr1 : ∀ (a : Act) p q, a.route? = some (env.route p q) → a.wellRouted env := by
    intro a p q ha r hr; rw [ha] at hr; cases hr; exact ⟨p, q, rfl⟩
  cases i <;> simp only [planInstr] at h
  case idle v' | chargeStation v' _ _ | chargeBase v' _ _ | reserveBase v' _ | outOfService v' =>
    cases hv : s.vehicle? v' with
    | none => simp [hv] at h
    | some veh =>
      simp [hv] at h
      obtain ⟨rfl, rfl, rfl⟩ := h
      exact ⟨rfl, ⟨veh, hv, rfl⟩, rfl, wr0 _ rfl⟩
  case dispatchPooling v' =>
    cases hv : s.vehicle? v' <;> simp [hv] at h
  case dispatchTrip v' r =>
    cases hv : s.vehicle? v' with
    | none => simp [hv] at h
    | some veh =>
      cases hr : s.request? r with
      | none => simp [hv, hr] at h
      | some req =>
        simp [hv, hr] at h
        obtain ⟨rfl, rfl, rfl⟩ := h
        exact ⟨rfl, ⟨veh, hv, rfl⟩, rfl, wr1 _ _ _ rfl⟩
  case dispatchStation v' sid c =>
    cases hv : s.vehicle? v' with
    | none => simp [hv] at h
    | some veh =>
      cases hr : s.station? sid with
      | none => simp [hv, hr] at h
      | some st =>
        simp [hv, hr] at h
        obtain ⟨rfl, rfl, rfl⟩ := h
        exact ⟨rfl, ⟨veh, hv, rfl⟩, rfl, wr1 _ _ _ rfl⟩
  case dispatchBase v' b =>
    cases hv : s.vehicle? v' with
    | none => simp [hv] at h
    | some veh =>
      cases hr : s.base? b with
      | none => simp [hv, hr] at h
      | some base =>
        simp [hv, hr] at h
        obtain ⟨rfl, rfl, rfl⟩ := h
        exact ⟨rfl, ⟨veh, hv, rfl⟩, rfl, wr1 _ _ _ rfl⟩
  case reposition v' l =>
    cases hv : s.vehicle? v' with
    | none => simp [hv] at h
    | some veh =>
      simp only [hv] at h
      cases hl : env.linkEnd l with
      | none => simp [hl] at h
      | some dst =>
        simp [hl] at h
        obtain ⟨rfl, rfl, rfl⟩ := h
        exact ⟨rfl, ⟨veh, hv, rfl⟩, rfl, wr1 _ _ _ rfl⟩

/-- what pass 1 returns: honest plans, in instruction order -/
theorem planAll_spec {s : Sim} {is : List Instr} :
    ((planAll env s is).map (·.2.1)).Sublist (is.map Instr.vehicle) ∧
    ∀ p ∈ planAll env s is, p.2.1 = p.1.vehicle ∧ p.1 ∈ is ∧
      (∃ veh, s.vehicle? p.2.1 = some veh ∧ veh.act = p.2.2.1) ∧
      (p.2.2.2.notServicing = true ∧ p.2.2.2.wellRouted env) := by
  induction is with
  | nil => exact ⟨List.Sublist.refl _, by intro p hp; cases hp⟩
  | cons i is ih =>
    simp only [planAll]
    split
    · next p hp =>
      obtain ⟨v, prev, next⟩ := p
      obtain ⟨hv, hveh, hns⟩ := planInstr_spec hp
      refine ⟨?_, ?_⟩
      · simp only [List.map_cons]
        rw [hv]
        exact List.Sublist.cons_cons _ ih.1
      · intro q hq
        rcases List.mem_cons.mp hq with rfl | hq'
        · exact ⟨hv, List.mem_cons_self, hveh, hns⟩
        · obtain ⟨h1, h2, h3, h4⟩ := ih.2 q hq'
          exact ⟨h1, List.mem_cons_of_mem _ h2, h3, h4⟩
    · refine ⟨List.Sublist.cons _ ih.1, ?_⟩
      intro q hq
      obtain ⟨h1, h2, h3, h4⟩ := ih.2 q hq
      exact ⟨h1, List.mem_cons_of_mem _ h2, h3, h4⟩

theorem applyPlans_inv {I : Sim → Prop} (hI : StepInv env I) {ps : List (Instr × VehicleId × Act × Act)} :
    ∀ {w : World}, w.sim.WF → I w.sim → Honest env w.sim ps →
      I (applyPlans env w ps).sim ∧ (applyPlans env w ps).sim.WF := by
  induction ps with
  | nil => intro w hwf hi _; exact ⟨hi, hwf⟩
  | cons p ps ih =>
    intro w hwf hi hh
    obtain ⟨i, v, prev, next⟩ := p
    simp only [applyPlans]
    obtain ⟨hnd, hall⟩ := hh
    simp only [List.map_cons, List.nodup_cons] at hnd
    have hrest : ∀ q ∈ ps, (∃ veh, w.sim.vehicle? q.2.1 = some veh ∧ veh.act = q.2.2.1) ∧
        (q.2.2.2.notServicing = true ∧ q.2.2.2.wellRouted env) :=
      fun q hq => hall q (List.mem_cons_of_mem _ hq)
    split
    · next w' htr =>
      obtain ⟨⟨veh, hveh, hact⟩, hns⟩ := hall (i, v, prev, next) (List.mem_cons_self)
      simp only at hveh hact hns
      subst hact
      have hi' := hI.transition hwf hi hveh (Or.inl hns) htr
      have hid := transition_sameIds hwf htr
      have hfr := transition_frame hwf htr
      refine ih (w := { w' with sim := { w'.sim with applied := _ } }) (wf_applied _ (hid.wf hwf))
        (hI.applied _ _ hi') ⟨hnd.2, ?_⟩
      intro q hq
      obtain ⟨⟨vq, h1, h2⟩, h3⟩ := hrest q hq
      have hne : q.2.1 ≠ v := by
        intro heq
        apply hnd.1
        rw [← heq]
        exact List.mem_map_of_mem (f := fun x : Instr × VehicleId × Act × Act => x.2.1) hq
      refine ⟨⟨vq, ?_, h2⟩, h3⟩
      have : w'.sim.vehicle? q.2.1 = some vq := by rw [hfr.others q.2.1 hne]; exact h1
      simpa [Sim.vehicle?] using this
    · exact ih hwf hi ⟨hnd.2, hrest⟩

/-- **`apply_instructions` keeps `I`** (one instruction per vehicle, as the step pipeline guarantees) -/
theorem applyInstructions_inv {I : Sim → Prop} (hI : StepInv env I) {w : World} {is : List Instr}
    (hn : (is.map Instr.vehicle).Nodup) (hwf : w.sim.WF) (hi : I w.sim) :
    I (applyInstructions env w is).sim ∧ (applyInstructions env w is).sim.WF := by
  unfold applyInstructions
  obtain ⟨hsub, hhon⟩ := planAll_spec (env := env) (s := w.sim) (is := is)
  exact applyPlans_inv hI hwf hi ⟨List.Nodup.sublist hsub hn, fun p hp => ⟨(hhon p hp).2.2.1, (hhon p hp).2.2.2⟩⟩

end Hive

namespace Hive
variable {env : Env}

theorem insertBy_perm {α : Type} (le : α → α → Bool) (x : α) (xs : List α) :
    (insertBy le x xs).Perm (x :: xs) := by
  induction xs with
  | nil => exact List.Perm.refl _
  | cons y ys ih =>
    simp only [insertBy]
    split
    · exact List.Perm.refl _
    · exact (List.Perm.cons y ih).trans (List.Perm.swap x y ys)

theorem sortBy_perm {α : Type} (le : α → α → Bool) (xs : List α) : (sortBy le xs).Perm xs := by
  induction xs with
  | nil => exact List.Perm.refl _
  | cons x xs ih =>
    simp only [sortBy]
    exact (insertBy_perm le x _).trans (List.Perm.cons x ih)

theorem updateOrder_perm (vs : List Vehicle) : (updateOrder vs).Perm vs := by
  unfold updateOrder
  simp only
  refine ((sortBy_perm _ _).append (sortBy_perm _ _)).trans ?_
  refine List.perm_append_comm.trans ?_
  exact List.filter_append_perm _ vs

theorem stepVehicle_cases (w : World) (v : VehicleId) (a : Act) :
    stepVehicle env w v a = w ∨ defaultUpdate env w v a = .ok (stepVehicle env w v a) := by
  unfold stepVehicle
  split
  · next w' h => right; exact h
  · left; rfl

theorem updates_fold_inv {I : Sim → Prop} (hI : StepInv env I) {order : List Vehicle} :
    ∀ {w : World}, w.sim.WF → I w.sim → (order.map Vehicle.id).Nodup →
      (∀ x ∈ order, ∃ veh, w.sim.vehicle? x.id = some veh ∧ veh.act = x.act) →
      I (order.foldl (fun acc v => stepVehicle env acc v.id v.act) w).sim ∧
      (order.foldl (fun acc v => stepVehicle env acc v.id v.act) w).sim.WF := by
  induction order with
  | nil => intro w hwf hi _ _; exact ⟨hi, hwf⟩
  | cons x xs ih =>
    intro w hwf hi hnd hall
    simp only [List.foldl_cons]
    simp only [List.map_cons, List.nodup_cons] at hnd
    have hrest : ∀ y ∈ xs, ∃ veh, w.sim.vehicle? y.id = some veh ∧ veh.act = y.act :=
      fun y hy => hall y (List.mem_cons_of_mem _ hy)
    rcases stepVehicle_cases (env := env) w x.id x.act with heq | hok
    · rw [heq]; exact ih hwf hi hnd.2 hrest
    · obtain ⟨veh, hveh, hact⟩ := hall x List.mem_cons_self
      rw [← hact] at hok
      have hi' := hI.update hwf hi hveh hok
      obtain ⟨hfr, hid⟩ := defaultUpdate_frame hwf hok
      rw [hact] at hi' hfr hid
      refine ih (hid.wf hwf) hi' hnd.2 ?_
      intro y hy
      obtain ⟨vy, h1, h2⟩ := hrest y hy
      have hne : y.id ≠ x.id := by
        intro heq
        apply hnd.1
        rw [← heq]
        exact List.mem_map_of_mem hy
      exact ⟨vy, by rw [hfr.others y.id hne]; exact h1, h2⟩

/-- **`perform_vehicle_state_updates` keeps `I`** -/
theorem vehicleUpdates_inv {I : Sim → Prop} (hI : StepInv env I) {w : World}
    (hwf : w.sim.WF) (hi : I w.sim) : I (vehicleUpdates env w).sim ∧ (vehicleUpdates env w).sim.WF := by
  unfold vehicleUpdates
  have hp := updateOrder_perm w.sim.vehicles
  refine updates_fold_inv hI hwf hi ?_ ?_
  · exact (List.Perm.nodup_iff (hp.map Vehicle.id)).mpr hwf.veh
  · intro x hx
    have hx' : x ∈ w.sim.vehicles := hp.mem_iff.mp hx
    exact ⟨x, lookup_of_mem hwf.veh hx', rfl⟩

end Hive
