/-
  Proofs.Board — passengers: who picked a request up drops it off, at most once (C03, run level).
-/
import Proofs.Reqs
import Proofs.EnterPost
import Proofs.Frame
import Proofs.C18
import Proofs.Lift
import Proofs.Run
import Proofs.Cosmetic
import Proofs.WorldRun
import Mathlib.Data.List.Nodup

namespace Hive
namespace Board

variable {env : Env}

def picked (log : List Event) : List (VehicleId × RequestId) :=
  log.filterMap fun | .pickup v r _ _ => some (v, r) | _ => none
def dropped (log : List Event) : List (VehicleId × RequestId) :=
  log.filterMap fun | .dropoff v r => some (v, r) | _ => none

theorem picked_append (a b : List Event) : picked (a ++ b) = picked a ++ picked b := by simp [picked, List.filterMap_append]
theorem dropped_append (a b : List Event) : dropped (a ++ b) = dropped a ++ dropped b := by simp [dropped, List.filterMap_append]

/-- passengers of request `r` are on board: the vehicle is in `ServicingTrip` for it with road ahead -/
def onBoard (a : Act) : Option RequestId :=
  match a with
  | .servicingTrip req _ (_ :: _) => some req.id
  | _ => none

def isServ (a : Act) : Bool := match a with | .servicingTrip _ _ _ => true | _ => false

/-- the request of the trip the vehicle is servicing (whether or not there is road ahead) -/
def tripOf (a : Act) : Option RequestId :=
  match a with
  | .servicingTrip req _ _ => some req.id
  | _ => none

theorem tripOf_of_onBoard {a : Act} {r : RequestId} (h : onBoard a = some r) : tripOf a = some r := by
  cases a <;> simp_all [onBoard, tripOf]
  case servicingTrip req dep route => cases route <;> simp_all

/-- `enter` of anything but `ServicingTrip` files nothing -/
theorem enter_log {w w2 : World} {v : VehicleId} {next : Act}
    (hns : ∀ q d r, next ≠ .servicingTrip q d r)
    (h : enter env w v next = .ok w2) : w2.log = w.log := by
  cases next <;> simp only [enter] at h
  case idle d =>
    simp only [Outcome.bind_eq, Outcome.bind_eq_ok, Outcome.pure_eq] at h
    obtain ⟨s2, h1, h2⟩ := h
    cases h2; rfl
  case outOfService =>
    simp only [Outcome.bind_eq, Outcome.bind_eq_ok, Outcome.pure_eq] at h
    obtain ⟨s2, h1, h2⟩ := h
    cases h2; rfl
  case repositioning route =>
    split at h
    · cases h
    · split at h
      · cases h
      · simp only [Outcome.bind_eq, Outcome.bind_eq_ok, Outcome.pure_eq] at h
        obtain ⟨s2, h1, h2⟩ := h
        cases h2; rfl
  case dispatchBase b route =>
    split at h
    · cases h
    · cases h
    · split at h
      · cases h
      · split at h
        · cases h
        · simp only [Outcome.bind_eq, Outcome.bind_eq_ok, Outcome.pure_eq] at h
          obtain ⟨s2, h1, h2⟩ := h
          cases h2; rfl
  case dispatchTrip rid route =>
    split at h
    · cases h
    · split at h
      · cases h
      · next req hreq =>
        split at h
        · cases h
        · split at h
          · cases h
          · simp only [Outcome.bind_eq, Outcome.bind_eq_ok, Outcome.pure_eq] at h
            obtain ⟨s1, h0, s2, h1, h2⟩ := h
            cases h2
            rfl
  case servicingPooling => cases h
  case dispatchPooling => cases h
  case servicingTrip sreq dep route => exact absurd rfl (hns sreq dep route)
  case reserveBase b =>
    split at h
    · cases h
    · cases h
    · next veh base hveh hbase =>
      split at h
      · cases h
      · split at h
        · cases h
        · split at h
          · cases h
          · next base' hco =>
            simp only [Outcome.bind_eq, Outcome.bind_eq_ok, Outcome.pure_eq] at h
            obtain ⟨s1, h0, s2, h1, h2⟩ := h
            cases h2
            unfold Base.checkout at hco
            split at hco
            · cases hco
            · cases hco
              rfl
  case chargingStation sid cid =>
    split at h
    · cases h
    · cases h
    · next veh st hveh hst =>
      split at h
      · cases h
      · split at h
        · cases h
        · split at h
          · cases h
          · split at h
            · cases h
            · split at h
              · cases h
              · simp only [Outcome.bind_eq, Outcome.bind_eq_ok, Outcome.pure_eq] at h
                obtain ⟨st', hco, s1, h0, s2, h1, h2⟩ := h
                cases h2
                rfl
  case dispatchStation sid cid route =>
    split at h
    · cases h
    · cases h
    · next veh st hveh hst =>
      split at h
      · split at h
        · cases h
        · split at h
          · cases h
          · split at h
            · cases h
            · split at h
              · cases h
              · simp only [Outcome.bind_eq, Outcome.bind_eq_ok, Outcome.pure_eq] at h
                obtain ⟨st', hco, s1, h0, s2, h1, h2⟩ := h
                cases h2
                rfl
      · split at h
        · cases h
        · split at h
          · cases h
          · simp only [Outcome.bind_eq, Outcome.bind_eq_ok, Outcome.pure_eq] at h
            obtain ⟨s2, h1, h2⟩ := h
            cases h2; rfl
  case chargeQueueing sid cid t =>
    split at h
    · cases h
    · cases h
    · next veh st hveh hst =>
      split at h
      · cases h
      · split at h
        · cases h
        · split at h
          · cases h
          · split at h
            · cases h
            · simp only [Outcome.bind_eq, Outcome.bind_eq_ok, Outcome.pure_eq] at h
              obtain ⟨st', henq, s1, h0, s2, h1, h2⟩ := h
              cases h2
              rfl
  case chargingBase b cid =>
    split at h
    · cases h
    · cases h
    · next veh base hveh hbase =>
      split at h
      · cases h
      · next sid hsid =>
        split at h
        · cases h
        · next st hst =>
          split at h
          · cases h
          · split at h
            · cases h
            · split at h
              · cases h
              · split at h
                · cases h
                · split at h
                  · cases h
                  · next base' hcob =>
                    split at h
                    · cases h
                    · split at h
                      · cases h
                      · simp only [Outcome.bind_eq, Outcome.bind_eq_ok, Outcome.pure_eq] at h
                        obtain ⟨st', hco, s1, h0, s2, h1, s3, h2, h3⟩ := h
                        cases h3
                        unfold Base.checkout at hcob
                        split at hcob
                        · cases hcob
                        · cases hcob
                          obtain ⟨_, _, hs1, _⟩ := Sim.modifyBase_fields h0
                          have hst1 : s1.station? sid = some st := by
                            unfold Sim.station? at *; rw [hs1]; exact hst
                          rfl



/-- `enter` of `ServicingTrip`: one pickup event, for this vehicle and the request of the trip, which was waiting -/
theorem enter_servicing {w w2 : World} {v : VehicleId} {sreq : Request} {dep : Time} {route : Route}
    (h : enter env w v (.servicingTrip sreq dep route) = .ok w2) :
    (∃ fare wait, w2.log = w.log ++ [Event.pickup v sreq.id fare wait]) ∧ sreq.id ∈ Reqs.ids w.sim ∧
      ∃ veh2, w2.sim.vehicle? v = some veh2 ∧ veh2.act = .servicingTrip sreq dep route := by
  simp only [enter] at h
  split at h
  · cases h
  · split at h
    · cases h
    · next req hreq =>
      split at h
      · cases h
      · split at h
        · cases h
        · split at h
          · cases h
          · split at h
            · cases h
            · simp only [Outcome.bind_eq, Outcome.bind_eq_ok, Outcome.pure_eq] at h
              obtain ⟨w1, h0, s2, h1, h2⟩ := h
              cases h2
              have hlog : ∃ fare wait, w1.log = w.log ++ [Event.pickup v sreq.id fare wait] := by
                unfold pickUpTrip at h0
                split at h0
                · cases h0
                · cases h0
                · simp only [Outcome.bind_eq, Outcome.bind_eq_ok, Outcome.pure_eq] at h0
                  obtain ⟨s1, _, s2', _, h3⟩ := h0
                  cases h3
                  exact ⟨_, _, rfl⟩
              have hid : sreq.id ∈ Reqs.ids w.sim := by
                obtain ⟨hm, hi⟩ := request?_some hreq
                unfold Reqs.ids; rw [← hi]; exact List.mem_map_of_mem hm
              obtain ⟨veh1, _, hv2⟩ := applyAct_self h1
              exact ⟨hlog, hid, _, hv2, rfl⟩

/-- `exit` does not touch the vehicles -/
theorem exit_vehicle {s s1 : Sim} {v : VehicleId} {a : Act} (h : exit env s v a = .ok s1) (u : VehicleId) :
    s1.vehicle? u = s.vehicle? u := vehicle?_congr (exit_frame h).1 u

/-- a vehicle with passengers on board cannot be made to leave its trip -/
theorem exit_onBoard {s s1 : Sim} {v : VehicleId} {a : Act} (h : exit env s v a = .ok s1) : onBoard a = none := by
  cases a <;> try rfl
  case servicingTrip req dep r =>
    cases r with
    | nil => rfl
    | cons l r => simp [exit] at h

/-- **an instruction's transition** (the instructed activity is never `ServicingTrip`): nothing is
    filed, the vehicle had nobody on board and has nobody on board afterwards -/
theorem transition_trip {w w2 : World} {v : VehicleId} {prev next : Act}
    (hns : ∀ q d r, next ≠ .servicingTrip q d r) (h : transition env w v prev next = .ok w2) :
    w2.log = w.log ∧ onBoard prev = none ∧ ∀ veh2, w2.sim.vehicle? v = some veh2 → tripOf veh2.act = none := by
  unfold transition at h
  simp only [Outcome.bind_eq, Outcome.bind_eq_ok] at h
  obtain ⟨s1, h1, h2⟩ := h
  refine ⟨enter_log (w := { w with sim := s1 }) hns h2, exit_onBoard h1, ?_⟩
  intro veh2 hv2
  obtain ⟨old, veh', _, hv', _, _, hpost⟩ := enter_post h2
  rw [hv2] at hv'
  cases hv'
  cases next <;> simp only [EnterPost] at hpost
  case servicingTrip q d r => exact absurd rfl (hns q d r)
  case dispatchStation sid cid r =>
    obtain ⟨_, _, _, h4 | h4⟩ := hpost
    · rw [h4.1]; rfl
    · rw [h4.1]; rfl
  all_goals (first | (rw [hpost]; rfl) | (rw [hpost.1]; rfl))

theorem onBoard_setRoute_of_not_serv {a : Act} (h : isServ a = false) (r : Route) : onBoard (a.setRoute r) = none := by
  cases a <;> simp_all [Act.setRoute, onBoard, isServ]

/-- `move`: only a move event may be filed; the activity keeps its kind (with another route) or becomes `OutOfService` -/
theorem move_trip {w w2 : World} {v : VehicleId} {veh : Vehicle} (hveh : w.sim.vehicle? v = some veh)
    (h : move env w v = .ok w2) :
    ∃ evs veh2, w2.log = w.log ++ evs ∧ picked evs = [] ∧ dropped evs = [] ∧ w2.sim.vehicle? v = some veh2 ∧
      (veh2.act = .outOfService ∨ ∃ r, veh2.act = veh.act.setRoute r) := by
  have hid := (vehicle?_some hveh).2
  unfold move at h
  rw [hveh] at h
  simp only at h
  split at h
  · cases h
  · split at h
    · cases h
    · next route _ =>
      simp only [Outcome.bind_eq, Outcome.bind_eq_ok, Outcome.pure_eq] at h
      obtain ⟨tr, htr, h⟩ := h
      split at h
      · simp only [Outcome.bind_eq, Outcome.bind_eq_ok, Outcome.pure_eq] at h
        obtain ⟨s2, h1, h2⟩ := h
        cases h2
        have := modifyVehicle_self h1
        simp only at this
        rw [hid] at this
        exact ⟨[], _, by simp, rfl, rfl, this, Or.inr ⟨[], rfl⟩⟩
      · split at h
        · simp only [Outcome.bind_eq, Outcome.bind_eq_ok, Outcome.pure_eq] at h
          obtain ⟨s2, h1, h2⟩ := h
          cases h2
          obtain ⟨veh1, _, hv2⟩ := applyAct_self h1
          exact ⟨[], _, by simp, rfl, rfl, hv2, Or.inl rfl⟩
        · split at h
          · cases h
          · next last _ =>
            simp only [Outcome.bind_eq, Outcome.bind_eq_ok, Outcome.pure_eq] at h
            obtain ⟨s2, h1, h2⟩ := h
            cases h2
            have := modifyVehicle_self h1
            simp only at this
            rw [hid] at this
            exact ⟨[_], _, rfl, rfl, rfl, this, Or.inr ⟨tr.remaining, rfl⟩⟩

/-- `charge`: one charge event, the activity stays -/
theorem charge_trip {w w2 : World} {v : VehicleId} {sid : StationId} {cid : ChargerId} {veh : Vehicle}
    (hveh : w.sim.vehicle? v = some veh) (h : charge env w v sid cid = .ok w2) :
    ∃ evs veh2, w2.log = w.log ++ evs ∧ picked evs = [] ∧ dropped evs = [] ∧ w2.sim.vehicle? v = some veh2 ∧ veh2.act = veh.act := by
  obtain ⟨_, veh', hv', hact⟩ := charge_avail hveh h
  have hlog : ∃ e, w2.log = w.log ++ [e] ∧ picked [e] = [] ∧ dropped [e] = [] := by
    unfold charge at h
    split at h
    · cases h
    · split at h
      · cases h
      · split at h
        · cases h
        · split at h
          · cases h
          · split at h
            · cases h
            · simp only [Outcome.bind_eq, Outcome.bind_eq_ok, Outcome.pure_eq] at h
              obtain ⟨s1, _, s2, _, h3⟩ := h
              cases h3
              exact ⟨_, rfl, rfl, rfl⟩
  obtain ⟨e, hl, hp, hd⟩ := hlog
  exact ⟨[e], veh', hl, hp, hd, hv', hact⟩

/-- **`_perform_update`**: nobody is picked up; a drop-off is filed only by a vehicle in
    `ServicingTrip`, for the request of its trip, and leaves nobody on board; otherwise whoever is
    on board afterwards was on board before -/
theorem performUpdate_trip {w w2 : World} {v : VehicleId} {veh : Vehicle} (hveh : w.sim.vehicle? v = some veh)
    (h : performUpdate env w v veh.act = .ok w2) :
    ∃ evs veh2, w2.log = w.log ++ evs ∧ picked evs = [] ∧ w2.sim.vehicle? v = some veh2 ∧
      ((dropped evs = [] ∧ ∀ r, tripOf veh2.act = some r → tripOf veh.act = some r) ∨
       (∃ req dep r0, veh.act = .servicingTrip req dep r0 ∧ dropped evs = [(v, req.id)] ∧ onBoard veh2.act = none ∧
          tripOf veh2.act = some req.id)) := by
  have hid := (vehicle?_some hveh).2
  cases hact : veh.act <;> rw [hact] at h <;> simp only [performUpdate] at h
  case idle d =>
    rw [hveh] at h
    simp only at h
    split at h
    · cases h
    · simp only [Outcome.bind_eq, Outcome.bind_eq_ok, Outcome.pure_eq] at h
      obtain ⟨s2, h1, h2⟩ := h
      cases h2
      have := modifyVehicle_self h1
      simp only at this
      rw [hid] at this
      exact ⟨[], _, by simp, rfl, this, Or.inl ⟨rfl, fun r hr => by simp [tripOf] at hr⟩⟩
  case outOfService | reserveBase =>
    cases h
    exact ⟨[], veh, by simp, rfl, hveh, Or.inl ⟨rfl, fun r hr => by rw [hact] at hr; exact hr⟩⟩
  case repositioning | dispatchTrip | dispatchStation | dispatchBase =>
    obtain ⟨evs, veh2, hl, hp, hd, hv2, ha2⟩ := move_trip hveh h
    refine ⟨evs, veh2, hl, hp, hv2, Or.inl ⟨hd, ?_⟩⟩
    intro r hr
    rcases ha2 with h1 | ⟨r', h1⟩
    · rw [h1] at hr; simp [tripOf] at hr
    · rw [h1, hact] at hr; simp [Act.setRoute, tripOf] at hr
  case servicingTrip req dep r0 =>
    simp only [Outcome.bind_eq, Outcome.bind_eq_ok, Outcome.pure_eq] at h
    obtain ⟨w1, h1, h2⟩ := h
    obtain ⟨evs, veh1, hl, hp, hd, hv1, ha1⟩ := move_trip hveh h1
    rw [hv1] at h2
    simp only at h2
    rcases ha1 with ha | ⟨r', ha⟩
    · rw [ha] at h2
      simp only at h2
      cases h2
      refine ⟨evs, veh1, hl, hp, hv1, Or.inl ⟨hd, ?_⟩⟩
      intro r hr; rw [ha] at hr; simp [tripOf] at hr
    · rw [ha, hact] at h2
      simp only [Act.setRoute] at h2
      split at h2
      · -- the route is used up: the drop-off
        next hemp =>
        have hw : w2.sim = w1.sim := dropOffTrip_sim' h2
        have hlog2 : w2.log = w1.log ++ [Event.dropoff v req.id] := by
          unfold dropOffTrip at h2
          split at h2
          · cases h2
          · split at h2
            · cases h2
            · cases h2; rfl
        refine ⟨evs ++ [Event.dropoff v req.id], veh1, by rw [hlog2, hl, List.append_assoc], ?_, by rw [hw]; exact hv1, Or.inr ⟨req, dep, r0, rfl, ?_, ?_, ?_⟩⟩
        · rw [picked_append, hp]; rfl
        · rw [dropped_append, hd]; rfl
        · rw [ha, hact]
          have : r' = [] := by simpa using hemp
          rw [this]; rfl
        · rw [ha, hact]; rfl
      · next hne =>
        cases h2
        refine ⟨evs, veh1, hl, hp, hv1, Or.inl ⟨hd, ?_⟩⟩
        intro r hr
        rw [ha, hact] at hr
        simpa [Act.setRoute, tripOf] using hr
  case chargingStation sid cid =>
    obtain ⟨evs, veh2, hl, hp, hd, hv2, ha2⟩ := charge_trip hveh h
    exact ⟨evs, veh2, hl, hp, hv2, Or.inl ⟨hd, fun r hr => by rw [ha2, hact] at hr; simp [tripOf] at hr⟩⟩
  case chargingBase b cid =>
    split at h
    · cases h
    · obtain ⟨evs, veh2, hl, hp, hd, hv2, ha2⟩ := charge_trip hveh h
      exact ⟨evs, veh2, hl, hp, hv2, Or.inl ⟨hd, fun r hr => by rw [ha2, hact] at hr; simp [tripOf] at hr⟩⟩
  case chargeQueueing sid cid t =>
    rw [hveh] at h
    simp only at h
    split at h
    · cases h
    · simp only [Outcome.bind_eq, Outcome.bind_eq_ok, Outcome.pure_eq] at h
      obtain ⟨s2, h1, h2⟩ := h
      cases h2
      have := modifyVehicle_self h1
      simp only at this
      rw [hid] at this
      exact ⟨[], _, by simp, rfl, this, Or.inl ⟨rfl, fun r hr => by rw [hact] at hr; simp [tripOf] at hr⟩⟩
  case servicingPooling | dispatchPooling => cases h

theorem terminal_servicing {s : Sim} {v : VehicleId} {req : Request} {dep : Time} {r0 : Route}
    (h : terminal env s v (.servicingTrip req dep r0) = false) : onBoard (.servicingTrip req dep r0) = some req.id := by
  cases r0 with
  | nil => simp [terminal] at h
  | cons l r => rfl

/-- **`default_update`**, summarised for the passengers: at most one pickup (of a request that was
    waiting) and at most one drop-off, by this vehicle; a drop-off concerns the request that was on
    board or has just been picked up; who is in a trip afterwards has just been picked up or was on
    board, and is on board only if nothing was dropped -/
theorem defaultUpdate_trip {w w2 : World} {v : VehicleId} {veh : Vehicle} (hveh : w.sim.vehicle? v = some veh)
    (h : defaultUpdate env w v veh.act = .ok w2) :
    ∃ evs veh2, w2.log = w.log ++ evs ∧ w2.sim.vehicle? v = some veh2 ∧
      (picked evs = [] ∨ ∃ rid, rid ∈ Reqs.ids w.sim ∧ picked evs = [(v, rid)]) ∧
      (dropped evs = [] ∨ ∃ r, dropped evs = [(v, r)] ∧ (onBoard veh.act = some r ∨ picked evs = [(v, r)])) ∧
      (∀ r, tripOf veh2.act = some r →
        (picked evs = [(v, r)] ∨ (picked evs = [] ∧ onBoard veh.act = some r)) ∧ (onBoard veh2.act = some r → dropped evs = [])) := by
  unfold defaultUpdate at h
  split at h
  · -- terminal: default transition, then the update of the entered activity
    simp only [Outcome.bind_eq, Outcome.bind_eq_ok] at h
    obtain ⟨next, hnext, w1, htr, h3⟩ := h
    by_cases hserv : ∃ q d r, next = .servicingTrip q d r
    · obtain ⟨sreq, dep, route, rfl⟩ := hserv
      unfold transition at htr
      simp only [Outcome.bind_eq, Outcome.bind_eq_ok] at htr
      obtain ⟨s1, hex, hen⟩ := htr
      obtain ⟨⟨fare, wait, hl1⟩, hid1, veh1, hv1, ha1⟩ := enter_servicing hen
      have hids : Reqs.ids s1 = Reqs.ids w.sim := Reqs.exit_quiet hex
      rw [hv1] at h3
      simp only at h3
      obtain ⟨evs2, veh2, hl2, hp2, hv2, hcase⟩ := performUpdate_trip hv1 h3
      have hpk : picked ([Event.pickup v sreq.id fare wait] ++ evs2) = [(v, sreq.id)] := by
        rw [picked_append, hp2]; rfl
      refine ⟨[Event.pickup v sreq.id fare wait] ++ evs2, veh2, ?_, hv2, Or.inr ⟨sreq.id, by rw [← hids]; exact hid1, hpk⟩, ?_, ?_⟩
      · rw [hl2, hl1, List.append_assoc]
      · rcases hcase with ⟨hd, _⟩ | ⟨req, dep', r0, hact, hd, _, _⟩
        · left; rw [dropped_append, hd]; rfl
        · right
          rw [ha1] at hact
          cases hact
          exact ⟨sreq.id, by rw [dropped_append, hd]; rfl, Or.inr hpk⟩
      · intro r hr
        rcases hcase with ⟨hd, ht⟩ | ⟨req, dep', r0, hact, hd, hob, ht⟩
        · have := ht r hr
          rw [ha1] at this
          simp only [tripOf, Option.some.injEq] at this
          subst this
          exact ⟨Or.inl hpk, fun _ => by rw [dropped_append, hd]; rfl⟩
        · rw [ha1] at hact
          cases hact
          rw [ht] at hr
          cases hr
          exact ⟨Or.inl hpk, fun hb => by rw [hob] at hb; cases hb⟩
    · -- the entered activity is not a trip: nothing filed by the transition, nobody in a trip
      have hns : ∀ q d r, next ≠ .servicingTrip q d r := fun q d r e => hserv ⟨q, d, r, e⟩
      obtain ⟨hl1, hob, htrip⟩ := transition_trip hns htr
      cases hv1 : w1.sim.vehicle? v with
      | none => rw [hv1] at h3; cases h3
      | some veh1 =>
        rw [hv1] at h3
        simp only at h3
        have ht1 := htrip veh1 hv1
        obtain ⟨evs2, veh2, hl2, hp2, hv2, hcase⟩ := performUpdate_trip hv1 h3
        rcases hcase with ⟨hd, ht⟩ | ⟨req, dep', r0, hact, _⟩
        · refine ⟨evs2, veh2, by rw [hl2, hl1], hv2, Or.inl hp2, Or.inl hd, ?_⟩
          intro r hr
          have := ht r hr
          rw [ht1] at this
          cases this
        · rw [hact] at ht1
          simp [tripOf] at ht1
  · -- not terminal: the update of the current activity
    next hterm =>
    obtain ⟨evs, veh2, hl, hp, hv2, hcase⟩ := performUpdate_trip hveh h
    rcases hcase with ⟨hd, ht⟩ | ⟨req, dep, r0, hact, hd, hob, ht⟩
    · refine ⟨evs, veh2, hl, hv2, Or.inl hp, Or.inl hd, ?_⟩
      intro r hr
      have h1 := ht r hr
      refine ⟨Or.inr ⟨hp, ?_⟩, fun _ => hd⟩
      -- in a trip before, and not at its end: on board
      cases hact : veh.act <;> rw [hact] at h1 <;> simp only [tripOf, Option.some.injEq, reduceCtorEq] at h1
      case servicingTrip req dep r0 =>
        subst h1
        have hnt : terminal env w.sim v (.servicingTrip req dep r0) = false := by
          rw [hact] at hterm; simpa using hterm
        exact terminal_servicing hnt
    · have hnt : terminal env w.sim v (.servicingTrip req dep r0) = false := by
        rw [hact] at hterm; simpa using hterm
      have hon : onBoard veh.act = some req.id := by rw [hact]; exact terminal_servicing hnt
      refine ⟨evs, veh2, hl, hv2, Or.inl hp, Or.inr ⟨req.id, hd, Or.inl hon⟩, ?_⟩
      intro r hr
      rw [ht] at hr
      cases hr
      exact ⟨Or.inr ⟨hp, hon⟩, fun hb => by rw [hob] at hb; cases hb⟩

/-! ### the invariant -/

theorem picked_resolved : ∀ (log : List Event) (p : VehicleId × RequestId), p ∈ picked log → p.2 ∈ Reqs.resolved log
  | [], p, h => by simp [picked] at h
  | e :: es, p, h => by
    have ih := picked_resolved es p
    cases e <;> simp only [picked, Reqs.resolved, List.filterMap_cons, List.mem_cons] at h ih ⊢
    case pickup v r f wt =>
      rcases h with rfl | h
      · exact Or.inl rfl
      · exact Or.inr (ih h)
    case cancelRequest r => exact Or.inr (ih h)
    all_goals exact ih h

/-- who picked a request up drops it off, at most once; a vehicle in a trip has picked its request up,
    and with road ahead it has not dropped it yet -/
structure Inv (w : World) : Prop where
  sub : ∀ p ∈ dropped w.log, p ∈ picked w.log
  once : (dropped w.log).Nodup
  trip : ∀ veh ∈ w.sim.vehicles, ∀ r, tripOf veh.act = some r →
    (veh.id, r) ∈ picked w.log ∧ (onBoard veh.act = some r → (veh.id, r) ∉ dropped w.log)

/-- one vehicle's step, summarised as in `defaultUpdate_trip`, keeps the invariant -/
theorem inv_step {w w2 : World} {v : VehicleId} {veh veh2 : Vehicle} {evs : List Event}
    (hwf : w.sim.WF) (hwf2 : w2.sim.WF) (hI : Inv w)
    (hwait : ∀ r ∈ Reqs.ids w.sim, r ∉ Reqs.resolved w.log)
    (hveh : w.sim.vehicle? v = some veh) (hl : w2.log = w.log ++ evs) (hv2 : w2.sim.vehicle? v = some veh2)
    (hothers : ∀ u, u ≠ v → w2.sim.vehicle? u = w.sim.vehicle? u)
    (hP : picked evs = [] ∨ ∃ rid, rid ∈ Reqs.ids w.sim ∧ picked evs = [(v, rid)])
    (hD : dropped evs = [] ∨ ∃ r, dropped evs = [(v, r)] ∧ (onBoard veh.act = some r ∨ picked evs = [(v, r)]))
    (hT : ∀ r, tripOf veh2.act = some r →
        (picked evs = [(v, r)] ∨ (picked evs = [] ∧ onBoard veh.act = some r)) ∧ (onBoard veh2.act = some r → dropped evs = [])) :
    Inv w2 := by
  have hvmem : veh ∈ w.sim.vehicles := (vehicle?_some hveh).1
  have hvid : veh.id = v := (vehicle?_some hveh).2
  -- a request picked up in this step was waiting: it has no earlier pickup or drop-off
  have fresh : ∀ r, picked evs = [(v, r)] → (v, r) ∉ picked w.log ∧ (v, r) ∉ dropped w.log := by
    intro r hp
    have hr : r ∈ Reqs.ids w.sim := by
      rcases hP with h0 | ⟨rid, hrid, h1⟩
      · rw [h0] at hp; cases hp
      · rw [h1] at hp; cases hp; exact hrid
    have hnp : (v, r) ∉ picked w.log := fun hin => hwait r hr (picked_resolved w.log (v, r) hin)
    exact ⟨hnp, fun hin => hnp (hI.sub _ hin)⟩
  -- on board before: picked up, not dropped
  have old : ∀ r, onBoard veh.act = some r → (v, r) ∈ picked w.log ∧ (v, r) ∉ dropped w.log := by
    intro r hr
    have := hI.trip veh hvmem r (tripOf_of_onBoard hr)
    rw [hvid] at this
    exact ⟨this.1, this.2 hr⟩
  refine ⟨?_, ?_, ?_⟩
  · intro p hp
    rw [hl, dropped_append, List.mem_append] at hp
    rw [hl, picked_append, List.mem_append]
    rcases hp with h1 | h1
    · exact Or.inl (hI.sub p h1)
    · rcases hD with h0 | ⟨r, hd, hc⟩
      · rw [h0] at h1; cases h1
      · rw [hd, List.mem_singleton] at h1
        subst h1
        rcases hc with hc | hc
        · exact Or.inl (old r hc).1
        · exact Or.inr (by rw [hc]; exact List.mem_singleton.mpr rfl)
  · rw [hl, dropped_append, List.nodup_append]
    refine ⟨hI.once, ?_, ?_⟩
    · rcases hD with h0 | ⟨r, hd, _⟩
      · rw [h0]; exact List.nodup_nil
      · rw [hd]; simp
    · intro x hx y hy hxy
      subst hxy
      rcases hD with h0 | ⟨r, hd, hc⟩
      · rw [h0] at hy; cases hy
      · rw [hd, List.mem_singleton] at hy
        subst hy
        rcases hc with hc | hc
        · exact (old r hc).2 hx
        · exact (fresh r hc).2 hx
  · intro veh' hmem r hr
    have hl' : w2.sim.vehicle? veh'.id = some veh' := lookup_of_mem hwf2.veh hmem
    by_cases hu : veh'.id = v
    · rw [hu, hv2] at hl'
      cases hl'
      rw [hu]
      obtain ⟨h1, h2⟩ := hT r hr
      refine ⟨?_, ?_⟩
      · rw [hl, picked_append, List.mem_append]
        rcases h1 with h1 | ⟨_, h1⟩
        · exact Or.inr (by rw [h1]; exact List.mem_singleton.mpr rfl)
        · exact Or.inl (old r h1).1
      · intro hb
        rw [hl, dropped_append, h2 hb, List.append_nil]
        rcases h1 with h1 | ⟨_, h1⟩
        · exact (fresh r h1).2
        · exact (old r h1).2
    · rw [hothers _ hu] at hl'
      have hm0 : veh' ∈ w.sim.vehicles := (vehicle?_some hl').1
      obtain ⟨h1, h2⟩ := hI.trip veh' hm0 r hr
      refine ⟨by rw [hl, picked_append]; exact List.mem_append_left _ h1, ?_⟩
      intro hb hin
      rw [hl, dropped_append, List.mem_append] at hin
      rcases hin with hin | hin
      · exact h2 hb hin
      · rcases hD with h0 | ⟨r', hd, _⟩
        · rw [h0] at hin; cases hin
        · rw [hd, List.mem_singleton] at hin
          exact hu (congrArg Prod.fst hin)

/-! ### phases and runs -/

/-- what is carried along a run: well-formedness, the request ledger, the passengers' invariant -/
structure K (ids0 : List RequestId) (w : World) : Prop where
  wf : w.sim.WF
  ledger : Reqs.Ledger ids0 w
  board : Inv w

theorem k_update {ids0 : List RequestId} {w w2 : World} {v : VehicleId} {veh : Vehicle} (hk : K ids0 w)
    (hveh : w.sim.vehicle? v = some veh) (h : defaultUpdate env w v veh.act = .ok w2) : K ids0 w2 := by
  obtain ⟨hfr, hid⟩ := defaultUpdate_frame hk.wf h
  have hwf2 := hid.wf hk.wf
  obtain ⟨evs, veh2, hl, hv2, hP, hD, hT⟩ := defaultUpdate_trip hveh h
  exact ⟨hwf2, Reqs.ledger_ctl hk.ledger (Reqs.defaultUpdate_ctl h),
    inv_step hk.wf hwf2 hk.board hk.ledger.waiting hveh hl hv2 hfr.others hP hD hT⟩

theorem k_transition {ids0 : List RequestId} {w w2 : World} {v : VehicleId} {veh : Vehicle} {next : Act} (hk : K ids0 w)
    (hveh : w.sim.vehicle? v = some veh) (hns : next.notServicing = true)
    (h : transition env w v veh.act next = .ok w2) : K ids0 w2 := by
  have hfr := transition_frame hk.wf h
  have hwf2 := (transition_sameIds hk.wf h).wf hk.wf
  have hns' : ∀ q d r, next ≠ .servicingTrip q d r := by
    intro q d r e; rw [e] at hns; simp [Act.notServicing] at hns
  obtain ⟨hl, hob, htrip⟩ := transition_trip hns' h
  -- the vehicle still exists
  have hmemv : v ∈ w.sim.vehicles.map Vehicle.id := by
    rw [← (vehicle?_some hveh).2]; exact List.mem_map_of_mem (vehicle?_some hveh).1
  rw [← (transition_sameIds hk.wf h).veh] at hmemv
  obtain ⟨veh2, hm2, hid2⟩ := List.mem_map.mp hmemv
  have hv2 : w2.sim.vehicle? v = some veh2 := by rw [← hid2]; exact lookup_of_mem hwf2.veh hm2
  refine ⟨hwf2, Reqs.ledger_ctl hk.ledger (Reqs.transition_ctl h), ?_⟩
  refine inv_step (evs := []) hk.wf hwf2 hk.board hk.ledger.waiting hveh (by rw [hl]; simp) hv2 hfr.others (Or.inl rfl) (Or.inl rfl) ?_
  intro r hr
  rw [htrip veh2 hv2] at hr
  cases hr

theorem k_applied {ids0 : List RequestId} {w : World} (a : List (VehicleId × Instr)) (hk : K ids0 w) :
    K ids0 { w with sim := { w.sim with applied := a } } :=
  ⟨wf_applied a hk.wf, ⟨hk.ledger.once, hk.ledger.waiting, hk.ledger.kept⟩, ⟨hk.board.sub, hk.board.once, hk.board.trip⟩⟩

theorem applyPlans_k {ids0 : List RequestId} {ps : List (Instr × VehicleId × Act × Act)} :
    ∀ {w : World}, K ids0 w → Honest env w.sim ps → K ids0 (applyPlans env w ps) := by
  induction ps with
  | nil => intro w hk _; exact hk
  | cons p ps ih =>
    intro w hk hh
    obtain ⟨i, v, prev, next⟩ := p
    simp only [applyPlans]
    obtain ⟨hnd, hall⟩ := hh
    simp only [List.map_cons, List.nodup_cons] at hnd
    have hrest : ∀ q ∈ ps, (∃ veh, w.sim.vehicle? q.2.1 = some veh ∧ veh.act = q.2.2.1) ∧
        (q.2.2.2.notServicing = true ∧ q.2.2.2.wellRouted env) :=
      fun q hq => hall q (List.mem_cons_of_mem _ hq)
    split
    · next w' htr =>
      obtain ⟨⟨veh, hveh, hact⟩, hns⟩ := hall (i, v, prev, next) (List.mem_cons_self)
      simp only at hveh hact hns
      subst hact
      have hk' := k_transition hk hveh hns.1 htr
      have hfr := transition_frame hk.wf htr
      refine ih (w := { w' with sim := { w'.sim with applied := _ } }) (k_applied _ hk') ⟨hnd.2, ?_⟩
      intro q hq
      obtain ⟨⟨vq, h1, h2⟩, h3⟩ := hrest q hq
      have hne : q.2.1 ≠ v := by
        intro heq
        apply hnd.1
        rw [← heq]
        exact List.mem_map_of_mem (f := fun x : Instr × VehicleId × Act × Act => x.2.1) hq
      refine ⟨⟨vq, ?_, h2⟩, h3⟩
      have : w'.sim.vehicle? q.2.1 = some vq := by rw [hfr.others q.2.1 hne]; exact h1
      simpa [Sim.vehicle?] using this
    · exact ih hk ⟨hnd.2, hrest⟩

theorem applyInstructions_k {ids0 : List RequestId} {w : World} {is : List Instr}
    (hn : (is.map Instr.vehicle).Nodup) (hk : K ids0 w) : K ids0 (applyInstructions env w is) := by
  unfold applyInstructions
  obtain ⟨hsub, hhon⟩ := planAll_spec (env := env) (s := w.sim) (is := is)
  exact applyPlans_k hk ⟨List.Nodup.sublist hsub hn, fun p hp => ⟨(hhon p hp).2.2.1, (hhon p hp).2.2.2⟩⟩

theorem fold_k {ids0 : List RequestId} {order : List Vehicle} :
    ∀ {w : World}, K ids0 w → (order.map Vehicle.id).Nodup →
      (∀ x ∈ order, ∃ veh, w.sim.vehicle? x.id = some veh ∧ veh.act = x.act) →
      K ids0 (order.foldl (fun acc v => stepVehicle env acc v.id v.act) w) := by
  induction order with
  | nil => intro w hk _ _; exact hk
  | cons x xs ih =>
    intro w hk hnd hall
    simp only [List.foldl_cons]
    simp only [List.map_cons, List.nodup_cons] at hnd
    have hrest : ∀ y ∈ xs, ∃ veh, w.sim.vehicle? y.id = some veh ∧ veh.act = y.act :=
      fun y hy => hall y (List.mem_cons_of_mem _ hy)
    rcases stepVehicle_cases (env := env) w x.id x.act with heq | hok
    · rw [heq]; exact ih hk hnd.2 hrest
    · obtain ⟨veh, hveh, hact⟩ := hall x List.mem_cons_self
      rw [← hact] at hok
      have hk' := k_update hk hveh hok
      obtain ⟨hfr, _⟩ := defaultUpdate_frame hk.wf hok
      rw [hact] at hk' hfr
      refine ih hk' hnd.2 ?_
      intro y hy
      obtain ⟨vy, h1, h2⟩ := hrest y hy
      have hne : y.id ≠ x.id := by
        intro heq
        apply hnd.1
        rw [← heq]
        exact List.mem_map_of_mem hy
      exact ⟨vy, by rw [hfr.others y.id hne]; exact h1, h2⟩

theorem vehicleUpdates_k {ids0 : List RequestId} {w : World} (hk : K ids0 w) : K ids0 (vehicleUpdates env w) := by
  unfold vehicleUpdates
  have hp := updateOrder_perm w.sim.vehicles
  refine fold_k hk ?_ ?_
  · exact (List.Perm.nodup_iff (hp.map Vehicle.id)).mpr hk.wf.veh
  · intro x hx
    have hx' : x ∈ w.sim.vehicles := hp.mem_iff.mp hx
    exact ⟨x, lookup_of_mem hk.wf.veh hx', rfl⟩

/-- a phase that files no pickup or drop-off and leaves every vehicle's activity alone -/
theorem inv_silent {w w2 : World} {evs : List Event} (hwf : w.sim.WF) (hwf2 : w2.sim.WF) (hI : Inv w)
    (hl : w2.log = w.log ++ evs) (hp : picked evs = []) (hd : dropped evs = [])
    (hv : ∀ u, (w2.sim.vehicle? u).map (fun x => (x.id, x.act)) = (w.sim.vehicle? u).map (fun x => (x.id, x.act))) : Inv w2 := by
  have hpk : picked w2.log = picked w.log := by rw [hl, picked_append, hp, List.append_nil]
  have hdr : dropped w2.log = dropped w.log := by rw [hl, dropped_append, hd, List.append_nil]
  refine ⟨by rw [hpk, hdr]; exact hI.sub, by rw [hdr]; exact hI.once, ?_⟩
  intro veh' hmem r hr
  have h2 : w2.sim.vehicle? veh'.id = some veh' := lookup_of_mem hwf2.veh hmem
  have := hv veh'.id
  rw [h2] at this
  cases h1 : w.sim.vehicle? veh'.id with
  | none => rw [h1] at this; cases this
  | some veh =>
    rw [h1] at this
    simp only [Option.map_some, Option.some.injEq, Prod.mk.injEq] at this
    obtain ⟨hid, hact⟩ := this
    have := hI.trip veh (vehicle?_some h1).1 r (by rw [← hact]; exact hr)
    rw [hpk, hdr, hid, hact]
    exact this

theorem shifts_none : ∀ (evs : List Event), (∀ e ∈ evs, ∃ v b, e = Event.shift v b) → picked evs = [] ∧ dropped evs = []
  | [], _ => ⟨rfl, rfl⟩
  | e :: es, h => by
    obtain ⟨v, b, rfl⟩ := h e List.mem_cons_self
    obtain ⟨a1, a2⟩ := shifts_none es (fun x hx => h x (List.mem_cons_of_mem _ hx))
    exact ⟨by simpa [picked] using a1, by simpa [dropped] using a2⟩

/-- the phases of a run with one instruction per vehicle in every instruction phase (as the
    instruction stack of `StepSimulation.update` guarantees, C09) -/
inductive Phase1 (env : Env) : World → World → Prop where
  | instructions (w : World) (is : List Instr) : (is.map Instr.vehicle).Nodup → Phase1 env w (applyInstructions env w is)
  | updates (w : World) : Phase1 env w (vehicleUpdates env w)
  | tick (w : World) : Phase1 env w { w with sim := w.sim.tick }
  | arrival {w : World} {s' : Sim} {r : Request} : r.id ∉ Reqs.ids w.sim → r.id ∉ Reqs.admitted w.log → r.id ∉ Reqs.resolved w.log →
      w.sim.addRequest env r = .ok s' → Phase1 env w { sim := s', log := w.log ++ [Event.addRequest r.id] }
  | cancel {w : World} {s' : Sim} {i : RequestId} : w.sim.removeRequest env i = .ok s' →
      Phase1 env w { sim := s', log := w.log ++ [Event.cancelRequest i] }
  | prices (w : World) (names : Nat → List StationId) (rd : Timed.Reader Timed.PriceRow) :
      Phase1 env w { w with sim := (Timed.priceUpdate env names rd w.sim).1 }
  | drivers (w : World) (tbl : List Shift.Entry) : Phase1 env w (Shift.driverUpdates env tbl w)

theorem Phase1.toWPhase {w w' : World} (h : Phase1 env w w') : WPhase env w w' := by
  cases h with
  | instructions is _ => exact .instructions w is
  | updates => exact .updates w
  | tick => exact .tick w
  | arrival a b c d => exact .arrival a b c d
  | cancel a => exact .cancel a
  | prices names rd => exact .prices w names rd
  | drivers tbl => exact .drivers w tbl

inductive Reachable1 (env : Env) (w0 : World) : World → Prop where
  | init : Reachable1 env w0 w0
  | step {w w' : World} : Reachable1 env w0 w → Phase1 env w w' → Reachable1 env w0 w'

theorem k_phase (hf : ∀ c, env.inFence c = true) {ids0 : List RequestId} {w w' : World} (hk : K ids0 w)
    (h : Phase1 env w w') : K ids0 w' := by
  have hled := Reqs.ledger_phase hk.ledger h.toWPhase
  cases h with
  | instructions is hn => exact applyInstructions_k hn hk
  | updates => exact vehicleUpdates_k hk
  | tick =>
    have hwf2 : w.sim.tick.WF := ⟨hk.wf.veh, hk.wf.stn, hk.wf.base, hk.wf.req, hk.wf.plugs⟩
    exact ⟨hwf2, hled, inv_silent (evs := []) hk.wf hwf2 hk.board (by simp) rfl rfl (fun _ => rfl)⟩
  | @arrival s' r hfresh _ _ hadd =>
    have hfr : w.sim.request? r.id = none := by
      cases hq : w.sim.request? r.id with
      | none => rfl
      | some x =>
        exfalso; apply hfresh
        obtain ⟨hm, hid⟩ := request?_some hq
        unfold Reqs.ids; rw [← hid]; exact List.mem_map_of_mem hm
    have hwf2 := addRequest_wf hk.wf hfr hadd
    obtain ⟨hv, _⟩ := addRequest_fields hfr hadd
    exact ⟨hwf2, hled, inv_silent (evs := [Event.addRequest r.id]) hk.wf hwf2 hk.board rfl rfl rfl
      (fun u => by simp [Sim.vehicle?, hv])⟩
  | @cancel s' i hrem =>
    have hwf2 := (Sim.removeRequest_sameIds hrem).wf hk.wf
    obtain ⟨_, _, _, _, hv, _⟩ := Sim.removeRequest_fields hrem
    exact ⟨hwf2, hled, inv_silent (evs := [Event.cancelRequest i]) hk.wf hwf2 hk.board rfl rfl rfl
      (fun u => by simp [Sim.vehicle?, hv])⟩
  | prices names rd =>
    have hc := priceUpdate_cosmetic (env := env) names rd w.sim hf hk.wf
    have hwf2 := wf_cosmetic hc hk.wf
    obtain ⟨hv, _⟩ := priceUpdate_only (env := env) names rd w.sim
    exact ⟨hwf2, hled, inv_silent (evs := []) hk.wf hwf2 hk.board (by simp) rfl rfl (fun u => by simp [Sim.vehicle?, hv])⟩
  | drivers tbl =>
    have hc := driverUpdates_cosmetic (env := env) tbl w hf hk.wf
    have hwf2 := wf_cosmetic hc hk.wf
    have hd := driverUpdates_only (env := env) tbl w
    obtain ⟨evs, hl, hall⟩ := hd.log
    obtain ⟨a1, a2⟩ := shifts_none evs hall
    refine ⟨hwf2, hled, inv_silent (evs := evs) hk.wf hwf2 hk.board hl a1 a2 ?_⟩
    intro u
    have := congrArg (Option.map fun (p : VehicleId × Pos × Membership × MechId × Energy × Act × Rat × Rat) => (p.1, p.2.2.2.2.2.1)) (hd.veh u)
    simpa [Option.map_map, Function.comp_def, vehRest] using this

/-- **C03, the passengers, over whole runs**: from a well-formed state with an empty log in which
    nobody is in a trip, after any history of the complete cycle (one instruction per vehicle in
    every instruction phase, arrivals under fresh ids): every drop-off event is preceded by a
    pickup event of the same vehicle for the same request, no (vehicle, request) pair is dropped
    off twice - and since a request is picked up at most once (`Reqs.Ledger.once`), no request is
    dropped off twice, nor by another vehicle than the one that picked it up -/
theorem run_board (hf : ∀ c, env.inFence c = true) {w0 w : World} (hwf : w0.sim.WF) (h0 : w0.log = [])
    (hnone : ∀ veh ∈ w0.sim.vehicles, tripOf veh.act = none) (h : Reachable1 env w0 w) :
    K (Reqs.ids w0.sim) w := by
  induction h with
  | init =>
    refine ⟨hwf, Reqs.run_ledger (env := env) h0 .init, ?_⟩
    refine ⟨by rw [h0]; intro p hp; simp [dropped] at hp, by rw [h0]; exact List.nodup_nil, ?_⟩
    intro veh hm r hr
    rw [hnone veh hm] at hr
    cases hr
  | step _ hp ih => exact k_phase hf ih hp

theorem picked_snd_sublist : ∀ (log : List Event), ((picked log).map Prod.snd).Sublist (Reqs.resolved log)
  | [] => by simp [picked, Reqs.resolved]
  | e :: es => by
    have ih := picked_snd_sublist es
    cases e <;> simp only [picked, Reqs.resolved, List.filterMap_cons, List.map_cons] at ih ⊢
    case pickup v r f wt => exact List.Sublist.cons_cons _ ih
    case cancelRequest r => exact List.Sublist.cons _ ih
    all_goals exact ih

/-- no request is dropped off twice (by whichever vehicle) -/
theorem dropped_requests_nodup {ids0 : List RequestId} {w : World} (hk : K ids0 w) :
    ((dropped w.log).map Prod.snd).Nodup := by
  have hpn : ((picked w.log).map Prod.snd).Nodup := List.Nodup.sublist (picked_snd_sublist w.log) hk.ledger.once
  apply List.Nodup.map_on _ hk.board.once
  intro a ha b hb hab
  exact List.inj_on_of_nodup_map hpn (hk.board.sub a ha) (hk.board.sub b hb) hab

end Board
end Hive
