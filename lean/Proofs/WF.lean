/-
  Proofs.WF — every operation of the control model keeps the id structure of the state
  (same vehicle / station / base ids, same plug types per station, requests only disappear),
  hence well-formedness.
-/
import Proofs.SimOps

namespace Hive

theorem map_replaceById_congr {α β : Type} {key : α → Nat} (f : α → β) {xs : List α} {x old : α}
    (hn : (xs.map key).Nodup) (h : lookup key xs (key x) = some old) (hf : f x = f old) :
    (replaceById key xs x).map f = xs.map f := by
  unfold replaceById
  rw [List.map_map]
  apply List.map_congr_left
  intro y hy
  simp only [Function.comp]
  split
  · next hk =>
    have hk' : key y = key x := by simpa using hk
    have := lookup_of_mem hn hy
    rw [hk', h] at this
    cases this
    exact hf
  · rfl

def stationShape (st : Station) : StationId × List ChargerId := (st.id, st.plugs.map ChargerState.id)

/-- `s'` has the same id structure as `s` (requests may have been removed) -/
structure SameIds (s s' : Sim) : Prop where
  veh : s'.vehicles.map Vehicle.id = s.vehicles.map Vehicle.id
  stn : s'.stations.map stationShape = s.stations.map stationShape
  base : s'.bases.map Base.id = s.bases.map Base.id
  req : (s'.requests.map Request.id).Sublist (s.requests.map Request.id)

theorem SameIds.refl (s : Sim) : SameIds s s := ⟨rfl, rfl, rfl, List.Sublist.refl _⟩

theorem SameIds.trans {a b c : Sim} (h1 : SameIds a b) (h2 : SameIds b c) : SameIds a c :=
  ⟨h2.veh.trans h1.veh, h2.stn.trans h1.stn, h2.base.trans h1.base, h2.req.trans h1.req⟩

theorem stations_ids_of_shape {s s' : Sim} (h : s'.stations.map stationShape = s.stations.map stationShape) :
    s'.stations.map Station.id = s.stations.map Station.id := by
  have := congrArg (List.map Prod.fst) h
  simpa [List.map_map, stationShape, Function.comp_def] using this

theorem SameIds.wf {s s' : Sim} (hwf : s.WF) (h : SameIds s s') : s'.WF := by
  refine ⟨by rw [h.veh]; exact hwf.veh, by rw [stations_ids_of_shape h.stn]; exact hwf.stn,
    by rw [h.base]; exact hwf.base, List.Nodup.sublist h.req hwf.req, ?_⟩
  intro st' hst'
  have hm : stationShape st' ∈ s'.stations.map stationShape := List.mem_map_of_mem hst'
  rw [h.stn] at hm
  obtain ⟨st, hst, heq⟩ := List.mem_map.mp hm
  have : st'.plugs.map ChargerState.id = st.plugs.map ChargerState.id := by
    have := congrArg Prod.snd heq
    simpa [stationShape] using this.symm
  rw [this]
  exact hwf.plugs st hst

namespace Sim
variable {env : Env} {s s' : Sim}

theorem modifyVehicle_sameIds {v : Vehicle} (h : s.modifyVehicle env v = .ok s') : SameIds s s' := by
  obtain ⟨_, ix, _, rfl⟩ := modifyVehicle_ok h
  exact ⟨by simp, rfl, rfl, List.Sublist.refl _⟩

theorem modifyRequest_sameIds {r : Request} (h : s.modifyRequest env r = .ok s') : SameIds s s' := by
  obtain ⟨_, ix, _, rfl⟩ := modifyRequest_ok h
  exact ⟨rfl, rfl, rfl, by simp⟩

theorem removeRequest_sameIds {i : RequestId} (h : s.removeRequest env i = .ok s') : SameIds s s' := by
  obtain ⟨_, ix, _, rfl⟩ := removeRequest_ok h
  refine ⟨rfl, rfl, rfl, ?_⟩
  simp only [removeById]
  exact List.Sublist.map _ List.filter_sublist

theorem modifyBase_sameIds {b : Base} (h : s.modifyBase env b = .ok s') : SameIds s s' := by
  obtain ⟨_, _, _, rfl⟩ := modifyBase_ok h
  exact ⟨rfl, rfl, by simp, List.Sublist.refl _⟩

/-- a station may be replaced by one with the same plug types -/
theorem modifyStation_sameIds (hwf : s.WF) {st : Station} (h : s.modifyStation env st = .ok s')
    (hshape : ∀ old, s.station? st.id = some old → st.plugs.map ChargerState.id = old.plugs.map ChargerState.id) :
    SameIds s s' := by
  obtain ⟨old, hold, _, rfl⟩ := modifyStation_ok h
  refine ⟨rfl, ?_, rfl, List.Sublist.refl _⟩
  simp only
  apply map_replaceById_congr stationShape hwf.stn hold
  have hid : old.id = st.id := (lookup_some hold).2
  simp [stationShape, hshape old hold, hid]

end Sim

theorem Station.setPlug_shape (st : Station) (cs : ChargerState) :
    (st.setPlug cs).plugs.map ChargerState.id = st.plugs.map ChargerState.id := by
  simp [Station.setPlug]

theorem Station.updatePlug_shape {st st' : Station} {c : ChargerId} {op : ChargerState → Outcome ChargerState}
    (h : st.updatePlug c op = .ok st') :
    st'.id = st.id ∧ st'.plugs.map ChargerState.id = st.plugs.map ChargerState.id := by
  rcases Station.updatePlug_ok h with ⟨_, rfl⟩ | ⟨cs, cs', _, _, rfl⟩
  · exact ⟨rfl, rfl⟩
  · exact ⟨rfl, Station.setPlug_shape st cs'⟩

end Hive

namespace Hive
variable {env : Env}

theorem exit_sameIds {s s1 : Sim} {v : VehicleId} {a : Act} (hwf : s.WF)
    (h : exit env s v a = .ok s1) : SameIds s s1 := by
  cases a <;> simp only [exit] at h
  case idle | repositioning | outOfService | dispatchStation | dispatchBase => cases h; exact SameIds.refl _
  case reserveBase b =>
    split at h
    · cases h
    · simp only [Outcome.bind_eq, Outcome.bind_eq_ok] at h
      obtain ⟨base', _, h2⟩ := h
      exact Sim.modifyBase_sameIds h2
  case chargingStation sid cid =>
    split at h
    · cases h
    · cases h
    · next _ st _ hst =>
      simp only [Outcome.bind_eq, Outcome.bind_eq_ok] at h
      obtain ⟨st', h1, h2⟩ := h
      obtain ⟨hid, hshape⟩ := Station.updatePlug_shape h1
      refine Sim.modifyStation_sameIds hwf h2 ?_
      intro old hold
      rw [hid, station?_self hst] at hold
      cases hold
      exact hshape
  case chargingBase b cid =>
    split at h
    · cases h
    · next base hbase =>
      split at h
      · cases h
      · split at h
        · cases h
        · next st hstb =>
          simp only [Outcome.bind_eq, Outcome.bind_eq_ok] at h
          obtain ⟨base', _, s2, h2, st', h3, h4⟩ := h
          have i1 := Sim.modifyBase_sameIds h2
          obtain ⟨hid, hshape⟩ := Station.updatePlug_shape h3
          obtain ⟨_, _, hs2, _⟩ := Sim.modifyBase_fields h2
          refine i1.trans (Sim.modifyStation_sameIds (i1.wf hwf) h4 ?_)
          intro old hold
          obtain ⟨sid, hsid, hst⟩ : ∃ sid, base.station = some sid ∧ s.station? sid = some st := by
            cases hbs : base.station with
            | none => rw [hbs] at hstb; cases hstb
            | some sid => rw [hbs] at hstb; exact ⟨sid, rfl, hstb⟩
          have : s2.station? st.id = some st := by
            have := station?_self hst
            unfold Sim.station? at *
            rw [hs2]; exact this
          rw [hid, this] at hold
          cases hold
          exact hshape
  case chargeQueueing sid cid t =>
    split at h
    · cases h
    · next st hst =>
      simp only [Outcome.bind_eq, Outcome.bind_eq_ok] at h
      obtain ⟨st', h1, h2⟩ := h
      obtain ⟨hid, hshape⟩ := Station.updatePlug_shape h1
      refine Sim.modifyStation_sameIds hwf h2 ?_
      intro old hold
      rw [hid, station?_self hst] at hold
      cases hold
      exact hshape
  case dispatchTrip rid r =>
    split at h
    · cases h; exact SameIds.refl _
    · exact Sim.modifyRequest_sameIds h
  case servicingTrip req dep r =>
    split at h
    · cases h; exact SameIds.refl _
    · cases h
  case servicingPooling | dispatchPooling => cases h

end Hive

namespace Hive
variable {env : Env}

theorem station_step_sameIds {s s1 : Sim} {sid : StationId} {st st' : Station} {c : ChargerId}
    {op : ChargerState → Outcome ChargerState} (hwf : s.WF) (hst : s.station? sid = some st)
    (hup : st.updatePlug c op = .ok st') (hmod : s.modifyStation env st' = .ok s1) : SameIds s s1 := by
  obtain ⟨hid, hshape⟩ := Station.updatePlug_shape hup
  refine Sim.modifyStation_sameIds hwf hmod ?_
  intro old hold
  rw [hid, station?_self hst] at hold
  cases hold
  exact hshape

theorem applyAct_sameIds {s s2 : Sim} {v : VehicleId} {a : Act} (h : applyAct env s v a = .ok s2) :
    SameIds s s2 := by
  unfold applyAct at h
  split at h
  · cases h
  · exact Sim.modifyVehicle_sameIds h

theorem pickUpTrip_sameIds {w w1 : World} {v : VehicleId} {rid : RequestId}
    (h : pickUpTrip env w v rid = .ok w1) : SameIds w.sim w1.sim := by
  unfold pickUpTrip at h
  split at h
  · cases h
  · cases h
  · simp only [Outcome.bind_eq, Outcome.bind_eq_ok, Outcome.pure_eq] at h
    obtain ⟨s1, h1, s2, h2, h3⟩ := h
    cases h3
    exact (Sim.modifyVehicle_sameIds h1).trans (Sim.removeRequest_sameIds h2)

theorem enter_sameIds {w w2 : World} {v : VehicleId} {next : Act} (hwf : w.sim.WF)
    (h : enter env w v next = .ok w2) : SameIds w.sim w2.sim := by
  cases next <;> simp only [enter] at h
  case idle d =>
    simp only [Outcome.bind_eq, Outcome.bind_eq_ok, Outcome.pure_eq] at h
    obtain ⟨s2, h1, h2⟩ := h
    cases h2; exact applyAct_sameIds h1
  case outOfService =>
    simp only [Outcome.bind_eq, Outcome.bind_eq_ok, Outcome.pure_eq] at h
    obtain ⟨s2, h1, h2⟩ := h
    cases h2; exact applyAct_sameIds h1
  case repositioning route =>
    split at h
    · cases h
    · split at h
      · cases h
      · simp only [Outcome.bind_eq, Outcome.bind_eq_ok, Outcome.pure_eq] at h
        obtain ⟨s2, h1, h2⟩ := h
        cases h2; exact applyAct_sameIds h1
  case dispatchBase b route =>
    split at h
    · cases h
    · cases h
    · split at h
      · cases h
      · split at h
        · cases h
        · simp only [Outcome.bind_eq, Outcome.bind_eq_ok, Outcome.pure_eq] at h
          obtain ⟨s2, h1, h2⟩ := h
          cases h2; exact applyAct_sameIds h1
  case dispatchTrip rid route =>
    split at h
    · cases h
    · split at h
      · cases h
      · split at h
        · cases h
        · split at h
          · cases h
          · simp only [Outcome.bind_eq, Outcome.bind_eq_ok, Outcome.pure_eq] at h
            obtain ⟨s1, h0, s2, h1, h2⟩ := h
            cases h2
            exact (Sim.modifyRequest_sameIds h0).trans (applyAct_sameIds h1)
  case servicingPooling => cases h
  case dispatchPooling => cases h
  case servicingTrip sreq dep route =>
    split at h
    · cases h
    · split at h
      · cases h
      · split at h
        · cases h
        · split at h
          · cases h
          · split at h
            · cases h
            · split at h
              · cases h
              · simp only [Outcome.bind_eq, Outcome.bind_eq_ok, Outcome.pure_eq] at h
                obtain ⟨w1, h0, s2, h1, h2⟩ := h
                cases h2
                exact (pickUpTrip_sameIds h0).trans (applyAct_sameIds h1)
  case reserveBase b =>
    split at h
    · cases h
    · cases h
    · split at h
      · cases h
      · split at h
        · cases h
        · split at h
          · cases h
          · simp only [Outcome.bind_eq, Outcome.bind_eq_ok, Outcome.pure_eq] at h
            obtain ⟨s1, h0, s2, h1, h2⟩ := h
            cases h2
            exact (Sim.modifyBase_sameIds h0).trans (applyAct_sameIds h1)
  case chargingStation sid cid =>
    split at h
    · cases h
    · cases h
    · next veh st hveh hst =>
      split at h
      · cases h
      · split at h
        · cases h
        · split at h
          · cases h
          · split at h
            · cases h
            · split at h
              · cases h
              · simp only [Outcome.bind_eq, Outcome.bind_eq_ok, Outcome.pure_eq] at h
                obtain ⟨st', hco, s1, h0, s2, h1, h2⟩ := h
                cases h2
                exact (station_step_sameIds hwf hst hco h0).trans (applyAct_sameIds h1)
  case dispatchStation sid cid route =>
    split at h
    · cases h
    · cases h
    · next veh st hveh hst =>
      split at h
      · split at h
        · cases h
        · split at h
          · cases h
          · split at h
            · cases h
            · split at h
              · cases h
              · simp only [Outcome.bind_eq, Outcome.bind_eq_ok, Outcome.pure_eq] at h
                obtain ⟨st', hco, s1, h0, s2, h1, h2⟩ := h
                cases h2
                exact (station_step_sameIds hwf hst hco h0).trans (applyAct_sameIds h1)
      · split at h
        · cases h
        · split at h
          · cases h
          · simp only [Outcome.bind_eq, Outcome.bind_eq_ok, Outcome.pure_eq] at h
            obtain ⟨s2, h1, h2⟩ := h
            cases h2; exact applyAct_sameIds h1
  case chargeQueueing sid cid t =>
    split at h
    · cases h
    · cases h
    · next veh st hveh hst =>
      split at h
      · cases h
      · split at h
        · cases h
        · split at h
          · cases h
          · split at h
            · cases h
            · simp only [Outcome.bind_eq, Outcome.bind_eq_ok, Outcome.pure_eq] at h
              obtain ⟨st', henq, s1, h0, s2, h1, h2⟩ := h
              cases h2
              exact (station_step_sameIds hwf hst henq h0).trans (applyAct_sameIds h1)
  case chargingBase b cid =>
    split at h
    · cases h
    · cases h
    · next veh base hveh hbase =>
      split at h
      · cases h
      · next sid hsid =>
        split at h
        · cases h
        · next st hst =>
          split at h
          · cases h
          · split at h
            · cases h
            · split at h
              · cases h
              · split at h
                · cases h
                · split at h
                  · cases h
                  · split at h
                    · cases h
                    · split at h
                      · cases h
                      · simp only [Outcome.bind_eq, Outcome.bind_eq_ok, Outcome.pure_eq] at h
                        obtain ⟨st', hco, s1, h0, s2, h1, s3, h2, h3⟩ := h
                        cases h3
                        have i1 := Sim.modifyBase_sameIds h0
                        obtain ⟨_, _, hs1, _⟩ := Sim.modifyBase_fields h0
                        have hst1 : s1.station? sid = some st := by
                          unfold Sim.station? at *; rw [hs1]; exact hst
                        exact (i1.trans (station_step_sameIds (i1.wf hwf) hst1 hco h1)).trans (applyAct_sameIds h2)

theorem transition_sameIds {w w2 : World} {v : VehicleId} {prev next : Act} (hwf : w.sim.WF)
    (h : transition env w v prev next = .ok w2) : SameIds w.sim w2.sim := by
  unfold transition at h
  simp only [Outcome.bind_eq, Outcome.bind_eq_ok] at h
  obtain ⟨s1, h1, h2⟩ := h
  have i1 := exit_sameIds hwf h1
  exact i1.trans (enter_sameIds (w := { w with sim := s1 }) (i1.wf hwf) h2)

end Hive
