/-
  Proofs.Lookup — the read side of the indexes (Hive.Lookup) under the index invariant `IdxInv`.
-/
import Hive.Lookup
import Proofs.Index

namespace Hive
namespace Lookup

variable {parent : Cell → Cell} {ix : Index} {cellOf : Nat → Option Cell}

/-- **location lookup is exact**: an id is reported at a cell iff that is its current cell -/
theorem atCell_exact (h : IdxInv parent ix cellOf) (c : Cell) (i : Nat) :
    i ∈ atCell ix c ↔ cellOf i = some c := h.loc.mem c i

/-- **the coarse index is exact**: the entities reported for a search cell are exactly the
    entities whose enclosing search cell it is -/
theorem entitiesAtCell_exact (h : IdxInv parent ix cellOf) {ents : List (Nat × Cell)}
    (hents : ∀ e ∈ ents, cellOf e.1 = some e.2) (sc : Cell) (e : Nat × Cell) :
    e ∈ entitiesAtCell ix.search ents sc ↔ e ∈ ents ∧ parent e.2 = sc := by
  unfold entitiesAtCell
  cases hh : ix.search.has sc
  · simp only [Bool.false_eq_true, if_false, List.not_mem_nil, false_iff, not_and]
    intro he hp
    have : e.1 ∈ ix.search.get sc := (h.search.mem sc e.1).mpr ⟨e.2, hents e he, hp⟩
    rw [CollDict.get_of_not_has hh] at this
    cases this
  · simp only [if_true, List.mem_filter, List.contains_iff_mem]
    constructor
    · rintro ⟨he, hm⟩
      obtain ⟨c0, hc0, hp⟩ := (h.search.mem sc e.1).mp hm
      rw [hents e he] at hc0
      cases hc0
      exact ⟨he, hp⟩
    · rintro ⟨he, hp⟩
      exact ⟨he, (h.search.mem sc e.1).mpr ⟨e.2, hents e he, hp⟩⟩

/-! ### the ring search -/

theorem foldl_some {valid : Nat → Bool} {dist : Nat → Rat} (l : List (Nat × Cell)) (acc : Rat × Option (Nat × Cell))
    (h : acc.2.isSome = true) : (l.foldl (bestStep valid dist) acc).2.isSome = true := by
  induction l generalizing acc with
  | nil => exact h
  | cons x xs ih =>
    rw [List.foldl_cons]
    apply ih
    unfold bestStep
    split
    · rfl
    · exact h

theorem foldl_finds {valid : Nat → Bool} {dist : Nat → Rat} (l : List (Nat × Cell)) (acc : Rat × Option (Nat × Cell))
    (hacc : acc.2 = none → acc.1 = 1000000) {e : Nat × Cell} (he : e ∈ l) (hv : valid e.1 = true)
    (hd : dist e.1 < 1000000) : (l.foldl (bestStep valid dist) acc).2.isSome = true := by
  induction l generalizing acc with
  | nil => cases he
  | cons x xs ih =>
    rw [List.foldl_cons]
    rcases List.mem_cons.mp he with rfl | hm
    · apply foldl_some
      unfold bestStep
      split
      · rfl
      · rename_i hc
        cases h2 : acc.2 with
        | some _ => rfl
        | none =>
          exfalso
          apply hc
          rw [hacc h2]
          simp [hv, hd]
    · apply ih _ _ hm
      unfold bestStep
      split
      · intro hx; cases hx
      · exact hacc

theorem foldl_sound {valid : Nat → Bool} {dist : Nat → Rat} (l : List (Nat × Cell)) (acc : Rat × Option (Nat × Cell))
    (P : Nat × Cell → Prop) (hacc : ∀ r, acc.2 = some r → P r) (hl : ∀ x ∈ l, valid x.1 = true → P x) :
    ∀ r, (l.foldl (bestStep valid dist) acc).2 = some r → P r := by
  induction l generalizing acc with
  | nil => exact hacc
  | cons x xs ih =>
    rw [List.foldl_cons]
    apply ih
    · unfold bestStep
      split
      · rename_i hc
        intro r hr
        cases hr
        simp only [Bool.and_eq_true] at hc
        exact hl x List.mem_cons_self hc.1
      · exact hacc
    · intro y hy; exact hl y (List.mem_cons_of_mem _ hy)

/-- **every registered entity is found through the coarse index**: when the index maps agree with
    the entities, an entity that the caller accepts and whose enclosing search cell lies in one
    of the rings makes the ring search answer - with an accepted entity of the collection -/
theorem nearest_finds (h : IdxInv parent ix cellOf) {ents : List (Nat × Cell)}
    (hents : ∀ e ∈ ents, cellOf e.1 = some e.2) (valid : Nat → Bool) (dist : Nat → Rat)
    (rings : List (List Cell)) {e : Nat × Cell} (he : e ∈ ents) (hv : valid e.1 = true)
    (hd : dist e.1 < 1000000) (hr : ∃ ring ∈ rings, parent e.2 ∈ ring) :
    (nearest ix.search ents valid dist rings).isSome = true := by
  induction rings with
  | nil => obtain ⟨_, hx, _⟩ := hr; cases hx
  | cons ring rest ih =>
    unfold nearest
    cases hb : bestOf valid dist (ring.flatMap (entitiesAtCell ix.search ents)) with
    | some r => rfl
    | none =>
      simp only
      apply ih
      obtain ⟨rg, hrg, hp⟩ := hr
      rcases List.mem_cons.mp hrg with rfl | hrest
      · exfalso
        have hm : e ∈ rg.flatMap (entitiesAtCell ix.search ents) :=
          List.mem_flatMap.mpr ⟨parent e.2, hp, (entitiesAtCell_exact h hents _ e).mpr ⟨he, rfl⟩⟩
        have := foldl_finds (valid := valid) (dist := dist) _ (1000000, none) (fun _ => rfl) hm hv hd
        unfold bestOf at hb
        rw [hb] at this
        cases this
      · exact ⟨rg, hrest, hp⟩

/-- the answer of the ring search is an accepted entity of the collection -/
theorem nearest_sound (h : IdxInv parent ix cellOf) {ents : List (Nat × Cell)}
    (hents : ∀ e ∈ ents, cellOf e.1 = some e.2) (valid : Nat → Bool) (dist : Nat → Rat)
    (rings : List (List Cell)) {r : Nat × Cell} (hr : nearest ix.search ents valid dist rings = some r) :
    r ∈ ents ∧ valid r.1 = true ∧ ∃ ring ∈ rings, parent r.2 ∈ ring := by
  induction rings with
  | nil => cases hr
  | cons ring rest ih =>
    unfold nearest at hr
    cases hb : bestOf valid dist (ring.flatMap (entitiesAtCell ix.search ents)) with
    | some r' =>
      rw [hb] at hr
      cases hr
      have := foldl_sound (valid := valid) (dist := dist) (ring.flatMap (entitiesAtCell ix.search ents)) (1000000, none)
        (fun x => x ∈ ents ∧ valid x.1 = true ∧ parent x.2 ∈ ring) (by intro r hr; cases hr)
        (by
          intro x hx hvx
          obtain ⟨sc, hsc, hxm⟩ := List.mem_flatMap.mp hx
          obtain ⟨hxe, hxp⟩ := (entitiesAtCell_exact h hents sc x).mp hxm
          exact ⟨hxe, hvx, hxp ▸ hsc⟩) r hb
      exact ⟨this.1, this.2.1, ring, List.mem_cons_self, this.2.2⟩
    | none =>
      rw [hb] at hr
      obtain ⟨h1, h2, rg, hrg, hp⟩ := ih hr
      exact ⟨h1, h2, rg, List.mem_cons_of_mem _ hrg, hp⟩

/-- in particular: asked for one entity, the search returns that entity -/
theorem nearest_target (h : IdxInv parent ix cellOf) {ents : List (Nat × Cell)}
    (hents : ∀ e ∈ ents, cellOf e.1 = some e.2) (dist : Nat → Rat)
    (rings : List (List Cell)) {e : Nat × Cell} (he : e ∈ ents)
    (hd : dist e.1 < 1000000) (hr : ∃ ring ∈ rings, parent e.2 ∈ ring) :
    nearest ix.search ents (fun i => i == e.1) dist rings = some e := by
  have hs := nearest_finds h hents (fun i => i == e.1) dist rings he (by simp) hd hr
  cases hn : nearest ix.search ents (fun i => i == e.1) dist rings with
  | none => rw [hn] at hs; cases hs
  | some r =>
    obtain ⟨hre, hrv, _⟩ := nearest_sound h hents _ dist rings hn
    simp only [beq_iff_eq] at hrv
    have : r = e := by
      have h1 := hents r hre
      have h2 := hents e he
      rw [hrv, h2] at h1
      cases r; cases e
      simp only at hrv h1
      cases h1
      subst hrv
      rfl
    rw [this]

end Lookup
end Hive
