/-
  Proofs.NoPool — the two pooling activities (`DispatchPoolingTrip`, `ServicingPoolingTrip`) are
  refused by the control model (the implementation can enter `ServicingPoolingTrip` only from
  `DispatchPoolingTrip`, and `DispatchPoolingTripInstruction` only applies to a vehicle that is
  already in `ServicingPoolingTrip`); as a per-vehicle predicate for `vehPred_runInv`.
-/
import Proofs.PerVehicle
import Proofs.Cosmetic

namespace Hive
variable {env : Env}

/-- not one of the two pooling activities -/
def Act.noPool : Act → Bool
  | .servicingPooling | .dispatchPooling => false
  | _ => true

theorem noPool_setRoute (a : Act) (r : Route) : (a.setRoute r).noPool = a.noPool := by
  cases a <;> rfl

/-- "no vehicle is in a pooling activity" as a per-vehicle predicate -/
theorem noPool_vehPred : VehPred env (fun _ veh => veh.act.noPool) where
  mono _ _ h := h
  enter := by
    intro v s s1 s2 old veh' next _ _ _ _ _ _ _ _ hpost
    cases next <;> simp only [EnterPost] at hpost
    case dispatchStation sid cid r =>
      obtain ⟨st, _, _, h | h⟩ := hpost
      · rw [h.1]; rfl
      · rw [h.1]; rfl
    all_goals first | (rw [hpost]; rfl) | (rw [hpost.1]; rfl)
  upd := by
    intro v s s2 old new _ _ _ _ hpost hold
    rcases hpost with ⟨_, h | h | ⟨d, d', _, h⟩ | ⟨route, tr, _, _, _, h⟩⟩ | ⟨route, tr, last, _, _, _, _, h⟩
    · simp only [h]; exact hold
    · simp only [h]; rfl
    · simp only [h]; rfl
    · simp only [h, noPool_setRoute]; exact hold
    · simp only [h, noPool_setRoute]; exact hold
  applied _ _ _ := rfl
  tick _ _ := rfl
  arrival _ _ _ _ _ h := h

end Hive
