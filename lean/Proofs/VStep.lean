/-
  Proofs.VStep — every change the control model makes to a vehicle record is one of six shapes
  (activity stored; fare credited; idling; queue idling; moved; charged). One walk through all
  functions; any per-vehicle property closed under these shapes is an invariant of runs.
-/
import Proofs.PerVehicle

namespace Hive
variable {env : Env} {allowed : ChargerState → Prop}

/-- one modification of a vehicle record (`dt` = step length) -/
inductive VStep (env : Env) (allowed : ChargerState → Prop) (dt : Nat) : Vehicle → Vehicle → Prop where
  | act (veh : Vehicle) (a : Act) : VStep env allowed dt veh { veh with act := a }
  | pay (veh : Vehicle) (x : Rat) : VStep env allowed dt veh { veh with balance := veh.balance + x }
  | idle (veh : Vehicle) (d : Nat) : VStep env allowed dt veh { veh with en := env.idle veh dt, act := .idle d }
  | qidle (veh : Vehicle) : VStep env allowed dt veh { veh with en := env.idle veh dt }
  | moved (veh : Vehicle) (route : Route) (tr : Traversal) (p : Pos) (h : env.traverse route dt = .ok tr) :
      VStep env allowed dt veh
        { veh with
          en := env.consume veh tr.experienced
          pos := p
          odo := veh.odo + tr.km
          act := veh.act.setRoute tr.remaining }
  | charged (veh : Vehicle) (cs : ChargerState) (h : allowed cs) :
      VStep env allowed dt veh
        { veh with
          en := env.addEnergy veh cs dt
          balance := veh.balance - ((env.addEnergy veh cs dt).level - veh.en.level) * cs.price }

/-- finitely many modifications -/
inductive VSteps (env : Env) (allowed : ChargerState → Prop) (dt : Nat) : Vehicle → Vehicle → Prop where
  | refl (veh : Vehicle) : VSteps env allowed dt veh veh
  | step {a b c : Vehicle} : VSteps env allowed dt a b → VStep env allowed dt b c → VSteps env allowed dt a c

theorem VSteps.trans {dt : Nat} {a b c : Vehicle} (h1 : VSteps env allowed dt a b) (h2 : VSteps env allowed dt b c) :
    VSteps env allowed dt a c := by
  induction h2 with
  | refl => exact h1
  | step _ hs ih => exact VSteps.step ih hs

theorem VSteps.one {dt : Nat} {a b : Vehicle} (h : VStep env allowed dt a b) : VSteps env allowed dt a b :=
  VSteps.step (VSteps.refl a) h

/-- a property of vehicle records closed under single modifications is closed under sequences -/
theorem VSteps.preserve {dt : Nat} {P : Vehicle → Prop} (hP : ∀ a b, VStep env allowed dt a b → P a → P b)
    {a b : Vehicle} (h : VSteps env allowed dt a b) (ha : P a) : P b := by
  induction h with
  | refl => exact ha
  | step _ hs ih => exact hP _ _ hs ih

theorem vs_applyAct {s s2 : Sim} {v : VehicleId} {a : Act} {old : Vehicle} {dt : Nat}
    (hveh : s.vehicle? v = some old) (h : applyAct env s v a = .ok s2) :
    ∃ new, s2.vehicle? v = some new ∧ VSteps env allowed dt old new := by
  obtain ⟨veh, hv, hn⟩ := applyAct_self h
  rw [hveh] at hv; cases hv
  exact ⟨_, hn, VSteps.one (VStep.act old a)⟩

theorem vs_exit {s s1 : Sim} {v : VehicleId} {a : Act} {old : Vehicle}
    (hveh : s.vehicle? v = some old) (h : exit env s v a = .ok s1) : s1.vehicle? v = some old := by
  rw [vehicle?_congr (exit_frame h).1]; exact hveh

theorem vs_pickUp {w w1 : World} {v : VehicleId} {rid : RequestId} {old : Vehicle} {dt : Nat}
    (hveh : w.sim.vehicle? v = some old) (h : pickUpTrip env w v rid = .ok w1) :
    ∃ new, w1.sim.vehicle? v = some new ∧ VSteps env allowed dt old new := by
  obtain ⟨veh, req, hv, _, a1, _⟩ := pickUpTrip_fields h
  rw [hveh] at hv; cases hv
  refine ⟨_, ?_, VSteps.one (VStep.pay old req.value)⟩
  unfold Sim.vehicle? at *
  rw [a1]
  have hid := (lookup_some hveh).2
  have hl : lookup Vehicle.id w.sim.vehicles
      ({ old with balance := old.balance + req.value } : Vehicle).id = some old := by
    simp only; rw [hid]; exact hveh
  have := lookup_replaceById_self hl
  simpa [hid] using this

theorem vs_enter {w w2 : World} {v : VehicleId} {next : Act} {old : Vehicle} {dt : Nat}
    (hveh : w.sim.vehicle? v = some old) (h : enter env w v next = .ok w2) :
    ∃ new, w2.sim.vehicle? v = some new ∧ VSteps env allowed dt old new := by
  -- resources are taken in a state with the same vehicle list, then the activity is stored
  have fin : ∀ {s1 s2 : Sim} {a : Act}, s1.vehicles = w.sim.vehicles → applyAct env s1 v a = .ok s2 →
      ∃ new, s2.vehicle? v = some new ∧ VSteps env allowed dt old new := by
    intro s1 s2 a hv h
    exact vs_applyAct (by rw [vehicle?_congr hv]; exact hveh) h
  cases next <;> simp only [enter] at h
  case idle d =>
    simp only [Outcome.bind_eq, Outcome.bind_eq_ok, Outcome.pure_eq] at h
    obtain ⟨s2, h1, h2⟩ := h
    cases h2; exact fin rfl h1
  case outOfService =>
    simp only [Outcome.bind_eq, Outcome.bind_eq_ok, Outcome.pure_eq] at h
    obtain ⟨s2, h1, h2⟩ := h
    cases h2; exact fin rfl h1
  case repositioning route =>
    split at h
    · cases h
    · split at h
      · cases h
      · simp only [Outcome.bind_eq, Outcome.bind_eq_ok, Outcome.pure_eq] at h
        obtain ⟨s2, h1, h2⟩ := h
        cases h2; exact fin rfl h1
  case dispatchBase b route =>
    split at h
    · cases h
    · cases h
    · split at h
      · cases h
      · split at h
        · cases h
        · simp only [Outcome.bind_eq, Outcome.bind_eq_ok, Outcome.pure_eq] at h
          obtain ⟨s2, h1, h2⟩ := h
          cases h2; exact fin rfl h1
  case dispatchTrip rid route =>
    split at h
    · cases h
    · split at h
      · cases h
      · split at h
        · cases h
        · split at h
          · cases h
          · simp only [Outcome.bind_eq, Outcome.bind_eq_ok, Outcome.pure_eq] at h
            obtain ⟨s1, h0, s2, h1, h2⟩ := h
            cases h2
            obtain ⟨_, _, _, _, hv1, _, _⟩ := Sim.modifyRequest_fields h0
            exact fin hv1 h1
  case servicingPooling => cases h
  case dispatchPooling => cases h
  case servicingTrip sreq dep route =>
    split at h
    · cases h
    · split at h
      · cases h
      · split at h
        · cases h
        · split at h
          · cases h
          · split at h
            · cases h
            · split at h
              · cases h
              · simp only [Outcome.bind_eq, Outcome.bind_eq_ok, Outcome.pure_eq] at h
                obtain ⟨w1, h0, s2, h1, h2⟩ := h
                cases h2
                obtain ⟨mid, hm, hs1⟩ := vs_pickUp (dt := dt) hveh h0
                obtain ⟨new, hn, hs2⟩ := vs_applyAct (dt := dt) hm h1
                exact ⟨new, hn, hs1.trans hs2⟩
  case reserveBase b =>
    split at h
    · cases h
    · cases h
    · split at h
      · cases h
      · split at h
        · cases h
        · split at h
          · cases h
          · simp only [Outcome.bind_eq, Outcome.bind_eq_ok, Outcome.pure_eq] at h
            obtain ⟨s1, h0, s2, h1, h2⟩ := h
            cases h2
            obtain ⟨_, _, _, hv1, _, _, _⟩ := Sim.modifyBase_fields h0
            exact fin hv1 h1
  case chargingStation sid cid =>
    split at h
    · cases h
    · cases h
    · split at h
      · cases h
      · split at h
        · cases h
        · split at h
          · cases h
          · split at h
            · cases h
            · split at h
              · cases h
              · simp only [Outcome.bind_eq, Outcome.bind_eq_ok, Outcome.pure_eq] at h
                obtain ⟨st', hco, s1, h0, s2, h1, h2⟩ := h
                cases h2
                obtain ⟨_, _, _, hv1, _, _, _⟩ := Sim.modifyStation_fields h0
                exact fin hv1 h1
  case dispatchStation sid cid route =>
    split at h
    · cases h
    · cases h
    · split at h
      · split at h
        · cases h
        · split at h
          · cases h
          · split at h
            · cases h
            · split at h
              · cases h
              · simp only [Outcome.bind_eq, Outcome.bind_eq_ok, Outcome.pure_eq] at h
                obtain ⟨st', hco, s1, h0, s2, h1, h2⟩ := h
                cases h2
                obtain ⟨_, _, _, hv1, _, _, _⟩ := Sim.modifyStation_fields h0
                exact fin hv1 h1
      · split at h
        · cases h
        · split at h
          · cases h
          · simp only [Outcome.bind_eq, Outcome.bind_eq_ok, Outcome.pure_eq] at h
            obtain ⟨s2, h1, h2⟩ := h
            cases h2; exact fin rfl h1
  case chargeQueueing sid cid t =>
    split at h
    · cases h
    · cases h
    · split at h
      · cases h
      · split at h
        · cases h
        · split at h
          · cases h
          · split at h
            · cases h
            · simp only [Outcome.bind_eq, Outcome.bind_eq_ok, Outcome.pure_eq] at h
              obtain ⟨st', henq, s1, h0, s2, h1, h2⟩ := h
              cases h2
              obtain ⟨_, _, _, hv1, _, _, _⟩ := Sim.modifyStation_fields h0
              exact fin hv1 h1
  case chargingBase b cid =>
    split at h
    · cases h
    · cases h
    · split at h
      · cases h
      · split at h
        · cases h
        · split at h
          · cases h
          · split at h
            · cases h
            · split at h
              · cases h
              · split at h
                · cases h
                · split at h
                  · cases h
                  · split at h
                    · cases h
                    · split at h
                      · cases h
                      · simp only [Outcome.bind_eq, Outcome.bind_eq_ok, Outcome.pure_eq] at h
                        obtain ⟨st', hco, s1, h0, s2, h1, s3, h2, h3⟩ := h
                        cases h3
                        obtain ⟨_, _, _, hv1, _, _, _⟩ := Sim.modifyBase_fields h0
                        obtain ⟨_, _, _, hv2, _, _, _⟩ := Sim.modifyStation_fields h1
                        exact fin (hv2.trans hv1) h2

theorem vs_transition {w w2 : World} {v : VehicleId} {prev next : Act} {old : Vehicle} {dt : Nat}
    (hveh : w.sim.vehicle? v = some old) (h : transition env w v prev next = .ok w2) :
    ∃ new, w2.sim.vehicle? v = some new ∧ VSteps env allowed dt old new := by
  unfold transition at h
  simp only [Outcome.bind_eq, Outcome.bind_eq_ok] at h
  obtain ⟨s1, h1, h2⟩ := h
  exact vs_enter (w := { w with sim := s1 }) (vs_exit hveh h1) h2

theorem vs_modifyVehicle {s s' : Sim} {v : VehicleId} {old new : Vehicle} {dt : Nat}
    (h : s.modifyVehicle env new = .ok s') (hid : new.id = v) (hs : VStep env allowed dt old new) :
    ∃ n, s'.vehicle? v = some n ∧ VSteps env allowed dt old n := by
  have := modifyVehicle_self h
  rw [hid] at this
  exact ⟨new, this, VSteps.one hs⟩

theorem vs_move {w w2 : World} {v : VehicleId} {old : Vehicle}
    (hveh : w.sim.vehicle? v = some old) (h : move env w v = .ok w2) :
    ∃ new, w2.sim.vehicle? v = some new ∧ VSteps env allowed w.sim.dt old new := by
  have hid := (vehicle?_some hveh).2
  unfold move at h
  rw [hveh] at h
  simp only at h
  split at h
  · cases h
  · split at h
    · cases h
    · next route _ =>
      simp only [Outcome.bind_eq, Outcome.bind_eq_ok, Outcome.pure_eq] at h
      obtain ⟨tr, htr, h⟩ := h
      split at h
      · simp only [Outcome.bind_eq, Outcome.bind_eq_ok, Outcome.pure_eq] at h
        obtain ⟨s2, h1, h2⟩ := h
        cases h2
        exact vs_modifyVehicle h1 hid (VStep.act old _)
      · split at h
        · simp only [Outcome.bind_eq, Outcome.bind_eq_ok, Outcome.pure_eq] at h
          obtain ⟨s2, h1, h2⟩ := h
          cases h2
          split at h1
          · next s' hexit => exact vs_applyAct (vs_exit hveh hexit) h1
          · exact vs_applyAct hveh h1
        · split at h
          · cases h
          · next last _ =>
            simp only [Outcome.bind_eq, Outcome.bind_eq_ok, Outcome.pure_eq] at h
            obtain ⟨s2, h1, h2⟩ := h
            cases h2
            exact vs_modifyVehicle h1 hid (VStep.moved old route tr ⟨last.id, last.stop⟩ htr)

/-- every installed plug of every station satisfies `allowed` -/
def PlugsAllowed (allowed : ChargerState → Prop) (s : Sim) : Prop :=
  ∀ i st, s.station? i = some st → ∀ cs ∈ st.plugs, allowed cs

/-- `allowed` looks only at the static part of a plug: carried over a frame step -/
theorem plugsAllowed_frame {v : VehicleId} {s s' : Sim}
    (hst : ∀ cs cs', plugStatic cs = plugStatic cs' → allowed cs → allowed cs')
    (hfr : Frame v s s') (h : PlugsAllowed allowed s) : PlugsAllowed allowed s' := by
  intro i st' hs' cs' hcs'
  have := hfr.stn i
  rw [hs'] at this
  cases hs : s.station? i with
  | none => rw [hs] at this; cases this
  | some st =>
    rw [hs] at this
    simp only [Option.map_some, Option.some.injEq, stnStatic, Prod.mk.injEq] at this
    have hmap : st'.plugs.map plugStatic = st.plugs.map plugStatic := this.2.2
    have hm : plugStatic cs' ∈ st.plugs.map plugStatic := by
      rw [← hmap]; exact List.mem_map_of_mem hcs'
    obtain ⟨cs, hcs, heq⟩ := List.mem_map.mp hm
    exact hst cs cs' heq (h i st hs cs hcs)

theorem vs_charge {w w2 : World} {v : VehicleId} {sid : StationId} {cid : ChargerId} {old : Vehicle}
    (hal : PlugsAllowed allowed w.sim)
    (hveh : w.sim.vehicle? v = some old) (h : charge env w v sid cid = .ok w2) :
    ∃ new, w2.sim.vehicle? v = some new ∧ VSteps env allowed w.sim.dt old new := by
  have hid := (vehicle?_some hveh).2
  unfold charge at h
  split at h
  · cases h
  · next st hst =>
    rw [hveh] at h
    simp only at h
    split at h
    · cases h
    · split at h
      · cases h
      · next cs hcs =>
        split at h
        · cases h
        · simp only [Outcome.bind_eq, Outcome.bind_eq_ok, Outcome.pure_eq] at h
          obtain ⟨s1, h1, s2, h2, h3⟩ := h
          cases h3
          have hacs : allowed cs := hal sid st hst cs (lookup_some hcs).1
          obtain ⟨n, hn, hs⟩ := vs_modifyVehicle h1 hid (VStep.charged old cs hacs)
          obtain ⟨_, _, _, hv2, _⟩ := Sim.modifyStation_fields h2
          exact ⟨n, by simp only; rw [vehicle?_congr hv2]; exact hn, hs⟩

theorem vs_performUpdate {w w2 : World} {v : VehicleId} {old : Vehicle} (hal : PlugsAllowed allowed w.sim)
    (hveh : w.sim.vehicle? v = some old) (h : performUpdate env w v old.act = .ok w2) :
    ∃ new, w2.sim.vehicle? v = some new ∧ VSteps env allowed w.sim.dt old new := by
  have hid := (vehicle?_some hveh).2
  cases hact : old.act <;> rw [hact] at h <;> simp only [performUpdate] at h
  case idle d =>
    rw [hveh] at h
    simp only at h
    split at h
    · cases h
    · simp only [Outcome.bind_eq, Outcome.bind_eq_ok, Outcome.pure_eq] at h
      obtain ⟨s2, h1, h2⟩ := h
      cases h2
      exact vs_modifyVehicle h1 hid (VStep.idle old _)
  case outOfService | reserveBase => cases h; exact ⟨old, hveh, VSteps.refl _⟩
  case repositioning | dispatchTrip | dispatchStation | dispatchBase => exact vs_move hveh h
  case servicingTrip req dep r =>
    simp only [Outcome.bind_eq, Outcome.bind_eq_ok, Outcome.pure_eq] at h
    obtain ⟨w1, h1, h2⟩ := h
    obtain ⟨new, hn, hs⟩ := vs_move hveh h1
    have hw : w2.sim = w1.sim := by
      split at h2
      · cases h2
      · split at h2
        · cases h2; rfl
        · split at h2
          · exact dropOffTrip_sim' h2
          · cases h2; rfl
        · cases h2; rfl
    rw [hw]; exact ⟨new, hn, hs⟩
  case chargingStation sid cid => exact vs_charge hal hveh h
  case chargingBase b cid =>
    split at h
    · cases h
    · exact vs_charge hal hveh h
  case chargeQueueing sid cid t =>
    rw [hveh] at h
    simp only at h
    split at h
    · cases h
    · simp only [Outcome.bind_eq, Outcome.bind_eq_ok, Outcome.pure_eq] at h
      obtain ⟨s2, h1, h2⟩ := h
      cases h2
      exact vs_modifyVehicle h1 hid (VStep.qidle old)
  case servicingPooling | dispatchPooling => cases h

theorem vs_defaultUpdate {w w2 : World} {v : VehicleId} {old : Vehicle} (hwf : w.sim.WF)
    (hst : ∀ cs cs', plugStatic cs = plugStatic cs' → allowed cs → allowed cs')
    (hal : PlugsAllowed allowed w.sim)
    (hveh : w.sim.vehicle? v = some old) (h : defaultUpdate env w v old.act = .ok w2) :
    ∃ new, w2.sim.vehicle? v = some new ∧ VSteps env allowed w.sim.dt old new := by
  unfold defaultUpdate at h
  split at h
  · simp only [Outcome.bind_eq, Outcome.bind_eq_ok] at h
    obtain ⟨next, _, w1, htr, h3⟩ := h
    obtain ⟨mid, hm, hs1⟩ := vs_transition (dt := w.sim.dt) hveh htr
    have hdt : w1.sim.dt = w.sim.dt := (transition_frame hwf htr).dt
    rw [hm] at h3
    simp only at h3
    obtain ⟨new, hn, hs2⟩ := vs_performUpdate (plugsAllowed_frame hst (transition_frame hwf htr) hal) hm h3
    rw [hdt] at hs2
    exact ⟨new, hn, hs1.trans hs2⟩
  · exact vs_performUpdate hal hveh h

end Hive

namespace Hive
variable {env : Env}

/-- the acting vehicle is re-established from its modification sequence, the others are untouched -/
theorem all_of_vsteps {P : Vehicle → Prop} {v : VehicleId} {s s' : Sim} {old : Vehicle} {dt : Nat}
    (hP : ∀ a b, VStep env allowed dt a b → P a → P b)
    (hwf : s.WF) (hwf' : s'.WF) (hfr : Frame v s s') (hveh : s.vehicle? v = some old)
    (hnew : ∃ new, s'.vehicle? v = some new ∧ VSteps env allowed dt old new)
    (hall : ∀ veh ∈ s.vehicles, P veh) : ∀ veh ∈ s'.vehicles, P veh := by
  intro veh' hmem
  have hl : s'.vehicle? veh'.id = some veh' := lookup_of_mem hwf'.veh hmem
  by_cases hv : veh'.id = v
  · obtain ⟨new, hn, hs⟩ := hnew
    rw [hv, hn] at hl
    cases hl
    exact hs.preserve hP (hall old (vehicle?_some hveh).1)
  · rw [hfr.others veh'.id hv] at hl
    exact hall veh' (vehicle?_some hl).1

/-- **a property of vehicle records closed under the six modification shapes holds for every
    vehicle in every reachable state** (`allowed` is a property of the static part of plugs, e.g.
    a non-negative rate, that holds for every installed plug initially) -/
theorem vsteps_runInv {P : Vehicle → Prop}
    (hst : ∀ cs cs', plugStatic cs = plugStatic cs' → allowed cs → allowed cs')
    (hP : ∀ dt a b, VStep env allowed dt a b → P a → P b) :
    RunInv env (fun s => PlugsAllowed allowed s ∧ ∀ veh ∈ s.vehicles, P veh) where
  applied _ _ h := h
  transition := by
    intro w w2 v veh next hwf hi hveh _ h
    have hfr := transition_frame hwf h
    exact ⟨plugsAllowed_frame hst hfr hi.1,
      all_of_vsteps (hP w.sim.dt) hwf ((transition_sameIds hwf h).wf hwf) hfr hveh (vs_transition hveh h) hi.2⟩
  update := by
    intro w w2 v veh hwf hi hveh h
    obtain ⟨hfr, hid⟩ := defaultUpdate_frame hwf h
    exact ⟨plugsAllowed_frame hst hfr hi.1,
      all_of_vsteps (hP w.sim.dt) hwf (hid.wf hwf) hfr hveh (vs_defaultUpdate hwf hst hi.1 hveh h) hi.2⟩
  tick _ h := h
  arrival := by
    intro s s' r _ hi hf _ _ h
    obtain ⟨hv, hs, _⟩ := addRequest_fields hf h
    refine ⟨?_, by rw [hv]; exact hi.2⟩
    intro i st hst'
    exact hi.1 i st (by simpa [Sim.station?, hs] using hst')
  cancel := by
    intro s s' i _ hi h
    obtain ⟨_, _, hs, _, hv, _⟩ := Sim.removeRequest_fields h
    refine ⟨?_, by rw [hv]; exact hi.2⟩
    intro j st hst'
    exact hi.1 j st (by simpa [Sim.station?, hs] using hst')

end Hive
