/-
  Proofs.EnterPost — what a successful `enter` establishes about the vehicle: the activity it
  ends up in and the guard facts (target exists, co-location, access, route ends) that held.
  One walk through `enter`, used by C07, C10, C17, C09.
-/
import Proofs.Frame

namespace Hive
variable {env : Env}

/-- guard facts of a successful `enter` of `next` by a vehicle that was `old`, in state `s`;
    `a` is the activity stored on the vehicle -/
def EnterPost (s : Sim) (old : Vehicle) : Act → Act → Prop
  | .idle d, a => a = .idle d
  | .outOfService, a => a = .outOfService
  | .repositioning r, a => a = .repositioning r ∧ routeOk r old.pos none = true
  | .reserveBase b, a => a = .reserveBase b ∧
      ∃ base, s.base? b = some base ∧ base.pos.cell = old.pos.cell ∧ base.members.grants old.members = true
  | .chargingStation sid cid, a => a = .chargingStation sid cid ∧
      ∃ st, s.station? sid = some st ∧ st.pos.cell = old.pos.cell ∧ st.members.grants old.members = true ∧
        (st.plug? cid).isSome
  | .chargingBase b cid, a => a = .chargingBase b cid ∧
      ∃ base sid st, s.base? b = some base ∧ base.station = some sid ∧ s.station? sid = some st ∧
        base.pos.cell = old.pos.cell ∧ base.members.grants old.members = true ∧
        st.members.grants old.members = true ∧ (st.plug? cid).isSome
  | .chargeQueueing sid cid t, a => a = .chargeQueueing sid cid t ∧
      ∃ st, s.station? sid = some st ∧ st.pos.cell = old.pos.cell ∧ st.members.grants old.members = true ∧
        st.hasAvailable cid = false
  | .dispatchStation sid cid r, a =>
      ∃ st, s.station? sid = some st ∧ st.members.grants old.members = true ∧
        ((a = .chargingStation sid cid ∧ st.pos.cell = old.pos.cell ∧ (st.plug? cid).isSome) ∨
         (a = .dispatchStation sid cid r ∧ routeOk r old.pos (some st.pos) = true ∧ st.pos.cell ≠ old.pos.cell))
  | .dispatchBase b r, a => a = .dispatchBase b r ∧
      ∃ base, s.base? b = some base ∧ routeOk r old.pos (some base.pos) = true ∧
        base.members.grants old.members = true
  | .dispatchTrip rid r, a => a = .dispatchTrip rid r ∧
      ∃ req, s.request? rid = some req ∧ routeOk r old.pos (some req.pos) = true ∧
        req.members.grants old.members = true
  | .servicingTrip sreq dep r, a => a = .servicingTrip sreq dep r ∧
      ∃ req, s.request? sreq.id = some req ∧ routeOk r req.pos (some req.dest) = true ∧
        routeOk r old.pos none = true ∧ sreq.members.grants old.members = true ∧
        old.act.isDispatchTrip = true
  | .servicingPooling, _ => False
  | .dispatchPooling, _ => False

/-- the vehicle record after `applyAct` on a state whose vehicle `v` is `veh1` -/
theorem applyAct_self {s s2 : Sim} {v : VehicleId} {a : Act} (h : applyAct env s v a = .ok s2) :
    ∃ veh, s.vehicle? v = some veh ∧ s2.vehicle? v = some { veh with act := a } := by
  obtain ⟨veh, hveh, hv, _⟩ := applyAct_fields h
  refine ⟨veh, hveh, ?_⟩
  unfold Sim.vehicle? at *
  rw [hv]
  have hid := (lookup_some hveh).2
  have : lookup Vehicle.id s.vehicles ({ veh with act := a } : Vehicle).id = some veh := by
    simp only; rw [hid]; exact hveh
  have := lookup_replaceById_self this
  simpa [hid] using this

/-- the vehicle is looked up the same way in a state with the same vehicle list -/
theorem vehicle?_congr {s s' : Sim} (h : s'.vehicles = s.vehicles) (v : VehicleId) :
    s'.vehicle? v = s.vehicle? v := by simp [Sim.vehicle?, h]

/-- shape of the result: same vehicle except activity (and balance for a pickup) -/
structure SameBut (old new : Vehicle) : Prop where
  id : new.id = old.id
  members : new.members = old.members
  mech : new.mech = old.mech
  driver : new.driver = old.driver

theorem enter_post {w w2 : World} {v : VehicleId} {next : Act} (h : enter env w v next = .ok w2) :
    ∃ old veh', w.sim.vehicle? v = some old ∧ w2.sim.vehicle? v = some veh' ∧ SameBut old veh' ∧
      veh'.pos = old.pos ∧ EnterPost w.sim old next veh'.act := by
  -- the common ending when resources were taken in a state `s1` with the same vehicle list
  have fin : ∀ {s1 s2 : Sim} {a : Act}, s1.vehicles = w.sim.vehicles → applyAct env s1 v a = .ok s2 →
      ∃ old, w.sim.vehicle? v = some old ∧ s2.vehicle? v = some { old with act := a } := by
    intro s1 s2 a hv h
    obtain ⟨veh, h1, h2⟩ := applyAct_self h
    rw [vehicle?_congr hv] at h1
    exact ⟨veh, h1, h2⟩
  cases next <;> simp only [enter] at h
  case idle d =>
    simp only [Outcome.bind_eq, Outcome.bind_eq_ok, Outcome.pure_eq] at h
    obtain ⟨s2, h1, h2⟩ := h
    cases h2
    obtain ⟨old, ho, hn⟩ := fin rfl h1
    exact ⟨old, _, ho, hn, ⟨rfl, rfl, rfl, rfl⟩, rfl, rfl⟩
  case outOfService =>
    simp only [Outcome.bind_eq, Outcome.bind_eq_ok, Outcome.pure_eq] at h
    obtain ⟨s2, h1, h2⟩ := h
    cases h2
    obtain ⟨old, ho, hn⟩ := fin rfl h1
    exact ⟨old, _, ho, hn, ⟨rfl, rfl, rfl, rfl⟩, rfl, rfl⟩
  case repositioning route =>
    split at h
    · cases h
    · next veh hveh =>
      split at h
      · cases h
      · next hr =>
        simp only [Outcome.bind_eq, Outcome.bind_eq_ok, Outcome.pure_eq] at h
        obtain ⟨s2, h1, h2⟩ := h
        cases h2
        obtain ⟨old, ho, hn⟩ := fin rfl h1
        rw [hveh] at ho; cases ho
        exact ⟨veh, _, hveh, hn, ⟨rfl, rfl, rfl, rfl⟩, rfl, rfl, by simpa using hr⟩
  case dispatchBase b route =>
    split at h
    · cases h
    · cases h
    · next base veh hbase hveh =>
      split at h
      · cases h
      · next hr =>
        split at h
        · cases h
        · next hg =>
          simp only [Outcome.bind_eq, Outcome.bind_eq_ok, Outcome.pure_eq] at h
          obtain ⟨s2, h1, h2⟩ := h
          cases h2
          obtain ⟨old, ho, hn⟩ := fin rfl h1
          rw [hveh] at ho; cases ho
          exact ⟨veh, _, hveh, hn, ⟨rfl, rfl, rfl, rfl⟩, rfl, rfl, base, hbase, by simpa using hr, by simpa using hg⟩
  case dispatchTrip rid route =>
    split at h
    · cases h
    · next veh hveh =>
      split at h
      · cases h
      · next req hreq =>
        split at h
        · cases h
        · next hg =>
          split at h
          · cases h
          · next hr =>
            simp only [Outcome.bind_eq, Outcome.bind_eq_ok, Outcome.pure_eq] at h
            obtain ⟨s1, h0, s2, h1, h2⟩ := h
            cases h2
            obtain ⟨_, _, _, _, hv1, _, _⟩ := Sim.modifyRequest_fields h0
            obtain ⟨old, ho, hn⟩ := fin hv1 h1
            rw [hveh] at ho; cases ho
            exact ⟨veh, _, hveh, hn, ⟨rfl, rfl, rfl, rfl⟩, rfl, rfl, req, hreq, by simpa using hr, by simpa using hg⟩
  case servicingPooling => cases h
  case dispatchPooling => cases h
  case servicingTrip sreq dep route =>
    split at h
    · cases h
    · next veh hveh =>
      split at h
      · cases h
      · next req hreq =>
        split at h
        · cases h
        · next hr1 =>
          split at h
          · cases h
          · next hdt =>
            split at h
            · cases h
            · next hg =>
              split at h
              · cases h
              · next hr2 =>
                simp only [Outcome.bind_eq, Outcome.bind_eq_ok, Outcome.pure_eq] at h
                obtain ⟨w1, h0, s2, h1, h2⟩ := h
                cases h2
                obtain ⟨veh0, req0, hveh0, _, a1, _, _, _, _, _⟩ := pickUpTrip_fields h0
                rw [hveh] at hveh0; cases hveh0
                obtain ⟨veh1, hv1, hv2⟩ := applyAct_self h1
                have : w1.sim.vehicle? v = some { veh with balance := veh.balance + req0.value } := by
                  unfold Sim.vehicle? at *
                  rw [a1]
                  have hid := (lookup_some hveh).2
                  have hl : lookup Vehicle.id w.sim.vehicles
                      ({ veh with balance := veh.balance + req0.value } : Vehicle).id = some veh := by
                    simp only; rw [hid]; exact hveh
                  have := lookup_replaceById_self hl
                  simpa [hid] using this
                rw [this] at hv1; cases hv1
                have hr2' : (veh.pos.cell == req.pos.cell && routeOk route veh.pos none) = true := by simpa using hr2
                simp only [Bool.and_eq_true] at hr2'
                exact ⟨veh, _, hveh, hv2, ⟨rfl, rfl, rfl, rfl⟩, rfl, rfl, req, hreq, by simpa using hr1,
                  hr2'.2, by simpa using hg, by simpa using hdt⟩
  case reserveBase b =>
    split at h
    · cases h
    · cases h
    · next veh base hveh hbase =>
      split at h
      · cases h
      · next hc =>
        split at h
        · cases h
        · next hg =>
          split at h
          · cases h
          · simp only [Outcome.bind_eq, Outcome.bind_eq_ok, Outcome.pure_eq] at h
            obtain ⟨s1, h0, s2, h1, h2⟩ := h
            cases h2
            obtain ⟨_, _, _, hv1, _, _, _⟩ := Sim.modifyBase_fields h0
            obtain ⟨old, ho, hn⟩ := fin hv1 h1
            rw [hveh] at ho; cases ho
            exact ⟨veh, _, hveh, hn, ⟨rfl, rfl, rfl, rfl⟩, rfl, rfl, base, hbase, by simpa using hc, by simpa using hg⟩
  case chargingStation sid cid =>
    split at h
    · cases h
    · cases h
    · next veh st hveh hst =>
      split at h
      · cases h
      · split at h
        · cases h
        · next hc =>
          split at h
          · cases h
          · next hg =>
            split at h
            · cases h
            · next cs hcs =>
              split at h
              · cases h
              · simp only [Outcome.bind_eq, Outcome.bind_eq_ok, Outcome.pure_eq] at h
                obtain ⟨st', hco, s1, h0, s2, h1, h2⟩ := h
                cases h2
                obtain ⟨_, _, _, hv1, _, _, _⟩ := Sim.modifyStation_fields h0
                obtain ⟨old, ho, hn⟩ := fin hv1 h1
                rw [hveh] at ho; cases ho
                refine ⟨veh, _, hveh, hn, ⟨rfl, rfl, rfl, rfl⟩, rfl, rfl, st, hst, ?_, by simpa using hg, by simp [hcs]⟩
                have : veh.pos.cell = st.pos.cell := by simpa using hc
                exact this.symm
  case dispatchStation sid cid route =>
    split at h
    · cases h
    · cases h
    · next veh st hveh hst =>
      split at h
      · next hc =>
        split at h
        · cases h
        · split at h
          · cases h
          · next hg =>
            split at h
            · cases h
            · next cs hcs =>
              split at h
              · cases h
              · simp only [Outcome.bind_eq, Outcome.bind_eq_ok, Outcome.pure_eq] at h
                obtain ⟨st', hco, s1, h0, s2, h1, h2⟩ := h
                cases h2
                obtain ⟨_, _, _, hv1, _, _, _⟩ := Sim.modifyStation_fields h0
                obtain ⟨old, ho, hn⟩ := fin hv1 h1
                rw [hveh] at ho; cases ho
                exact ⟨veh, _, hveh, hn, ⟨rfl, rfl, rfl, rfl⟩, rfl, st, hst, by simpa using hg,
                  Or.inl ⟨rfl, by simpa using hc, by simp [hcs]⟩⟩
      · next hc =>
        split at h
        · cases h
        · next hr =>
          split at h
          · cases h
          · next hg =>
            simp only [Outcome.bind_eq, Outcome.bind_eq_ok, Outcome.pure_eq] at h
            obtain ⟨s2, h1, h2⟩ := h
            cases h2
            obtain ⟨old, ho, hn⟩ := fin rfl h1
            rw [hveh] at ho; cases ho
            exact ⟨veh, _, hveh, hn, ⟨rfl, rfl, rfl, rfl⟩, rfl, st, hst, by simpa using hg,
              Or.inr ⟨rfl, by simpa using hr, by simpa using hc⟩⟩
  case chargeQueueing sid cid t =>
    split at h
    · cases h
    · cases h
    · next veh st hveh hst =>
      split at h
      · cases h
      · next hc =>
        split at h
        · cases h
        · next hav =>
          split at h
          · cases h
          · next hg =>
            split at h
            · cases h
            · simp only [Outcome.bind_eq, Outcome.bind_eq_ok, Outcome.pure_eq] at h
              obtain ⟨st', henq, s1, h0, s2, h1, h2⟩ := h
              cases h2
              obtain ⟨_, _, _, hv1, _, _, _⟩ := Sim.modifyStation_fields h0
              obtain ⟨old, ho, hn⟩ := fin hv1 h1
              rw [hveh] at ho; cases ho
              refine ⟨veh, _, hveh, hn, ⟨rfl, rfl, rfl, rfl⟩, rfl, rfl, st, hst, ?_, by simpa using hg, by simpa using hav⟩
              have : veh.pos.cell = st.pos.cell := by simpa using hc
              exact this.symm
  case chargingBase b cid =>
    split at h
    · cases h
    · cases h
    · next veh base hveh hbase =>
      split at h
      · cases h
      · next sid hsid =>
        split at h
        · cases h
        · next st hst =>
          split at h
          · cases h
          · split at h
            · cases h
            · next hc =>
              split at h
              · cases h
              · next hg1 =>
                split at h
                · cases h
                · next hg2 =>
                  split at h
                  · cases h
                  · split at h
                    · cases h
                    · next cs hcs =>
                      split at h
                      · cases h
                      · simp only [Outcome.bind_eq, Outcome.bind_eq_ok, Outcome.pure_eq] at h
                        obtain ⟨st', hco, s1, h0, s2, h1, s3, h2, h3⟩ := h
                        cases h3
                        obtain ⟨_, _, _, hv1, _, _, _⟩ := Sim.modifyBase_fields h0
                        obtain ⟨_, _, _, hv2, _, _, _⟩ := Sim.modifyStation_fields h1
                        obtain ⟨old, ho, hn⟩ := fin (hv2.trans hv1) h2
                        rw [hveh] at ho; cases ho
                        exact ⟨veh, _, hveh, hn, ⟨rfl, rfl, rfl, rfl⟩, rfl, rfl, base, sid, st, hbase, hsid, hst,
                          by simpa using hc, by simpa using hg1, by simpa using hg2, by simp [hcs]⟩

end Hive

namespace Hive
variable {env : Env}

/-- how one `_perform_update` changes the vehicle (besides energy, balance, odometer) -/
def UpdPost (env : Env) (dt : Nat) (old new : Vehicle) : Prop :=
  (new.pos = old.pos ∧
    (new.act = old.act ∨ new.act = .outOfService ∨ (∃ d d', old.act = .idle d ∧ new.act = .idle d') ∨
     (∃ route tr, old.act.route? = some route ∧ env.traverse route dt = .ok tr ∧ tr.experienced = [] ∧
        new.act = old.act.setRoute []))) ∨
  (∃ route tr last, old.act.route? = some route ∧ env.traverse route dt = .ok tr ∧
     tr.experienced.getLast? = some last ∧ new.pos = ⟨last.id, last.stop⟩ ∧
     new.act = old.act.setRoute tr.remaining)

theorem modifyVehicle_self {s s' : Sim} {veh' : Vehicle} (h : s.modifyVehicle env veh' = .ok s') :
    s'.vehicle? veh'.id = some veh' := by
  obtain ⟨⟨old, hold⟩, hv, _⟩ := Sim.modifyVehicle_fields h
  unfold Sim.vehicle? at *
  rw [hv]
  exact lookup_replaceById_self hold

theorem dropOffTrip_sim' {w w2 : World} {v : VehicleId} {req : Request}
    (h : dropOffTrip w v req = .ok w2) : w2.sim = w.sim := by
  unfold dropOffTrip at h
  split at h
  · cases h
  · split at h
    · cases h
    · cases h; rfl

theorem move_post {w w2 : World} {v : VehicleId} {veh : Vehicle} (hveh : w.sim.vehicle? v = some veh)
    (h : move env w v = .ok w2) :
    ∃ veh', w2.sim.vehicle? v = some veh' ∧ SameBut veh veh' ∧ UpdPost env w.sim.dt veh veh' := by
  have hid := (vehicle?_some hveh).2
  unfold move at h
  rw [hveh] at h
  simp only at h
  split at h
  · cases h
  · split at h
    · cases h
    · next route hroute =>
      simp only [Outcome.bind_eq, Outcome.bind_eq_ok, Outcome.pure_eq] at h
      obtain ⟨tr, htr, h⟩ := h
      split at h
      · next hemp =>
        simp only [Outcome.bind_eq, Outcome.bind_eq_ok, Outcome.pure_eq] at h
        obtain ⟨s2, h1, h2⟩ := h
        cases h2
        have := modifyVehicle_self h1
        simp only at this
        rw [hid] at this
        refine ⟨_, this, ⟨by first | rfl | exact hid.symm, rfl, rfl, rfl⟩, Or.inl ⟨rfl, Or.inr (Or.inr (Or.inr ⟨route, tr, hroute, htr, ?_, rfl⟩))⟩⟩
        simpa using hemp
      · split at h
        · simp only [Outcome.bind_eq, Outcome.bind_eq_ok, Outcome.pure_eq] at h
          obtain ⟨s2, h1, h2⟩ := h
          cases h2
          obtain ⟨veh1, hv1, hv2⟩ := applyAct_self h1
          have hsame : veh1 = veh := by
            split at hv1
            · next s' hexit =>
              rw [vehicle?_congr (exit_frame hexit).1, hveh] at hv1
              exact (Option.some.inj hv1).symm
            · rw [hveh] at hv1
              exact (Option.some.inj hv1).symm
          subst hsame
          exact ⟨_, hv2, ⟨by first | rfl | exact hid.symm, rfl, rfl, rfl⟩, Or.inl ⟨rfl, Or.inr (Or.inl rfl)⟩⟩
        · split at h
          · cases h
          · next last hlast =>
            simp only [Outcome.bind_eq, Outcome.bind_eq_ok, Outcome.pure_eq] at h
            obtain ⟨s2, h1, h2⟩ := h
            cases h2
            have := modifyVehicle_self h1
            simp only at this
            rw [hid] at this
            exact ⟨_, this, ⟨by first | rfl | exact hid.symm, rfl, rfl, rfl⟩, Or.inr ⟨route, tr, last, hroute, htr, hlast, rfl, rfl⟩⟩

theorem charge_post {w w2 : World} {v : VehicleId} {sid : StationId} {cid : ChargerId} {veh : Vehicle}
    (hveh : w.sim.vehicle? v = some veh) (h : charge env w v sid cid = .ok w2) :
    ∃ veh', w2.sim.vehicle? v = some veh' ∧ SameBut veh veh' ∧ UpdPost env w.sim.dt veh veh' := by
  have hid := (vehicle?_some hveh).2
  unfold charge at h
  split at h
  · cases h
  · rw [hveh] at h
    simp only at h
    split at h
    · cases h
    · split at h
      · cases h
      · split at h
        · cases h
        · simp only [Outcome.bind_eq, Outcome.bind_eq_ok, Outcome.pure_eq] at h
          obtain ⟨s1, h1, s2, h2, h3⟩ := h
          cases h3
          have := modifyVehicle_self h1
          simp only at this
          rw [hid] at this
          obtain ⟨_, _, _, hv2, _, _, _⟩ := Sim.modifyStation_fields h2
          exact ⟨_, (vehicle?_congr hv2 v).trans this, ⟨by first | rfl | exact hid.symm, rfl, rfl, rfl⟩,
            Or.inl ⟨rfl, Or.inl rfl⟩⟩

theorem performUpdate_post {w w2 : World} {v : VehicleId} {veh : Vehicle}
    (hveh : w.sim.vehicle? v = some veh) (h : performUpdate env w v veh.act = .ok w2) :
    ∃ veh', w2.sim.vehicle? v = some veh' ∧ SameBut veh veh' ∧ UpdPost env w.sim.dt veh veh' := by
  have hid := (vehicle?_some hveh).2
  cases hact : veh.act <;> rw [hact] at h <;> simp only [performUpdate] at h
  case idle d =>
    rw [hveh] at h
    simp only at h
    split at h
    · cases h
    · simp only [Outcome.bind_eq, Outcome.bind_eq_ok, Outcome.pure_eq] at h
      obtain ⟨s2, h1, h2⟩ := h
      cases h2
      have := modifyVehicle_self h1
      simp only at this
      rw [hid] at this
      exact ⟨_, this, ⟨by first | rfl | exact hid.symm, rfl, rfl, rfl⟩, Or.inl ⟨rfl, Or.inr (Or.inr (Or.inl ⟨d, _, hact, rfl⟩))⟩⟩
  case outOfService | reserveBase =>
    cases h
    exact ⟨veh, hveh, ⟨by first | rfl | exact hid.symm, rfl, rfl, rfl⟩, Or.inl ⟨rfl, Or.inl rfl⟩⟩
  case repositioning | dispatchTrip | dispatchStation | dispatchBase => exact move_post hveh h
  case servicingTrip req dep r =>
    simp only [Outcome.bind_eq, Outcome.bind_eq_ok, Outcome.pure_eq] at h
    obtain ⟨w1, h1, h2⟩ := h
    obtain ⟨veh', hv', hs, hp⟩ := move_post hveh h1
    rw [hv'] at h2
    simp only at h2
    have hw : w2.sim = w1.sim := by
      split at h2
      · cases h2; rfl
      · split at h2
        · exact dropOffTrip_sim' h2
        · cases h2; rfl
      · cases h2; rfl
    rw [hw]
    exact ⟨veh', hv', hs, hp⟩
  case chargingStation sid cid => exact charge_post hveh h
  case chargingBase b cid =>
    split at h
    · cases h
    · exact charge_post hveh h
  case chargeQueueing sid cid t =>
    rw [hveh] at h
    simp only at h
    split at h
    · cases h
    · simp only [Outcome.bind_eq, Outcome.bind_eq_ok, Outcome.pure_eq] at h
      obtain ⟨s2, h1, h2⟩ := h
      cases h2
      have := modifyVehicle_self h1
      simp only at this
      rw [hid] at this
      exact ⟨_, this, ⟨by first | rfl | exact hid.symm, rfl, rfl, rfl⟩, Or.inl ⟨rfl, Or.inl rfl⟩⟩
  case servicingPooling | dispatchPooling => cases h

end Hive
