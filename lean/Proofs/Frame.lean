/-
  Proofs.Frame — what every operation performed on behalf of vehicle `v` leaves alone:
  all other vehicles, the clock, and the static data of stations, bases and requests
  (position, membership, plug types, attached station, origin/destination/value of requests).
  Reflexive and transitive, proved once for every function of the control model.
-/
import Proofs.WF

namespace Hive

/-- what never changes about a plug type during a step: identity, energy type, installed count,
    rate, tariff (tariffs change only in the price-update phase) -/
def plugStatic (c : ChargerState) : ChargerId × Bool × Nat × Rat × Rat := (c.id, c.electric, c.total, c.rate, c.price)

def stnStatic (st : Station) : Pos × Membership × List (ChargerId × Bool × Nat × Rat × Rat) :=
  (st.pos, st.members, st.plugs.map plugStatic)
def baseStatic (b : Base) : Pos × Membership × Nat × Option StationId := (b.pos, b.members, b.total, b.station)
def reqStatic (r : Request) : Pos × Pos × Time × Nat × Membership × Bool × Rat :=
  (r.pos, r.dest, r.departure, r.passengers, r.members, r.allowsPooling, r.value)

structure Frame (v : VehicleId) (s s' : Sim) : Prop where
  others : ∀ u, u ≠ v → s'.vehicle? u = s.vehicle? u
  time : s'.time = s.time
  dt : s'.dt = s.dt
  stn : ∀ i, (s'.station? i).map stnStatic = (s.station? i).map stnStatic
  base : ∀ i, (s'.base? i).map baseStatic = (s.base? i).map baseStatic
  req : ∀ i r', s'.request? i = some r' → ∃ r, s.request? i = some r ∧ reqStatic r' = reqStatic r

theorem Frame.refl (v : VehicleId) (s : Sim) : Frame v s s :=
  ⟨fun _ _ => rfl, rfl, rfl, fun _ => rfl, fun _ => rfl, fun _ r' h => ⟨r', h, rfl⟩⟩

theorem Frame.trans {v : VehicleId} {a b c : Sim} (h1 : Frame v a b) (h2 : Frame v b c) : Frame v a c where
  others u hu := (h2.others u hu).trans (h1.others u hu)
  time := h2.time.trans h1.time
  dt := h2.dt.trans h1.dt
  stn i := (h2.stn i).trans (h1.stn i)
  base i := (h2.base i).trans (h1.base i)
  req i r' h := by
    obtain ⟨r1, hr1, e1⟩ := h2.req i r' h
    obtain ⟨r0, hr0, e0⟩ := h1.req i r1 hr1
    exact ⟨r0, hr0, e1.trans e0⟩

/-- only the listed collections matter -/
theorem Frame.of_fields {v : VehicleId} {s s' : Sim} (hv : s'.vehicles = s.vehicles)
    (hs : s'.stations = s.stations) (hb : s'.bases = s.bases) (hr : s'.requests = s.requests)
    (ht : s'.time = s.time) (hd : s'.dt = s.dt) : Frame v s s' := by
  refine ⟨?_, ht, hd, ?_, ?_, ?_⟩
  · intro u _; simp [Sim.vehicle?, hv]
  · intro i; simp [Sim.station?, hs]
  · intro i; simp [Sim.base?, hb]
  · intro i r' h; exact ⟨r', by simpa [Sim.request?, hr] using h, rfl⟩

namespace Sim
variable {env : Env} {s s' : Sim}

theorem modifyVehicle_frame {veh : Vehicle} (h : s.modifyVehicle env veh = .ok s') : Frame veh.id s s' := by
  obtain ⟨_, hv, hs, hb, hr, ht, hd⟩ := modifyVehicle_fields h
  refine ⟨?_, ht, hd, ?_, ?_, ?_⟩
  · intro u hu
    unfold Sim.vehicle?
    rw [hv]
    exact lookup_replaceById_ne _ _ hu
  · intro i; simp [Sim.station?, hs]
  · intro i; simp [Sim.base?, hb]
  · intro i r' h; exact ⟨r', by simpa [Sim.request?, hr] using h, rfl⟩

theorem modifyStation_frame {v : VehicleId} {st : Station} (h : s.modifyStation env st = .ok s')
    (hstatic : ∀ old, s.station? st.id = some old → stnStatic st = stnStatic old) : Frame v s s' := by
  obtain ⟨⟨old, hold, _⟩, hs, hb, hv, hr, ht, hd⟩ := modifyStation_fields h
  refine ⟨?_, ht, hd, ?_, ?_, ?_⟩
  · intro u _; simp [Sim.vehicle?, hv]
  · intro i
    unfold Sim.station?
    rw [hs]
    by_cases hi : i = st.id
    · subst hi
      rw [lookup_replaceById_self hold]
      have : lookup Station.id s.stations st.id = some old := hold
      rw [this]
      simp [hstatic old hold]
    · rw [lookup_replaceById_ne _ _ hi]
  · intro i; simp [Sim.base?, hb]
  · intro i r' h; exact ⟨r', by simpa [Sim.request?, hr] using h, rfl⟩

theorem modifyBase_frame {v : VehicleId} {b : Base} (h : s.modifyBase env b = .ok s')
    (hstatic : ∀ old, s.base? b.id = some old → baseStatic b = baseStatic old) : Frame v s s' := by
  obtain ⟨⟨old, hold, _⟩, hb, hs, hv, hr, ht, hd⟩ := modifyBase_fields h
  refine ⟨?_, ht, hd, ?_, ?_, ?_⟩
  · intro u _; simp [Sim.vehicle?, hv]
  · intro i; simp [Sim.station?, hs]
  · intro i
    unfold Sim.base?
    rw [hb]
    by_cases hi : i = b.id
    · subst hi
      rw [lookup_replaceById_self hold]
      have : lookup Base.id s.bases b.id = some old := hold
      rw [this]
      simp [hstatic old hold]
    · rw [lookup_replaceById_ne _ _ hi]
  · intro i r' h; exact ⟨r', by simpa [Sim.request?, hr] using h, rfl⟩

theorem modifyRequest_frame {v : VehicleId} {r : Request} (h : s.modifyRequest env r = .ok s')
    (hstatic : ∀ old, s.request? r.id = some old → reqStatic r = reqStatic old) : Frame v s s' := by
  obtain ⟨⟨old, hold⟩, hr, hs, hb, hv, ht, hd⟩ := modifyRequest_fields h
  refine ⟨?_, ht, hd, ?_, ?_, ?_⟩
  · intro u _; simp [Sim.vehicle?, hv]
  · intro i; simp [Sim.station?, hs]
  · intro i; simp [Sim.base?, hb]
  · intro i r' hr'
    unfold Sim.request? at hr'
    rw [hr] at hr'
    by_cases hi : i = r.id
    · subst hi
      rw [lookup_replaceById_self hold] at hr'
      cases hr'
      exact ⟨old, hold, hstatic old hold⟩
    · rw [lookup_replaceById_ne _ _ hi] at hr'
      exact ⟨r', hr', rfl⟩

theorem removeRequest_frame {v : VehicleId} {i : RequestId} (h : s.removeRequest env i = .ok s') : Frame v s s' := by
  obtain ⟨_, hr, hs, hb, hv, ht, hd⟩ := removeRequest_fields h
  refine ⟨?_, ht, hd, ?_, ?_, ?_⟩
  · intro u _; simp [Sim.vehicle?, hv]
  · intro i; simp [Sim.station?, hs]
  · intro i; simp [Sim.base?, hb]
  · intro j r' hr'
    unfold Sim.request? at hr'
    rw [hr] at hr'
    by_cases hj : j = i
    · subst hj
      rw [lookup_removeById_self] at hr'
      cases hr'
    · rw [lookup_removeById_ne _ hj] at hr'
      exact ⟨r', hr', rfl⟩

end Sim

theorem Station.updatePlug_static {st st' : Station} {c : ChargerId} {op : ChargerState → Outcome ChargerState}
    (hn : (st.plugs.map ChargerState.id).Nodup)
    (hop : ∀ cs cs', op cs = .ok cs' → plugStatic cs' = plugStatic cs)
    (h : st.updatePlug c op = .ok st') : st'.id = st.id ∧ stnStatic st' = stnStatic st := by
  rcases Station.updatePlug_ok h with ⟨_, rfl⟩ | ⟨cs, cs', hcs, hcs', rfl⟩
  · exact ⟨rfl, rfl⟩
  · refine ⟨rfl, ?_⟩
    have hps := hop cs cs' hcs'
    have e1 : cs'.id = cs.id := congrArg Prod.fst hps
    unfold stnStatic Station.setPlug
    simp only [Prod.mk.injEq, true_and]
    have hcs0 : lookup ChargerState.id st.plugs cs'.id = some cs := by
      rw [e1, (lookup_some hcs).2]; exact hcs
    exact map_replaceById_congr plugStatic hn hcs0 hps

end Hive

namespace Hive
variable {env : Env}

theorem incAvail_static (cs cs' : ChargerState) (h : cs.incAvail = .ok cs') :
    plugStatic cs' = plugStatic cs := by
  unfold ChargerState.incAvail at h; split at h
  · cases h
  · cases h; rfl

theorem decAvail_static (cs cs' : ChargerState) (h : cs.decAvail = .ok cs') :
    plugStatic cs' = plugStatic cs := by
  unfold ChargerState.decAvail at h; split at h
  · cases h
  · cases h; rfl

theorem decEnq_static (cs cs' : ChargerState) (h : cs.decEnq = .ok cs') :
    plugStatic cs' = plugStatic cs := by
  unfold ChargerState.decEnq at h; split at h
  · cases h
  · cases h; rfl

theorem station_step_frame {v : VehicleId} {s s1 : Sim} {sid : StationId} {st st' : Station} {c : ChargerId}
    {op : ChargerState → Outcome ChargerState} (hwf : s.WF) (hst : s.station? sid = some st)
    (hop : ∀ cs cs', op cs = .ok cs' → plugStatic cs' = plugStatic cs)
    (hup : st.updatePlug c op = .ok st') (hmod : s.modifyStation env st' = .ok s1) : Frame v s s1 := by
  obtain ⟨hid, hstat⟩ := Station.updatePlug_static (hwf.plugs st (station?_some hst).1) hop hup
  refine Sim.modifyStation_frame hmod ?_
  intro old hold
  rw [hid, station?_self hst] at hold
  cases hold
  exact hstat

theorem giveBack_frame {v : VehicleId} {s s1 : Sim} {sid : StationId} {st st' : Station} {c : ChargerId}
    (hwf : s.WF) (hst : s.station? sid = some st) (hup : st.giveBack c = .ok st')
    (hmod : s.modifyStation env st' = .ok s1) : Frame v s s1 :=
  station_step_frame hwf hst incAvail_static hup hmod

theorem dequeue_frame {v : VehicleId} {s s1 : Sim} {sid : StationId} {st st' : Station} {c : ChargerId}
    (hwf : s.WF) (hst : s.station? sid = some st) (hup : st.dequeue c = .ok st')
    (hmod : s.modifyStation env st' = .ok s1) : Frame v s s1 :=
  station_step_frame hwf hst decEnq_static hup hmod

theorem enqueue_frame {v : VehicleId} {s s1 : Sim} {sid : StationId} {st st' : Station} {c : ChargerId}
    (hwf : s.WF) (hst : s.station? sid = some st) (hup : st.enqueue c = .ok st')
    (hmod : s.modifyStation env st' = .ok s1) : Frame v s s1 :=
  station_step_frame hwf hst (by intro cs cs' h; cases h; rfl) hup hmod

theorem checkout_frame {v : VehicleId} {s s1 : Sim} {sid : StationId} {st st' : Station} {c : ChargerId}
    (hwf : s.WF) (hst : s.station? sid = some st) (hup : st.checkout c = .ok st')
    (hmod : s.modifyStation env st' = .ok s1) : Frame v s s1 :=
  station_step_frame hwf hst (by
    intro cs cs' h
    split at h
    · cases h
    · exact decAvail_static cs cs' h) hup hmod

theorem baseAvail_frame {v : VehicleId} {s s1 : Sim} {b : BaseId} {base : Base} {n : Nat}
    (hb : s.base? b = some base) (hmod : s.modifyBase env { base with avail := n } = .ok s1) :
    Frame v s s1 := by
  refine Sim.modifyBase_frame hmod ?_
  intro old hold
  simp only at hold
  rw [base?_self hb] at hold
  cases hold
  rfl

theorem exit_frame' {s s1 : Sim} {v : VehicleId} {a : Act} (hwf : s.WF)
    (h : exit env s v a = .ok s1) : Frame v s s1 := by
  cases a <;> simp only [exit] at h
  case idle | repositioning | outOfService | dispatchStation | dispatchBase => cases h; exact Frame.refl _ _
  case reserveBase b =>
    split at h
    · cases h
    · next base hbase =>
      simp only [Outcome.bind_eq, Outcome.bind_eq_ok] at h
      obtain ⟨base', h1, h2⟩ := h
      unfold Base.giveBack at h1
      split at h1
      · cases h1
      · cases h1; exact baseAvail_frame hbase h2
  case chargingStation sid cid =>
    split at h
    · cases h
    · cases h
    · next _ st _ hst =>
      simp only [Outcome.bind_eq, Outcome.bind_eq_ok] at h
      obtain ⟨st', h1, h2⟩ := h
      exact giveBack_frame hwf hst h1 h2
  case chargingBase b cid =>
    split at h
    · cases h
    · next base hbase =>
      split at h
      · cases h
      · split at h
        · cases h
        · next st hstb =>
          simp only [Outcome.bind_eq, Outcome.bind_eq_ok] at h
          obtain ⟨base', h1, s2, h2, st', h3, h4⟩ := h
          unfold Base.giveBack at h1
          split at h1
          · cases h1
          · cases h1
            have f1 : Frame v s s2 := baseAvail_frame hbase h2
            have i1 := Sim.modifyBase_sameIds h2
            obtain ⟨_, _, hs2, _⟩ := Sim.modifyBase_fields h2
            obtain ⟨sid, hsid, hst⟩ : ∃ sid, base.station = some sid ∧ s.station? sid = some st := by
              cases hbs : base.station with
              | none => rw [hbs] at hstb; cases hstb
              | some sid => rw [hbs] at hstb; exact ⟨sid, rfl, hstb⟩
            have hst2 : s2.station? sid = some st := by
              unfold Sim.station? at *; rw [hs2]; exact hst
            exact f1.trans (giveBack_frame (i1.wf hwf) hst2 h3 h4)
  case chargeQueueing sid cid t =>
    split at h
    · cases h
    · next st hst =>
      simp only [Outcome.bind_eq, Outcome.bind_eq_ok] at h
      obtain ⟨st', h1, h2⟩ := h
      exact dequeue_frame hwf hst h1 h2
  case dispatchTrip rid r =>
    split at h
    · cases h; exact Frame.refl _ _
    · next req hreq =>
      refine Sim.modifyRequest_frame h ?_
      intro old hold
      simp only at hold
      rw [(request?_some hreq).2, hreq] at hold
      cases hold
      rfl
  case servicingTrip req dep r =>
    split at h
    · cases h; exact Frame.refl _ _
    · cases h
  case servicingPooling | dispatchPooling => cases h

theorem applyAct_frame {s s2 : Sim} {v : VehicleId} {a : Act} (h : applyAct env s v a = .ok s2) :
    Frame v s s2 := by
  unfold applyAct at h
  split at h
  · cases h
  · next veh hveh =>
    have := Sim.modifyVehicle_frame h
    simp only at this
    rw [(vehicle?_some hveh).2] at this
    exact this

theorem pickUpTrip_frame {w w1 : World} {v : VehicleId} {rid : RequestId}
    (h : pickUpTrip env w v rid = .ok w1) : Frame v w.sim w1.sim := by
  unfold pickUpTrip at h
  split at h
  · cases h
  · cases h
  · next veh req hveh hreq =>
    simp only [Outcome.bind_eq, Outcome.bind_eq_ok, Outcome.pure_eq] at h
    obtain ⟨s1, h1, s2, h2, h3⟩ := h
    cases h3
    have f1 := Sim.modifyVehicle_frame h1
    simp only at f1
    rw [(vehicle?_some hveh).2] at f1
    exact f1.trans (Sim.removeRequest_frame h2)

end Hive

namespace Hive
variable {env : Env}

theorem enter_frame {w w2 : World} {v : VehicleId} {next : Act} (hwf : w.sim.WF)
    (h : enter env w v next = .ok w2) : Frame v w.sim w2.sim := by
  cases next <;> simp only [enter] at h
  case idle d =>
    simp only [Outcome.bind_eq, Outcome.bind_eq_ok, Outcome.pure_eq] at h
    obtain ⟨s2, h1, h2⟩ := h
    cases h2; exact applyAct_frame h1
  case outOfService =>
    simp only [Outcome.bind_eq, Outcome.bind_eq_ok, Outcome.pure_eq] at h
    obtain ⟨s2, h1, h2⟩ := h
    cases h2; exact applyAct_frame h1
  case repositioning route =>
    split at h
    · cases h
    · split at h
      · cases h
      · simp only [Outcome.bind_eq, Outcome.bind_eq_ok, Outcome.pure_eq] at h
        obtain ⟨s2, h1, h2⟩ := h
        cases h2; exact applyAct_frame h1
  case dispatchBase b route =>
    split at h
    · cases h
    · cases h
    · split at h
      · cases h
      · split at h
        · cases h
        · simp only [Outcome.bind_eq, Outcome.bind_eq_ok, Outcome.pure_eq] at h
          obtain ⟨s2, h1, h2⟩ := h
          cases h2; exact applyAct_frame h1
  case dispatchTrip rid route =>
    split at h
    · cases h
    · split at h
      · cases h
      · next req hreq =>
        split at h
        · cases h
        · split at h
          · cases h
          · simp only [Outcome.bind_eq, Outcome.bind_eq_ok, Outcome.pure_eq] at h
            obtain ⟨s1, h0, s2, h1, h2⟩ := h
            cases h2
            have f0 : Frame v w.sim s1 := by
              refine Sim.modifyRequest_frame h0 ?_
              intro old hold
              simp only at hold
              rw [(request?_some hreq).2, hreq] at hold
              cases hold
              rfl
            exact f0.trans (applyAct_frame h1)
  case servicingPooling => cases h
  case dispatchPooling => cases h
  case servicingTrip sreq dep route =>
    split at h
    · cases h
    · split at h
      · cases h
      · split at h
        · cases h
        · split at h
          · cases h
          · split at h
            · cases h
            · split at h
              · cases h
              · simp only [Outcome.bind_eq, Outcome.bind_eq_ok, Outcome.pure_eq] at h
                obtain ⟨w1, h0, s2, h1, h2⟩ := h
                cases h2
                exact (pickUpTrip_frame h0).trans (applyAct_frame h1)
  case reserveBase b =>
    split at h
    · cases h
    · cases h
    · next veh base hveh hbase =>
      split at h
      · cases h
      · split at h
        · cases h
        · split at h
          · cases h
          · next base' hco =>
            simp only [Outcome.bind_eq, Outcome.bind_eq_ok, Outcome.pure_eq] at h
            obtain ⟨s1, h0, s2, h1, h2⟩ := h
            cases h2
            unfold Base.checkout at hco
            split at hco
            · cases hco
            · cases hco
              exact (baseAvail_frame hbase h0).trans (applyAct_frame h1)
  case chargingStation sid cid =>
    split at h
    · cases h
    · cases h
    · next veh st hveh hst =>
      split at h
      · cases h
      · split at h
        · cases h
        · split at h
          · cases h
          · split at h
            · cases h
            · split at h
              · cases h
              · simp only [Outcome.bind_eq, Outcome.bind_eq_ok, Outcome.pure_eq] at h
                obtain ⟨st', hco, s1, h0, s2, h1, h2⟩ := h
                cases h2
                exact (checkout_frame hwf hst hco h0).trans (applyAct_frame h1)
  case dispatchStation sid cid route =>
    split at h
    · cases h
    · cases h
    · next veh st hveh hst =>
      split at h
      · split at h
        · cases h
        · split at h
          · cases h
          · split at h
            · cases h
            · split at h
              · cases h
              · simp only [Outcome.bind_eq, Outcome.bind_eq_ok, Outcome.pure_eq] at h
                obtain ⟨st', hco, s1, h0, s2, h1, h2⟩ := h
                cases h2
                exact (checkout_frame hwf hst hco h0).trans (applyAct_frame h1)
      · split at h
        · cases h
        · split at h
          · cases h
          · simp only [Outcome.bind_eq, Outcome.bind_eq_ok, Outcome.pure_eq] at h
            obtain ⟨s2, h1, h2⟩ := h
            cases h2; exact applyAct_frame h1
  case chargeQueueing sid cid t =>
    split at h
    · cases h
    · cases h
    · next veh st hveh hst =>
      split at h
      · cases h
      · split at h
        · cases h
        · split at h
          · cases h
          · split at h
            · cases h
            · simp only [Outcome.bind_eq, Outcome.bind_eq_ok, Outcome.pure_eq] at h
              obtain ⟨st', henq, s1, h0, s2, h1, h2⟩ := h
              cases h2
              exact (enqueue_frame hwf hst henq h0).trans (applyAct_frame h1)
  case chargingBase b cid =>
    split at h
    · cases h
    · cases h
    · next veh base hveh hbase =>
      split at h
      · cases h
      · next sid hsid =>
        split at h
        · cases h
        · next st hst =>
          split at h
          · cases h
          · split at h
            · cases h
            · split at h
              · cases h
              · split at h
                · cases h
                · split at h
                  · cases h
                  · next base' hcob =>
                    split at h
                    · cases h
                    · split at h
                      · cases h
                      · simp only [Outcome.bind_eq, Outcome.bind_eq_ok, Outcome.pure_eq] at h
                        obtain ⟨st', hco, s1, h0, s2, h1, s3, h2, h3⟩ := h
                        cases h3
                        unfold Base.checkout at hcob
                        split at hcob
                        · cases hcob
                        · cases hcob
                          have f1 : Frame v w.sim s1 := baseAvail_frame hbase h0
                          have i1 := Sim.modifyBase_sameIds h0
                          obtain ⟨_, _, hs1, _⟩ := Sim.modifyBase_fields h0
                          have hst1 : s1.station? sid = some st := by
                            unfold Sim.station? at *; rw [hs1]; exact hst
                          exact (f1.trans (checkout_frame (i1.wf hwf) hst1 hco h1)).trans (applyAct_frame h2)

theorem transition_frame {w w2 : World} {v : VehicleId} {prev next : Act} (hwf : w.sim.WF)
    (h : transition env w v prev next = .ok w2) : Frame v w.sim w2.sim := by
  unfold transition at h
  simp only [Outcome.bind_eq, Outcome.bind_eq_ok] at h
  obtain ⟨s1, h1, h2⟩ := h
  have i1 := exit_sameIds hwf h1
  exact (exit_frame' hwf h1).trans (enter_frame (w := { w with sim := s1 }) (i1.wf hwf) h2)

end Hive

namespace Hive
variable {env : Env}

theorem move_frame {w w2 : World} {v : VehicleId} (hwf : w.sim.WF) (h : move env w v = .ok w2) :
    Frame v w.sim w2.sim := by
  unfold move at h
  split at h
  · cases h
  · next veh hveh =>
    have hid := (vehicle?_some hveh).2
    split at h
    · cases h
    · split at h
      · cases h
      · simp only [Outcome.bind_eq, Outcome.bind_eq_ok, Outcome.pure_eq] at h
        obtain ⟨tr, _, h⟩ := h
        split at h
        · simp only [Outcome.bind_eq, Outcome.bind_eq_ok, Outcome.pure_eq] at h
          obtain ⟨s2, h1, h2⟩ := h
          cases h2
          have := Sim.modifyVehicle_frame h1
          simp only at this
          rw [hid] at this
          exact this
        · split at h
          · simp only [Outcome.bind_eq, Outcome.bind_eq_ok, Outcome.pure_eq] at h
            obtain ⟨s2, h1, h2⟩ := h
            cases h2
            split at h1
            · next s' hexit => exact (exit_frame' hwf hexit).trans (applyAct_frame h1)
            · exact applyAct_frame h1
          · split at h
            · cases h
            · simp only [Outcome.bind_eq, Outcome.bind_eq_ok, Outcome.pure_eq] at h
              obtain ⟨s2, h1, h2⟩ := h
              cases h2
              have := Sim.modifyVehicle_frame h1
              simp only at this
              rw [hid] at this
              exact this

theorem charge_frame {w w2 : World} {v : VehicleId} {sid : StationId} {cid : ChargerId}
    (h : charge env w v sid cid = .ok w2) : Frame v w.sim w2.sim := by
  unfold charge at h
  split at h
  · cases h
  · next st hst =>
    split at h
    · cases h
    · next veh hveh =>
      split at h
      · cases h
      · split at h
        · cases h
        · split at h
          · cases h
          · simp only [Outcome.bind_eq, Outcome.bind_eq_ok, Outcome.pure_eq] at h
            obtain ⟨s1, h1, s2, h2, h3⟩ := h
            cases h3
            have f1 := Sim.modifyVehicle_frame h1
            simp only at f1
            rw [(vehicle?_some hveh).2] at f1
            obtain ⟨_, _, hs1, _⟩ := Sim.modifyVehicle_fields h1
            have hst1 : s1.station? st.id = some st := by
              have := station?_self hst
              unfold Sim.station? at *; rw [hs1]; exact this
            refine f1.trans (Sim.modifyStation_frame h2 ?_)
            intro old hold
            simp only at hold
            rw [hst1] at hold
            cases hold
            rfl

theorem performUpdate_frame {w w2 : World} {v : VehicleId} {a : Act} (hwf : w.sim.WF)
    (h : performUpdate env w v a = .ok w2) : Frame v w.sim w2.sim := by
  cases a <;> simp only [performUpdate] at h
  case idle d =>
    split at h
    · cases h
    · next veh hveh =>
      split at h
      · cases h
      · simp only [Outcome.bind_eq, Outcome.bind_eq_ok, Outcome.pure_eq] at h
        obtain ⟨s2, h1, h2⟩ := h
        cases h2
        have := Sim.modifyVehicle_frame h1
        simp only at this
        rw [(vehicle?_some hveh).2] at this
        exact this
  case outOfService | reserveBase => cases h; exact Frame.refl _ _
  case repositioning | dispatchTrip | dispatchStation | dispatchBase => exact move_frame hwf h
  case servicingTrip req dep r =>
    simp only [Outcome.bind_eq, Outcome.bind_eq_ok, Outcome.pure_eq] at h
    obtain ⟨w1, h1, h2⟩ := h
    have hm := move_frame hwf h1
    split at h2
    · cases h2
    · split at h2
      · cases h2; exact hm
      · split at h2
        · have : w2.sim = w1.sim := by
            unfold dropOffTrip at h2
            split at h2
            · cases h2
            · split at h2
              · cases h2
              · cases h2; rfl
          rw [this]; exact hm
        · cases h2; exact hm
      · cases h2; exact hm
  case chargingStation sid cid => exact charge_frame h
  case chargingBase b cid =>
    split at h
    · cases h
    · exact charge_frame h
  case chargeQueueing sid cid t =>
    split at h
    · cases h
    · next veh hveh =>
      split at h
      · cases h
      · simp only [Outcome.bind_eq, Outcome.bind_eq_ok, Outcome.pure_eq] at h
        obtain ⟨s2, h1, h2⟩ := h
        cases h2
        have := Sim.modifyVehicle_frame h1
        simp only at this
        rw [(vehicle?_some hveh).2] at this
        exact this
  case servicingPooling | dispatchPooling => cases h

end Hive

namespace Hive
variable {env : Env}

theorem performUpdate_sameIds {w w2 : World} {v : VehicleId} {a : Act} (hwf : w.sim.WF)
    (h : performUpdate env w v a = .ok w2) : SameIds w.sim w2.sim := by
  -- id structure follows from the frame facts plus the per-operation id lemmas; we re-derive it
  -- from the building blocks (`move`, `charge`, `modifyVehicle`)
  have hmove : ∀ {w w2 : World}, w.sim.WF → move env w v = .ok w2 → SameIds w.sim w2.sim := by
    intro w w2 hwf h
    unfold move at h
    split at h
    · cases h
    · split at h
      · cases h
      · split at h
        · cases h
        · simp only [Outcome.bind_eq, Outcome.bind_eq_ok, Outcome.pure_eq] at h
          obtain ⟨tr, _, h⟩ := h
          split at h
          · simp only [Outcome.bind_eq, Outcome.bind_eq_ok, Outcome.pure_eq] at h
            obtain ⟨s2, h1, h2⟩ := h
            cases h2; exact Sim.modifyVehicle_sameIds h1
          · split at h
            · simp only [Outcome.bind_eq, Outcome.bind_eq_ok, Outcome.pure_eq] at h
              obtain ⟨s2, h1, h2⟩ := h
              cases h2
              split at h1
              · next s' hexit => exact (exit_sameIds hwf hexit).trans (applyAct_sameIds h1)
              · exact applyAct_sameIds h1
            · split at h
              · cases h
              · simp only [Outcome.bind_eq, Outcome.bind_eq_ok, Outcome.pure_eq] at h
                obtain ⟨s2, h1, h2⟩ := h
                cases h2; exact Sim.modifyVehicle_sameIds h1
  have hcharge : ∀ {sid cid}, charge env w v sid cid = .ok w2 → SameIds w.sim w2.sim := by
    intro sid cid h
    unfold charge at h
    split at h
    · cases h
    · next st hst =>
      split at h
      · cases h
      · split at h
        · cases h
        · split at h
          · cases h
          · split at h
            · cases h
            · simp only [Outcome.bind_eq, Outcome.bind_eq_ok, Outcome.pure_eq] at h
              obtain ⟨s1, h1, s2, h2, h3⟩ := h
              cases h3
              have id1 := Sim.modifyVehicle_sameIds h1
              obtain ⟨_, _, hs1, _⟩ := Sim.modifyVehicle_fields h1
              have hst1 : s1.station? st.id = some st := by
                have := station?_self hst
                unfold Sim.station? at *; rw [hs1]; exact this
              refine id1.trans (Sim.modifyStation_sameIds (id1.wf hwf) h2 ?_)
              intro old hold
              simp only at hold
              rw [hst1] at hold
              cases hold
              rfl
  cases a <;> simp only [performUpdate] at h
  case idle d =>
    split at h
    · cases h
    · split at h
      · cases h
      · simp only [Outcome.bind_eq, Outcome.bind_eq_ok, Outcome.pure_eq] at h
        obtain ⟨s2, h1, h2⟩ := h
        cases h2; exact Sim.modifyVehicle_sameIds h1
  case outOfService | reserveBase => cases h; exact SameIds.refl _
  case repositioning | dispatchTrip | dispatchStation | dispatchBase => exact hmove hwf h
  case servicingTrip req dep r =>
    simp only [Outcome.bind_eq, Outcome.bind_eq_ok, Outcome.pure_eq] at h
    obtain ⟨w1, h1, h2⟩ := h
    have hm := hmove hwf h1
    split at h2
    · cases h2
    · split at h2
      · cases h2; exact hm
      · split at h2
        · have : w2.sim = w1.sim := by
            unfold dropOffTrip at h2
            split at h2
            · cases h2
            · split at h2
              · cases h2
              · cases h2; rfl
          rw [this]; exact hm
        · cases h2; exact hm
      · cases h2; exact hm
  case chargingStation sid cid => exact hcharge h
  case chargingBase b cid =>
    split at h
    · cases h
    · exact hcharge h
  case chargeQueueing sid cid t =>
    split at h
    · cases h
    · split at h
      · cases h
      · simp only [Outcome.bind_eq, Outcome.bind_eq_ok, Outcome.pure_eq] at h
        obtain ⟨s2, h1, h2⟩ := h
        cases h2; exact Sim.modifyVehicle_sameIds h1
  case servicingPooling | dispatchPooling => cases h

theorem defaultUpdate_frame {w w2 : World} {v : VehicleId} {a : Act} (hwf : w.sim.WF)
    (h : defaultUpdate env w v a = .ok w2) : Frame v w.sim w2.sim ∧ SameIds w.sim w2.sim := by
  unfold defaultUpdate at h
  split at h
  · simp only [Outcome.bind_eq, Outcome.bind_eq_ok] at h
    obtain ⟨next, _, w1, htr, h3⟩ := h
    have id1 := transition_sameIds hwf htr
    have f1 := transition_frame hwf htr
    split at h3
    · cases h3
    · exact ⟨f1.trans (performUpdate_frame (id1.wf hwf) h3),
        id1.trans (performUpdate_sameIds (id1.wf hwf) h3)⟩
  · exact ⟨performUpdate_frame hwf h, performUpdate_sameIds hwf h⟩

end Hive
