/-
  Proofs.C04 — vehicle energy stays physical and accounted for along every history.
-/
import Proofs.Energy
import Proofs.VStep
import Hive.Json

namespace Hive

/-- `level − gained + expended`: constant along every history (= the initial energy) -/
def lc (e : Energy) : Rat := e.level - e.gained + e.expended

structure EnOK (cap : MechId → Rat) (veh : Vehicle) : Prop where
  lo : 0 ≤ veh.en.level
  hi : veh.en.level ≤ cap veh.mech

/-- a spending operation: ledger kept, level lowered but not below zero, expenditure booked -/
structure Spends (old new : Energy) : Prop where
  ledger : lc new = lc old
  lo : 0 ≤ new.level
  le : new.level ≤ old.level
  expended : old.expended ≤ new.expended
  gained : new.gained = old.gained

/-- a charging operation: ledger kept, level raised but not above capacity, gain booked -/
structure Charges (capv : Rat) (old new : Energy) : Prop where
  ledger : lc new = lc old
  ge : old.level ≤ new.level
  hi : new.level ≤ capv
  gained : old.gained ≤ new.gained
  expended : new.expended = old.expended

/-- what C04 needs from the physics functions of an environment -/
structure EnergyEnv (env : Env) (cap : MechId → Rat) : Prop where
  idle : ∀ veh dt, EnOK cap veh → Spends veh.en (env.idle veh dt)
  consume : ∀ veh route dt tr, env.traverse route dt = .ok tr → EnOK cap veh →
    Spends veh.en (env.consume veh tr.experienced)
  add : ∀ veh cs dt, 0 ≤ cs.rate → EnOK cap veh → Charges (cap veh.mech) veh.en (env.addEnergy veh cs dt)

def ratesOK (cs : ChargerState) : Prop := 0 ≤ cs.rate

theorem ratesOK_static (cs cs' : ChargerState) (h : plugStatic cs = plugStatic cs') (hr : ratesOK cs) : ratesOK cs' := by
  unfold ratesOK at *
  have : cs.rate = cs'.rate := by
    have := congrArg (fun p => p.2.2.2.1) h
    simpa [plugStatic] using this
  rw [← this]; exact hr

/-- bounds and ledger are closed under every modification of a vehicle record -/
theorem energy_vstep {env : Env} {cap : MechId → Rat} (he : EnergyEnv env cap) (k : VehicleId → Rat)
    (dt : Nat) (a b : Vehicle) (h : VStep env ratesOK dt a b) (ha : EnOK cap a ∧ lc a.en = k a.id) :
    EnOK cap b ∧ lc b.en = k b.id := by
  obtain ⟨hok, hk⟩ := ha
  cases h with
  | act a' => exact ⟨⟨hok.lo, hok.hi⟩, hk⟩
  | pay x => exact ⟨⟨hok.lo, hok.hi⟩, hk⟩
  | idle d =>
    have := he.idle a dt hok
    exact ⟨⟨this.lo, le_trans this.le hok.hi⟩, by simp only; rw [this.ledger]; exact hk⟩
  | qidle =>
    have := he.idle a dt hok
    exact ⟨⟨this.lo, le_trans this.le hok.hi⟩, by simp only; rw [this.ledger]; exact hk⟩
  | moved route tr p htr =>
    have := he.consume a route dt tr htr hok
    exact ⟨⟨this.lo, le_trans this.le hok.hi⟩, by simp only; rw [this.ledger]; exact hk⟩
  | charged cs hr =>
    have := he.add a cs dt hr hok
    exact ⟨⟨le_trans hok.lo this.ge, this.hi⟩, by simp only; rw [this.ledger]; exact hk⟩

/-- **C04 along histories** -/
theorem energy_runInv {env : Env} {cap : MechId → Rat} (he : EnergyEnv env cap) (k : VehicleId → Rat) :
    RunInv env (fun s => PlugsAllowed ratesOK s ∧ ∀ veh ∈ s.vehicles, EnOK cap veh ∧ lc veh.en = k veh.id) :=
  vsteps_runInv ratesOK_static (fun dt a b h ha => energy_vstep he k dt a b h ha)

/-! ### the concrete environment of the driver satisfies `EnergyEnv` -/

def capOf (mechs : List Mech) (i : MechId) : Rat :=
  match mechOf mechs i with
  | some m => m.capacity
  | none => 0

theorem spends_of_spend (e : Energy) {used : Rat} (hu : 0 ≤ used) (h0 : 0 ≤ e.level) :
    Spends e (Mech.spend e used) :=
  ⟨by unfold lc; exact Mech.spend_ledger e used, Mech.spend_level_nonneg e used,
    Mech.spend_level_le e hu h0, Mech.spend_expended_mono e hu h0, rfl⟩

theorem spends_refl (e : Energy) (h0 : 0 ≤ e.level) : Spends e e := ⟨rfl, h0, le_refl _, le_refl _, rfl⟩

/-- distances of driven links are lengths: non-negative (oracle property of the geometry) -/
def DistOK (o : Oracle) : Prop :=
  ∀ route dt tr, traverse o.geo route dt = .ok tr → ∀ l ∈ tr.experienced, 0 ≤ l.dist

theorem concrete_energyEnv (o : Oracle) (mechs : List Mech) (hv : ∀ m ∈ mechs, m.Valid) (hd : DistOK o) :
    EnergyEnv (o.env mechs) (capOf mechs) where
  idle := by
    intro veh dt hok
    show Spends veh.en (match mechOf mechs veh.mech with | some m => m.idle veh.en dt | none => veh.en)
    cases hm : mechOf mechs veh.mech with
    | none => exact spends_refl _ hok.lo
    | some m =>
      have hmv : m.Valid := hv m (List.mem_of_find?_eq_some hm)
      have hdt : (0 : Rat) ≤ (dt : Rat) := by positivity
      have : 0 ≤ m.idleRate * dt * (1 / 3600) := by
        have := hmv.idle; positivity
      exact spends_of_spend _ this hok.lo
  consume := by
    intro veh route dt tr htr hok
    show Spends veh.en (match mechOf mechs veh.mech with | some m => m.consume veh.en tr.experienced | none => veh.en)
    cases hm : mechOf mechs veh.mech with
    | none => exact spends_refl _ hok.lo
    | some m =>
      have hmv : m.Valid := hv m (List.mem_of_find?_eq_some hm)
      exact spends_of_spend _ (Mech.energyCost_nonneg hmv (hd route dt tr htr)) hok.lo
  add := by
    intro veh cs dt hr hok
    show Charges (capOf mechs veh.mech) veh.en
      (match mechOf mechs veh.mech with | some m => m.addEnergy veh.en cs.electric cs.rate dt | none => veh.en)
    have hcap := hok.hi
    unfold capOf at hcap ⊢
    cases hm : mechOf mechs veh.mech with
    | none =>
      rw [hm] at hcap
      exact ⟨rfl, le_refl _, hcap, le_refl _, rfl⟩
    | some m =>
      rw [hm] at hcap
      simp only at hcap ⊢
      have hmv : m.Valid := hv m (List.mem_of_find?_eq_some hm)
      obtain ⟨h1, _⟩ := Mech.addEnergy_spec hmv veh.en cs.electric hr dt hcap
      refine ⟨by unfold lc; exact Mech.addEnergy_ledger m veh.en cs.electric cs.rate dt, h1,
        Mech.addEnergy_le_cap m veh.en cs.electric cs.rate dt hcap, ?_,
        Mech.addEnergy_expended m veh.en cs.electric cs.rate dt⟩
      rw [Mech.addEnergy_gained]
      linarith

end Hive
