/-
  Proofs.Energy — arithmetic of the mechatronics model (C04): bounds, ledger, strict expenditure,
  monotone and rate-bounded charging, for BEV and ICE, over exact rationals.
-/
import Mathlib.Tactic.Linarith
import Mathlib.Tactic.Positivity
import Mathlib.Tactic.Ring
import Mathlib.Tactic.FieldSimp
import Mathlib.Algebra.Order.Field.Rat
import Hive.Energy

namespace Hive

/-- a point between two table rows lies between the two values (convex combination) -/
theorem lin_ge {x x0 x1 f0 f1 lo : Rat} (h0 : x0 < x) (h1 : x < x1) (hf0 : lo ≤ f0) (hf1 : lo ≤ f1) :
    lo ≤ f0 + (x - x0) * ((f1 - f0) / (x1 - x0)) := by
  have hd : 0 < x1 - x0 := by linarith
  have : f0 + (x - x0) * ((f1 - f0) / (x1 - x0)) = (f0 * (x1 - x) + f1 * (x - x0)) / (x1 - x0) := by
    field_simp
    ring
  rw [this, le_div_iff₀ hd]
  have a1 : 0 ≤ x1 - x := by linarith
  have a2 : 0 ≤ x - x0 := by linarith
  nlinarith [mul_nonneg (sub_nonneg.mpr hf0) a1, mul_nonneg (sub_nonneg.mpr hf1) a2]

theorem lin_gt {x x0 x1 f0 f1 lo : Rat} (h0 : x0 < x) (h1 : x < x1) (hf0 : lo < f0) (hf1 : lo < f1) :
    lo < f0 + (x - x0) * ((f1 - f0) / (x1 - x0)) := by
  have hd : 0 < x1 - x0 := by linarith
  have : f0 + (x - x0) * ((f1 - f0) / (x1 - x0)) = (f0 * (x1 - x) + f1 * (x - x0)) / (x1 - x0) := by
    field_simp
    ring
  rw [this, lt_div_iff₀ hd]
  have a1 : 0 < x1 - x := by linarith
  have a2 : 0 < x - x0 := by linarith
  nlinarith [mul_pos (sub_pos.mpr hf0) a1, mul_pos (sub_pos.mpr hf1) a2]

/-- `interp` never goes below the smallest table value -/
theorem interp_ge (x lo : Rat) : ∀ (xp fp : List Rat), xp ≠ [] → fp ≠ [] → (∀ f ∈ fp, lo ≤ f) →
    lo ≤ interp x xp fp
  | [], _, h, _, _ => absurd rfl h
  | _ :: _, [], _, h, _ => absurd rfl h
  | [_], f :: _, _, _, hf => by simp only [interp]; exact hf f List.mem_cons_self
  | x0 :: x1 :: xs, f0 :: fs, _, _, hf => by
    simp only [interp]
    split
    · exact hf f0 List.mem_cons_self
    · next hx0 =>
      cases fs with
      | nil => exact hf f0 List.mem_cons_self
      | cons f1 fs' =>
        simp only
        split
        · next hx1 =>
          exact lin_ge (not_le.mp hx0) hx1 (hf f0 List.mem_cons_self)
            (hf f1 (List.mem_cons_of_mem _ List.mem_cons_self))
        · exact interp_ge x lo (x1 :: xs) (f1 :: fs') (by simp) (by simp)
            (fun f hm => hf f (List.mem_cons_of_mem _ hm))

theorem interp_gt (x lo : Rat) : ∀ (xp fp : List Rat), xp ≠ [] → fp ≠ [] → (∀ f ∈ fp, lo < f) →
    lo < interp x xp fp
  | [], _, h, _, _ => absurd rfl h
  | _ :: _, [], _, h, _ => absurd rfl h
  | [_], f :: _, _, _, hf => by simp only [interp]; exact hf f List.mem_cons_self
  | x0 :: x1 :: xs, f0 :: fs, _, _, hf => by
    simp only [interp]
    split
    · exact hf f0 List.mem_cons_self
    · next hx0 =>
      cases fs with
      | nil => exact hf f0 List.mem_cons_self
      | cons f1 fs' =>
        simp only
        split
        · next hx1 =>
          exact lin_gt (not_le.mp hx0) hx1 (hf f0 List.mem_cons_self)
            (hf f1 (List.mem_cons_of_mem _ List.mem_cons_self))
        · exact interp_gt x lo (x1 :: xs) (f1 :: fs') (by simp) (by simp)
            (fun f hm => hf f (List.mem_cons_of_mem _ hm))

/-- what the loaders guarantee about a mechatronics definition -/
structure Mech.Valid (m : Mech) : Prop where
  cap : 0 < m.capacity
  idle : 0 < m.idleRate
  speedConv : 0 < m.speedConv
  distConv : 0 < m.distConv
  energyConv : 0 < m.energyConv
  ptSpeed : m.ptSpeed ≠ []
  ptEnergy : m.ptEnergy ≠ []
  ptPos : ∀ f ∈ m.ptEnergy, 0 < f
  thr0 : 0 ≤ m.fullThreshold
  thr1 : m.fullThreshold ≤ m.capacity
  pcEnergy : m.kind = .bev → m.pcEnergy ≠ []
  pcRate : m.kind = .bev → m.pcRate ≠ []
  pcNonneg : ∀ f ∈ m.pcRate, 0 ≤ f

namespace Mech

/-! ### spending -/

theorem spend_level_nonneg (e : Energy) (used : Rat) : 0 ≤ (spend e used).level := by
  unfold spend; exact le_max_left _ _

theorem spend_level_le (e : Energy) {used : Rat} (hu : 0 ≤ used) (h0 : 0 ≤ e.level) :
    (spend e used).level ≤ e.level := by
  unfold spend
  simp only
  exact max_le h0 (by linarith)

/-- the ledger: the amount removed from the level is the amount booked as expended -/
theorem spend_ledger (e : Energy) (used : Rat) :
    (spend e used).level - (spend e used).gained + (spend e used).expended
      = e.level - e.gained + e.expended := by
  unfold spend; simp only; ring

theorem spend_expended_mono (e : Energy) {used : Rat} (hu : 0 ≤ used) (h0 : 0 ≤ e.level) :
    e.expended ≤ (spend e used).expended := by
  unfold spend
  simp only
  have : max 0 (e.level - used) ≤ e.level := max_le h0 (by linarith)
  linarith

/-- a positive demand on a non-empty store expends a strictly positive amount -/
theorem spend_pos (e : Energy) {used : Rat} (hu : 0 < used) (h0 : 0 < e.level) :
    e.expended < (spend e used).expended := by
  unfold spend
  simp only
  have : max 0 (e.level - used) < e.level := max_lt h0 (by linarith)
  linarith

theorem spend_gained (e : Energy) (used : Rat) : (spend e used).gained = e.gained := rfl

/-! ### consumption of a route / idling -/

theorem linkCost_pos {m : Mech} (hm : m.Valid) {l : Link} (hd : 0 < l.dist) : 0 < m.linkCost l := by
  unfold linkCost
  have := interp_gt (l.speed * m.speedConv) 0 m.ptSpeed m.ptEnergy hm.ptSpeed hm.ptEnergy hm.ptPos
  have h2 : 0 < l.dist * m.distConv := mul_pos hd hm.distConv
  exact mul_pos this h2

theorem linkCost_nonneg {m : Mech} (hm : m.Valid) {l : Link} (hd : 0 ≤ l.dist) : 0 ≤ m.linkCost l := by
  unfold linkCost
  have := interp_gt (l.speed * m.speedConv) 0 m.ptSpeed m.ptEnergy hm.ptSpeed hm.ptEnergy hm.ptPos
  have h2 : 0 ≤ l.dist * m.distConv := mul_nonneg hd (le_of_lt hm.distConv)
  exact mul_nonneg (le_of_lt this) h2

theorem foldl_cost_ge {m : Mech} (hm : m.Valid) : ∀ (r : Route) (z : Rat), (∀ l ∈ r, 0 ≤ l.dist) →
    z ≤ r.foldl (fun acc l => acc + m.linkCost l) z
  | [], z, _ => le_refl z
  | l :: ls, z, hr => by
    simp only [List.foldl_cons]
    have h1 := linkCost_nonneg hm (hr l List.mem_cons_self)
    have h2 := foldl_cost_ge hm ls (z + m.linkCost l) (fun x hx => hr x (List.mem_cons_of_mem _ hx))
    linarith

/-- a route with a link of positive length costs a strictly positive amount -/
theorem energyCost_pos {m : Mech} (hm : m.Valid) {r : Route} (hr : ∀ l ∈ r, 0 ≤ l.dist)
    (hpos : ∃ l ∈ r, 0 < l.dist) : 0 < m.energyCost r := by
  unfold energyCost
  apply mul_pos _ hm.energyConv
  obtain ⟨l, hl, hld⟩ := hpos
  have gen : ∀ (r : Route) (z : Rat), (∀ x ∈ r, 0 ≤ x.dist) → l ∈ r →
      z < r.foldl (fun acc x => acc + m.linkCost x) z := by
    intro r
    induction r with
    | nil => intro z _ hm'; cases hm'
    | cons x xs ih =>
      intro z hr' hm'
      simp only [List.foldl_cons]
      rcases List.mem_cons.mp hm' with rfl | hm''
      · have h1 := linkCost_pos hm hld
        have h2 := foldl_cost_ge hm xs (z + m.linkCost l) (fun y hy => hr' y (List.mem_cons_of_mem _ hy))
        linarith
      · have h1 := linkCost_nonneg hm (hr' x List.mem_cons_self)
        have h2 := ih (z + m.linkCost x) (fun y hy => hr' y (List.mem_cons_of_mem _ hy)) hm''
        linarith
  exact gen r 0 hr hl

theorem energyCost_nonneg {m : Mech} (hm : m.Valid) {r : Route} (hr : ∀ l ∈ r, 0 ≤ l.dist) :
    0 ≤ m.energyCost r := by
  unfold energyCost
  exact mul_nonneg (foldl_cost_ge hm r 0 hr) (le_of_lt hm.energyConv)

theorem idle_demand_pos {m : Mech} (hm : m.Valid) {dt : Nat} (hdt : 0 < dt) :
    0 < m.idleRate * dt * (1 / 3600) := by
  have : (0 : Rat) < dt := by exact_mod_cast hdt
  have := hm.idle
  positivity

/-! ### charging -/

/-- the power-curve loop never lowers the level and adds at most `power · (time left) / 3600` -/
theorem pcCharge_spec {m : Mech} (hm : m.Valid) (hb : m.kind = .bev) {full power : Rat} (hp : 0 ≤ power)
    (duration : Nat) : ∀ (fuel t : Nat) (e : Rat), t ≤ duration →
      e ≤ pcCharge m full power duration fuel t e ∧
      pcCharge m full power duration fuel t e ≤ e + power * ((duration - t : Nat) * (1 / 3600))
  | 0, t, e, _ => by
    simp only [pcCharge]
    refine ⟨le_refl e, ?_⟩
    have : (0 : Rat) ≤ ((duration - t : Nat) : Rat) := by positivity
    nlinarith
  | fuel + 1, t, e, ht => by
    simp only [pcCharge]
    split
    · next hcond =>
      have hrate : 0 ≤ interp e m.pcEnergy m.pcRate :=
        interp_ge e 0 m.pcEnergy m.pcRate (hm.pcEnergy hb) (hm.pcRate hb) hm.pcNonneg
      have hpmin : 0 ≤ min (interp e m.pcEnergy m.pcRate) power := le_min hrate hp
      have hpmax : min (interp e m.pcEnergy m.pcRate) power ≤ power := min_le_right _ _
      set step : Nat := min m.pcStep (duration - t) with hstep
      have hstepLe : step ≤ duration - t := Nat.min_le_right _ _
      have ht' : t + step ≤ duration := by omega
      obtain ⟨ih1, ih2⟩ := pcCharge_spec hm hb (full := full) hp duration fuel (t + step)
        (e + min (interp e m.pcEnergy m.pcRate) power * (step * (1 / 3600))) ht'
      have hs0 : (0 : Rat) ≤ (step : Rat) := by positivity
      have hinc : 0 ≤ min (interp e m.pcEnergy m.pcRate) power * ((step : Rat) * (1 / 3600)) := by positivity
      refine ⟨by linarith, ?_⟩
      have hcast : ((duration - (t + step) : Nat) : Rat) = ((duration - t : Nat) : Rat) - (step : Rat) := by
        have : duration - (t + step) = (duration - t) - step := by omega
        rw [this, Nat.cast_sub hstepLe]
      rw [hcast] at ih2
      have hle : min (interp e m.pcEnergy m.pcRate) power * ((step : Rat) * (1 / 3600))
          ≤ power * ((step : Rat) * (1 / 3600)) := by
        apply mul_le_mul_of_nonneg_right hpmax
        positivity
      nlinarith
    · refine ⟨le_refl e, ?_⟩
      have : (0 : Rat) ≤ ((duration - t : Nat) : Rat) := by positivity
      nlinarith

theorem addEnergy_ledger (m : Mech) (e : Energy) (el : Bool) (rate : Rat) (dt : Nat) :
    (m.addEnergy e el rate dt).level - (m.addEnergy e el rate dt).gained + (m.addEnergy e el rate dt).expended
      = e.level - e.gained + e.expended := by
  unfold addEnergy
  split
  · rfl
  · simp only; ring

theorem addEnergy_gained (m : Mech) (e : Energy) (el : Bool) (rate : Rat) (dt : Nat) :
    (m.addEnergy e el rate dt).gained = e.gained + ((m.addEnergy e el rate dt).level - e.level) := by
  unfold addEnergy
  split
  · simp
  · rfl

theorem addEnergy_expended (m : Mech) (e : Energy) (el : Bool) (rate : Rat) (dt : Nat) :
    (m.addEnergy e el rate dt).expended = e.expended := by
  unfold addEnergy
  split <;> rfl

theorem addEnergy_le_cap (m : Mech) (e : Energy) (el : Bool) (rate : Rat) (dt : Nat) (hc : e.level ≤ m.capacity) :
    (m.addEnergy e el rate dt).level ≤ m.capacity := by
  unfold addEnergy
  split
  · exact hc
  · simp only
    split
    · exact min_le_left _ _
    · split
      · exact min_le_left _ _
      · exact min_le_left _ _

/-- charging never lowers the level and adds no more than the plug delivers in the step
    (kW · s / 3600 for electric plugs, gal/s · s for pumps) -/
theorem addEnergy_spec {m : Mech} (hm : m.Valid) (e : Energy) (el : Bool) {rate : Rat} (hr : 0 ≤ rate) (dt : Nat)
    (hc : e.level ≤ m.capacity) :
    e.level ≤ (m.addEnergy e el rate dt).level ∧
    (m.addEnergy e el rate dt).level - e.level ≤
      (match m.kind with | .bev => rate * dt * (1 / 3600) | .ice => rate * dt) := by
  have hdt : (0 : Rat) ≤ (dt : Rat) := by positivity
  unfold addEnergy
  split
  · refine ⟨le_refl _, ?_⟩
    cases m.kind <;> simp only <;> nlinarith
  · simp only
    cases hk : m.kind with
    | ice =>
      simp only
      have hadd : 0 ≤ rate * dt := mul_nonneg hr hdt
      refine ⟨le_min hc (by linarith), ?_⟩
      have := min_le_right m.capacity (e.level + rate * dt)
      linarith
    | bev =>
      simp only
      split
      · have hadd : 0 ≤ rate * dt * (1 / 3600) := by positivity
        refine ⟨le_min hc (by linarith), ?_⟩
        have := min_le_right m.capacity (e.level + rate * dt * (1 / 3600))
        linarith
      · obtain ⟨h1, h2⟩ := pcCharge_spec hm hk (full := m.capacity - m.fullThreshold) hr dt (m.pcFuel dt) 0
          e.level (Nat.zero_le _)
        refine ⟨le_min hc h1, ?_⟩
        have := min_le_right m.capacity
          (pcCharge m (m.capacity - m.fullThreshold) rate dt (m.pcFuel dt) 0 e.level)
        simp only [Nat.sub_zero] at h2
        nlinarith

end Mech
end Hive
