/-
  Proofs.C07 — a vehicle's activity is consistent with where it is: `inv07` is an invariant of
  runs for every environment whose router returns connected routes and whose traversal function
  satisfies `TraverseSpec` (proved for the concrete `traverse` in Proofs/Traverse.lean).
-/
import Proofs.C10
import Proofs.Traverse

namespace Hive
variable {env : Env}

/-- the two facts about geometry the location invariant needs -/
structure GeoSpec (env : Env) : Prop where
  route_connected : ∀ p q, connected (env.route p q) = true
  traverse : ∀ dt, 0 < dt → TraverseSpec env.traverse dt

/-- `locOk` together with a positive step length (constant along a run) -/
def locOk' (s : Sim) (veh : Vehicle) : Bool := locOk s veh && decide (0 < s.dt)

theorem routeToward_weaken {v : Vehicle} {r : Route} {c : Cell} (h : routeToward v r (some c) = true) :
    routeToward v r none = true := by
  unfold routeToward at *
  cases r with
  | nil => rfl
  | cons f rest => simp only [Bool.and_eq_true] at h ⊢; exact ⟨h.1, trivial⟩

theorem routeToward_congr {v v' : Vehicle} (h : v'.pos = v.pos) (r : Route) (t : Option Cell) :
    routeToward v' r t = routeToward v r t := by
  unfold routeToward; rw [h]

theorem locOk_congr {s : Sim} {v v' : Vehicle} (hp : v'.pos = v.pos) (ha : v'.act = v.act) :
    locOk s v' = locOk s v := by
  unfold locOk
  rw [ha]
  cases v.act <;> simp only [hp, routeToward_congr hp]

/-- a route validated by `route_cooresponds_with_entities` against both ends, and connected -/
theorem routeToward_of_routeOk {v : Vehicle} {r : Route} {src dst : Pos} (hsrc : v.pos = src)
    (hok : routeOk r src (some dst) = true) (hcon : connected r = true) :
    routeToward v r (some dst.cell) = true := by
  unfold routeOk at hok
  unfold routeToward
  cases r with
  | nil =>
    simp only at hok ⊢
    have : src = dst := by simpa using hok
    rw [hsrc, this]; simp
  | cons f rest =>
    simp only [Bool.and_eq_true, beq_iff_eq] at hok ⊢
    exact ⟨⟨by rw [hsrc]; exact hok.1, hcon⟩, hok.2⟩

theorem routeToward_of_routeOk_none {v : Vehicle} {r : Route} {src : Pos} (hsrc : v.pos = src)
    (hok : routeOk r src none = true) (hcon : connected r = true) :
    routeToward v r none = true := by
  unfold routeOk at hok
  unfold routeToward
  cases r with
  | nil => rfl
  | cons f rest =>
    simp only [Bool.and_eq_true, beq_iff_eq] at hok ⊢
    exact ⟨⟨by rw [hsrc]; exact hok, hcon⟩, trivial⟩

/-- the route was emptied because nothing could be driven: the vehicle is at the target -/
theorem routeToward_emptied {dt : Nat} (spec : TraverseSpec env.traverse dt) {old new : Vehicle} {route : Route}
    {tr : Traversal} {tgt : Option Cell} (hpos : new.pos = old.pos)
    (htr : env.traverse route dt = .ok tr) (hemp : tr.experienced = [])
    (hold : routeToward old route tgt = true) : routeToward new [] tgt = true := by
  cases tgt with
  | none => rfl
  | some c =>
    unfold routeToward at hold ⊢
    simp only
    rw [hpos]
    cases route with
    | nil => exact hold
    | cons f rest =>
      simp only [Bool.and_eq_true, beq_iff_eq] at hold
      rcases spec.empty (f :: rest) tr hold.1.2 htr hemp with h | ⟨first, hf, hl⟩
      · cases h
      · simp only [List.head?_cons, Option.some.injEq] at hf
        subst hf
        rw [hl] at hold
        have := hold.2
        simp only [Option.some.injEq] at this
        simp [← this, hold.1.1]

/-- the vehicle moved to the end of the last driven link and keeps the remaining route -/
theorem routeToward_moved {dt : Nat} (spec : TraverseSpec env.traverse dt) {old new : Vehicle} {route : Route}
    {tr : Traversal} {last : Link} {tgt : Option Cell} (hpos : new.pos = ⟨last.id, last.stop⟩)
    (htr : env.traverse route dt = .ok tr) (hlast : tr.experienced.getLast? = some last)
    (hold : routeToward old route tgt = true) : routeToward new tr.remaining tgt = true := by
  have hcon : connected route = true := by
    unfold routeToward at hold
    cases route with
    | nil => rfl
    | cons f rest => simp only [Bool.and_eq_true] at hold; exact hold.1.2
  obtain ⟨hc, hnil, hcons⟩ := spec.junction route tr last hcon htr hlast
  have htgt : ∀ c, tgt = some c → route ≠ [] → route.getLast?.map (·.stop) = some c := by
    intro c hc' hne
    unfold routeToward at hold
    cases route with
    | nil => exact absurd rfl hne
    | cons f rest =>
      rw [hc'] at hold
      simp only [Bool.and_eq_true, beq_iff_eq] at hold
      exact hold.2
  have hne : route ≠ [] := by
    intro h0
    subst h0
    have := spec.junction [] tr last rfl htr hlast
    -- an empty route is never driven: `remaining = []` would give `none = some _`
    cases hr : tr.remaining with
    | nil => have := this.2.1 hr; simp at this
    | cons f rest => have := (this.2.2 f rest hr).2; rw [hr] at this; simp at this
  unfold routeToward
  cases hr : tr.remaining with
  | nil =>
    cases tgt with
    | none => rfl
    | some c =>
      simp only [hpos]
      have h1 := hnil hr
      rw [htgt c rfl hne] at h1
      simpa using h1.symm
  | cons f rest =>
    obtain ⟨hs, hl⟩ := hcons f rest hr
    simp only [Bool.and_eq_true, beq_iff_eq, hpos]
    refine ⟨⟨hs, by rw [← hr]; exact hc⟩, ?_⟩
    cases tgt with
    | none => trivial
    | some c =>
      simp only
      rw [← hr, hl, htgt c rfl hne]
      simp

end Hive

namespace Hive
variable {env : Env}

/-- the default terminal state either has no route, or is the `ServicingTrip` built from the
    request found in the sim at the vehicle's own cell -/
theorem defaultNext_spec {s : Sim} {v : VehicleId} {a next : Act} (h : defaultNext env s v a = .ok next) :
    next.route? = none ∨
    ∃ rid r0 req veh, a = .dispatchTrip rid r0 ∧ s.request? rid = some req ∧ s.vehicle? v = some veh ∧
      req.pos.cell = veh.pos.cell ∧ next = .servicingTrip req s.time (env.route req.pos req.dest) := by
  cases a <;> simp only [defaultNext] at h
  case idle | repositioning | outOfService | reserveBase | chargingStation | chargingBase | servicingTrip =>
    cases h; exact Or.inl rfl
  case chargeQueueing sid cid t =>
    split at h
    · cases h
    · cases h
    · split at h
      · cases h
      · split at h
        · cases h; exact Or.inl rfl
        · cases h; exact Or.inl rfl
  case dispatchStation sid cid r =>
    split at h
    · cases h
    · cases h
    · split at h
      · cases h
      · split at h
        · cases h; exact Or.inl rfl
        · cases h; exact Or.inl rfl
  case dispatchBase b r =>
    split at h
    · cases h
    · cases h
    · split at h
      · cases h
      · split at h
        · cases h; exact Or.inl rfl
        · cases h; exact Or.inl rfl
  case dispatchTrip rid r =>
    split at h
    · cases h
    · next veh hveh =>
      split at h
      · cases h; exact Or.inl rfl
      · next req hreq =>
        split at h
        · cases h
        · next hc =>
          split at h
          · cases h; exact Or.inl rfl
          · cases h
            exact Or.inr ⟨rid, r, req, veh, rfl, hreq, hveh, by simpa using hc, rfl⟩
  case servicingPooling | dispatchPooling => cases h

theorem plannable_connected (hg : GeoSpec env) {s : Sim} {v : VehicleId} {prev next : Act}
    (h : Plannable env s v prev next) : ∀ r, next.route? = some r → connected r = true := by
  intro r hr
  rcases h with ⟨_, hw⟩ | hd
  · obtain ⟨p, q, rfl⟩ := hw r hr
    exact hg.route_connected p q
  · rcases defaultNext_spec hd with hn | ⟨_, _, req, _, _, _, _, _, rfl⟩
    · rw [hn] at hr; cases hr
    · simp only [Act.route?, Option.some.injEq] at hr
      subst hr
      exact hg.route_connected _ _

theorem locOk'_mono {v : VehicleId} {s s' : Sim} (hfr : Frame v s s') (veh : Vehicle)
    (h : locOk' s veh = true) : locOk' s' veh = true := by
  unfold locOk' at *
  simp only [Bool.and_eq_true, decide_eq_true_eq] at h ⊢
  refine ⟨?_, by rw [hfr.dt]; exact h.2⟩
  have h := h.1
  unfold locOk at *
  cases hact : veh.act <;> rw [hact] at h <;> simp only at h ⊢
  case chargingStation sid cid | chargeQueueing sid cid t =>
    cases hs : s.station? sid with
    | none => rw [hs] at h; cases h
    | some st =>
      obtain ⟨st', hs', _, hp⟩ := stn_forward hfr hs
      rw [hs] at h
      simp only [hs', hp] at h ⊢
      exact h
  case reserveBase b | chargingBase b cid =>
    cases hs : s.base? b with
    | none => rw [hs] at h; cases h
    | some b0 =>
      obtain ⟨b', hs', _, hp, _⟩ := base_forward hfr hs
      rw [hs] at h
      simp only [hs', hp] at h ⊢
      exact h
  case dispatchStation sid cid r =>
    cases hs' : s'.station? sid with
    | none => cases hs : s.station? sid with
      | none => rw [hs] at h; simpa using h
      | some st => rw [hs] at h; exact routeToward_weaken h
    | some st' =>
      obtain ⟨st, hs, _, hp⟩ := stn_members_of_frame hfr hs'
      rw [hs] at h
      simp only [Option.map_some] at h ⊢
      rw [← hp]; exact h
  case dispatchBase b r =>
    cases hs' : s'.base? b with
    | none => cases hs : s.base? b with
      | none => rw [hs] at h; simpa using h
      | some st => rw [hs] at h; exact routeToward_weaken h
    | some b' =>
      obtain ⟨b0, hs, _, hp, _⟩ := base_static_of_frame hfr hs'
      rw [hs] at h
      simp only [Option.map_some] at h ⊢
      rw [← hp]; exact h
  case dispatchTrip rid r =>
    cases hs' : s'.request? rid with
    | none => cases hs : s.request? rid with
      | none => rw [hs] at h; simpa using h
      | some st => rw [hs] at h; exact routeToward_weaken h
    | some r' =>
      obtain ⟨r0, hs, _, hp, _⟩ := req_static_of_frame hfr hs'
      rw [hs] at h
      simp only [Option.map_some] at h ⊢
      rw [← hp]; exact h
  all_goals exact h

end Hive

namespace Hive
variable {env : Env}

theorem locOk_enter (hg : GeoSpec env) {v : VehicleId} {s s1 s2 : Sim} {old veh' : Vehicle} {next : Act}
    (f1 : Frame v s s1) (f2 : Frame v s1 s2) (hveh : s.vehicle? v = some old)
    (hpl : Plannable env s v old.act next) (hpos : veh'.pos = old.pos)
    (hpost : EnterPost s1 old next veh'.act) : locOk s2 veh' = true := by
  have hcon := plannable_connected hg hpl
  unfold locOk
  cases next <;> simp only [EnterPost] at hpost
  case idle d => rw [hpost]
  case outOfService => rw [hpost]
  case repositioning r =>
    rw [hpost.1]
    exact routeToward_of_routeOk_none hpos hpost.2 (hcon r rfl)
  case reserveBase b =>
    obtain ⟨ha, base, hb, hc, _⟩ := hpost
    rw [ha]
    obtain ⟨b', hb', _, hp, _⟩ := base_forward f2 hb
    simp only [hb', hp, hpos, hc, beq_self_eq_true]
  case chargingStation sid cid =>
    obtain ⟨ha, st, hs, hc, _⟩ := hpost
    rw [ha]
    obtain ⟨st', hs', _, hp⟩ := stn_forward f2 hs
    simp only [hs', hp, hpos, hc, beq_self_eq_true]
  case chargeQueueing sid cid t =>
    obtain ⟨ha, st, hs, hc, _⟩ := hpost
    rw [ha]
    obtain ⟨st', hs', _, hp⟩ := stn_forward f2 hs
    simp only [hs', hp, hpos, hc, beq_self_eq_true]
  case chargingBase b cid =>
    obtain ⟨ha, base, sid, st, hb, _, _, hc, _⟩ := hpost
    rw [ha]
    obtain ⟨b', hb', _, hp, _⟩ := base_forward f2 hb
    simp only [hb', hp, hpos, hc, beq_self_eq_true]
  case dispatchStation sid cid r =>
    obtain ⟨st, hs, _, hcase⟩ := hpost
    obtain ⟨st', hs', _, hp⟩ := stn_forward f2 hs
    rcases hcase with ⟨ha, hc, _⟩ | ⟨ha, hr, _⟩
    · rw [ha]; simp only [hs', hp, hpos, hc, beq_self_eq_true]
    · rw [ha]
      simp only [hs', Option.map_some, hp]
      exact routeToward_of_routeOk hpos hr (hcon r rfl)
  case dispatchBase b r =>
    obtain ⟨ha, base, hb, hr, _⟩ := hpost
    rw [ha]
    obtain ⟨b', hb', _, hp, _⟩ := base_forward f2 hb
    simp only [hb', Option.map_some, hp]
    exact routeToward_of_routeOk hpos hr (hcon r rfl)
  case dispatchTrip rid r =>
    obtain ⟨ha, req, hreq, hr, _⟩ := hpost
    rw [ha]
    simp only
    have hrt := routeToward_of_routeOk hpos hr (hcon r rfl)
    cases hr2 : s2.request? rid with
    | none => exact routeToward_weaken hrt
    | some r' =>
      obtain ⟨r0, hr0, _, hp0, _⟩ := req_static_of_frame f2 hr2
      rw [hreq] at hr0; cases hr0
      simp only [Option.map_some, ← hp0]
      exact hrt
  case servicingTrip sreq dep r =>
    obtain ⟨ha, req, hreq, hr1, hr2, _, _⟩ := hpost
    rw [ha]
    simp only
    -- only the default transition of DispatchTrip builds a ServicingTrip: payload = the sim's request
    rcases hpl with ⟨hns, _⟩ | hd
    · simp [Act.notServicing] at hns
    · rcases defaultNext_spec hd with hn | ⟨rid, r0, req0, veh0, _, hreq0, hveh0, hcell, hnext⟩
      · simp [Act.route?] at hn
      · cases hnext
        rw [hveh] at hveh0; cases hveh0
        -- the request in `s1` (after exit) has the same origin/destination as the one in `s`
        obtain ⟨ra, hra, _, hpa, hda⟩ := req_static_of_frame f1 hreq
        rw [(request?_some hreq0).2, hreq0] at hra; cases hra
        have hcon' := hg.route_connected sreq.pos sreq.dest
        rw [← hpa, ← hda] at hr1
        have := routeToward_of_routeOk (v := { veh' with pos := sreq.pos }) rfl hr1 hcon'
        -- the vehicle stands at the request's origin cell
        unfold routeToward at this ⊢
        cases hroute : env.route sreq.pos sreq.dest with
        | nil =>
          rw [hroute] at this
          simp only at this ⊢
          rw [hpos, ← hcell]; exact this
        | cons f rest =>
          rw [hroute] at this
          simp only [Bool.and_eq_true, beq_iff_eq] at this ⊢
          exact ⟨⟨by rw [hpos, ← hcell]; exact this.1.1, this.1.2⟩, this.2⟩

theorem locOk_upd (hg : GeoSpec env) {v : VehicleId} {s s2 : Sim} {old new : Vehicle}
    (hfr : Frame v s s2) (hdt : 0 < s.dt) (hpost : UpdPost env s.dt old new)
    (h : locOk s old = true) : locOk s2 new = true := by
  have spec := hg.traverse s.dt hdt
  have hmono : ∀ veh, locOk s veh = true → locOk s2 veh = true := by
    intro veh hv
    have : locOk' s veh = true := by unfold locOk'; simp [hv, hdt]
    have := locOk'_mono hfr veh this
    unfold locOk' at this
    simp only [Bool.and_eq_true] at this
    exact this.1
  rcases hpost with ⟨hp, h1 | h1 | ⟨d, d', _, h1⟩ | ⟨route, tr, hroute, htr, hemp, h1⟩⟩ | ⟨route, tr, last, hroute, htr, hlast, hp, h1⟩
  · rw [locOk_congr hp h1]; exact hmono old h
  · unfold locOk; rw [h1]
  · unfold locOk; rw [h1]
  · -- route emptied
    have key : ∀ tgt, routeToward old route tgt = true → routeToward new [] tgt = true :=
      fun tgt ht => routeToward_emptied spec hp htr hemp ht
    have h2 := hmono old h
    unfold locOk at h2 ⊢
    rw [h1]
    cases hact : old.act <;> rw [hact] at hroute h2 <;> simp only [Act.route?, Option.some.injEq] at hroute <;>
      (try cases hroute) <;> simp only [Act.setRoute] at h2 ⊢ <;> first | exact key _ h2 | cases hroute
  · have key : ∀ tgt, routeToward old route tgt = true → routeToward new tr.remaining tgt = true :=
      fun tgt ht => routeToward_moved spec hp htr hlast ht
    have h2 := hmono old h
    unfold locOk at h2 ⊢
    rw [h1]
    cases hact : old.act <;> rw [hact] at hroute h2 <;> simp only [Act.route?, Option.some.injEq] at hroute <;>
      (try cases hroute) <;> simp only [Act.setRoute] at h2 ⊢ <;> first | exact key _ h2 | cases hroute

end Hive

namespace Hive
variable {env : Env}

theorem locOk_congr_lookups {s s' : Sim} {veh : Vehicle}
    (hs : ∀ i, s'.station? i = s.station? i) (hb : ∀ i, s'.base? i = s.base? i)
    (hr : ∀ rid route, veh.act = .dispatchTrip rid route → s'.request? rid = s.request? rid) :
    locOk s' veh = locOk s veh := by
  unfold locOk
  cases hact : veh.act <;> simp only [hs, hb]
  case dispatchTrip rid route => rw [hr rid route hact]

theorem locOk'_vehPred (hg : GeoSpec env) : VehPred env locOk' where
  mono hfr veh h := locOk'_mono hfr veh h
  enter := by
    intro v s s1 s2 old veh' next _ f1 f2 hveh hP hpl _ hpos hpost
    unfold locOk' at hP ⊢
    simp only [Bool.and_eq_true, decide_eq_true_eq] at hP ⊢
    exact ⟨locOk_enter hg f1 f2 hveh hpl hpos hpost, by rw [f2.dt, f1.dt]; exact hP.2⟩
  upd := by
    intro v s s2 old new _ hfr _ _ hpost hP
    unfold locOk' at hP ⊢
    simp only [Bool.and_eq_true, decide_eq_true_eq] at hP ⊢
    exact ⟨locOk_upd hg hfr hP.2 hpost hP.1, by rw [hfr.dt]; exact hP.2⟩
  applied s a veh := rfl
  tick s veh := rfl
  arrival := by
    intro s s' r hf hu h veh hm hv
    obtain ⟨_, hs, hb, _, hdt, _, hr, _⟩ := addRequest_fields hf h
    unfold locOk' at hv ⊢
    rw [hdt]
    rw [← hv]
    congr 1
    apply locOk_congr_lookups
    · intro i; simp [Sim.station?, hs]
    · intro i; simp [Sim.base?, hb]
    · intro rid route hact
      apply hr
      intro heq
      exact hu veh hm route (by rw [hact, heq])

end Hive
