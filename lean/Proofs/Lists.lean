/-
  Proofs.Lists — facts about id-keyed lists (`lookup`, `replaceById`, `removeById`, `upsert`)
  and about `Outcome`.
-/
import Hive.Basic

namespace Hive

namespace Outcome

@[simp] theorem bind_ok {α β : Type} (a : α) (f : α → Outcome β) : (ok a).bind f = f a := rfl
@[simp] theorem bind_rejected {α β : Type} (f : α → Outcome β) : (rejected : Outcome α).bind f = rejected := rfl
@[simp] theorem bind_error {α β : Type} (f : α → Outcome β) : (error : Outcome α).bind f = error := rfl

theorem bind_eq_ok {α β : Type} {x : Outcome α} {f : α → Outcome β} {b : β} :
    x.bind f = ok b ↔ ∃ a, x = ok a ∧ f a = ok b := by
  cases x <;> simp [bind]

end Outcome

section Keyed
variable {α : Type} {key : α → Nat}

theorem lookup_some {xs : List α} {i : Nat} {x : α} (h : lookup key xs i = some x) :
    x ∈ xs ∧ key x = i := by
  unfold lookup at h
  have h1 := List.mem_of_find?_eq_some h
  have h2 := List.find?_some h
  simp at h2
  exact ⟨h1, h2⟩

theorem lookup_none {xs : List α} {i : Nat} (h : lookup key xs i = none) :
    ∀ x ∈ xs, key x ≠ i := by
  unfold lookup at h
  intro x hx
  have := List.find?_eq_none.mp h x hx
  simpa using this

theorem lookup_of_mem {xs : List α} {x : α} (hn : (xs.map key).Nodup) (hx : x ∈ xs) :
    lookup key xs (key x) = some x := by
  induction xs with
  | nil => cases hx
  | cons y ys ih =>
    simp only [List.map_cons, List.nodup_cons] at hn
    unfold lookup
    simp only [List.find?_cons]
    by_cases hy : key y = key x
    · simp only [hy, beq_self_eq_true]
      rcases List.mem_cons.mp hx with rfl | hx'
      · rfl
      · exfalso
        apply hn.1
        rw [hy]
        exact List.mem_map_of_mem hx'
    · have : (key y == key x) = false := by simpa using hy
      simp only [this]
      rcases List.mem_cons.mp hx with rfl | hx'
      · exact absurd rfl hy
      · exact ih hn.2 hx'

@[simp] theorem map_key_replaceById (xs : List α) (x : α) :
    (replaceById key xs x).map key = xs.map key := by
  unfold replaceById
  rw [List.map_map]
  apply List.map_congr_left
  intro y _
  simp only [Function.comp]
  split
  · next h => simpa using (beq_iff_eq.mp h).symm
  · rfl

theorem mem_replaceById {xs : List α} {x y : α} (h : y ∈ replaceById key xs x) :
    y = x ∨ (y ∈ xs ∧ key y ≠ key x) := by
  unfold replaceById at h
  rcases List.mem_map.mp h with ⟨z, hz, rfl⟩
  split
  · left; rfl
  · next hne => right; exact ⟨hz, by simpa using hne⟩

theorem lookup_replaceById_ne (xs : List α) (x : α) {i : Nat} (h : i ≠ key x) :
    lookup key (replaceById key xs x) i = lookup key xs i := by
  unfold lookup replaceById
  induction xs with
  | nil => rfl
  | cons y ys ih =>
    simp only [List.map_cons, List.find?_cons]
    by_cases hy : key y = key x
    · have h1 : (key y == key x) = true := by simpa using hy
      have h2 : (key x == i) = false := by simpa using (Ne.symm h)
      have h3 : (key y == i) = false := by rw [hy]; exact h2
      simp only [h1, if_true, h2, h3]
      exact ih
    · have h1 : (key y == key x) = false := by simpa using hy
      simp only [h1]
      simp only [Bool.false_eq_true, if_false]
      cases hq : (key y == i)
      · exact ih
      · rfl

theorem lookup_replaceById_self {xs : List α} {x old : α} (h : lookup key xs (key x) = some old) :
    lookup key (replaceById key xs x) (key x) = some x := by
  unfold lookup replaceById at *
  induction xs with
  | nil => simp at h
  | cons y ys ih =>
    simp only [List.map_cons, List.find?_cons] at h ⊢
    by_cases hy : key y = key x
    · have h1 : (key y == key x) = true := by simpa using hy
      simp [h1]
    · have h1 : (key y == key x) = false := by simpa using hy
      simp only [h1] at h ⊢
      simp only [Bool.false_eq_true, if_false, h1]
      exact ih h

/-- the counting lemma: replacing the entity with key `key x` changes a count by the obvious ±1 -/
theorem countP_replaceById {xs : List α} {x old : α} (p : α → Bool)
    (hn : (xs.map key).Nodup) (h : lookup key xs (key x) = some old) :
    (replaceById key xs x).countP p + (if p old then 1 else 0)
      = xs.countP p + (if p x then 1 else 0) := by
  induction xs with
  | nil => simp [lookup] at h
  | cons y ys ih =>
    simp only [List.map_cons, List.nodup_cons] at hn
    have hrep : replaceById key (y :: ys) x
        = (if key y == key x then x else y) :: replaceById key ys x := by
      simp [replaceById]
    rw [hrep]
    by_cases hy : key y = key x
    · have h1 : (key y == key x) = true := by simpa using hy
      have hold : old = y := by
        unfold lookup at h
        simp only [List.find?_cons, h1] at h
        exact (Option.some.inj h).symm
      subst hold
      -- no other element of ys has this key: the tail is unchanged
      have htail : replaceById key ys x = ys := by
        unfold replaceById
        conv => rhs; rw [← List.map_id ys]
        apply List.map_congr_left
        intro z hz
        have : key z ≠ key x := by
          intro hzx
          apply hn.1
          rw [hy, ← hzx]
          exact List.mem_map_of_mem hz
        have : (key z == key x) = false := by simpa using this
        simp [this]
      rw [htail]
      simp only [h1, if_true, List.countP_cons]
      omega
    · have h1 : (key y == key x) = false := by simpa using hy
      have h' : lookup key ys (key x) = some old := by
        unfold lookup at h ⊢
        simpa only [List.find?_cons, h1] using h
      have := ih hn.2 h'
      simp only [h1, List.countP_cons]
      simp only [Bool.false_eq_true, if_false]
      omega

theorem nodup_removeById {xs : List α} (i : Nat) (hn : (xs.map key).Nodup) :
    ((removeById key xs i).map key).Nodup := by
  unfold removeById
  exact List.Nodup.sublist (List.Sublist.map key List.filter_sublist) hn

theorem lookup_removeById_ne (xs : List α) {i j : Nat} (h : j ≠ i) :
    lookup key (removeById key xs i) j = lookup key xs j := by
  unfold lookup removeById
  induction xs with
  | nil => rfl
  | cons y ys ih =>
    simp only [List.filter_cons, List.find?_cons]
    by_cases hy : key y = i
    · have h1 : (key y != i) = false := by simp [hy]
      have h2 : (key y == j) = false := by rw [hy]; simpa using (Ne.symm h)
      simp only [h1, h2]
      simp only [Bool.false_eq_true, if_false]
      exact ih
    · have h1 : (key y != i) = true := by simpa using hy
      simp only [h1, if_true, List.find?_cons]
      cases (key y == j)
      · exact ih
      · rfl

theorem lookup_removeById_self (xs : List α) (i : Nat) :
    lookup key (removeById key xs i) i = none := by
  unfold lookup removeById
  rw [List.find?_eq_none]
  intro x hx
  have := (List.mem_filter.mp hx).2
  simpa using this

theorem mem_removeById {xs : List α} {i : Nat} {x : α} (h : x ∈ removeById key xs i) :
    x ∈ xs ∧ key x ≠ i := by
  unfold removeById at h
  have := List.mem_filter.mp h
  exact ⟨this.1, by simpa using this.2⟩

end Keyed

end Hive

namespace Hive
section Keyed2
variable {α : Type} {key : α → Nat}

theorem replaceById_replaceById (xs : List α) {x y : α} (h : key x = key y) :
    replaceById key (replaceById key xs x) y = replaceById key xs y := by
  unfold replaceById
  rw [List.map_map]
  apply List.map_congr_left
  intro z _
  simp only [Function.comp]
  by_cases hz : key z = key x
  · have h1 : (key z == key x) = true := by simpa using hz
    have h2 : (key x == key y) = true := by simpa using h
    have h3 : (key z == key y) = true := by rw [hz]; exact h2
    simp [h1, h2, h3]
  · have h1 : (key z == key x) = false := by simpa using hz
    simp [h1]

/-- counts split into the entity with key `i` and all the others -/
theorem countP_split {xs : List α} {i : Nat} {x : α} (p : α → Bool)
    (hn : (xs.map key).Nodup) (h : lookup key xs i = some x) :
    xs.countP p = (xs.filter (fun y => key y != i)).countP p + (if p x then 1 else 0) := by
  induction xs with
  | nil => simp [lookup] at h
  | cons y ys ih =>
    simp only [List.map_cons, List.nodup_cons] at hn
    by_cases hy : key y = i
    · have h1 : (key y == i) = true := by simpa using hy
      have hx : x = y := by
        unfold lookup at h
        simp only [List.find?_cons, h1] at h
        exact (Option.some.inj h).symm
      subst hx
      have hf : (x :: ys).filter (fun y => key y != i) = ys := by
        simp only [List.filter_cons]
        have : (key x != i) = false := by simp [hy]
        simp only [this, Bool.false_eq_true, if_false]
        rw [List.filter_eq_self]
        intro z hz
        have : key z ≠ i := by
          intro hzi
          apply hn.1
          rw [hy, ← hzi]
          exact List.mem_map_of_mem hz
        simpa using this
      rw [hf, List.countP_cons]
    · have h1 : (key y == i) = false := by simpa using hy
      have h' : lookup key ys i = some x := by
        unfold lookup at h ⊢
        simpa only [List.find?_cons, h1] using h
      have hne : (key y != i) = true := by simpa using hy
      simp only [List.filter_cons, hne, if_true, List.countP_cons]
      rw [ih hn.2 h']
      omega

theorem countP_replace_split {xs : List α} {x old : α} (p : α → Bool)
    (hn : (xs.map key).Nodup) (h : lookup key xs (key x) = some old) :
    (replaceById key xs x).countP p
      = (xs.filter (fun y => key y != key x)).countP p + (if p x then 1 else 0) := by
  have h1 := countP_replaceById p hn h
  have h2 := countP_split p hn h
  omega

end Keyed2
end Hive
