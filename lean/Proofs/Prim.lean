/-
  Proofs.Prim — every function of the control model changes the state only through the five
  primitives `modifyVehicle / modifyRequest / removeRequest / modifyStation / modifyBase`.
  A predicate preserved by those is preserved by `exit`, `enter`, `transition`, `move`, `charge`,
  `_perform_update`, `default_update` (one walk, reused by C08 and by state-local invariants).
-/
import Proofs.Lift

namespace Hive
variable {env : Env}

structure PrimInv (env : Env) (I : Sim → Prop) : Prop where
  veh : ∀ {s s' : Sim} {v : Vehicle}, I s → s.modifyVehicle env v = .ok s' → I s'
  req : ∀ {s s' : Sim} {r : Request}, I s → s.modifyRequest env r = .ok s' → I s'
  rem : ∀ {s s' : Sim} {i : RequestId}, I s → s.removeRequest env i = .ok s' → I s'
  stn : ∀ {s s' : Sim} {st : Station}, I s → s.modifyStation env st = .ok s' → I s'
  base : ∀ {s s' : Sim} {b : Base}, I s → s.modifyBase env b = .ok s' → I s'

variable {I : Sim → Prop}

theorem prim_applyAct (hI : PrimInv env I) {s s2 : Sim} {v : VehicleId} {a : Act} (hi : I s)
    (h : applyAct env s v a = .ok s2) : I s2 := by
  unfold applyAct at h
  split at h
  · cases h
  · exact hI.veh hi h

theorem prim_exit (hI : PrimInv env I) {s s1 : Sim} {v : VehicleId} {a : Act} (hi : I s)
    (h : exit env s v a = .ok s1) : I s1 := by
  cases a <;> simp only [exit] at h
  case idle | repositioning | outOfService | dispatchStation | dispatchBase => cases h; exact hi
  case reserveBase b =>
    split at h
    · cases h
    · simp only [Outcome.bind_eq, Outcome.bind_eq_ok] at h
      obtain ⟨base', _, h2⟩ := h
      exact hI.base hi h2
  case chargingStation sid cid =>
    split at h
    · cases h
    · cases h
    · simp only [Outcome.bind_eq, Outcome.bind_eq_ok] at h
      obtain ⟨st', _, h2⟩ := h
      exact hI.stn hi h2
  case chargingBase b cid =>
    split at h
    · cases h
    · split at h
      · cases h
      · split at h
        · cases h
        · simp only [Outcome.bind_eq, Outcome.bind_eq_ok] at h
          obtain ⟨base', _, s2, h2, st', _, h4⟩ := h
          exact hI.stn (hI.base hi h2) h4
  case chargeQueueing sid cid t =>
    split at h
    · cases h
    · simp only [Outcome.bind_eq, Outcome.bind_eq_ok] at h
      obtain ⟨st', _, h2⟩ := h
      exact hI.stn hi h2
  case dispatchTrip rid r =>
    split at h
    · cases h; exact hi
    · exact hI.req hi h
  case servicingTrip req dep r =>
    split at h
    · cases h; exact hi
    · cases h
  case servicingPooling | dispatchPooling => cases h

theorem prim_pickUp (hI : PrimInv env I) {w w1 : World} {v : VehicleId} {rid : RequestId} (hi : I w.sim)
    (h : pickUpTrip env w v rid = .ok w1) : I w1.sim := by
  unfold pickUpTrip at h
  split at h
  · cases h
  · cases h
  · simp only [Outcome.bind_eq, Outcome.bind_eq_ok, Outcome.pure_eq] at h
    obtain ⟨s1, h1, s2, h2, h3⟩ := h
    cases h3
    exact hI.rem (hI.veh hi h1) h2

theorem prim_enter (hI : PrimInv env I) {w w2 : World} {v : VehicleId} {next : Act} (hi : I w.sim)
    (h : enter env w v next = .ok w2) : I w2.sim := by
  cases next <;> simp only [enter] at h
  case idle d =>
    simp only [Outcome.bind_eq, Outcome.bind_eq_ok, Outcome.pure_eq] at h
    obtain ⟨s2, h1, h2⟩ := h
    cases h2; exact prim_applyAct hI hi h1
  case outOfService =>
    simp only [Outcome.bind_eq, Outcome.bind_eq_ok, Outcome.pure_eq] at h
    obtain ⟨s2, h1, h2⟩ := h
    cases h2; exact prim_applyAct hI hi h1
  case repositioning route =>
    split at h
    · cases h
    · split at h
      · cases h
      · simp only [Outcome.bind_eq, Outcome.bind_eq_ok, Outcome.pure_eq] at h
        obtain ⟨s2, h1, h2⟩ := h
        cases h2; exact prim_applyAct hI hi h1
  case dispatchBase b route =>
    split at h
    · cases h
    · cases h
    · split at h
      · cases h
      · split at h
        · cases h
        · simp only [Outcome.bind_eq, Outcome.bind_eq_ok, Outcome.pure_eq] at h
          obtain ⟨s2, h1, h2⟩ := h
          cases h2; exact prim_applyAct hI hi h1
  case dispatchTrip rid route =>
    split at h
    · cases h
    · split at h
      · cases h
      · split at h
        · cases h
        · split at h
          · cases h
          · simp only [Outcome.bind_eq, Outcome.bind_eq_ok, Outcome.pure_eq] at h
            obtain ⟨s1, h0, s2, h1, h2⟩ := h
            cases h2
            exact prim_applyAct hI (hI.req hi h0) h1
  case servicingPooling => cases h
  case dispatchPooling => cases h
  case servicingTrip sreq dep route =>
    split at h
    · cases h
    · split at h
      · cases h
      · split at h
        · cases h
        · split at h
          · cases h
          · split at h
            · cases h
            · split at h
              · cases h
              · simp only [Outcome.bind_eq, Outcome.bind_eq_ok, Outcome.pure_eq] at h
                obtain ⟨w1, h0, s2, h1, h2⟩ := h
                cases h2
                exact prim_applyAct hI (prim_pickUp hI hi h0) h1
  case reserveBase b =>
    split at h
    · cases h
    · cases h
    · split at h
      · cases h
      · split at h
        · cases h
        · split at h
          · cases h
          · simp only [Outcome.bind_eq, Outcome.bind_eq_ok, Outcome.pure_eq] at h
            obtain ⟨s1, h0, s2, h1, h2⟩ := h
            cases h2
            exact prim_applyAct hI (hI.base hi h0) h1
  case chargingStation sid cid =>
    split at h
    · cases h
    · cases h
    · split at h
      · cases h
      · split at h
        · cases h
        · split at h
          · cases h
          · split at h
            · cases h
            · split at h
              · cases h
              · simp only [Outcome.bind_eq, Outcome.bind_eq_ok, Outcome.pure_eq] at h
                obtain ⟨st', hco, s1, h0, s2, h1, h2⟩ := h
                cases h2
                exact prim_applyAct hI (hI.stn hi h0) h1
  case dispatchStation sid cid route =>
    split at h
    · cases h
    · cases h
    · split at h
      · split at h
        · cases h
        · split at h
          · cases h
          · split at h
            · cases h
            · split at h
              · cases h
              · simp only [Outcome.bind_eq, Outcome.bind_eq_ok, Outcome.pure_eq] at h
                obtain ⟨st', hco, s1, h0, s2, h1, h2⟩ := h
                cases h2
                exact prim_applyAct hI (hI.stn hi h0) h1
      · split at h
        · cases h
        · split at h
          · cases h
          · simp only [Outcome.bind_eq, Outcome.bind_eq_ok, Outcome.pure_eq] at h
            obtain ⟨s2, h1, h2⟩ := h
            cases h2; exact prim_applyAct hI hi h1
  case chargeQueueing sid cid t =>
    split at h
    · cases h
    · cases h
    · split at h
      · cases h
      · split at h
        · cases h
        · split at h
          · cases h
          · split at h
            · cases h
            · simp only [Outcome.bind_eq, Outcome.bind_eq_ok, Outcome.pure_eq] at h
              obtain ⟨st', henq, s1, h0, s2, h1, h2⟩ := h
              cases h2
              exact prim_applyAct hI (hI.stn hi h0) h1
  case chargingBase b cid =>
    split at h
    · cases h
    · cases h
    · split at h
      · cases h
      · split at h
        · cases h
        · split at h
          · cases h
          · split at h
            · cases h
            · split at h
              · cases h
              · split at h
                · cases h
                · split at h
                  · cases h
                  · split at h
                    · cases h
                    · split at h
                      · cases h
                      · simp only [Outcome.bind_eq, Outcome.bind_eq_ok, Outcome.pure_eq] at h
                        obtain ⟨st', hco, s1, h0, s2, h1, s3, h2, h3⟩ := h
                        cases h3
                        exact prim_applyAct hI (hI.stn (hI.base hi h0) h1) h2

theorem prim_transition (hI : PrimInv env I) {w w2 : World} {v : VehicleId} {prev next : Act} (hi : I w.sim)
    (h : transition env w v prev next = .ok w2) : I w2.sim := by
  unfold transition at h
  simp only [Outcome.bind_eq, Outcome.bind_eq_ok] at h
  obtain ⟨s1, h1, h2⟩ := h
  exact prim_enter hI (w := { w with sim := s1 }) (prim_exit hI hi h1) h2

theorem prim_move (hI : PrimInv env I) {w w2 : World} {v : VehicleId} (hi : I w.sim)
    (h : move env w v = .ok w2) : I w2.sim := by
  unfold move at h
  split at h
  · cases h
  · split at h
    · cases h
    · split at h
      · cases h
      · simp only [Outcome.bind_eq, Outcome.bind_eq_ok, Outcome.pure_eq] at h
        obtain ⟨tr, _, h⟩ := h
        split at h
        · simp only [Outcome.bind_eq, Outcome.bind_eq_ok, Outcome.pure_eq] at h
          obtain ⟨s2, h1, h2⟩ := h
          cases h2; exact hI.veh hi h1
        · split at h
          · simp only [Outcome.bind_eq, Outcome.bind_eq_ok, Outcome.pure_eq] at h
            obtain ⟨s2, h1, h2⟩ := h
            cases h2
            split at h1
            · next s' hexit => exact prim_applyAct hI (prim_exit hI hi hexit) h1
            · exact prim_applyAct hI hi h1
          · split at h
            · cases h
            · simp only [Outcome.bind_eq, Outcome.bind_eq_ok, Outcome.pure_eq] at h
              obtain ⟨s2, h1, h2⟩ := h
              cases h2; exact hI.veh hi h1

theorem prim_charge (hI : PrimInv env I) {w w2 : World} {v : VehicleId} {sid : StationId} {cid : ChargerId}
    (hi : I w.sim) (h : charge env w v sid cid = .ok w2) : I w2.sim := by
  unfold charge at h
  split at h
  · cases h
  · split at h
    · cases h
    · split at h
      · cases h
      · split at h
        · cases h
        · split at h
          · cases h
          · simp only [Outcome.bind_eq, Outcome.bind_eq_ok, Outcome.pure_eq] at h
            obtain ⟨s1, h1, s2, h2, h3⟩ := h
            cases h3
            exact hI.stn (hI.veh hi h1) h2

theorem prim_performUpdate (hI : PrimInv env I) {w w2 : World} {v : VehicleId} {a : Act} (hi : I w.sim)
    (h : performUpdate env w v a = .ok w2) : I w2.sim := by
  cases a <;> simp only [performUpdate] at h
  case idle d =>
    split at h
    · cases h
    · split at h
      · cases h
      · simp only [Outcome.bind_eq, Outcome.bind_eq_ok, Outcome.pure_eq] at h
        obtain ⟨s2, h1, h2⟩ := h
        cases h2; exact hI.veh hi h1
  case outOfService | reserveBase => cases h; exact hi
  case repositioning | dispatchTrip | dispatchStation | dispatchBase => exact prim_move hI hi h
  case servicingTrip req dep r =>
    simp only [Outcome.bind_eq, Outcome.bind_eq_ok, Outcome.pure_eq] at h
    obtain ⟨w1, h1, h2⟩ := h
    have hm := prim_move hI hi h1
    split at h2
    · cases h2
    · split at h2
      · cases h2; exact hm
      · split at h2
        · have : w2.sim = w1.sim := by
            unfold dropOffTrip at h2
            split at h2
            · cases h2
            · split at h2
              · cases h2
              · cases h2; rfl
          rw [this]; exact hm
        · cases h2; exact hm
      · cases h2; exact hm
  case chargingStation sid cid => exact prim_charge hI hi h
  case chargingBase b cid =>
    split at h
    · cases h
    · exact prim_charge hI hi h
  case chargeQueueing sid cid t =>
    split at h
    · cases h
    · split at h
      · cases h
      · simp only [Outcome.bind_eq, Outcome.bind_eq_ok, Outcome.pure_eq] at h
        obtain ⟨s2, h1, h2⟩ := h
        cases h2; exact hI.veh hi h1
  case servicingPooling | dispatchPooling => cases h

theorem prim_defaultUpdate (hI : PrimInv env I) {w w2 : World} {v : VehicleId} {a : Act} (hi : I w.sim)
    (h : defaultUpdate env w v a = .ok w2) : I w2.sim := by
  unfold defaultUpdate at h
  split at h
  · simp only [Outcome.bind_eq, Outcome.bind_eq_ok] at h
    obtain ⟨next, _, w1, htr, h3⟩ := h
    have i1 := prim_transition hI hi htr
    split at h3
    · cases h3
    · exact prim_performUpdate hI i1 h3
  · exact prim_performUpdate hI hi h

/-- a primitive-preserved predicate that ignores `applied` is a step invariant -/
theorem prim_stepInv (hI : PrimInv env I)
    (happ : ∀ (s : Sim) (a : List (VehicleId × Instr)), I s → I { s with applied := a }) : StepInv env I where
  applied := happ
  transition _ hi _ _ h := prim_transition hI hi h
  update _ hi _ h := prim_defaultUpdate hI hi h

end Hive
