/-
  Proofs.Assign — a dual certificate proves a rectangular assignment minimal (C12).

  Rows are the smaller side (every row is matched), columns the larger one (each used at most
  once). Potentials `u` on rows and `v ≤ 0` on columns with `u i + v j ≤ c i j` everywhere,
  equality on the matched pairs and `v j = 0` on unmatched columns (complementary slackness of the
  assignment LP) bound every other complete matching from below by the matching's own cost.
-/
import Mathlib.Algebra.BigOperators.Group.Finset.Basic
import Mathlib.Algebra.Order.BigOperators.Group.Finset
import Mathlib.Tactic.Linarith
import Mathlib.Tactic.Ring

namespace Hive
namespace Assign

/-- total cost of a list of pairs -/
def cost (c : Nat → Nat → Int) (m : List (Nat × Nat)) : Int := (m.map fun p => c p.1 p.2).sum

theorem sum_map_add (m : List (Nat × Nat)) (f g : Nat × Nat → Int) :
    (m.map fun p => f p + g p).sum = (m.map f).sum + (m.map g).sum := by
  induction m with
  | nil => simp
  | cons p m ih => simp only [List.map_cons, List.sum_cons, ih]; ring

theorem sum_map_le (m : List (Nat × Nat)) (f g : Nat × Nat → Int) (h : ∀ p ∈ m, f p ≤ g p) :
    (m.map f).sum ≤ (m.map g).sum := by
  induction m with
  | nil => simp
  | cons p m ih =>
    simp only [List.map_cons, List.sum_cons]
    have h1 := h p List.mem_cons_self
    have h2 := ih fun q hq => h q (List.mem_cons_of_mem _ hq)
    linarith

/-- a complete matching of `rows` into `cols` -/
structure Complete (rows cols : List Nat) (m : List (Nat × Nat)) : Prop where
  rows : (m.map (·.1)).Perm rows
  colsNodup : (m.map (·.2)).Nodup
  colsSub : ∀ j ∈ m.map (·.2), j ∈ cols

/-- the certificate -/
structure Cert (rows cols : List Nat) (c : Nat → Nat → Int) (u v : Nat → Int) (m : List (Nat × Nat)) : Prop where
  feasible : ∀ i ∈ rows, ∀ j ∈ cols, u i + v j ≤ c i j
  nonpos : ∀ j ∈ cols, v j ≤ 0
  tight : ∀ p ∈ m, u p.1 + v p.2 = c p.1 p.2
  slack : ∀ j ∈ cols, j ∉ m.map (·.2) → v j = 0

theorem sum_rows (rows : List Nat) (m : List (Nat × Nat)) (u : Nat → Int) (h : (m.map (·.1)).Perm rows) :
    (m.map fun p => u p.1).sum = (rows.map u).sum := by
  have : (m.map fun p => u p.1) = (m.map (·.1)).map u := by simp [List.map_map, Function.comp_def]
  rw [this]
  exact (h.map u).sum_eq

theorem sum_cols_toFinset (m : List (Nat × Nat)) (v : Nat → Int) (h : (m.map (·.2)).Nodup) :
    (m.map fun p => v p.2).sum = (m.map (·.2)).toFinset.sum v := by
  have : (m.map fun p => v p.2) = (m.map (·.2)).map v := by simp [List.map_map, Function.comp_def]
  rw [this, List.sum_toFinset v h]

/-- **a certified complete matching is a minimum-cost complete matching** -/
theorem cert_optimal {rows cols : List Nat} (hc : cols.Nodup) {c : Nat → Nat → Int} {u v : Nat → Int}
    {m m' : List (Nat × Nat)} (hm : Complete rows cols m) (hcert : Cert rows cols c u v m)
    (hm' : Complete rows cols m') : cost c m ≤ cost c m' := by
  unfold cost
  -- the matching's cost is the dual objective
  have h1 : (m.map fun p => c p.1 p.2).sum = (rows.map u).sum + cols.toFinset.sum v := by
    have : (m.map fun p => c p.1 p.2) = m.map fun p => u p.1 + v p.2 :=
      List.map_congr_left fun p hp => (hcert.tight p hp).symm
    rw [this, sum_map_add m (fun p => u p.1) (fun p => v p.2), sum_rows rows m u hm.rows,
      sum_cols_toFinset m v hm.colsNodup]
    congr 1
    apply Finset.sum_subset
    · intro j hj
      exact List.mem_toFinset.mpr (hm.colsSub j (List.mem_toFinset.mp hj))
    · intro j hj hnot
      exact hcert.slack j (List.mem_toFinset.mp hj) fun h => hnot (List.mem_toFinset.mpr h)
  -- every other complete matching costs at least the dual objective
  have hmem' : ∀ p ∈ m', p.1 ∈ rows ∧ p.2 ∈ cols := by
    intro p hp
    exact ⟨hm'.rows.mem_iff.mp (List.mem_map.mpr ⟨p, hp, rfl⟩), hm'.colsSub _ (List.mem_map.mpr ⟨p, hp, rfl⟩)⟩
  have h2 : (rows.map u).sum + cols.toFinset.sum v ≤ (m'.map fun p => c p.1 p.2).sum := by
    have hle : (m'.map fun p => u p.1 + v p.2).sum ≤ (m'.map fun p => c p.1 p.2).sum :=
      sum_map_le m' _ _ fun p hp => hcert.feasible p.1 (hmem' p hp).1 p.2 (hmem' p hp).2
    rw [sum_map_add m' (fun p => u p.1) (fun p => v p.2), sum_rows rows m' u hm'.rows,
      sum_cols_toFinset m' v hm'.colsNodup] at hle
    have hsub : (m'.map (·.2)).toFinset ⊆ cols.toFinset := by
      intro j hj
      exact List.mem_toFinset.mpr (hm'.colsSub j (List.mem_toFinset.mp hj))
    have hneg : cols.toFinset.sum v ≤ (m'.map (·.2)).toFinset.sum v := by
      have := Finset.sum_le_sum_of_subset_of_nonneg (f := fun j => - v j) hsub
        (fun j hj _ => by have := hcert.nonpos j (List.mem_toFinset.mp hj); linarith)
      simp only [Finset.sum_neg_distrib] at this
      linarith
    linarith
  linarith

end Assign
end Hive
