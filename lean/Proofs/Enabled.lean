/-
  Proofs.Enabled — a queued vehicle's own update goes through (the enabledness behind C18): every
  step of `default_update` of a `ChargeQueueing` vehicle succeeds when the station and the plug type
  exist, the vehicle stands at the station, has access, can use the plug, its mechatronics are
  registered and the station's queue counter counts it.
-/
import Proofs.C18
import Proofs.Cosmetic
import Hive.Json

namespace Hive
variable {env : Env}

/-- the physics predicates look at the mechatronics and the energy of a vehicle only -/
structure EnvCongr (env : Env) : Prop where
  full : ∀ a b : Vehicle, a.mech = b.mech → a.en = b.en → env.isFull a = env.isFull b
  valid : ∀ (a : Vehicle) cs cs', plugStatic cs = plugStatic cs' → env.validCharger a cs = env.validCharger a cs'

theorem modifyVehicle_succeeds (hf : ∀ c, env.inFence c = true) {s : Sim} {old new : Vehicle}
    (hold : s.vehicle? new.id = some old) (hpos : new.pos.cell = old.pos.cell) :
    ∃ s', s.modifyVehicle env new = .ok s' := by
  unfold Sim.modifyVehicle
  rw [hold]
  simp only [hf, Bool.not_true, Bool.false_eq_true, if_false]
  unfold Index.move
  simp [hpos]

theorem modifyStation_succeeds (hf : ∀ c, env.inFence c = true) {s : Sim} {old new : Station}
    (hold : s.station? new.id = some old) (hpos : new.pos.cell = old.pos.cell) :
    ∃ s', s.modifyStation env new = .ok s' := by
  unfold Sim.modifyStation
  rw [hold]
  simp [hf, hpos]

theorem applyAct_succeeds (hf : ∀ c, env.inFence c = true) {s : Sim} {v : VehicleId} {veh : Vehicle} (a : Act)
    (hveh : s.vehicle? v = some veh) : ∃ s', applyAct env s v a = .ok s' := by
  unfold applyAct
  rw [hveh]
  exact modifyVehicle_succeeds hf (old := veh) (by simp only; rw [(vehicle?_some hveh).2]; exact hveh) rfl

theorem modifyVehicle_then (hf : ∀ c, env.inFence c = true) {β : Type} {s : Sim} {old new : Vehicle}
    (hold : s.vehicle? new.id = some old) (hpos : new.pos.cell = old.pos.cell) {f : Sim → Outcome β}
    (hk : ∀ s1, s.modifyVehicle env new = .ok s1 → ∃ b, f s1 = .ok b) :
    ∃ b, (s.modifyVehicle env new >>= f) = .ok b := by
  obtain ⟨s1, hs1⟩ := modifyVehicle_succeeds (env := env) hf hold hpos
  obtain ⟨b, hb⟩ := hk s1 hs1
  exact ⟨b, by rw [hs1]; exact hb⟩

theorem modifyStation_then (hf : ∀ c, env.inFence c = true) {β : Type} {s : Sim} {old new : Station}
    (hold : s.station? new.id = some old) (hpos : new.pos.cell = old.pos.cell) {f : Sim → Outcome β}
    (hk : ∀ s1, s.modifyStation env new = .ok s1 → ∃ b, f s1 = .ok b) :
    ∃ b, (s.modifyStation env new >>= f) = .ok b := by
  obtain ⟨s1, hs1⟩ := modifyStation_succeeds (env := env) hf hold hpos
  obtain ⟨b, hb⟩ := hk s1 hs1
  exact ⟨b, by rw [hs1]; exact hb⟩

theorem setPlug_plug? {st : Station} {cid : ChargerId} {cs cs' : ChargerState} (hcs : st.plug? cid = some cs)
    (hid : cs'.id = cid) : (st.setPlug cs').plug? cid = some cs' := by
  unfold Station.plug? Station.setPlug at *
  simp only
  have : lookup ChargerState.id st.plugs cs'.id = some cs := by rw [hid]; exact hcs
  have := lookup_replaceById_self this
  rw [hid] at this
  exact this

/-! ### each step of a queued vehicle's turn goes through -/

theorem station?_replace {s : Sim} {st' old : Station} (hold : s.station? st'.id = some old) :
    ({ s with stations := replaceById Station.id s.stations st' } : Sim).station? st'.id = some st' := by
  unfold Sim.station? at *
  exact lookup_replaceById_self hold

theorem exit_queue_succeeds (hf : ∀ c, env.inFence c = true) {s : Sim} {v : VehicleId} {sid : StationId} {cid : ChargerId}
    {t : Time} {st : Station} {cs : ChargerState} (hst : s.station? sid = some st) (hcs : st.plug? cid = some cs)
    (henq : 0 < cs.enq) :
    exit env s v (.chargeQueueing sid cid t) =
      .ok { s with stations := replaceById Station.id s.stations (st.setPlug { cs with enq := cs.enq - 1 }) } := by
  have hsid : st.id = sid := (station?_some hst).2
  simp only [exit, hst]
  have hdq : st.dequeue cid = .ok (st.setPlug { cs with enq := cs.enq - 1 }) := by
    unfold Station.dequeue Station.updatePlug
    rw [hcs]
    have : cs.enq ≠ 0 := by omega
    simp [ChargerState.decEnq, this]
  rw [hdq]
  simp only [Outcome.bind_eq, Outcome.bind_ok]
  unfold Sim.modifyStation
  have hself : s.station? (st.setPlug { cs with enq := cs.enq - 1 }).id = some st := by
    show s.station? st.id = some st
    rw [hsid]; exact hst
  rw [hself]
  simp [hf, Station.setPlug]

theorem enter_charging_succeeds (hf : ∀ c, env.inFence c = true) {w : World} {v : VehicleId} {sid : StationId}
    {cid : ChargerId} {veh : Vehicle} {st : Station} {cs : ChargerState}
    (hveh : w.sim.vehicle? v = some veh) (hst : w.sim.station? sid = some st) (hcs : st.plug? cid = some cs)
    (hknown : env.mechKnown veh.mech = true) (hloc : veh.pos.cell = st.pos.cell)
    (hacc : st.members.grants veh.members = true) (huse : env.validCharger veh cs = true) (hav : 0 < cs.avail) :
    ∃ w2, enter env w v (.chargingStation sid cid) = .ok w2 ∧
      w2.sim.vehicle? v = some { veh with act := .chargingStation sid cid } ∧
      w2.sim.station? sid = some (st.setPlug { cs with avail := cs.avail - 1 }) := by
  have hsid : st.id = sid := (station?_some hst).2
  have hvid : veh.id = v := (vehicle?_some hveh).2
  have hco : st.checkout cid = .ok (st.setPlug { cs with avail := cs.avail - 1 }) := by
    unfold Station.checkout Station.updatePlug
    rw [hcs]
    have h1 : cs.hasAvailable = true := by simp [ChargerState.hasAvailable, hav]
    have h2 : cs.avail ≠ 0 := by omega
    simp [h1, ChargerState.decAvail, h2]
  set st' := st.setPlug { cs with avail := cs.avail - 1 } with hst'
  have hself : w.sim.station? st'.id = some st := by
    show w.sim.station? st.id = some st
    rw [hsid]; exact hst
  have hmod : w.sim.modifyStation env st' = .ok { w.sim with stations := replaceById Station.id w.sim.stations st' } := by
    unfold Sim.modifyStation
    rw [hself]
    simp [hf, hst', Station.setPlug]
  set s1 : Sim := { w.sim with stations := replaceById Station.id w.sim.stations st' } with hs1
  have hveh1 : s1.vehicle? v = some veh := hveh
  obtain ⟨s2, hs2⟩ := applyAct_succeeds (env := env) hf (.chargingStation sid cid) hveh1
  refine ⟨{ w with sim := s2 }, ?_, ?_, ?_⟩
  · simp only [enter, hveh, hst, hknown, hloc, hacc, hcs, huse, hco, hmod, Bool.not_true, Bool.false_eq_true, if_false,
      bne_self_eq_false, Outcome.bind_eq, Outcome.bind_ok, hs2, Outcome.pure_eq]
  · obtain ⟨veh', h1, h2⟩ := applyAct_self hs2
    rw [hveh1] at h1
    cases h1
    exact h2
  · obtain ⟨_, _, _, hs, _⟩ := applyAct_fields hs2
    show lookup Station.id s2.stations sid = some st'
    rw [hs]
    have := station?_replace (s := w.sim) hself
    rw [show st'.id = sid from hsid] at this
    exact this

theorem charge_succeeds (hf : ∀ c, env.inFence c = true) {w : World} {v : VehicleId} {sid : StationId}
    {cid : ChargerId} {veh : Vehicle} {st : Station} {cs : ChargerState}
    (hveh : w.sim.vehicle? v = some veh) (hst : w.sim.station? sid = some st) (hcs : st.plug? cid = some cs)
    (hknown : env.mechKnown veh.mech = true) (hnf : env.isFull veh = false) :
    ∃ w2, charge env w v sid cid = .ok w2 := by
  have hsid : st.id = sid := (station?_some hst).2
  have hvid : veh.id = v := (vehicle?_some hveh).2
  unfold charge
  simp only [hst, hveh, hknown, hcs, hnf, Bool.not_true, Bool.false_eq_true, if_false]
  refine modifyVehicle_then hf (old := veh) ?_ ?_ ?_
  · show w.sim.vehicle? veh.id = some veh
    rw [hvid]; exact hveh
  · rfl
  intro s1 hs1
  obtain ⟨_, _, hstn, _⟩ := Sim.modifyVehicle_fields hs1
  refine modifyStation_then hf (old := st) ?_ ?_ ?_
  · show lookup Station.id s1.stations st.id = some st
    rw [hstn, hsid]; exact hst
  · rfl
  intro s2 _
  exact ⟨_, rfl⟩

/-- **a queued vehicle's own update goes through** when the facts its entry into the queue
    established still hold: the station and the plug type exist, the vehicle stands at the station,
    has access, can use the plug, its mechatronics are registered, and the station counts it among
    the waiting vehicles -/
theorem queue_turn_succeeds (hf : ∀ c, env.inFence c = true) (hc : EnvCongr env) {w : World} {v : VehicleId}
    {sid : StationId} {cid : ChargerId} {t : Time} {veh : Vehicle} {st : Station} {cs : ChargerState}
    (hveh : w.sim.vehicle? v = some veh) (hst : w.sim.station? sid = some st) (hcs : st.plug? cid = some cs)
    (hknown : env.mechKnown veh.mech = true) (hloc : veh.pos.cell = st.pos.cell)
    (hacc : st.members.grants veh.members = true) (huse : env.validCharger veh cs = true) (henq : 0 < cs.enq) :
    ∃ w2, defaultUpdate env w v (.chargeQueueing sid cid t) = .ok w2 := by
  have hsid : st.id = sid := (station?_some hst).2
  have hvid : veh.id = v := (vehicle?_some hveh).2
  unfold defaultUpdate
  by_cases hav : st.hasAvailable cid = true
  · -- a plug is free: the vehicle leaves the queue
    have hterm : terminal env w.sim v (.chargeQueueing sid cid t) = true := by simp [terminal, hst, hav]
    have hcsav : 0 < cs.avail := by
      have := hasAvailable_iff.mp hav
      unfold Station.availableChargers at this
      rw [hcs] at this; exact this
    rw [if_pos hterm]
    -- the state after leaving the queue
    set cs1 : ChargerState := { cs with enq := cs.enq - 1 } with hcs1
    set st1 := st.setPlug cs1 with hst1
    set s1 : Sim := { w.sim with stations := replaceById Station.id w.sim.stations st1 } with hs1
    have hexit := exit_queue_succeeds (env := env) hf (v := v) (t := t) hst hcs henq
    have hveh1 : s1.vehicle? v = some veh := hveh
    have hself : w.sim.station? st1.id = some st := by
      show w.sim.station? st.id = some st
      rw [hsid]; exact hst
    have hst1' : s1.station? sid = some st1 := by
      have := station?_replace (s := w.sim) hself
      rw [show st1.id = sid from hsid] at this
      exact this
    have hcs1' : st1.plug? cid = some cs1 := setPlug_plug? hcs (plug?_some hcs).2
    by_cases hfull : (env.mechKnown veh.mech && env.isFull veh) = true
    · -- full: Idle
      have hnext : defaultNext env w.sim v (.chargeQueueing sid cid t) = .ok (.idle 0) := by
        simp [defaultNext, hveh, hst, hav, hfull]
      obtain ⟨s2, hs2⟩ := applyAct_succeeds (env := env) hf (.idle 0) hveh1
      obtain ⟨veh', h1, h2⟩ := applyAct_self hs2
      rw [hveh1] at h1; cases h1
      have htr : transition env w v (.chargeQueueing sid cid t) (.idle 0) = .ok { w with sim := s2 } := by
        simp only [transition, hexit, Outcome.bind_eq, Outcome.bind_ok, enter]
        rw [hs2]
        rfl
      simp only [hnext, htr, Outcome.bind_eq, Outcome.bind_ok, h2, performUpdate, hknown, Bool.not_true,
        Bool.false_eq_true, if_false]
      refine modifyVehicle_then hf (old := { veh with act := .idle 0 }) ?_ ?_ ?_
      · exact (congrArg (fun i => s2.vehicle? i) hvid).trans h2
      · rfl
      intro s3 _
      exact ⟨_, rfl⟩
    · -- not full: ChargingStation, and the first charge
      have hnext : defaultNext env w.sim v (.chargeQueueing sid cid t) = .ok (.chargingStation sid cid) := by
        simp only [defaultNext, hveh, hst, hav, Bool.not_true, Bool.false_eq_true, if_false]
        rw [if_neg hfull]
      have hnf : env.isFull veh = false := by
        simp only [hknown, Bool.true_and] at hfull
        simpa using hfull
      have huse1 : env.validCharger veh cs1 = true := by
        rw [← hc.valid veh cs cs1 rfl]; exact huse
      obtain ⟨w1, hw1, hv1, hs1'⟩ := enter_charging_succeeds (env := env) hf (w := { w with sim := s1 }) hveh1 hst1' hcs1'
        hknown (by rw [hloc]; rfl) hacc huse1 hcsav
      have htr : transition env w v (.chargeQueueing sid cid t) (.chargingStation sid cid) = .ok w1 := by
        simp only [transition, hexit, Outcome.bind_eq, Outcome.bind_ok]
        exact hw1
      set veh2 : Vehicle := { veh with act := .chargingStation sid cid } with hveh2
      have hnf2 : env.isFull veh2 = false := by rw [← hc.full veh veh2 rfl rfl]; exact hnf
      have hcs2 : (st1.setPlug { cs1 with avail := cs1.avail - 1 }).plug? cid = some { cs1 with avail := cs1.avail - 1 } :=
        setPlug_plug? hcs1' (plug?_some hcs).2
      obtain ⟨w2, hw2⟩ := charge_succeeds (env := env) hf (w := w1) hv1 hs1' hcs2 hknown hnf2
      refine ⟨w2, ?_⟩
      simp only [hnext, htr, Outcome.bind_eq, Outcome.bind_ok, hv1, performUpdate]
      exact hw2
  · -- no plug is free: the vehicle idles in the queue
    have hterm : terminal env w.sim v (.chargeQueueing sid cid t) = false := by
      simp only [terminal, hst]
      simpa using hav
    rw [hterm]
    simp only [Bool.false_eq_true, if_false, performUpdate, hveh, hknown, Bool.not_true]
    refine modifyVehicle_then hf (old := veh) ?_ ?_ ?_
    · show w.sim.vehicle? veh.id = some veh
      rw [hvid]; exact hveh
    · rfl
    intro s2 _
    exact ⟨_, rfl⟩

end Hive

namespace Hive
variable {env : Env}

/-- the static part of every station survives any prefix of the update fold -/
theorem fold_static : ∀ (L : List Vehicle) {w : World}, w.sim.WF →
    (qfold env L w).sim.WF ∧ ∀ i, ((qfold env L w).sim.station? i).map stnStatic = (w.sim.station? i).map stnStatic
  | [], w, hwf => ⟨hwf, fun _ => rfl⟩
  | x :: L, w, hwf => by
    rw [qfold_cons]
    have h1 : (stepVehicle env w x.id x.act).sim.WF ∧
        ∀ i, ((stepVehicle env w x.id x.act).sim.station? i).map stnStatic = (w.sim.station? i).map stnStatic := by
      rcases stepVehicle_cases (env := env) w x.id x.act with heq | hok
      · rw [heq]; exact ⟨hwf, fun _ => rfl⟩
      · obtain ⟨hfr, hid⟩ := defaultUpdate_frame hwf hok
        exact ⟨hid.wf hwf, hfr.stn⟩
    obtain ⟨hwf2, hs2⟩ := fold_static L h1.1
    exact ⟨hwf2, fun i => (hs2 i).trans (h1.2 i)⟩

end Hive

namespace Hive

/-- the driver's environment reads the mechatronics and the energy of a vehicle, and the energy
    type of a plug, only -/
theorem concrete_envCongr (o : Oracle) (mechs : List Mech) : EnvCongr (o.env mechs) where
  full := by
    intro a b hm he
    show (match mechOf mechs a.mech with | some m => m.isFull a.en | none => false) =
      (match mechOf mechs b.mech with | some m => m.isFull b.en | none => false)
    rw [hm, he]
  valid := by
    intro a cs cs' h
    show (match mechOf mechs a.mech with | some m => m.validCharger cs.electric | none => false) =
      (match mechOf mechs a.mech with | some m => m.validCharger cs'.electric | none => false)
    have : cs.electric = cs'.electric := by
      have := congrArg (fun p => p.2.1) h
      simpa [plugStatic] using this
    rw [this]

end Hive
