/-
  Proofs.C10 — membership is enforced on every interaction: `inv10` is an invariant of runs.
-/
import Hive.Inv
import Proofs.PerVehicle

namespace Hive
variable {env : Env}

theorem stn_members_of_frame {v : VehicleId} {s s' : Sim} (hfr : Frame v s s') {i : StationId} {st' : Station}
    (h : s'.station? i = some st') : ∃ st, s.station? i = some st ∧ st.members = st'.members ∧ st.pos = st'.pos := by
  have := hfr.stn i
  rw [h] at this
  cases hs : s.station? i with
  | none => rw [hs] at this; cases this
  | some st =>
    rw [hs] at this
    simp only [Option.map_some, Option.some.injEq, stnStatic, Prod.mk.injEq] at this
    exact ⟨st, rfl, this.2.1.symm, this.1.symm⟩

theorem base_static_of_frame {v : VehicleId} {s s' : Sim} (hfr : Frame v s s') {i : BaseId} {b' : Base}
    (h : s'.base? i = some b') :
    ∃ b, s.base? i = some b ∧ b.members = b'.members ∧ b.pos = b'.pos ∧ b.station = b'.station := by
  have := hfr.base i
  rw [h] at this
  cases hs : s.base? i with
  | none => rw [hs] at this; cases this
  | some b =>
    rw [hs] at this
    simp only [Option.map_some, Option.some.injEq, baseStatic, Prod.mk.injEq] at this
    exact ⟨b, rfl, this.2.1.symm, this.1.symm, this.2.2.2.symm⟩

theorem req_static_of_frame {v : VehicleId} {s s' : Sim} (hfr : Frame v s s') {i : RequestId} {r' : Request}
    (h : s'.request? i = some r') :
    ∃ r, s.request? i = some r ∧ r.members = r'.members ∧ r.pos = r'.pos ∧ r.dest = r'.dest := by
  obtain ⟨r, hr, he⟩ := hfr.req i r' h
  simp only [reqStatic, Prod.mk.injEq] at he
  exact ⟨r, hr, he.2.2.2.2.1.symm, he.1.symm, he.2.1.symm⟩

/-- access of a vehicle that did not change is carried over a frame step -/
theorem accessOk_mono {v : VehicleId} {s s' : Sim} (hfr : Frame v s s') (veh : Vehicle)
    (h : accessOk s veh = true) : accessOk s' veh = true := by
  unfold accessOk at *
  cases hact : veh.act <;> rw [hact] at h <;> simp only at h ⊢
  case chargingStation sid cid | chargeQueueing sid cid t | dispatchStation sid cid r =>
    cases hs' : s'.station? sid with
    | none => rfl
    | some st' =>
      obtain ⟨st, hs, hm, _⟩ := stn_members_of_frame hfr hs'
      rw [hs] at h
      simp only at h ⊢
      rw [← hm]; exact h
  case reserveBase b | dispatchBase b r =>
    cases hs' : s'.base? b with
    | none => rfl
    | some b' =>
      obtain ⟨b0, hs, hm, _⟩ := base_static_of_frame hfr hs'
      rw [hs] at h
      simp only at h ⊢
      rw [← hm]; exact h
  case chargingBase b cid =>
    cases hs' : s'.base? b with
    | none => rfl
    | some b' =>
      obtain ⟨b0, hs, hm, _, hst⟩ := base_static_of_frame hfr hs'
      rw [hs] at h
      simp only [Bool.and_eq_true] at h ⊢
      refine ⟨by rw [← hm]; exact h.1, ?_⟩
      rw [← hst]
      cases hbs : b0.station with
      | none => simp
      | some sid =>
        simp only [Option.bind_some]
        cases hs2 : s'.station? sid with
        | none => rfl
        | some st' =>
          obtain ⟨st, hs3, hm3, _⟩ := stn_members_of_frame hfr hs2
          have := h.2
          rw [hbs] at this
          simp only [Option.bind_some, hs3] at this
          simp only
          rw [← hm3]; exact this
  case dispatchTrip rid r =>
    cases hs' : s'.request? rid with
    | none => rfl
    | some r' =>
      obtain ⟨r0, hs, hm, _⟩ := req_static_of_frame hfr hs'
      rw [hs] at h
      simp only at h ⊢
      rw [← hm]; exact h
  all_goals exact h

end Hive

namespace Hive
variable {env : Env}

theorem stn_forward {v : VehicleId} {s s' : Sim} (hfr : Frame v s s') {i : StationId} {st : Station}
    (h : s.station? i = some st) : ∃ st', s'.station? i = some st' ∧ st'.members = st.members ∧ st'.pos = st.pos := by
  have := hfr.stn i
  rw [h] at this
  cases hs : s'.station? i with
  | none => rw [hs] at this; cases this
  | some st' =>
    rw [hs] at this
    simp only [Option.map_some, Option.some.injEq, stnStatic, Prod.mk.injEq] at this
    exact ⟨st', rfl, this.2.1, this.1⟩

theorem base_forward {v : VehicleId} {s s' : Sim} (hfr : Frame v s s') {i : BaseId} {b : Base}
    (h : s.base? i = some b) :
    ∃ b', s'.base? i = some b' ∧ b'.members = b.members ∧ b'.pos = b.pos ∧ b'.station = b.station := by
  have := hfr.base i
  rw [h] at this
  cases hs : s'.base? i with
  | none => rw [hs] at this; cases this
  | some b' =>
    rw [hs] at this
    simp only [Option.map_some, Option.some.injEq, baseStatic, Prod.mk.injEq] at this
    exact ⟨b', rfl, this.2.1, this.1, this.2.2.2⟩

/-- the guards of a successful `enter` give the acting vehicle access in the resulting state -/
theorem accessOk_of_enterPost {v : VehicleId} {s1 s2 : Sim} {old veh' : Vehicle} {next : Act}
    (hfr : Frame v s1 s2) (hm : veh'.members = old.members)
    (hpost : EnterPost s1 old next veh'.act) : accessOk s2 veh' = true := by
  unfold accessOk
  cases next <;> simp only [EnterPost] at hpost
  case idle d => rw [hpost]
  case outOfService => rw [hpost]
  case repositioning r => rw [hpost.1]
  case reserveBase b =>
    obtain ⟨ha, base, hb, _, hg⟩ := hpost
    rw [ha]
    obtain ⟨b', hb', hm', _⟩ := base_forward hfr hb
    simp only [hb', hm', hm]; exact hg
  case dispatchBase b r =>
    obtain ⟨ha, base, hb, _, hg⟩ := hpost
    rw [ha]
    obtain ⟨b', hb', hm', _⟩ := base_forward hfr hb
    simp only [hb', hm', hm]; exact hg
  case chargingStation sid cid =>
    obtain ⟨ha, st, hs, _, hg, _⟩ := hpost
    rw [ha]
    obtain ⟨st', hs', hm', _⟩ := stn_forward hfr hs
    simp only [hs', hm', hm]; exact hg
  case chargeQueueing sid cid t =>
    obtain ⟨ha, st, hs, _, hg, _⟩ := hpost
    rw [ha]
    obtain ⟨st', hs', hm', _⟩ := stn_forward hfr hs
    simp only [hs', hm', hm]; exact hg
  case dispatchStation sid cid r =>
    obtain ⟨st, hs, hg, hcase⟩ := hpost
    obtain ⟨st', hs', hm', _⟩ := stn_forward hfr hs
    rcases hcase with ⟨ha, _⟩ | ⟨ha, _⟩ <;> rw [ha] <;> simp only [hs', hm', hm] <;> exact hg
  case chargingBase b cid =>
    obtain ⟨ha, base, sid, st, hb, hbs, hs, _, hg1, hg2, _⟩ := hpost
    rw [ha]
    obtain ⟨b', hb', hm', _, hst'⟩ := base_forward hfr hb
    obtain ⟨st', hs', hm2, _⟩ := stn_forward hfr hs
    simp only [hb', hm', hm, hst', hbs, Option.bind_some, hs', hm2, Bool.and_eq_true]
    exact ⟨hg1, hg2⟩
  case dispatchTrip rid r =>
    obtain ⟨ha, req, hr, _, hg⟩ := hpost
    rw [ha]
    simp only
    cases hr2 : s2.request? rid with
    | none => rfl
    | some r' =>
      obtain ⟨r0, hr0, hm0, _⟩ := req_static_of_frame hfr hr2
      rw [hr] at hr0; cases hr0
      simp only [← hm0, hm]; exact hg
  case servicingTrip sreq dep r =>
    obtain ⟨ha, req, _, _, _, hg, _⟩ := hpost
    rw [ha]
    simp only [hm]; exact hg

/-- access is kept by a `_perform_update`: same targets or OutOfService, same memberships -/
theorem accessOk_of_updPost {s s2 : Sim} {v : VehicleId} {dt : Nat} {old new : Vehicle} (hfr : Frame v s s2)
    (hm : new.members = old.members) (hpost : UpdPost env dt old new) (h : accessOk s old = true) :
    accessOk s2 new = true := by
  have key : ∀ a : Act, (a = old.act ∨ a = .outOfService ∨ (∃ d, a = .idle d) ∨ ∃ r, a = old.act.setRoute r) →
      accessOk s2 { old with act := a } = true := by
    intro a ha
    rcases ha with rfl | rfl | ⟨d, rfl⟩ | ⟨r, rfl⟩
    · exact accessOk_mono hfr old h
    · rfl
    · rfl
    · have := accessOk_mono hfr old h
      unfold accessOk at this ⊢
      cases hact : old.act <;> simp only [hact, Act.setRoute] at this ⊢ <;> exact this
  have hnew : accessOk s2 new = accessOk s2 { old with act := new.act } := by
    unfold accessOk
    simp only [hm]
  rw [hnew]
  apply key
  rcases hpost with ⟨_, h1 | h1 | ⟨d, d', _, h1⟩ | ⟨_, _, _, _, _, h1⟩⟩ | ⟨_, tr, _, _, _, _, _, h1⟩
  · exact Or.inl h1
  · exact Or.inr (Or.inl h1)
  · exact Or.inr (Or.inr (Or.inl ⟨d', h1⟩))
  · exact Or.inr (Or.inr (Or.inr ⟨[], h1⟩))
  · exact Or.inr (Or.inr (Or.inr ⟨tr.remaining, h1⟩))

end Hive

namespace Hive
variable {env : Env}

theorem accessOk_congr_lookups {s s' : Sim} {veh : Vehicle}
    (hs : ∀ i, s'.station? i = s.station? i) (hb : ∀ i, s'.base? i = s.base? i)
    (hr : ∀ rid route, veh.act = .dispatchTrip rid route → s'.request? rid = s.request? rid) :
    accessOk s' veh = accessOk s veh := by
  have hsf : s'.station? = s.station? := funext hs
  unfold accessOk
  cases hact : veh.act <;> simp only [hs, hb, hsf]
  case dispatchTrip rid route => rw [hr rid route hact]

theorem accessOk_vehPred (env : Env) : VehPred env accessOk where
  mono hfr veh h := accessOk_mono hfr veh h
  enter _ _ f2 _ _ _ hsb _ hpost := accessOk_of_enterPost f2 hsb.members hpost
  upd _ hfr _ hsb hpost h := accessOk_of_updPost hfr hsb.members hpost h
  applied s a veh := rfl
  tick s veh := rfl
  arrival := by
    intro s s' r hf hu h veh hm hv
    obtain ⟨_, hs, hb, _, _, _, hr, _⟩ := addRequest_fields hf h
    rw [← hv]
    apply accessOk_congr_lookups
    · intro i; simp [Sim.station?, hs]
    · intro i; simp [Sim.base?, hb]
    · intro rid route hact
      apply hr
      intro heq
      exact hu veh hm route (by rw [hact, heq])

end Hive
