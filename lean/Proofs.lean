import Proofs.Lists
import Proofs.SimOps
import Proofs.WF
import Proofs.Frame
import Proofs.Lift
import Proofs.Run
import Proofs.C02
