import Properties.C11
#print axioms Hive.C11.reader_once
#print axioms Hive.C11.reader_window
#print axioms Hive.C11.admission_step
#print axioms Hive.C11.admissible_not_expired
#print axioms Hive.C11.cancellation_step
#print axioms Hive.C11.price_update_frame
#print axioms Hive.C11.price_after
#print axioms Hive.C11.repriced_untouched
#print axioms Hive.C11.price_decided_by
#print axioms Hive.C11.preStep_spec
#print axioms Hive.C11.run_admissions
