import Properties.C17
import Properties.Full
#print axioms Hive.C17.runInv
#print axioms Hive.C17.reachable
#print axioms Hive.C17.initial
#print axioms Hive.C17.cleared_on_leave
#print axioms Hive.C17.unique_under_dispatcher
#print axioms Hive.C17.conv_initial
#print axioms Hive.C17.run_pairs_waiting
#print axioms Hive.C17.dispatcher_instructions_ok
#print axioms Hive.Full.C17
#print axioms Hive.Full.no_pooling
