import Properties.C17
#print axioms Hive.C17.runInv
#print axioms Hive.C17.reachable
#print axioms Hive.C17.initial
#print axioms Hive.C17.cleared_on_leave
