import Properties.C20
#print axioms Hive.C20.tod_range
#print axioms Hive.C20.tod_periodic
#print axioms Hive.C20.inRange_plain
#print axioms Hive.C20.inRange_wrap
#print axioms Hive.C20.inRange_boundaries
#print axioms Hive.C20.driver_phase
#print axioms Hive.C20.available_iff_on_shift
#print axioms Hive.C20.event_iff_flip
#print axioms Hive.C20.one_event_per_vehicle
#print axioms Hive.C20.driver_untouched
