import Properties.C09
#print axioms Hive.C09.rejected_changes_nothing
#print axioms Hive.C09.single_rejected
#print axioms Hive.C09.accepted_enters_instructed
#print axioms Hive.C09.independent
#print axioms Hive.C09.one_per_vehicle
#print axioms Hive.C09.last_generated_wins
#print axioms Hive.C09.driver_has_final_word
