import Properties.C10
#print axioms Hive.C10.runInv
#print axioms Hive.C10.access_on_enter
#print axioms Hive.C10.reachable
