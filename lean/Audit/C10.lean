import Properties.C10
import Properties.Full
#print axioms Hive.C10.runInv
#print axioms Hive.C10.access_on_enter
#print axioms Hive.C10.reachable
#print axioms Hive.Full.C10
