import Properties.C13
#print axioms Hive.C13.chain_connected
#print axioms Hive.C13.chain_ends
#print axioms Hive.C13.haversine_route
#print axioms Hive.C13.routeFromPath_chain
#print axioms Hive.C13.osm_route
#print axioms Hive.C13.osm_route_same
