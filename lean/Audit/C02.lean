import Properties.C02
import Properties.Full
#print axioms Hive.C02.runInv
#print axioms Hive.C02.instructions
#print axioms Hive.C02.updates
#print axioms Hive.C02.reachable
#print axioms Hive.C02.initial
#print axioms Hive.C02.loaded_layout
#print axioms Hive.Full.C02
#print axioms Hive.C02.loaded_installed
