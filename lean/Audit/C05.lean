import Properties.C05
#print axioms Hive.C05.charge_transfers
#print axioms Hive.C05.gained_equals_dispensed
#print axioms Hive.C05.invalid_plug_transfers_nothing
#print axioms Hive.C05.pickup_credits_fare
#print axioms Hive.C05.run_vehicle
#print axioms Hive.C05.run_station
#print axioms Hive.C05.fleet_totals
#print axioms Hive.C05.concrete_gain
#print axioms Hive.C05.run_station_typed
#print axioms Hive.C05.run_vehicle_typed
#print axioms Hive.C05.fleet_by_type
#print axioms Hive.C05.types_init
#print axioms Hive.C05.concrete_types
