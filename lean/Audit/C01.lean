import Properties.C01
import Properties.C01Sites
import Properties.C01Index
import Properties.C01Prims
import Properties.C01Walk
import Properties.C01Cycle
import Properties.C01Dispatch
#print axioms Hive.C01.eq_of_perm_of_sorted
#print axioms Hive.C01.sortBy_eq_of_perm
#print axioms Hive.C01.id_order_invariant
#print axioms Hive.C01.lookup_perm
#print axioms Hive.C01.driver_order_invariant
#print axioms Hive.C01.update_order_invariant
#print axioms Hive.C01.sortBy_eq_of_perm_on
#print axioms Hive.C01Sites.sites_ok
#print axioms Hive.C01Sites.anchors_present
#print axioms Hive.C01Sites.reviewed_current
#print axioms Hive.C01.upsert_perm
#print axioms Hive.C01.planAll_perm
#print axioms Hive.C01.updateOrder_permEnt
#print axioms Hive.C01.PermEnt.uniqueIds
#print axioms Hive.C01.nearest_sameSets
#print axioms Hive.C01.entitiesAtCell_sameSets
#print axioms Hive.C01.exit_permU
#print axioms Hive.C01.enter_permW
#print axioms Hive.C01.transition_permW
#print axioms Hive.C01.move_permW
#print axioms Hive.C01.charge_permW
#print axioms Hive.C01.performUpdate_permW
#print axioms Hive.C01.defaultUpdate_permW
#print axioms Hive.C01.vehicleUpdates_permW
#print axioms Hive.C01.applyInstructions_permW
#print axioms Hive.C01.control_step_order_independent
#print axioms Hive.C01.control_run_order_independent
#print axioms Hive.C01.observations_agree
#print axioms Hive.C01.permW_of_perm
#print axioms Hive.C01.addRequest_permU
#print axioms Hive.C01.priceUpdate_permU
#print axioms Hive.C01.driverUpdates_permW
#print axioms Hive.C01.wphase_perm
#print axioms Hive.C01.reachable_order_independent
#print axioms Hive.C01.index_add_eqv
#print axioms Hive.C01.index_remove_eqv
#print axioms Hive.C01.index_move_eqv
#print axioms Hive.C01.modifyVehicle_permU
#print axioms Hive.C01.modifyStation_permU
#print axioms Hive.C01.removeRequest_permU
#print axioms Hive.C01.admitRequests_permW
#print axioms Hive.C01.cancelRequests_permW
#print axioms Hive.C01.preStep_permW
#print axioms Hive.C01.full_run_order_independent
#print axioms Hive.C01.checkFleet_perm
#print axioms Hive.C01.checkRun_perm
