import Properties.C01
#print axioms Hive.C01.eq_of_perm_of_sorted
#print axioms Hive.C01.sortBy_eq_of_perm
#print axioms Hive.C01.id_order_invariant
#print axioms Hive.C01.lookup_perm
#print axioms Hive.C01.driver_order_invariant
