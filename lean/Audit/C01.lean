import Properties.C01
import Properties.C01Sites
#print axioms Hive.C01.eq_of_perm_of_sorted
#print axioms Hive.C01.sortBy_eq_of_perm
#print axioms Hive.C01.id_order_invariant
#print axioms Hive.C01.lookup_perm
#print axioms Hive.C01.driver_order_invariant
#print axioms Hive.C01.update_order_invariant
#print axioms Hive.C01.sortBy_eq_of_perm_on
#print axioms Hive.C01Sites.sites_ok
#print axioms Hive.C01Sites.anchors_present
#print axioms Hive.C01Sites.reviewed_current
