import Properties.C04
import Properties.Full
#print axioms Hive.C04.bounds_spend
#print axioms Hive.C04.bounds_charge
#print axioms Hive.C04.ledger_spend
#print axioms Hive.C04.ledger_charge
#print axioms Hive.C04.drive_expends
#print axioms Hive.C04.idle_expends
#print axioms Hive.C04.charge_monotone_bounded
#print axioms Hive.C04.no_move_on_empty
#print axioms Hive.C04.reachable
#print axioms Hive.C04.concrete
#print axioms Hive.Full.C04
#print axioms Hive.Full.vehicle_ids
