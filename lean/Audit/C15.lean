import Properties.C15
#print axioms Hive.C15.crank_add
#print axioms Hive.C15.run_is_crank
#print axioms Hive.C15.run_split
#print axioms Hive.C15.step_clock
#print axioms Hive.C15.crank_clock
#print axioms Hive.C15.runnerSteps_spec
#print axioms Hive.C15.runner_refuses_beyond
