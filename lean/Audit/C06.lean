import Properties.C06
#print axioms Hive.C06.junction
#print axioms Hive.C06.destination
#print axioms Hive.C06.route_preserved
#print axioms Hive.C06.odometer
#print axioms Hive.C06.time_budget
#print axioms Hive.C06.progress
#print axioms Hive.C06.stationary_otherwise
#print axioms Hive.C06.leaves_when_arrived
