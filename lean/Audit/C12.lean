import Properties.C12
#print axioms Hive.Assign.cert_optimal
#print axioms Hive.C12.checkFleet_sound
#print axioms Hive.C12.paired_vehicle_eligible
#print axioms Hive.C12.paired_request_waiting
#print axioms Hive.C12.dispatch_available
#print axioms Hive.C12.run_distinct
