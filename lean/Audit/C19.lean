import Properties.C19
#print axioms Hive.C19.ledger_compose
#print axioms Hive.C19.move_reports
#print axioms Hive.C19.charge_reports
#print axioms Hive.C19.pickup_reports
#print axioms Hive.C19.pickup_wait_range
#print axioms Hive.C19.dropoff_reports
#print axioms Hive.C19.run_odometer_energy
#print axioms Hive.C19.run_entities
#print axioms Hive.C19.step_pickup_waits
