import Properties.C03
import Properties.C03Divert
#print axioms Hive.C03.exit_refused
#print axioms Hive.C03.no_divert
#print axioms Hive.C03.pickup_exact
#print axioms Hive.C03.pickup_needs_waiting
#print axioms Hive.C03.requests_change_only_by
#print axioms Hive.C03.dropoff_once_then_idle
#print axioms Hive.C03.run_resolved_once
#print axioms Hive.C03.run_waiting_unresolved
#print axioms Hive.C03.run_none_vanishes
#print axioms Hive.C03.run_dropoff_by_picker
#print axioms Hive.C03.run_dropoff_once
#print axioms Hive.C03.run_on_board
#print axioms Hive.C03.applyPlans_keeps_carrier
#print axioms Hive.C03.no_divert_phase
#print axioms Hive.C03.divert_monitor_silent
