import Properties.C18
import Properties.C18Order
#print axioms Hive.C18.processing_order
#print axioms Hive.C18.plugs_never_freed_in_queue_phase
#print axioms Hive.C18.charging_needs_free_plug
#print axioms Hive.C18.fifo
#print axioms Hive.C18.fifo_at
#print axioms Hive.C18.fifo_enabled
#print axioms Hive.queue_turn_succeeds
#print axioms Hive.concrete_envCongr
#print axioms Hive.C18.idx_lt_of_split
#print axioms Hive.C18.order_monitor_silent
