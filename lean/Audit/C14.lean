import Properties.C14
#print axioms Hive.C14.potential_bound
#print axioms Hive.C14.cert_fastest
