import Properties.C07
import Properties.Full
#print axioms Hive.C07.runInv
#print axioms Hive.C07.reachable
#print axioms Hive.C07.concrete_traverse
#print axioms Hive.C07.pickup_at_origin
#print axioms Hive.C07.dropoff_at_destination
#print axioms Hive.C07.trip_starts_at_origin
#print axioms Hive.Full.C07
