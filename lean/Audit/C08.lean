import Properties.C08
import Properties.Full
#print axioms Hive.C08.runInv
#print axioms Hive.C08.reachable
#print axioms Hive.C08.ops
#print axioms Hive.C08.stations_fixed
#print axioms Hive.C08.bases_fixed
#print axioms Hive.C08.at_exact
#print axioms Hive.C08.search_exact
#print axioms Hive.C08.search_finds
#print axioms Hive.C08.reachable_lookup
#print axioms Hive.C08.reachable_station_search
#print axioms Hive.C08.reachable_base_search
#print axioms Hive.C08.ops_lookup
#print axioms Hive.Full.C08
