import Properties.C08
#print axioms Hive.C08.runInv
#print axioms Hive.C08.reachable
#print axioms Hive.C08.ops
#print axioms Hive.C08.stations_fixed
#print axioms Hive.C08.bases_fixed
