/-
  Hive.Layout — loading the initial layout: `Station.from_row` / `Station.append_chargers` /
  `ChargerState.build` / `ChargerState.add_chargers` folded over the rows of the stations file
  (`station_init_function`), and `Base.from_row` over the rows of the bases file.

  `cat` stands for the scenario's charger catalogue (`env.chargers`): energy type and rate by id.
  A row naming a charger type the catalogue does not have stops the load (the Python raises):
  `none`.
-/
import Hive.Inv

namespace Hive
namespace Layout

structure StationRow where
  sid : StationId
  pos : Pos
  chg : ChargerId
  count : Nat
  onShift : Bool
  deriving Repr, Inhabited

structure BaseRow where
  bid : BaseId
  pos : Pos
  stalls : Nat
  station : Option StationId
  deriving Repr, Inhabited

abbrev Catalogue := ChargerId → Option (Bool × Rat)

/-- `ChargerState.build(charger, count)` -/
def buildPlug (c : ChargerId) (spec : Bool × Rat) (count : Nat) : ChargerState :=
  { id := c, electric := spec.1, rate := spec.2, total := count, avail := count, price := 0, enq := 0 }

/-- `ChargerState.add_chargers(count)` -/
def addChargers (cs : ChargerState) (count : Nat) : ChargerState :=
  { cs with total := cs.total + count, avail := cs.avail + count }

/-- `Station.append_chargers` -/
def appendChargers (cat : Catalogue) (st : Station) (c : ChargerId) (count : Nat) : Option Station :=
  match st.plug? c with
  | some cs => some { st.setPlug (addChargers cs count) with onShift := if st.onShift.contains c then st.onShift else st.onShift ++ [c] }
  | none =>
    match cat c with
    | none => none
    | some spec => some { st with plugs := st.plugs ++ [buildPlug c spec count],
                                  onShift := if st.onShift.contains c then st.onShift else st.onShift ++ [c] }

/-- `Station.from_row(row, builder, …)` followed by `DictOps.add_to_dict(builder, station.id, station)` -/
def addRow (cat : Catalogue) (builder : List Station) (r : StationRow) : Option (List Station) :=
  match lookup Station.id builder r.sid with
  | none =>
    match cat r.chg with
    | none => none
    | some spec =>
      some (builder ++ [{ id := r.sid, pos := r.pos, members := [], plugs := [buildPlug r.chg spec r.count],
                          onShift := if r.onShift then [r.chg] else [], balance := 0, dispE := 0, dispG := 0 }])
  | some st =>
    match appendChargers cat st r.chg r.count with
    | none => none
    | some st' => some (replaceById Station.id builder st')

/-- the fold of `station_init_function` -/
def loadStations (cat : Catalogue) : List StationRow → List Station → Option (List Station)
  | [], b => some b
  | r :: rs, b =>
    match addRow cat b r with
    | none => none
    | some b' => loadStations cat rs b'

/-- `Base.from_row` / `Base.build`: every stall free -/
def baseOf (r : BaseRow) : Base :=
  { id := r.bid, pos := r.pos, members := [], total := r.stalls, avail := r.stalls, station := r.station }

/-! ### the statement evaluated on a loaded state -/

/-- the rows' counts for one plug type of one station -/
def installed (rows : List StationRow) (sid : StationId) (c : ChargerId) : Nat :=
  ((rows.filter fun r => r.sid == sid && r.chg == c).map (·.count)).sum

def viol (rows : List StationRow) (bases : List BaseRow) (s : Sim) : List String :=
  (s.stations.flatMap fun st => st.plugs.flatMap fun cs =>
    (if cs.total == installed rows st.id cs.id then [] else
      [s!"C02/layout-installed| station {st.id} plug {cs.id}: {cs.total} installed, the stations file lists {installed rows st.id cs.id}"]) ++
    (if cs.avail == cs.total && cs.enq == 0 then [] else
      [s!"C02/layout-free| station {st.id} plug {cs.id}: installed {cs.total}, free {cs.avail}, waiting {cs.enq} before any vehicle has moved"])) ++
  (rows.flatMap fun r =>
    match s.station? r.sid with
    | none => [s!"C02/layout-missing| station {r.sid} of the stations file is not in the state"]
    | some st => if (st.plug? r.chg).isSome then [] else [s!"C02/layout-missing| station {r.sid} lacks plug type {r.chg} of the stations file"]) ++
  (s.bases.flatMap fun b =>
    let want := ((bases.filter fun r => r.bid == b.id).getLast?).map (·.stalls)
    (if some b.total == want then [] else [s!"C02/layout-stalls| base {b.id}: {b.total} stalls, the bases file says {repr want}"]) ++
    (if b.avail == b.total then [] else [s!"C02/layout-free| base {b.id}: {b.total} stalls, {b.avail} free before any vehicle has moved"]))

end Layout
end Hive
