/-
  Hive.Json — JSON decoding of the line protocol (harness → driver), the recorded-oracle tables
  and the concrete `Env` built from them plus the physics model.
-/
import Lean.Data.Json
import Hive.Step
import Hive.Energy
import Hive.Traverse
import Hive.Timed

open Lean

namespace Hive

/-- rationals travel as strings `"n/d"` or `"n"` (exact value of the Python float) -/
def parseRat (s : String) : Except String Rat :=
  match s.splitOn "/" with
  | [n] => match n.toInt? with
    | some i => .ok (i : Rat)
    | none => .error s!"bad rational {s}"
  | [n, d] => match n.toInt?, d.toNat? with
    | some i, some k => if k = 0 then .error s!"zero denominator {s}" else .ok (mkRat i k)
    | _, _ => .error s!"bad rational {s}"
  | _ => .error s!"bad rational {s}"

instance : FromJson Rat where
  fromJson? j := match j with
    | .str s => parseRat s
    | .num n => .ok (mkRat n.mantissa (10 ^ n.exponent))
    | _ => .error s!"expected rational, got {j}"

instance : ToJson Rat where
  toJson q := .str (if q.den = 1 then s!"{q.num}" else s!"{q.num}/{q.den}")

deriving instance FromJson, ToJson for Pos
deriving instance FromJson, ToJson for Link
deriving instance FromJson, ToJson for ChargerState
deriving instance FromJson, ToJson for Station
deriving instance FromJson, ToJson for Base
deriving instance FromJson, ToJson for Request
deriving instance FromJson, ToJson for Act
deriving instance FromJson, ToJson for Driver
deriving instance FromJson, ToJson for Energy
deriving instance FromJson, ToJson for Vehicle
deriving instance FromJson, ToJson for Instr
deriving instance FromJson, ToJson for Index
deriving instance FromJson, ToJson for Sim
deriving instance FromJson, ToJson for Event
deriving instance FromJson, ToJson for MechKind
deriving instance FromJson, ToJson for Mech
deriving instance FromJson for Timed.ReqRow
deriving instance FromJson for Timed.PriceRow
deriving instance FromJson for Timed.StepObs

/-! ### recorded oracle answers -/

structure RouteAns where
  src : Pos
  dst : Pos
  route : Route
  deriving FromJson

/-- `link_from_link_id`: `kind` = "ok" (with `pos`), "none", "raise" -/
structure LinkEndAns where
  link : LinkId
  kind : String
  pos : Option Pos := none
  deriving FromJson

structure PointAns where
  link : LinkId
  start : Cell
  stop : Cell
  t : Nat
  cell : Cell
  -- (two traversals of one link may carry different lengths / speeds - an estimate and a
  --  re-measured piece - and split at different points: the answer is keyed by them too)
  dist : Option Rat := none
  speed : Option Rat := none
  deriving FromJson

structure GcAns where
  a : Cell
  b : Cell
  d : Rat
  deriving FromJson

structure Oracle where
  parent : List (Cell × Cell) := []
  fence : Option (List Cell) := none        -- `none`: no geofence
  routes : List RouteAns := []
  linkEnd : List LinkEndAns := []
  pointAlong : List PointAns := []
  gc : List GcAns := []
  linkSpeed : List (LinkId × Rat) := []
  deriving FromJson, Inhabited

/-- a value no implementation run produces: makes an oracle miss visible in the diff -/
def missLink : Link := ⟨999999999, 999999999, 999999998, 0, 1⟩

def Oracle.geo (o : Oracle) : Geo where
  pointAlong l t :=
    let geom (a : PointAns) : Bool := a.link == l.id && a.start == l.start && a.stop == l.stop && a.t == t
    match o.pointAlong.find? (fun a => geom a && a.dist == some l.dist && a.speed == some l.speed) with
    | some a => a.cell
    | none =>
      match o.pointAlong.find? geom with
      | some a => a.cell
      | none => 999999999
  gcDist a b :=
    match o.gc.find? (fun g => g.a == a && g.b == b) with
    | some g => g.d
    | none => -1
  linkSpeed l := (o.linkSpeed.find? (fun p => p.1 == l)).map (·.2)

def mechOf (mechs : List Mech) (i : MechId) : Option Mech := mechs.find? (fun m => m.id == i)

/-- the environment the driver runs the model in: physics from `Hive.Energy`/`Hive.Traverse`,
    geometry and routing answers as recorded from the implementation -/
def Oracle.env (o : Oracle) (mechs : List Mech) : Env where
  parent c := match o.parent.find? (fun p => p.1 == c) with
    | some p => p.2
    | none => 999999999
  inFence c := match o.fence with
    | none => true
    | some cs => cs.contains c
  route src dst := match o.routes.find? (fun a => a.src == src && a.dst == dst) with
    | some a => a.route
    | none => [missLink]
  linkEnd l := match o.linkEnd.find? (fun a => a.link == l) with
    | some a => if a.kind == "ok" then a.pos else none
    | none => some ⟨999999999, 999999999⟩
  mechKnown i := (mechOf mechs i).isSome
  isFull v := match mechOf mechs v.mech with
    | some m => m.isFull v.en
    | none => false
  isEmpty v := match mechOf mechs v.mech with
    | some m => m.isEmpty v.en
    | none => false
  validCharger v cs := match mechOf mechs v.mech with
    | some m => m.validCharger cs.electric
    | none => false
  idle v dt := match mechOf mechs v.mech with
    | some m => m.idle v.en dt
    | none => v.en
  consume v r := match mechOf mechs v.mech with
    | some m => m.consume v.en r
    | none => v.en
  addEnergy v cs dt := match mechOf mechs v.mech with
    | some m => m.addEnergy v.en cs.electric cs.rate dt
    | none => v.en
  traverse r dt := Hive.traverse o.geo r dt

end Hive
