/-
  Hive.Shift — human drivers and their shift schedules (C20).

  Python                                                         model
  ------                                                         -----
  util/time_helpers.py  time_in_range                             `inRange`
  time_range_schedule.py  _schedule_fn (utcfromtimestamp(t).time()) `tod`, `scheduled`
  human_driver_state.py  HumanAvailable.update / HumanUnavailable.update   `driverUpdate`
  step_simulation_ops.py  perform_driver_state_updates             `driverUpdates`

  Times of day are seconds since midnight (`HH:MM:SS` has second resolution, and so has the
  simulation clock).
-/
import Hive.Activity

namespace Hive
namespace Shift

def day : Int := 86400

/-- `datetime.utcfromtimestamp(t).time()` as seconds since midnight -/
def tod (t : Time) : Int := t % day

/-- `time_in_range(start, end, x)`: `[start, end)`, wrapping past midnight when `start > end` -/
def inRange (start stop x : Int) : Bool :=
  if start ≤ stop then decide (start ≤ x) && decide (x < stop)
  else decide (start ≤ x) || decide (x < stop)

/-- one row of the schedules file -/
structure Entry where
  id : Nat
  start : Int
  stop : Int
  deriving Repr, Inhabited

/-- `acc.set(schedule_id, fn)` row after row: the last row of an id is the one in force -/
def find (tbl : List Entry) (i : Nat) : Option Entry := tbl.reverse.find? (fun e => e.id == i)

/-- `env.schedules.get(id)` applied to the simulation time; `none` = no such schedule -/
def scheduled (tbl : List Entry) (i : Nat) (t : Time) : Option Bool :=
  (find tbl i).map fun e => inRange e.start e.stop (tod t)

/-- the availability the update leaves a driver with: the schedule's answer, or - without a
    schedule - whatever it was -/
def want (tbl : List Entry) (t : Time) (avail : Bool) (sched : Nat) : Bool :=
  match scheduled tbl sched t with
  | some b => b
  | none => avail

def expectedDriver (tbl : List Entry) (t : Time) : Driver → Driver
  | .autonomous => .autonomous
  | .human a s h p => .human (want tbl t a s) s h p

/-- `driver_state.update(s, env)` for the driver state the vehicle had when the phase began;
    `s0` is the state the phase began with (`_step_drivers` returns it when an update fails) -/
def driverUpdate (env : Env) (tbl : List Entry) (s0 : Sim) (w : World) (veh : Vehicle) : World :=
  match veh.driver with
  | .autonomous => w
  | .human avail sched home pooling =>
    if want tbl w.sim.time avail sched == avail then w
    else match w.sim.vehicle? veh.id with
      | none => { w with sim := s0 }
      | some cur =>
        match w.sim.modifyVehicle env { cur with driver := .human (want tbl w.sim.time avail sched) sched home pooling } with
        | .ok s' => { sim := s', log := w.log ++ [.shift veh.id (want tbl w.sim.time avail sched)] }
        | _ => { sim := s0, log := w.log ++ [.shift veh.id (want tbl w.sim.time avail sched)] }

/-- `perform_driver_state_updates`: over `get_vehicles()` (sorted by id) of the initial state -/
def driverUpdates (env : Env) (tbl : List Entry) (w : World) : World :=
  (sortBy (fun (a b : Vehicle) => decide (a.id ≤ b.id)) w.sim.vehicles).foldl (driverUpdate env tbl w.sim) w

/-! ### closed-form statements for traces (monitor) -/

/-- observation after the driver phase of a step -/
structure Obs where
  time : Time
  avail : List (VehicleId × Bool)          -- human-driven vehicles only, sorted by id
  events : List (VehicleId × Bool)         -- shift events filed in this phase
  deriving Repr, Inhabited

/-- `drivers`: vehicle ↦ (schedule id, initially available) -/
def violShift (tbl : List Entry) (drivers : List (VehicleId × Nat × Bool)) (obs : List Obs) : List String :=
  let step (acc : List (VehicleId × Bool) × List String) (o : Obs) : List (VehicleId × Bool) × List String :=
    let msgs := drivers.flatMap fun (v, sched, _) =>
      let before := ((acc.1.find? (·.1 == v)).map (·.2)).getD false
      let now := ((o.avail.find? (·.1 == v)).map (·.2))
      let exp := want tbl o.time before sched
      let evs := (o.events.filter (·.1 == v)).map (·.2)
      (if now == some exp then [] else
        [s!"C20/availability| vehicle {v} (schedule {sched}) at time {o.time} (second {tod o.time} of the day): available={repr now}, the shift table says {exp}"]) ++
      (if evs == (if exp == before then [] else [exp]) then [] else
        [s!"C20/shift-event| vehicle {v} at time {o.time}: availability {before} -> {exp}, events filed {evs}"])
    (o.avail, acc.2 ++ msgs)
  (obs.foldl step (drivers.map (fun (v, _, a) => (v, a)), [])).2

end Shift
end Hive
