/-
  Hive.Timed — the timed inputs of a run (C11): the windowed file reader, admission of requests,
  cancellation of requests nobody picked up, charging-price tables.

  Python                                                       model
  ------                                                       -----
  util/iterators.py   DictReaderIterator (+ `history` row)      `Reader`, `Reader.read`
  update_requests_from_file.py  UpdateRequestsFromFile.update   `admitRequests`
  cancel_requests.py  CancelRequests.update                     `cancelRequests`
  charging_price_update.py  ChargingPriceUpdate.update          `priceUpdate`
  update.py           Update.apply_update (pre-step part)       `preStep`

  A row of the request file is modelled by the `Request` that `Request.from_row` builds from it
  (parsing is exercised by the correspondence check on real CSV files) plus a flag saying whether
  the row parsed at all; a row of the price table by (time, key, plug, price). What a price key
  *names* - a station id names that station, an H3 cell names the stations inside it - is the
  parameter `names`, computed independently of the implementation's search index by the harness.
-/
import Hive.Activity

namespace Hive
namespace Timed

/-! ### the windowed reader -/

/-- `DictReaderIterator`: the row read past the previous window (`history`) and the unread rows -/
structure Reader (α : Type) where
  history : Option α
  rest : List α
  deriving Repr, Inhabited

/-- `next(self.reader)` until a row falls outside the window; that row is set aside -/
def readRest {α : Type} (key : α → Time) (now : Time) : List α → List α × Reader α
  | [] => ([], ⟨none, []⟩)
  | x :: xs =>
    if key x < now then ((x :: (readRest key now xs).1), (readRest key now xs).2)
    else ([], ⟨some x, xs⟩)

/-- `read_until_stop_condition(lambda value: value < now)` consumed to exhaustion -/
def Reader.read {α : Type} (key : α → Time) (now : Time) (r : Reader α) : List α × Reader α :=
  match r.history with
  | some h =>
    if key h < now then ((h :: (readRest key now r.rest).1), (readRest key now r.rest).2)
    else ([], r)
  | none => readRest key now r.rest

/-- everything not yet handed out, in file order -/
def Reader.pending {α : Type} (r : Reader α) : List α := r.history.toList ++ r.rest

def Reader.ofList {α : Type} (rows : List α) : Reader α := ⟨none, rows⟩

/-! ### requests -/

/-- a row of the requests file: the request `Request.from_row` + `assign_value` make of it -/
structure ReqRow where
  req : Request
  valid : Bool        -- `from_row` returned a request
  deriving Repr, Inhabited

/-- run parameters the updates read from the environment -/
structure Cfg where
  timeout : Int       -- `config.sim.request_cancel_time_seconds`
  fleets : Bool       -- `len(env.fleet_ids) > 0`
  deriving Repr, Inhabited

/-- the filters of `update_requests_from_iterator._update` -/
def admissible (cfg : Cfg) (now : Time) (row : ReqRow) : Bool :=
  row.valid && decide (now < row.req.departure + cfg.timeout) &&
    (cfg.fleets == !row.req.members.isEmpty)

def admitRow (env : Env) (cfg : Cfg) (w : World) (row : ReqRow) : World :=
  if admissible cfg w.sim.time row then
    match w.sim.addRequest env row.req with
    | .ok s' => { sim := s', log := w.log ++ [.addRequest row.req.id] }
    | _ => w
  else w

/-- `UpdateRequestsFromFile.update` -/
def admitRequests (env : Env) (cfg : Cfg) (rd : Reader ReqRow) (w : World) : World × Reader ReqRow :=
  let out := rd.read (fun r => r.req.departure) w.sim.time
  (out.1.foldl (admitRow env cfg) w, out.2)

/-- `CancelRequests._remove_from_sim` -/
def cancelOne (env : Env) (cfg : Cfg) (w : World) (i : RequestId) : World :=
  match w.sim.request? i with
  | none => w
  | some r =>
    if w.sim.time < r.departure + cfg.timeout then w
    else match w.sim.removeRequest env i with
      | .ok s' => { sim := s', log := w.log ++ [.cancelRequest i] }
      | _ => w

/-- `CancelRequests.update`: over `get_request_ids()` (sorted) -/
def cancelRequests (env : Env) (cfg : Cfg) (w : World) : World :=
  (sortBy (fun a b => decide (a ≤ b)) (w.sim.requests.map (·.id))).foldl (cancelOne env cfg) w

/-! ### charging prices -/

structure PriceRow where
  time : Time
  key : Nat           -- station id or region, one interned name space
  plug : ChargerId
  price : Rat
  valid : Bool        -- `float(row["price_kwh"])` succeeded
  deriving Repr, Inhabited

/-- does the row set the price of plug `p` at station `sid`? -/
def PriceRow.hits (names : Nat → List StationId) (sid : StationId) (p : ChargerId) (r : PriceRow) : Bool :=
  r.valid && (names r.key).contains sid && r.plug == p

/-- running maximum of the keys seen -/
def maxKey (m : Option Nat) (r : PriceRow) : Option Nat :=
  match m with
  | none => some r.key
  | some k => some (max k r.key)

/-- the row of a window that decides the price of `(sid, p)`: rows of one key are accumulated
    latest-wins (`_add_row_to_this_update`); keys are merged in sorted order
    (`_map_to_station_ids`), so the greatest key that names the station and plug prevails. -/
def winner (names : Nat → List StationId) (rows : List PriceRow) (sid : StationId) (p : ChargerId) :
    Option PriceRow :=
  let cands := rows.filter (PriceRow.hits names sid p)
  match cands.foldl maxKey none with
  | none => none
  | some k => (cands.filter (fun r => r.key == k)).getLast?

/-- `Station.update_prices` restricted to what the window says about this station -/
def repriced (names : Nat → List StationId) (rows : List PriceRow) (st : Station) : Station :=
  { st with plugs := st.plugs.map fun c =>
      match winner names rows st.id c.id with
      | some r => { c with price := r.price }
      | none => c }

/-- is the station named by some valid row of the window at all? (`as_station_updates` has its id) -/
def touched (names : Nat → List StationId) (rows : List PriceRow) (sid : StationId) : Bool :=
  rows.any fun r => r.valid && (names r.key).contains sid

def repriceStation (env : Env) (names : Nat → List StationId) (rows : List PriceRow) (s : Sim)
    (sid : StationId) : Sim :=
  match s.station? sid with
  | none => s
  | some st =>
    if touched names rows sid then
      match s.modifyStation env (repriced names rows st) with
      | .ok s' => s'
      | _ => s
    else s

/-- `ChargingPriceUpdate.update` -/
def priceUpdate (env : Env) (names : Nat → List StationId) (rd : Reader PriceRow) (s : Sim) :
    Sim × Reader PriceRow :=
  let out := rd.read (·.time) s.time
  ((s.stations.map (·.id)).foldl (repriceStation env names out.1) s, out.2)

/-! ### the pre-step part of `Update.apply_update` -/

structure Inputs where
  prices : Reader PriceRow
  requests : Reader ReqRow
  deriving Repr, Inhabited

/-- price update, request admission, cancellation - in the order of `Update.build` -/
def preStep (env : Env) (cfg : Cfg) (names : Nat → List StationId) (inp : Inputs) (w : World) :
    World × Inputs :=
  let p := priceUpdate env names inp.prices w.sim
  let a := admitRequests env cfg inp.requests { w with sim := p.1 }
  (cancelRequests env cfg a.1, { prices := p.2, requests := a.2 })

/-! ### a scripted run for the correspondence check: pre-step, scripted pick-ups, tick -/

/-- what the harness observes after the pre-step phase of a step -/
structure StepObs where
  time : Time
  adds : List RequestId
  cancels : List RequestId
  present : List RequestId                     -- sorted
  prices : List (StationId × ChargerId × Rat)  -- sorted by station, plug
  pairs : List (VehicleId × RequestId) := []   -- what the built-in dispatcher pairs on this state (harness probe)
  deriving Repr, Inhabited

def observe (w : World) : StepObs :=
  { time := w.sim.time
    adds := w.log.filterMap fun | .addRequest r => some r | _ => none
    cancels := w.log.filterMap fun | .cancelRequest r => some r | _ => none
    present := sortBy (fun a b => decide (a ≤ b)) (w.sim.requests.map (·.id))
    prices := (sortBy (fun (a b : Station) => decide (a.id ≤ b.id)) w.sim.stations).flatMap fun st =>
      (sortBy (fun (a b : ChargerState) => decide (a.id ≤ b.id)) st.plugs).map fun c => (st.id, c.id, c.price) }

/-- the request leaves the simulation because somebody picked it up -/
def pick (env : Env) (s : Sim) (i : RequestId) : Sim :=
  match s.removeRequest env i with
  | .ok s' => s'
  | _ => s

def run (env : Env) (cfg : Cfg) (names : Nat → List StationId) :
    List (List RequestId) → Inputs → Sim → List StepObs
  | [], _, _ => []
  | picks :: more, inp, s =>
    let r := preStep env cfg names inp { sim := s, log := [] }
    let s1 := picks.foldl (pick env) r.1.sim
    observe r.1 :: run env cfg names more r.2 s1.tick

end Timed
end Hive
