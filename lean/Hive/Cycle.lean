/-
  Hive.Cycle — one whole simulation step and runs of steps (C15).

  Python                                                  model
  ------                                                  -----
  update.py       Update.apply_update                      `step`
  step_simulation.py  StepSimulation.update                 the part of `step` after `preStep`
  hive_cosim.py   crank(payload, n)                         `crank`
  local_simulation_runner.py  run / step                    `runnerSteps`, `runnerStep`

  The instruction generators (dispatcher, charging fleet manager, user-supplied ones) and the
  drivers' own instructions are a parameter: any state machine `generate : σ → Sim → σ × List Instr`
  whose state travels in the payload (`Update.step_update`), already reduced to one instruction per
  vehicle by the stack (C09).
-/
import Hive.Step
import Hive.Timed
import Hive.Shift

namespace Hive
namespace Cycle

structure Params (σ : Type) where
  env : Env
  cfg : Timed.Cfg
  names : Nat → List StationId
  shifts : List Shift.Entry
  generate : σ → Sim → σ × List Instr

/-- `RunnerPayload` : the state, and what `Update` carries from step to step (file cursors,
    instruction generators). The environment is constant and lives in `Params`. -/
structure Payload (σ : Type) where
  sim : Sim
  inputs : Timed.Inputs
  gen : σ

/-- `Update.apply_update`: clear the applied-instructions cache, price update, request admission,
    cancellation, driver states, instruction generation, instruction application, vehicle updates,
    tick. Returns the events reported during the step. -/
def step {σ : Type} (P : Params σ) (p : Payload σ) : Payload σ × List Event :=
  let pre := Timed.preStep P.env P.cfg P.names p.inputs { sim := { p.sim with applied := [] }, log := [] }
  let drv := Shift.driverUpdates P.env P.shifts pre.1
  let g := P.generate p.gen drv.sim
  let upd := vehicleUpdates P.env (applyInstructions P.env drv g.2)
  ({ sim := upd.sim.tick, inputs := pre.2, gen := g.1 }, upd.log)

/-- `crank(payload, n)`: `n` steps, events in order -/
def crank {σ : Type} (P : Params σ) : Nat → Payload σ → Payload σ × List Event
  | 0, p => (p, [])
  | n + 1, p => ((crank P n (step P p).1).1, (step P p).2 ++ (crank P n (step P p).1).2)

/-- `LocalSimulationRunner.step`: refuses (`none`) once the clock has reached the end time -/
def runnerStep {σ : Type} (P : Params σ) (stop : Time) (p : Payload σ) : Option (Payload σ × List Event) :=
  if p.sim.time ≥ stop then none else some (step P p)

/-- `len(range(start, end, dt))`: the number of steps `LocalSimulationRunner.run` takes -/
def runnerSteps (start stop : Time) (dt : Nat) : Nat :=
  if stop ≤ start then 0 else ((stop - start + dt - 1) / dt).toNat

/-- `LocalSimulationRunner.run` -/
def run {σ : Type} (P : Params σ) (start stop : Time) (dt : Nat) (p : Payload σ) : Payload σ × List Event :=
  crank P (runnerSteps start stop dt) p

end Cycle
end Hive
