/-
  Hive.Monitor — the executable invariants evaluated on *implementation* states.
  Each function returns the list of violations (empty = holds), tagged with the property id.
-/
import Hive.Activity

namespace Hive

def monitorAll (_env : Env) (_s : Sim) : List String := []

end Hive
