/-
  Hive.Monitor — evaluation of the invariants of `Hive.Inv` on *implementation* states, with
  a message naming the offending entity. Output strings start with the property id.
-/
import Hive.Inv
import Hive.Canon

namespace Hive

def viol02 (s : Sim) : List String :=
  (s.stations.flatMap fun st => (st.plugs.filter (fun cs => !plugOk s st cs)).map fun cs =>
    s!"C02/plug-count| station {st.id} plug {cs.id}: total={cs.total} avail={cs.avail} enq={cs.enq} charging={s.vehicles.countP (holdsPlug s st.id cs.id)} queueing={s.vehicles.countP (queuesFor st.id cs.id)}") ++
  ((s.bases.filter (fun b => !baseOk s b)).map fun b =>
    s!"C02/stall-count| base {b.id}: total={b.total} avail={b.avail} parked={s.vehicles.countP (holdsStall b.id)}")

def viol07 (s : Sim) : List String :=
  (s.vehicles.filter (fun v => !locOk s v)).map fun v => s!"C07/{v.act.kind}| vehicle {v.id} in {v.act.kind} at cell {v.pos.cell}"

def viol10 (s : Sim) : List String :=
  (s.vehicles.filter (fun v => !accessOk s v)).map fun v => s!"C10/{v.act.kind}| vehicle {v.id} in {v.act.kind} without access"

def viol17 (s : Sim) : List String :=
  (s.requests.filter (fun r => !dispatchOk s r)).map fun r => s!"C17/stale-dispatch| request {r.id} records vehicle {r.dispVeh}"

def viol08 (parent : Cell → Cell) (s : Sim) : List String :=
  (if s.vIdx.ok parent (s.vehicles.map fun v => (v.id, v.pos.cell)) then [] else ["C08/vehicle-index| vehicle index disagrees with entities"]) ++
  (if s.rIdx.ok parent (s.requests.map fun r => (r.id, r.pos.cell)) then [] else ["C08/request-index| request index disagrees with entities"]) ++
  (if s.sIdx.ok parent (s.stations.map fun x => (x.id, x.pos.cell)) then [] else ["C08/station-index| station index disagrees with entities"]) ++
  (if s.bIdx.ok parent (s.bases.map fun b => (b.id, b.pos.cell)) then [] else ["C08/base-index| base index disagrees with entities"])

def viol04 (cap : MechId → Option Rat) (s : Sim) : List String :=
  (s.vehicles.filter (fun v => !energyOk cap v)).map fun v => s!"C04/bounds| vehicle {v.id} level out of bounds"

/-- C18 on one update phase of the implementation: among the vehicles queued for (station, plug)
    in the pre-state, none that is still queueing afterwards joined strictly earlier
    (enqueue time, then id) than one that started charging there -/
def viol18Step (env : Env) (pre post : Sim) : List String :=
  let queued : List (Vehicle × StationId × ChargerId × Int) := pre.vehicles.filterMap fun v =>
    match v.act with
    | .chargeQueueing s c t => some (v, s, c, t)
    | _ => none
  queued.flatMap fun (q, s, c, t) =>
    let charging := match post.vehicle? q.id with
      | some v' => (match v'.act with | .chargingStation s' c' => s' == s && c' == c | _ => false)
      | none => false
    if !charging then [] else
      queued.flatMap fun (q', s', c', t') =>
        let earlier := s' == s && c' == c && (t' < t || (t' == t && q'.id < q.id))
        let stillQueued := match post.vehicle? q'.id with
          | some v' => (match v'.act with | .chargeQueueing s2 c2 _ => s2 == s && c2 == c | _ => false)
          | none => false
        if earlier && stillQueued then
          let usable := match (pre.station? s).bind (·.plug? c) with
            | some cs => env.validCharger q' cs
            | none => false
          if usable then [s!"C18/overtaken| vehicle {q.id} (queued at {t}) started charging at station {s} plug {c} while vehicle {q'.id} (queued at {t'}) is left waiting"]
          else [s!"C18/overtaken-unusable-plug| vehicle {q'.id} queues at station {s} for plug {c} which it cannot use and is overtaken by vehicle {q.id}"]
        else []

/-- C18, processing order (theorem `C18.processing_order` as a monitor on the observed order in which
    the update phase stepped the vehicles): of two vehicles waiting in the same queue, the one that
    joined earlier (enqueue time, then id) is stepped first; and every queueing vehicle is stepped
    after every vehicle that is not queueing (a plug given back in this step is seen by the queue) -/
def viol18Order (pre : Sim) (order : List VehicleId) : List String :=
  let idx (v : VehicleId) : Option Nat := order.findIdx? (· == v)
  let queued : List (Vehicle × StationId × ChargerId × Int) := pre.vehicles.filterMap fun v =>
    match v.act with
    | .chargeQueueing s c t => some (v, s, c, t)
    | _ => none
  (queued.flatMap fun (q, s, c, t) =>
    queued.flatMap fun (q', s', c', t') =>
      if s' == s && c' == c && (t' < t || (t' == t && q'.id < q.id)) then
        match idx q.id, idx q'.id with
        | some i, some i' =>
          if i < i' then [s!"C18/processing-order| vehicle {q.id} (queued at {t}) is updated before vehicle {q'.id} (queued at {t'}) of the same queue at station {s}, plug {c}: a plug that frees up goes to the later arrival"]
          else []
        | _, _ => []
      else []) ++
  (queued.flatMap fun (q, _, _, _) =>
    pre.vehicles.flatMap fun o =>
      match o.act with
      | .chargeQueueing _ _ _ => []
      | _ =>
        match idx q.id, idx o.id with
        | some i, some j => if i < j then [s!"C18/processing-order| queueing vehicle {q.id} is updated before vehicle {o.id}, which is not queueing: a plug {o.id} gives back in this step is not seen by the queue"] else []
        | _, _ => [])

/-- observed queue membership: vehicle, station, plug, the clock of the first state in which the
    vehicle was seen waiting there (kept by the driver along a history) -/
abbrev Joined := List (VehicleId × StationId × ChargerId × Int)

/-- bring the observed queue membership up to date with a state of the history -/
def Joined.update (j : Joined) (s : Sim) : Joined :=
  s.vehicles.filterMap fun v =>
    match v.act with
    | .chargeQueueing st c _ =>
      match j.find? (fun e => e.1 == v.id && e.2.1 == st && e.2.2.1 == c) with
      | some e => some e
      | none => some (v.id, st, c, s.time)
    | _ => none

/-- C18 on one update phase, judged by *observed* arrival in the queue (the step in which the
    vehicle was first seen waiting, ties by id) instead of the `enqueue_time` field the
    implementation keeps: nobody who arrived strictly earlier is left waiting while a later one
    starts charging -/
def viol18Observed (env : Env) (j : Joined) (pre post : Sim) : List String :=
  let queued := j.filter fun e => match pre.vehicle? e.1 with
    | some v => (match v.act with | .chargeQueueing s c _ => s == e.2.1 && c == e.2.2.1 | _ => false)
    | none => false
  queued.flatMap fun (q, s, c, t) =>
    let charging := match post.vehicle? q with
      | some v' => (match v'.act with | .chargingStation s' c' => s' == s && c' == c | _ => false)
      | none => false
    if !charging then [] else
      queued.flatMap fun (q', s', c', t') =>
        let earlier := s' == s && c' == c && (t' < t || (t' == t && q' < q))
        let stillQueued := match post.vehicle? q' with
          | some v' => (match v'.act with | .chargeQueueing s2 c2 _ => s2 == s && c2 == c | _ => false)
          | none => false
        let usable := match pre.vehicle? q', (pre.station? s).bind (·.plug? c) with
          | some v', some cs => env.validCharger v' cs && !env.isFull v'
          | _, _ => false
        if earlier && stillQueued && usable then
          [s!"C18/overtaken-observed| vehicle {q} (seen waiting since {t}) started charging at station {s} plug {c} while vehicle {q'} (seen waiting since {t'}) is left waiting"]
        else []

/-- all state monitors -/
def monitorAll (env : Env) (s : Sim) : List String :=
  viol02 s ++ viol07 s ++ viol08 env.parent s ++ viol10 s ++ viol17 s

/-! ### step monitors (pre-state, post-state, events of one phase) on implementation data -/

def sumQ (xs : List Rat) : Rat := xs.foldl (· + ·) 0

def absTol (scale : Rat) : Rat := (1 / 1000000000 : Rat) * max 1 scale

/-- C04 ledger per vehicle and phase: `Δlevel = Δgained − Δexpended`, totals never decrease -/
def viol04Step (pre post : Sim) : List String :=
  post.vehicles.flatMap fun v =>
    match pre.vehicle? v.id with
    | none => []
    | some p =>
      let dl := v.en.level - p.en.level
      let dg := v.en.gained - p.en.gained
      let dx := v.en.expended - p.en.expended
      let tol := absTol (max (ratAbs v.en.level) (max (ratAbs v.en.gained) (ratAbs v.en.expended)))
      (if ratAbs (dl - (dg - dx)) ≤ tol then [] else [s!"C04/ledger| vehicle {v.id}: level changed by {Val.show (.q dl)} but gained-expended changed by {Val.show (.q (dg - dx))}"]) ++
      (if dg < -tol || dx < -tol then [s!"C04/totals-decrease| vehicle {v.id}: running totals decreased"] else [])

/-- C04 per phase, from the charge events: a charging step adds no more than the plug the vehicle
    is connected to - the station's own, possibly throttled, plug - delivers in one step
    (electricity: kW × s / 3600; fuel: units per second × s), and never a negative amount -/
def viol04Plug (isEl : MechId → Bool) (pre : Sim) (evs : List Event) : List String :=
  evs.flatMap fun
    | .charge v sid cid amount _ =>
      match pre.vehicle? v, (pre.station? sid).bind (·.plug? cid) with
      | some veh, some cs =>
        let bound : Rat := if isEl veh.mech then cs.rate * pre.dt * (1 / 3600) else cs.rate * pre.dt
        (if amount > bound + absTol bound then
          [s!"C04/charge-exceeds-plug| vehicle {v} gained {Val.show (.q amount)} in one step at plug {cid} of station {sid}, which delivers at most {Val.show (.q bound)} in a step (rate {Val.show (.q cs.rate)})"]
         else []) ++
        (if amount < -(absTol bound) then [s!"C04/charge-lowered| vehicle {v}: a charging step at station {sid} carries the negative amount {Val.show (.q amount)}"] else [])
      | _, _ => []
    | _ => []

/-- C04, last clause, per update phase: a vehicle that ends the phase with no energy left has not
    moved in it (`move` takes a vehicle whose movement would empty it out of service *instead of*
    moving it) -/
def viol04Move (isEmpty : Vehicle → Bool) (pre post : Sim) : List String :=
  post.vehicles.flatMap fun v =>
    match pre.vehicle? v.id with
    | none => []
    | some p =>
      if isEmpty v && (v.odo > p.odo || v.pos != p.pos) then
        [s!"C04/moved-on-empty| vehicle {v.id} moved {Val.show (.q (v.odo - p.odo))} km in a step that left it without energy (level {Val.show (.q v.en.level)}); it should have gone out of service instead of moving"]
      else []

/-- C06 per update phase, from positions alone: a vehicle is displaced no farther (as the crow
    flies, `crow`: measured by the harness between the cells before and after) than its odometer
    advanced - roads are at least as long as the straight line between their ends; and a vehicle
    that stood still keeps its odometer -/
def viol06Displacement (pre post : Sim) (crow : List (VehicleId × Rat)) : List String :=
  crow.flatMap fun (i, d) =>
    match pre.vehicle? i, post.vehicle? i with
    | some p, some v =>
      let adv := v.odo - p.odo
      if d > adv + (1 / 1000000 : Rat) + adv * (1 / 1000000 : Rat) then
        [s!"C06/displacement| vehicle {i} is displaced {Val.show (.q d)} km as the crow flies by one update phase while its odometer advanced only {Val.show (.q adv)} km (it covered road that no link of its route accounts for)"]
      else []
    | _, _ => []

/-- C06 per update phase: a vehicle that stood at the end of its route in a travelling activity
    when the phase began (route used up) has left that activity when the phase ends, or at least
    is no longer a traveller without a route - "leaves the travelling activity within one step of
    arriving" (only for the activities whose way out cannot be refused: Repositioning, DispatchTrip,
    ServicingTrip) -/
def viol06Stuck (isEmpty : Vehicle → Bool) (pre post : Sim) : List String :=
  post.vehicles.flatMap fun v =>
    match pre.vehicle? v.id with
    | none => []
    | some p =>
      let stuckKind : Bool := match p.act, v.act with
        | .repositioning [], .repositioning [] => true
        | .dispatchTrip r [], .dispatchTrip r' [] =>
          -- (a request that allows pooling goes down the pooling path, which the model does not cover)
          r == r' && (match pre.request? r with | some q => !q.allowsPooling | none => true)
        | .servicingTrip q _ [], .servicingTrip q' _ [] => q.id == q'.id
        | _, _ => false
      if stuckKind && !isEmpty v then
        [s!"C06/stuck-after-arrival| vehicle {v.id} had used up its route before the update phase and is still in the same travelling activity ({v.act.kind}) with an empty route after it"]
      else []

/-- C03, last clause: no instruction diverts a vehicle that is carrying passengers. After an
    instruction phase (or a single-instruction probe) a vehicle that was in `ServicingTrip` with road
    ahead is still serving the same request. (Running out of energy happens in the update phase.) -/
def viol03Divert (pre post : Sim) : List String :=
  pre.vehicles.flatMap fun p =>
    match p.act with
    | .servicingTrip q _ route =>
      if route.isEmpty then [] else
      match post.vehicle? p.id with
      | some v =>
        (match v.act with
         | .servicingTrip q' _ _ => if q'.id == q.id then [] else
             [s!"C03/diverted| vehicle {p.id} carrying request {q.id} was given another trip by an instruction"]
         | other => [s!"C03/diverted| vehicle {p.id} was carrying request {q.id} with road ahead; after the instruction phase it is {other.kind}: an instruction diverted a vehicle with passengers on board"])
      | none => []
    | _ => []

/-- C19 per phase: per vehicle the move events of the phase sum to the odometer's advance and
    the charge events to the energy gained -/
def viol19Step (pre post : Sim) (evs : List Event) : List String :=
  -- a pickup or cancel report accounts for a state change: the request has left the waiting set
  (evs.flatMap fun e => match e with
    | .pickup v r _ _ =>
      if (post.request? r).isSome && (pre.request? r).isSome then
        [s!"C19/pickup-without-change| a pickup of request {r} by vehicle {v} was reported, but the request is still waiting after the phase: the report accounts for no state change"]
      else []
    | .cancelRequest r =>
      if (post.request? r).isSome && (pre.request? r).isSome then
        [s!"C19/cancel-without-change| a cancellation of request {r} was reported, but the request is still waiting after the phase"]
      else []
    | _ => []) ++
  post.vehicles.flatMap fun v =>
    match pre.vehicle? v.id with
    | none => []
    | some p =>
      let km := sumQ (evs.map fun e => match e with | .move v' k _ => if v' == v.id then k else 0 | _ => 0)
      let en := sumQ (evs.map fun e => match e with | .charge v' _ _ a _ => if v' == v.id then a else 0 | _ => 0)
      let dOdo := v.odo - p.odo
      let dGain := v.en.gained - p.en.gained
      (if ratAbs (km - dOdo) ≤ absTol (max (ratAbs km) (ratAbs dOdo)) then [] else
        [s!"C19/odometer| vehicle {v.id}: the phase's move events sum to {Val.show (.q km)} km, the odometer advanced by {Val.show (.q dOdo)} km"]) ++
      (if ratAbs (en - dGain) ≤ absTol (max (ratAbs en) (ratAbs dGain)) then [] else
        [s!"C19/energy-gained| vehicle {v.id}: the phase's charge events sum to {Val.show (.q en)}, the vehicle gained {Val.show (.q dGain)}"])

/-- C05 per phase: energy gained by vehicles = energy dispensed by stations (per type);
    money paid by vehicles for charging = money received by stations; each charge event is priced
    at the pre-state tariff -/
def viol05Step (mechElectric : MechId → Bool) (pre post : Sim) (evs : List Event) : List String :=
  let dGain (el : Bool) : Rat := sumQ (post.vehicles.map fun v =>
    match pre.vehicle? v.id with
    | some p => if mechElectric v.mech == el then v.en.gained - p.en.gained else 0
    | none => 0)
  let dDisp (el : Bool) : Rat := sumQ (post.stations.map fun st =>
    match pre.station? st.id with
    | some p => if el then st.dispE - p.dispE else st.dispG - p.dispG
    | none => 0)
  let fares : Rat := sumQ (evs.map fun e => match e with | .pickup _ _ f _ => f | _ => 0)
  let paid : Rat := sumQ (evs.map fun e => match e with | .charge _ _ _ _ p => p | _ => 0)
  let dVehBal : Rat := sumQ (post.vehicles.map fun v => match pre.vehicle? v.id with | some p => v.balance - p.balance | none => 0)
  let dStnBal : Rat := sumQ (post.stations.map fun st => match pre.station? st.id with | some p => st.balance - p.balance | none => 0)
  let scale := max (ratAbs (dGain true)) (max (ratAbs (dGain false)) (max (ratAbs fares) (max (ratAbs paid) (max (ratAbs dVehBal) (ratAbs dStnBal)))))
  let tol := absTol scale
  (if ratAbs (dGain true - dDisp true) ≤ tol then [] else [s!"C05/energy-electric| electric energy gained {Val.show (.q (dGain true))} ≠ dispensed {Val.show (.q (dDisp true))}"]) ++
  (if ratAbs (dGain false - dDisp false) ≤ tol then [] else [s!"C05/energy-gasoline| gasoline gained {Val.show (.q (dGain false))} ≠ dispensed {Val.show (.q (dDisp false))}"]) ++
  (if ratAbs (dVehBal - (fares - paid)) ≤ tol then [] else [s!"C05/vehicle-balance| vehicle balances changed by {Val.show (.q dVehBal)} but fares-payments = {Val.show (.q (fares - paid))}"]) ++
  (if ratAbs (dStnBal - paid) ≤ tol then [] else [s!"C05/station-balance| station balances changed by {Val.show (.q dStnBal)} but payments = {Val.show (.q paid)}"]) ++
  (evs.flatMap fun e => match e with
    | .charge v sid cid amount price =>
      match (pre.station? sid).bind (·.plug? cid) with
      | some cs => if ratAbs (price - amount * cs.price) ≤ absTol (ratAbs price) then [] else [s!"C05/tariff| charge event of vehicle {v}: price {Val.show (.q price)} ≠ amount × tariff {Val.show (.q (amount * cs.price))}"]
      | none => [s!"C05/unknown-plug| charge event of vehicle {v} at unknown plug"]
    | _ => [])

end Hive
