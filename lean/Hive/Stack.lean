/-
  Hive.Stack — the per-vehicle instruction stack of one step
  (`DictOps.add_to_stack_dict`, `InstructionGenerationResult`, the pop loop of `StepSimulation.update`).
-/
import Hive.Types

namespace Hive

/-- `immutables.Map[VehicleId, Tuple[Instruction, ...]]`, newest first -/
abbrev IStack := List (VehicleId × List Instr)

namespace IStack

/-- `add_to_stack_dict(acc, i.vehicle_id, i)` -/
def push (st : IStack) (i : Instr) : IStack :=
  if st.any (fun p => p.1 == i.vehicle) then
    st.map (fun p => if p.1 == i.vehicle then (p.1, i :: p.2) else p)
  else st ++ [(i.vehicle, [i])]

/-- one generator's instructions, in the order returned -/
def pushAll (st : IStack) (is : List Instr) : IStack := is.foldl push st

/-- `generate_instructions`: generators in order, then the drivers' instructions -/
def generate (gens : List (List Instr)) (drivers : List Instr) : IStack :=
  pushAll (gens.foldl pushAll []) drivers

/-- the pop loop: `for vid in sorted(keys): final = (top,) + final` — descending vehicle id -/
def pop (st : IStack) : List Instr :=
  ((sortBy (fun a b => a.1 ≤ b.1) st).filterMap (fun p => p.2.head?)).reverse

end IStack

/-- the instructions `apply_instructions` receives -/
def finalInstructions (gens : List (List Instr)) (drivers : List Instr) : List Instr :=
  (IStack.generate gens drivers).pop

end Hive
