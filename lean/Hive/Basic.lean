/-
  Hive.Basic — outcome type of every HIVE state operation, id-keyed list containers, sorting.

  Python's `(error, None) | (None, None) | (None, value)` triples are `Outcome`.
  `immutables.Map` / `frozenset` are lists *without an order promise*; wherever the Python code
  sorts, the model sorts (`sortBy`); wherever it does not, the model traverses the list as given.
  Core Lean only (no Mathlib): this file is imported by the executable driver.
-/
namespace Hive

/-- `(None, a)` / `(None, None)` / `(err, None)` -/
inductive Outcome (α : Type) where
  | ok (a : α)
  | rejected
  | error
  deriving Repr, DecidableEq, Inhabited

namespace Outcome

@[simp] def bind {α β : Type} : Outcome α → (α → Outcome β) → Outcome β
  | ok a, f => f a
  | rejected, _ => rejected
  | error, _ => error

instance : Monad Outcome where
  pure := ok
  bind := bind

@[simp] theorem pure_eq {α : Type} (a : α) : (pure a : Outcome α) = ok a := rfl
@[simp] theorem bind_eq {α β : Type} (x : Outcome α) (f : α → Outcome β) : (x >>= f) = x.bind f := rfl

def toOption {α : Type} : Outcome α → Option α
  | ok a => some a
  | _ => none

def kind {α : Type} : Outcome α → String
  | ok _ => "ok"
  | rejected => "rejected"
  | error => "error"

/-- `None → error` (the `if not x: return SimulationStateError(...), None` idiom) -/
def ofOption {α : Type} : Option α → Outcome α
  | some a => ok a
  | none => error

end Outcome

/-! ### id-keyed containers (immutables.Map) -/

section Keyed
variable {α : Type}

/-- `m.get(i)` -/
def lookup (key : α → Nat) (xs : List α) (i : Nat) : Option α :=
  xs.find? (fun x => key x == i)

/-- `m.set(x.id, x)` when the key is present: replace in place (position irrelevant: unordered) -/
def replaceById (key : α → Nat) (xs : List α) (x : α) : List α :=
  xs.map (fun y => if key y == key x then x else y)

/-- `m.set(x.id, x)`: replace when present, otherwise add -/
def upsert (key : α → Nat) (xs : List α) (x : α) : List α :=
  if xs.any (fun y => key y == key x) then replaceById key xs x else xs ++ [x]

/-- `m.delete(i)` -/
def removeById (key : α → Nat) (xs : List α) (i : Nat) : List α :=
  xs.filter (fun y => key y != i)

end Keyed

/-! ### sorting (insertion sort; stable) -/

section Sorting
variable {α : Type}

def insertBy (le : α → α → Bool) (x : α) : List α → List α
  | [] => [x]
  | y :: ys => if le x y then x :: y :: ys else y :: insertBy le x ys

/-- stable insertion sort: `sorted(xs, key=…)` -/
def sortBy (le : α → α → Bool) : List α → List α
  | [] => []
  | x :: xs => insertBy le x (sortBy le xs)

end Sorting

/-- lexicographic `≤` on pairs, as Python tuple comparison -/
def lexLe (a b : Int × Nat) : Bool := a.1 < b.1 || (a.1 == b.1 && a.2 ≤ b.2)

end Hive
