/-
  Hive.SiteTypes — the row type of the iteration-site table that `harness/sites.py` regenerates
  from /repo's source on every run (`Hive/Gen/Sites.lean`).
-/
namespace Hive

/-- how the consumer of an iteration over a hash-ordered container sees its order -/
inductive SiteCls
  | sorted      -- consumed by `sorted`, `DictOps.iterate_*`, `.sort`
  | orderFree   -- consumed by `any`/`all`/`len`/`set`/`frozenset`/`dict`/`Map`/`sum`, a set or dict comprehension
  | raw         -- anything else: the order is observable
  deriving DecidableEq, Repr

/-- one syntactic iteration over a hash-ordered container: module (below `nrel.hive`), qualified
    function, normalised iterable (local names erased), class of its consumer -/
structure Site where
  module : String
  fn : String
  iter : String
  cls : SiteCls
  deriving DecidableEq, Repr

end Hive
