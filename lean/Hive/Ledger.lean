/-
  Hive.Ledger — the request ledger automaton of C03, run over the *implementation's* event
  stream and states, phase by phase. Each admitted request id moves along
      waiting → onBoard v → droppedOff v        waiting → cancelled        onBoard v → stranded v
  exactly once; anything else is a violation.
-/
import Hive.Inv
import Hive.Canon

namespace Hive

inductive RStatus where
  | waiting | onBoard (v : VehicleId) | droppedOff (v : VehicleId) | cancelled | stranded (v : VehicleId)
  deriving DecidableEq, Repr, Inhabited

structure Ledger where
  status : List (RequestId × RStatus) := []
  fares : List (VehicleId × Rat) := []          -- Σ fares credited per vehicle
  deriving Repr, Inhabited

namespace Ledger

def get (l : Ledger) (r : RequestId) : Option RStatus := (l.status.find? (fun p => p.1 == r)).map (·.2)

def set (l : Ledger) (r : RequestId) (st : RStatus) : Ledger :=
  if l.status.any (fun p => p.1 == r) then
    { l with status := l.status.map (fun p => if p.1 == r then (r, st) else p) }
  else { l with status := l.status ++ [(r, st)] }

def credit (l : Ledger) (v : VehicleId) (x : Rat) : Ledger :=
  if l.fares.any (fun p => p.1 == v) then
    { l with fares := l.fares.map (fun p => if p.1 == v then (v, p.2 + x) else p) }
  else { l with fares := l.fares ++ [(v, x)] }

/-- process one event against the pre-state of the phase; returns the new ledger and violations -/
def event (pre : Sim) (l : Ledger) (e : Event) : Ledger × List String :=
  match e with
  | .addRequest r =>
    match l.get r with
    | none => (l.set r .waiting, [])
    | some _ => (l, [s!"C03/readmitted| request {r} admitted twice"])
  | .cancelRequest r =>
    match l.get r with
    | some .waiting => (l.set r .cancelled, [])
    | other => (l, [s!"C03/bad-cancel| request {r} cancelled while {reprStr other}"])
  | .pickup v r fare _ =>
    let val : List String := match pre.request? r with
      | some req => if ratClose req.value fare then [] else [s!"C03/fare| pickup of {r} credited {Val.show (.q fare)} instead of {Val.show (.q req.value)}"]
      | none => [s!"C03/pickup-not-waiting| request {r} picked up although it is not in the waiting set"]
    match l.get r with
    | some .waiting => ((l.set r (.onBoard v)).credit v fare, val)
    | other => (l, [s!"C03/bad-pickup| request {r} picked up by {v} while {reprStr other}"] ++ val)
  | .dropoff v r =>
    match l.get r with
    | some (.onBoard v') =>
      if v == v' then (l.set r (.droppedOff v), [])
      else (l, [s!"C03/dropoff-wrong-vehicle| request {r} on board of {v'} dropped off by {v}"])
    | other => (l, [s!"C03/bad-dropoff| request {r} dropped off by {v} while {reprStr other}"])
  | _ => (l, [])

/-- after a phase: the ledger must explain the post-state -/
def reconcile (post : Sim) (l : Ledger) : Ledger × List String :=
  let onboardOf (r : RequestId) : Option VehicleId :=
    (post.vehicles.find? (fun v => match v.act with | .servicingTrip q _ _ => q.id == r | _ => false)).map (·.id)
  -- vehicles that were carrying a request and are no longer in ServicingTrip without drop-off: stranded
  let l1 : Ledger := l.status.foldl (fun acc p => match p.2 with
    | .onBoard v => match onboardOf p.1 with
      | some _ => acc
      | none => match post.vehicle? v with
        | some veh => (match veh.act with
          | .outOfService => acc.set p.1 (.stranded v)
          | _ => acc)
        | none => acc
    | _ => acc) l
  let viol : List String :=
    (l1.status.flatMap fun p => match p.2 with
      | .waiting => if (post.request? p.1).isSome then [] else [s!"C03/vanished| waiting request {p.1} disappeared without pickup or cancel event"]
      | .onBoard v => match onboardOf p.1 with
        | some v' => if v == v' then [] else [s!"C03/carrier-changed| request {p.1} picked up by {v} is carried by {v'}"]
        | none => [s!"C03/lost-on-board| request {p.1} on board of {v} is carried by nobody (no drop-off, vehicle not out of service)"]
      | _ => if (post.request? p.1).isSome then [s!"C03/resurrected| resolved request {p.1} is waiting again"] else []) ++
    (post.requests.flatMap fun r => match l1.get r.id with
      | some _ => []
      | none => [s!"C03/unknown-waiting| request {r.id} is waiting but was never admitted"]) ++
    (post.vehicles.flatMap fun v => match v.act with
      | .servicingTrip q _ route => match l1.get q.id with
        | some (.onBoard v') => if v' == v.id then [] else [s!"C03/double-carrier| request {q.id} carried by {v.id} and {v'}"]
        -- after the drop-off the vehicle stays in ServicingTrip with an empty route until its next update
        | some (.droppedOff v') => if v' == v.id && route.isEmpty then [] else [s!"C03/carried-after-dropoff| vehicle {v.id} still carries request {q.id} dropped off by {v'}"]
        | other => [s!"C03/carried-unaccounted| vehicle {v.id} carries request {q.id} which is {reprStr other}"]
      | _ => [])
  (l1, viol)

/-- one phase: events against the pre-state, then reconciliation with the post-state -/
def phase (l : Ledger) (pre post : Sim) (evs : List Event) : Ledger × List String :=
  let (l1, v1) := evs.foldl (fun (acc : Ledger × List String) e =>
    let (l', v') := event pre acc.1 e
    (l', acc.2 ++ v')) (l, [])
  let (l2, v2) := reconcile post l1
  (l2, v1 ++ v2)

end Ledger
end Hive
