/-
  Hive.Dispatch — the built-in trip dispatcher (C12): eligibility filters and the checker that
  accepts an assignment only with a proof of its minimality.

  Python                                                    model
  ------                                                    -----
  dispatcher.py  _is_valid_for_dispatch                       `eligible`
  dispatcher.py  _valid_request                               `waiting`
  dispatcher.py  generate_instructions (per fleet)            `vehiclesOf`, `requestsOf`, `checkFleet`
  assignment_ops.py  find_assignment (scipy Kuhn-Munkres)     not modelled: its answer is *checked*

  `linear_sum_assignment` is compiled code outside the repository. Instead of modelling it, the
  model accepts its answer only together with a dual certificate (vehicle and request potentials,
  found by the harness); `Hive.C12.checkFleet_sound` proves that an accepted answer is a valid
  pairing of maximal size and minimal total cost. `range` is `mechatronics.range_remaining_km`,
  `cost` is `h3.h3_distance` between the vehicle's cell and the request's origin cell.
-/
import Hive.Activity

namespace Hive
namespace Dispatch

/-- the part of `DispatcherConfig` the trip dispatcher reads -/
structure DCfg where
  validKinds : List String      -- `valid_dispatch_states`, lower-case class names
  matchRange : Rat              -- `matching_range_km_threshold`
  baseRange : Rat               -- `base_charging_range_km_threshold`
  deriving Repr, Inhabited

/-- `vehicle.vehicle_state.__class__.__name__.lower()` -/
def kindLower : Act → String
  | .idle _ => "idle"
  | .repositioning _ => "repositioning"
  | .outOfService => "outofservice"
  | .dispatchTrip _ _ => "dispatchtrip"
  | .servicingTrip _ _ _ => "servicingtrip"
  | .dispatchStation _ _ _ => "dispatchstation"
  | .chargingStation _ _ => "chargingstation"
  | .chargeQueueing _ _ _ => "chargequeueing"
  | .dispatchBase _ _ => "dispatchbase"
  | .reserveBase _ => "reservebase"
  | .chargingBase _ _ => "chargingbase"
  | .servicingPooling => "servicingpoolingtrip"
  | .dispatchPooling => "dispatchpoolingtrip"

/-- `mechatronics.range_remaining_km`: energy level × nominal distance per unit of energy
    (BEV: km per kWh from `nominal_watt_hour_per_mile`; ICE: km per gallon from `nominal_miles_per_gallon`) -/
def rangeKm (level kmPerUnit : Rat) : Rat := level * kmPerUnit

/-- `_is_valid_for_dispatch`: dispatchable activity, not paired while an earlier fleet was solved,
    driver on shift, open to the fleet (a vehicle without any membership counts as open to every
    fleet - known finding F6), enough remaining range (a vehicle charging at a base must also have
    enough range to leave it) -/
def eligible (cfg : DCfg) (range : VehicleId → Option Rat) (usedV : List VehicleId) (fleet : Option FleetId)
    (v : Vehicle) : Bool :=
  cfg.validKinds.contains (kindLower v.act) && !usedV.contains v.id && v.driver.available &&
  (match fleet with
   | none => true
   | some f => v.members.isEmpty || v.members.contains f) &&
  (match range v.id with
   | none => false
   | some r =>
     (match v.act with
      | .chargingBase _ _ => !decide (r < cfg.baseRange)
      | _ => true) && decide (cfg.matchRange < r))

/-- `_valid_request`: nobody is on the way yet, not paired while an earlier fleet was solved, and
    the request is open to the fleet -/
def waiting (usedR : List RequestId) (fleet : Option FleetId) (r : Request) : Bool :=
  r.dispVeh.isNone && !usedR.contains r.id &&
  (match fleet with
   | none => true
   | some f => r.members.isEmpty || r.members.contains f)

def vehiclesOf (cfg : DCfg) (range : VehicleId → Option Rat) (usedV : List VehicleId) (fleet : Option FleetId)
    (s : Sim) : List VehicleId :=
  (s.vehicles.filter (eligible cfg range usedV fleet)).map (·.id)

def requestsOf (usedR : List RequestId) (fleet : Option FleetId) (s : Sim) : List RequestId :=
  (s.requests.filter (waiting usedR fleet)).map (·.id)

/-! ### the checker -/

/-- every row matched exactly once, columns at most once and inside `cols` -/
def completeOk (rows cols : List Nat) (m : List (Nat × Nat)) : Bool :=
  (m.map (·.1)).isPerm rows && decide ((m.map (·.2)).Nodup) && (m.map (·.2)).all (cols.contains ·)

/-- dual feasibility and complementary slackness -/
def certOk (rows cols : List Nat) (c : Nat → Nat → Int) (u v : Nat → Int) (m : List (Nat × Nat)) : Bool :=
  rows.all (fun i => cols.all fun j => decide (u i + v j ≤ c i j)) &&
  cols.all (fun j => decide (v j ≤ 0)) &&
  m.all (fun p => decide (u p.1 + v p.2 = c p.1 p.2)) &&
  cols.all (fun j => (m.map (·.2)).contains j || decide (v j = 0))

/-- the implementation's answer for one fleet, with the certificate -/
structure Answer where
  fleet : Option FleetId
  pairs : List (VehicleId × RequestId)
  potV : List (VehicleId × Int)
  potR : List (RequestId × Int)
  deriving Repr, Inhabited

def potOf (l : List (Nat × Int)) (i : Nat) : Int := ((l.find? (·.1 == i)).map (·.2)).getD 0

def swap (m : List (Nat × Nat)) : List (Nat × Nat) := m.map fun p => (p.2, p.1)

/-- accept the answer for one fleet: the smaller side is completely matched, with a certificate -/
def checkFleet (cfg : DCfg) (range : VehicleId → Option Rat) (cost : VehicleId → RequestId → Int) (s : Sim)
    (usedV : List VehicleId) (usedR : List RequestId) (a : Answer) : Bool :=
  let V := vehiclesOf cfg range usedV a.fleet s
  let R := requestsOf usedR a.fleet s
  if V.length ≤ R.length then
    completeOk V R a.pairs && certOk V R cost (potOf a.potV) (potOf a.potR) a.pairs
  else
    completeOk R V (swap a.pairs) && certOk R V (fun r v => cost v r) (potOf a.potR) (potOf a.potV) (swap a.pairs)

/-- one run of the dispatcher: the fleets one after the other (sorted), what an earlier fleet
    paired is taken -/
def checkRun (cfg : DCfg) (range : VehicleId → Option Rat) (cost : VehicleId → RequestId → Int) (s : Sim) :
    List VehicleId → List RequestId → List Answer → Bool
  | _, _, [] => true
  | usedV, usedR, a :: more =>
    checkFleet cfg range cost s usedV usedR a &&
      checkRun cfg range cost s (usedV ++ a.pairs.map (·.1)) (usedR ++ a.pairs.map (·.2)) more

end Dispatch
end Hive
