/-
  Hive.Types — the entities of a HIVE simulation state as plain Lean structures.

  Python                                         model
  ------                                         -----
  str ids (vehicle/station/base/request/…)       Nat (the harness sends ranks that preserve Python's order)
  H3 cell strings                                Nat (palette index; `parent` is an oracle)
  float                                          Rat (exact value of the float)
  immutables.Map / frozenset                     List without order promise
  VehicleState subclasses                        `Act`
  (err, None) / (None, None) / (None, x)         `Outcome`
-/
import Hive.Basic

namespace Hive

abbrev VehicleId := Nat
abbrev StationId := Nat
abbrev BaseId := Nat
abbrev RequestId := Nat
abbrev ChargerId := Nat
abbrev FleetId := Nat
abbrev MechId := Nat
abbrev Cell := Nat
abbrev LinkId := Nat
abbrev Time := Int

/-- `EntityPosition(link_id, geoid)` -/
structure Pos where
  link : LinkId
  cell : Cell
  deriving DecidableEq, Repr, Inhabited

/-- `LinkTraversal(link_id, start, end, distance_km, speed_kmph)` -/
structure Link where
  id : LinkId
  start : Cell
  stop : Cell
  dist : Rat
  speed : Rat
  deriving DecidableEq, Repr, Inhabited

abbrev Route := List Link

/-- `Membership.memberships` (a frozenset); `[]` is public -/
abbrev Membership := List FleetId

/-- `ChargerState` together with the `Charger` it wraps (`energy_type`, `rate`) -/
structure ChargerState where
  id : ChargerId
  electric : Bool
  rate : Rat
  total : Nat
  avail : Nat
  price : Rat
  enq : Nat
  deriving DecidableEq, Repr, Inhabited

structure Station where
  id : StationId
  pos : Pos
  members : Membership
  plugs : List ChargerState
  onShift : List ChargerId
  balance : Rat
  dispE : Rat        -- energy_dispensed[ELECTRIC]
  dispG : Rat        -- energy_dispensed[GASOLINE]
  deriving DecidableEq, Repr, Inhabited

structure Base where
  id : BaseId
  pos : Pos
  members : Membership
  total : Nat
  avail : Nat
  station : Option StationId
  deriving DecidableEq, Repr, Inhabited

structure Request where
  id : RequestId
  pos : Pos                 -- origin
  dest : Pos
  departure : Time
  passengers : Nat          -- every passenger's destination is `dest.cell`
  members : Membership
  allowsPooling : Bool
  value : Rat
  dispVeh : Option VehicleId
  dispTime : Option Time
  deriving DecidableEq, Repr, Inhabited

/-- the vehicle activities (`VehicleState` subclasses). Pooling activities carry no payload:
    they are unreachable (see `Properties/Reach.lean`), the model only needs the failing `enter`. -/
inductive Act where
  | idle (dur : Nat)
  | repositioning (route : Route)
  | outOfService
  | dispatchTrip (rid : RequestId) (route : Route)
  | servicingTrip (req : Request) (dep : Time) (route : Route)
  | dispatchStation (sid : StationId) (cid : ChargerId) (route : Route)
  | chargingStation (sid : StationId) (cid : ChargerId)
  | chargeQueueing (sid : StationId) (cid : ChargerId) (enq : Time)
  | dispatchBase (bid : BaseId) (route : Route)
  | reserveBase (bid : BaseId)
  | chargingBase (bid : BaseId) (cid : ChargerId)
  | servicingPooling
  | dispatchPooling
  deriving DecidableEq, Repr, Inhabited

/-- `DriverState`: `AutonomousAvailable` or `HumanAvailable/HumanUnavailable(attributes)` -/
inductive Driver where
  | autonomous
  | human (available : Bool) (schedule : Nat) (home : BaseId) (pooling : Bool)
  deriving DecidableEq, Repr, Inhabited

def Driver.available : Driver → Bool
  | .autonomous => true
  | .human a _ _ _ => a

def Driver.allowsPooling : Driver → Bool
  | .autonomous => true
  | .human _ _ _ p => p

/-- level / running totals of the vehicle's single energy type -/
structure Energy where
  level : Rat
  gained : Rat
  expended : Rat
  deriving DecidableEq, Repr, Inhabited

structure Vehicle where
  id : VehicleId
  pos : Pos
  members : Membership
  mech : MechId
  en : Energy
  act : Act
  driver : Driver
  balance : Rat
  odo : Rat
  deriving DecidableEq, Repr, Inhabited

inductive Instr where
  | idle (v : VehicleId)
  | dispatchTrip (v : VehicleId) (r : RequestId)
  | dispatchPooling (v : VehicleId)
  | dispatchStation (v : VehicleId) (s : StationId) (c : ChargerId)
  | chargeStation (v : VehicleId) (s : StationId) (c : ChargerId)
  | chargeBase (v : VehicleId) (b : BaseId) (c : ChargerId)
  | dispatchBase (v : VehicleId) (b : BaseId)
  | reposition (v : VehicleId) (l : LinkId)
  | reserveBase (v : VehicleId) (b : BaseId)
  | outOfService (v : VehicleId)
  deriving DecidableEq, Repr, Inhabited

def Instr.vehicle : Instr → VehicleId
  | .idle v | .dispatchTrip v _ | .dispatchPooling v | .dispatchStation v _ _
  | .chargeStation v _ _ | .chargeBase v _ _ | .dispatchBase v _ | .reposition v _
  | .reserveBase v _ | .outOfService v => v

/-- `immutables.Map[GeoId, FrozenSet[EntityId]]` -/
abbrev CollDict := List (Cell × List Nat)

/-- one pair of index maps: ids by exact cell, ids by search cell -/
structure Index where
  loc : CollDict
  search : CollDict
  deriving DecidableEq, Repr, Inhabited

structure Sim where
  time : Time
  dt : Nat
  vehicles : List Vehicle
  stations : List Station
  bases : List Base
  requests : List Request
  applied : List (VehicleId × Instr)
  vIdx : Index
  rIdx : Index
  sIdx : Index
  bIdx : Index
  deriving Repr, Inhabited

/-- reports filed with the `Reporter` (only the fields the properties speak about) -/
inductive Event where
  | addRequest (r : RequestId)
  | cancelRequest (r : RequestId)
  | pickup (v : VehicleId) (r : RequestId) (fare : Rat) (wait : Int)
  | dropoff (v : VehicleId) (r : RequestId)
  | move (v : VehicleId) (km : Rat) (energy : Rat)
  | charge (v : VehicleId) (s : StationId) (c : ChargerId) (amount : Rat) (price : Rat)
  | shift (v : VehicleId) (on : Bool)
  deriving DecidableEq, Repr, Inhabited

namespace Sim
def vehicle? (s : Sim) (i : VehicleId) : Option Vehicle := lookup Vehicle.id s.vehicles i
def station? (s : Sim) (i : StationId) : Option Station := lookup Station.id s.stations i
def base? (s : Sim) (i : BaseId) : Option Base := lookup Base.id s.bases i
def request? (s : Sim) (i : RequestId) : Option Request := lookup Request.id s.requests i
end Sim

def Station.plug? (st : Station) (c : ChargerId) : Option ChargerState := lookup ChargerState.id st.plugs c

/-- `Membership.grant_access_to_membership` -/
def Membership.grants (m other : Membership) : Bool := m.isEmpty || m.any (fun f => other.contains f)

/-- `Membership.grant_access_to_membership_id` -/
def Membership.grantsId (m : Membership) (f : FleetId) : Bool := m.isEmpty || m.contains f

end Hive
