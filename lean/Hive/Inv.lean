/-
  Hive.Inv — the state invariants of the control properties as executable (Bool) predicates.
  The *same* definitions are (a) the statements proved inductive in `Properties/*.lean` and
  (b) the monitors the driver evaluates on implementation states.
-/
import Hive.Activity

namespace Hive

/-! ### C02 — counters match the vehicles using them -/

/-- vehicle `v` occupies a plug of type `cid` at station `sid` (directly, or through a base) -/
def baseStation (s : Sim) (b : BaseId) : Option StationId := (s.base? b).bind (·.station)

def holdsPlug (s : Sim) (sid : StationId) (cid : ChargerId) (v : Vehicle) : Bool :=
  match v.act with
  | .chargingStation s' c' => s' == sid && c' == cid
  | .chargingBase b c' => c' == cid && baseStation s b == some sid
  | _ => false

def queuesFor (sid : StationId) (cid : ChargerId) (v : Vehicle) : Bool :=
  match v.act with
  | .chargeQueueing s' c' _ => s' == sid && c' == cid
  | _ => false

def holdsStall (bid : BaseId) (v : Vehicle) : Bool :=
  match v.act with
  | .reserveBase b => b == bid
  | .chargingBase b _ => b == bid
  | _ => false

def plugOk (s : Sim) (st : Station) (cs : ChargerState) : Bool :=
  cs.avail + s.vehicles.countP (holdsPlug s st.id cs.id) == cs.total
  && cs.enq == s.vehicles.countP (queuesFor st.id cs.id)

def stationOk (s : Sim) (st : Station) : Bool := st.plugs.all (plugOk s st)

def baseOk (s : Sim) (b : Base) : Bool :=
  b.avail + s.vehicles.countP (holdsStall b.id) == b.total

def inv02 (s : Sim) : Bool := s.stations.all (stationOk s) && s.bases.all (baseOk s)

/-! ### C07 — activity consistent with location -/

def connected : Route → Bool
  | [] => true
  | [_] => true
  | a :: b :: rest => a.stop == b.start && connected (b :: rest)

/-- a travelling route toward a target cell (if the target is known) -/
def routeToward (v : Vehicle) (r : Route) (target : Option Cell) : Bool :=
  match r with
  | [] => match target with
    | some c => v.pos.cell == c
    | none => true
  | first :: _ =>
    first.start == v.pos.cell && connected r &&
    (match target with
     | some c => r.getLast?.map (·.stop) == some c
     | none => true)

def locOk (s : Sim) (v : Vehicle) : Bool :=
  match v.act with
  | .chargingStation sid _ | .chargeQueueing sid _ _ =>
    match s.station? sid with
    | some st => st.pos.cell == v.pos.cell
    | none => false
  | .reserveBase b | .chargingBase b _ =>
    match s.base? b with
    | some base => base.pos.cell == v.pos.cell
    | none => false
  | .dispatchStation sid _ r => routeToward v r ((s.station? sid).map (·.pos.cell))
  | .dispatchBase b r => routeToward v r ((s.base? b).map (·.pos.cell))
  | .dispatchTrip rid r => routeToward v r ((s.request? rid).map (·.pos.cell))
  | .servicingTrip req _ r => routeToward v r (some req.dest.cell)
  | .repositioning r => routeToward v r none
  | _ => true

def inv07 (s : Sim) : Bool := s.vehicles.all (locOk s)

/-! ### C10 — membership -/

def accessOk (s : Sim) (v : Vehicle) : Bool :=
  match v.act with
  | .chargingStation sid _ | .chargeQueueing sid _ _ | .dispatchStation sid _ _ =>
    match s.station? sid with
    | some st => st.members.grants v.members
    | none => true
  | .reserveBase b | .dispatchBase b _ =>
    match s.base? b with
    | some base => base.members.grants v.members
    | none => true
  | .chargingBase b _ =>
    match s.base? b with
    | some base => base.members.grants v.members &&
        (match base.station.bind s.station? with
         | some st => st.members.grants v.members
         | none => true)
    | none => true
  | .dispatchTrip rid _ =>
    match s.request? rid with
    | some r => r.members.grants v.members
    | none => true
  | .servicingTrip req _ _ => req.members.grants v.members
  | _ => true

def inv10 (s : Sim) : Bool := s.vehicles.all (accessOk s)

/-! ### C17 — a recorded dispatched vehicle is on its way -/

def dispatchOk (s : Sim) (r : Request) : Bool :=
  match r.dispVeh with
  | none => true
  | some v =>
    match s.vehicle? v with
    | some veh => (match veh.act with
      | .dispatchTrip rid _ => rid == r.id
      | _ => false)
    | none => false

def inv17 (s : Sim) : Bool := s.requests.all (dispatchOk s)

/-! ### C08 — indexes -/

def inv08 (parent : Cell → Cell) (s : Sim) : Bool :=
  s.vIdx.ok parent (s.vehicles.map fun v => (v.id, v.pos.cell))
  && s.rIdx.ok parent (s.requests.map fun r => (r.id, r.pos.cell))
  && s.sIdx.ok parent (s.stations.map fun x => (x.id, x.pos.cell))
  && s.bIdx.ok parent (s.bases.map fun b => (b.id, b.pos.cell))

/-! ### C04 — physical energy (state part) -/

def energyOk (cap : MechId → Option Rat) (v : Vehicle) : Bool :=
  0 ≤ v.en.level && (match cap v.mech with
    | some c => v.en.level ≤ c
    | none => true)
  && 0 ≤ v.en.gained && 0 ≤ v.en.expended

end Hive
