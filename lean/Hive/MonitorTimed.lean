/-
  Hive.MonitorTimed — the statements of C11 in closed form, evaluated on a trace of pre-step
  observations (the implementation's, in the correspondence check; the model's, in the theorems of
  `Properties/C11.lean`).
-/
import Hive.Timed

namespace Hive
namespace Timed

/-- start time of step `k` -/
def stepTime (t0 : Time) (dt : Nat) (k : Nat) : Time := t0 + (k : Int) * (dt : Int)

/-- the first of the `n` steps that begins after `d` -/
def firstAfter (t0 : Time) (dt n : Nat) (d : Time) : Option Nat :=
  (List.range n).find? fun k => decide (d < stepTime t0 dt k)

/-- the first of the `n` steps that begins at or after `d` -/
def firstAtOrAfter (t0 : Time) (dt n : Nat) (d : Time) : Option Nat :=
  (List.range n).find? fun k => decide (d ≤ stepTime t0 dt k)

/-- the step in which the row is admitted, if any -/
def admitStep (cfg : Cfg) (t0 : Time) (dt n : Nat) (row : ReqRow) : Option Nat :=
  match firstAfter t0 dt n row.req.departure with
  | some k => if admissible cfg (stepTime t0 dt k) row then some k else none
  | none => none

/-- the step during which somebody picked the request up (scripted) -/
def pickStep (picks : List (List RequestId)) (i : RequestId) : Option Nat :=
  (List.range picks.length).find? fun k => (picks.getD k []).contains i

/-- the step in which the request is cancelled, if nobody picks it up first -/
def cancelStep (cfg : Cfg) (t0 : Time) (dt n : Nat) (picks : List (List RequestId)) (row : ReqRow) : Option Nat :=
  match admitStep cfg t0 dt n row with
  | none => none
  | some _ =>
    match firstAtOrAfter t0 dt n (row.req.departure + cfg.timeout) with
    | none => none
    | some kc =>
      match pickStep picks row.req.id with
      | some kp => if kp < kc then none else some kc
      | none => some kc

def stepsWhere (obs : List StepObs) (f : StepObs → List RequestId) (i : RequestId) : List Nat :=
  (List.range obs.length).filter fun k => (f (obs.getD k default)).contains i

/-- requests: admitted exactly once at `admitStep`, cancelled exactly at `cancelStep`, present in between -/
def violRequests (cfg : Cfg) (t0 : Time) (dt : Nat) (picks : List (List RequestId)) (rows : List ReqRow)
    (obs : List StepObs) : List String :=
  let n := obs.length
  rows.flatMap fun row =>
    let i := row.req.id
    let ka := admitStep cfg t0 dt n row
    let kc := cancelStep cfg t0 dt n picks row
    let kp := pickStep picks i
    let added := stepsWhere obs (·.adds) i
    let cancelled := stepsWhere obs (·.cancels) i
    let present := stepsWhere obs (·.present) i
    let expPresent := (List.range n).filter fun k =>
      match ka with
      | none => false
      | some a => a ≤ k && (match kc with | some c => k < c | none => true) &&
                  (match kp with | some p => k ≤ p | none => true)
    (if added == ka.toList then [] else
      [s!"C11/admission| request {i} (departure {row.req.departure}, valid {row.valid}): admitted in steps {added}, the statement requires {ka.toList}"]) ++
    (if cancelled == kc.toList then [] else
      [s!"C11/cancellation| request {i} (departure {row.req.departure}, timeout {cfg.timeout}): cancelled in steps {cancelled}, the statement requires {kc.toList}"]) ++
    (if present == expPresent then [] else
      [s!"C11/presence| request {i}: present after the pre-step phase of steps {present}, the statement requires {expPresent}"])

/-- C03 on the observed run, whatever the order of the file: a request that was admitted (an add
    event) is admitted once, is cancelled at most once, never both picked up and cancelled, and is
    present after every pre-step phase from its admission until it is picked up or cancelled -
    it does not vanish, and it does not come back -/
def violResolved (picks : List (List RequestId)) (obs : List StepObs) : List String :=
  let n := obs.length
  let ids := (obs.flatMap (·.adds)).eraseDups
  ids.flatMap fun i =>
    let added := stepsWhere obs (·.adds) i
    let cancelled := stepsWhere obs (·.cancels) i
    let kp := pickStep picks i
    match added with
    | [] => []
    | a :: more =>
      (if more.isEmpty then [] else [s!"C03/admitted-twice| request {i} has add events in steps {added}"]) ++
      (if cancelled.length ≤ 1 then [] else [s!"C03/cancelled-twice| request {i} has cancel events in steps {cancelled}"]) ++
      (match kp, cancelled with
       | some p, c :: _ => [s!"C03/both| request {i} was picked up in step {p} and has a cancel event in step {c}"]
       | _, _ => []) ++
      ((List.range n).filter (fun k => a ≤ k)).flatMap fun k =>
        let here := (obs.getD k default).present.contains i
        let gone := cancelled.any (fun c => c ≤ k) || (match kp with | some p => p < k | none => false)
        if here && gone then [s!"C03/resurfaced| request {i} is present after the pre-step phase of step {k} although it was resolved before"]
        else if !here && !gone then
          [s!"C03/vanished| request {i}, admitted in step {a}, is absent after the pre-step phase of step {k} without a pickup or a cancel event"]
        else []

/-- C10 on the admission path: the dispatcher pairs an admitted request only with a vehicle of one
    of the request's fleets (a request without fleets is open to all) -/
def violPairs (envHasFleets : Bool) (vehicles : List Vehicle) (rows : List ReqRow) (obs : List StepObs) : List String :=
  obs.flatMap fun o => o.pairs.flatMap fun (v, r) =>
    match vehicles.find? (·.id == v), rows.find? (·.req.id == r) with
    | some veh, some row =>
      if row.req.members.isEmpty || row.req.members.any (fun f => veh.members.contains f) then []
      else if !envHasFleets then
        [s!"C10/dispatcher-fleetless-env| the dispatcher paired vehicle {v} (fleets {veh.members}) with request {r}, admitted with fleets {row.req.members} in an environment that has no fleets"]
      else if veh.members.isEmpty then
        [s!"C10/dispatcher-public-vehicle| the dispatcher paired vehicle {v}, which belongs to no fleet, with request {r} of fleets {row.req.members}"]
      else [s!"C10/dispatcher-other-fleet| the dispatcher paired vehicle {v} (fleets {veh.members}) with request {r} of fleets {row.req.members}"]
    | _, _ => []

/-- the price rows that take effect in step `k` -/
def windowOf (t0 : Time) (dt n : Nat) (rows : List PriceRow) (k : Nat) : List PriceRow :=
  rows.filter fun r => firstAfter t0 dt n r.time == some k

/-- all rows of the window that set `(sid, p)` name it through the same key -/
def unambiguous (names : Nat → List StationId) (rows : List PriceRow) (sid : StationId) (p : ChargerId) : Bool :=
  match rows.filter (PriceRow.hits names sid p) with
  | [] => true
  | r :: more => more.all fun x => x.key == r.key

/-- prices: `some x` = the statement fixes the price, `none` = two different keys compete in one
    window and the statement does not say which prevails -/
def expectedPrice (names : Nat → List StationId) (t0 : Time) (dt n : Nat) (rows : List PriceRow)
    (sid : StationId) (p : ChargerId) (initial : Rat) : Nat → Option Rat
  | 0 => priceAt 0 (some initial)
  | k + 1 => priceAt (k + 1) (expectedPrice names t0 dt n rows sid p initial k)
where
  priceAt (k : Nat) (before : Option Rat) : Option Rat :=
    let w := windowOf t0 dt n rows k
    match (w.filter (PriceRow.hits names sid p)).getLast? with
    | none => before
    | some r => if unambiguous names w sid p then some r.price else none

def violPrices (names : Nat → List StationId) (t0 : Time) (dt : Nat) (rows : List PriceRow)
    (initial : List (StationId × ChargerId × Rat)) (obs : List StepObs) : List String :=
  let n := obs.length
  initial.flatMap fun (sid, p, p0) =>
    (List.range n).flatMap fun k =>
      let seen := ((obs.getD k default).prices.find? fun x => x.1 == sid && x.2.1 == p).map (·.2.2)
      match expectedPrice names t0 dt n rows sid p p0 k with
      | none => []
      | some e =>
        if seen == some e then [] else
          [s!"C11/price| station {sid} plug {p} at step {k}: price {repr seen}, the table says {repr e}"]

def violClock (t0 : Time) (dt : Nat) (obs : List StepObs) : List String :=
  (List.range obs.length).flatMap fun k =>
    if (obs.getD k default).time == stepTime t0 dt k then [] else
      [s!"C11/clock| step {k} begins at {(obs.getD k default).time}, expected {stepTime t0 dt k}"]

end Timed
end Hive
