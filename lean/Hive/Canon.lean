/-
  Hive.Canon — canonical flattening of a `Sim` into (path, value) pairs and the comparison used
  by the correspondence check: discrete values exactly, rationals (floats on the Python side)
  with relative tolerance.  Collections are sorted by id; set-valued fields are sorted.
-/
import Hive.Activity

namespace Hive

inductive Val where
  | s (x : String)
  | q (x : Rat)
  deriving Repr, Inhabited

def ratAbs (x : Rat) : Rat := if x < 0 then -x else x

/-- `|a-b| ≤ 1e-9 · max(1,|a|,|b|)` -/
def ratClose (a b : Rat) : Bool :=
  ratAbs (a - b) ≤ (1 / 1000000000 : Rat) * max 1 (max (ratAbs a) (ratAbs b))

def Val.close : Val → Val → Bool
  | .s a, .s b => a == b
  | .q a, .q b => ratClose a b
  | _, _ => false

def Val.show : Val → String
  | .s a => a
  | .q a => if a.den = 1 then s!"{a.num}" else s!"{a.num}/{a.den}"

abbrev Flat := List (String × Val)

def sortNat (xs : List Nat) : List Nat := sortBy (fun a b => a ≤ b) xs

def natsStr (xs : List Nat) : String := toString (sortNat xs)

def flatPos (p : String) (x : Pos) : Flat := [(p ++ ".link", .s (toString x.link)), (p ++ ".cell", .s (toString x.cell))]

def flatRoute (p : String) (r : Route) : Flat :=
  (p ++ ".len", .s (toString r.length)) ::
  (r.zipIdx.flatMap fun (l, i) =>
    let q := s!"{p}[{i}]"
    [(q ++ ".id", .s (toString l.id)), (q ++ ".start", .s (toString l.start)), (q ++ ".stop", .s (toString l.stop)),
     (q ++ ".dist", .q l.dist), (q ++ ".speed", .q l.speed)])

def flatRequest (p : String) (r : Request) : Flat :=
  flatPos (p ++ ".pos") r.pos ++ flatPos (p ++ ".dest") r.dest ++
  [(p ++ ".departure", .s (toString r.departure)), (p ++ ".passengers", .s (toString r.passengers)),
   (p ++ ".members", .s (natsStr r.members)), (p ++ ".pooling", .s (toString r.allowsPooling)),
   (p ++ ".value", .q r.value), (p ++ ".dispVeh", .s (toString r.dispVeh)), (p ++ ".dispTime", .s (toString r.dispTime))]

def flatAct (p : String) (a : Act) : Flat :=
  (p ++ ".kind", .s a.kind) ::
  match a with
  | .idle d => [(p ++ ".dur", .s (toString d))]
  | .repositioning r => flatRoute (p ++ ".route") r
  | .outOfService => []
  | .dispatchTrip i r => (p ++ ".rid", .s (toString i)) :: flatRoute (p ++ ".route") r
  | .servicingTrip q d r =>
    (p ++ ".rid", .s (toString q.id)) :: (p ++ ".dep", .s (toString d)) ::
      (flatRequest (p ++ ".req") q ++ flatRoute (p ++ ".route") r)
  | .dispatchStation s c r => (p ++ ".sid", .s (toString s)) :: (p ++ ".cid", .s (toString c)) :: flatRoute (p ++ ".route") r
  | .chargingStation s c => [(p ++ ".sid", .s (toString s)), (p ++ ".cid", .s (toString c))]
  | .chargeQueueing s c t => [(p ++ ".sid", .s (toString s)), (p ++ ".cid", .s (toString c)), (p ++ ".enq", .s (toString t))]
  | .dispatchBase b r => (p ++ ".bid", .s (toString b)) :: flatRoute (p ++ ".route") r
  | .reserveBase b => [(p ++ ".bid", .s (toString b))]
  | .chargingBase b c => [(p ++ ".bid", .s (toString b)), (p ++ ".cid", .s (toString c))]
  | .servicingPooling | .dispatchPooling => []

def flatDriver (p : String) : Driver → Flat
  | .autonomous => [(p, .s "autonomous")]
  | .human a s h pl => [(p, .s s!"human:{a}:{s}:{h}:{pl}")]

def flatVehicle (v : Vehicle) : Flat :=
  let p := s!"veh[{v.id}]"
  flatPos (p ++ ".pos") v.pos ++
  [(p ++ ".members", .s (natsStr v.members)), (p ++ ".mech", .s (toString v.mech)),
   (p ++ ".level", .q v.en.level), (p ++ ".gained", .q v.en.gained), (p ++ ".expended", .q v.en.expended),
   (p ++ ".balance", .q v.balance), (p ++ ".odo", .q v.odo)] ++
  flatDriver (p ++ ".driver") v.driver ++ flatAct (p ++ ".act") v.act

def flatStation (st : Station) : Flat :=
  let p := s!"stn[{st.id}]"
  flatPos (p ++ ".pos") st.pos ++
  [(p ++ ".members", .s (natsStr st.members)), (p ++ ".onShift", .s (natsStr st.onShift)),
   (p ++ ".balance", .q st.balance), (p ++ ".dispE", .q st.dispE), (p ++ ".dispG", .q st.dispG),
   (p ++ ".nplugs", .s (toString st.plugs.length))] ++
  ((sortBy (fun a b => a.id ≤ b.id) st.plugs).flatMap fun c =>
    let q := s!"{p}.plug[{c.id}]"
    [(q ++ ".electric", .s (toString c.electric)), (q ++ ".rate", .q c.rate), (q ++ ".total", .s (toString c.total)),
     (q ++ ".avail", .s (toString c.avail)), (q ++ ".price", .q c.price), (q ++ ".enq", .s (toString c.enq))])

def flatBase (b : Base) : Flat :=
  let p := s!"base[{b.id}]"
  flatPos (p ++ ".pos") b.pos ++
  [(p ++ ".members", .s (natsStr b.members)), (p ++ ".total", .s (toString b.total)),
   (p ++ ".avail", .s (toString b.avail)), (p ++ ".station", .s (toString b.station))]

def flatColl (p : String) (xs : CollDict) : Flat :=
  (p ++ ".ncells", .s (toString xs.length)) ::
  ((sortBy (fun a b => a.1 ≤ b.1) xs).map fun (c, ids) => (s!"{p}[{c}]", .s (natsStr ids)))

def flatIndex (p : String) (ix : Index) : Flat := flatColl (p ++ ".loc") ix.loc ++ flatColl (p ++ ".search") ix.search

def instrStr (i : Instr) : String := reprStr i

def Sim.flat (s : Sim) : Flat :=
  [("time", .s (toString s.time)), ("dt", .s (toString s.dt)),
   ("nveh", .s (toString s.vehicles.length)), ("nstn", .s (toString s.stations.length)),
   ("nbase", .s (toString s.bases.length)), ("nreq", .s (toString s.requests.length))] ++
  (sortBy (fun a b => a.id ≤ b.id) s.vehicles).flatMap flatVehicle ++
  (sortBy (fun a b => a.id ≤ b.id) s.stations).flatMap flatStation ++
  (sortBy (fun a b => a.id ≤ b.id) s.bases).flatMap flatBase ++
  (sortBy (fun a b => a.id ≤ b.id) s.requests).flatMap (fun r => flatRequest s!"req[{r.id}]" r) ++
  ((sortBy (fun a b => a.1 ≤ b.1) s.applied).map fun (v, i) => (s!"applied[{v}]", .s (instrStr i))) ++
  [("napplied", .s (toString s.applied.length))] ++
  flatIndex "vIdx" s.vIdx ++ flatIndex "rIdx" s.rIdx ++ flatIndex "sIdx" s.sIdx ++ flatIndex "bIdx" s.bIdx

def Event.flat (e : Event) : String × List Rat :=
  match e with
  | .addRequest r => (s!"add:{r}", [])
  | .cancelRequest r => (s!"cancel:{r}", [])
  | .pickup v r fare wait => (s!"pickup:{v}:{r}:{wait}", [fare])
  | .dropoff v r => (s!"dropoff:{v}:{r}", [])
  | .move v km en => (s!"move:{v}", [km, en])
  | .charge v s c a p => (s!"charge:{v}:{s}:{c}", [a, p])
  | .shift v on => (s!"shift:{v}:{on}", [])

/-- compare two flattenings (model first); returns human-readable differences -/
def diffFlat : Flat → Flat → List String
  | [], [] => []
  | (p, a) :: xs, (q, b) :: ys =>
    if p == q then
      (if a.close b then [] else [s!"{p}: model={a.show} impl={b.show}"]) ++ diffFlat xs ys
    else [s!"structure differs at model:{p}={a.show} / impl:{q}={b.show}"]
  | (p, a) :: _, [] => [s!"model has extra {p}={a.show}"]
  | [], (q, b) :: _ => [s!"impl has extra {q}={b.show}"]

def diffSim (model impl : Sim) : List String := diffFlat model.flat impl.flat

/-- events are compared as multisets (the property grants any order within a step) -/
def diffEvents (model impl : List Event) : List String :=
  let key (e : Event) : String := e.flat.1
  let srt (es : List Event) := sortBy (fun a b => key a ≤ key b) es
  let rec go : List Event → List Event → List String
    | [], [] => []
    | a :: as, b :: bs =>
      let (ka, qa) := a.flat
      let (kb, qb) := b.flat
      if ka == kb then
        (if qa.length == qb.length && (qa.zip qb).all (fun (x, y) => ratClose x y) then []
         else [s!"event {ka}: model={qa.map (Val.show ∘ Val.q)} impl={qb.map (Val.show ∘ Val.q)}"]) ++ go as bs
      else [s!"event lists differ at model:{ka} / impl:{kb}"]
    | a :: _, [] => [s!"model has extra event {a.flat.1}"]
    | [], b :: _ => [s!"impl has extra event {b.flat.1}"]
  go (srt model) (srt impl)

end Hive
