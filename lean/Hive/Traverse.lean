/-
  Hive.Traverse — `linktraversal.traverse_up_to`, `routetraversal.traverse`.
  Geometry (`H3Ops.point_along_link`, `great_circle_distance`) and the network's ground-truth
  link speeds are oracles (`Geo`).
-/
import Hive.StateOps

namespace Hive

structure Geo where
  /-- `H3Ops.point_along_link(link, available_time_seconds)` -/
  pointAlong : Link → Nat → Cell
  /-- `H3Ops.great_circle_distance(a, b)` -/
  gcDist : Cell → Cell → Rat
  /-- `road_network.link_from_link_id(id).speed_kmph`; `none` = link not found -/
  linkSpeed : LinkId → Option Rat

/-- `Link.travel_time_seconds = int(distance_km / speed_kmph * 3600)` (truncation; operands are
    non-negative in every well-formed network) -/
def Link.travelTime (l : Link) : Int := (l.dist / l.speed * 3600).floor

/-- `LinkTraversalResult` -/
structure LinkResult where
  traversed : Option Link
  remaining : Option Link
  timeLeft : Int
  deriving Repr

/-- `traverse_up_to` -/
def traverseUpTo (g : Geo) (l : Link) (avail : Int) : LinkResult :=
  if l.start == l.stop then ⟨none, none, avail⟩
  else if l.travelTime ≤ avail then ⟨some l, none, avail - l.travelTime⟩
  else
    let mid := g.pointAlong l avail.toNat
    ⟨some { l with stop := mid, dist := g.gcDist l.start mid },
     some { l with start := mid, dist := g.gcDist mid l.stop }, 0⟩

/-- accumulator of the `reduce` in `traverse` (`RouteTraversal`) -/
structure TravAcc where
  timeLeft : Int
  km : Rat := 0
  experienced : Route := []
  remaining : Route := []
  deriving Repr

/-- one step of the `reduce`; `none` = "link not found in road network" (error) -/
def traverseStep (g : Geo) (acc : TravAcc) (l : Link) : Option TravAcc :=
  if acc.timeLeft == 0 then some { acc with remaining := acc.remaining ++ [l] }
  else match g.linkSpeed l.id with
    | none => none
    | some sp =>
      let r := traverseUpTo g { l with speed := sp } acc.timeLeft
      some { timeLeft := r.timeLeft,
             km := match r.traversed with | some t => acc.km + t.dist | none => acc.km,
             experienced := match r.traversed with | some t => acc.experienced ++ [t] | none => acc.experienced,
             remaining := match r.remaining with | some t => acc.remaining ++ [t] | none => acc.remaining }

def traverseFold (g : Geo) : TravAcc → Route → Option TravAcc
  | acc, [] => some acc
  | acc, l :: ls => match traverseStep g acc l with
    | none => none
    | some acc' => traverseFold g acc' ls

/-- `traverse(route, duration_seconds, road_network)` -/
def traverse (g : Geo) (route : Route) (dt : Nat) : Outcome Traversal :=
  match route with
  | [] => .ok ⟨[], [], 0⟩
  | first :: _ =>
    if some first.start == route.getLast?.map (·.stop) then .ok ⟨[], [], 0⟩
    else match traverseFold g { timeLeft := dt } route with
      | none => .error
      | some acc => .ok ⟨acc.experienced, acc.remaining, acc.km⟩

end Hive
