/-
  Hive.MonitorTrav — the C06 statements as executable checks on an *implementation* traversal
  result (route, step length, experienced, remaining, booked distance).
-/
import Hive.Traverse
import Hive.Inv
import Hive.Canon

namespace Hive

def geomOf (l : Link) : LinkId × Cell × Cell := (l.id, l.start, l.stop)
def ndOf (l : Link) : Bool := l.start != l.stop

def isSuffix (xs ys : Route) : Bool := xs.length ≤ ys.length && ys.drop (ys.length - xs.length) == xs

/-- `route = pre ++ post`, `post` untouched, non-degenerate links of `pre` driven, at most the
    last split (the statement of `C06.route_preserved`, decided by trying both shapes) -/
def shapeOk (route exp rem : Route) : Bool :=
  let n := route.length
  let caseA := isSuffix rem route &&
    exp.map geomOf == ((route.take (n - rem.length)).filter ndOf).map geomOf
  let caseB := match rem with
    | [] => false
    | l2 :: post =>
      isSuffix post route &&
      (match (route.take (n - post.length)).reverse with
       | [] => false
       | l :: preRev =>
         ndOf l && l2.id == l.id && l2.stop == l.stop &&
         exp.map geomOf == (preRev.reverse.filter ndOf).map geomOf ++ [(l.id, l.start, l2.start)])
  caseA || caseB

def lastStopOf (r : Route) : Option Cell := r.getLast?.map (·.stop)

/-- the driven links fit in the step: the fully driven ones by their travel times; a split last
    link by the exact time its driven part needs, up to the snapping of the split point to a cell
    (two cell edge lengths at the link's speed) -/
def timeOk (dt : Nat) (exp rem : Route) (cellKm : Rat) (checkPart : Bool) : Bool :=
  let split := match exp.getLast?, rem.head? with
    | some a, some b => a.id == b.id && a.stop == b.start   -- the same link id on both sides: it was split
    | _, _ => false
  let fulls := if split then exp.dropLast else exp
  let fullTime : Int := fulls.foldl (fun a l => a + l.travelTime) 0
  let partOk : Bool := match split && checkPart, exp.getLast? with
    | true, some a =>
      if a.speed > 0 then
        decide (a.dist / a.speed * 3600 ≤ ((dt : Int) - fullTime : Int) + 2 * cellKm / a.speed * 3600 + 1)
      else true
    | _, _ => true
  decide (fullTime ≤ (dt : Int)) && partOk

def violTraversal (route : Route) (dt : Nat) (exp rem : Route) (km : Rat) (cellKm : Rat := 6 / 10000) : List String :=
  (if exp.isEmpty then [] else
    (if connected route then
      (if connected rem then [] else ["C06/remaining-disconnected| remaining route is not connected"]) ++
      (match exp.getLast?, rem.head? with
       | some a, some b => if a.stop == b.start then [] else ["C06/junction| last driven link does not end where the remaining route starts"]
       | _, _ => []) ++
      (if rem.isEmpty then
         (if lastStopOf exp == lastStopOf route then [] else ["C06/destination| route exhausted away from its end"])
       else (if lastStopOf rem == lastStopOf route then [] else ["C06/destination| remaining route ends elsewhere"]))
     else []) ++
    (if shapeOk route exp rem then [] else ["C06/route-preserved| driven ++ remaining is not the original route"])) ++
  -- progress (oracle part of C06): a partially driven link must end beyond its start
  (match exp.getLast? with
   | some a => if a.start == a.stop then ["C06/no-progress| partial traversal snapped back to the start cell of the link: the vehicle does not advance"] else []
   | none => []) ++
  (if ratClose km (exp.foldl (fun a l => a + l.dist) 0) then [] else ["C06/odometer| booked distance differs from the driven links"]) ++
  -- a step whose time is used up exactly at a junction ends there: no zero-length piece of the next
  -- link is "driven" with no time left (this is not the sub-cell loss F16, where time is left)
  (match exp.getLast? with
   | some a =>
     let before : Int := exp.dropLast.foldl (fun t x => t + x.travelTime) 0
     if a.start == a.stop && exp.length > 1 && decide ((dt : Int) - before ≤ 0) then
       [s!"C06/boundary-piece| the step's {dt} s were used up at the end of the previous link, yet a zero-length piece of link {a.id} is counted as driven"]
     else []
   | none => []) ++
  -- a link of the remaining route that has not been touched keeps its length
  (match rem.head? with
   | some b =>
     match route.find? (fun l => l.id == b.id) with
     | some l =>
       let untouched := match exp.getLast? with
         | some a => a.id != b.id        -- the step ended at the junction before it: it was not split
         | none => true
       if untouched && b.start == l.start && b.stop == l.stop && !ratClose b.dist l.dist then
         [s!"C06/remaining-length| link {b.id} has not been driven on, but in the remaining route it is {Val.show (.q b.dist)} km long instead of {Val.show (.q l.dist)} km"]
       else []
     | none => []
   | none => []) ++
  -- a link whose whole-second travel time fits in what is left of the step is driven to its end
  -- and leaves the route: a zero-length piece of it kept on the route costs the vehicle one more
  -- step in the travelling activity after it has arrived
  (match exp.getLast?, rem.head? with
   | some a, some b =>
     if a.id == b.id && a.stop == b.start && b.start == b.stop && a.start != a.stop then
       match route.find? (fun l => l.id == a.id) with
       | some l =>
         let before : Int := exp.dropLast.foldl (fun t x => t + x.travelTime) 0
         let whole := ({ l with speed := a.speed } : Link).travelTime
         if whole ≤ (dt : Int) - before then
           [s!"C06/late-exit| link {a.id} needs {whole} s and {(dt : Int) - before} s of the step were left, yet a zero-length piece of it stays on the route: the vehicle stands at the link's end and needs another step to leave it"]
         else []
       | none => []
     else []
   | _, _ => []) ++
  -- (the driven part of a split link is judged only on connected estimates: a generated link whose
  --  start was moved has a declared length shorter than its geometry)
  (if timeOk dt exp rem cellKm (connected route) then [] else ["C06/time-budget| driven links need more than the step's time (a vehicle moved farther than speed x time allows)"])

end Hive
