/-
  Hive.Index — `DictOps.add_to_collection_dict`, `remove_from_collection_dict`,
  `update_entity_dictionaries` and the add / modify / remove operations of
  `simulation_state_ops` on one (entities, locations, search) triple.

  `parent : Cell → Cell` stands for `h3.h3_to_parent(·, sim_h3_search_resolution)`.
-/
import Hive.Types

namespace Hive

namespace CollDict

/-- `xs.get(c, frozenset())` -/
def get (xs : CollDict) (c : Cell) : List Nat :=
  match xs.find? (fun p => p.1 == c) with
  | some p => p.2
  | none => []

def has (xs : CollDict) (c : Cell) : Bool := xs.any (fun p => p.1 == c)

/-- `xs.set(c, ids)` -/
def set (xs : CollDict) (c : Cell) (ids : List Nat) : CollDict :=
  if xs.has c then xs.map (fun p => if p.1 == c then (c, ids) else p) else xs ++ [(c, ids)]

/-- `xs.delete(c)` (the Python raises `KeyError` when the key is absent: `none`) -/
def delete (xs : CollDict) (c : Cell) : Option CollDict :=
  if xs.has c then some (xs.filter (fun p => p.1 != c)) else none

/-- `add_to_collection_dict`: union of the cell's id set with `{i}` -/
def add (xs : CollDict) (c : Cell) (i : Nat) : CollDict :=
  let ids := xs.get c
  xs.set c (if ids.contains i then ids else ids ++ [i])

/-- `remove_from_collection_dict`: difference; an emptied cell is deleted (KeyError → `none`) -/
def remove (xs : CollDict) (c : Cell) (i : Nat) : Option CollDict :=
  let ids := (xs.get c).filter (· != i)
  if ids.isEmpty then xs.delete c else some (xs.set c ids)

end CollDict

namespace Index

def empty : Index := ⟨[], []⟩

/-- the index part of `add_*_safe` -/
def add (parent : Cell → Cell) (ix : Index) (cell : Cell) (i : Nat) : Index :=
  { loc := CollDict.add ix.loc cell i, search := CollDict.add ix.search (parent cell) i }

/-- the index part of `remove_*_safe` -/
def remove (parent : Cell → Cell) (ix : Index) (cell : Cell) (i : Nat) : Option Index := do
  let l ← CollDict.remove ix.loc cell i
  let s ← CollDict.remove ix.search (parent cell) i
  pure { loc := l, search := s }

/-- the index part of `update_entity_dictionaries` (old cell → new cell) -/
def move (parent : Cell → Cell) (ix : Index) (old new : Cell) (i : Nat) : Option Index :=
  if old == new then some ix
  else do
    let l ← CollDict.remove ix.loc old i
    let l := CollDict.add l new i
    if parent old == parent new then pure { ix with loc := l }
    else do
      let s ← CollDict.remove ix.search (parent old) i
      pure { loc := l, search := CollDict.add s (parent new) i }

end Index

/-! ### a generic indexed collection (used four times: vehicles, requests, stations, bases) -/

/-- entities reduced to what the index cares about: id and cell -/
structure Ent where
  id : Nat
  cell : Cell
  tag : Nat := 0       -- stands for "the rest of the entity" so that modify is observable
  deriving DecidableEq, Repr, Inhabited

structure Coll where
  ents : List Ent
  ix : Index
  deriving Repr, Inhabited

namespace Coll

def empty : Coll := ⟨[], Index.empty⟩

/-- the index/entity part of `add_*_safe` for an id that is not present -/
def addFresh (parent : Cell → Cell) (c : Coll) (e : Ent) : Coll :=
  { ents := upsert Ent.id c.ents e, ix := Index.add parent c.ix e.cell e.id }

/-- `add_*_safe`: an id that is already present is removed first (so that its old index entries
    disappear), then added -/
def add (parent : Cell → Cell) (c : Coll) (e : Ent) : Outcome Coll :=
  match lookup Ent.id c.ents e.id with
  | none => .ok (addFresh parent c e)
  | some old =>
    match Index.remove parent c.ix old.cell e.id with
    | none => .error
    | some ix => .ok (addFresh parent { ents := removeById Ent.id c.ents e.id, ix := ix } e)

/-- `modify_vehicle_safe` / `modify_request_safe`: entity must exist; index follows the move -/
def modify (parent : Cell → Cell) (c : Coll) (e : Ent) : Outcome Coll :=
  match lookup Ent.id c.ents e.id with
  | none => .error
  | some old =>
    match Index.move parent c.ix old.cell e.cell e.id with
    | none => .error        -- KeyError inside remove_from_collection_dict
    | some ix => .ok { ents := replaceById Ent.id c.ents e, ix := ix }

/-- `modify_station_safe` / `modify_base_safe`: a changed location is refused -/
def modifyFixed (c : Coll) (e : Ent) : Outcome Coll :=
  match lookup Ent.id c.ents e.id with
  | none => .error
  | some old =>
    if old.cell != e.cell then .error
    else .ok { c with ents := replaceById Ent.id c.ents e }

/-- `remove_*_safe` -/
def remove (parent : Cell → Cell) (c : Coll) (i : Nat) : Outcome Coll :=
  match lookup Ent.id c.ents i with
  | none => .error
  | some old =>
    match Index.remove parent c.ix old.cell i with
    | none => .error
    | some ix => .ok { ents := removeById Ent.id c.ents i, ix := ix }

end Coll

/-! ### the executable invariant (monitor) -/

def CollDict.wf (xs : CollDict) : Bool :=
  -- no duplicate cells, no empty cells, no duplicate ids inside a cell
  decide (xs.map (·.1)).Nodup && xs.all (fun p => !p.2.isEmpty && decide p.2.Nodup)

/-- every entity is listed at exactly its `f cell`, and nothing else is listed -/
def CollDict.agrees (xs : CollDict) (ents : List (Nat × Cell)) (f : Cell → Cell) : Bool :=
  ents.all (fun e => (xs.get (f e.2)).contains e.1)
  && xs.all (fun p => p.2.all (fun i => ents.any (fun e => e.1 == i && f e.2 == p.1)))

def Index.ok (parent : Cell → Cell) (ix : Index) (ents : List (Nat × Cell)) : Bool :=
  ix.loc.wf && ix.search.wf && ix.loc.agrees ents id && ix.search.agrees ents parent
  && decide (ents.map (·.1)).Nodup

def Coll.ok (parent : Cell → Cell) (c : Coll) : Bool :=
  c.ix.ok parent (c.ents.map (fun e => (e.id, e.cell)))

end Hive
