/-
  Hive.Router — routes on the two road networks (C13) and the certificate that a junction path
  is a fastest path (C14).

  Python                                                         model
  ------                                                         -----
  haversine_roadnetwork.py  route                                  `haversineRoute`
  osm_roadnetwork_ops.py    route_from_nx_path                     `routeFromPath`
  osm_roadnetwork_ops.py    resolve_route_src_dst_positions        `resolve`
  osm_roadnetwork.py        route                                  `osmRoute`
  networkx.astar_path                                              not modelled: its answer (a node
                                                                   list) is a parameter, *checked*
  roadnetwork.py            position_from_geoid                    `snapOk` (the statement, checked)

  A street network is its link table: one `NLink` per ordered junction pair, with the link's
  geometry (start / end cell = the junctions' cells), length and speed, and the travel time the
  graph search uses.
-/
import Hive.Inv

namespace Hive
namespace Router

/-- one street link: junction ids, the `Link` of `link_helper.links`, the graph's `travel_time` -/
structure NLink where
  u : Nat
  v : Nat
  link : Link
  time : Rat
  deriving Repr, Inhabited

abbrev Net := List NLink

def Net.byNodes (net : Net) (a b : Nat) : Option NLink := net.find? fun l => l.u == a && l.v == b
def Net.byId (net : Net) (i : LinkId) : Option NLink := net.find? fun l => l.link.id == i

/-- `HaversineRoadNetwork.route`: one straight link, its id determined by the two cells
    (`linkId` = `geoids_to_link_id`, `dist` = great-circle distance: oracles) -/
def haversineRoute (linkId : Cell → Cell → LinkId) (dist : Cell → Cell → Rat) (o d : Pos) : Route :=
  if o == d then [] else [⟨linkId o.cell d.cell, o.cell, d.cell, dist o.cell d.cell, 40⟩]

/-- `route_from_nx_path`: a node list becomes the list of links between consecutive nodes;
    `none` when a pair is not a link of the table -/
def routeFromPath (net : Net) : List Nat → Option Route
  | [] => some []
  | [_] => some []
  | a :: b :: rest =>
    match net.byNodes a b, routeFromPath net (b :: rest) with
    | some l, some r => some (l.link :: r)
    | _, _ => none

/-- `resolve_route_src_dst_positions`: the origin link from the origin cell on, the inner route,
    the destination link up to the destination cell -/
def resolve (src dst : Link) (o d : Pos) (inner : Route) : Route :=
  { src with start := o.cell } :: inner ++ [{ dst with stop := d.cell }]

/-- `OSMRoadNetwork.route`; `path a b` is the node list the graph search returns from junction `a`
    to junction `b`. An unknown link or a broken path gives the empty route (the Python logs an
    error). -/
def osmRoute (net : Net) (path : Nat → Nat → List Nat) (o d : Pos) : Route :=
  if o == d then [] else
    match net.byId o.link, net.byId d.link with
    | some src, some dst =>
      match routeFromPath net (path src.v dst.u) with
      | some inner => resolve src.link dst.link o d inner
      | none => []
    | _, _ => []

/-! ### C13 as a predicate on a route (evaluated on the implementation's answers) -/

/-- is `l` the network's link of that id, up to a moved start and/or end cell? -/
def knownLink (net : Net) (l : Link) (freeStart freeStop : Bool) : Bool :=
  match net.byId l.id with
  | none => false
  | some n => (freeStart || l.start == n.link.start) && (freeStop || l.stop == n.link.stop) &&
      l.dist == n.link.dist && l.speed == n.link.speed

/-- the statement of C13 for a street network -/
def validRoute (net : Net) (o d : Pos) (r : Route) : Bool :=
  match r with
  | [] => o == d
  | first :: _ =>
    o != d && first.start == o.cell && first.id == o.link &&
    (match r.getLast? with
     | some last => last.stop == d.cell && last.id == d.link
     | none => false) &&
    connected r &&
    (List.range r.length).all fun k =>
      match r[k]? with
      | some l => knownLink net l (k == 0) (k + 1 == r.length)
      | none => false

/-! ### C14: fastest-path certificate -/

/-- total travel time of a junction path; `none` when it uses a pair that is no link -/
def walkTime (net : Net) : List Nat → Option Rat
  | [] => some 0
  | [_] => some 0
  | a :: b :: rest =>
    match net.byNodes a b, walkTime net (b :: rest) with
    | some l, some t => some (l.time + t)
    | _, _ => none

/-- node potentials `pot` (earliest arrival times from `src`, found by the harness) certify the
    path: no link beats the potentials, and the path's time is the potential of its end (up to
    `slack`, the float rounding of the implementation's own sums) -/
def certPath (net : Net) (pot : Nat → Rat) (src dst : Nat) (path : List Nat) (slack : Rat) : Bool :=
  pot src == 0 && net.all (fun l => decide (pot l.v ≤ pot l.u + l.time)) &&
  path.head? == some src && path.getLast? == some dst &&
  (match walkTime net path with
   | some t => decide (t ≤ pot dst + slack)
   | none => false)

end Router
end Hive
