/-
  Hive.Step — instructions → `(prev, next)` (pass 1), `apply_instructions` (two passes),
  `perform_vehicle_state_updates` (partition, two sorts, sequential fold), `step_vehicle`.
  (`nrel/hive/dispatcher/instruction/instructions.py`, `step_simulation_ops.py`)
-/
import Hive.Activity

namespace Hive

section
variable (env : Env)

/-- `Instruction.apply_instruction`: `ok (v, prev, next)` or `error` (logged, instruction skipped) -/
def planInstr (s : Sim) : Instr → Outcome (VehicleId × Act × Act)
  | .idle v => match s.vehicle? v with
    | none => .error
    | some veh => .ok (v, veh.act, .idle 0)
  | .dispatchTrip v r => match s.vehicle? v, s.request? r with
    | none, _ => .error
    | some _, none => .error
    | some veh, some req => .ok (v, veh.act, .dispatchTrip r (env.route veh.pos req.pos))
  | .dispatchPooling v => match s.vehicle? v with
    | none => .error
    | some _ => .error       -- requires the vehicle to be in ServicingPoolingTrip (unreachable)
  | .dispatchStation v sid c => match s.vehicle? v, s.station? sid with
    | none, _ => .error
    | some _, none => .error
    | some veh, some st => .ok (v, veh.act, .dispatchStation sid c (env.route veh.pos st.pos))
  | .chargeStation v sid c => match s.vehicle? v with
    | none => .error
    | some veh => .ok (v, veh.act, .chargingStation sid c)
  | .chargeBase v b c => match s.vehicle? v with
    | none => .error
    | some veh => .ok (v, veh.act, .chargingBase b c)
  | .dispatchBase v b => match s.vehicle? v, s.base? b with
    | none, _ => .error
    | some _, none => .error
    | some veh, some base => .ok (v, veh.act, .dispatchBase b (env.route veh.pos base.pos))
  | .reposition v l => match s.vehicle? v with
    | none => .error
    | some veh =>
      match env.linkEnd l with
      | none => .error
      | some dst => .ok (v, veh.act, .repositioning (env.route veh.pos dst))
  | .reserveBase v b => match s.vehicle? v with
    | none => .error
    | some veh => .ok (v, veh.act, .reserveBase b)
  | .outOfService v => match s.vehicle? v with
    | none => .error
    | some veh => .ok (v, veh.act, .outOfService)

/-- pass 1 of `apply_instructions`: every plan is computed on the incoming state; an instruction
    whose plan cannot be computed is dropped -/
def planAll (s : Sim) : List Instr → List (Instr × VehicleId × Act × Act)
  | [] => []
  | i :: is =>
    match planInstr env s i with
    | .ok p => (i, p) :: planAll s is
    | _ => planAll s is

/-- pass 2: one transition after the other; a failed one leaves the state as it was; an accepted
    one is recorded in `applied_instructions` -/
def applyPlans (w : World) : List (Instr × VehicleId × Act × Act) → World
  | [] => w
  | (i, v, prev, next) :: ps =>
    match transition env w v prev next with
    | .ok w' =>
      applyPlans { w' with sim := { w'.sim with applied := upsert (·.1) w'.sim.applied (i.vehicle, i) } } ps
    | _ => applyPlans w ps

/-- `apply_instructions` -/
def applyInstructions (w : World) (is : List Instr) : World :=
  applyPlans env w (planAll env w.sim is)

/-- `step_vehicle` with the snapshot activity `a` of vehicle `v` -/
def stepVehicle (w : World) (v : VehicleId) (a : Act) : World :=
  match defaultUpdate env w v a with
  | .ok w' => w'
  | _ => w

/-- the update order: non-queueing vehicles by id, then queueing ones by `(enqueue_time, id)` -/
def updateOrder (vs : List Vehicle) : List Vehicle :=
  let isQ (v : Vehicle) : Bool := match v.act with | .chargeQueueing _ _ _ => true | _ => false
  let key (v : Vehicle) : Int × Nat := match v.act with
    | .chargeQueueing _ _ t => (t, v.id)
    | _ => (0, v.id)
  let q := vs.filter isQ
  let o := vs.filter (fun v => !isQ v)
  sortBy (fun a b => a.id ≤ b.id) o ++ sortBy (fun a b => lexLe (key a) (key b)) q

/-- `perform_vehicle_state_updates` -/
def vehicleUpdates (w : World) : World :=
  (updateOrder w.sim.vehicles).foldl (fun acc v => stepVehicle env acc v.id v.act) w

end

end Hive
