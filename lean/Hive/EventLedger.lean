/-
  Hive.EventLedger — the statements of C19 about a whole run, as a checker over the parsed event
  log, the final state and the summary (evaluated on the implementation's runs).
-/
import Hive.Monitor

namespace Hive
namespace EventLedger

structure VehTotals where
  id : Nat
  odo : Rat          -- odometer at the end minus odometer at the start
  gained : Rat       -- energy gained at the end minus at the start
  deriving Repr, Inhabited

structure EvRun where
  dt : Nat
  timeout : Int
  vehicles : List VehTotals
  moves : List (Nat × Rat)                      -- vehicle, km
  charges : List (Nat × Nat × Int × Rat)        -- vehicle, station, step end, energy
  loads : List (Nat × Int × Rat)                -- station, step end, energy
  adds : List Nat
  cancels : List Nat
  pickups : List (Nat × Nat × Int)              -- request, vehicle, waiting time
  dropoffs : List (Nat × Nat)                   -- request, vehicle
  remaining : List Nat                          -- requests still waiting at the end
  inService : List Nat                          -- requests on board at the end
  summaryRequests : Int
  summaryCancelled : Int
  deriving Repr, Inhabited

def sumOf (l : List Rat) : Rat := l.foldl (· + ·) 0

def close (a b : Rat) : Bool := ratAbs (a - b) ≤ absTol (max (ratAbs a) (ratAbs b))

def count (l : List Nat) (x : Nat) : Nat := (l.filter (· == x)).length

def violEvents (r : EvRun) : List String :=
  let perVehicle := r.vehicles.flatMap fun v =>
    let km := sumOf ((r.moves.filter (·.1 == v.id)).map (·.2))
    let en := sumOf ((r.charges.filter (·.1 == v.id)).map (·.2.2.2))
    (if close km v.odo then [] else
      [s!"C19/odometer| vehicle {v.id}: move events sum to {Val.show (.q km)} km, the odometer advanced by {Val.show (.q v.odo)} km"]) ++
    (if close en v.gained then [] else
      [s!"C19/energy-gained| vehicle {v.id}: charge events sum to {Val.show (.q en)}, the vehicle gained {Val.show (.q v.gained)}"])
  let perLoad := r.loads.flatMap fun (s, t, e) =>
    let ch := sumOf ((r.charges.filter fun c => c.2.1 == s && c.2.2.1 == t).map (·.2.2.2))
    if close ch e then [] else
      [s!"C19/station-load| station {s}, step ending {t}: reported load {Val.show (.q e)}, that step's charge events there sum to {Val.show (.q ch)}"]
  let missingLoad := r.charges.flatMap fun c =>
    if r.loads.any (fun l => l.1 == c.2.1 && l.2.1 == c.2.2.1) then [] else
      [s!"C19/station-load| charge event of vehicle {c.1} at station {c.2.1} in the step ending {c.2.2.1} has no station load record"]
  let counts :=
    (if r.summaryRequests < 0 || r.summaryRequests == (r.adds.length : Int) then [] else
      [s!"C19/summary-requests| the summary counts {r.summaryRequests} requests, the log has {r.adds.length} add events"]) ++
    (if r.summaryCancelled < 0 || r.summaryCancelled == (r.cancels.length : Int) then [] else
      [s!"C19/summary-cancelled| the summary counts {r.summaryCancelled} cancellations, the log has {r.cancels.length} cancel events"])
  let picked := r.pickups.map (·.1)
  let dropped := r.dropoffs.map (·.1)
  let all := (r.adds ++ r.cancels ++ picked ++ dropped ++ r.remaining).eraseDups
  let perRequest := all.flatMap fun i =>
    let a := count r.adds i
    let c := count r.cancels i
    let p := count picked i
    let d := count dropped i
    let w := count r.remaining i
    let s := count r.inService i
    (if a == 1 then [] else [s!"C19/request-added| request {i} has {a} add events"]) ++
    (if c + p + w == 1 then [] else
      [s!"C19/request-fate| request {i}: {c} cancel events, {p} pickup events, still waiting: {w} (exactly one of the three must account for it)"]) ++
    (if d ≤ p && d + s == p then [] else
      [s!"C19/request-dropoff| request {i}: {p} pickup events, {d} drop-off events, on board at the end: {s}"])
  let waits := r.pickups.flatMap fun (i, v, w) =>
    if 0 ≤ w && w ≤ r.timeout + (r.dt : Int) then [] else
      [s!"C19/pickup-wait| request {i} picked up by vehicle {v} reports a waiting time of {w} s (timeout {r.timeout} s, step {r.dt} s)"]
  perVehicle ++ perLoad ++ missingLoad ++ counts ++ perRequest ++ waits

end EventLedger
end Hive
