/-
  Hive.Lookup — the read side of the location indexes: `SimulationState.at_geoid`,
  `H3Ops.get_entities_at_cell` and the ring search `H3Ops.nearest_entity`.

  `rings` stands for `[sorted(h3.k_ring(search_cell, k)) for k in 0..max_k]` (the H3 geometry is
  not modelled: the harness passes the rings the library produced); `dist` and `valid` are the
  caller's `distance_function` and `is_valid`, by entity id.
-/
import Hive.Index

namespace Hive
namespace Lookup

/-- one category of `at_geoid`: `locations[geoid] if geoid in locations else frozenset()` -/
def atCell (ix : Index) (c : Cell) : List Nat := ix.loc.get c

/-- `get_entities_at_cell`: the entities, in the order handed in, whose id is registered at the
    search cell -/
def entitiesAtCell (search : CollDict) (ents : List (Nat × Cell)) (sc : Cell) : List (Nat × Cell) :=
  if search.has sc then ents.filter (fun e => (search.get sc).contains e.1) else []

/-- the scan of one ring: strict improvement only, so the first of equally distant entities wins -/
def bestStep (valid : Nat → Bool) (dist : Nat → Rat) (acc : Rat × Option (Nat × Cell)) (e : Nat × Cell) :
    Rat × Option (Nat × Cell) :=
  if valid e.1 && decide (dist e.1 < acc.1) then (dist e.1, some e) else acc

def bestOf (valid : Nat → Bool) (dist : Nat → Rat) (found : List (Nat × Cell)) : Option (Nat × Cell) :=
  (found.foldl (bestStep valid dist) (1000000, none)).2

/-- `nearest_entity._search`: ring after ring, the first ring with a valid entity answers -/
def nearest (search : CollDict) (ents : List (Nat × Cell)) (valid : Nat → Bool) (dist : Nat → Rat) :
    List (List Cell) → Option (Nat × Cell)
  | [] => none
  | ring :: rest =>
    match bestOf valid dist (ring.flatMap (entitiesAtCell search ents)) with
    | some e => some e
    | none => nearest search ents valid dist rest

/-! ### what the harness observed, and the statement evaluated on it -/

structure AtObs where
  cell : Cell
  ids : Option (List Nat)        -- `none`: the lookup raised
  others : Nat := 0              -- ids reported under the other categories (the collection layer holds one kind only)

structure SearchObs where
  cell : Cell
  ids : Option (List Nat)

structure NearObs where
  origin : Cell
  rings : List (List Cell)
  valid : List Nat
  dist : List (Nat × Rat)
  got : Int                      -- entity id, -1: nothing found, -2: raised

structure Obs where
  «at» : List AtObs
  search : List SearchObs
  near : List NearObs

def distOf (tbl : List (Nat × Rat)) (i : Nat) : Rat :=
  match tbl.find? (fun p => p.1 == i) with
  | some p => p.2
  | none => 2000000

def sortedIds (l : List Nat) : List Nat := sortBy (fun a b => decide (a ≤ b)) l

/-- the property on the observed answers: an entity is found by location lookup at exactly its
    cell, by the coarse index at exactly its enclosing search cell, and by the ring search whenever
    that cell lies within the rings -/
def viol (parent : Cell → Cell) (ents : List (Nat × Cell)) (o : Obs) : List String :=
  (o.at.flatMap fun a =>
    match a.ids with
    | none => [s!"C08/lookup-raised| at_geoid raised at cell {a.cell}"]
    | some ids =>
      let want := sortedIds ((ents.filter (fun e => e.2 == a.cell)).map (·.1))
      (if sortedIds ids != want then [s!"C08/lookup-wrong| at_geoid({a.cell}) reports {ids}, the entities standing there are {want}"] else []) ++
      (if a.others != 0 then [s!"C08/lookup-foreign| at_geoid({a.cell}) reports {a.others} ids under categories that hold no entity"] else [])) ++
  (o.search.flatMap fun a =>
    match a.ids with
    | none => [s!"C08/search-cell-raised| get_entities_at_cell raised at search cell {a.cell}"]
    | some ids =>
      let want := (ents.filter (fun e => parent e.2 == a.cell)).map (·.1)
      if ids != want then [s!"C08/search-cell-wrong| the coarse index reports {ids} at search cell {a.cell}, the entities it encloses are {want}"] else []) ++
  (o.near.flatMap fun a =>
    let cells := a.rings.flatten
    let reach := ents.filter (fun e => a.valid.contains e.1 && decide (distOf a.dist e.1 < 1000000) && cells.contains (parent e.2))
    if a.got == -2 then [s!"C08/search-raised| the ring search from {a.origin} raised"]
    else if a.got == -1 then
      (if reach.isEmpty then [] else [s!"C08/search-miss| the ring search from {a.origin} found nothing although {reach.map (·.1)} are registered within its rings and accepted"])
    else
      let g := a.got.toNat
      if reach.any (fun e => e.1 == g) then [] else [s!"C08/search-unsound| the ring search from {a.origin} answered {g}, which is not an accepted entity within its rings"])

/-- the model's answers next to the observed ones -/
def diff (ix : Index) (ents : List (Nat × Cell)) (o : Obs) : List String :=
  (o.at.flatMap fun a =>
    match a.ids with
    | some ids => if sortedIds ids != sortedIds (atCell ix a.cell) then [s!"at_geoid({a.cell}): model={sortedIds (atCell ix a.cell)} impl={ids}"] else []
    | none => [s!"at_geoid({a.cell}): impl raised"]) ++
  (o.search.flatMap fun a =>
    let m := (entitiesAtCell ix.search ents a.cell).map (·.1)
    match a.ids with
    | some ids => if ids != m then [s!"get_entities_at_cell({a.cell}): model={m} impl={ids}"] else []
    | none => [s!"get_entities_at_cell({a.cell}): impl raised"]) ++
  (o.near.flatMap fun a =>
    let m : Int := match nearest ix.search ents (fun i => a.valid.contains i) (distOf a.dist) a.rings with
      | some e => (e.1 : Int)
      | none => -1
    if m != a.got then [s!"nearest_entity from {a.origin}: model={m} impl={a.got}"] else [])

end Lookup
end Hive
