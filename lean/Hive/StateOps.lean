/-
  Hive.StateOps — `simulation_state_ops.modify_* / add_* / remove_*` on the full `Sim`,
  the environment/oracle record `Env`, and the counter operations of `ChargerState`,
  `Station` (via `station_ops.station_state_update`) and `Base`.
-/
import Hive.Index

namespace Hive

/-- result of `routetraversal.traverse` -/
structure Traversal where
  experienced : Route
  remaining : Route
  km : Rat
  deriving DecidableEq, Repr, Inhabited

/-- Everything the control model does not compute itself. In the theorems about control
    properties `Env` is universally quantified (they hold for any physics, any router, any cell
    hierarchy); the driver instantiates it with the physics model of `Hive.Energy`,
    `Hive.Traverse` and with geometry answers recorded from the implementation. -/
structure Env where
  parent : Cell → Cell
  inFence : Cell → Bool
  /-- `RoadNetwork.route` -/
  route : Pos → Pos → Route
  /-- `RoadNetwork.link_from_link_id` then `EntityPosition(link.link_id, link.end)`;
      `none` = no such link -/
  linkEnd : LinkId → Option Pos
  mechKnown : MechId → Bool
  isFull : Vehicle → Bool
  isEmpty : Vehicle → Bool
  /-- `mechatronics.valid_charger(charger)` -/
  validCharger : Vehicle → ChargerState → Bool
  /-- `mechatronics.idle(vehicle, dt)` → new energy bookkeeping -/
  idle : Vehicle → Nat → Energy
  /-- `mechatronics.consume_energy(vehicle, route)` -/
  consume : Vehicle → Route → Energy
  /-- `mechatronics.add_energy(vehicle, charger, dt)` -/
  addEnergy : Vehicle → ChargerState → Nat → Energy
  /-- `traverse(route, dt, road_network)`; `error`/`rejected` as the Python returns them -/
  traverse : Route → Nat → Outcome Traversal

namespace ChargerState
def hasAvailable (c : ChargerState) : Bool := c.avail > 0
/-- `increment_available_chargers` -/
def incAvail (c : ChargerState) : Outcome ChargerState :=
  if c.avail ≥ c.total then .error else .ok { c with avail := c.avail + 1 }
/-- `decrement_available_chargers` -/
def decAvail (c : ChargerState) : Outcome ChargerState :=
  if c.avail = 0 then .error else .ok { c with avail := c.avail - 1 }
def incEnq (c : ChargerState) : ChargerState := { c with enq := c.enq + 1 }
/-- `decrement_enqueued_vehicles` -/
def decEnq (c : ChargerState) : Outcome ChargerState :=
  if c.enq = 0 then .error else .ok { c with enq := c.enq - 1 }
end ChargerState

namespace Station

def setPlug (st : Station) (c : ChargerState) : Station :=
  { st with plugs := replaceById ChargerState.id st.plugs c }

/-- `station_ops.station_state_update` and `station_state_optional_update`:
    an unknown plug type leaves the station unchanged, *without* error -/
def updatePlug (st : Station) (c : ChargerId) (op : ChargerState → Outcome ChargerState) : Outcome Station :=
  match st.plug? c with
  | none => .ok st
  | some cs => do
    let cs' ← op cs
    pure (st.setPlug cs')

def hasAvailable (st : Station) (c : ChargerId) : Bool :=
  match st.plug? c with
  | none => false
  | some cs => cs.hasAvailable

def availableChargers (st : Station) (c : ChargerId) : Nat :=
  match st.plug? c with
  | none => 0
  | some cs => cs.avail

/-- `checkout_charger`: `(None, None)` when no plug is free -/
def checkout (st : Station) (c : ChargerId) : Outcome Station :=
  st.updatePlug c (fun cs => if !cs.hasAvailable then .rejected else cs.decAvail)

def giveBack (st : Station) (c : ChargerId) : Outcome Station := st.updatePlug c ChargerState.incAvail
def enqueue (st : Station) (c : ChargerId) : Outcome Station := st.updatePlug c (fun cs => .ok cs.incEnq)
def dequeue (st : Station) (c : ChargerId) : Outcome Station := st.updatePlug c ChargerState.decEnq

end Station

namespace Base
/-- `checkout_stall` (`None` when no stall is free) -/
def checkout (b : Base) : Option Base := if b.avail < 1 then none else some { b with avail := b.avail - 1 }
/-- `return_stall` -/
def giveBack (b : Base) : Outcome Base := if b.avail + 1 > b.total then .error else .ok { b with avail := b.avail + 1 }
end Base

namespace Sim

/-- `modify_vehicle` -/
def modifyVehicle (env : Env) (s : Sim) (v : Vehicle) : Outcome Sim :=
  match s.vehicle? v.id with
  | none => .error
  | some old =>
    if !env.inFence v.pos.cell then .error
    else match Index.move env.parent s.vIdx old.pos.cell v.pos.cell v.id with
      | none => .error
      | some ix => .ok { s with vehicles := replaceById Vehicle.id s.vehicles v, vIdx := ix }

/-- `modify_request` -/
def modifyRequest (env : Env) (s : Sim) (r : Request) : Outcome Sim :=
  match s.request? r.id with
  | none => .error
  | some old =>
    if !env.inFence r.pos.cell then .error
    else if !env.inFence r.dest.cell then .error
    else match Index.move env.parent s.rIdx old.pos.cell r.pos.cell r.id with
      | none => .error
      | some ix => .ok { s with requests := replaceById Request.id s.requests r, rIdx := ix }

/-- `remove_request` -/
def removeRequest (env : Env) (s : Sim) (i : RequestId) : Outcome Sim :=
  match s.request? i with
  | none => .error
  | some old =>
    match Index.remove env.parent s.rIdx old.pos.cell i with
    | none => .error
    | some ix => .ok { s with requests := removeById Request.id s.requests i, rIdx := ix }

/-- `add_request_safe`: a request id that is already present is removed first -/
def addRequest (env : Env) (s : Sim) (r : Request) : Outcome Sim :=
  if !env.inFence r.pos.cell then .error
  else match s.request? r.id with
    | none => .ok { s with requests := upsert Request.id s.requests r,
                           rIdx := Index.add env.parent s.rIdx r.pos.cell r.id }
    | some _ => do
      let s1 ← s.removeRequest env r.id
      pure { s1 with requests := upsert Request.id s1.requests r,
                     rIdx := Index.add env.parent s1.rIdx r.pos.cell r.id }

/-- `modify_station` (a moved station is refused) -/
def modifyStation (env : Env) (s : Sim) (st : Station) : Outcome Sim :=
  match s.station? st.id with
  | none => .error
  | some old =>
    if old.pos.cell != st.pos.cell then .error
    else if !env.inFence st.pos.cell then .error
    else .ok { s with stations := replaceById Station.id s.stations st }

/-- `modify_base` -/
def modifyBase (env : Env) (s : Sim) (b : Base) : Outcome Sim :=
  match s.base? b.id with
  | none => .error
  | some old =>
    if old.pos.cell != b.pos.cell then .error
    else if !env.inFence b.pos.cell then .error
    else .ok { s with bases := replaceById Base.id s.bases b }

def tick (s : Sim) : Sim := { s with time := s.time + s.dt }

end Sim

end Hive
