/-
  Hive.Activity — `enter`, `exit`, terminal condition, default transition and `_perform_update`
  of every vehicle activity, `transition_previous_to_next`, `default_update`, and the shared
  operations `move`, `charge`, `pick_up_trip`, `drop_off_trip`.

  Transcribed guard by guard, in the order of the Python (`nrel/hive/state/vehicle_state/*.py`,
  `vehicle_state_ops.py`, `servicing_ops.py`, `entity_state_ops.py`, `model/roadnetwork/route.py`).
  Reports are appended to `Sim.log`; see DESIGN.md 3/C19 for the one place where this differs
  from the imperative reporter (a report filed before a later failure in the same update).
-/
import Hive.StateOps

namespace Hive

/-- `Sim` with an event log -/
structure World where
  sim : Sim
  log : List Event := []
  deriving Inhabited

/-- `route_cooresponds_with_entities(route, src, dst?)` -/
def routeOk (route : Route) (src : Pos) (dst : Option Pos) : Bool :=
  match route with
  | [] => match dst with
    | none => true
    | some d => src == d
  | first :: _ => match dst with
    | none => first.start == src.cell
    | some d => first.start == src.cell && (route.getLast?.map (·.stop)) == some d.cell

namespace Act

def route? : Act → Option Route
  | .repositioning r | .dispatchTrip _ r | .servicingTrip _ _ r
  | .dispatchStation _ _ r | .dispatchBase _ r => some r
  | _ => none

/-- `vehicle_state.update_route(route)` -/
def setRoute (a : Act) (r : Route) : Act :=
  match a with
  | .repositioning _ => .repositioning r
  | .dispatchTrip i _ => .dispatchTrip i r
  | .servicingTrip q d _ => .servicingTrip q d r
  | .dispatchStation s c _ => .dispatchStation s c r
  | .dispatchBase b _ => .dispatchBase b r
  | a => a

def isDispatchTrip : Act → Bool
  | .dispatchTrip _ _ => true
  | _ => false

/-- kind tag used by canonical output and the tables -/
def kind : Act → String
  | .idle _ => "Idle" | .repositioning _ => "Repositioning" | .outOfService => "OutOfService"
  | .dispatchTrip _ _ => "DispatchTrip" | .servicingTrip _ _ _ => "ServicingTrip"
  | .dispatchStation _ _ _ => "DispatchStation" | .chargingStation _ _ => "ChargingStation"
  | .chargeQueueing _ _ _ => "ChargeQueueing" | .dispatchBase _ _ => "DispatchBase"
  | .reserveBase _ => "ReserveBase" | .chargingBase _ _ => "ChargingBase"
  | .servicingPooling => "ServicingPoolingTrip" | .dispatchPooling => "DispatchPoolingTrip"

end Act

section
variable (env : Env)

/-- `VehicleState.apply_new_vehicle_state` -/
def applyAct (s : Sim) (v : VehicleId) (a : Act) : Outcome Sim :=
  match s.vehicle? v with
  | none => .error
  | some veh => s.modifyVehicle env { veh with act := a }

/-- `servicing_ops.pick_up_trip` (state part and report) -/
def pickUpTrip (w : World) (v : VehicleId) (rid : RequestId) : Outcome World :=
  match w.sim.vehicle? v, w.sim.request? rid with
  | none, _ => .error
  | some _, none => .error
  | some veh, some req => do
    let veh' := { veh with balance := veh.balance + req.value }
    let s1 ← w.sim.modifyVehicle env veh'
    -- report_pickup_request: time-of-day difference of sim_time (the start of the running step)
    -- and departure_time, wrapped into one day
    let ev := Event.pickup v rid req.value ((s1.time - req.departure) % 86400)
    let s2 ← s1.removeRequest env rid
    pure { sim := s2, log := w.log ++ [ev] }

/-- `servicing_ops.drop_off_trip` -/
def dropOffTrip (w : World) (v : VehicleId) (req : Request) : Outcome World :=
  match w.sim.vehicle? v with
  | none => .error
  | some veh =>
    if req.passengers > 0 && req.dest.cell != veh.pos.cell then .error
    else .ok { w with log := w.log ++ [Event.dropoff v req.id] }

/-- `ChargeQueueing.enter`: an installed plug type must be usable by the vehicle
    (an uninstalled type, or an unregistered mechatronics, is let through as in the Python) -/
def queuePlugUsable (veh : Vehicle) (st : Station) (cid : ChargerId) : Bool :=
  match st.plug? cid with
  | some cs => !env.mechKnown veh.mech || env.validCharger veh cs
  | none => true

/-- `enter` of each activity, on `w.sim`, for vehicle `v` -/
def enter (w : World) (v : VehicleId) : Act → Outcome World
  | .idle d => do let s ← applyAct env w.sim v (.idle d); pure { w with sim := s }
  | .outOfService => do let s ← applyAct env w.sim v .outOfService; pure { w with sim := s }
  | .repositioning route =>
    match w.sim.vehicle? v with
    | none => .error
    | some veh =>
      if !routeOk route veh.pos none then .rejected
      else do let s ← applyAct env w.sim v (.repositioning route); pure { w with sim := s }
  | .reserveBase b =>
    match w.sim.vehicle? v, w.sim.base? b with
    | none, _ => .error
    | some _, none => .error
    | some veh, some base =>
      if base.pos.cell != veh.pos.cell then .rejected
      else if !base.members.grants veh.members then .error
      else match base.checkout with
        | none => .rejected
        | some base' => do
          let s1 ← w.sim.modifyBase env base'
          let s2 ← applyAct env s1 v (.reserveBase b)
          pure { w with sim := s2 }
  | .chargingStation sid cid =>
    match w.sim.vehicle? v, w.sim.station? sid with
    | none, _ => .error
    | some _, none => .error
    | some veh, some st =>
      if !env.mechKnown veh.mech then .error
      else if veh.pos.cell != st.pos.cell then .rejected
      else if !st.members.grants veh.members then .error
      else match st.plug? cid with
        | none => .error
        | some cs =>
          if !env.validCharger veh cs then .error
          else do
            let st' ← st.checkout cid
            let s1 ← w.sim.modifyStation env st'
            let s2 ← applyAct env s1 v (.chargingStation sid cid)
            pure { w with sim := s2 }
  | .chargingBase b cid =>
    match w.sim.vehicle? v, w.sim.base? b with
    | none, _ => .error
    | some _, none => .error
    | some veh, some base =>
      match base.station with
      | none => .error
      | some sid =>
        match w.sim.station? sid with
        | none => .error
        | some st =>
          if !env.mechKnown veh.mech then .error
          else if base.pos.cell != veh.pos.cell then .rejected
          else if !base.members.grants veh.members then .error
          else if !st.members.grants veh.members then .error
          else match base.checkout with
            | none => .rejected
            | some base' =>
              match st.plug? cid with
              | none => .error
              | some cs =>
                if !env.validCharger veh cs then .error
                else do
                  let st' ← st.checkout cid
                  let s1 ← w.sim.modifyBase env base'
                  let s2 ← s1.modifyStation env st'
                  let s3 ← applyAct env s2 v (.chargingBase b cid)
                  pure { w with sim := s3 }
  | .chargeQueueing sid cid t =>
    match w.sim.vehicle? v, w.sim.station? sid with
    | none, _ => .error
    | some _, none => .error
    | some veh, some st =>
      if veh.pos.cell != st.pos.cell then .rejected
      else if st.hasAvailable cid then .rejected
      else if !st.members.grants veh.members then .error
      else if !queuePlugUsable env veh st cid then .error
      else do
        let st' ← st.enqueue cid
        let s1 ← w.sim.modifyStation env st'
        let s2 ← applyAct env s1 v (.chargeQueueing sid cid t)
        pure { w with sim := s2 }
  | .dispatchStation sid cid route =>
    match w.sim.vehicle? v, w.sim.station? sid with
    | none, _ => .error
    | some _, none => .error
    | some veh, some st =>
      if st.pos.cell == veh.pos.cell then
        -- `ChargingStation.build(...).enter(sim, env)`, inlined (no recursion needed)
        if !env.mechKnown veh.mech then .error
        else if !st.members.grants veh.members then .error
        else match st.plug? cid with
          | none => .error
          | some cs =>
            if !env.validCharger veh cs then .error
            else do
              let st' ← st.checkout cid
              let s1 ← w.sim.modifyStation env st'
              let s2 ← applyAct env s1 v (.chargingStation sid cid)
              pure { w with sim := s2 }
      else if !routeOk route veh.pos (some st.pos) then .rejected
      else if !st.members.grants veh.members then .error
      else do let s ← applyAct env w.sim v (.dispatchStation sid cid route); pure { w with sim := s }
  | .dispatchBase b route =>
    match w.sim.base? b, w.sim.vehicle? v with
    | none, _ => .error
    | some _, none => .error
    | some base, some veh =>
      if !routeOk route veh.pos (some base.pos) then .rejected
      else if !base.members.grants veh.members then .error
      else do let s ← applyAct env w.sim v (.dispatchBase b route); pure { w with sim := s }
  | .dispatchTrip rid route =>
    match w.sim.vehicle? v with
    | none => .error
    | some veh =>
      match w.sim.request? rid with
      | none => .rejected
      | some req =>
        if !req.members.grants veh.members then .error
        else if !routeOk route veh.pos (some req.pos) then .rejected
        else do
          let req' := { req with dispVeh := some v, dispTime := some w.sim.time }
          let s1 ← w.sim.modifyRequest env req'
          let s2 ← applyAct env s1 v (.dispatchTrip rid route)
          pure { w with sim := s2 }
  | .servicingTrip sreq dep route =>
    match w.sim.vehicle? v with
    | none => .error
    | some veh =>
      match w.sim.request? sreq.id with
      | none => .rejected
      | some req =>
        if !routeOk route req.pos (some req.dest) then .error
        else if !veh.act.isDispatchTrip then .error
        else if !sreq.members.grants veh.members then .error
        -- a trip starts only where the request waits, on a route that starts at the vehicle
        else if !(veh.pos.cell == req.pos.cell && routeOk route veh.pos none) then .rejected
        else do
          let w1 ← pickUpTrip env w v sreq.id
          let s2 ← applyAct env w1.sim v (.servicingTrip sreq dep route)
          pure { w1 with sim := s2 }
  | .servicingPooling => .error      -- requires a previous DispatchPoolingTrip, which is unreachable
  | .dispatchPooling => .error

/-- `exit` of each activity (the `next_state` argument is never inspected by the Python) -/
def exit (s : Sim) (v : VehicleId) : Act → Outcome Sim
  | .idle _ | .repositioning _ | .outOfService | .dispatchStation _ _ _ | .dispatchBase _ _ => .ok s
  | .reserveBase b =>
    match s.base? b with
    | none => .error
    | some base => do
      let base' ← base.giveBack
      s.modifyBase env base'
  | .chargingStation sid cid =>
    match s.vehicle? v, s.station? sid with
    | none, _ => .error
    | some _, none => .error
    | some _, some st => do
      let st' ← st.giveBack cid
      s.modifyStation env st'
  | .chargingBase b cid =>
    match s.base? b with
    | none => .error
    | some base =>
      match s.vehicle? v with
      | none => .error
      | some _ =>
        match base.station.bind s.station? with
        | none => .error
        | some st => do
          let base' ← base.giveBack
          let s2 ← s.modifyBase env base'
          let st' ← st.giveBack cid
          s2.modifyStation env st'
  | .chargeQueueing sid cid _ =>
    match s.station? sid with
    | none => .error
    | some st => do
      let st' ← st.dequeue cid
      s.modifyStation env st'
  | .dispatchTrip rid _ =>
    match s.request? rid with
    | none => .ok s
    | some req => s.modifyRequest env { req with dispVeh := none, dispTime := none }
  | .servicingTrip _ _ route => if route.isEmpty then .ok s else .rejected
  | .servicingPooling => .error
  | .dispatchPooling => .error

/-- `entity_state_ops.transition_previous_to_next` -/
def transition (w : World) (v : VehicleId) (prev next : Act) : Outcome World := do
  let s1 ← exit env w.sim v prev
  enter env { w with sim := s1 } v next

/-- `_has_reached_terminal_state_condition` -/
def terminal (s : Sim) (v : VehicleId) : Act → Bool
  | .idle _ =>
    match s.vehicle? v with
    | none => false
    | some veh => if !env.mechKnown veh.mech then false else env.isEmpty veh
  | .repositioning r | .dispatchTrip _ r | .servicingTrip _ _ r
  | .dispatchStation _ _ r | .dispatchBase _ r => r.isEmpty
  | .outOfService | .reserveBase _ => false
  | .chargingStation _ _ | .chargingBase _ _ =>
    match s.vehicle? v with
    | none => false
    | some veh => if !env.mechKnown veh.mech then false else env.isFull veh
  | .chargeQueueing sid cid _ =>
    match s.station? sid with
    | none => true
    | some st => st.hasAvailable cid
  | .servicingPooling | .dispatchPooling => false

/-- `_default_terminal_state` -/
def defaultNext (s : Sim) (v : VehicleId) : Act → Outcome Act
  | .idle _ => .ok .outOfService
  | .repositioning _ => .ok (.idle 0)
  | .outOfService => .ok .outOfService
  | .reserveBase b => .ok (.reserveBase b)
  | .chargingStation _ _ => .ok (.idle 0)
  | .chargingBase b _ => .ok (.reserveBase b)
  | .servicingTrip _ _ _ => .ok (.idle 0)
  | .chargeQueueing sid cid _ =>
    match s.vehicle? v, s.station? sid with
    | none, _ => .error
    | some _, none => .error
    | some veh, some st =>
      if !st.hasAvailable cid then .error
      -- a full vehicle has nothing to charge: it leaves the queue (its turn at the plug would fail)
      else if env.mechKnown veh.mech && env.isFull veh then .ok (.idle 0)
      else .ok (.chargingStation sid cid)
  | .dispatchStation sid cid _ =>
    match s.vehicle? v, s.station? sid with
    | none, _ => .error
    | some _, none => .error
    | some veh, some st =>
      if st.pos.cell != veh.pos.cell then .error
      else if st.availableChargers cid > 0 then .ok (.chargingStation sid cid)
      else .ok (.chargeQueueing sid cid s.time)
  | .dispatchBase b _ =>
    match s.vehicle? v, s.base? b with
    | none, _ => .error
    | some _, none => .error
    | some veh, some base =>
      if base.pos.cell != veh.pos.cell then .error
      else if base.avail > 0 then .ok (.reserveBase b) else .ok (.idle 0)
  | .dispatchTrip rid _ =>
    match s.vehicle? v with
    | none => .error
    | some veh =>
      match s.request? rid with
      | none => .ok (.idle 0)
      | some req =>
        if req.pos.cell != veh.pos.cell then .error
        else if veh.driver.allowsPooling && req.allowsPooling then .ok .servicingPooling
        else .ok (.servicingTrip req s.time (env.route req.pos req.dest))
  | .servicingPooling | .dispatchPooling => .error

/-- `vehicle_state_ops.move` -/
def move (w : World) (v : VehicleId) : Outcome World :=
  match w.sim.vehicle? v with
  | none => .error
  | some veh =>
    if !env.mechKnown veh.mech then .error
    else match veh.act.route? with
      | none => .error
      | some route => do
        let tr ← env.traverse route w.sim.dt
        if tr.experienced.isEmpty then
          let s ← w.sim.modifyVehicle env { veh with act := veh.act.setRoute [] }
          pure { w with sim := s }
        else
          let less := { veh with en := env.consume veh tr.experienced }
          if env.isEmpty less then
            -- `_go_out_of_service_on_empty`: exit of the interrupted activity (a refusal or an
            -- error is ignored), then OutOfService.enter; the vehicle itself is the incoming one
            let s0 := match exit env w.sim v veh.act with
              | .ok s' => s'
              | _ => w.sim
            let s ← applyAct env s0 v .outOfService
            pure { w with sim := s }
          else
            match tr.experienced.getLast? with
            | none => .error
            | some last =>
              let moved := { less with pos := ⟨last.id, last.stop⟩, odo := less.odo + tr.km,
                                       act := less.act.setRoute tr.remaining }
              let ev := Event.move v tr.km (less.en.level - veh.en.level)
              let s ← w.sim.modifyVehicle env moved
              pure { sim := s, log := w.log ++ [ev] }

/-- `vehicle_state_ops.charge` -/
def charge (w : World) (v : VehicleId) (sid : StationId) (cid : ChargerId) : Outcome World :=
  match w.sim.station? sid with
  | none => .error
  | some st =>
    match w.sim.vehicle? v with
    | none => .error
    | some veh =>
      if !env.mechKnown veh.mech then .error
      else match st.plug? cid with
        | none => .error
        | some cs =>
          if env.isFull veh then .error
          else do
            let en' := env.addEnergy veh cs w.sim.dt
            let amount := en'.level - veh.en.level
            let cost := amount * cs.price
            let veh' := { veh with en := en', balance := veh.balance - cost }
            let st' := { st with balance := st.balance + cost,
                                 dispE := if cs.electric then st.dispE + amount else st.dispE,
                                 dispG := if cs.electric then st.dispG else st.dispG + amount }
            let s1 ← w.sim.modifyVehicle env veh'
            let ev := Event.charge v sid cid amount cost
            let s2 ← s1.modifyStation env st'
            pure { sim := s2, log := w.log ++ [ev] }

/-- `_perform_update` -/
def performUpdate (w : World) (v : VehicleId) : Act → Outcome World
  | .idle d =>
    match w.sim.vehicle? v with
    | none => .error
    | some veh =>
      if !env.mechKnown veh.mech then .error
      else do
        let s ← w.sim.modifyVehicle env { veh with en := env.idle veh w.sim.dt, act := .idle (d + w.sim.dt) }
        pure { w with sim := s }
  | .outOfService | .reserveBase _ => .ok w
  | .repositioning _ | .dispatchTrip _ _ | .dispatchStation _ _ _ | .dispatchBase _ _ => move env w v
  | .servicingTrip req _ _ => do
    let w1 ← move env w v
    match w1.sim.vehicle? v with
    | none => .error
    | some moved =>
      match moved.act with
      | .outOfService => pure w1
      | .servicingTrip _ _ r => if r.isEmpty then dropOffTrip w1 v req else pure w1
      | _ => pure w1
  | .chargingStation sid cid => charge env w v sid cid
  | .chargingBase b cid =>
    match (w.sim.base? b).bind (·.station) with
    | none => .error
    | some sid => charge env w v sid cid
  | .chargeQueueing _ _ _ =>
    match w.sim.vehicle? v with
    | none => .error
    | some veh =>
      if !env.mechKnown veh.mech then .error
      else do
        let s ← w.sim.modifyVehicle env { veh with en := env.idle veh w.sim.dt }
        pure { w with sim := s }
  | .servicingPooling | .dispatchPooling => .error

/-- `VehicleState.default_update` for a vehicle whose (snapshot) activity is `a` -/
def defaultUpdate (w : World) (v : VehicleId) (a : Act) : Outcome World :=
  if terminal env w.sim v a then do
    let next ← defaultNext env w.sim v a
    let w1 ← transition env w v a next
    match w1.sim.vehicle? v with
    | none => .error
    | some veh => performUpdate env w1 v veh.act
  else performUpdate env w v a

end

end Hive
