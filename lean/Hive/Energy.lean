/-
  Hive.Energy — the mechatronics arithmetic over exact rationals.
  `nrel/hive/model/vehicle/mechatronics/{bev,ice}.py`, `powertrain/tabular_powertrain.py`,
  `powercurve/tabular_powercurve.py`.  BEV and ICE are written separately, as the code is.

  Floats are exact rationals here; the constants `SECONDS_TO_HOURS = 1/3600` etc. are the exact
  mathematical values (the Python float constants differ from them by < 1e-16 relative).
-/
import Hive.Types

namespace Hive

/-- `numpy.interp(x, xp, fp)` for increasing `xp`: clamped outside, linear inside -/
def interp (x : Rat) : List Rat → List Rat → Rat
  | [], _ => 0
  | _, [] => 0
  | [_], f :: _ => f
  | x0 :: x1 :: xs, f0 :: fs =>
    if x ≤ x0 then f0
    else match fs with
      | [] => f0
      | f1 :: fs' =>
        if x < x1 then f0 + (x - x0) * ((f1 - f0) / (x1 - x0))
        else interp x (x1 :: xs) (f1 :: fs')

inductive MechKind where
  | bev | ice
  deriving DecidableEq, Repr, Inhabited

/-- a mechatronics definition with the unit conversions and scale factors already applied -/
structure Mech where
  id : MechId
  kind : MechKind
  capacity : Rat            -- battery_capacity_kwh / tank_capacity_gallons
  idleRate : Rat            -- idle_kwh_per_hour / idle_gallons_per_hour
  speedConv : Rat           -- km/h → powertrain speed unit
  distConv : Rat            -- km   → powertrain distance unit
  energyConv : Rat          -- powertrain energy unit → kWh (BEV) / gallons (ICE)
  ptSpeed : List Rat        -- consumption_speed
  ptEnergy : List Rat       -- consumption_energy_per_distance (scaled)
  taperCutoff : Rat := 0    -- BEV: charge_taper_cutoff_kw
  fullThreshold : Rat := 0  -- BEV: battery_full_threshold_kwh
  pcStep : Nat := 1         -- BEV: powercurve.step_size_seconds
  pcEnergy : List Rat := [] -- BEV: _charging_energy_kwh
  pcRate : List Rat := []   -- BEV: _charging_rate_kw
  deriving Repr, Inhabited

namespace Mech

/-- `TabularPowertrain.link_cost` -/
def linkCost (m : Mech) (l : Link) : Rat :=
  interp (l.speed * m.speedConv) m.ptSpeed m.ptEnergy * (l.dist * m.distConv)

/-- `TabularPowertrain.energy_cost` (sum from 0, left to right) in the vehicle's energy unit -/
def energyCost (m : Mech) (r : Route) : Rat :=
  (r.foldl (fun acc l => acc + m.linkCost l) 0) * m.energyConv

def isEmpty (_m : Mech) (e : Energy) : Bool := e.level ≤ 0

def isFull (m : Mech) (e : Energy) : Bool :=
  match m.kind with
  | .bev => e.level ≥ m.capacity - m.fullThreshold
  | .ice => e.level ≥ m.capacity

def validCharger (m : Mech) (electric : Bool) : Bool :=
  match m.kind with
  | .bev => electric
  | .ice => !electric

/-- remove `used`, clamped at zero, booking what was actually removed on the updated vehicle -/
def spend (e : Energy) (used : Rat) : Energy :=
  let new := max 0 (e.level - used)
  { e with level := new, expended := e.expended + (e.level - new) }

/-- `consume_energy` -/
def consume (m : Mech) (e : Energy) (r : Route) : Energy := spend e (m.energyCost r)

/-- `idle` -/
def idle (m : Mech) (e : Energy) (dt : Nat) : Energy := spend e (m.idleRate * dt * (1 / 3600))

/-- `TabularPowercurve.charge`:
    `while t < duration and energy < full: step = min(step_size, duration - t); …; t += step`.
    Structural recursion on `fuel` (≥ number of iterations). -/
def pcCharge (m : Mech) (full power : Rat) (duration : Nat) : Nat → Nat → Rat → Rat
  | 0, _, e => e
  | fuel + 1, t, e =>
    if t < duration ∧ e < full then
      let vehRate := interp e m.pcEnergy m.pcRate
      let p := min vehRate power
      let step : Nat := min m.pcStep (duration - t)
      let kwh := p * (step * (1 / 3600))
      pcCharge m full power duration fuel (t + step) (e + kwh)
    else e

/-- number of loop iterations `pcCharge` can need -/
def pcFuel (m : Mech) (dt : Nat) : Nat := if m.pcStep = 0 then 0 else dt / m.pcStep + 1

/-- `add_energy` (an invalid plug adds nothing) -/
def addEnergy (m : Mech) (e : Energy) (electric : Bool) (rate : Rat) (dt : Nat) : Energy :=
  if !m.validCharger electric then e
  else
    let new : Rat :=
      match m.kind with
      | .ice => min m.capacity (e.level + rate * dt)
      | .bev =>
        if rate < m.taperCutoff then min m.capacity (e.level + rate * dt * (1 / 3600))
        else min m.capacity (pcCharge m (m.capacity - m.fullThreshold) rate dt (m.pcFuel dt) 0 e.level)
    { e with level := new, gained := e.gained + (new - e.level) }

end Mech

end Hive
