import Hive
import Audit.C11
import Audit.C20
import Audit.C15
import Audit.C12
import Audit.C13
import Audit.C14
import Audit.C19
