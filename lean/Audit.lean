import Hive
import Audit.C11
