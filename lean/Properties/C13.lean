/-
  C13 — Routes are connected paths from origin to destination.

  "For any two positions on the road network the router returns a route whose first link starts
   at the origin position, whose last link ends at the destination position, whose consecutive
   links join end to start, and whose links all exist in the network; the route is empty only
   when origin and destination coincide. Snapping any location to the network yields a position
   that lies on the link it names."

  Model: `Hive/Router.lean`. The straight-line network is modelled completely. On a street
  network the graph search (`networkx.astar_path`) is a parameter: the theorems hold for every
  answer that is a junction walk from the end of the origin link to the start of the destination
  link (checked on every run), and say that the repository's own code
  (`route_from_nx_path`, `resolve_route_src_dst_positions`) turns it into a route with the stated
  shape. The same shape is a Bool predicate (`validRoute`) evaluated on the implementation's
  routes, and snapping is checked against the link's own cell line.
-/
import Hive.Router

namespace Hive
namespace C13
open Router

/-- `r` leads from cell `a` to cell `b`, every link starting where the previous one ended -/
def Chain : Route → Cell → Cell → Prop
  | [], a, b => a = b
  | l :: r, a, b => l.start = a ∧ Chain r l.stop b

theorem chain_append {r1 r2 : Route} {a b c : Cell} (h1 : Chain r1 a b) (h2 : Chain r2 b c) : Chain (r1 ++ r2) a c := by
  induction r1 generalizing a with
  | nil => simp only [Chain] at h1; subst h1; simpa using h2
  | cons l r ih => exact ⟨h1.1, ih h1.2⟩

/-- a chain is connected in the sense of the invariants (C06, C07) and has the stated ends -/
theorem chain_connected {r : Route} {a b : Cell} (h : Chain r a b) : connected r = true := by
  induction r generalizing a with
  | nil => rfl
  | cons l r ih =>
    cases r with
    | nil => rfl
    | cons l2 r2 =>
      simp only [connected, Bool.and_eq_true, beq_iff_eq]
      exact ⟨h.2.1.symm, ih h.2⟩

theorem chain_ends {r : Route} {a b : Cell} (h : Chain r a b) :
    (∀ l, r.head? = some l → l.start = a) ∧ (∀ l, r.getLast? = some l → l.stop = b) := by
  induction r generalizing a with
  | nil => simp
  | cons l r ih =>
    refine ⟨by intro l' h'; simp at h'; subst h'; exact h.1, ?_⟩
    intro l' h'
    cases r with
    | nil => simp at h'; subst h'; exact h.2
    | cons l2 r2 =>
      rw [List.getLast?_cons_cons] at h'
      exact (ih h.2).2 l' h'

/-! ### the straight-line network -/

/-- **the straight-line route**: empty exactly when the positions coincide, otherwise one link
    from the origin cell to the destination cell -/
theorem haversine_route (linkId : Cell → Cell → LinkId) (dist : Cell → Cell → Rat) (o d : Pos) :
    (haversineRoute linkId dist o d = [] ↔ o = d) ∧ Chain (haversineRoute linkId dist o d) o.cell d.cell := by
  unfold haversineRoute
  by_cases h : o = d
  · subst h; simp [Chain]
  · have : (o == d) = false := by simpa using h
    simp [this, Chain, h]

/-! ### street networks -/

/-- the link table agrees with the junctions' cells -/
def Consistent (net : Net) (cellOf : Nat → Cell) : Prop :=
  ∀ l ∈ net, l.link.start = cellOf l.u ∧ l.link.stop = cellOf l.v

theorem byNodes_some {net : Net} {a b : Nat} {l : NLink} (h : net.byNodes a b = some l) : l ∈ net ∧ l.u = a ∧ l.v = b := by
  unfold Net.byNodes at h
  have h1 := List.mem_of_find?_eq_some h
  have h2 := List.find?_some h
  simp only [Bool.and_eq_true, beq_iff_eq] at h2
  exact ⟨h1, h2.1, h2.2⟩

theorem byId_some {net : Net} {i : LinkId} {l : NLink} (h : net.byId i = some l) : l ∈ net ∧ l.link.id = i := by
  unfold Net.byId at h
  have h1 := List.mem_of_find?_eq_some h
  have h2 := List.find?_some h
  simp only [beq_iff_eq] at h2
  exact ⟨h1, h2⟩

/-- **`route_from_nx_path`**: whenever it succeeds, the links lead from the first junction of the
    node list to the last one, and every one of them is a link of the table -/
theorem routeFromPath_chain {net : Net} {cellOf : Nat → Cell} (hc : Consistent net cellOf) :
    ∀ (p : List Nat) (a : Nat) (inner : Route), p.head? = some a → routeFromPath net p = some inner →
      (∀ b, p.getLast? = some b → Chain inner (cellOf a) (cellOf b)) ∧
      (∀ l ∈ inner, ∃ n ∈ net, n.link = l) := by
  intro p
  induction p with
  | nil => intro a inner h; simp at h
  | cons x rest ih =>
    intro a inner ha h
    simp only [List.head?_cons, Option.some.injEq] at ha
    subst ha
    cases rest with
    | nil =>
      simp only [routeFromPath, Option.some.injEq] at h
      subst h
      refine ⟨?_, by simp⟩
      intro b hb
      simp at hb
      subst hb
      rfl
    | cons y rest2 =>
      simp only [routeFromPath] at h
      split at h
      · next l r hl hr =>
        cases h
        obtain ⟨hm, hu, hv⟩ := byNodes_some hl
        obtain ⟨ih1, ih2⟩ := ih y r rfl hr
        refine ⟨?_, ?_⟩
        · intro b hb
          rw [List.getLast?_cons_cons] at hb
          refine ⟨by rw [(hc l hm).1, hu], ?_⟩
          rw [(hc l hm).2, hv]
          exact ih1 b hb
        · intro l' hl'
          rcases List.mem_cons.mp hl' with rfl | h'
          · exact ⟨l, hm, rfl⟩
          · exact ih2 l' h'
      · cases h

/-- **the street route**: for distinct positions on known links, and a graph-search answer that
    is a junction walk from the end of the origin link to the start of the destination link, the
    route is not empty, leads from the origin cell to the destination cell with consecutive links
    joined, begins on the origin's link and ends on the destination's link, and consists of links
    of the network (the first and last with their start / end moved to the positions) -/
theorem osm_route {net : Net} {cellOf : Nat → Cell} (hc : Consistent net cellOf)
    (path : Nat → Nat → List Nat) (o d : Pos) (hod : o ≠ d) (src dst : NLink)
    (hsrc : net.byId o.link = some src) (hdst : net.byId d.link = some dst)
    (inner : Route) (hwalk : routeFromPath net (path src.v dst.u) = some inner)
    (hhead : (path src.v dst.u).head? = some src.v) (hlast : (path src.v dst.u).getLast? = some dst.u) :
    osmRoute net path o d ≠ [] ∧ Chain (osmRoute net path o d) o.cell d.cell ∧
    connected (osmRoute net path o d) = true ∧
    (∃ first, (osmRoute net path o d).head? = some first ∧ first.id = o.link ∧ first.start = o.cell) ∧
    (∃ last, (osmRoute net path o d).getLast? = some last ∧ last.id = d.link ∧ last.stop = d.cell) ∧
    (∀ l ∈ osmRoute net path o d, ∃ n ∈ net, n.link.id = l.id ∧ n.link.dist = l.dist ∧ n.link.speed = l.speed) := by
  have hne : (o == d) = false := by simpa using hod
  have hval : osmRoute net path o d = resolve src.link dst.link o d inner := by
    unfold osmRoute
    simp only [hne, Bool.false_eq_true, if_false, hsrc, hdst, hwalk]
  obtain ⟨hs1, hs2⟩ := byId_some hsrc
  obtain ⟨hd1, hd2⟩ := byId_some hdst
  obtain ⟨hch, hmem⟩ := routeFromPath_chain hc _ _ inner hhead hwalk
  have hchain : Chain (resolve src.link dst.link o d inner) o.cell d.cell := by
    unfold resolve
    refine ⟨rfl, ?_⟩
    simp only
    apply chain_append (b := cellOf dst.u)
    · rw [(hc src hs1).2]; exact hch dst.u hlast
    · exact ⟨(hc dst hd1).1, rfl⟩
  rw [hval]
  refine ⟨by simp [resolve], hchain, chain_connected hchain, ?_, ?_, ?_⟩
  · exact ⟨_, rfl, hs2, rfl⟩
  · refine ⟨{ dst.link with stop := d.cell }, ?_, hd2, rfl⟩
    unfold resolve
    rw [List.getLast?_append]
    simp
  · intro l hl
    unfold resolve at hl
    rcases List.mem_cons.mp hl with rfl | hl
    · exact ⟨src, hs1, rfl, rfl, rfl⟩
    · rcases List.mem_append.mp hl with hl | hl
      · obtain ⟨n, hn, rfl⟩ := hmem l hl
        exact ⟨n, hn, rfl, rfl, rfl⟩
      · simp only [List.mem_singleton] at hl
        subst hl
        exact ⟨dst, hd1, rfl, rfl, rfl⟩

/-- the route is empty when (and, by `osm_route`, only when) the positions coincide -/
theorem osm_route_same (net : Net) (path : Nat → Nat → List Nat) (o : Pos) : osmRoute net path o o = [] := by
  unfold osmRoute; simp

/-! ### not vacuous: a three-junction street -/

example :
    let net : Net := [⟨0, 1, ⟨10, 100, 101, 1, 30⟩, 120⟩, ⟨1, 2, ⟨11, 101, 102, 2, 60⟩, 120⟩, ⟨2, 0, ⟨12, 102, 100, 1, 30⟩, 120⟩]
    osmRoute net (fun a _ => [a]) ⟨10, 150⟩ ⟨11, 160⟩ =
      [⟨10, 150, 101, 1, 30⟩, ⟨11, 101, 160, 2, 60⟩] ∧
    validRoute net ⟨10, 150⟩ ⟨11, 160⟩ (osmRoute net (fun a _ => [a]) ⟨10, 150⟩ ⟨11, 160⟩) = true := by
  decide +kernel

end C13
end Hive
