/-
  The state invariants over the COMPLETE step cycle: every state reachable by any sequence of
  instruction phases, vehicle updates, ticks, request arrivals, cancellations, charging price
  updates and driver (shift) phases satisfies C02, C07, C08, C10 and C17.

  (The per-property files prove the invariants for the control phases, `Reachable`; here the two
  remaining phases of `Update.apply_update` are added: they change plug prices and driver states
  only, which no invariant reads - `Proofs.Cosmetic`.)
-/
import Proofs.Cosmetic

namespace Hive
namespace Full
variable {env : Env}

/-- C02 in every state reachable by the complete cycle -/
theorem C02 (hf : ∀ c, env.inFence c = true) {s0 s : Sim} (hwf : s0.WF) (h0 : inv02 s0 = true)
    (h : ReachableX env s0 s) : inv02 s = true :=
  (reachableX_inv (C02.runInv env) (fun _ _ hc hi => by rw [inv02_cosmetic hc]; exact hi) hf hwf h0 h).1

/-- C10 in every state reachable by the complete cycle -/
theorem C10 (hf : ∀ c, env.inFence c = true) {s0 s : Sim} (hwf : s0.WF) (h0 : inv10 s0 = true)
    (h : ReachableX env s0 s) : inv10 s = true :=
  (reachableX_inv (C10.runInv env) (fun _ _ hc hi => by rw [inv10_cosmetic hc]; exact hi) hf hwf h0 h).1

/-- C17 in every state reachable by the complete cycle -/
theorem C17 (hf : ∀ c, env.inFence c = true) {s0 s : Sim} (hwf : s0.WF) (h0 : Inv17 env s0)
    (h : ReachableX env s0 s) : inv17 s = true :=
  inv17_of_Inv17 (reachableX_inv (C17.runInv env) (fun _ _ hc hi => Inv17_cosmetic hc hi) hf hwf h0 h).1

/-- C08 in every state reachable by the complete cycle -/
theorem C08 (hf : ∀ c, env.inFence c = true) {s0 s : Sim} (hwf : s0.WF) (h0 : Inv08 env s0)
    (h : ReachableX env s0 s) : inv08 env.parent s = true := by
  obtain ⟨hi, hw⟩ := reachableX_inv (C08.runInv env) (fun _ _ hc hi => Inv08_cosmetic hc hi) hf hwf h0 h
  exact inv08_of_Inv08 hw hi

/-- C07 in every state reachable by the complete cycle -/
theorem C07 (hg : GeoSpec env) (hf : ∀ c, env.inFence c = true) {s0 s : Sim} (hwf : s0.WF) (hdt : 0 < s0.dt)
    (h0 : inv07 s0 = true) (h : ReachableX env s0 s) : inv07 s = true := by
  apply Hive.C07.inv07_of_all
  refine (reachableX_inv (C07.runInv hg) ?_ hf hwf ?_ h).1
  · intro s s' hc hi
    rw [← hi]
    apply allVeh_cosmetic (P := locOk') hc
    intro x y hxy
    unfold locOk'
    rw [locOk_cosmetic hc hxy, hc.dt]
  · unfold inv07 at h0
    rw [List.all_eq_true] at h0 ⊢
    intro v hv
    unfold locOk'
    simp [h0 v hv, hdt]

end Full
end Hive
