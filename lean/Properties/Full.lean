/-
  The state invariants over the COMPLETE step cycle: every state reachable by any sequence of
  instruction phases, vehicle updates, ticks, request arrivals, cancellations, charging price
  updates and driver (shift) phases satisfies C02, C04 (energy bounds and ledger), C07, C08, C10 and C17.

  (The per-property files prove the invariants for the control phases, `Reachable`; here the two
  remaining phases of `Update.apply_update` are added: they change plug prices and driver states
  only, which no invariant reads - `Proofs.Cosmetic`.)
-/
import Proofs.Cosmetic
import Proofs.NoPool
import Properties.C04

namespace Hive
namespace Full
variable {env : Env}

/-- C02 in every state reachable by the complete cycle -/
theorem C02 (hf : ∀ c, env.inFence c = true) {s0 s : Sim} (hwf : s0.WF) (h0 : inv02 s0 = true)
    (h : ReachableX env s0 s) : inv02 s = true :=
  (reachableX_inv (C02.runInv env) (fun _ _ hc hi => by rw [inv02_cosmetic hc]; exact hi) hf hwf h0 h).1

/-- C10 in every state reachable by the complete cycle -/
theorem C10 (hf : ∀ c, env.inFence c = true) {s0 s : Sim} (hwf : s0.WF) (h0 : inv10 s0 = true)
    (h : ReachableX env s0 s) : inv10 s = true :=
  (reachableX_inv (C10.runInv env) (fun _ _ hc hi => by rw [inv10_cosmetic hc]; exact hi) hf hwf h0 h).1

/-- C17 in every state reachable by the complete cycle -/
theorem C17 (hf : ∀ c, env.inFence c = true) {s0 s : Sim} (hwf : s0.WF) (h0 : Inv17 env s0)
    (h : ReachableX env s0 s) : inv17 s = true :=
  inv17_of_Inv17 (reachableX_inv (C17.runInv env) (fun _ _ hc hi => Inv17_cosmetic hc hi) hf hwf h0 h).1

/-- C08 in every state reachable by the complete cycle -/
theorem C08 (hf : ∀ c, env.inFence c = true) {s0 s : Sim} (hwf : s0.WF) (h0 : Inv08 env s0)
    (h : ReachableX env s0 s) : inv08 env.parent s = true := by
  obtain ⟨hi, hw⟩ := reachableX_inv (C08.runInv env) (fun _ _ hc hi => Inv08_cosmetic hc hi) hf hwf h0 h
  exact inv08_of_Inv08 hw hi

/-- C07 in every state reachable by the complete cycle -/
theorem C07 (hg : GeoSpec env) (hf : ∀ c, env.inFence c = true) {s0 s : Sim} (hwf : s0.WF) (hdt : 0 < s0.dt)
    (h0 : inv07 s0 = true) (h : ReachableX env s0 s) : inv07 s = true := by
  apply Hive.C07.inv07_of_all
  refine (reachableX_inv (C07.runInv hg) ?_ hf hwf ?_ h).1
  · intro s s' hc hi
    rw [← hi]
    apply allVeh_cosmetic (P := locOk') hc
    intro x y hxy
    unfold locOk'
    rw [locOk_cosmetic hc hxy, hc.dt]
  · unfold inv07 at h0
    rw [List.all_eq_true] at h0 ⊢
    intro v hv
    unfold locOk'
    simp [h0 v hv, hdt]

theorem mem_of_map_eq {α β : Type} {f : α → β} : ∀ {xs ys : List α}, xs.map f = ys.map f → ∀ y ∈ ys, ∃ x ∈ xs, f x = f y
  | [], [], _, y, hy => by cases hy
  | [], _ :: _, h, _, _ => by simp at h
  | _ :: _, [], h, _, _ => by simp at h
  | x :: xs, z :: zs, h, y, hy => by
    simp only [List.map_cons, List.cons.injEq] at h
    rcases List.mem_cons.mp hy with rfl | hm
    · exact ⟨x, List.mem_cons_self, h.1⟩
    · obtain ⟨x', hx', he⟩ := mem_of_map_eq h.2 y hm
      exact ⟨x', List.mem_cons_of_mem _ hx', he⟩

/-- vehicles are never created or removed, whatever the phase -/
theorem vehicle_ids (hf : ∀ c, env.inFence c = true) {s0 s : Sim} (hwf : s0.WF) (h : ReachableX env s0 s) :
    s.vehicles.map Vehicle.id = s0.vehicles.map Vehicle.id := by
  have hI : RunInv env (fun s => s.vehicles.map Vehicle.id = s0.vehicles.map Vehicle.id) := by
    have hp : PrimInv env (fun s => s.vehicles.map Vehicle.id = s0.vehicles.map Vehicle.id) := by
      refine ⟨?_, ?_, ?_, ?_, ?_⟩
      · intro s s' v hi h; rw [← hi]; exact (Sim.modifyVehicle_sameIds h).veh
      · intro s s' r hi h; rw [← hi]; exact (Sim.modifyRequest_sameIds h).veh
      · intro s s' r hi h; rw [← hi]; exact (Sim.removeRequest_sameIds h).veh
      · intro s s' st hi h
        obtain ⟨_, _, _, hv, _⟩ := Sim.modifyStation_fields h
        rw [hv]; exact hi
      · intro s s' b hi h; rw [← hi]; exact (Sim.modifyBase_sameIds h).veh
    refine ⟨prim_stepInv hp (fun _ _ h => h), fun _ h => h, ?_, ?_⟩
    · intro s s' r _ hi hf _ _ h
      rw [(addRequest_fields hf h).1]; exact hi
    · intro s s' i _ hi h; exact hp.rem hi h
  refine (reachableX_inv hI ?_ hf hwf rfl h).1
  intro s s' hc hi
  rw [← hi]
  have := congrArg (List.map (fun (c : VehicleId × Pos × Membership × MechId × Energy × Act × Rat × Rat) => c.1)) hc.veh
  simpa [List.map_map, Function.comp_def, vehCore] using this

/-- C04 (bounds and ledger) in every state reachable by the complete cycle -/
theorem C04 {cap : MechId → Rat} (he : EnergyEnv env cap) (hf : ∀ c, env.inFence c = true) {s0 s : Sim} (hwf : s0.WF)
    (hrates : PlugsAllowed ratesOK s0) (h0 : ∀ veh ∈ s0.vehicles, EnOK cap veh) (h : ReachableX env s0 s) :
    ∀ veh ∈ s.vehicles, 0 ≤ veh.en.level ∧ veh.en.level ≤ cap veh.mech ∧
      ∃ veh0 ∈ s0.vehicles, veh0.id = veh.id ∧ lc veh.en = lc veh0.en := by
  let k : VehicleId → Rat := fun i => match s0.vehicle? i with
    | some v0 => lc v0.en
    | none => 0
  have hk0 : ∀ veh ∈ s0.vehicles, lc veh.en = k veh.id := by
    intro veh hm
    simp only [k]
    have : s0.vehicle? veh.id = some veh := lookup_of_mem hwf.veh hm
    rw [this]
  have hcos : ∀ s s', Cosmetic s s' →
      (PlugsAllowed ratesOK s ∧ ∀ veh ∈ s.vehicles, EnOK cap veh ∧ lc veh.en = k veh.id) →
      (PlugsAllowed ratesOK s' ∧ ∀ veh ∈ s'.vehicles, EnOK cap veh ∧ lc veh.en = k veh.id) := by
    intro s s' hc ⟨hp, hv⟩
    refine ⟨?_, ?_⟩
    · intro i st' hst' cs' hcs'
      have hm := hc.station? i
      rw [hst'] at hm
      cases hs : s.station? i with
      | none => rw [hs] at hm; cases hm
      | some st =>
        rw [hs] at hm
        simp only [Option.map_some, Option.some.injEq] at hm
        have hpl := (stnCore_fields hm).2.2.2
        obtain ⟨cs, hcs, hcore⟩ := mem_of_map_eq hpl.symm cs' hcs'
        have hr : cs.rate = cs'.rate := by
          simp only [plugCore, Prod.mk.injEq] at hcore
          exact hcore.2.2.1
        have := hp i st hs cs hcs
        unfold ratesOK at this ⊢
        rw [← hr]; exact this
    · intro veh' hveh'
      obtain ⟨veh, hveh, hcore⟩ := mem_of_map_eq hc.veh.symm veh' hveh'
      obtain ⟨hid, _, _, hmech, hen, _⟩ := vehCore_fields hcore
      obtain ⟨hok, hl⟩ := hv veh hveh
      refine ⟨⟨by rw [← hen]; exact hok.lo, by rw [← hen, ← hmech]; exact hok.hi⟩, by rw [← hen, ← hid]; exact hl⟩
  obtain ⟨hinv, hwfs⟩ := reachableX_inv (energy_runInv he k) hcos hf hwf ⟨hrates, fun veh hm => ⟨h0 veh hm, hk0 veh hm⟩⟩ h
  intro veh hm
  obtain ⟨hok, hkv⟩ := hinv.2 veh hm
  refine ⟨hok.lo, hok.hi, ?_⟩
  have hmem : veh.id ∈ s0.vehicles.map Vehicle.id := by
    rw [← vehicle_ids hf hwf h]; exact List.mem_map_of_mem hm
  obtain ⟨veh0, hm0, hid0⟩ := List.mem_map.mp hmem
  refine ⟨veh0, hm0, hid0, ?_⟩
  rw [hkv]
  simp only [k]
  have : s0.vehicle? veh0.id = some veh0 := lookup_of_mem hwf.veh hm0
  rw [← hid0, this]

/-- **the pooling activities are unreachable**: from a state in which no vehicle is in a pooling
    activity, no history of the complete cycle - whatever the instructions, pooling instructions
    and requests that allow pooling included - puts a vehicle into one -/
theorem no_pooling (hf : ∀ c, env.inFence c = true) {s0 s : Sim} (hwf : s0.WF)
    (h0 : ∀ veh ∈ s0.vehicles, veh.act.noPool = true) (h : ReachableX env s0 s) :
    ∀ veh ∈ s.vehicles, veh.act.noPool = true := by
  have hI := vehPred_runInv (env := env) noPool_vehPred
  have := (reachableX_inv hI ?_ hf hwf (by simpa [List.all_eq_true] using h0) h).1
  · simpa [List.all_eq_true] using this
  · intro s s' hc hi
    simp only [List.all_eq_true] at hi ⊢
    intro veh' hm'
    obtain ⟨veh, hm, he⟩ := mem_of_map_eq hc.veh.symm veh' hm'
    obtain ⟨_, _, _, _, _, hact⟩ := vehCore_fields he
    rw [← hact]
    exact hi veh hm

end Full
end Hive
