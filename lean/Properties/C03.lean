/-
  Property C03 — every ride request is resolved exactly once.

  State-level theorems about the model (for every environment and controller):
  * `no_divert` — no instruction can divert a vehicle that carries passengers and has route left:
    `ServicingTrip.exit` refuses, so the instruction is rejected and nothing changes (C09);
  * `pickup_exact` — a pickup removes the request from the waiting set, credits its fare once to
    the vehicle that picks it up and files exactly one pickup report, in one state update;
  * `requests_change_only_by` — in an instruction or update phase the set of waiting request ids
    only shrinks, and only by pickups (a `ServicingTrip` entry);
  * `pickup_needs_waiting` — a request can be picked up only while it is waiting (so not after a
    cancellation, and not twice);
  * `dropoff_once_then_idle` — the drop-off report is filed in the update in which the route
    becomes empty; in the next update the vehicle leaves for `Idle` before anything else.
  Run-level theorems (state + event log, every history of the complete step cycle - any
  instruction lists, vehicle updates, ticks, arrivals under fresh ids, cancellations, price
  updates, driver phases - from a state with an empty log):
  * `run_resolved_once` — the pickup and cancel events of a run name pairwise different
    requests: never two pickups, never two cancellations, never a pickup and a cancellation of
    one request;
  * `run_waiting_unresolved` — a request that is still waiting has neither;
  * `run_none_vanishes` — a request that was waiting at the start or has an add event is still
    waiting or has been picked up or cancelled, and conversely: none vanishes without a trace,
    none appears from nowhere;
  * (`C05.run_vehicle`) — a vehicle's balance moves by exactly the fares of its pickup events
    minus its charging payments: a fare is credited once, to the vehicle of the pickup event.
  * `run_dropoff_by_picker`, `run_dropoff_once` — (runs with one instruction per vehicle in every
    instruction phase, `Board.Reachable1`, from a state in which nobody is in a trip) every drop-off
    event is preceded by a pickup event of the SAME vehicle for the same request, and no request is
    dropped off twice; `run_on_board` — a vehicle in `ServicingTrip` has a pickup event for its
    request and, while there is road ahead, no drop-off event for it (`Proofs.Board`: a third walk,
    `defaultUpdate_trip`, summarising every update of a vehicle by what it files and who is on board).
  Not a theorem: that a drop-off *eventually* happens (liveness; "unless that vehicle runs out of
  energy or the run ends first") and "at its destination" beyond the guard of `drop_off_trip`
  (`dropOffTrip` refuses elsewhere: `dropoff_reports`).
-/
import Proofs.C17
import Proofs.Stack
import Proofs.Reqs
import Proofs.Board

namespace Hive
namespace C03

/-- `ServicingTrip.exit` refuses while the route is not finished -/
theorem exit_refused (env : Env) (s : Sim) (v : VehicleId) (q : Request) (d : Time) (l : Link) (r : Route) :
    exit env s v (.servicingTrip q d (l :: r)) = .rejected := by simp [exit]

/-- **no instruction can divert a vehicle that is carrying passengers**: whatever `next`, the
    plan is skipped and the state is carried on unchanged -/
theorem no_divert (env : Env) (w : World) (i : Instr) (v : VehicleId) (q : Request) (d : Time) (l : Link)
    (r : Route) (next : Act) (ps : List (Instr × VehicleId × Act × Act)) :
    applyPlans env w ((i, v, .servicingTrip q d (l :: r), next) :: ps) = applyPlans env w ps := by
  have : transition env w v (.servicingTrip q d (l :: r)) next = .rejected := by
    simp [transition, exit]
  simp [applyPlans, this]

/-- a pickup: request removed, fare credited once to this vehicle, one report -/
theorem pickup_exact (env : Env) {w w1 : World} {v : VehicleId} {rid : RequestId}
    (h : pickUpTrip env w v rid = .ok w1) :
    ∃ veh req, w.sim.vehicle? v = some veh ∧ w.sim.request? rid = some req ∧
      w1.sim.request? rid = none ∧
      w1.sim.vehicle? v = some { veh with balance := veh.balance + req.value } ∧
      (∃ wait, w1.log = w.log ++ [Event.pickup v rid req.value wait]) := by
  obtain ⟨veh, req, hveh, hreq, hv, hr, _⟩ := pickUpTrip_fields h
  refine ⟨veh, req, hveh, hreq, ?_, ?_, ?_⟩
  · unfold Sim.request?; rw [hr]; exact lookup_removeById_self _ _
  · unfold Sim.vehicle? at *
    rw [hv]
    have hid := (lookup_some hveh).2
    have hl : lookup Vehicle.id w.sim.vehicles
        ({ veh with balance := veh.balance + req.value } : Vehicle).id = some veh := by
      simp only; rw [hid]; exact hveh
    have := lookup_replaceById_self hl
    simpa [hid] using this
  · unfold pickUpTrip at h
    rw [hveh, hreq] at h
    simp only [Outcome.bind_eq, Outcome.bind_eq_ok, Outcome.pure_eq] at h
    obtain ⟨s1, _, s2, _, h3⟩ := h
    cases h3
    exact ⟨_, rfl⟩

/-- a pickup is possible only for a request that is waiting: not after cancellation, not twice -/
theorem pickup_needs_waiting (env : Env) {w : World} {v : VehicleId} {rid : RequestId}
    (h : w.sim.request? rid = none) : ∀ w1, pickUpTrip env w v rid ≠ .ok w1 := by
  intro w1 hp
  obtain ⟨_, _, _, hreq, _⟩ := pickUpTrip_fields hp
  rw [h] at hreq
  cases hreq

/-- in a transition the waiting set changes only by a pickup (entering `ServicingTrip`);
    otherwise the request ids are the same -/
theorem requests_change_only_by (env : Env) {w w2 : World} {v : VehicleId} {prev next : Act}
    (h : transition env w v prev next = .ok w2) :
    w2.sim.requests.map Request.id = w.sim.requests.map Request.id ∨
    ∃ sreq dep route, next = .servicingTrip sreq dep route ∧
      w2.sim.requests.map Request.id = (removeById Request.id w.sim.requests sreq.id).map Request.id := by
  unfold transition at h
  simp only [Outcome.bind_eq, Outcome.bind_eq_ok] at h
  obtain ⟨s1, h1, h2⟩ := h
  have hex : s1.requests.map Request.id = w.sim.requests.map Request.id := by
    rcases exit_requests h1 with ⟨hs, _⟩ | ⟨rid, route, req, _, hreq, hrep⟩
    · rw [hs]
    · rw [hrep]; simp
  rcases enter_requests h2 with ⟨_, _, hsame⟩ | ⟨rid, route, req, _, hreq, _, _, hrep⟩ | ⟨sreq, dep, route, hn, hrem⟩
  · left; simp only at hsame; rw [hsame, hex]
  · left; simp only at hrep; rw [hrep]; simp [hex]
  · right
    refine ⟨sreq, dep, route, hn, ?_⟩
    simp only at hrem
    rw [hrem]
    simp only [removeById]
    -- same filter on id lists
    have : ∀ (xs ys : List Request), xs.map Request.id = ys.map Request.id →
        (xs.filter (fun y => y.id != sreq.id)).map Request.id = (ys.filter (fun y => y.id != sreq.id)).map Request.id := by
      intro xs
      induction xs with
      | nil => intro ys h; cases ys with
        | nil => rfl
        | cons y ys => simp at h
      | cons x xs ih =>
        intro ys h
        cases ys with
        | nil => simp at h
        | cons y ys =>
          simp only [List.map_cons, List.cons.injEq] at h
          simp only [List.filter_cons, h.1]
          split <;> simp [ih ys h.2, h.1]
    exact this _ _ hex

/-- the update in which the route is (or becomes) empty files the drop-off; an update that starts
    with an empty route first leaves `ServicingTrip` (terminal condition → `Idle`) -/
theorem dropoff_once_then_idle (env : Env) (w : World) (v : VehicleId) (q : Request) (d : Time) :
    terminal env w.sim v (.servicingTrip q d []) = true ∧
    defaultNext env w.sim v (.servicingTrip q d []) = .ok (.idle 0) := by
  simp [terminal, defaultNext]

/-! ### over whole runs -/

section Run
variable {env : Env} {w0 w : World}

/-- **never both, never twice** -/
theorem run_resolved_once (h0 : w0.log = []) (h : WReachable env w0 w) : (Reqs.resolved w.log).Nodup :=
  (Reqs.run_ledger h0 h).once

/-- a waiting request has been neither picked up nor cancelled -/
theorem run_waiting_unresolved (h0 : w0.log = []) (h : WReachable env w0 w) {r : RequestId}
    (hr : r ∈ Reqs.ids w.sim) : r ∉ Reqs.resolved w.log :=
  (Reqs.run_ledger h0 h).waiting r hr

/-- **none vanishes, none appears from nowhere** -/
theorem run_none_vanishes (h0 : w0.log = []) (h : WReachable env w0 w) (r : RequestId) :
    (r ∈ Reqs.ids w0.sim ∨ r ∈ Reqs.admitted w.log) ↔ (r ∈ Reqs.ids w.sim ∨ r ∈ Reqs.resolved w.log) :=
  (Reqs.run_ledger h0 h).kept r

end Run


/-! ### the passengers, over whole runs -/

section Passengers
variable {env : Env} {w0 w : World}

/-- **dropped off by the vehicle that picked up** -/
theorem run_dropoff_by_picker (hf : ∀ c, env.inFence c = true) (hwf : w0.sim.WF) (h0 : w0.log = [])
    (hnone : ∀ veh ∈ w0.sim.vehicles, Board.tripOf veh.act = none) (h : Board.Reachable1 env w0 w) :
    ∀ p ∈ Board.dropped w.log, p ∈ Board.picked w.log :=
  (Board.run_board hf hwf h0 hnone h).board.sub

/-- **dropped off at most once** -/
theorem run_dropoff_once (hf : ∀ c, env.inFence c = true) (hwf : w0.sim.WF) (h0 : w0.log = [])
    (hnone : ∀ veh ∈ w0.sim.vehicles, Board.tripOf veh.act = none) (h : Board.Reachable1 env w0 w) :
    ((Board.dropped w.log).map Prod.snd).Nodup :=
  Board.dropped_requests_nodup (Board.run_board hf hwf h0 hnone h)

/-- a vehicle in a trip has picked its request up, and with road ahead has not dropped it off yet -/
theorem run_on_board (hf : ∀ c, env.inFence c = true) (hwf : w0.sim.WF) (h0 : w0.log = [])
    (hnone : ∀ veh ∈ w0.sim.vehicles, Board.tripOf veh.act = none) (h : Board.Reachable1 env w0 w)
    {veh : Vehicle} (hm : veh ∈ w.sim.vehicles) {r : RequestId} (hr : Board.tripOf veh.act = some r) :
    (veh.id, r) ∈ Board.picked w.log ∧ (Board.onBoard veh.act = some r → (veh.id, r) ∉ Board.dropped w.log) :=
  (Board.run_board hf hwf h0 hnone h).board.trip veh hm r hr

end Passengers

end C03
end Hive
