/-
  Property C06 — vehicles move continuously and no faster than the road allows.

  Statements about the model's `traverse` / `move` (Hive/Traverse.lean, Hive/Activity.lean), for
  EVERY geometry oracle (H3 cells, great-circle distances, ground-truth speeds are parameters):

  * `junction`, `destination` — after a step the vehicle stands at the end of the last driven link,
    which is where the remaining route starts; the remaining route is connected and ends where
    the route ended (or, when nothing remains, the vehicle is at the route's end);
  * `route_preserved` — driven ++ remaining is the original route: `route = pre ++ post`, `post`
    untouched, the non-degenerate links of `pre` driven in order, at most the last one split into
    two parts with the same id meeting at one cell;
  * `odometer` — the distance booked is exactly the sum of the driven links;
  * `time_budget` — the fully driven links' whole-second travel times fit into the step;
  * `progress` — an open route with a non-degenerate first link is driven in every positive step;
  * `stationary_otherwise` — an update changes a vehicle's position only by `move`, to the end
    of the last driven link;
  * `leaves_when_arrived` — with an exhausted route the update attempts the default transition.

  Not provable here (oracle): that the cell returned by `point_along_link` differs from the
  link's start (strict positional progress for sub-cell advances, see DESIGN.md F16), and the
  distance of a partially driven link (great-circle distance of the snapped cells).
-/
import Proofs.Traverse
import Proofs.EnterPost

namespace Hive
namespace C06

theorem junction (g : Geo) {dt : Nat} (hdt : 0 < dt) {route : Route} {tr : Traversal} {last : Link}
    (hcon : connected route = true) (h : traverse g route dt = .ok tr)
    (hlast : tr.experienced.getLast? = some last) :
    connected tr.remaining = true ∧ ∀ f rest, tr.remaining = f :: rest → f.start = last.stop :=
  let s := (traverse_spec g hdt).junction route tr last hcon h hlast
  ⟨s.1, fun f rest hr => (s.2.2 f rest hr).1⟩

theorem destination (g : Geo) {dt : Nat} (hdt : 0 < dt) {route : Route} {tr : Traversal} {last : Link}
    (hcon : connected route = true) (h : traverse g route dt = .ok tr)
    (hlast : tr.experienced.getLast? = some last) :
    (tr.remaining = [] → route.getLast?.map (·.stop) = some last.stop) ∧
    (tr.remaining ≠ [] → tr.remaining.getLast?.map (·.stop) = route.getLast?.map (·.stop)) := by
  have s := (traverse_spec g hdt).junction route tr last hcon h hlast
  refine ⟨s.2.1, ?_⟩
  intro hne
  cases hr : tr.remaining with
  | nil => exact absurd hr hne
  | cons f rest => rw [← hr]; exact (s.2.2 f rest hr).2

theorem route_preserved (g : Geo) {route : Route} {dt : Nat} {tr : Traversal}
    (h : traverse g route dt = .ok tr) (hne : tr.experienced ≠ []) :
    ∃ acc, TravShape route acc ∧ tr.experienced = acc.experienced ∧ tr.remaining = acc.remaining :=
  traverse_shape h hne

theorem odometer (g : Geo) {route : Route} {dt : Nat} {tr : Traversal} (h : traverse g route dt = .ok tr) :
    tr.km = tr.experienced.foldl (fun a l => a + l.dist) 0 := traverse_km h

theorem time_budget (g : Geo) {route : Route} {dt : Nat} {tr : Traversal} (h : traverse g route dt = .ok tr) :
    ∃ fulls : Route, ∃ part : Option Link, tr.experienced = fulls ++ part.toList ∧ sumTT fulls ≤ dt :=
  traverse_time_budget h

theorem progress (g : Geo) {first : Link} {rest : Route} {dt : Nat} {tr : Traversal} (hdt : 0 < dt)
    (hnd : first.start ≠ first.stop)
    (hopen : some first.start ≠ (first :: rest).getLast?.map (·.stop))
    (h : traverse g (first :: rest) dt = .ok tr) : tr.experienced ≠ [] :=
  traverse_progress hdt (by simpa [Link.nd] using hnd) hopen h

/-- a vehicle's position changes in an update only through `move`, to the end of the last driven
    link; every other outcome of `_perform_update` leaves it where it was -/
theorem stationary_otherwise (env : Env) {w w2 : World} {v : VehicleId} {veh : Vehicle}
    (hveh : w.sim.vehicle? v = some veh) (h : performUpdate env w v veh.act = .ok w2) :
    ∃ veh', w2.sim.vehicle? v = some veh' ∧
      (veh'.pos = veh.pos ∨
       ∃ route tr last, veh.act.route? = some route ∧ env.traverse route w.sim.dt = .ok tr ∧
         tr.experienced.getLast? = some last ∧ veh'.pos = ⟨last.id, last.stop⟩) := by
  obtain ⟨veh', hv, _, hp⟩ := performUpdate_post hveh h
  refine ⟨veh', hv, ?_⟩
  rcases hp with ⟨hpos, _⟩ | ⟨route, tr, last, h1, h2, h3, h4, _⟩
  · exact Or.inl hpos
  · exact Or.inr ⟨route, tr, last, h1, h2, h3, h4⟩

/-- with an exhausted route the update does not move: it evaluates the terminal condition and
    attempts the default transition in that very update -/
theorem leaves_when_arrived (env : Env) (w : World) (v : VehicleId) (a : Act)
    (hr : a.route? = some []) :
    defaultUpdate env w v a =
      (defaultNext env w.sim v a).bind fun next => (transition env w v a next).bind fun w1 =>
        match w1.sim.vehicle? v with
        | none => .error
        | some veh => performUpdate env w1 v veh.act := by
  have ht : terminal env w.sim v a = true := by
    cases a <;> simp_all [Act.route?, terminal]
  unfold defaultUpdate
  simp only [ht, if_true]
  rfl

/-! non-vacuity: a two-link route, 60 s step, second link split -/
private def g0 : Geo := ⟨fun _ _ => 7, fun _ _ => 1/4, fun _ => some 30⟩
private def r0 : Route := [⟨1, 10, 20, 1/4, 30⟩, ⟨2, 20, 30, 1/2, 30⟩]
example : (traverse g0 r0 60).toOption.map (fun t => (t.experienced.map Link.geom, t.remaining.map Link.geom)) =
    some ([(1, 10, 20), (2, 20, 7)], [(2, 7, 30)]) := by decide +kernel

end C06
end Hive
