/-
  Property C08 — location indexes always agree with the entities.

  `inv08` (Hive/Inv.lean, the monitor on implementation states): for each of vehicles, requests,
  stations, bases — no duplicate cells, no empty cells, no duplicate ids in a cell; every entity
  is listed at exactly its cell and at exactly `parent(cell)` in the search index; nothing else
  is listed; ids unique.  `parent` (h3_to_parent) is an arbitrary function.

  Theorems:
  * `reachable` — `inv08` holds in every state reachable by any history (moves inside a search
    cell, across search cells, back again, several entities per cell, pickups, cancellations,
    arrivals with fresh ids);
  * `ops` — the same for ANY sequence of add / modify / remove operations on one collection
    (the function-level statement, independent of the simulation step; re-adding an existing id
    replaces the entity and its index entries);
  * `stations_fixed`, `bases_fixed` — stations and bases never change cell;
  * `reachable_lookup`, `reachable_station_search`, `reachable_base_search`, `ops_lookup`,
    `at_exact`, `search_exact`, `search_finds` — the read side: `at_geoid` reports exactly the
    entities standing at the cell, `get_entities_at_cell` exactly those the search cell encloses,
    and the ring search `nearest_entity` finds an accepted entity whenever one is registered
    within its rings.
-/
import Proofs.C08
import Proofs.Lookup

namespace Hive
namespace C08

theorem runInv (env : Env) : RunInv env (Inv08 env) := inv08_runInv env

/-- **C08** over simulation histories -/
theorem reachable (env : Env) {s0 s : Sim} (hwf : s0.WF) (h0 : Inv08 env s0) (h : Reachable env s0 s) :
    inv08 env.parent s = true :=
  inv08_of_Inv08 (reachable_wf hwf h) (reachable_inv (runInv env) hwf h0 h)

/-! ### any operation sequence on one collection -/

inductive Op where
  | add (e : Ent)
  | modify (e : Ent)
  | modifyFixed (e : Ent)
  | remove (i : Nat)

/-- apply one operation; a refused operation (error) leaves the collection as it was -/
def applyOp (parent : Cell → Cell) (c : Coll) : Op → Coll
  | .add e => match Coll.add parent c e with | .ok c' => c' | _ => c
  | .modify e => match Coll.modify parent c e with | .ok c' => c' | _ => c
  | .modifyFixed e => match Coll.modifyFixed c e with | .ok c' => c' | _ => c
  | .remove i => match Coll.remove parent c i with | .ok c' => c' | _ => c

def CollInv (parent : Cell → Cell) (c : Coll) : Prop :=
  (c.ents.map Ent.id).Nodup ∧ IdxInv parent c.ix (fun i => (lookup Ent.id c.ents i).map Ent.cell)

theorem applyOp_inv (parent : Cell → Cell) {c : Coll} (h : CollInv parent c) (op : Op) :
    CollInv parent (applyOp parent c op) := by
  obtain ⟨hn, hi⟩ := h
  cases op with
  | add e =>
    -- adding a fresh id to a collection that satisfies the invariant
    have fresh : ∀ (c0 : Coll), CollInv parent c0 → lookup Ent.id c0.ents e.id = none →
        CollInv parent (Coll.addFresh parent c0 e) := by
      intro c0 ⟨hn0, hi0⟩ hf
      simp only [Coll.addFresh, upsert_fresh hf]
      refine ⟨?_, ?_⟩
      · rw [List.map_append, List.map_cons, List.map_nil, List.nodup_append]
        refine ⟨hn0, by simp, ?_⟩
        intro a ha b hb
        simp only [List.mem_cons, List.not_mem_nil, or_false] at hb
        subst hb
        intro heq
        subst heq
        obtain ⟨y, hy, hyid⟩ := List.mem_map.mp ha
        exact lookup_none hf y hy hyid
      · have := idx_add hi0 (i := e.id) (by simp [hf]) e.cell
        refine ⟨this.loc.congr ?_, this.search.congr ?_⟩ <;>
        · intro j d
          unfold updCell lookup
          rw [List.find?_append]
          by_cases hj : j = e.id
          · subst hj
            have : List.find? (fun x => x.id == e.id) c0.ents = none := hf
            simp [this]
          · cases hfind : List.find? (fun x => x.id == j) c0.ents with
            | some x => simp [hj, lookup, hfind]
            | none =>
              have : (e.id == j) = false := by simpa using (Ne.symm hj)
              simp [this, hj, lookup, hfind]
    simp only [applyOp]
    split
    · next c' hm =>
      unfold Coll.add at hm
      split at hm
      · next hf => cases hm; exact fresh c ⟨hn, hi⟩ hf
      · next old hold =>
        split at hm
        · cases hm
        · next ix hix =>
          cases hm
          obtain ⟨ix', hm', hinv'⟩ := idx_remove hi (i := e.id) (c := old.cell) (by simp [hold])
          rw [hix] at hm'
          cases hm'
          refine fresh _ ⟨nodup_removeById e.id hn, ?_⟩ (lookup_removeById_self _ _)
          simp only
          rw [lookup_remove_upd Ent.cell e.id]
          exact hinv'
    · exact ⟨hn, hi⟩
  | modify e =>
    simp only [applyOp]
    split
    · next c' hm =>
      unfold Coll.modify at hm
      split at hm
      · cases hm
      · next old hold =>
        split at hm
        · cases hm
        · next ix hix =>
          cases hm
          obtain ⟨ix', hm', hinv'⟩ := idx_move hi (i := e.id) (old := old.cell) (new := e.cell) (by simp [hold])
          rw [hix] at hm'
          cases hm'
          refine ⟨by simpa using hn, ?_⟩
          simp only
          rw [lookup_replace_upd Ent.cell hold]
          exact hinv'
    · exact ⟨hn, hi⟩
  | modifyFixed e =>
    simp only [applyOp]
    split
    · next c' hm =>
      unfold Coll.modifyFixed at hm
      split at hm
      · cases hm
      · next old hold =>
        split at hm
        · cases hm
        · next hc =>
          cases hm
          refine ⟨by simpa using hn, ?_⟩
          simp only
          rw [lookup_replace_upd Ent.cell hold]
          have hcell : old.cell = e.cell := by simpa using hc
          rw [updCell_self (by rw [hold, Option.map_some, hcell])]
          exact hi
    · exact ⟨hn, hi⟩
  | remove i =>
    simp only [applyOp]
    split
    · next c' hm =>
      unfold Coll.remove at hm
      split at hm
      · cases hm
      · next old hold =>
        split at hm
        · cases hm
        · next ix hix =>
          cases hm
          obtain ⟨ix', hm', hinv'⟩ := idx_remove hi (i := i) (c := old.cell) (by simp [hold])
          rw [hix] at hm'
          cases hm'
          refine ⟨nodup_removeById i hn, ?_⟩
          simp only
          rw [lookup_remove_upd Ent.cell i]
          exact hinv'
    · exact ⟨hn, hi⟩

theorem empty_inv (parent : Cell → Cell) : CollInv parent Coll.empty := by
  refine ⟨List.nodup_nil, ⟨⟨List.nodup_nil, (by intro p hp; cases hp), ?_⟩, ⟨List.nodup_nil, (by intro p hp; cases hp), ?_⟩⟩⟩
  · intro c i; simp [Coll.empty, Index.empty, CollDict.get, lookup]
  · intro c i; simp [Coll.empty, Index.empty, CollDict.get, lookup]

/-- **C08 at function level**: after any sequence of operations, starting from the empty
    collection, the executable consistency check accepts -/
theorem ops (parent : Cell → Cell) (os : List Op) :
    Coll.ok parent (os.foldl (applyOp parent) Coll.empty) = true := by
  have : ∀ (os : List Op) (c : Coll), CollInv parent c → CollInv parent (os.foldl (applyOp parent) c) := by
    intro os
    induction os with
    | nil => intro c h; exact h
    | cons o os ih => intro c h; exact ih _ (applyOp_inv parent h o)
  obtain ⟨hn, hi⟩ := this os Coll.empty (empty_inv parent)
  unfold Coll.ok
  exact idxInv_ok hn hi

/-- stations never change cell -/
theorem stations_fixed (env : Env) {s0 s : Sim} (hwf : s0.WF) (h : Reachable env s0 s) (i : StationId) :
    cellOfStn s i = cellOfStn s0 i := by
  have hI : RunInv env (fun s => cellOfStn s = cellOfStn s0) := by
    have hp : PrimInv env (fun s => cellOfStn s = cellOfStn s0) := by
      refine ⟨?_, ?_, ?_, ?_, ?_⟩
      · intro s s' v hi h
        obtain ⟨_, _, hs, _⟩ := Sim.modifyVehicle_fields h
        rw [← hi]; unfold cellOfStn Sim.station?; rw [hs]
      · intro s s' r hi h
        obtain ⟨_, _, hs, _⟩ := Sim.modifyRequest_fields h
        rw [← hi]; unfold cellOfStn Sim.station?; rw [hs]
      · intro s s' r hi h
        obtain ⟨_, _, hs, _⟩ := Sim.removeRequest_fields h
        rw [← hi]; unfold cellOfStn Sim.station?; rw [hs]
      · intro s s' st hi h
        obtain ⟨old, hold, hcell, rfl⟩ := Sim.modifyStation_ok h
        rw [← hi]
        unfold cellOfStn Sim.station?
        rw [lookup_replace_upd (fun x : Station => x.pos.cell) hold]
        apply updCell_self
        have : lookup Station.id s.stations st.id = some old := hold
        rw [this, Option.map_some, hcell]
      · intro s s' b hi h
        obtain ⟨_, _, hs, _⟩ := Sim.modifyBase_fields h
        rw [← hi]; unfold cellOfStn Sim.station?; rw [hs]
    refine ⟨prim_stepInv hp (fun _ _ h => h), fun _ h => h, ?_, ?_⟩
    · intro s s' r _ hi hf _ _ h
      obtain ⟨_, hs, _⟩ := addRequest_fields hf h
      rw [← hi]; unfold cellOfStn Sim.station?; rw [hs]
    · intro s s' i _ hi h
      exact hp.rem hi h
  exact congrFun (reachable_inv hI hwf rfl h) i

theorem bases_fixed (env : Env) {s0 s : Sim} (hwf : s0.WF) (h : Reachable env s0 s) (i : BaseId) :
    cellOfBase s i = cellOfBase s0 i := by
  have hI : RunInv env (fun s => cellOfBase s = cellOfBase s0) := by
    have hp : PrimInv env (fun s => cellOfBase s = cellOfBase s0) := by
      refine ⟨?_, ?_, ?_, ?_, ?_⟩
      · intro s s' v hi h
        obtain ⟨_, _, _, hb, _⟩ := Sim.modifyVehicle_fields h
        rw [← hi]; unfold cellOfBase Sim.base?; rw [hb]
      · intro s s' r hi h
        obtain ⟨_, _, _, hb, _⟩ := Sim.modifyRequest_fields h
        rw [← hi]; unfold cellOfBase Sim.base?; rw [hb]
      · intro s s' r hi h
        obtain ⟨_, _, _, hb, _⟩ := Sim.removeRequest_fields h
        rw [← hi]; unfold cellOfBase Sim.base?; rw [hb]
      · intro s s' st hi h
        obtain ⟨_, _, hb, _⟩ := Sim.modifyStation_fields h
        rw [← hi]; unfold cellOfBase Sim.base?; rw [hb]
      · intro s s' b hi h
        obtain ⟨old, hold, hcell, rfl⟩ := Sim.modifyBase_ok h
        rw [← hi]
        unfold cellOfBase Sim.base?
        rw [lookup_replace_upd (fun x : Base => x.pos.cell) hold]
        apply updCell_self
        have : lookup Base.id s.bases b.id = some old := hold
        rw [this, Option.map_some, hcell]
    refine ⟨prim_stepInv hp (fun _ _ h => h), fun _ h => h, ?_, ?_⟩
    · intro s s' r _ hi hf _ _ h
      obtain ⟨_, _, hb, _⟩ := addRequest_fields hf h
      rw [← hi]; unfold cellOfBase Sim.base?; rw [hb]
    · intro s s' i _ hi h
      exact hp.rem hi h
  exact congrFun (reachable_inv hI hwf rfl h) i


/-! ### the read side: an entity is *found* at exactly its cell and its enclosing search cell

`Lookup.atCell` is one category of `SimulationState.at_geoid`, `Lookup.entitiesAtCell` is
`H3Ops.get_entities_at_cell`, `Lookup.nearest` is the ring search `H3Ops.nearest_entity` (the rings
are whatever `h3.k_ring` produced; the caller's `is_valid` and `distance_function` are arbitrary). -/

section Read
variable {α : Type} {key : α → Nat} {cell : α → Cell} {parent : Cell → Cell} {ix : Index} {ents : List α}

private theorem pairs_cell (hn : (ents.map key).Nodup) :
    ∀ e ∈ ents.map (fun x => (key x, cell x)), (fun i => (lookup key ents i).map cell) e.1 = some e.2 := by
  rintro _ hm
  obtain ⟨x, hx, rfl⟩ := List.mem_map.mp hm
  simp only [lookup_of_mem hn hx, Option.map_some]

/-- location lookup: an id is reported at a cell iff an entity with that id stands at that cell -/
theorem at_exact (h : IdxInv parent ix (fun i => (lookup key ents i).map cell)) (c : Cell) (i : Nat) :
    i ∈ Lookup.atCell ix c ↔ ∃ x, lookup key ents i = some x ∧ cell x = c := by
  rw [Lookup.atCell_exact h]
  cases lookup key ents i <;> simp

/-- the coarse index: the entities reported for a search cell are exactly those it encloses -/
theorem search_exact (hn : (ents.map key).Nodup) (h : IdxInv parent ix (fun i => (lookup key ents i).map cell))
    (sc : Cell) (x : α) (hx : x ∈ ents) :
    (key x, cell x) ∈ Lookup.entitiesAtCell ix.search (ents.map fun x => (key x, cell x)) sc ↔ parent (cell x) = sc := by
  rw [Lookup.entitiesAtCell_exact h (pairs_cell hn)]
  exact ⟨fun h => h.2, fun h => ⟨List.mem_map.mpr ⟨x, hx, rfl⟩, h⟩⟩

/-- the ring search finds every registered entity: if an accepted entity's enclosing search cell
    lies in one of the rings, the search answers, and its answer is an accepted entity whose search
    cell lies in the rings -/
theorem search_finds (hn : (ents.map key).Nodup) (h : IdxInv parent ix (fun i => (lookup key ents i).map cell))
    (valid : Nat → Bool) (dist : Nat → Rat) (rings : List (List Cell)) {x : α} (hx : x ∈ ents)
    (hv : valid (key x) = true) (hd : dist (key x) < 1000000) (hr : ∃ ring ∈ rings, parent (cell x) ∈ ring) :
    ∃ r, Lookup.nearest ix.search (ents.map fun x => (key x, cell x)) valid dist rings = some r ∧
      r ∈ ents.map (fun x => (key x, cell x)) ∧ valid r.1 = true ∧ ∃ ring ∈ rings, parent r.2 ∈ ring := by
  have hs := Lookup.nearest_finds h (pairs_cell hn) valid dist rings
    (e := (key x, cell x)) (List.mem_map.mpr ⟨x, hx, rfl⟩) hv hd hr
  cases hr' : Lookup.nearest ix.search (ents.map fun x => (key x, cell x)) valid dist rings with
  | none => rw [hr'] at hs; cases hs
  | some r => exact ⟨r, rfl, Lookup.nearest_sound h (pairs_cell hn) valid dist rings hr'⟩

end Read

/-- **C08, lookups, over simulation histories**: in every reachable state each of the four
    location lookups reports exactly the entities standing at the cell asked for -/
theorem reachable_lookup (env : Env) {s0 s : Sim} (hwf : s0.WF) (h0 : Inv08 env s0) (h : Reachable env s0 s) (c : Cell) (i : Nat) :
    (i ∈ Lookup.atCell s.vIdx c ↔ ∃ v, s.vehicle? i = some v ∧ v.pos.cell = c) ∧
    (i ∈ Lookup.atCell s.rIdx c ↔ ∃ r, s.request? i = some r ∧ r.pos.cell = c) ∧
    (i ∈ Lookup.atCell s.sIdx c ↔ ∃ x, s.station? i = some x ∧ x.pos.cell = c) ∧
    (i ∈ Lookup.atCell s.bIdx c ↔ ∃ b, s.base? i = some b ∧ b.pos.cell = c) := by
  have hI := reachable_inv (runInv env) hwf h0 h
  exact ⟨at_exact hI.veh c i, at_exact hI.req c i, at_exact hI.stn c i, at_exact hI.base c i⟩

/-- **C08, coarse search, over simulation histories**: in every reachable state the ring search
    over the station index (the instruction generators' station search) finds an accepted station
    whenever one is registered within the rings; the same holds for bases (the drivers' home
    search) and, by `search_finds`, for every collection -/
theorem reachable_station_search (env : Env) {s0 s : Sim} (hwf : s0.WF) (h0 : Inv08 env s0) (h : Reachable env s0 s)
    (valid : Nat → Bool) (dist : Nat → Rat) (rings : List (List Cell)) {x : Station} (hx : x ∈ s.stations)
    (hv : valid x.id = true) (hd : dist x.id < 1000000) (hr : ∃ ring ∈ rings, env.parent x.pos.cell ∈ ring) :
    ∃ r, Lookup.nearest s.sIdx.search (s.stations.map fun x => (x.id, x.pos.cell)) valid dist rings = some r ∧
      r ∈ s.stations.map (fun x => (x.id, x.pos.cell)) ∧ valid r.1 = true ∧ ∃ ring ∈ rings, env.parent r.2 ∈ ring :=
  search_finds (reachable_wf hwf h).stn (reachable_inv (runInv env) hwf h0 h).stn valid dist rings hx hv hd hr

theorem reachable_base_search (env : Env) {s0 s : Sim} (hwf : s0.WF) (h0 : Inv08 env s0) (h : Reachable env s0 s)
    (valid : Nat → Bool) (dist : Nat → Rat) (rings : List (List Cell)) {x : Base} (hx : x ∈ s.bases)
    (hv : valid x.id = true) (hd : dist x.id < 1000000) (hr : ∃ ring ∈ rings, env.parent x.pos.cell ∈ ring) :
    ∃ r, Lookup.nearest s.bIdx.search (s.bases.map fun x => (x.id, x.pos.cell)) valid dist rings = some r ∧
      r ∈ s.bases.map (fun x => (x.id, x.pos.cell)) ∧ valid r.1 = true ∧ ∃ ring ∈ rings, env.parent r.2 ∈ ring :=
  search_finds (reachable_wf hwf h).base (reachable_inv (runInv env) hwf h0 h).base valid dist rings hx hv hd hr

/-- the same after any operation sequence on one collection -/
theorem ops_lookup (parent : Cell → Cell) (os : List Op) (c : Cell) (i : Nat) :
    let coll := os.foldl (applyOp parent) Coll.empty
    i ∈ Lookup.atCell coll.ix c ↔ ∃ e, lookup Ent.id coll.ents i = some e ∧ e.cell = c := by
  have : ∀ (os : List Op) (c : Coll), CollInv parent c → CollInv parent (os.foldl (applyOp parent) c) := by
    intro os
    induction os with
    | nil => intro c h; exact h
    | cons o os ih => intro c h; exact ih _ (applyOp_inv parent h o)
  exact at_exact (this os Coll.empty (empty_inv parent)).2 c i

/-- not vacuous: two invalid entities in the near cell, the accepted one a ring further out -/
example : Lookup.nearest [(1, [1, 2]), (2, [3])] [(1, 11), (2, 12), (3, 25)] (fun i => i == 3) (fun _ => 1) [[1], [1, 2]]
    = some (3, 25) := by decide

/-! non-vacuity: moves inside a search cell, across search cells, back again, shared cells -/
private def par (c : Cell) : Cell := c / 10
example : Coll.ok par ([Op.add ⟨1, 11, 0⟩, .add ⟨2, 11, 0⟩, .add ⟨3, 25, 0⟩, .modify ⟨1, 12, 0⟩, .modify ⟨1, 25, 0⟩,
    .modify ⟨1, 11, 1⟩, .remove 2, .modifyFixed ⟨3, 25, 7⟩, .modifyFixed ⟨3, 26, 7⟩, .remove 9].foldl (applyOp par) Coll.empty)
    = true := ops par _

end C08
end Hive
