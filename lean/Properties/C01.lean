/-
  C01 — Runs are reproducible across processes and hash seeds.

  "Running the same scenario with the same configuration always produces the same simulation:
   identical entity states after every time step, the same collection of reported events and the
   same summary statistics, whichever process runs it and whatever the interpreter's hash
   randomisation is. …"

  Hash randomisation reaches a run only through the order in which an unordered container
  (`immutables.Map`, `frozenset`, `set`) is iterated. In the model such a container is a list
  "without an order promise"; a different hash seed is a different permutation of that list. What
  is proved here: every place where the model *processes* a collection in sequence first sorts it
  by a key that is injective on the collection, and the sorted sequence is the same for every
  permutation of the input (`sortBy_eq_of_perm` and its instances for the vehicle-update order,
  the driver-update order, the cancellation order and the id lookups). So the order of
  processing - the only thing a permutation could change - does not depend on the hash seed.

  The congruence of the control step under permutation of the entity maps is proved in
  `Properties/C01Walk.lean` (`control_run_order_independent`, on top of `C01Prims.lean`) and, for the
  complete cycle, in `Properties/C01Cycle.lean` (`reachable_order_independent`); the
  regenerated iteration-site table of the *source* is `C01Sites.lean`.

  Partial: the file readers and the instruction generators, rankings and reporters are not covered by the
  congruence. Those are decided by running the real code - whole packaged scenarios and
  function-level worlds with tied rankings and multi-fleet vehicles - in separate interpreters under
  different PYTHONHASHSEED values and comparing canonical per-step digests (hashseed layer).
-/
import Hive.Step
import Hive.Timed
import Hive.Shift
import Proofs.Lift
import Proofs.C18

namespace Hive
namespace C01

section Sorting
variable {α : Type} {le : α → α → Bool}

/-- two lists sorted by an antisymmetric order with the same elements are the same list -/
theorem eq_of_perm_of_sorted (hanti : ∀ a b, le a b = true → le b a = true → a = b)
    {l l' : List α} (hp : l.Perm l') (hs : l.Pairwise (fun a b => le a b = true))
    (hs' : l'.Pairwise (fun a b => le a b = true)) (hrefl : ∀ a, le a a = true) : l = l' := by
  induction l generalizing l' with
  | nil => exact (List.perm_nil.mp hp.symm).symm ▸ rfl
  | cons x xs ih =>
    cases l' with
    | nil => exact absurd hp.length_eq (by simp)
    | cons y ys =>
      rw [List.pairwise_cons] at hs hs'
      have hxy : x = y := by
        have hx : x ∈ y :: ys := hp.mem_iff.mp List.mem_cons_self
        have hy : y ∈ x :: xs := hp.mem_iff.mpr List.mem_cons_self
        rcases List.mem_cons.mp hx with h | h
        · exact h
        · rcases List.mem_cons.mp hy with h' | h'
          · exact h'.symm
          · exact hanti x y (hs.1 y h') (hs'.1 x h)
      subst hxy
      rw [ih (List.Perm.cons_inv hp) hs.2 hs'.2]

/-- **sorting forgets the input order**: for a total, transitive order that is antisymmetric on the
    elements in play, any two permutations of a collection sort to the same sequence -/
theorem sortBy_eq_of_perm (htot : ∀ a b, le a b = true ∨ le b a = true)
    (htr : ∀ a b c, le a b = true → le b c = true → le a c = true)
    (hanti : ∀ a b, le a b = true → le b a = true → a = b)
    {l l' : List α} (hp : l.Perm l') : sortBy le l = sortBy le l' := by
  have hrefl : ∀ a, le a a = true := fun a => by rcases htot a a with h | h <;> exact h
  exact eq_of_perm_of_sorted hanti (((sortBy_perm le l).trans hp).trans (sortBy_perm le l').symm)
    (sortBy_pairwise htot htr l) (sortBy_pairwise htot htr l') hrefl

end Sorting

/-- ids are processed in ascending order whatever order the map hands them out in: the
    cancellation order (`get_request_ids()`), the price-update order, the id pops of the
    instruction stack -/
theorem id_order_invariant {l l' : List Nat} (hp : l.Perm l') :
    sortBy (fun a b => decide (a ≤ b)) l = sortBy (fun a b => decide (a ≤ b)) l' := by
  apply sortBy_eq_of_perm _ _ _ hp
  · intro a b; simp only [decide_eq_true_eq]; omega
  · intro a b c; simp only [decide_eq_true_eq]; omega
  · intro a b; simp only [decide_eq_true_eq]; omega

/-- the result of a lookup by id does not depend on the order of the collection -/
theorem lookup_perm {α : Type} (key : α → Nat) {xs ys : List α} (hp : xs.Perm ys) (hnd : (xs.map key).Nodup) (i : Nat) :
    lookup key xs i = lookup key ys i := by
  have hnd' : (ys.map key).Nodup := (hp.map key).nodup_iff.mp hnd
  cases hx : lookup key xs i with
  | some x =>
    obtain ⟨hm, hk⟩ := lookup_some hx
    have := lookup_of_mem (key := key) hnd' (hp.mem_iff.mp hm)
    rw [hk] at this
    exact this.symm
  | none =>
    cases hy : lookup key ys i with
    | none => rfl
    | some y =>
      obtain ⟨hm, hk⟩ := lookup_some hy
      exact absurd hk (lookup_none hx y (hp.mem_iff.mpr hm))

/-- **the driver phase visits the vehicles in the same order for every hash seed** -/
theorem driver_order_invariant {vs vs' : List Vehicle} (hp : vs.Perm vs') (hnd : (vs.map Vehicle.id).Nodup) :
    (sortBy (fun (a b : Vehicle) => decide (a.id ≤ b.id)) vs).map Vehicle.id =
    (sortBy (fun (a b : Vehicle) => decide (a.id ≤ b.id)) vs').map Vehicle.id := by
  have h1 : ((sortBy (fun (a b : Vehicle) => decide (a.id ≤ b.id)) vs).map Vehicle.id).Perm
      ((sortBy (fun (a b : Vehicle) => decide (a.id ≤ b.id)) vs').map Vehicle.id) :=
    (((sortBy_perm _ vs).trans hp).trans (sortBy_perm _ vs').symm).map _
  have hs : ∀ (l : List Vehicle), ((sortBy (fun (a b : Vehicle) => decide (a.id ≤ b.id)) l).map Vehicle.id).Pairwise
      (fun a b => decide (a ≤ b) = true) := by
    intro l
    rw [List.pairwise_map]
    exact sortBy_pairwise (le := fun (a b : Vehicle) => decide (a.id ≤ b.id))
      (by intro a b; simp only [decide_eq_true_eq]; exact Nat.le_total a.id b.id)
      (by intro a b c; simp only [decide_eq_true_eq]; exact Nat.le_trans) l
  exact eq_of_perm_of_sorted (le := fun (a b : Nat) => decide (a ≤ b))
    (by intro a b; simp only [decide_eq_true_eq]; omega) h1 (hs vs) (hs vs')
    (by intro a; simp)

section SortingOn
variable {α : Type} {le : α → α → Bool}

/-- as `eq_of_perm_of_sorted`, with antisymmetry required only among the elements in play (records
    with unique ids: two *different* records with the same key do not occur in one collection) -/
theorem eq_of_perm_of_sorted_on {l l' : List α}
    (hanti : ∀ a ∈ l, ∀ b ∈ l, le a b = true → le b a = true → a = b)
    (hp : l.Perm l') (hs : l.Pairwise (fun a b => le a b = true))
    (hs' : l'.Pairwise (fun a b => le a b = true)) : l = l' := by
  induction l generalizing l' with
  | nil => exact (List.perm_nil.mp hp.symm).symm ▸ rfl
  | cons x xs ih =>
    cases l' with
    | nil => exact absurd hp.length_eq (by simp)
    | cons y ys =>
      rw [List.pairwise_cons] at hs hs'
      have hxy : x = y := by
        have hx : x ∈ y :: ys := hp.mem_iff.mp List.mem_cons_self
        have hy : y ∈ x :: xs := hp.mem_iff.mpr List.mem_cons_self
        rcases List.mem_cons.mp hx with h | h
        · exact h
        · rcases List.mem_cons.mp hy with h' | h'
          · exact h'.symm
          · exact hanti x List.mem_cons_self y (List.mem_cons_of_mem _ h') (hs.1 y h') (hs'.1 x h)
      subst hxy
      rw [ih (fun a ha b hb => hanti a (List.mem_cons_of_mem _ ha) b (List.mem_cons_of_mem _ hb))
        (List.Perm.cons_inv hp) hs.2 hs'.2]

theorem sortBy_eq_of_perm_on (htot : ∀ a b, le a b = true ∨ le b a = true)
    (htr : ∀ a b c, le a b = true → le b c = true → le a c = true)
    {l l' : List α} (hanti : ∀ a ∈ l, ∀ b ∈ l, le a b = true → le b a = true → a = b)
    (hp : l.Perm l') : sortBy le l = sortBy le l' := by
  apply eq_of_perm_of_sorted_on _ (((sortBy_perm le l).trans hp).trans (sortBy_perm le l').symm)
    (sortBy_pairwise htot htr l) (sortBy_pairwise htot htr l')
  intro a ha b hb
  exact hanti a ((sortBy_perm le l).mem_iff.mp ha) b ((sortBy_perm le l).mem_iff.mp hb)

end SortingOn

theorem lexLe_total (p q : Int × Nat) : lexLe p q = true ∨ lexLe q p = true := by
  obtain ⟨a, b⟩ := p; obtain ⟨c, d⟩ := q
  simp only [lexLe, Bool.or_eq_true, Bool.and_eq_true, decide_eq_true_eq, beq_iff_eq]
  omega

theorem lexLe_trans {p q r : Int × Nat} (h1 : lexLe p q = true) (h2 : lexLe q r = true) : lexLe p r = true := by
  obtain ⟨a, b⟩ := p; obtain ⟨c, d⟩ := q; obtain ⟨e, f⟩ := r
  simp only [lexLe, Bool.or_eq_true, Bool.and_eq_true, decide_eq_true_eq, beq_iff_eq] at *
  omega

theorem lexLe_antisymm {p q : Int × Nat} (h1 : lexLe p q = true) (h2 : lexLe q p = true) : p = q := by
  obtain ⟨a, b⟩ := p; obtain ⟨c, d⟩ := q
  simp only [lexLe, Bool.or_eq_true, Bool.and_eq_true, decide_eq_true_eq, beq_iff_eq] at *
  have : a = c ∧ b = d := by omega
  rw [this.1, this.2]

/-- two vehicles of one collection with the same id are the same record -/
theorem eq_of_id_eq {vs : List Vehicle} (hnd : (vs.map Vehicle.id).Nodup) {a b : Vehicle}
    (ha : a ∈ vs) (hb : b ∈ vs) (h : a.id = b.id) : a = b := by
  have h1 := lookup_of_mem (key := Vehicle.id) hnd ha
  have h2 := lookup_of_mem (key := Vehicle.id) hnd hb
  rw [h, h2] at h1
  exact (Option.some.inj h1).symm

/-- **the vehicle update order (`perform_vehicle_state_updates` → `_sort_by_vehicle_state`) does not
    depend on the order in which the vehicle Map hands out its values**: for every permutation of
    the collection (= every hash seed) the same sequence of *records* is stepped - vehicles that
    are not queueing by id, then the queueing ones by (enqueue time, id). This is the one place of the
    step where the code iterates `vehicles.values()` directly (iteration-site table,
    `C01Sites.reviewed`). -/
theorem update_order_invariant {vs vs' : List Vehicle} (hp : vs.Perm vs')
    (hnd : (vs.map Vehicle.id).Nodup) : updateOrder vs = updateOrder vs' := by
  unfold updateOrder
  simp only
  congr 1
  · apply sortBy_eq_of_perm_on (le := fun (a b : Vehicle) => decide (a.id ≤ b.id))
    · intro a b; simp only [decide_eq_true_eq]; exact Nat.le_total a.id b.id
    · intro a b c; simp only [decide_eq_true_eq]; exact Nat.le_trans
    · intro a ha b hb h1 h2
      simp only [decide_eq_true_eq] at h1 h2
      exact eq_of_id_eq hnd (List.mem_filter.mp ha).1 (List.mem_filter.mp hb).1 (Nat.le_antisymm h1 h2)
    · exact hp.filter _
  · apply sortBy_eq_of_perm_on
    · intro a b; exact lexLe_total _ _
    · intro a b c; exact lexLe_trans
    · intro a ha b hb h1 h2
      have hk := lexLe_antisymm h1 h2
      have hid : a.id = b.id := by
        revert hk
        cases a.act <;> cases b.act <;> simp only [Prod.mk.injEq] <;> exact fun h => h.2
      exact eq_of_id_eq hnd (List.mem_filter.mp ha).1 (List.mem_filter.mp hb).1 hid
    · exact hp.filter _

/-- **not vacuous**: two hand-out orders of three vehicles, one of them queueing -/
example :
    let v (i : Nat) (a : Act) : Vehicle := { (default : Vehicle) with id := i, act := a }
    updateOrder [v 3 (.idle 0), v 1 (.chargeQueueing 0 0 5), v 2 (.idle 0)] =
      updateOrder [v 2 (.idle 0), v 3 (.idle 0), v 1 (.chargeQueueing 0 0 5)] ∧
    (updateOrder [v 3 (.idle 0), v 1 (.chargeQueueing 0 0 5), v 2 (.idle 0)]).map Vehicle.id = [2, 3, 1] := by
  decide

/-- **not vacuous**: three permutations of one id set, one order -/
example : sortBy (fun a b => decide (a ≤ b)) [3, 1, 2] = [1, 2, 3] ∧
    sortBy (fun a b => decide (a ≤ b)) [2, 3, 1] = [1, 2, 3] ∧ sortBy (fun a b => decide (a ≤ b)) [1, 3, 2] = [1, 2, 3] := by
  decide

end C01
end Hive
