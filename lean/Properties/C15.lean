/-
  C15 — The clock advances uniformly and stepping composes.

  "Every step advances simulation time by exactly the configured step length, and advancing a
   freshly loaded simulation by a steps and then by b steps yields exactly the same states and
   events as advancing it by a+b steps in one call, or as letting the batch runner cover the same
   interval. The runner covers exactly the interval from the configured start time to the end
   time and refuses to step beyond it."

  Model: `Hive/Cycle.lean` (`step` = `Update.apply_update`, `crank`, `runnerStep`, `run`), for
  every behaviour of the instruction generators (a state machine carried in the payload), every
  request file, price table, shift table, fleet and physics oracle.

  What the theorems cannot see is state kept *outside* the payload (a file cursor shared between
  two payloads, a reporter that drops or duplicates events when flushed at other moments, the
  process-wide random generator): that part is decided by running the real `crank` / `run` on real
  scenarios split in different ways (correspondence layer of this check).
-/
import Hive.Cycle
import Proofs.Prim
import Mathlib.Tactic.Linarith
import Mathlib.Tactic.Ring

namespace Hive
namespace C15
open Cycle

variable {σ : Type}

/-! ### composition -/

/-- **a steps, then b steps = a+b steps**: same final payload (state, file cursors, generator
    state) and the same events in the same order -/
theorem crank_add (P : Params σ) (a b : Nat) (p : Payload σ) :
    crank P (a + b) p = ((crank P b (crank P a p).1).1, (crank P a p).2 ++ (crank P b (crank P a p).1).2) := by
  induction a generalizing p with
  | zero => simp [crank]
  | succ a ih =>
    have : a + 1 + b = (a + b) + 1 := by omega
    rw [this]
    simp only [crank]
    rw [ih]
    simp [List.append_assoc]

/-- the batch runner is `crank` with the number of steps of `range(start, end, dt)` -/
theorem run_is_crank (P : Params σ) (start stop : Time) (dt : Nat) (p : Payload σ) :
    run P start stop dt p = crank P (runnerSteps start stop dt) p := rfl

/-- any split of the runner's interval into successive co-simulation calls gives the runner's result -/
theorem run_split (P : Params σ) (start stop : Time) (dt : Nat) (p : Payload σ) (a b : Nat)
    (h : a + b = runnerSteps start stop dt) :
    run P start stop dt p =
      ((crank P b (crank P a p).1).1, (crank P a p).2 ++ (crank P b (crank P a p).1).2) := by
  rw [run_is_crank, ← h, crank_add]

/-! ### the clock -/

variable {env : Env}

/-- the clock and the step length are untouched by every state primitive -/
theorem clock_prim (env : Env) (t : Time) (d : Nat) : PrimInv env (fun s => s.time = t ∧ s.dt = d) where
  veh := by
    intro s s' v hi h
    obtain ⟨_, _, _, _, _, h1, h2⟩ := Sim.modifyVehicle_fields h
    exact ⟨h1.trans hi.1, h2.trans hi.2⟩
  req := by
    intro s s' r hi h
    obtain ⟨_, _, _, _, _, h1, h2⟩ := Sim.modifyRequest_fields h
    exact ⟨h1.trans hi.1, h2.trans hi.2⟩
  rem := by
    intro s s' i hi h
    obtain ⟨_, _, _, _, _, h1, h2⟩ := Sim.removeRequest_fields h
    exact ⟨h1.trans hi.1, h2.trans hi.2⟩
  stn := by
    intro s s' st hi h
    obtain ⟨_, _, _, _, _, h1, h2⟩ := Sim.modifyStation_fields h
    exact ⟨h1.trans hi.1, h2.trans hi.2⟩
  base := by
    intro s s' b hi h
    obtain ⟨_, _, _, _, _, h1, h2⟩ := Sim.modifyBase_fields h
    exact ⟨h1.trans hi.1, h2.trans hi.2⟩

section Lifting
variable {I : Sim → Prop}

theorem applyPlans_prim (hI : PrimInv env I)
    (happ : ∀ (s : Sim) (a : List (VehicleId × Instr)), I s → I { s with applied := a })
    (ps : List (Instr × VehicleId × Act × Act)) : ∀ w : World, I w.sim → I (applyPlans env w ps).sim := by
  induction ps with
  | nil => intro w h; exact h
  | cons p ps ih =>
    intro w h
    obtain ⟨i, v, prev, next⟩ := p
    simp only [applyPlans]
    split
    · next w' hw' => exact ih _ (happ _ _ (prim_transition hI h hw'))
    · exact ih w h

theorem vehicleUpdates_prim (hI : PrimInv env I) (w : World) (h : I w.sim) : I (vehicleUpdates env w).sim := by
  unfold vehicleUpdates
  generalize updateOrder w.sim.vehicles = vs
  induction vs generalizing w with
  | nil => exact h
  | cons v vs ih =>
    simp only [List.foldl_cons]
    apply ih
    unfold stepVehicle
    split
    · next w' hw' => exact prim_defaultUpdate hI h hw'
    · exact h

end Lifting

theorem addRequest_clock {s s' : Sim} {r : Request} (h : s.addRequest env r = .ok s') :
    s'.time = s.time ∧ s'.dt = s.dt := by
  unfold Sim.addRequest at h
  split at h
  · cases h
  · split at h
    · cases h; exact ⟨rfl, rfl⟩
    · simp only [Outcome.bind_eq, Outcome.bind_eq_ok] at h
      obtain ⟨s1, h1, h2⟩ := h
      obtain ⟨_, _, _, _, _, t1, d1⟩ := Sim.removeRequest_fields h1
      cases h2
      exact ⟨t1, d1⟩

/-- the pre-step phase (prices, admission, cancellation) does not touch the clock -/
theorem preStep_clock (cfg : Timed.Cfg) (names : Nat → List StationId) (inp : Timed.Inputs) (w : World) :
    (Timed.preStep env cfg names inp w).1.sim.time = w.sim.time ∧
    (Timed.preStep env cfg names inp w).1.sim.dt = w.sim.dt := by
  -- a clock predicate preserved along the three folds
  have hprice : ∀ (rows : List Timed.PriceRow) (ids : List StationId) (s : Sim),
      (ids.foldl (Timed.repriceStation env names rows) s).time = s.time ∧
      (ids.foldl (Timed.repriceStation env names rows) s).dt = s.dt := by
    intro rows ids
    induction ids with
    | nil => intro s; exact ⟨rfl, rfl⟩
    | cons i ids ih =>
      intro s
      simp only [List.foldl_cons]
      have h1 : (Timed.repriceStation env names rows s i).time = s.time ∧
          (Timed.repriceStation env names rows s i).dt = s.dt := by
        unfold Timed.repriceStation
        split
        · exact ⟨rfl, rfl⟩
        · split
          · split
            · next s' hs' =>
              obtain ⟨_, _, _, _, _, t1, d1⟩ := Sim.modifyStation_fields hs'
              exact ⟨t1, d1⟩
            · exact ⟨rfl, rfl⟩
          · exact ⟨rfl, rfl⟩
      obtain ⟨t2, d2⟩ := ih (Timed.repriceStation env names rows s i)
      exact ⟨t2.trans h1.1, d2.trans h1.2⟩
  have hadmit : ∀ (rows : List Timed.ReqRow) (w : World),
      (rows.foldl (Timed.admitRow env cfg) w).sim.time = w.sim.time ∧
      (rows.foldl (Timed.admitRow env cfg) w).sim.dt = w.sim.dt := by
    intro rows
    induction rows with
    | nil => intro w; exact ⟨rfl, rfl⟩
    | cons r rows ih =>
      intro w
      simp only [List.foldl_cons]
      have h1 : (Timed.admitRow env cfg w r).sim.time = w.sim.time ∧ (Timed.admitRow env cfg w r).sim.dt = w.sim.dt := by
        unfold Timed.admitRow
        split
        · split
          · next s' hs' => exact addRequest_clock hs'
          · exact ⟨rfl, rfl⟩
        · exact ⟨rfl, rfl⟩
      obtain ⟨t2, d2⟩ := ih (Timed.admitRow env cfg w r)
      exact ⟨t2.trans h1.1, d2.trans h1.2⟩
  have hcancel : ∀ (ids : List RequestId) (w : World),
      (ids.foldl (Timed.cancelOne env cfg) w).sim.time = w.sim.time ∧
      (ids.foldl (Timed.cancelOne env cfg) w).sim.dt = w.sim.dt := by
    intro ids
    induction ids with
    | nil => intro w; exact ⟨rfl, rfl⟩
    | cons i ids ih =>
      intro w
      simp only [List.foldl_cons]
      have h1 : (Timed.cancelOne env cfg w i).sim.time = w.sim.time ∧ (Timed.cancelOne env cfg w i).sim.dt = w.sim.dt := by
        unfold Timed.cancelOne
        split
        · exact ⟨rfl, rfl⟩
        · split
          · exact ⟨rfl, rfl⟩
          · split
            · next s' hs' =>
              obtain ⟨_, _, _, _, _, t1, d1⟩ := Sim.removeRequest_fields hs'
              exact ⟨t1, d1⟩
            · exact ⟨rfl, rfl⟩
      obtain ⟨t2, d2⟩ := ih (Timed.cancelOne env cfg w i)
      exact ⟨t2.trans h1.1, d2.trans h1.2⟩
  unfold Timed.preStep Timed.cancelRequests Timed.admitRequests Timed.priceUpdate
  simp only
  obtain ⟨c1, c2⟩ := hcancel (sortBy (fun a b => decide (a ≤ b))
    (List.map (fun x => x.id) (List.foldl (Timed.admitRow env cfg)
      { sim := List.foldl (Timed.repriceStation env names (Timed.Reader.read (fun x => x.time) w.sim.time inp.prices).1) w.sim
          (List.map (fun x => x.id) w.sim.stations), log := w.log }
      (Timed.Reader.read (fun r => r.req.departure)
        (List.foldl (Timed.repriceStation env names (Timed.Reader.read (fun x => x.time) w.sim.time inp.prices).1) w.sim
          (List.map (fun x => x.id) w.sim.stations)).time inp.requests).1).sim.requests)) _
  obtain ⟨a1, a2⟩ := hadmit (Timed.Reader.read (fun r => r.req.departure)
        (List.foldl (Timed.repriceStation env names (Timed.Reader.read (fun x => x.time) w.sim.time inp.prices).1) w.sim
          (List.map (fun x => x.id) w.sim.stations)).time inp.requests).1
      { sim := List.foldl (Timed.repriceStation env names (Timed.Reader.read (fun x => x.time) w.sim.time inp.prices).1) w.sim
          (List.map (fun x => x.id) w.sim.stations), log := w.log }
  obtain ⟨p1, p2⟩ := hprice (Timed.Reader.read (fun x => x.time) w.sim.time inp.prices).1 (List.map (fun x => x.id) w.sim.stations) w.sim
  exact ⟨c1.trans (a1.trans p1), c2.trans (a2.trans p2)⟩

/-- the driver phase does not touch the clock -/
theorem driverUpdates_clock (tbl : List Shift.Entry) (w : World) :
    (Shift.driverUpdates env tbl w).sim.time = w.sim.time ∧ (Shift.driverUpdates env tbl w).sim.dt = w.sim.dt := by
  unfold Shift.driverUpdates
  have hfold : ∀ (vs : List Vehicle) (s0 : Sim) (w : World), w.sim.time = s0.time → w.sim.dt = s0.dt →
      (vs.foldl (Shift.driverUpdate env tbl s0) w).sim.time = s0.time ∧
      (vs.foldl (Shift.driverUpdate env tbl s0) w).sim.dt = s0.dt := by
    intro vs s0
    induction vs with
    | nil => intro w h1 h2; exact ⟨h1, h2⟩
    | cons v vs ih =>
      intro w h1 h2
      simp only [List.foldl_cons]
      have hone : (Shift.driverUpdate env tbl s0 w v).sim.time = s0.time ∧ (Shift.driverUpdate env tbl s0 w v).sim.dt = s0.dt := by
        unfold Shift.driverUpdate
        split
        · exact ⟨h1, h2⟩
        · split
          · exact ⟨h1, h2⟩
          · split
            · exact ⟨rfl, rfl⟩
            · split
              · next s' hs' =>
                obtain ⟨_, _, _, _, _, t1, d1⟩ := Sim.modifyVehicle_fields hs'
                exact ⟨t1.trans h1, d1.trans h2⟩
              · exact ⟨rfl, rfl⟩
      exact ih _ hone.1 hone.2
  exact hfold _ w.sim w rfl rfl

/-- **every step advances the clock by exactly the step length**, whatever happens in the step -/
theorem step_clock (P : Params σ) (p : Payload σ) :
    (step P p).1.sim.time = p.sim.time + p.sim.dt ∧ (step P p).1.sim.dt = p.sim.dt := by
  unfold step
  simp only
  obtain ⟨t1, d1⟩ := preStep_clock (env := P.env) P.cfg P.names p.inputs
    { sim := { p.sim with applied := [] }, log := [] }
  obtain ⟨t2, d2⟩ := driverUpdates_clock (env := P.env) P.shifts
    (Timed.preStep P.env P.cfg P.names p.inputs { sim := { p.sim with applied := [] }, log := [] }).1
  have happ : ∀ (s : Sim) (a : List (VehicleId × Instr)),
      (s.time = p.sim.time ∧ s.dt = p.sim.dt) → ({ s with applied := a } : Sim).time = p.sim.time ∧
        ({ s with applied := a } : Sim).dt = p.sim.dt := fun _ _ h => h
  have h3 := applyPlans_prim (clock_prim P.env p.sim.time p.sim.dt) happ
    (planAll P.env (Shift.driverUpdates P.env P.shifts
        (Timed.preStep P.env P.cfg P.names p.inputs { sim := { p.sim with applied := [] }, log := [] }).1).sim
      (P.generate p.gen (Shift.driverUpdates P.env P.shifts
        (Timed.preStep P.env P.cfg P.names p.inputs { sim := { p.sim with applied := [] }, log := [] }).1).sim).2)
    (Shift.driverUpdates P.env P.shifts
        (Timed.preStep P.env P.cfg P.names p.inputs { sim := { p.sim with applied := [] }, log := [] }).1)
    ⟨t2.trans t1, d2.trans d1⟩
  have h4 := vehicleUpdates_prim (clock_prim P.env p.sim.time p.sim.dt) _ h3
  unfold applyInstructions
  unfold Sim.tick
  simp only
  rw [h4.1, h4.2]
  exact ⟨rfl, rfl⟩

/-- after `n` steps the clock shows `start + n·dt` -/
theorem crank_clock (P : Params σ) (n : Nat) (p : Payload σ) :
    (crank P n p).1.sim.time = p.sim.time + (n : Int) * (p.sim.dt : Int) ∧ (crank P n p).1.sim.dt = p.sim.dt := by
  induction n generalizing p with
  | zero => simp [crank]
  | succ n ih =>
    simp only [crank]
    obtain ⟨t1, d1⟩ := step_clock P p
    obtain ⟨t2, d2⟩ := ih (step P p).1
    rw [t2, d2, t1, d1]
    refine ⟨?_, rfl⟩
    have key : ∀ (t y m : Int), t + y + m * y = t + (m + 1) * y := by intros; ring
    have := key p.sim.time (p.sim.dt : Int) (n : Int)
    rw [this]
    push_cast
    rfl

/-! ### the runner -/

/-- **the runner takes exactly the steps that begin before the end time**: with `n` the number of
    steps of `range(start, end, dt)`, every step `k < n` begins before `end`, and step `n` would
    begin at or after it -/
theorem runnerSteps_spec (start stop : Int) (dt : Nat) (hdt : 0 < dt) :
    (∀ k : Nat, k < runnerSteps start stop dt → start + (k : Int) * (dt : Int) < stop) ∧
    stop ≤ start + (runnerSteps start stop dt : Int) * (dt : Int) := by
  unfold runnerSteps
  by_cases h : stop ≤ start
  · simp only [h, if_true]
    refine ⟨fun k hk => absurd hk (Nat.not_lt_zero k), ?_⟩
    simpa using h
  · simp only [h, if_false]
    have hD : (0 : Int) < stop - start := by
      have : start < stop := Int.lt_of_not_ge h
      exact Int.sub_pos.mpr this
    have hd : (0 : Int) < (dt : Int) := by exact_mod_cast hdt
    set D : Int := stop - start with hDdef
    set q : Int := (D + dt - 1) / dt with hq
    have h1 : q * dt ≤ D + dt - 1 := Int.ediv_mul_le _ (ne_of_gt hd)
    have h2 : D + dt - 1 < (q + 1) * dt := by
      have := Int.lt_ediv_add_one_mul_self (D + dt - 1) hd
      simpa [hq] using this
    have hq0 : 0 ≤ q := Int.ediv_nonneg (by linarith) (le_of_lt hd)
    have hqn : ((q.toNat : Nat) : Int) = q := Int.toNat_of_nonneg hq0
    constructor
    · intro k hk
      have hk' : (k : Int) < q := by
        have : (k : Int) < (q.toNat : Int) := by exact_mod_cast hk
        rwa [hqn] at this
      have hk1 : (k : Int) + 1 ≤ q := hk'
      have : ((k : Int) + 1) * dt ≤ q * dt := Int.mul_le_mul_of_nonneg_right hk1 (le_of_lt hd)
      have hfin : (k : Int) * dt < D := by nlinarith
      have : (start : Int) + (k : Int) * dt < start + D := by linarith
      have hsd : (start : Int) + D = stop := by rw [hDdef]; ring
      linarith
    · rw [hqn]
      have : D ≤ q * dt := by nlinarith
      have hsd : (start : Int) + D = stop := by rw [hDdef]; ring
      linarith

/-- `LocalSimulationRunner.step` accepts exactly while the clock is before the end time: along a
    run from `start` it accepts the first `runnerSteps` calls and refuses the next one, so
    repeated `step` and `run` do the same thing and neither steps beyond the end -/
theorem runner_refuses_beyond (P : Params σ) (stop : Time) (p : Payload σ) (hdt : 0 < p.sim.dt) :
    (∀ k : Nat, k < runnerSteps p.sim.time stop p.sim.dt →
      runnerStep P stop (crank P k p).1 = some (step P (crank P k p).1)) ∧
    runnerStep P stop (crank P (runnerSteps p.sim.time stop p.sim.dt) p).1 = none := by
  obtain ⟨h1, h2⟩ := runnerSteps_spec p.sim.time stop p.sim.dt hdt
  constructor
  · intro k hk
    unfold runnerStep
    rw [(crank_clock P k p).1]
    have := h1 k hk
    have hn : ¬ (p.sim.time + (k : Int) * (p.sim.dt : Int) ≥ stop) := Int.not_le.mpr this
    simp [hn]
  · unfold runnerStep
    rw [(crank_clock P _ p).1]
    simp [h2]

/-! ### not vacuous -/

example : runnerSteps 0 100 30 = 4 ∧ runnerSteps 0 90 30 = 3 ∧ runnerSteps 50 50 30 = 0 ∧ runnerSteps 7 8 60 = 1 := by
  decide

end C15
end Hive
