/-
  Property C05 — energy and money are conserved between vehicles and stations.

  Theorems about the model of `vehicle_state_ops.charge` and `servicing_ops.pick_up_trip`
  (every environment, state, vehicle, station, plug):
  * `charge_transfers` — one charging step derives ONE amount and ONE payment
      amount  = level after − level before,     payment = amount × tariff(station, plug) at the pre-state
    and applies them to both sides together: the vehicle pays `payment`, the station receives
    `payment`; the station books `amount` as dispensed under the plug's energy type; nothing else
    about money or dispensed energy changes in that update;
  * `gained_equals_dispensed` — with the model's `add_energy` (BEV and ICE) the vehicle books
    exactly `amount` as gained, i.e. what the station books as dispensed;
  * `pickup_credits_fare` (= `C03.pickup_exact`) — a pickup credits `request.value` once.
  Over whole histories the sums (Σ gained = Σ dispensed per energy type, Σ payments = Σ station
  receipts, balance = fares − payments) are enforced on implementation traces by the Lean step
  monitor `viol05Step` after every phase; the history-level sum theorem is not yet proved
  (partial, see DESIGN.md 3/C05).
-/
import Proofs.C04
import Properties.C03

namespace Hive
namespace C05

/-- one charging step: the same amount and the same payment on both sides -/
theorem charge_transfers (env : Env) {w w2 : World} {v : VehicleId} {sid : StationId} {cid : ChargerId}
    {veh : Vehicle} {st : Station} {cs : ChargerState}
    (hveh : w.sim.vehicle? v = some veh) (hst : w.sim.station? sid = some st) (hcs : st.plug? cid = some cs)
    (h : charge env w v sid cid = .ok w2) :
    let amount := (env.addEnergy veh cs w.sim.dt).level - veh.en.level
    let payment := amount * cs.price
    (∃ veh', w2.sim.vehicle? v = some veh' ∧ veh'.balance = veh.balance - payment ∧
        veh'.en = env.addEnergy veh cs w.sim.dt) ∧
    (∃ st', w2.sim.station? sid = some st' ∧ st'.balance = st.balance + payment ∧
        st'.dispE = (if cs.electric then st.dispE + amount else st.dispE) ∧
        st'.dispG = (if cs.electric then st.dispG else st.dispG + amount) ∧ st'.plugs = st.plugs) ∧
    w2.log = w.log ++ [Event.charge v sid cid amount payment] := by
  have hid := (vehicle?_some hveh).2
  unfold charge at h
  rw [hst] at h
  simp only at h
  rw [hveh] at h
  simp only at h
  split at h
  · cases h
  · rw [hcs] at h
    simp only at h
    split at h
    · cases h
    · simp only [Outcome.bind_eq, Outcome.bind_eq_ok, Outcome.pure_eq] at h
      obtain ⟨s1, h1, s2, h2, h3⟩ := h
      cases h3
      refine ⟨?_, ?_, rfl⟩
      · have := modifyVehicle_self h1
        obtain ⟨_, _, _, hv2, _⟩ := Sim.modifyStation_fields h2
        simp only at this
        rw [hid] at this
        exact ⟨_, (vehicle?_congr hv2 v).trans this, rfl, rfl⟩
      · obtain ⟨⟨old, hold, _⟩, hs2, _⟩ := Sim.modifyStation_fields h2
        refine ⟨{ st with
            balance := st.balance + ((env.addEnergy veh cs w.sim.dt).level - veh.en.level) * cs.price
            dispE := if cs.electric then st.dispE + ((env.addEnergy veh cs w.sim.dt).level - veh.en.level) else st.dispE
            dispG := if cs.electric then st.dispG else st.dispG + ((env.addEnergy veh cs w.sim.dt).level - veh.en.level) },
          ?_, rfl, rfl, rfl, rfl⟩
        unfold Sim.station?
        simp only
        rw [hs2]
        have hsid : st.id = sid := (station?_some hst).2
        have := lookup_replaceById_self hold
        simpa [hsid] using this

/-- the model's `add_energy` books as gained exactly what it adds to the level (electric and
    combustion), so the vehicle's gain equals the station's dispensed amount in `charge_transfers` -/
theorem gained_equals_dispensed (m : Mech) (e : Energy) (el : Bool) (rate : Rat) (dt : Nat) :
    (m.addEnergy e el rate dt).gained - e.gained = (m.addEnergy e el rate dt).level - e.level := by
  rw [Mech.addEnergy_gained]; ring

/-- a plug the vehicle cannot use transfers nothing -/
theorem invalid_plug_transfers_nothing (m : Mech) (e : Energy) (el : Bool) (rate : Rat) (dt : Nat)
    (h : m.validCharger el = false) : m.addEnergy e el rate dt = e := by
  unfold Mech.addEnergy; simp [h]

theorem pickup_credits_fare (env : Env) {w w1 : World} {v : VehicleId} {rid : RequestId}
    (h : pickUpTrip env w v rid = .ok w1) :
    ∃ veh req, w.sim.vehicle? v = some veh ∧ w.sim.request? rid = some req ∧
      w1.sim.vehicle? v = some { veh with balance := veh.balance + req.value } := by
  obtain ⟨veh, req, h1, h2, _, h4, _⟩ := C03.pickup_exact env h
  exact ⟨veh, req, h1, h2, h4⟩

end C05
end Hive
