/-
  Property C05 — energy and money are conserved between vehicles and stations.

  Theorems about the model of `vehicle_state_ops.charge` and `servicing_ops.pick_up_trip`
  (every environment, state, vehicle, station, plug):
  * `charge_transfers` — one charging step derives ONE amount and ONE payment
      amount  = level after − level before,     payment = amount × tariff(station, plug) at the pre-state
    and applies them to both sides together: the vehicle pays `payment`, the station receives
    `payment`; the station books `amount` as dispensed under the plug's energy type; nothing else
    about money or dispensed energy changes in that update;
  * `gained_equals_dispensed` — with the model's `add_energy` (BEV and ICE) the vehicle books
    exactly `amount` as gained, i.e. what the station books as dispensed;
  * `pickup_credits_fare` (= `C03.pickup_exact`) — a pickup credits `request.value` once.
  Over whole histories (state + event log, every history of the complete step cycle from a state
  with an empty log; `Proofs.Books` - one walk through every function of the control model):
  * `run_vehicle` — each vehicle's balance equals its initial balance plus the fares of its pickup
    events minus its charging payments, and its energy gained equals the initial value plus the
    energies of its charge events;
  * `run_station` — each station's balance equals its initial balance plus the payments of the
    charge events there, and its energy dispensed the initial value plus their energies;
  * `fleet_totals` — summed over any set of vehicles and any set of stations that cover the log,
    energy gained = energy dispensed and payments made = payments received (every charge event
    counts once on either side);
  * `charge_transfers` says the payment of each event is amount × tariff of that plug at that time.
  Per energy type, over whole histories (`elec` = energy type of every installed plug, `kindOf` =
  powertrain of every vehicle, both read off the initial state - `types_init` - and proved never
  to change; hypothesis `TypeEnv`: a plug of the other type adds nothing, `concrete_types`):
  * `run_station_typed` — dispensed electricity = initial + Σ charge events at the station's electric
    plugs, dispensed fuel likewise;
  * `run_vehicle_typed` — a vehicle's energy gained = initial + Σ its charge events at plugs of its
    own type; its charge events at plugs of the other type carry no energy;
  * `fleet_by_type` — summed over covering sets: gained by the electric vehicles = electricity
    dispensed, gained by the others = fuel dispensed.
  The implementation's traces are checked by the Lean step monitor `viol05Step` after every phase.
-/
import Proofs.C04
import Properties.C03
import Proofs.Books

namespace Hive
namespace C05

/-- one charging step: the same amount and the same payment on both sides -/
theorem charge_transfers (env : Env) {w w2 : World} {v : VehicleId} {sid : StationId} {cid : ChargerId}
    {veh : Vehicle} {st : Station} {cs : ChargerState}
    (hveh : w.sim.vehicle? v = some veh) (hst : w.sim.station? sid = some st) (hcs : st.plug? cid = some cs)
    (h : charge env w v sid cid = .ok w2) :
    let amount := (env.addEnergy veh cs w.sim.dt).level - veh.en.level
    let payment := amount * cs.price
    (∃ veh', w2.sim.vehicle? v = some veh' ∧ veh'.balance = veh.balance - payment ∧
        veh'.en = env.addEnergy veh cs w.sim.dt) ∧
    (∃ st', w2.sim.station? sid = some st' ∧ st'.balance = st.balance + payment ∧
        st'.dispE = (if cs.electric then st.dispE + amount else st.dispE) ∧
        st'.dispG = (if cs.electric then st.dispG else st.dispG + amount) ∧ st'.plugs = st.plugs) ∧
    w2.log = w.log ++ [Event.charge v sid cid amount payment] := by
  have hid := (vehicle?_some hveh).2
  unfold charge at h
  rw [hst] at h
  simp only at h
  rw [hveh] at h
  simp only at h
  split at h
  · cases h
  · rw [hcs] at h
    simp only at h
    split at h
    · cases h
    · simp only [Outcome.bind_eq, Outcome.bind_eq_ok, Outcome.pure_eq] at h
      obtain ⟨s1, h1, s2, h2, h3⟩ := h
      cases h3
      refine ⟨?_, ?_, rfl⟩
      · have := modifyVehicle_self h1
        obtain ⟨_, _, _, hv2, _⟩ := Sim.modifyStation_fields h2
        simp only at this
        rw [hid] at this
        exact ⟨_, (vehicle?_congr hv2 v).trans this, rfl, rfl⟩
      · obtain ⟨⟨old, hold, _⟩, hs2, _⟩ := Sim.modifyStation_fields h2
        refine ⟨{ st with
            balance := st.balance + ((env.addEnergy veh cs w.sim.dt).level - veh.en.level) * cs.price
            dispE := if cs.electric then st.dispE + ((env.addEnergy veh cs w.sim.dt).level - veh.en.level) else st.dispE
            dispG := if cs.electric then st.dispG else st.dispG + ((env.addEnergy veh cs w.sim.dt).level - veh.en.level) },
          ?_, rfl, rfl, rfl, rfl⟩
        unfold Sim.station?
        simp only
        rw [hs2]
        have hsid : st.id = sid := (station?_some hst).2
        have := lookup_replaceById_self hold
        simpa [hsid] using this

/-- the model's `add_energy` books as gained exactly what it adds to the level (electric and
    combustion), so the vehicle's gain equals the station's dispensed amount in `charge_transfers` -/
theorem gained_equals_dispensed (m : Mech) (e : Energy) (el : Bool) (rate : Rat) (dt : Nat) :
    (m.addEnergy e el rate dt).gained - e.gained = (m.addEnergy e el rate dt).level - e.level := by
  rw [Mech.addEnergy_gained]; ring

/-- a plug the vehicle cannot use transfers nothing -/
theorem invalid_plug_transfers_nothing (m : Mech) (e : Energy) (el : Bool) (rate : Rat) (dt : Nat)
    (h : m.validCharger el = false) : m.addEnergy e el rate dt = e := by
  unfold Mech.addEnergy; simp [h]

theorem pickup_credits_fare (env : Env) {w w1 : World} {v : VehicleId} {rid : RequestId}
    (h : pickUpTrip env w v rid = .ok w1) :
    ∃ veh req, w.sim.vehicle? v = some veh ∧ w.sim.request? rid = some req ∧
      w1.sim.vehicle? v = some { veh with balance := veh.balance + req.value } := by
  obtain ⟨veh, req, h1, h2, _, h4, _⟩ := C03.pickup_exact env h
  exact ⟨veh, req, h1, h2, h4⟩

/-! ### over whole runs -/

section Run
variable {env : Env} (hg : Books.GainEnv env) {w0 w : World} (h : WReachable env w0 w) (h0 : w0.log = [])
include hg h h0

/-- **each vehicle's balance = fares − charging payments; energy gained = Σ charge events** -/
theorem run_vehicle {v : VehicleId} {veh0 veh : Vehicle} (hv0 : w0.sim.vehicle? v = some veh0)
    (hv : w.sim.vehicle? v = some veh) :
    veh.balance = veh0.balance + Books.fares w.log v - Books.paid w.log v ∧
    veh.en.gained = veh0.en.gained + Books.charged w.log v :=
  (Books.run_vehicle hg h h0 hv0 hv).2

/-- **each station's balance = payments received; energy dispensed = Σ charge events there** -/
theorem run_station {i : StationId} {st0 st : Station} (hs0 : w0.sim.station? i = some st0)
    (hs : w.sim.station? i = some st) :
    st.balance = st0.balance + Books.received w.log i ∧
    st.dispE + st.dispG = st0.dispE + st0.dispG + Books.dispensed w.log i :=
  Books.run_station hg h h0 hs0 hs

end Run

/-- **summed over the fleet**: energy gained by the vehicles = energy dispensed by the stations,
    payments made = payments received -/
theorem fleet_totals (log : List Event) (vids sids : List Nat) (hv : vids.Nodup) (hs : sids.Nodup)
    (hcov : ∀ e ∈ log, match e with | .charge v s _ _ _ => v ∈ vids ∧ s ∈ sids | _ => True) :
    (vids.map (Books.charged log)).sum = (sids.map (Books.dispensed log)).sum ∧
    (vids.map (Books.paid log)).sum = (sids.map (Books.received log)).sum := by
  obtain ⟨a, b, c, d⟩ := Books.fleet_totals log vids sids hv hs hcov
  exact ⟨a.trans b.symm, c.trans d.symm⟩

/-- the driver's environment meets the hypothesis on the physics -/
theorem concrete_gain (o : Oracle) (mechs : List Mech) : Books.GainEnv (o.env mechs) := Books.concrete_gainEnv o mechs

/-- not vacuous: two vehicles at one station -/
example : (([1, 2] : List Nat).map (Books.charged [.charge 1 0 0 3 6, .move 2 5 1, .charge 2 0 0 4 8])).sum
    = (([0] : List Nat).map (Books.dispensed [.charge 1 0 0 3 6, .move 2 5 1, .charge 2 0 0 4 8])).sum := by
  decide +kernel


/-! ### per energy type -/

section Typed
variable {env : Env} {elec : StationId → ChargerId → Bool} {isE : MechId → Bool} {kindOf : VehicleId → MechId}

/-- **per station and per energy type**: after any history of the complete cycle from an empty
    log, whatever the instructions, the electricity a station reports as dispensed is what it had
    reported plus the amounts of the charge events at its electric plugs, likewise for fuel, and
    no plug has changed its energy type -/
theorem run_station_typed (hf : ∀ c, env.inFence c = true) {w0 w : World} (hwf : w0.sim.WF)
    (ht : Books.Typed elec w0.sim) (h0 : w0.log = []) (h : WReachable env w0 w)
    {i : StationId} {st : Station} (hst : w.sim.station? i = some st) :
    ∃ st0, w0.sim.station? i = some st0 ∧ st.dispE = st0.dispE + Books.dispensedE elec w.log i ∧
      st.dispG = st0.dispG + Books.dispensedG elec w.log i ∧ ∀ cs ∈ st.plugs, cs.electric = elec i cs.id :=
  Books.run_station_typed hf hwf ht h0 h hst

/-- **per vehicle and per energy type**: a vehicle keeps its powertrain; its energy gained is what
    it had plus the amounts of its charge events at plugs of its own energy type; its charge
    events at plugs of the other type carry no energy -/
theorem run_vehicle_typed (hg : Books.GainEnv env) (hte : Books.TypeEnv env isE) (hf : ∀ c, env.inFence c = true)
    {w0 w : World} (hwf : w0.sim.WF) (ht : Books.Typed elec w0.sim) (hm : Books.Meched kindOf w0.sim)
    (h0 : w0.log = []) (h : WReachable env w0 w)
    {v : VehicleId} {veh0 veh : Vehicle} (hv0 : w0.sim.vehicle? v = some veh0) (hv : w.sim.vehicle? v = some veh) :
    veh.mech = veh0.mech ∧
    veh.en.gained = veh0.en.gained + Books.charged (Books.ofType elec (isE veh.mech) w.log) v ∧
    Books.charged (Books.ofType elec (!isE veh.mech) w.log) v = 0 :=
  Books.run_vehicle_typed hg hte hf hwf ht hm h0 h hv0 hv

/-- **summed over the fleet and per energy type**: in the log of any run, the energy gained from
    charging by the electric vehicles is the electricity dispensed by the stations, and the energy
    gained by the others is the fuel dispensed -/
theorem fleet_by_type (hte : Books.TypeEnv env isE) (hf : ∀ c, env.inFence c = true) {w0 w : World} (hwf : w0.sim.WF)
    (ht : Books.Typed elec w0.sim) (hm : Books.Meched kindOf w0.sim) (h0 : w0.log = []) (h : WReachable env w0 w)
    (vids sids : List Nat) (hv : vids.Nodup) (hs : sids.Nodup)
    (hcov : ∀ e ∈ w.log, match e with | .charge v s _ _ _ => v ∈ vids ∧ s ∈ sids | _ => True) :
    ((vids.filter fun u => isE (kindOf u)).map (Books.charged w.log)).sum = (sids.map (Books.dispensedE elec w.log)).sum ∧
    ((vids.filter fun u => !isE (kindOf u)).map (Books.charged w.log)).sum = (sids.map (Books.dispensedG elec w.log)).sum :=
  Books.fleet_totals_typed w.log (Books.run_clean hte hf hwf ht hm h0 h) vids sids hv hs hcov

/-- the hypotheses on the initial state hold for the types read off it -/
theorem types_init {s : Sim} (hwf : s.WF) : Books.Typed (Books.elecOf s) s ∧ Books.Meched (Books.kindIn s) s :=
  ⟨Books.typed_init hwf, Books.meched_init hwf⟩

/-- the driver's environment meets the hypothesis on the physics: a plug of the other type adds nothing -/
theorem concrete_types (o : Oracle) (mechs : List Mech) :
    Books.TypeEnv (o.env mechs) (fun id => match mechOf mechs id with | some m => decide (m.kind = .bev) | none => true) :=
  Books.concrete_typeEnv o mechs

end Typed

/-- not vacuous: an electric vehicle (1) and a fuel vehicle (2), one station with an electric plug
    (0) and a pump (1); the fuel vehicle's attempt at the electric plug carries nothing -/
example :
    let log : List Event := [.charge 1 0 0 3 6, .charge 2 0 1 4 8, .charge 2 0 0 0 0]
    let elec : StationId → ChargerId → Bool := fun _ c => c == 0
    let isE : MechId → Bool := fun m => m == 0
    let kindOf : VehicleId → MechId := fun v => if v = 1 then 0 else 1
    Books.Clean elec isE kindOf log ∧
    (([1, 2].filter fun u => isE (kindOf u)).map (Books.charged log)).sum = ([0].map (Books.dispensedE elec log)).sum ∧
    (([1, 2].filter fun u => !isE (kindOf u)).map (Books.charged log)).sum = ([0].map (Books.dispensedG elec log)).sum := by
  refine ⟨?_, by decide +kernel, by decide +kernel⟩
  intro e he
  simp only [List.mem_cons, List.not_mem_nil, or_false] at he
  rcases he with rfl | rfl | rfl <;> simp [Books.bad]

end C05
end Hive
