/-
  Property C04 — vehicle energy stays physical and fully accounted for.

  Arithmetic model: Hive/Energy.lean (BEV and ICE written separately as the code is: tabular
  powertrain with numpy-style interpolation, idle rates, taper cut-off, power-curve loop).
  Exact rationals; floating-point rounding is outside the theorems.

  For every valid mechatronics definition (`Mech.Valid`: positive capacity, rates, conversions and
  consumption table; non-negative charging curve), every charger rate ≥ 0, every level, route,
  duration (no bound on table sizes, step lengths or number of loop iterations):
  * `bounds_*`   — the level stays in [0, capacity];
  * `ledger_*`   — level − gained + expended is unchanged by every operation, so along every
                   history `level = initial + gained − expended` (`reachable`);
  * `drive_expends`, `idle_expends` — a positive distance / a positive time expends a strictly
                   positive amount while the store is not empty (both powertrain types);
  * `charge_monotone_bounded` — charging never lowers the level and adds at most what the plug
                   delivers in the step (`rate·dt/3600` kWh, `rate·dt` gallons), whatever the
                   charge curve's internal integration step;
  * `no_move_on_empty` — a vehicle that lacks the energy for its next movement keeps its
                   position and goes out of service (from the model of `move`).
  `reachable` lifts bounds and ledger to every state reachable by any history, for every
  environment satisfying `EnergyEnv`; `concrete` proves `EnergyEnv` for the driver's environment
  built from valid mechatronics (distances of driven links non-negative: oracle property).
-/
import Proofs.C04
import Proofs.Prim

namespace Hive
namespace C04

theorem bounds_spend (e : Energy) {used : Rat} (hu : 0 ≤ used) (h0 : 0 ≤ e.level) :
    0 ≤ (Mech.spend e used).level ∧ (Mech.spend e used).level ≤ e.level :=
  ⟨Mech.spend_level_nonneg e used, Mech.spend_level_le e hu h0⟩

theorem bounds_charge {m : Mech} (hm : m.Valid) (e : Energy) (el : Bool) {rate : Rat} (hr : 0 ≤ rate) (dt : Nat)
    (h0 : 0 ≤ e.level) (hc : e.level ≤ m.capacity) :
    0 ≤ (m.addEnergy e el rate dt).level ∧ (m.addEnergy e el rate dt).level ≤ m.capacity :=
  ⟨le_trans h0 (Mech.addEnergy_spec hm e el hr dt hc).1, Mech.addEnergy_le_cap m e el rate dt hc⟩

theorem ledger_spend (e : Energy) (used : Rat) : lc (Mech.spend e used) = lc e := by
  unfold lc; exact Mech.spend_ledger e used

theorem ledger_charge (m : Mech) (e : Energy) (el : Bool) (rate : Rat) (dt : Nat) :
    lc (m.addEnergy e el rate dt) = lc e := by
  unfold lc; exact Mech.addEnergy_ledger m e el rate dt

/-- driving a route with a link of positive length expends a strictly positive amount
    (electric and combustion alike) unless the store is already empty -/
theorem drive_expends {m : Mech} (hm : m.Valid) (e : Energy) {r : Route} (hr : ∀ l ∈ r, 0 ≤ l.dist)
    (hpos : ∃ l ∈ r, 0 < l.dist) (h0 : 0 < e.level) :
    e.expended < (m.consume e r).expended ∧ (m.consume e r).level < e.level := by
  have hc := Mech.energyCost_pos hm hr hpos
  refine ⟨Mech.spend_pos e hc h0, ?_⟩
  unfold Mech.consume Mech.spend
  simp only
  exact max_lt h0 (by linarith)

theorem idle_expends {m : Mech} (hm : m.Valid) (e : Energy) {dt : Nat} (hdt : 0 < dt) (h0 : 0 < e.level) :
    e.expended < (m.idle e dt).expended ∧ (m.idle e dt).level < e.level := by
  have hc := Mech.idle_demand_pos hm hdt
  refine ⟨Mech.spend_pos e hc h0, ?_⟩
  unfold Mech.idle Mech.spend
  simp only
  exact max_lt h0 (by linarith)

theorem charge_monotone_bounded {m : Mech} (hm : m.Valid) (e : Energy) (el : Bool) {rate : Rat} (hr : 0 ≤ rate)
    (dt : Nat) (hc : e.level ≤ m.capacity) :
    e.level ≤ (m.addEnergy e el rate dt).level ∧
    (m.addEnergy e el rate dt).level - e.level ≤
      (match m.kind with | .bev => rate * dt * (1 / 3600) | .ice => rate * dt) :=
  Mech.addEnergy_spec hm e el hr dt hc

/-- a vehicle that would be empty after the movement does not move: position unchanged, activity
    `OutOfService`, energy bookkeeping unchanged -/
theorem no_move_on_empty (env : Env) {w w2 : World} {v : VehicleId} {veh : Vehicle} {route : Route} {tr : Traversal}
    (hveh : w.sim.vehicle? v = some veh) (hknown : env.mechKnown veh.mech = true)
    (hroute : veh.act.route? = some route)
    (htr : env.traverse route w.sim.dt = .ok tr) (hne : tr.experienced ≠ [])
    (hempty : env.isEmpty { veh with en := env.consume veh tr.experienced } = true)
    (h : move env w v = .ok w2) :
    w2.sim.vehicle? v = some { veh with act := .outOfService } := by
  unfold move at h
  rw [hveh] at h
  simp only [hknown, Bool.not_true, Bool.false_eq_true, if_false, hroute, htr, Outcome.bind_eq, Outcome.bind_ok] at h
  have hne' : tr.experienced.isEmpty = false := by
    cases hx : tr.experienced with
    | nil => exact absurd hx hne
    | cons _ _ => rfl
  simp only [hne', Bool.false_eq_true, if_false, hempty, if_true, Outcome.bind_eq_ok, Outcome.pure_eq] at h
  obtain ⟨s2, h1, h2⟩ := h
  cases h2
  obtain ⟨veh1, hv1, hv2⟩ := applyAct_self h1
  have : veh1 = veh := by
    split at hv1
    · next s' hexit =>
      rw [vehicle?_congr (exit_frame hexit).1, hveh] at hv1
      exact (Option.some.inj hv1).symm
    · rw [hveh] at hv1
      exact (Option.some.inj hv1).symm
  subst this
  exact hv2

/-- **C04 along every history**: bounds and `level = initial + gained − expended` -/
theorem reachable {env : Env} {cap : MechId → Rat} (he : EnergyEnv env cap) {s0 s : Sim} (hwf : s0.WF)
    (hrates : PlugsAllowed ratesOK s0) (h0 : ∀ veh ∈ s0.vehicles, EnOK cap veh)
    (h : Reachable env s0 s) :
    ∀ veh ∈ s.vehicles, 0 ≤ veh.en.level ∧ veh.en.level ≤ cap veh.mech ∧
      ∃ veh0 ∈ s0.vehicles, veh0.id = veh.id ∧ lc veh.en = lc veh0.en := by
  -- the ledger constant of each vehicle is read off the initial state
  let k : VehicleId → Rat := fun i => match s0.vehicle? i with
    | some v0 => lc v0.en
    | none => 0
  have hk0 : ∀ veh ∈ s0.vehicles, lc veh.en = k veh.id := by
    intro veh hm
    simp only [k]
    have : s0.vehicle? veh.id = some veh := lookup_of_mem hwf.veh hm
    rw [this]
  have hinv := reachable_inv (energy_runInv he k) hwf ⟨hrates, fun veh hm => ⟨h0 veh hm, hk0 veh hm⟩⟩ h
  intro veh hm
  obtain ⟨hok, hkv⟩ := hinv.2 veh hm
  refine ⟨hok.lo, hok.hi, ?_⟩
  -- vehicles are never created: the id exists initially
  have hids : ∀ {s : Sim}, Reachable env s0 s → s.vehicles.map Vehicle.id = s0.vehicles.map Vehicle.id := by
    intro s hr
    have hI : RunInv env (fun s => s.vehicles.map Vehicle.id = s0.vehicles.map Vehicle.id) := by
      have hp : PrimInv env (fun s => s.vehicles.map Vehicle.id = s0.vehicles.map Vehicle.id) := by
        refine ⟨?_, ?_, ?_, ?_, ?_⟩
        · intro s s' v hi h; rw [← hi]; exact (Sim.modifyVehicle_sameIds h).veh
        · intro s s' r hi h; rw [← hi]; exact (Sim.modifyRequest_sameIds h).veh
        · intro s s' r hi h; rw [← hi]; exact (Sim.removeRequest_sameIds h).veh
        · intro s s' st hi h
          obtain ⟨_, _, _, hv, _⟩ := Sim.modifyStation_fields h
          rw [hv]; exact hi
        · intro s s' b hi h; rw [← hi]; exact (Sim.modifyBase_sameIds h).veh
      refine ⟨prim_stepInv hp (fun _ _ h => h), fun _ h => h, ?_, ?_⟩
      · intro s s' r _ hi hf _ _ h
        rw [(addRequest_fields hf h).1]; exact hi
      · intro s s' i _ hi h; exact hp.rem hi h
    exact reachable_inv hI hwf rfl hr
  have hmem : veh.id ∈ s0.vehicles.map Vehicle.id := by
    rw [← hids h]; exact List.mem_map_of_mem hm
  obtain ⟨veh0, hm0, hid0⟩ := List.mem_map.mp hmem
  refine ⟨veh0, hm0, hid0, ?_⟩
  rw [hkv]
  simp only [k]
  have : s0.vehicle? veh0.id = some veh0 := lookup_of_mem hwf.veh hm0
  rw [← hid0, this]

theorem concrete (o : Oracle) (mechs : List Mech) (hv : ∀ m ∈ mechs, m.Valid) (hd : DistOK o) :
    EnergyEnv (o.env mechs) (capOf mechs) := concrete_energyEnv o mechs hv hd

/-! non-vacuity: a valid electric definition; charging 7 s at 50 kW through a 60 s curve step -/
private def leaf : Mech :=
  { id := 0, kind := .bev, capacity := 50, idleRate := 4/5, speedConv := 1, distConv := 1, energyConv := 1/1000,
    ptSpeed := [0, 100], ptEnergy := [200, 300], taperCutoff := 10, fullThreshold := 1/10, pcStep := 60,
    pcEnergy := [0, 40, 50], pcRate := [50, 50, 5] }
example : leaf.Valid :=
  ⟨by decide +kernel, by decide +kernel, by decide +kernel, by decide +kernel, by decide +kernel, by decide +kernel,
   by decide +kernel, by decide +kernel, by decide +kernel, by decide +kernel,
   fun _ => by decide +kernel, fun _ => by decide +kernel, by decide +kernel⟩
example : (leaf.addEnergy ⟨20, 0, 0⟩ true 50 7).level = 20 + 50 * 7 * (1 / 3600) := by decide +kernel

end C04
end Hive
