/-
  Property C18 — charging queues are served first-come first-served.

  Model: `perform_vehicle_state_updates` processes the non-queueing vehicles by id, then the
  queueing ones by (enqueue time, id); a queued vehicle leaves the queue for `ChargingStation`
  in its own update iff a plug of its type is free at that moment.

  Theorems (every environment, every snapshot, any number of vehicles and stations):
  * `processing_order` — vehicles queued for the same or different plugs are processed in order
    of arrival in the queue, ties broken by id;
  * `plugs_never_freed_in_queue_phase`, `charging_needs_free_plug` — facts about one queued update;
  * `fifo` — if after the update phase `q` has left queue (station, plug) to charge there, then
    for every `q'` that joined that queue strictly earlier: a plug was free when `q'`'s turn came,
    and `q'` is no longer waiting either (`leftQueue`: it is charging there, or - being full, with
    nothing to charge - it has left the queue for Idle) unless its own update failed (its
    transition was not enabled — with the repaired `ChargeQueueing` a queued vehicle is at the
    station (C07), has access (C10), can use the plug (F12) and is not sent to a plug it cannot
    draw from when full (F23), so this only happens on an environment error);
  * `fifo_enabled` — the same WITHOUT that proviso: if the counters match the vehicles (C02: `inv02`)
    and `q'` stands at the station (C07), has access (C10), can use the plug type and has registered
    mechatronics (what `ChargeQueueing.enter` requires; all static while it waits), then `q'`'s own
    update goes through (`queue_turn_succeeds`: every step of `default_update` of a queued vehicle
    succeeds) and `q'` has left the queue whenever a later arrival leaves it to charge. Hypotheses on
    the environment: no geofence refusal, and the physics predicates read mechatronics, energy and
    the plug's energy type only (`EnvCongr`, proved for the driver's environment).
-/
import Proofs.C18
import Proofs.Enabled
import Properties.C02

namespace Hive
namespace C18

theorem processing_order {vs : List Vehicle} {q' q : Vehicle} (hq' : q' ∈ vs) (hq : q ∈ vs)
    {s' c' s c : Nat} {t' t : Time} (ha' : q'.act = .chargeQueueing s' c' t') (ha : q.act = .chargeQueueing s c t)
    (hlt : t' < t ∨ (t' = t ∧ q'.id < q.id)) :
    ∃ pre mid post, queueOrder vs = pre ++ q' :: mid ++ q :: post :=
  queue_processing_order hq' hq ha' ha hlt

theorem plugs_never_freed_in_queue_phase (env : Env) {w w2 : World} {v : VehicleId} {sid : StationId}
    {cid : ChargerId} {t : Time} {veh : Vehicle} (hwf : w.sim.WF) (hveh : w.sim.vehicle? v = some veh)
    (hact : veh.act = .chargeQueueing sid cid t)
    (h : defaultUpdate env w v (.chargeQueueing sid cid t) = .ok w2) :
    ∀ s c, availOf w2.sim s c ≤ availOf w.sim s c :=
  (queue_update_spec hwf hveh hact h).1

theorem charging_needs_free_plug (env : Env) {w w2 : World} {v : VehicleId} {sid : StationId}
    {cid : ChargerId} {t : Time} {veh veh' : Vehicle} (hwf : w.sim.WF) (hveh : w.sim.vehicle? v = some veh)
    (hact : veh.act = .chargeQueueing sid cid t)
    (h : defaultUpdate env w v (.chargeQueueing sid cid t) = .ok w2) (hv' : w2.sim.vehicle? v = some veh') :
    (veh'.act = .chargingStation sid cid → 0 < availOf w.sim sid cid) ∧
    (0 < availOf w.sim sid cid → leftQueue veh'.act sid cid) :=
  (queue_update_spec hwf hveh hact h).2 veh' hv'

/-- **C18** at the level of the whole update phase -/
theorem fifo (env : Env) {w : World} (hwf : w.sim.WF) {q' q : Vehicle}
    (hq' : q' ∈ w.sim.vehicles) (hq : q ∈ w.sim.vehicles) {sid : StationId} {cid : ChargerId} {t' t : Time}
    (ha' : q'.act = .chargeQueueing sid cid t') (ha : q.act = .chargeQueueing sid cid t)
    (hlt : t' < t ∨ (t' = t ∧ q'.id < q.id))
    (hcharging : ∃ veh, (vehicleUpdates env w).sim.vehicle? q.id = some veh ∧ veh.act = .chargingStation sid cid) :
    ∃ wq' : World,   -- the state when q' 's turn came
      0 < availOf wq'.sim sid cid ∧
      ((∃ w2, defaultUpdate env wq' q'.id q'.act = .ok w2) →
        ∃ veh, (vehicleUpdates env w).sim.vehicle? q'.id = some veh ∧ leftQueue veh.act sid cid) := by
  obtain ⟨pre, mid, post, hord⟩ := processing_order hq' hq ha' ha hlt
  -- split the update fold into the non-queueing part and the queue part
  have hvu : vehicleUpdates env w = qfold env (queueOrder w.sim.vehicles)
      (qfold env (sortBy (fun a b => decide (a.id ≤ b.id))
        (w.sim.vehicles.filter fun v => !(match v.act with | .chargeQueueing _ _ _ => true | _ => false))) w) := by
    unfold vehicleUpdates
    rw [updateOrder_eq]
    exact qfold_append _ _ _
  set others := sortBy (fun a b : Vehicle => decide (a.id ≤ b.id))
    (w.sim.vehicles.filter fun v => !(match v.act with | .chargeQueueing _ _ _ => true | _ => false)) with hothers
  -- ids of the whole order are those of the snapshot
  have hperm := updateOrder_perm w.sim.vehicles
  rw [updateOrder_eq] at hperm
  have hndall : ((others ++ queueOrder w.sim.vehicles).map Vehicle.id).Nodup :=
    (List.Perm.nodup_iff (hperm.map Vehicle.id)).mpr hwf.veh
  rw [List.map_append, List.nodup_append] at hndall
  obtain ⟨hndo, hndq, hdisj⟩ := hndall
  obtain ⟨hwf0, ho0⟩ := fold_frame (env := env) others hwf hndo
  -- every queue vehicle is still as in the snapshot when the queue phase starts
  have hall : ∀ x ∈ queueOrder w.sim.vehicles,
      isQueued x ∧ ∃ veh, (qfold env others w).sim.vehicle? x.id = some veh ∧ veh.act = x.act := by
    intro x hx
    have hxmem : x ∈ w.sim.vehicles := by
      apply hperm.mem_iff.mp
      exact List.mem_append_right _ hx
    have hxq : isQueued x := by
      unfold queueOrder at hx
      rw [(sortBy_perm _ _).mem_iff, List.mem_filter] at hx
      cases hxa : x.act <;> simp [hxa] at hx
      exact ⟨_, _, _, hxa⟩
    refine ⟨hxq, x, ?_, rfl⟩
    rw [ho0 x.id]
    · exact lookup_of_mem hwf.veh hxmem
    · intro hin
      exact hdisj _ hin _ (List.mem_map_of_mem hx) rfl
  rw [hvu, hord] at hcharging ⊢
  rw [hord] at hndq hall
  exact ⟨qfold env pre (qfold env others w), fifo_fold hwf0 hndq hall ha' ha hcharging⟩

section Enabled
variable {env : Env}

/-- **C18 with the turn of the earlier vehicle exposed**: as `C18.fifo`, and the state in which
    `q'`'s turn came is the update fold over a list `L` of vehicles of the snapshot, without
    repetitions, that does not contain `q'` -/
theorem fifo_at (env : Env) {w : World} (hwf : w.sim.WF) {q' q : Vehicle}
    (hq' : q' ∈ w.sim.vehicles) (hq : q ∈ w.sim.vehicles) {sid : StationId} {cid : ChargerId} {t' t : Time}
    (ha' : q'.act = .chargeQueueing sid cid t') (ha : q.act = .chargeQueueing sid cid t)
    (hlt : t' < t ∨ (t' = t ∧ q'.id < q.id))
    (hcharging : ∃ veh, (vehicleUpdates env w).sim.vehicle? q.id = some veh ∧ veh.act = .chargingStation sid cid) :
    ∃ L : List Vehicle, (L.map Vehicle.id).Nodup ∧ q'.id ∉ L.map Vehicle.id ∧ (∀ x ∈ L, x ∈ w.sim.vehicles) ∧
      0 < availOf (qfold env L w).sim sid cid ∧
      ((∃ w2, defaultUpdate env (qfold env L w) q'.id q'.act = .ok w2) →
        ∃ veh, (vehicleUpdates env w).sim.vehicle? q'.id = some veh ∧ leftQueue veh.act sid cid) := by
  obtain ⟨pre, mid, post, hord⟩ := processing_order hq' hq ha' ha hlt
  have hvu : vehicleUpdates env w = qfold env (queueOrder w.sim.vehicles)
      (qfold env (sortBy (fun a b => decide (a.id ≤ b.id))
        (w.sim.vehicles.filter fun v => !(match v.act with | .chargeQueueing _ _ _ => true | _ => false))) w) := by
    unfold vehicleUpdates
    rw [updateOrder_eq]
    exact qfold_append _ _ _
  set others := sortBy (fun a b : Vehicle => decide (a.id ≤ b.id))
    (w.sim.vehicles.filter fun v => !(match v.act with | .chargeQueueing _ _ _ => true | _ => false)) with hothers
  have hperm := updateOrder_perm w.sim.vehicles
  rw [updateOrder_eq] at hperm
  have hndall0 : ((others ++ queueOrder w.sim.vehicles).map Vehicle.id).Nodup :=
    (List.Perm.nodup_iff (hperm.map Vehicle.id)).mpr hwf.veh
  have hndall := hndall0
  rw [List.map_append, List.nodup_append] at hndall
  obtain ⟨hndo, hndq, hdisj⟩ := hndall
  obtain ⟨hwf0, ho0⟩ := fold_frame (env := env) others hwf hndo
  have hall : ∀ x ∈ queueOrder w.sim.vehicles,
      isQueued x ∧ ∃ veh, (qfold env others w).sim.vehicle? x.id = some veh ∧ veh.act = x.act := by
    intro x hx
    have hxmem : x ∈ w.sim.vehicles := by
      apply hperm.mem_iff.mp
      exact List.mem_append_right _ hx
    have hxq : isQueued x := by
      unfold queueOrder at hx
      rw [(sortBy_perm _ _).mem_iff, List.mem_filter] at hx
      cases hxa : x.act <;> simp [hxa] at hx
      exact ⟨_, _, _, hxa⟩
    refine ⟨hxq, x, ?_, rfl⟩
    rw [ho0 x.id]
    · exact lookup_of_mem hwf.veh hxmem
    · intro hin
      exact hdisj _ hin _ (List.mem_map_of_mem hx) rfl
  rw [hvu, hord] at hcharging ⊢
  rw [hord] at hndq hall hndall0
  have hmain := fifo_fold hwf0 hndq hall ha' ha hcharging
  rw [← qfold_append] at hmain
  refine ⟨others ++ pre, ?_, ?_, ?_, hmain⟩
  · -- a prefix of the order: no repetitions
    have : (others ++ (pre ++ q' :: mid ++ q :: post)) = (others ++ pre) ++ (q' :: mid ++ q :: post) := by simp
    rw [this, List.map_append, List.nodup_append] at hndall0
    exact hndall0.1
  · intro hin
    have : (others ++ (pre ++ q' :: mid ++ q :: post)) = (others ++ pre) ++ (q' :: mid ++ q :: post) := by simp
    rw [this, List.map_append, List.nodup_append] at hndall0
    exact hndall0.2.2 _ hin _ (List.mem_map_of_mem (by simp)) rfl
  · intro x hx
    apply hperm.mem_iff.mp
    rw [hord]
    rcases List.mem_append.mp hx with h | h
    · exact List.mem_append_left _ h
    · exact List.mem_append_right _ (by simp [h])

/-- **C18 without the enabledness hypothesis**: if the counters match the vehicles (C02) and the
    earlier vehicle `q'` is where its entry into the queue required it to be - at the station, with
    access, able to use the plug type, registered mechatronics (C07, C10 and the repaired
    `ChargeQueueing.enter` keep these) - then `q'`'s own update goes through, so: whenever a later
    arrival `q` leaves the queue to charge, `q'` has left the queue too -/
theorem fifo_enabled (hf : ∀ c, env.inFence c = true) (hc : EnvCongr env) {w : World} (hwf : w.sim.WF)
    (h02 : inv02 w.sim = true) {q' q : Vehicle}
    (hq' : q' ∈ w.sim.vehicles) (hq : q ∈ w.sim.vehicles) {sid : StationId} {cid : ChargerId} {t' t : Time}
    (ha' : q'.act = .chargeQueueing sid cid t') (ha : q.act = .chargeQueueing sid cid t)
    (hlt : t' < t ∨ (t' = t ∧ q'.id < q.id))
    {st : Station} {cs : ChargerState} (hst : w.sim.station? sid = some st) (hcs : st.plug? cid = some cs)
    (hknown : env.mechKnown q'.mech = true) (hloc : q'.pos.cell = st.pos.cell)
    (hacc : st.members.grants q'.members = true) (huse : env.validCharger q' cs = true)
    (hcharging : ∃ veh, (vehicleUpdates env w).sim.vehicle? q.id = some veh ∧ veh.act = .chargingStation sid cid) :
    ∃ veh, (vehicleUpdates env w).sim.vehicle? q'.id = some veh ∧ leftQueue veh.act sid cid := by
  obtain ⟨L, hnd, hnot, hmem, _, himp⟩ := fifo_at env hwf hq' hq ha' ha hlt hcharging
  apply himp
  -- q' is untouched when its turn comes
  obtain ⟨hwfq, hoq⟩ := fold_frame (env := env) L hwf hnd
  have hvq : (qfold env L w).sim.vehicle? q'.id = some q' := by
    rw [hoq _ hnot]; exact lookup_of_mem hwf.veh hq'
  -- the station is statically the same
  obtain ⟨_, hstat⟩ := fold_static (env := env) L hwf
  have hs := hstat sid
  rw [hst] at hs
  cases hst1 : (qfold env L w).sim.station? sid with
  | none => rw [hst1] at hs; cases hs
  | some st1 =>
    rw [hst1] at hs
    simp only [Option.map_some, Option.some.injEq, stnStatic, Prod.mk.injEq] at hs
    obtain ⟨hpos, hmemb, hplugs⟩ := hs
    -- the plug type is statically the same
    have hpl := lookup_core (f := plugStatic) (key := ChargerState.id) (fun c => c.1) (fun _ => rfl) hplugs cid
    have hcs' : lookup ChargerState.id st.plugs cid = some cs := hcs
    rw [hcs'] at hpl
    cases hcs1 : lookup ChargerState.id st1.plugs cid with
    | none => rw [hcs1] at hpl; cases hpl
    | some cs1 =>
      rw [hcs1] at hpl
      simp only [Option.map_some, Option.some.injEq] at hpl
      -- the counters still match: the queue counter counts q'
      have honest : ∀ x ∈ L, ∃ veh, w.sim.vehicle? x.id = some veh ∧ veh.act = x.act :=
        fun x hx => ⟨x, lookup_of_mem hwf.veh (hmem x hx), rfl⟩
      have h02q : inv02 (qfold env L w).sim = true :=
        (updates_fold_inv (C02.runInv env).toStepInv hwf h02 hnd honest).1
      have henq : 0 < cs1.enq := by
        unfold inv02 at h02q
        simp only [Bool.and_eq_true, List.all_eq_true] at h02q
        have h1 := h02q.1 st1 (station?_some hst1).1
        unfold stationOk at h1
        simp only [List.all_eq_true] at h1
        have h2 := h1 cs1 (lookup_some hcs1).1
        unfold plugOk at h2
        simp only [Bool.and_eq_true, beq_iff_eq] at h2
        rw [h2.2]
        apply List.countP_pos_iff.mpr
        refine ⟨q', (vehicle?_some hvq).1, ?_⟩
        simp [queuesFor, ha', (station?_some hst1).2, (lookup_some hcs1).2]
      have huse1 : env.validCharger q' cs1 = true := by rw [hc.valid q' cs1 cs hpl]; exact huse
      rw [ha']
      exact queue_turn_succeeds hf hc hvq hst1 hcs1 hknown (by rw [hloc, hpos]) (by rw [hmemb]; exact hacc) huse1 henq

end Enabled

/-! non-vacuity: the processing order of a small snapshot -/
private def p0 : Pos := ⟨0, 0⟩
private def veh (i : Nat) (a : Act) : Vehicle := ⟨i, p0, [], 0, ⟨1, 0, 0⟩, a, .autonomous, 0, 0⟩
example : (updateOrder [veh 5 (.chargeQueueing 0 0 120), veh 2 (.chargeQueueing 0 0 60), veh 9 (.idle 0),
    veh 1 (.chargeQueueing 0 0 120), veh 3 (.chargingStation 0 0)]).map Vehicle.id = [3, 9, 2, 1, 5] := by decide

end C18
end Hive
