/-
  Property C18 — charging queues are served first-come first-served.

  Model: `perform_vehicle_state_updates` processes the non-queueing vehicles by id, then the
  queueing ones by (enqueue time, id); a queued vehicle leaves the queue for `ChargingStation`
  in its own update iff a plug of its type is free at that moment.

  Theorems (every environment, every snapshot, any number of vehicles and stations):
  * `processing_order` — vehicles queued for the same or different plugs are processed in order
    of arrival in the queue, ties broken by id;
  * `plugs_never_freed_in_queue_phase`, `charging_needs_free_plug` — facts about one queued update;
  * `fifo` — if after the update phase `q` has left queue (station, plug) to charge there, then
    for every `q'` that joined that queue strictly earlier: a plug was free when `q'`'s turn came,
    and `q'` is no longer waiting either (`leftQueue`: it is charging there, or - being full, with
    nothing to charge - it has left the queue for Idle) unless its own update failed (its
    transition was not enabled — with the repaired `ChargeQueueing` a queued vehicle is at the
    station (C07), has access (C10), can use the plug (F12) and is not sent to a plug it cannot
    draw from when full (F23), so this only happens on an environment error).
-/
import Proofs.C18

namespace Hive
namespace C18

theorem processing_order {vs : List Vehicle} {q' q : Vehicle} (hq' : q' ∈ vs) (hq : q ∈ vs)
    {s' c' s c : Nat} {t' t : Time} (ha' : q'.act = .chargeQueueing s' c' t') (ha : q.act = .chargeQueueing s c t)
    (hlt : t' < t ∨ (t' = t ∧ q'.id < q.id)) :
    ∃ pre mid post, queueOrder vs = pre ++ q' :: mid ++ q :: post :=
  queue_processing_order hq' hq ha' ha hlt

theorem plugs_never_freed_in_queue_phase (env : Env) {w w2 : World} {v : VehicleId} {sid : StationId}
    {cid : ChargerId} {t : Time} {veh : Vehicle} (hwf : w.sim.WF) (hveh : w.sim.vehicle? v = some veh)
    (hact : veh.act = .chargeQueueing sid cid t)
    (h : defaultUpdate env w v (.chargeQueueing sid cid t) = .ok w2) :
    ∀ s c, availOf w2.sim s c ≤ availOf w.sim s c :=
  (queue_update_spec hwf hveh hact h).1

theorem charging_needs_free_plug (env : Env) {w w2 : World} {v : VehicleId} {sid : StationId}
    {cid : ChargerId} {t : Time} {veh veh' : Vehicle} (hwf : w.sim.WF) (hveh : w.sim.vehicle? v = some veh)
    (hact : veh.act = .chargeQueueing sid cid t)
    (h : defaultUpdate env w v (.chargeQueueing sid cid t) = .ok w2) (hv' : w2.sim.vehicle? v = some veh') :
    (veh'.act = .chargingStation sid cid → 0 < availOf w.sim sid cid) ∧
    (0 < availOf w.sim sid cid → leftQueue veh'.act sid cid) :=
  (queue_update_spec hwf hveh hact h).2 veh' hv'

/-- **C18** at the level of the whole update phase -/
theorem fifo (env : Env) {w : World} (hwf : w.sim.WF) {q' q : Vehicle}
    (hq' : q' ∈ w.sim.vehicles) (hq : q ∈ w.sim.vehicles) {sid : StationId} {cid : ChargerId} {t' t : Time}
    (ha' : q'.act = .chargeQueueing sid cid t') (ha : q.act = .chargeQueueing sid cid t)
    (hlt : t' < t ∨ (t' = t ∧ q'.id < q.id))
    (hcharging : ∃ veh, (vehicleUpdates env w).sim.vehicle? q.id = some veh ∧ veh.act = .chargingStation sid cid) :
    ∃ wq' : World,   -- the state when q' 's turn came
      0 < availOf wq'.sim sid cid ∧
      ((∃ w2, defaultUpdate env wq' q'.id q'.act = .ok w2) →
        ∃ veh, (vehicleUpdates env w).sim.vehicle? q'.id = some veh ∧ leftQueue veh.act sid cid) := by
  obtain ⟨pre, mid, post, hord⟩ := processing_order hq' hq ha' ha hlt
  -- split the update fold into the non-queueing part and the queue part
  have hvu : vehicleUpdates env w = qfold env (queueOrder w.sim.vehicles)
      (qfold env (sortBy (fun a b => decide (a.id ≤ b.id))
        (w.sim.vehicles.filter fun v => !(match v.act with | .chargeQueueing _ _ _ => true | _ => false))) w) := by
    unfold vehicleUpdates
    rw [updateOrder_eq]
    exact qfold_append _ _ _
  set others := sortBy (fun a b : Vehicle => decide (a.id ≤ b.id))
    (w.sim.vehicles.filter fun v => !(match v.act with | .chargeQueueing _ _ _ => true | _ => false)) with hothers
  -- ids of the whole order are those of the snapshot
  have hperm := updateOrder_perm w.sim.vehicles
  rw [updateOrder_eq] at hperm
  have hndall : ((others ++ queueOrder w.sim.vehicles).map Vehicle.id).Nodup :=
    (List.Perm.nodup_iff (hperm.map Vehicle.id)).mpr hwf.veh
  rw [List.map_append, List.nodup_append] at hndall
  obtain ⟨hndo, hndq, hdisj⟩ := hndall
  obtain ⟨hwf0, ho0⟩ := fold_frame (env := env) others hwf hndo
  -- every queue vehicle is still as in the snapshot when the queue phase starts
  have hall : ∀ x ∈ queueOrder w.sim.vehicles,
      isQueued x ∧ ∃ veh, (qfold env others w).sim.vehicle? x.id = some veh ∧ veh.act = x.act := by
    intro x hx
    have hxmem : x ∈ w.sim.vehicles := by
      apply hperm.mem_iff.mp
      exact List.mem_append_right _ hx
    have hxq : isQueued x := by
      unfold queueOrder at hx
      rw [(sortBy_perm _ _).mem_iff, List.mem_filter] at hx
      cases hxa : x.act <;> simp [hxa] at hx
      exact ⟨_, _, _, hxa⟩
    refine ⟨hxq, x, ?_, rfl⟩
    rw [ho0 x.id]
    · exact lookup_of_mem hwf.veh hxmem
    · intro hin
      exact hdisj _ hin _ (List.mem_map_of_mem hx) rfl
  rw [hvu, hord] at hcharging ⊢
  rw [hord] at hndq hall
  exact ⟨qfold env pre (qfold env others w), fifo_fold hwf0 hndq hall ha' ha hcharging⟩

/-! non-vacuity: the processing order of a small snapshot -/
private def p0 : Pos := ⟨0, 0⟩
private def veh (i : Nat) (a : Act) : Vehicle := ⟨i, p0, [], 0, ⟨1, 0, 0⟩, a, .autonomous, 0, 0⟩
example : (updateOrder [veh 5 (.chargeQueueing 0 0 120), veh 2 (.chargeQueueing 0 0 60), veh 9 (.idle 0),
    veh 1 (.chargeQueueing 0 0 120), veh 3 (.chargingStation 0 0)]).map Vehicle.id = [3, 9, 2, 1, 5] := by decide

end C18
end Hive
